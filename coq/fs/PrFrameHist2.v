(* PROOFS, C04 second sentence (continued): the frame obligation PrFrameHist.step_frame for the
   operations on a DIRECTORY HANDLE that write nothing (OpenRoot, OpenDir, CloseDir, Find, Iter, Label)
   and for OpenFile in every mode and every outcome:
     refusals, modes that keep the file    nothing changes
     truncation                            the FAT entries of the chain of the file found; its slot
     creation, free slot                   that slot
     creation, directory full              the last entry of the directory's chain and the entry of a
                                           cluster that was free; the blocks of that cluster
   The runs are those of PrGlobalOpen / PrGlobalOpen2, cut as in PrC16Open. *)
From Coq Require Import NArith ZArith List Bool Lia Arith ZifyClasses ZifyInst Zify Permutation.
From SdFs Require Import FsTypes FsBase FsFat FsMgr FsLemmas PrBase PrFat PrAlloc PrDir PrSeek PrAllocEffect
  PrRw PrWrite PrFileSeq PrMulti PrEntry PrChain PrCount PrWf PrOpenClose PrGlobalDef PrGlobalWrite
  PrGlobalOpen PrGlobalOpen2 PrFrameHist.
From SdFs Require PrModes PrHandles PrCrash PrBounds PrOrder PrGlobal PrCrashDef3 PrC16Open.
Import ListNotations.
Open Scope N_scope.
Local Arguments N.mul : simpl never.
Local Arguments N.add : simpl never.
Local Arguments N.sub : simpl never.
Local Arguments N.div : simpl never.
Local Arguments N.modulo : simpl never.
Local Arguments N.land : simpl never.
Local Arguments N.lor : simpl never.
Local Arguments N.min : simpl never.
Local Arguments N.max : simpl never.
Local Ltac Zify.zify_post_hook ::= Z.to_euclidean_division_equations.

(* ================================================================== 1. nothing is written *)
Theorem step_frame_OpenRoot fsz vid h : step_frame fsz vid (OpenRoot h).
Proof. apply step_frame_of_quiet; [intros; repeat split|]. cbn [step]. apply PrCrashDef3.quiet_lift, PrCrashDef3.quiet_open_root_dir. Qed.
Theorem step_frame_OpenDir fsz vid h name : step_frame fsz vid (OpenDir h name).
Proof. apply step_frame_of_quiet; [intros; repeat split|]. cbn [step]. apply PrCrashDef3.quiet_lift, PrCrashDef3.quiet_open_dir. Qed.
Theorem step_frame_CloseDir fsz vid h : step_frame fsz vid (CloseDir h).
Proof. apply step_frame_of_quiet; [intros; repeat split|]. cbn [step]. apply PrCrashDef3.quiet_lift, PrCrashDef3.quiet_close_dir. Qed.
Theorem step_frame_Find fsz vid h name : step_frame fsz vid (Find h name).
Proof. apply step_frame_of_quiet; [intros; repeat split|]. cbn [step]. apply PrCrashDef3.quiet_lift, PrCrashDef3.quiet_mgr_find. Qed.
Theorem step_frame_Label fsz vid h : step_frame fsz vid (Label h).
Proof. apply step_frame_of_quiet; [intros; repeat split|]. cbn [step]. apply PrCrashDef3.quiet_lift, PrCrashDef3.quiet_get_root_volume_label. Qed.

(* Iter: the listing only reads; the callback - any operation in scope - is refused by the lock *)
Theorem step_frame_Iter fsz vid d inner : step_frame fsz vid (Iter d inner).
Proof.
  apply step_frame_quiet; [intros; repeat split|].
  intros s r s' Hinv _ ((Hnr & _) & _) Hs. exact (proj1 (PrC16Open.still_Iter fsz vid d inner s r s' Hinv Hnr Hs)).
Qed.

(* ================================================================== 2. OpenFile *)
Lemma resolves_dir_id s h di dd vi v : PrModes.resolves s h di dd vi v -> In dd (s_dirs s) /\ d_id dd = h.
Proof.
  intros (_ & H1 & H2 & _). rewrite PrHandles.get_dir_by_id_eq in H1. rewrite PrHandles.get_dir_eq in H2.
  destruct (find_idx (fun x => d_id x =? h) (s_dirs s) 0) as [i|] eqn:E; [|discriminate H1]. injection H1 as ->.
  destruct (nth_error (s_dirs s) di) as [x|] eqn:En; [|discriminate H2]. injection H2 as ->.
  split; [exact (nth_error_In _ _ En)|].
  destruct (find_idx_nth _ _ _ _ E) as (y & Hn & Hy). rewrite Nat.sub_0_r, En in Hn. injection Hn as <-.
  apply N.eqb_eq. exact Hy.
Qed.

(* the blocks of a directory of the tree are directory blocks *)
Lemma ctx_block_in_tree d v bl T dc bl' parent kids b : dir_ctx d v bl T dc bl' parent kids -> In b bl' ->
  In b (tree_dir_blocks v bl T).
Proof.
  intros Hctx Hb. apply gw_tree_dir_blocks_iff.
  destruct (dx_where _ _ _ _ _ _ _ _ Hctx) as [(_ & -> & _)|(e0 & ch0 & Hn & _ & -> & _)].
  - left. exact Hb.
  - right. exists e0, ch0, kids. split; assumption.
Qed.

(* ---- the truncating open ---- *)
Lemma open_trunc_frame fsz vid s vi v bl rch T h name di dd sfn bl' parent kids s1 md t :
  open_ctx fsz vid s vi v bl rch T h name di dd sfn bl' parent kids s1 ->
  find (t_matches sfn) (live_in_blocks (s_disk s) bl') = Some t ->
  PrModes.open_refusal md (Ok (t_entry (v_fat32 v) t)) (PrModes.is_open s1 (d_vol dd) (t_entry (v_fat32 v) t)) = None ->
  md = ReadWriteTruncate \/ md = ReadWriteCreateOrTruncate ->
  let e := t_entry (v_fat32 v) t in
  exists id s' tg b, open_file_in_dir h name md s = (Ok id, s') /\
    call_frame fsz v (heads v T ++ pend_of s v) (s_disk s) (s_disk s') tg [] (Some (e_block e, e_offset e, b)) /\
    (forall x, In x tg -> x = e_cluster e) /\ length b = 32%nat.
Proof.
  intros [Hat Hfresh Hres Hvol Hroom Hsfn He5 Hdot Hctx Hlook Hro Hrd] Hfind Href Hmd e0.
  rewrite Hfind in Hlook. set (e := t_entry (v_fat32 v) t) in *. subst e0.
  destruct (refusal_none_ok _ _ _ Href) as (Hop & Hnd & _).
  pose proof (go_ro _ _ _ _ _ _ _ _ _ Hat Hro) as Hat1.
  pose proof Hro as (Hd & Hc1 & Hnf1 & Hm1). pose proof Hm1 as (M1 & M2 & M3 & M4 & M5 & M6 & _).
  pose proof (sfn_of_str_wf _ _ Hsfn) as Hwf.
  pose proof Hctx as Hctx0. pose proof Hfind as Hfind0.
  rewrite <- Hd in Hctx, Hfind.
  destruct (found_file _ _ _ _ _ _ _ _ _ _ Hctx Hwf He5 Hdot Hfind Hnd) as (ch & Hk & Hall & Hr & Hn & Hshort & Hname).
  fold e in Hk, Hall, Hr.
  destruct (node_rep_slot _ _ _ _ _ Hr Hn) as (Hb & Ho & Hts & Hde & Hns). cbn [node_entry] in Hb, Ho, Hts, Hde.
  (* the handle counter advances *)
  set (sg := set_s_next_id s1 ((s_next_id s1 + 1) mod U32)).
  pose proof (go_bump _ _ _ _ _ _ _ _ ((s_next_id s1 + 1) mod U32) Hat1) as Hatg. fold sg in Hatg.
  destruct (go_facts _ _ _ _ _ _ _ _ Hatg) as (Hlg & Hnfg & Hcg & Evg & E0 & Hv0g & Hv & L & Hwfg & Hvid). subst vi.
  (* the chain is cut *)
  destruct (trunc_step _ _ _ _ _ _ _ _ e ch Hatg Hall) as (s2 & v2 & ws1 & Htr & G & Evols2 & Hpre2 & Hwf2 & Htabs & F4 & Hcase & Hts1 & Hcl1).
  pose proof Hpre2 as ((Hnf2 & Hc2 & Hvi2 & Hlen2) & L2 & Hh2).
  (* the clock is read, the entry is rewritten *)
  set (now := clock_ts (s_clock s2)).
  set (s3 := set_s_clock s2 (s_clock s2 + 1)).
  set (e' := set_e_mtime (set_e_size e 0) now).
  assert (Ects : ts_ok (e_ctime e)) by (unfold e, t_entry, get_entry; apply ts_from_fat_ok).
  destruct (write_entry_to_disk_spec v2 e' s3 Hnf2 Hc2 Ects ltac:(apply ts_cal_ok, clock_ts_cal) Ho)
    as (s4 & Hwrite & Hd4 & _ & _ & _ & _ & _ & _ & Hm4 & _).
  cbn [e_block e' set_e_mtime set_e_size] in Hd4.
  change (s_disk s3) with (s_disk s2) in Hd4.
  pose proof Hm4 as (Q1 & _).
  set (nf := mk_fileinfo (s_next_id s1) (d_vol dd) 0 (e_cluster e) 0 ReadWriteTruncate e' false).
  (* the run *)
  assert (Hopen : open_file_in_dir h name md s = (Ok (s_next_id s1), set_s_files s4 (s_files s4 ++ [nf]))).
  { pose proof (PrModes.resolves_vol_id _ _ _ _ _ _ Hres) as Hvid'.
    assert (Htail : (truncate_cluster_chain 0%nat (e_cluster e) ;;;
                     now0 <- get_timestamp ;;
                     v' <- get_vol 0%nat ;;
                     write_entry_to_disk v' (set_e_mtime (set_e_size e 0) now0) ;;;
                     push_file (set_f_entry (mk_fileinfo (s_next_id s1) (d_vol dd) 0 (e_cluster e) 0
                                                         ReadWriteTruncate e false)
                                            (set_e_mtime (set_e_size e 0) now0)) ;;; ret (s_next_id s1)) sg
                    = (Ok (s_next_id s1), set_s_files s4 (s_files s4 ++ [nf]))).
    { rewrite (bind_ok _ _ _ _ _ Htr), (bind_ok _ _ _ _ _ (get_timestamp_eq s2)).
      rewrite (bind_ok _ _ _ _ _ (get_vol_some 0%nat _ s3 Hvi2)), (bind_ok _ _ _ _ _ Hwrite). reflexivity. }
    unfold open_file_in_dir. PrModes.open_prefix Hres Hroom Hsfn.
    unfold PrModes.dot_name in Hdot. rewrite Hdot.
    unfold bind at 1. unfold try. rewrite Hlook.
    rewrite PrModes.bind_ret, (bind_ok _ _ _ _ _ (PrModes.file_is_open_eq _ _ _)), Hvid'.
    cbn [PrModes.open_refusal] in Href.
    destruct (PrModes.is_open s1 (d_vol dd) e) eqn:Hop'; [discriminate|].
    destruct (mode_eqb md ReadWriteCreate) eqn:Hcm; [discriminate|].
    destruct (is_read_only (e_attr e) && negb (mode_eqb md ReadOnly)) eqn:Hrr; [discriminate|].
    destruct (is_directory (e_attr e)) eqn:Hdd; [discriminate|].
    destruct Hmd as [-> | ->]; cbn [solve_mode_variant mode_eqb] in *;
      rewrite Hrr, (bind_ok _ _ _ _ _ (PrModes.file_is_open_eq _ _ _)), Hop',
              (bind_ok _ _ _ _ _ (generate_spec s1)); exact Htail. }
  (* the frame *)
  assert (Hoffe : off_fat v fsz (e_block e)) by exact (node_block_off_fat _ _ _ _ _ _ _ _ _ Hatg Hall).
  assert (E32 : v_fat32 v2 = v_fat32 v) by (destruct G as (a & b0 & ->); reflexivity).
  set (bytes := ser_bytes (v_fat32 v) e').
  assert (Hlenb : length bytes = 32%nat).
  { unfold bytes. apply ser_bytes_length. change (e_name e') with (e_name e).
    unfold e. rewrite t_entry_name, Hname. exact (proj1 Hwf). }
  assert (Hdg : s_disk sg = s_disk s) by (change (s_disk sg) with (s_disk s1); exact Hd).
  pose proof (fi_disk _ _ _ _ _ _ _ _ Hatg) as Hdisk.
  destruct (all_nodes_rep _ _ _ _ (di_tree _ _ _ _ _ _ Hdisk) _ Hall) as (t0 & bl0 & Hr0 & _).
  apply node_rep_file in Hr0. destruct Hr0 as (_ & _ & Hech).
  (* the FAT part: the entries of the chain of the file *)
  assert (Ftr : exists F, fr v fsz F [] (s_disk sg) (s_disk s2) /\
            (forall x, In x F -> 2 <= e_cluster e /\ In x (chain_l (s_disk sg) v (e_cluster e))) /\
            val_ok v fsz (s_disk sg) (s_disk s2)).
  { destruct Hech as [(A1 & fu & A2)|(A1 & ->)].
    - destruct (chain_of_head _ _ _ _ _ A2) as (_ & C2 & rest & Ech). rewrite Ech in A2.
      pose proof (fi_vol _ _ _ _ _ _ _ _ Hatg) as (_ & (Hst & _) & _).
      destruct (PrChain.truncate_cluster_chain_effect 0%nat v fsz sg (e_cluster e) rest fu L Hst A2) as (s2' & Hrun' & Heff).
      rewrite Htr in Hrun'. injection Hrun' as <-.
      exists (e_cluster e :: rest). split; [exact (fr_trunc _ _ _ _ _ _ _ Heff)|]. split.
      + intros x Hx. split; [exact A1|]. rewrite (chain_l_at _ _ _ _ (chain_at_any _ _ _ _ _ A2)). exact Hx.
      + exact (val_trunc 0%nat v v fsz sg _ rest s2 _ (geo_eq_refl v) (val_refl v fsz _) Heff).
    - rewrite (PrChain.truncate_reserved 0%nat _ sg A1) in Htr. injection Htr as <-.
      exists []. split; [apply fr_refl|]. split; [intros x []|apply val_refl]. }
  destruct Ftr as (F & Ftr & HF & Vtr). rewrite Hdg in Ftr, HF, Vtr.
  assert (Hdir : PrBounds.in_dir v (e_block e)).
  { apply (gw_dir_block_in_dir _ _ _ _ _ _ _ _ Hat).
    apply (ctx_block_in_tree _ _ _ _ _ _ _ _ _ Hctx0).
    exact Hb. }
  set (tg := if 2 <=? e_cluster e then [e_cluster e] else []).
  exists (s_next_id s1). eexists. exists tg, bytes. split; [exact Hopen|]. split; [|split; [|exact Hlenb]].
  2:{ unfold tg. intros x Hx. destruct (2 <=? e_cluster e); [|destruct Hx]. destruct Hx as [<-|[]]. reflexivity. }
  cbn [s_disk set_s_files].
  split.
  { apply (val_same v fsz _ (s_disk s2) _ [e_block e]); [exact Vtr|]. rewrite Hd4. apply fr_set. exact Hoffe. }
  exists (F ++ []), ([] ++ [e_block e]). split.
  { apply (fr_trans v fsz _ _ _ _ _ _ _ Ftr). rewrite Hd4. apply fr_set. exact Hoffe. }
  split.
  { unfold tg. intros x Hx. destruct (N.leb_spec 2 (e_cluster e)) as [H2|H2]; [|destruct Hx]. destruct Hx as [<-|[]].
    apply in_or_app. left. unfold heads. apply in_or_app. right. apply (own_head_in T _ _ Hall).
    cbn [own_head]. apply N.leb_le in H2. rewrite H2. left. reflexivity. }
  split; [intros x []|]. split.
  { intros c Hc. rewrite app_nil_r in Hc. destruct (HF c Hc) as (H2 & Hin). left.
    unfold tg. apply N.leb_le in H2. rewrite H2. cbn [flat_map]. rewrite app_nil_r. exact Hin. }
  split.
  { intros j [<-|[]]. right. right. left. eexists. eexists. reflexivity. }
  intros j off b E. injection E as <- <- <-. split; [exact Hdir|]. split.
  { rewrite Hlenb. change (N.of_nat 32) with 32. exact Ho. }
  left. rewrite Hd4, disk_get_set_same. unfold put_entry. change (e_offset e') with (e_offset e).
  rewrite (F4 _ Hoffe), Hdg, E32. reflexivity.
Qed.

(* ---- the creating open: one slot of a directory block is written ---- *)
Lemma create_slot_frame fsz vid s vi v bl rch T h name di dd sfn bl' parent kids s1 blk off sl0 s2 e :
  open_ctx fsz vid s vi v bl rch T h name di dd sfn bl' parent kids s1 ->
  find nv (slots_of (s_disk s1) bl') = Some (blk, off, sl0) ->
  length (e_name e) = 11%nat ->
  s_disk s2 = disk_set (s_disk s1) blk (set_bytes (disk_get (s_disk s1) blk) off (ser_bytes (v_fat32 v) e)) ->
  forall s', s_disk s' = s_disk s2 ->
    call_frame fsz v (heads v T ++ pend_of s v) (s_disk s) (s_disk s') [] [] (Some (blk, off, ser_bytes (v_fat32 v) e)).
Proof.
  intros [Hat Hfresh Hres Hvol Hroom Hsfn He5 Hdot Hctx Hlook Hro Hrd] Hfree Hlen Hd2 s' Ed.
  pose proof (go_ro _ _ _ _ _ _ _ _ _ Hat Hro) as Hat1.
  pose proof Hro as (Hd & _ & _ & Hm1).
  destruct (go_facts _ _ _ _ _ _ _ _ Hat1) as (_ & _ & _ & Ev1 & E0 & _ & Hv & L & _). subst vi.
  pose proof (find_some _ _ Hfree) as [Hin _]. apply In_slots_of in Hin.
  destruct Hin as (b & i & Hb & Hi & Et). injection Et as E1 E2 E3. subst b.
  assert (Hoffb : off_fat v fsz blk).
  { destruct (dx_where _ _ _ _ _ _ _ _ Hctx) as [(_ & -> & _)|(e0 & ch0 & _ & _ & -> & Hch0 & _)].
    - exact (root_blocks_off_fat _ _ _ _ _ _ _ _ _ Hat1 Hb).
    - exact (chain_blocks_off_fat fsz _ v _ _ _ L Hch0 Hb). }
  assert (Hdir : PrBounds.in_dir v blk).
  { apply (gw_dir_block_in_dir _ _ _ _ _ _ _ _ Hat). exact (ctx_block_in_tree _ _ _ _ _ _ _ _ _ Hctx Hb). }
  assert (Fs : fr v fsz [] [blk] (s_disk s) (s_disk s')) by (rewrite Ed, Hd2, Hd; apply fr_set; exact Hoffb).
  split; [exact (val_same v fsz _ _ _ _ (val_refl v fsz _) Fs)|].
  exists [], [blk]. split; [exact Fs|].
  split; [intros x []|]. split; [intros x []|]. split; [intros c []|]. split.
  { intros j [<-|[]]. right. right. left. eexists. eexists. reflexivity. }
  intros j off0 b E. injection E as <- <- <-. split; [exact Hdir|]. split.
  { rewrite (ser_bytes_length _ _ Hlen). change (N.of_nat 32) with 32. subst off. clear - Hi. lia. }
  left. rewrite Ed, Hd2, disk_get_set_same, Hd. reflexivity.
Qed.

(* ---- the creating open: the directory grows by one cluster, then slot 0 of its first block is written ---- *)
Lemma create_grow_frame fsz vid s vi v bl rch T h name di dd sfn bl' parent kids s1 ch s0 cn sa en s2 :
  open_ctx fsz vid s vi v bl rch T h name di dd sfn bl' parent kids s1 ->
  chain_at (s_disk s1) v (dir_first_cluster v (d_cluster dd)) ch ->
  qstep s1 s0 -> alloc_pre s0 0%nat v fsz ->
  alloc_cluster 0%nat (Some (last ch (dir_first_cluster v (d_cluster dd)))) true s0 = (Ok cn, sa) ->
  create_post (v_fat32 v) sfn 0 CL_EMPTY (cluster_first_block v cn) 0 sa en s2 ->
  forall s', s_disk s' = s_disk s2 ->
    free_cl (s_disk s) v cn /\
    call_frame fsz v (heads v T ++ pend_of s v) (s_disk s) (s_disk s') [dir_first_cluster v (d_cluster dd)] []
      (Some (cluster_first_block v cn, 0, ser_bytes (v_fat32 v) en)).
Proof.
  intros [Hat Hfresh Hres Hvol Hroom Hsfn He5 Hdot Hctx Hlook Hro Hrd] Hch Hq0 Hpre0 Hal Hpost s' Ed.
  set (c0 := dir_first_cluster v (d_cluster dd)) in *.
  pose proof (go_ro _ _ _ _ _ _ _ _ _ Hat Hro) as Hat1.
  pose proof (go_ro _ _ _ _ _ _ _ _ _ Hat1 (proj1 Hq0)) as Hat0.
  pose proof Hro as (Hd & _ & _ & Hm1).
  pose proof (proj1 Hq0) as (Hd0 & _ & _ & Hm0).
  rewrite <- Hd0 in Hch.
  destruct (go_facts _ _ _ _ _ _ _ _ Hat0) as (_ & _ & _ & Ev0 & E0 & _ & Hv & L & _). subst vi.
  pose proof (fi_vol _ _ _ _ _ _ _ _ Hat0) as (_ & _ & Hfit & Hspc & _).
  (* the last cluster of the directory *)
  destruct (chain_at_head _ _ _ _ Hch) as (r0 & Ech).
  assert (Hlast : In (last ch c0) ch) by (rewrite Ech; apply last_in_cons).
  set (p := last ch c0) in *.
  destruct (chain_at_mem _ _ _ _ p Hch Hlast) as (P1 & P2 & P3 & _).
  assert (Hprev : forall p0, Some p = Some p0 -> p0 < v_clusters v + 2) by (intros p0 E; injection E as <-; exact P2).
  pose proof (alloc_cluster_effect 0%nat v fsz (Some p) true s0 cn sa Hpre0 Hprev Hal) as Heff.
  destruct (ae_range _ _ _ _ _ _ _ _ Heff) as (C1 & C2 & C3).
  pose proof (fr_alloc 0%nat v fsz (Some p) true s0 cn sa L Hprev Heff) as Fa. cbn [prev_list] in Fa.
  (* the entry is written into the first block of the new cluster *)
  unfold create_post in Hpost. cbv zeta in Hpost. destruct Hpost as (Een & Hd2 & _ & _ & _ & Htab2 & _).
  set (B := cluster_first_block v cn) in *.
  assert (HB : In B (cluster_blocks v cn)).
  { rewrite (PrBounds.cluster_blocks_cons v cn) by lia. left. reflexivity. }
  assert (HoffB : off_fat v fsz B) by exact (cluster_block_off_fat fsz v cn B L C1 HB).
  assert (Hzero : disk_get (s_disk sa) B = zero_block).
  { unfold B. rewrite <- (N.add_0_r (cluster_first_block v cn)). exact (ae_zero _ _ _ _ _ _ _ _ Heff eq_refl 0 Hspc). }
  assert (Ed0 : s_disk s0 = s_disk s) by (rewrite Hd0; exact Hd).
  assert (Hfree : free_cl (s_disk s) v cn) by (rewrite <- Ed0; repeat split; assumption).
  split; [exact Hfree|].
  (* c0 is a head *)
  pose proof (dx_where _ _ _ _ _ _ _ _ Hctx) as Hwhere.
  assert (Hc0 : In c0 (heads v T ++ pend_of s v)).
  { apply in_or_app. left. unfold heads. destruct Hwhere as [(Edc & _)|(e0 & ch0 & Hn0 & Ec0 & _ & _ & R1 & R2)].
    - destruct (go_facts _ _ _ _ _ _ _ _ Hat) as (_ & _ & _ & _ & _ & _ & Hvok & _).
      destruct (chain_of_head _ _ _ _ _ Hch) as (_ & Q2 & _).
      destruct (v_fat32 v) eqn:E32.
      + apply in_or_app. left. unfold root_heads. rewrite E32. left.
        unfold c0, dir_first_cluster. rewrite Edc, N.eqb_refl, E32. reflexivity.
      + exfalso. apply (in_range_not_root v c0 Hvok Q2).
        unfold c0, dir_first_cluster. rewrite Edc, E32. reflexivity.
    - apply in_or_app. right. apply (own_head_in T _ _ Hn0). cbn [own_head]. left.
      unfold c0, dir_first_cluster. rewrite Ec0.
      destruct (go_facts _ _ _ _ _ _ _ _ Hat) as (_ & _ & _ & _ & _ & _ & Hvok & _).
      replace (d_cluster dd =? CL_ROOT) with false; [rewrite andb_false_r; reflexivity|].
      symmetry. apply N.eqb_neq. exact (in_range_not_root v _ Hvok R2). }
  assert (Elen : length (ser_bytes (v_fat32 v) en) = 32%nat).
  { apply ser_bytes_length. rewrite Een. cbn [e_name]. exact (proj1 (sfn_of_str_wf _ _ Hsfn)). }
  assert (Fb : fr v fsz [] [B] (s_disk sa) (s_disk s')) by (rewrite Ed, Hd2; apply fr_set; exact HoffB).
  split.
  { apply (val_same v fsz _ (s_disk sa) _ [B]); [|exact Fb].
    apply (val_alloc 0%nat v v fsz (Some p) true s0 cn sa (s_disk s) (geo_eq_refl v)); [rewrite Ed0; apply val_refl|exact Heff|exact Hfree|].
    intros E. injection E as E. apply P3. rewrite E. exact C3. }
  exists ([cn; p] ++ []), (cluster_blocks v cn ++ [B]). split.
  { rewrite Ed0 in Fa. exact (fr_trans v fsz _ _ _ _ _ _ _ Fa Fb). }
  split; [intros x [<-|[]]; exact Hc0|]. split; [intros x []|]. split.
  { intros c [<-|[<-|[]]]; [right; exact Hfree|left].
    cbn [flat_map]. rewrite app_nil_r, <- Ed0, (chain_l_at _ _ _ _ Hch). exact Hlast. }
  split.
  { intros j Hj. right. left. exists cn. split; [exact Hfree|].
    apply in_app_or in Hj. destruct Hj as [Hj|[<-|[]]]; [exact Hj|exact HB]. }
  intros j off b E. injection E as <- <- <-. split.
  { left. pose proof (PrBounds.C04_cluster_block_in_data v cn C1 C2) as Fd. rewrite Forall_forall in Fd. exact (Fd B HB). }
  split; [rewrite Elen; clear; lia|].
  right. split; [exists cn; split; [exact Hfree|exact HB]|].
  rewrite Ed, Hd2, disk_get_set_same, Hzero. unfold put_entry. rewrite Een. cbn [e_offset]. reflexivity.
Qed.

(* ---- OpenFile, every mode, every outcome ---- *)
Theorem step_frame_OpenFile fsz vid h name md : step_frame fsz vid (OpenFile h name md).
Proof.
  intros s r s' vi v bl rch T Hat Hfresh (_ & Hname) Hs.
  assert (Hinv : fs_inv fsz vid s) by (exists vi, v, bl, rch, T; exact Hat).
  pose proof (fs_inv_lock fsz vid s Hinv) as Hl.
  cbn [op_name_ok] in Hname.
  assert (Hnone : s_disk s' = s_disk s ->
            exists tg wch sl, call_frame fsz v (heads v T ++ pend_of s v) (s_disk s) (s_disk s') tg wch sl /\
                              op_owns s v (OpenFile h name md) tg wch sl).
  { intros E. exists [], [], None. split; [apply call_frame_same; exact E|]. cbn [op_owns].
    split; [reflexivity|]. split; [intros x []|intros j off b E0; discriminate E0]. }
  destruct (dir_resolve _ _ _ _ _ _ _ _ h Hat) as [Hno|di dd H1 H2 Hne H3|di dd Hres Hvol Hdir Hdd].
  { destruct (PrHandles.C08_stale_dir_handle h s Hl Hno) as (_ & _ & _ & _ & _ & _ & E1). rewrite (E1 name md) in Hs.
    injection Hs as <- <-. apply Hnone. reflexivity. }
  { cbn [step] in Hs.
    assert (E : exists e, open_file_in_dir h name md s = (Err e, s)).
    { unfold open_file_in_dir. rewrite (PrHandles.locked_free _ s Hl), PrHandles.bind_get.
      destruct (is_full (s_files s) (s_maxf s)); [eexists; reflexivity|].
      exists BadHandle. rewrite (bind_ok _ _ _ _ _ H1), (bind_ok _ _ _ _ _ H2). cbv zeta. apply bind_err. exact H3. }
    destruct E as (e & E). rewrite (lift_err' _ _ _ _ _ E) in Hs. injection Hs as <- <-. apply Hnone. reflexivity. }
  cbn [step] in Hs.
  destruct (is_full (s_files s) (s_maxf s)) eqn:Hroom.
  { assert (E : open_file_in_dir h name md s = (Err TooManyOpenFiles, s)).
    { unfold open_file_in_dir. rewrite (PrHandles.locked_free _ s Hl), PrHandles.bind_get, Hroom. reflexivity. }
    rewrite (lift_err' _ _ _ _ _ E) in Hs. injection Hs as <- <-. apply Hnone. reflexivity. }
  unfold e5_name in Hname.
  destruct (sfn_of_str name) as [sfn|] eqn:Hsfn.
  2:{ assert (E : open_file_in_dir h name md s = (Err FilenameError, s)).
      { unfold open_file_in_dir. PrModes.open_prefix Hres Hroom Hsfn. reflexivity. }
      rewrite (lift_err' _ _ _ _ _ E) in Hs. injection Hs as <- <-. apply Hnone. reflexivity. }
  apply N.eqb_neq in Hname.
  destruct (PrModes.dot_name sfn) eqn:Hdot.
  { rewrite (lift_err' _ _ _ _ _ (PrModes.C07_open_dot_name s h di dd 0%nat v name sfn md Hres Hroom Hsfn Hdot)) in Hs.
    injection Hs as <- <-. apply Hnone. reflexivity. }
  destruct (find_run _ _ _ _ _ _ _ _ (d_cluster dd) sfn Hat Hdir) as (bl' & parent & kids & s1 & Hctx & Hrun & Hro & Hrd).
  pose proof (mk_open_ctx fsz vid s vi v bl rch T h name di dd sfn bl' parent kids s1
                Hat Hfresh Hres Hvol Hroom Hsfn Hname Hdot Hctx Hrun Hro Hrd) as Hoc.
  pose proof (proj1 Hro) as Hd1.
  destruct (resolves_dir_id _ _ _ _ _ _ Hres) as (Hddin & Hddid).
  destruct (find (t_matches sfn) (live_in_blocks (s_disk s) bl')) as [t|] eqn:Hfind.
  - destruct (PrModes.open_refusal md (Ok (t_entry (v_fat32 v) t)) (PrModes.is_open s1 (d_vol dd) (t_entry (v_fat32 v) t)))
      as [er|] eqn:Href.
    + (* refused *)
      pose proof (PrModes.C07_open_refusals s h di dd 0%nat v name sfn md _ s1 er Hres Hroom Hsfn Hdot Hrun Href) as E.
      rewrite (lift_err' _ _ _ _ _ E) in Hs. injection Hs as <- <-. apply Hnone. exact Hd1.
    + destruct (refusal_none_ok _ _ _ Href) as (_ & _ & Hncr).
      assert (Hcases : (md = ReadOnly \/ md = ReadWriteAppend \/ md = ReadWriteCreateOrAppend) \/
                       (md = ReadWriteTruncate \/ md = ReadWriteCreateOrTruncate))
        by (destruct md; try discriminate Hncr; auto).
      destruct Hcases as [Hmd|Hmd].
      * (* kept as it is: nothing written *)
        pose proof (PrModes.C07_open_existing_keep s h di dd 0%nat v name sfn md _ s1 Hres Hroom Hsfn Hdot Hrun Href Hmd) as E.
        rewrite (lift_ok' _ _ _ _ _ E) in Hs. injection Hs as <- <-. apply Hnone. exact Hd1.
      * (* truncated *)
        destruct (open_trunc_frame _ _ _ _ _ _ _ _ _ _ _ _ _ _ _ _ _ md t Hoc Hfind Href Hmd) as (id & s5 & tg & b & E & Hcf & Htg & Hlb).
        rewrite (lift_ok' _ _ _ _ _ E) in Hs. injection Hs as <- <-.
        assert (Hde : dir_entry s v h name (t_entry (v_fat32 v) t)).
        { exists dd, sfn, bl', t. repeat (split; [first [assumption|exact (dx_blocks _ _ _ _ _ _ _ _ Hctx)]|]). reflexivity. }
        eexists tg, [], _. split; [exact Hcf|]. cbn [op_owns]. split; [reflexivity|]. split.
        -- intros x Hx. left. split; [destruct Hmd as [-> | ->]; reflexivity|].
           exists (t_entry (v_fat32 v) t). split; [exact Hde|]. symmetry. exact (Htg x Hx).
        -- intros j off b0 E0. injection E0 as <- <- <-. split; [exact Hlb|]. left.
           exists (t_entry (v_fat32 v) t). split; [exact Hde|split; reflexivity].
  - destruct (creating md) eqn:Hcr.
    2:{ assert (Href : PrModes.open_refusal md (Err NotFound) (PrModes.found_open s1 (d_vol dd) (Err NotFound)) = Some NotFound)
          by (cbn [PrModes.open_refusal]; rewrite Hcr; reflexivity).
        pose proof (PrModes.C07_open_refusals s h di dd 0%nat v name sfn md _ s1 NotFound Hres Hroom Hsfn Hdot Hrun Href) as E.
        rewrite (lift_err' _ _ _ _ _ E) in Hs. injection Hs as <- <-. apply Hnone. exact Hd1. }
    pose proof (open_create_run _ _ _ _ _ _ _ _ _ _ _ _ _ _ _ _ _ md Hoc Hfind Hcr) as E.
    pose proof (go_ro _ _ _ _ _ _ _ _ _ Hat Hro) as Hat1.
    destruct (go_facts _ _ _ _ _ _ _ _ Hat1) as (_ & _ & _ & _ & E0 & _ & _ & _ & Hwf1 & _). subst vi.
    pose proof (fi_vol _ _ _ _ _ _ _ _ Hat1) as (_ & Hpre1 & _ & Hspc & _).
    assert (Hbl1 : dir_blocks (s_disk s1) v (d_cluster dd) = Some bl') by (rewrite (proj1 Hro); exact (dx_blocks _ _ _ _ _ _ _ _ Hctx)).
    destruct (create_run fsz 0%nat v (d_cluster dd) sfn 0 CL_EMPTY s1 bl' Hpre1 Hspc Hwf1 Hbl1 (proj1 (sfn_of_str_wf _ _ Hsfn)))
      as (o & s2 & Hw & Hcres).
    rewrite Hw in E.
    destruct Hcres as [blk off sl0 s2 Hfree en Hd2 Hsw Hc2 Hnf2 Htab|s2 Hfree Hq2 _|ch s0 cn sa en s2 Hfree Hch Ebl Hq0 Hpre0 Hal Hpost].
    + (* a free slot of the directory is taken *)
      rewrite (lift_ok' _ _ _ _ _ E) in Hs. injection Hs as <- <-.
      pose proof (create_slot_frame _ _ _ _ _ _ _ _ _ _ _ _ _ _ _ _ _ blk off sl0 s2 en Hoc Hfree
                    (proj1 (sfn_of_str_wf _ _ Hsfn)) Hd2 _ eq_refl) as Hcf.
      eexists [], [], _. split; [exact Hcf|]. cbn [op_owns]. split; [reflexivity|]. split; [intros x []|].
      intros j off0 b0 E0. injection E0 as <- <- <-. split.
      * apply ser_bytes_length. exact (proj1 (sfn_of_str_wf _ _ Hsfn)).
      * right. left. exists dd, bl', sl0. rewrite <- Hd1. repeat (split; [assumption|]). exact Hfree.
    + (* full FAT16 root directory, or no free cluster to grow the directory: NotEnoughSpace *)
      rewrite (lift_err' _ _ _ _ _ E) in Hs. injection Hs as <- <-.
      apply Hnone. rewrite (proj1 (proj1 Hq2)). exact Hd1.
    + (* the directory grows *)
      rewrite (lift_ok' _ _ _ _ _ E) in Hs. injection Hs as <- <-.
      destruct (create_grow_frame _ _ _ _ _ _ _ _ _ _ _ _ _ _ _ _ _ ch s0 cn sa en s2 Hoc Hch Hq0 Hpre0 Hal Hpost _ eq_refl)
        as (Hfreecn & Hcf).
      eexists [_], [], _. split; [exact Hcf|]. cbn [op_owns]. split; [reflexivity|]. split.
      * intros x [<-|[]]. right. exists dd. repeat (split; [assumption|]). reflexivity.
      * intros j off0 b0 E0. injection E0 as <- <- <-. split.
        -- apply ser_bytes_length. unfold create_post in Hpost. cbv zeta in Hpost. destruct Hpost as (-> & _).
           cbn [e_name]. exact (proj1 (sfn_of_str_wf _ _ Hsfn)).
        -- right. right. exists cn. split; [exact Hfreecn|split; reflexivity].
Qed.

Print Assumptions step_frame_OpenFile.
