(* PROOFS / SPEC: the executable SPEC RUN for the content of files (C01, C02 over whole histories).
   The spec state is a map  slot position -> fview  (what the API shows of every file) and a handle
   table  handle -> (position, mode, cursor, dirty);  spec_step is a Gallina FUNCTION of the call,
   the clock value, the model's result (which outcome class happened: the spec cannot know whether
   the medium is full, whether a name exists in a directory the spec does not model) and a GHOST
   (the slot position an open / delete works on; the number of bytes stored before DiskFull).
   spec_step_sound: every call of the model that satisfies content_rel is matched by spec_step for
   some ghost; the results of reads, seeks, Length / Offset / Eof are PREDICTED by the spec.
   C01_history / C02_history: for whole histories. *)
From Coq Require Import NArith ZArith List Bool Lia Arith ZifyClasses ZifyInst Zify FMapPositive Permutation.
From SdFs Require Import FsTypes FsBase FsFat FsMgr FsLemmas PrBase PrFat PrAlloc PrDir PrSeek PrAllocEffect
  PrRw PrWrite PrFileSeq PrMulti PrEntry PrChain PrCount PrWf PrOpenClose PrGlobalDef PrContentDef PrContentDef2.
From SdFs Require PrModes PrHandles PrCrash PrBounds PrOrder PrGlobal.
Import ListNotations.
Open Scope N_scope.
Local Arguments N.mul : simpl never.
Local Arguments N.add : simpl never.
Local Arguments N.sub : simpl never.
Local Arguments N.div : simpl never.
Local Arguments N.modulo : simpl never.
Local Arguments N.land : simpl never.
Local Arguments N.lor : simpl never.
Local Arguments N.min : simpl never.
Local Arguments N.max : simpl never.

(* ================================================================== 1. the spec state *)
Record sstate := mk_ss { ss_files : fmap; ss_handles : hmap }.
Definition vset (p : spos) (x : fview) (m : fmap) : fmap := (p, x) :: m.
Definition vdel (p : spos) (m : fmap) : fmap := filter (fun e => negb (pos_eqb (fst e) p)) m.
Definition hset (h : N) (hi : hinfo) (l : hmap) : hmap := (h, hi) :: l.
Definition hdel (h : N) (l : hmap) : hmap := filter (fun e => negb (fst e =? h)) l.

Lemma vget_vset p x m q : vget q (vset p x m) = if pos_eqb p q then Some x else vget q m.
Proof. reflexivity. Qed.
Lemma vget_vdel p m q : vget q (vdel p m) = if pos_eqb p q then None else vget q m.
Proof.
  unfold vdel. induction m as [|[k y] m IH]; cbn [filter fst vget].
  - destruct (pos_eqb p q); reflexivity.
  - destruct (pos_eqb k p) eqn:E1; cbn [negb].
    + apply pos_eqb_eq in E1. subst k. rewrite IH. destruct (pos_eqb p q); reflexivity.
    + cbn [vget]. destruct (pos_eqb k q) eqn:E2; [|exact IH].
      apply pos_eqb_eq in E2. subst k. rewrite pos_eqb_neq; [reflexivity|].
      intros ->. rewrite pos_eqb_refl in E1. discriminate.
Qed.
Lemma hget_hset h hi l k : hget k (hset h hi l) = if k =? h then Some hi else hget k l.
Proof. unfold hget, hset. cbn [dget]. rewrite (N.eqb_sym h k). reflexivity. Qed.
Lemma hget_hdel h l k : hget k (hdel h l) = if k =? h then None else hget k l.
Proof.
  unfold hget, hdel. induction l as [|[j y] l IH]; cbn [filter fst dget].
  - destruct (k =? h); reflexivity.
  - destruct (N.eqb_spec j h) as [->|E1]; cbn [negb].
    + rewrite IH. rewrite (N.eqb_sym h k). destruct (k =? h); reflexivity.
    + cbn [dget]. destruct (N.eqb_spec j k) as [->|E2]; [|exact IH].
      replace (k =? h) with false by (symmetry; apply N.eqb_neq; exact E1). reflexivity.
Qed.

(* the ghost of a call *)
Record ghost := mk_ghost { g_pos : spos; g_k : nat }.

(* ================================================================== 2. one call of the spec *)
Definition sp_read (io : bool) (h n : N) (st : sstate) : sstate * option (outcome res) :=
  if io && (n =? 0) then (st, Some (Ok (RBytes []))) else
  match hget h (ss_handles st) with
  | None => (st, Some (Err BadHandle))
  | Some hi =>
      match vget (hi_pos hi) (ss_files st) with
      | Some fv =>
          let bs := read_slice (fv_bytes fv) (hi_off hi) n in
          (mk_ss (ss_files st) (hset h (set_hi_off hi (hi_off hi + N.of_nat (length bs))) (ss_handles st)),
           Some (Ok (RBytes bs)))
      | None => (st, None)
      end
  end.

Definition written (fv : fview) (off : N) (stored : list N) (clock : N) : fview :=
  set_fv_attr (set_fv_mtime (set_fv_bytes fv (spec_write (fv_bytes fv) off stored)) (stamp_of clock))
              (N.lor (fv_attr fv) A_ARCHIVE).

Definition sp_write (io : bool) (h : N) (data : list N) (clock : N) (r : outcome res) (g : ghost) (st : sstate)
  : sstate * option (outcome res) :=
  match io, data with
  | true, [] => (st, Some (Ok (RNum 0)))
  | _, _ =>
  match hget h (ss_handles st) with
  | None => (st, Some (Err BadHandle))
  | Some hi =>
      if negb (writable (hi_mode hi)) then (st, Some (Err ReadOnlyErr)) else
      match vget (hi_pos hi) (ss_files st) with
      | None => (st, None)
      | Some fv =>
          let clip := clip_write (hi_off hi) data in
          match r with
          | Ok _ =>
              (mk_ss (vset (hi_pos hi) (written fv (hi_off hi) clip clock) (ss_files st))
                     (hset h (set_hi_dirty (set_hi_off hi (hi_off hi + N.of_nat (length clip))) true) (ss_handles st)), None)
          | Err DiskFull =>
              (mk_ss (vset (hi_pos hi) (set_fv_bytes fv (spec_write (fv_bytes fv) (hi_off hi) (firstn (g_k g) clip))) (ss_files st))
                     (hset h (set_hi_dirty (set_hi_off hi (hi_off hi + N.of_nat (g_k g))) true) (ss_handles st)), None)
          | _ => (mk_ss (ss_files st) (hset h (set_hi_dirty hi true) (ss_handles st)), None)
          end
      end
  end
  end.

Definition sp_flush (close : bool) (h : N) (st : sstate) : sstate * option (outcome res) :=
  match hget h (ss_handles st) with
  | None => (st, Some (Err BadHandle))
  | Some _ => ((if close then mk_ss (ss_files st) (hdel h (ss_handles st)) else st), Some (Ok RUnit))
  end.

Definition sp_open (name : list N) (md : mode) (clock : N) (r : outcome res) (g : ghost) (st : sstate) : sstate :=
  match r with
  | Ok (RHandle hn) =>
      let p := g_pos g in
      match vget p (ss_files st) with
      | Some fv =>
          let md1 := solve_mode_variant md true in
          match md1 with
          | ReadWriteTruncate =>
              mk_ss (vset p (set_fv_mtime (set_fv_bytes fv []) (stamp_of clock)) (ss_files st))
                    (hset hn (mk_hinfo p md1 0 false) (ss_handles st))
          | _ => mk_ss (ss_files st) (hset hn (mk_hinfo p md1 (open_model_off md1 fv) false) (ss_handles st))
          end
      | None =>
          let sfn := match sfn_of_str name with Some x => x | None => [] end in
          mk_ss (vset p (mk_fview sfn 0 (stamp_of clock) (stamp_of clock) []) (ss_files st))
                (hset hn (mk_hinfo p ReadWriteCreate 0 false) (ss_handles st))
      end
  | _ => st
  end.

Definition sp_delete (r : outcome res) (g : ghost) (st : sstate) : sstate :=
  match r with Ok _ => mk_ss (vdel (g_pos g) (ss_files st)) (ss_handles st) | _ => st end.

Definition sp_with (h : N) (st : sstate) (k : hinfo -> N -> sstate * option (outcome res))
                   (bad : option (outcome res)) : sstate * option (outcome res) :=
  match hget h (ss_handles st) with
  | None => (st, bad)
  | Some hi => match vget (hi_pos hi) (ss_files st) with
               | Some fv => k hi (N.of_nat (length (fv_bytes fv)))
               | None => (st, None)
               end
  end.
Definition sp_seek (h : N) (target : N -> N -> option N) (st : sstate) : sstate * option (outcome res) :=
  sp_with h st (fun hi len =>
    match target len (hi_off hi) with
    | Some n => (mk_ss (ss_files st) (hset h (set_hi_off hi n) (ss_handles st)), Some (Ok RUnit))
    | None => (st, Some (Err InvalidOffset))
    end) (Some (Err BadHandle)).
Definition sp_io_seek (h : N) (w : whence) (x : Z) (st : sstate) : sstate * option (outcome res) :=
  sp_with h st (fun hi len =>
    match io_seek_target w x len (hi_off hi) with
    | Some n => (mk_ss (ss_files st) (hset h (set_hi_off hi n) (ss_handles st)), Some (Ok (RNum n)))
    | None => (st, Some (Err InvalidOffset))
    end) None.
Definition sp_query (h : N) (answer : hinfo -> N -> res) (st : sstate) : sstate * option (outcome res) :=
  sp_with h st (fun hi len => (st, Some (Ok (answer hi len)))) (Some (Err BadHandle)).

(* the new spec state, and the result the spec PREDICTS (None: no prediction) *)
Definition spec_step (o : op) (clock : N) (r : outcome res) (g : ghost) (st : sstate) : sstate * option (outcome res) :=
  match o with
  | Read h n => sp_read false h n st
  | IoRead h n => sp_read true h n st
  | Write h data => sp_write false h data clock r g st
  | IoWrite h data => sp_write true h data clock r g st
  | Flush h => sp_flush false h st
  | CloseFile h => sp_flush true h st
  | OpenFile d name md => (sp_open name md clock r g st, None)
  | Delete d name => (sp_delete r g st, None)
  | SeekStart h x => sp_seek h (fun len off => spec_seek_start len off x) st
  | SeekEnd h x => sp_seek h (fun len off => spec_seek_end len off x) st
  | SeekCur h x => sp_seek h (fun len off => spec_seek_cur len off x) st
  | IoSeek h w x => sp_io_seek h w x st
  | Length h => sp_query h (fun _ len => RNum len) st
  | Offset h => sp_query h (fun hi _ => RNum (hi_off hi)) st
  | Eof h => sp_query h (fun hi len => RBool (hi_off hi =? len)) st
  | _ => (st, None)
  end.

(* the spec state stands for the API part of an observation *)
Definition ss_eq (st : sstate) (a : obs) : Prop :=
  (forall p, vget p (ss_files st) = vget p (ob_mem a)) /\ (forall h, hget h (ss_handles st) = hget h (ob_handles a)).
Definition ss_of (a : obs) : sstate := mk_ss (ob_mem a) (ob_handles a).
Lemma ss_eq_of a : ss_eq (ss_of a) a.
Proof. split; intros; reflexivity. Qed.

(* ================================================================== 3. the spec step matches the obligation *)
Definition step_matches (o : op) (clock : N) (r : outcome res) (g : ghost) (st : sstate) (a' : obs) : Prop :=
  ss_eq (fst (spec_step o clock r g st)) a' /\
  forall r', snd (spec_step o clock r g st) = Some r' -> r = r'.

Lemma eq_same st a a' : ss_eq st a -> same_obs a a' -> ss_eq st a'.
Proof. intros H ->. exact H. Qed.

Lemma eq_handles_set st a a' h hi : (forall k, hget k (ss_handles st) = hget k (ob_handles a)) ->
  handle_set h hi a a' -> forall k, hget k (hset h hi (ss_handles st)) = hget k (ob_handles a').
Proof. intros Hh Hs k. rewrite hget_hset, (Hs k), (Hh k). reflexivity. Qed.

Lemma eq_files_upd st a a' p x : (forall q, vget q (ss_files st) = vget q (ob_mem a)) ->
  vget p (ob_mem a') = Some x -> (forall q, q <> p -> vget q (ob_mem a') = vget q (ob_mem a)) ->
  forall q, vget q (vset p x (ss_files st)) = vget q (ob_mem a').
Proof.
  intros Hf Hp Ho q. rewrite vget_vset. destruct (pos_eqb p q) eqn:E.
  - apply pos_eqb_eq in E. subst q. symmetry. exact Hp.
  - rewrite (Ho q), (Hf q); [reflexivity|]. intros ->. rewrite pos_eqb_refl in E. discriminate.
Qed.

Lemma others_mem p a a' : others_same p a a' -> forall q, q <> p -> vget q (ob_mem a') = vget q (ob_mem a).
Proof. intros H q Hq. exact (proj1 (H q Hq)). Qed.

Definition g0 : ghost := mk_ghost (0, 0) 0.

Ltac pred_ok := let r' := fresh "r'" in let E := fresh "E" in
  intros r' E; try discriminate E; injection E as <-; first [assumption | symmetry; assumption | reflexivity].

Lemma read_matches io h n r st a a' : ss_eq st a -> read_content io h n r a a' ->
  ss_eq (fst (sp_read io h n st)) a' /\ forall r', snd (sp_read io h n st) = Some r' -> r = r'.
Proof.
  intros (Hf & Hh) H. unfold sp_read, read_content in *.
  destruct (io && (n =? 0)).
  - destruct H as (Hr & Hs). cbn [fst snd]. split; [exact (eq_same st a a' (conj Hf Hh) Hs)|pred_ok].
  - rewrite (Hh h). destruct (hget h (ob_handles a)) as [hi|].
    + destruct H as (fv & Hv & Hr & Hs & E1 & E2 & E3). rewrite (Hf (hi_pos hi)), Hv. cbn [fst snd]. split; [|pred_ok].
      split; cbn [ss_files ss_handles]; [intros p; rewrite E1; apply Hf|exact (eq_handles_set st a a' h _ Hh Hs)].
    + destruct H as (Hr & Hs). cbn [fst snd]. split; [exact (eq_same st a a' (conj Hf Hh) Hs)|pred_ok].
Qed.

Lemma write_matches io h data clock r st a a' : ss_eq st a -> write_content io h data clock r a a' ->
  exists g, ss_eq (fst (sp_write io h data clock r g st)) a' /\
            forall r', snd (sp_write io h data clock r g st) = Some r' -> r = r'.
Proof.
  intros (Hf & Hh) H.
  assert (Main : forall (Hnn : io = false \/ data <> []),
            (match hget h (ob_handles a) with
             | None => r = Err BadHandle /\ same_obs a a'
             | Some hi =>
               if negb (writable (hi_mode hi)) then r = Err ReadOnlyErr /\ same_obs a a' else
               let p := hi_pos hi in
               exists fv dfv dfv', vget p (ob_mem a) = Some fv /\
                 vget p (ob_disk a) = Some dfv /\ vget p (ob_disk a') = Some dfv' /\ meta_same dfv dfv' /\
                 others_same p a a' /\ dirs_same a a' /\
                 let clip := clip_write (hi_off hi) data in
                 ((r = Ok (write_result io data) /\
                   vget p (ob_mem a') = Some (written fv (hi_off hi) clip clock) /\
                   handle_set h (set_hi_dirty (set_hi_off hi (hi_off hi + N.of_nat (length clip))) true) a a')
                  \/
                  (r = Err DiskFull /\ exists k, (k < length clip)%nat /\
                   vget p (ob_mem a') = Some (set_fv_bytes fv (spec_write (fv_bytes fv) (hi_off hi) (firstn k clip))) /\
                   handle_set h (set_hi_dirty (set_hi_off hi (hi_off hi + N.of_nat k)) true) a a')
                  \/
                  (r = Err NotEnoughSpace /\ fv_bytes fv = [] /\
                   vget p (ob_mem a') = Some fv /\ handle_set h (set_hi_dirty hi true) a a'))
             end) ->
            exists g,
              ss_eq (fst (match hget h (ss_handles st) with
                          | None => (st, Some (Err BadHandle))
                          | Some hi =>
                            if negb (writable (hi_mode hi)) then (st, Some (Err ReadOnlyErr)) else
                            match vget (hi_pos hi) (ss_files st) with
                            | None => (st, None)
                            | Some fv =>
                              let clip := clip_write (hi_off hi) data in
                              match r with
                              | Ok _ =>
                                (mk_ss (vset (hi_pos hi) (written fv (hi_off hi) clip clock) (ss_files st))
                                   (hset h (set_hi_dirty (set_hi_off hi (hi_off hi + N.of_nat (length clip))) true) (ss_handles st)), None)
                              | Err DiskFull =>
                                (mk_ss (vset (hi_pos hi) (set_fv_bytes fv (spec_write (fv_bytes fv) (hi_off hi) (firstn (g_k g) clip))) (ss_files st))
                                   (hset h (set_hi_dirty (set_hi_off hi (hi_off hi + N.of_nat (g_k g))) true) (ss_handles st)), None)
                              | _ => (mk_ss (ss_files st) (hset h (set_hi_dirty hi true) (ss_handles st)), @None (outcome res))
                              end
                            end
                          end)) a' /\
              forall r', snd (match hget h (ss_handles st) with
                          | None => (st, Some (Err BadHandle))
                          | Some hi =>
                            if negb (writable (hi_mode hi)) then (st, Some (Err ReadOnlyErr)) else
                            match vget (hi_pos hi) (ss_files st) with
                            | None => (st, None)
                            | Some fv =>
                              let clip := clip_write (hi_off hi) data in
                              match r with
                              | Ok _ =>
                                (mk_ss (vset (hi_pos hi) (written fv (hi_off hi) clip clock) (ss_files st))
                                   (hset h (set_hi_dirty (set_hi_off hi (hi_off hi + N.of_nat (length clip))) true) (ss_handles st)), None)
                              | Err DiskFull =>
                                (mk_ss (vset (hi_pos hi) (set_fv_bytes fv (spec_write (fv_bytes fv) (hi_off hi) (firstn (g_k g) clip))) (ss_files st))
                                   (hset h (set_hi_dirty (set_hi_off hi (hi_off hi + N.of_nat (g_k g))) true) (ss_handles st)), None)
                              | _ => (mk_ss (ss_files st) (hset h (set_hi_dirty hi true) (ss_handles st)), @None (outcome res))
                              end
                            end
                          end) = Some r' -> r = r').
  { intros _ H'. rewrite (Hh h). destruct (hget h (ob_handles a)) as [hi|].
    2:{ exists g0. destruct H' as (Hr & Hs). cbn [fst snd]. split; [exact (eq_same st a a' (conj Hf Hh) Hs)|pred_ok]. }
    destruct (negb (writable (hi_mode hi))).
    { exists g0. destruct H' as (Hr & Hs). cbn [fst snd]. split; [exact (eq_same st a a' (conj Hf Hh) Hs)|pred_ok]. }
    cbv zeta in H'. destruct H' as (fv & dfv & dfv' & Hv & _ & _ & _ & Hoth & _ & Hc).
    rewrite (Hf (hi_pos hi)), Hv. cbv zeta.
    destruct Hc as [(-> & Hm & Hs)|[(-> & k & _ & Hm & Hs)|(-> & _ & Hm & Hs)]].
    - exists g0. cbn [fst snd]. split; [|intros r' E; discriminate E].
      split; cbn [ss_files ss_handles]; [exact (eq_files_upd st a a' _ _ Hf Hm (others_mem _ _ _ Hoth))|exact (eq_handles_set st a a' h _ Hh Hs)].
    - exists (mk_ghost (0, 0) k). cbn [fst snd g_k]. split; [|intros r' E; discriminate E].
      split; cbn [ss_files ss_handles]; [exact (eq_files_upd st a a' _ _ Hf Hm (others_mem _ _ _ Hoth))|exact (eq_handles_set st a a' h _ Hh Hs)].
    - exists g0. cbn [fst snd]. split; [|intros r' E; discriminate E].
      split; cbn [ss_files ss_handles]; [|exact (eq_handles_set st a a' h _ Hh Hs)].
      intros q. rewrite (Hf q). destruct (pos_eqb (hi_pos hi) q) eqn:E.
      + apply pos_eqb_eq in E. subst q. rewrite Hm, Hv. reflexivity.
      + symmetry. apply (others_mem _ _ _ Hoth). intros ->. rewrite pos_eqb_refl in E. discriminate. }
  unfold sp_write, write_content, written in *. destruct io.
  - destruct data as [|b data].
    + exists g0. destruct H as (Hr & Hs). cbn [fst snd]. split; [exact (eq_same st a a' (conj Hf Hh) Hs)|pred_ok].
    + apply Main; [right; discriminate|exact H].
  - apply Main; [left; reflexivity|exact H].
Qed.

Lemma flush_matches cl h r st a a' : ss_eq st a -> flush_content cl h r a a' -> obs_sync a ->
  ss_eq (fst (sp_flush cl h st)) a' /\ forall r', snd (sp_flush cl h st) = Some r' -> r = r'.
Proof.
  intros (Hf & Hh) H S. unfold sp_flush, flush_content in *. rewrite (Hh h).
  destruct (hget h (ob_handles a)) as [hi|] eqn:Eh.
  - destruct H as (Hr & Hoth & Hhs & Hd & Em). cbn [fst snd]. split; [|pred_ok].
    assert (Hmem : forall q, vget q (ss_files st) = vget q (ob_mem a')).
    { intros q. rewrite (Hf q). destruct (pos_eqb (hi_pos hi) q) eqn:E.
      - apply pos_eqb_eq in E. subst q. rewrite Em. destruct cl; [|reflexivity].
        destruct (hi_dirty hi) eqn:Ed; [symmetry; exact (proj1 Hd)|].
        rewrite (proj1 Hd). exact (S h hi Eh Ed).
      - symmetry. apply (others_mem _ _ _ Hoth). intros ->. rewrite pos_eqb_refl in E. discriminate. }
    destruct cl; split; cbn [ss_files ss_handles]; try exact Hmem.
    + intros k. rewrite hget_hdel, (Hhs k), (Hh k). reflexivity.
    + intros k. rewrite (Hhs k). apply Hh.
  - destruct H as (Hr & Hs). cbn [fst snd]. split; [exact (eq_same st a a' (conj Hf Hh) Hs)|pred_ok].
Qed.

Lemma open_matches name md clock r st a a' : ss_eq st a -> open_content name md clock r a a' ->
  exists g, ss_eq (sp_open name md clock r g st) a'.
Proof.
  intros (Hf & Hh) H. unfold sp_open, open_content in *.
  destruct r as [[| hn | | | | | |]|e| |]; try (exists g0; exact (eq_same st a a' (conj Hf Hh) H)); try destruct H.
  destruct H0 as (sfn & p & md1 & Hsfn & Hno & Emd & Hoth & Hm).
  exists (mk_ghost p 0). cbn [g_pos]. rewrite (Hf p). destruct (vget p (ob_mem a)) as [fv|] eqn:Ep.
  - destruct Hm as (_ & [(Hk & Hfs & _ & Hs)|(Et & Em & _ & _ & Hs)]); rewrite <- Emd.
    + assert (X : ss_eq (mk_ss (ss_files st) (hset hn (mk_hinfo p md1 (open_model_off md1 fv) false) (ss_handles st))) a').
      { split; cbn [ss_files ss_handles]; [intros q; rewrite (proj1 (Hfs q)); apply Hf|exact (eq_handles_set st a a' hn _ Hh Hs)]. }
      destruct Hk as [-> | ->]; exact X.
    + rewrite Et in *. split; cbn [ss_files ss_handles];
        [exact (eq_files_upd st a a' _ _ Hf Em (others_mem _ _ _ Hoth))|exact (eq_handles_set st a a' hn _ Hh Hs)].
  - destruct Hm as (Emd1 & _ & Em & _ & _ & Hs). rewrite Hsfn. rewrite Emd1 in Hs.
    split; cbn [ss_files ss_handles];
      [exact (eq_files_upd st a a' _ _ Hf Em (others_mem _ _ _ Hoth))|exact (eq_handles_set st a a' hn _ Hh Hs)].
Qed.

Lemma delete_matches name r st a a' : ss_eq st a -> delete_content name r a a' ->
  exists g, ss_eq (sp_delete r g st) a'.
Proof.
  intros (Hf & Hh) H. unfold sp_delete, delete_content in *.
  destruct r as [x|e| |]; try (exists g0; exact (eq_same st a a' (conj Hf Hh) H)).
  destruct H as (_ & sfn & p & fv & _ & _ & _ & _ & Hm & _ & Hoth & _ & Ehs). exists (mk_ghost p 0). cbn [g_pos].
  split; cbn [ss_files ss_handles]; [|intros k; rewrite Ehs; apply Hh].
  intros q. rewrite vget_vdel. destruct (pos_eqb p q) eqn:E.
  - apply pos_eqb_eq in E. subst q. symmetry. exact Hm.
  - rewrite (Hf q). symmetry. apply (others_mem _ _ _ Hoth). intros ->. rewrite pos_eqb_refl in E. discriminate.
Qed.

Lemma seek_matches h target r st a a' : ss_eq st a -> seek_content h target r a a' ->
  ss_eq (fst (sp_seek h target st)) a' /\ forall r', snd (sp_seek h target st) = Some r' -> r = r'.
Proof.
  intros (Hf & Hh) H. unfold sp_seek, sp_with, seek_content, with_handle in *. rewrite (Hh h).
  destruct (hget h (ob_handles a)) as [hi|].
  - destruct H as (fv & Hv & H). rewrite (Hf (hi_pos hi)), Hv.
    destruct (target (N.of_nat (length (fv_bytes fv))) (hi_off hi)) as [n|].
    + destruct H as (Hr & E1 & _ & _ & Hs). cbn [fst snd]. split; [|pred_ok].
      split; cbn [ss_files ss_handles]; [intros p; rewrite E1; apply Hf|exact (eq_handles_set st a a' h _ Hh Hs)].
    + destruct H as (Hr & Hs). cbn [fst snd]. split; [exact (eq_same st a a' (conj Hf Hh) Hs)|pred_ok].
  - destruct H as (Hr & Hs). cbn [fst snd]. split; [exact (eq_same st a a' (conj Hf Hh) Hs)|pred_ok].
Qed.

Lemma io_seek_matches h w x r st a a' : ss_eq st a -> io_seek_content h w x r a a' ->
  ss_eq (fst (sp_io_seek h w x st)) a' /\ forall r', snd (sp_io_seek h w x st) = Some r' -> r = r'.
Proof.
  intros (Hf & Hh) H. unfold sp_io_seek, sp_with, io_seek_content in *. rewrite (Hh h).
  destruct (hget h (ob_handles a)) as [hi|].
  - destruct H as (fv & Hv & H). rewrite (Hf (hi_pos hi)), Hv.
    destruct (io_seek_target w x (N.of_nat (length (fv_bytes fv))) (hi_off hi)) as [n|].
    + destruct H as (Hr & E1 & _ & _ & Hs). cbn [fst snd]. split; [|pred_ok].
      split; cbn [ss_files ss_handles]; [intros p; rewrite E1; apply Hf|exact (eq_handles_set st a a' h _ Hh Hs)].
    + destruct H as (Hr & Hs). cbn [fst snd]. split; [exact (eq_same st a a' (conj Hf Hh) Hs)|pred_ok].
  - destruct H as (_ & Hs). cbn [fst snd]. split; [exact (eq_same st a a' (conj Hf Hh) Hs)|intros r' E; discriminate E].
Qed.

Lemma query_matches h answer r st a a' : ss_eq st a -> query_content h answer r a a' ->
  ss_eq (fst (sp_query h answer st)) a' /\ forall r', snd (sp_query h answer st) = Some r' -> r = r'.
Proof.
  intros (Hf & Hh) (Hs & H). unfold sp_query, sp_with, with_handle in *. rewrite (Hh h).
  destruct (hget h (ob_handles a)) as [hi|].
  - destruct H as (fv & Hv & Hr). rewrite (Hf (hi_pos hi)), Hv. cbn [fst snd].
    split; [exact (eq_same st a a' (conj Hf Hh) Hs)|pred_ok].
  - cbn [fst snd]. split; [exact (eq_same st a a' (conj Hf Hh) Hs)|pred_ok].
Qed.

(* every call that satisfies its obligation is a step of the spec, for some ghost; what the spec
   predicts as the result is the model's result *)
Theorem spec_step_sound o clock r st a a' : ss_eq st a -> obs_sync a -> content_rel o clock r a a' ->
  exists g, step_matches o clock r g st a'.
Proof.
  intros Heq S H. unfold step_matches.
  destruct o; cbn [content_rel spec_step] in *;
    try (exists g0; cbn [fst snd]; split; [exact (eq_same st a a' Heq H)|intros r' E; discriminate E]).
  - destruct (open_matches _ _ _ _ _ _ _ Heq H) as (g & X). exists g. cbn [fst snd]. split; [exact X|intros r' E; discriminate E].
  - exists g0. exact (flush_matches true f r st a a' Heq H S).
  - exists g0. exact (flush_matches false f r st a a' Heq H S).
  - exists g0. exact (read_matches false f n r st a a' Heq H).
  - exact (write_matches false f data clock r st a a' Heq H).
  - exists g0. exact (seek_matches _ _ _ _ _ _ Heq H).
  - exists g0. exact (seek_matches _ _ _ _ _ _ Heq H).
  - exists g0. exact (seek_matches _ _ _ _ _ _ Heq H).
  - exists g0. exact (query_matches _ _ _ _ _ _ Heq H).
  - exists g0. exact (query_matches _ _ _ _ _ _ Heq H).
  - exists g0. exact (query_matches _ _ _ _ _ _ Heq H).
  - destruct (delete_matches _ _ _ _ _ Heq H) as (g & X). exists g. cbn [fst snd]. split; [exact X|intros r' E; discriminate E].
  - (* Mkdir: no file changes *)
    exists g0. cbn [fst snd]. split; [|intros r' E; discriminate E]. destruct Heq as (Hf & Hh). destruct H as (Hfs & Ehs & _).
    split; [intros p; rewrite (proj1 (Hfs p)); apply Hf|intros k; rewrite Ehs; apply Hh].
  - exists g0. exact (io_seek_matches _ _ _ _ _ _ _ Heq H).
  - exists g0. exact (read_matches true f n r st a a' Heq H).
  - exact (write_matches true f data clock r st a a' Heq H).
Qed.

(* ================================================================== 4. the spec run *)
Definition event := (op * N * outcome res * ghost)%type.
Fixpoint spec_run (evs : list event) (st : sstate) : list (option (outcome res)) * sstate :=
  match evs with
  | [] => ([], st)
  | (o, c, r, g) :: rest =>
      let '(st1, pr) := spec_step o c r g st in
      let '(prs, st') := spec_run rest st1 in (pr :: prs, st')
  end.
Definition ev_of (x : ostep) (g : ghost) : event := (os_op x, os_clock x, os_res x, g).
Fixpoint events (tr : list ostep) (gs : list ghost) : list event :=
  match tr, gs with
  | x :: tr', g :: gs' => ev_of x g :: events tr' gs'
  | _, _ => []
  end.
(* the same from the raw data of a run of the model: calls, clock values, results, ghosts *)
Fixpoint events_of (ops : list op) (cs : list N) (rs : list (outcome res)) (gs : list ghost) : list event :=
  match ops, cs, rs, gs with
  | o :: ops', c :: cs', r :: rs', g :: gs' => (o, c, r, g) :: events_of ops' cs' rs' gs'
  | _, _, _, _ => []
  end.
Lemma events_of_trace tr gs : events tr gs = events_of (map os_op tr) (map os_clock tr) (map os_res tr) gs.
Proof.
  revert gs. induction tr as [|x tr IH]; intros gs; [reflexivity|]. destruct gs as [|g gs]; [reflexivity|].
  cbn [events map events_of]. rewrite IH. reflexivity.
Qed.

(* a prediction, when there is one, is the model's result *)
Definition pred_ok (pr : option (outcome res)) (r : outcome res) : Prop := forall r', pr = Some r' -> r = r'.

Theorem chain_spec : forall tr a a' st, chain_ok a tr a' ->
  Forall (fun x => obs_wf (os_pre x) /\ obs_wf (os_post x)) tr -> obs_sync a -> ss_eq st a ->
  exists gs, length gs = length tr /\
    ss_eq (snd (spec_run (events tr gs) st)) a' /\
    Forall2 pred_ok (fst (spec_run (events tr gs) st)) (map os_res tr).
Proof.
  induction tr as [|x tr IH]; intros a a' st Hc Hw S Heq; cbn [chain_ok] in Hc.
  - subst a'. exists []. cbn. split; [reflexivity|]. split; [exact Heq|constructor].
  - destruct Hc as (<- & Hx & Hc). inversion Hw as [|? ? (W1 & _) Hw']; subst.
    destruct (spec_step_sound _ _ _ st _ _ Heq S Hx) as (g & Heq1 & Hp).
    pose proof (sync_step x Hx W1 S) as S1.
    destruct (IH _ _ (fst (spec_step (os_op x) (os_clock x) (os_res x) g st)) Hc Hw' S1 Heq1) as (gs & El & Heq' & Hps).
    exists (g :: gs). cbn [length events ev_of spec_run map]. split; [rewrite El; reflexivity|].
    unfold ev_of. cbn [spec_run].
    destruct (spec_step (os_op x) (os_clock x) (os_res x) g st) as [st1 pr]. cbn [fst snd] in *.
    destruct (spec_run (events tr gs) st1) as [prs st']. cbn [fst snd] in *.
    split; [exact Heq'|]. constructor; [exact Hp|exact Hps].
Qed.

(* which calls the spec always predicts: under ss_eq with a well-formed observation the answer
   of a read, a seek, a question, a flush or a close is computed by the spec *)
Definition predicted (o : op) : bool :=
  match o with
  | Read _ _ | IoRead _ _ | Length _ | Offset _ | Eof _ | SeekStart _ _ | SeekEnd _ _ | SeekCur _ _
  | Flush _ | CloseFile _ => true
  | _ => false
  end.
Lemma spec_predicts o c r g st a : predicted o = true -> ss_eq st a -> obs_wf a ->
  snd (spec_step o c r g st) <> None.
Proof.
  intros Hp (Hf & Hh) W.
  assert (Hv : forall h hi, hget h (ss_handles st) = Some hi -> vget (hi_pos hi) (ss_files st) <> None).
  { intros h hi H. rewrite (Hh h) in H. rewrite (Hf (hi_pos hi)). exact (ow_open a W h hi H). }
  destruct o; try discriminate Hp; cbn [spec_step];
    unfold sp_flush, sp_read, sp_seek, sp_query, sp_with; cbn [andb];
    try (destruct (hget f (ss_handles st)) as [hi|] eqn:Eh; [|cbn; discriminate]).
  - cbn. discriminate.
  - cbn. discriminate.
  - specialize (Hv f hi Eh). destruct (vget (hi_pos hi) (ss_files st)); [cbn; discriminate|contradiction].
  - specialize (Hv f hi Eh). destruct (vget (hi_pos hi) (ss_files st)); [|contradiction].
    destruct (spec_seek_start _ _ _); cbn; discriminate.
  - specialize (Hv f hi Eh). destruct (vget (hi_pos hi) (ss_files st)); [|contradiction].
    destruct (spec_seek_cur _ _ _); cbn; discriminate.
  - specialize (Hv f hi Eh). destruct (vget (hi_pos hi) (ss_files st)); [|contradiction].
    destruct (spec_seek_end _ _ _); cbn; discriminate.
  - specialize (Hv f hi Eh). destruct (vget (hi_pos hi) (ss_files st)); [cbn; discriminate|contradiction].
  - specialize (Hv f hi Eh). destruct (vget (hi_pos hi) (ss_files st)); [cbn; discriminate|contradiction].
  - specialize (Hv f hi Eh). destruct (vget (hi_pos hi) (ss_files st)); [cbn; discriminate|contradiction].
  - destruct (n =? 0); [cbn; discriminate|].
    destruct (hget f (ss_handles st)) as [hi|] eqn:Eh; [|cbn; discriminate].
    specialize (Hv f hi Eh). destruct (vget (hi_pos hi) (ss_files st)); [cbn; discriminate|contradiction].
Qed.

(* ================================================================== 5. C01 and C02 for whole histories of the model *)
Section Histories.
  Variables fsz vid : N.
  Hypothesis Hall : forall o, step_content fsz vid o.

  (* C01.  Any history `ops` of create / open / write / seek / read / truncate / append / flush /
     close / delete / mkdir (and every other in-scope call), on any number of files, all
     interleaved, from any state with the global invariant whose clean handles show the medium
     (obs_sync: e.g. no file open).  Run the SPEC on the map  position -> fview  that the API
     shows at the start and the handle table, feeding it the calls, the clock values and the
     model's results (outcome class), with suitable ghosts gs.  Then
       - every result the spec predicts is the model's result (reads return exactly the bytes of
         the byte-array model at the cursor, clipped at the end; Length / Offset / Eof / seeks /
         flush / close answer as the spec computes),
       - after the history the API shows, position by position, the spec's map, and the handle
         table is the spec's (a write to one file changes no other file: spec_step updates one key). *)
  Theorem C01_history ops s age a :
    fs_inv fsz vid s -> PrHandles.handles_ok age s ->
    age + N.of_nat (length ops) < U32 - 1 -> Forall op_known_ok ops ->
    observes fsz vid s a -> obs_sync a ->
    exists gs, length gs = length ops /\
      let evs := events_of ops (run_clocks ops s) (fst (run_ops ops s)) gs in
      Forall2 pred_ok (fst (spec_run evs (ss_of a))) (fst (run_ops ops s)) /\
      exists a', observes fsz vid (snd (run_ops ops s)) a' /\ ss_eq (snd (spec_run evs (ss_of a))) a'.
  Proof.
    intros Hinv Hh Hage Hops Ho S.
    destruct (history_trace fsz vid Hall ops s age a Hinv Hh Hage Hops Ho) as (tr & a' & E1 & E2 & E3 & Ho' & Hc & Hw).
    destruct (chain_spec tr a a' (ss_of a) Hc Hw S (ss_eq_of a)) as (gs & El & Heq & Hp).
    exists gs. subst ops. split; [rewrite El, map_length; reflexivity|]. cbv zeta.
    rewrite <- E2, <- E3, <- events_of_trace.
    split; [exact Hp|]. exists a'. split; [exact Ho'|exact Heq].
  Qed.

  (* C01 + C02, one statement about the chain of the history.  Besides C01:
     (flushed) for every Flush / CloseFile x of the history on a handle that is open at that
       moment on the file at slot p, if no later call MODIFIES p (write, open, delete; later
       flushes, closes, reads, seeks are allowed), then after the history a completely fresh mount
       of the raw block device shows at p exactly the spec's fview: the 8.3 name, the attribute,
       the creation time (as at creation / as on the original medium), the modification time =
       the (2-second-rounded) clock value of the last write, and exactly the bytes;
     (untouched) every file position no call targets shows on the medium what it showed at the
       start; every raw directory slot other than the targeted ones and the one slot per
       successful Mkdir keeps its index and its 32 bytes. *)
  Theorem C02_history ops s age a :
    fs_inv fsz vid s -> PrHandles.handles_ok age s ->
    age + N.of_nat (length ops) < U32 - 1 -> Forall op_known_ok ops ->
    observes fsz vid s a -> obs_sync a ->
    exists tr a' gs, map os_op tr = ops /\ map os_res tr = fst (run_ops ops s) /\
      map os_clock tr = run_clocks ops s /\ length gs = length tr /\
      observes fsz vid (snd (run_ops ops s)) a' /\ chain_ok a tr a' /\
      let st' := snd (spec_run (events tr gs) (ss_of a)) in
      ss_eq st' a' /\
      (forall tr1 x tr2 h hi, tr = tr1 ++ x :: tr2 -> is_flush_of h (os_op x) ->
         hget h (ob_handles (os_pre x)) = Some hi ->
         Forall (fun y => mod_target_of y <> Some (hi_pos hi)) tr2 ->
         vget (hi_pos hi) (ob_disk a') = vget (hi_pos hi) (ss_files st') /\
         vget (hi_pos hi) (ss_files st') <> None) /\
      (forall p, Forall (fun x => target_of x <> Some p) tr -> vget p (ob_disk a') = vget p (ob_disk a)) /\
      exists qs, Forall2 (fun x q => q = None \/ q = target_of x \/ is_mkdir (os_op x)) tr qs /\
        slots_keep (fun p => In (Some p) qs) a a'.
  Proof.
    intros Hinv Hh Hage Hops Ho S.
    destruct (history_trace fsz vid Hall ops s age a Hinv Hh Hage Hops Ho) as (tr & a' & E1 & E2 & E3 & Ho' & Hc & Hw).
    destruct (chain_spec tr a a' (ss_of a) Hc Hw S (ss_eq_of a)) as (gs & El & Heq & Hp).
    exists tr, a', gs. split; [exact E1|]. split; [exact E2|]. split; [exact E3|]. split; [exact El|].
    split; [exact Ho'|]. split; [exact Hc|]. cbv zeta. split; [exact Heq|]. split; [|split].
    - intros tr1 x tr2 h hi Et Hf Hhi Hu. subst tr.
      destruct (chain_flushed_final tr1 x tr2 a a' h hi Hc Hw S Hf Hhi Hu) as (F1 & F2 & F3).
      rewrite (proj1 Heq (hi_pos hi)). split; [exact F1|]. rewrite F2. exact F3.
    - intros p Hp'. exact (proj2 (chain_untouched p tr a a' Hc Hp')).
    - exact (chain_dirs tr a a' Hc).
  Qed.
End Histories.

Print Assumptions spec_step_sound.
Print Assumptions chain_spec.
Print Assumptions spec_predicts.
Print Assumptions C01_history.
Print Assumptions C02_history.

(* ---- the spec run is executable: a small run on one file ---- *)
Example spec_run_example :
  let t := stamp_of 3 in
  let p := (22, 64) in
  let st0 := mk_ss [(p, mk_fview (gx_name 66) 32 t t [1; 2; 3; 4; 5])] [(7, mk_hinfo p ReadWriteCreate 0 true)] in
  let evs := [ (Read 7 2, 4, Ok (RBytes [1; 2]), g0);
               (Write 7 [9; 9], 4, Ok RUnit, g0);
               (SeekStart 7 0, 5, Ok RUnit, g0);
               (Read 7 10, 5, Ok (RBytes [1; 2; 9; 9; 5]), g0);
               (CloseFile 7, 5, Ok RUnit, g0);
               (Read 7 1, 5, Err BadHandle, g0) ] in
  fst (spec_run evs st0) =
    [Some (Ok (RBytes [1; 2])); None; Some (Ok RUnit); Some (Ok (RBytes [1; 2; 9; 9; 5])); Some (Ok RUnit);
     Some (Err BadHandle)] /\
  option_map fv_bytes (vget p (ss_files (snd (spec_run evs st0)))) = Some [1; 2; 9; 9; 5] /\
  option_map fv_mtime (vget p (ss_files (snd (spec_run evs st0)))) = Some (round2 (clock_ts 4)) /\
  hget 7 (ss_handles (snd (spec_run evs st0))) = None.
Proof. vm_compute. repeat split; reflexivity. Qed.
