(* Property C10 - power loss leaves at worst lost clusters
   This file contains only property theorems (each closed by `exact`), `Check` pins and
   `Print Assumptions`.  FULL STATEMENT (DESIGN.md 4 C10) is not yet proved for the whole
   layer-B model; what is proved here are the named mechanisms, for all inputs.  The gap is
   covered - visibly - by the correspondence check and the spec oracle (see evidence). *)
From Coq Require Import NArith ZArith List Bool.
From SdFs Require Import FsTypes FsBase FsFat FsMgr FsLemmas.
Import ListNotations.
Open Scope N_scope.


Theorem C10_only_free_clusters_taken_partial : forall n fat32 b off cur endc c cur', scan_sector n fat32 b off cur endc = (Some c, cur') -> cur <= c /\ c < endc /\ fat_entry_at fat32 b (off + (c - cur) * (if fat32 then 4 else 2)) = 0 /\ off + (c - cur) * (if fat32 then 4 else 2) <= 512 - (if fat32 then 4 else 2).
Proof. exact scan_sector_sound. Qed.

Print Assumptions C10_only_free_clusters_taken_partial.
