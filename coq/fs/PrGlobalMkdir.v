(* PROOFS: the global invariant fs_inv (PrGlobalDef) is kept by Mkdir in EVERY outcome:
     step_ok_Mkdir : forall fsz vid d name, step_ok fsz vid (Mkdir d name)
   (make_dir_in_dir -> FsFat.make_dir).  No hypothesis beyond those of step_ok.
   Outcomes: TooManyOpenDirs (the crate tests the directory table first), BadHandle (stale handle,
   handle of another volume id), FilenameError, DirAlreadyExists ("." / "..", or a directory of
   that name), FileAlreadyExists, NotEnoughSpace before anything is written (mk_full0), NotEnoughSpace
   after the new cluster was taken - FAT16 root full, or the parent has to grow and the volume is
   full: the cluster is released again, fat_wf for the SAME heads, nothing leaked (mk_full1) -,
   success into a free slot of the parent (mk_slot), success after the parent grew by a zeroed
   cluster (mk_grown; parent = FAT32 root or a sub-directory).
   The new directory's ".." holds 0 when the parent handle is the root (also on FAT32), which
   decodes to CL_ROOT: exactly what PrGlobalDef.dots_ok demands (mkd_new_node).

   Build order (all after PrGlobalDef): PrGlobalMkdirT (tree surgery: upd, ins, upd_rep_ok,
   upd_perm_list, node_keep), PrGlobalMkdirS (the slots of one directory: dir_ok_insert,
   dir_ok_grow, slots_split, new_dir_ok, new_slot_facts, name_fresh), PrGlobalMkdirR (the run of
   make_dir: make_dir_run, with the growing directory walk), this file.

   1  from the invariant: the volume, the heads, the directory behind a handle
   2  the in-memory side: mkd_finish
   3  the disk side: blocks, the new node, the parent directory, assembly (mkd_tree_sub,
      mkd_tree_root, mkd_disk_keep), mkd_make_dir_inv (every outcome of make_dir)
   4  make_dir_in_dir: step_ok_Mkdir
   5  example (FAT16, blank volume): the hypotheses are satisfiable, two calls *)
From Coq Require Import NArith ZArith List Bool Lia Arith ZifyClasses ZifyInst Zify FMapPositive Permutation.
From SdFs Require Import FsTypes FsBase FsFat FsMgr FsLemmas PrBase PrFat PrAlloc PrDir PrSeek PrAllocEffect
  PrRw PrWrite PrFileSeq PrMulti PrEntry PrChain PrCount PrWf PrOpenClose PrGlobalDef PrGlobalMkdirT PrGlobalMkdirS
  PrGlobalMkdirR.
From SdFs Require PrModes PrHandles PrCrash PrBounds PrOrder.
Import ListNotations.
Open Scope N_scope.
Local Arguments N.mul : simpl never.
Local Arguments N.add : simpl never.
Local Arguments N.sub : simpl never.
Local Arguments N.div : simpl never.
Local Arguments N.modulo : simpl never.
Local Arguments N.land : simpl never.
Local Arguments N.lor : simpl never.
Local Arguments N.min : simpl never.
Local Arguments N.max : simpl never.
Local Ltac Zify.zify_post_hook ::= Z.to_euclidean_division_equations.

(* ================================================================== 1. from the invariant *)
Lemma mkd_facts fsz vid s vi v bl rch T : fs_inv_at fsz vid s vi v bl rch T ->
  s_lock s = false /\ no_faults s /\ cache_ok s /\ s_vols s = [v] /\ vi = 0%nat /\
  nth_error (s_vols s) 0 = Some v /\ vol_ok v /\ fat_layout v fsz /\ blocks_wf (s_disk s) /\ v_id v = vid /\
  alloc_pre s 0 v fsz /\ clusters_fit v.
Proof.
  intros Hinv.
  pose proof (fi_vol _ _ _ _ _ _ _ _ Hinv) as (Hl & Hpre & Hfit & _ & Hwf & Hfind).
  pose proof Hpre as ((Hnf & Hc & Hvi & _) & L & _).
  pose proof (fi_single _ _ _ _ _ _ _ _ Hinv) as Ev.
  assert (E0 : vi = 0%nat).
  { rewrite Ev in Hfind. cbn [find_idx] in Hfind. rewrite N.eqb_refl in Hfind. injection Hfind as <-. reflexivity. }
  subst vi. repeat (split; [assumption|]). split; [reflexivity|]. split; [exact Hvi|].
  split; [exact (fl_vol _ _ L)|]. split; [exact L|]. split; [exact Hwf|].
  split; [exact (fi_vid _ _ _ _ _ _ _ _ Hinv)|]. split; [exact Hpre|exact Hfit].
Qed.

(* a node of the tree is what the disk holds at its position *)
Lemma mkd_node_entry d v bl T n : tree_rep d v bl T -> In n (all_nodes T) ->
  disk_entry d v (node_entry n) = node_entry n.
Proof.
  intros HT Hn. destruct (all_nodes_rep d v bl T HT n Hn) as (t & bl' & Hr & Ht & _).
  exact (proj1 (proj2 (proj2 (proj2 (node_rep_slot d v bl' n t Hr Ht))))).
Qed.

Lemma mkd_geo_fields v w : geo_eq v w ->
  v_id w = v_id v /\ v_fat32 w = v_fat32 v /\ v_spc w = v_spc v /\ v_clusters w = v_clusters v /\
  v_lba w = v_lba v /\ v_nblocks w = v_nblocks v /\ v_info w = v_info v /\
  bytes_per_cluster w = bytes_per_cluster v /\ v_root_cluster w = v_root_cluster v.
Proof. intros (a & b & ->). repeat split; reflexivity. Qed.

Lemma mkd_fat_area_geo v w j : geo_eq v w -> fat_area w j <-> fat_area v j.
Proof. intros (a & b & ->). reflexivity. Qed.

Lemma mkd_cluster_blocks_geo v w c : geo_eq v w -> cluster_blocks w c = cluster_blocks v c.
Proof. intros (a & b & ->). reflexivity. Qed.

Lemma mkd_chain_l_geo d v w h : geo_eq v w -> chain_l d w h = chain_l d v h.
Proof.
  intros G. unfold chain_l. rewrite (chain_of_geo d v w G).
  replace (walk_fuel w) with (walk_fuel v); [reflexivity|]. unfold walk_fuel. rewrite (geo_clusters _ _ G). reflexivity.
Qed.

(* ================================================================== 2. the in-memory side *)
(* the tables are as before, the volume record has the same geometry, the disk-level invariant
   holds for a tree that still has every old node (possibly with a longer chain / more kids),
   and the chains of the open files are as before: the invariant holds *)
Theorem mkd_finish fsz vid s s' vi v v' bl rch T bl' rch' T' :
  fs_inv_at fsz vid s vi v bl rch T ->
  s_vols s' = [v'] -> geo_eq v v' -> alloc_pre s' vi v' fsz -> blocks_wf (s_disk s') ->
  s_dirs s' = s_dirs s -> s_files s' = s_files s -> s_lock s' = s_lock s ->
  disk_inv (s_disk s') v bl' rch' T' (pend_of s v) ->
  (forall f, In f (s_files s) -> 2 <= e_cluster (f_entry f) ->
     chain_at (s_disk s') v (e_cluster (f_entry f)) (chain_l (s_disk s) v (e_cluster (f_entry f)))) ->
  (forall e ch, In (NFile e ch) (all_nodes T) -> In (NFile e ch) (all_nodes T')) ->
  (forall e ch kids, In (NDir e ch kids) (all_nodes T) ->
     exists ch' kids', In (NDir e ch' kids') (all_nodes T')) ->
  fs_inv_at fsz vid s' vi v' bl' rch' T'.
Proof.
  intros Hinv Ev' G Hpre' Hwf' Edirs Efiles Elock Hdisk Hchains Hfilesn Hdirsn.
  destruct (mkd_facts _ _ _ _ _ _ _ _ Hinv) as (Hl & _ & _ & Ev & -> & _ & _ & _ & _ & _ & _ & Hfit).
  destruct (mkd_geo_fields v v' G) as (Gid & G32 & Gspc & Gcl & Glba & Gnb & Ginfo & Gbpc & Grc).
  pose proof Hinv as [A B C D E F GG H I J K].
  pose proof GG as [Droot Dtree _ _ Dwf _]. pose proof Hdisk as [Droot' Dtree' _ _ Dwf' _].
  (* the slot of an open file reads the same before and after *)
  assert (Hslot : forall f, In f (s_files s) ->
            disk_entry (s_disk s') v (f_entry f) = disk_entry (s_disk s) v (f_entry f)).
  { intros f Hf. rewrite Forall_forall in H. destruct (of_node _ _ _ _ (H f Hf)) as (e0 & ch0 & Hn & Eb & Eo & _).
    rewrite <- (disk_entry_key (s_disk s') v e0 (f_entry f) Eb Eo), <- (disk_entry_key (s_disk s) v e0 (f_entry f) Eb Eo).
    pose proof (mkd_node_entry _ _ _ _ _ Dtree Hn) as E1.
    pose proof (mkd_node_entry _ _ _ _ _ Dtree' (Hfilesn e0 ch0 Hn)) as E2. cbn [node_entry] in E1, E2. congruence. }
  assert (Hde : forall e, disk_entry (s_disk s') v' e = disk_entry (s_disk s') v e)
    by (intros e; unfold disk_entry; rewrite G32; reflexivity).
  assert (Hisp : forall f, In f (s_files s) -> is_pending (s_disk s') v' f = is_pending (s_disk s) v f).
  { intros f Hf. unfold is_pending. rewrite Hde, (Hslot f Hf). reflexivity. }
  assert (Hpend : pend_of s' v' = pend_of s v).
  { unfold pend_of. rewrite Efiles. f_equal. apply filter_ext_in. exact Hisp. }
  assert (Hfch : forall f, In f (s_files s) -> fchain (s_disk s') v' f = fchain (s_disk s) v f).
  { intros f Hf. unfold fchain. destruct (N.ltb_spec (e_cluster (f_entry f)) 2) as [H2|H2]; [reflexivity|].
    rewrite (mkd_chain_l_geo _ v v' _ G). exact (chain_l_at _ _ _ _ (Hchains f Hf H2)). }
  constructor.
  - rewrite Gid. exact A.
  - exact Ev'.
  - split; [rewrite Elock; exact Hl|]. split; [exact Hpre'|]. split; [exact (link_ok_geo v v' G Hfit)|].
    split; [rewrite Gspc; exact (proj1 (proj2 (proj2 (proj2 C))))|]. split; [exact Hwf'|].
    rewrite Ev'. cbn [find_idx]. rewrite N.eqb_refl. reflexivity.
  - rewrite Gnb. exact (PrBounds.part_layout_geom v v' _ _ G D).
  - rewrite Glba, Gnb. exact E.
  - intros E32. rewrite G32 in E32. destruct (F E32) as [F1 F2]. rewrite Ginfo. split.
    + intros Hfa. apply F1. apply (mkd_fat_area_geo v v' _ G). exact Hfa.
    + intros c Hc. rewrite (mkd_cluster_blocks_geo v v' c G). exact (F2 c Hc).
  - rewrite Hpend. exact (disk_inv_geo _ v v' _ _ _ _ G Hdisk).
  - rewrite Efiles. rewrite Forall_forall in *. intros f Hf. pose proof (H f Hf) as [O1 O2 O3 O4 O5 O6 O7 O8 O9].
    constructor; try assumption.
    + rewrite Gid. exact O1.
    + destruct O2 as [P1 P2 P3 P4 P5]. constructor; try assumption.
      intros Hfa. apply P5. apply (mkd_fat_area_geo v v' _ G). exact Hfa.
    + destruct O3 as (e0 & ch0 & Hn & Rest). exists e0, ch0. split; [exact (Hfilesn e0 ch0 Hn)|exact Rest].
    + rewrite (Hfch f Hf). unfold chain_ok in *.
      destruct O5 as [(X1 & (fu & X2) & X3)|X]; [left|right; exact X].
      split; [exact X1|]. split.
      * exists (walk_fuel v). rewrite (chain_of_geo _ v v' G).
        pose proof (Hchains f Hf X1) as Hc. unfold fchain.
        replace (e_cluster (f_entry f) <? 2) with false by (symmetry; apply N.ltb_ge; exact X1). exact Hc.
      * destruct X3 as (k & Y1 & Y2). exists k. rewrite Gbpc. split; assumption.
    + rewrite (Hfch f Hf), Gbpc. exact O6.
    + rewrite (Hisp f Hf). exact O9.
  - rewrite Efiles. exact I.
  - rewrite Efiles. exact J.
  - rewrite Edirs. rewrite Forall_forall in *. intros dd Hdd Evol. rewrite Gid in Evol.
    destruct (K dd Hdd Evol) as [Hroot|(e & ch & kids & Hn & Ec)]; [left; exact Hroot|right].
    destruct (Hdirsn e ch kids Hn) as (ch' & kids' & Hn'). exists e, ch', kids'. split; [exact Hn'|exact Ec].
Qed.

(* ================================================================== 3. the disk side *)
(* ---- blocks ---- *)
Lemma mkd_blocks_from_nodup n : forall i, NoDup (blocks_from n i).
Proof.
  induction n as [|n IH]; intros i; [constructor|]. cbn [blocks_from]. constructor; [|apply IH].
  intros H. apply PrOrder.blocks_from_In in H. lia.
Qed.

Lemma mkd_in_data_blocks v ch j : In j (data_blocks v ch) <-> exists x, In x ch /\ In j (cluster_blocks v x).
Proof. unfold data_blocks. apply in_flat_map. Qed.

Lemma mkd_data_blocks_nodup v ch : NoDup ch -> Forall (fun x => 2 <= x) ch -> NoDup (data_blocks v ch).
Proof.
  intros Hnd Hr. unfold data_blocks. apply nodup_flat_map; [exact Hnd| |].
  - intros a _. apply mkd_blocks_from_nodup.
  - intros a b x Ha Hb Xa Xb. destruct (N.eq_dec a b) as [E|Ne]; [exact E|exfalso].
    rewrite Forall_forall in Hr. exact (cluster_blocks_apart v a b x x Ne (Hr a Ha) (Hr b Hb) Xa Xb eq_refl).
Qed.

Lemma mkd_data_blocks_app v a b : data_blocks v (a ++ b) = data_blocks v a ++ data_blocks v b.
Proof. unfold data_blocks. apply flat_map_app. Qed.

Lemma mkd_data_blocks_one v c : data_blocks v [c] = cluster_blocks v c.
Proof. unfold data_blocks. cbn [flat_map]. apply app_nil_r. Qed.

Section Inv.
  Variables (fsz vid : N) (s : st) (vi : nat) (v : vol) (bl rch : list N) (T : list node).
  Hypothesis Hinv : fs_inv_at fsz vid s vi v bl rch T.

  Definition iv_hs : list N := heads v T ++ pend_of s v.

  Lemma iv_wf : fat_wf (s_disk s) v iv_hs.
  Proof. exact (di_wf _ _ _ _ _ _ (fi_disk _ _ _ _ _ _ _ _ Hinv)). Qed.

  Lemma iv_layout : PrBounds.part_layout v (v_nblocks v) fsz.
  Proof. exact (fi_layout _ _ _ _ _ _ _ _ Hinv). Qed.

  Lemma iv_data_not_fat j x : 2 <= x -> x < v_clusters v + 2 -> In j (cluster_blocks v x) -> ~ PrBounds.in_fat v fsz j.
  Proof.
    intros X1 X2 Hj Hf. pose proof (PrBounds.C04_cluster_block_in_data v x X1 X2) as Hd. rewrite Forall_forall in Hd.
    destruct (PrBounds.C04_regions_disjoint v _ fsz j iv_layout) as (_ & D & _). exact (proj1 (proj2 (D Hf)) (Hd j Hj)).
  Qed.

  (* a block of a chain of the invariant is no FAT sector and no block of a free cluster *)
  Lemma iv_chain_block h ch j : In h iv_hs -> chain_at (s_disk s) v h ch -> In j (data_blocks v ch) ->
    ~ PrBounds.in_fat v fsz j /\
    forall c, 2 <= c -> fat_get (s_disk s) v 0 c = 0 -> ~ In j (cluster_blocks v c).
  Proof.
    intros Hh Hch Hj. apply mkd_in_data_blocks in Hj. destruct Hj as (x & Hx & Hj).
    destruct (chain_at_mem _ _ _ _ x Hch Hx) as (X1 & X2 & X3 & _).
    split; [exact (iv_data_not_fat j x X1 X2 Hj)|].
    intros c C1 Cf Hin. apply (cluster_blocks_apart v x c j j); try assumption; [|reflexivity]. intros ->. contradiction.
  Qed.

  Lemma iv_root16_block j : v_fat32 v = false -> In j (root16_blocks v) ->
    ~ PrBounds.in_fat v fsz j /\ forall c, 2 <= c -> ~ In j (cluster_blocks v c).
  Proof.
    intros E16 Hj. split.
    - intros Hf. pose proof (PrBounds.C04_root_block_in_root v E16) as Hr. rewrite Forall_forall in Hr.
      destruct (PrBounds.C04_regions_disjoint v _ fsz j iv_layout) as (_ & D & _). exact (proj1 (D Hf) (Hr j Hj)).
    - intros c Hc. exact (root16_no_cluster _ _ _ _ _ _ _ _ Hinv j c E16 Hj Hc).
  Qed.

  (* blocks of the chains of two different heads are different *)
  Lemma iv_disj h1 h2 ch1 ch2 j : In h1 iv_hs -> In h2 iv_hs -> h1 <> h2 ->
    chain_at (s_disk s) v h1 ch1 -> chain_at (s_disk s) v h2 ch2 ->
    In j (data_blocks v ch1) -> ~ In j (data_blocks v ch2).
  Proof.
    intros H1 H2 Hne C1 C2 J1 J2. apply mkd_in_data_blocks in J1. apply mkd_in_data_blocks in J2.
    destruct J1 as (x1 & X1 & J1). destruct J2 as (x2 & X2 & J2).
    destruct (chain_at_mem _ _ _ _ x1 C1 X1) as (A1 & _). destruct (chain_at_mem _ _ _ _ x2 C2 X2) as (A2 & _).
    destruct (N.eq_dec x1 x2) as [->|Nx].
    - apply Hne. exact (wf_disj _ _ _ iv_wf h1 h2 ch1 ch2 x2 H1 H2 C1 C2 X1 X2).
    - exact (cluster_blocks_apart v x1 x2 j j Nx A1 A2 J1 J2 eq_refl).
  Qed.

  Lemma iv_node_heads_in h : In h (flat_map node_heads T) -> In h iv_hs.
  Proof. intros H. unfold iv_hs, heads. apply in_or_app. left. apply in_or_app. right. exact H. Qed.

  Lemma iv_root_head_in h : In h (root_heads v) -> In h iv_hs.
  Proof. intros H. unfold iv_hs, heads. apply in_or_app. left. apply in_or_app. left. exact H. Qed.

  Lemma iv_nodup : NoDup (flat_map own_head (all_nodes T)) /\ NoDup (pend_of s v) /\
    (forall c, In c (root_heads v) -> ~ In c (flat_map node_heads T) /\ ~ In c (pend_of s v)) /\
    (forall c, In c (flat_map node_heads T) -> ~ In c (pend_of s v)).
  Proof. exact (heads_nodup v T (pend_of s v) (wf_heads _ _ _ iv_wf)). Qed.

  (* no file of the tree starts at the first cluster of a directory, of the root, or below 2 *)
  Lemma iv_file_not_pc pc :
    (pc < 2 \/ In pc (root_heads v) \/ exists e ch kids, In (NDir e ch kids) (all_nodes T) /\ e_cluster e = pc) ->
    forall k, In k T -> file_not_pc pc k.
  Proof.
    intros Hpc k Hk e ch Hin H2 E. destruct iv_nodup as (N1 & _ & N3 & _).
    assert (Hn : In (NFile e ch) (all_nodes T)) by (apply in_flat_map; exists k; split; assumption).
    assert (Hc : In pc (own_head (NFile e ch))).
    { cbn [own_head]. apply N.leb_le in H2. rewrite H2. left. exact E. }
    destruct Hpc as [Hlt|[Hr|(e0 & ch0 & kids0 & Hn0 & E0)]].
    - lia.
    - exact (proj1 (N3 pc Hr) (own_head_in T _ _ Hn Hc)).
    - assert (Hc0 : In pc (own_head (NDir e0 ch0 kids0))) by (left; exact E0).
      pose proof (flat_map_owner own_head _ N1 _ _ _ Hn Hn0 Hc Hc0) as Eq. discriminate Eq.
  Qed.

  (* the root directory: its blocks are no FAT sectors, no blocks of a free cluster, pairwise
     distinct, and apart from the blocks of every chain of a node head or pending head *)
  Lemma iv_root_blocks :
    NoDup bl /\
    (forall j, In j bl -> ~ PrBounds.in_fat v fsz j /\
                          forall c, 2 <= c -> fat_get (s_disk s) v 0 c = 0 -> ~ In j (cluster_blocks v c)) /\
    (forall h ch j, In h (flat_map node_heads T ++ pend_of s v) -> chain_at (s_disk s) v h ch ->
                    In j (data_blocks v ch) -> ~ In j bl).
  Proof.
    pose proof (di_root _ _ _ _ _ _ (fi_disk _ _ _ _ _ _ _ _ Hinv)) as Hroot. unfold root_dir in Hroot.
    destruct iv_nodup as (_ & _ & N3 & _).
    destruct (v_fat32 v) eqn:E32.
    - destruct Hroot as (Hch & Ebl). rewrite Ebl.
      assert (Hrh : In (v_root_cluster v) (root_heads v)) by (unfold root_heads; rewrite E32; left; reflexivity).
      split; [|split].
      + apply mkd_data_blocks_nodup; [exact (chain_at_nodup _ _ _ _ Hch)|].
        apply Forall_forall. intros x Hx. exact (proj1 (chain_at_mem _ _ _ _ x Hch Hx)).
      + intros j Hj. exact (iv_chain_block _ _ j (iv_root_head_in _ Hrh) Hch Hj).
      + intros h ch j Hh Hc Hj Hj'.
        assert (Hh' : In h iv_hs) by (unfold iv_hs, heads; rewrite <- app_assoc; apply in_or_app; right; exact Hh).
        apply (iv_disj h (v_root_cluster v) ch rch j Hh' (iv_root_head_in _ Hrh)); try assumption.
        intros ->. destruct (N3 _ Hrh) as [A B]. apply in_app_or in Hh. destruct Hh as [Hh|Hh]; contradiction.
    - destruct Hroot as (_ & Ebl). rewrite Ebl. split; [apply mkd_blocks_from_nodup|]. split.
      + intros j Hj. destruct (iv_root16_block j E32 Hj) as [A B]. split; [exact A|]. intros c Hc _. exact (B c Hc).
      + intros h ch j Hh Hc Hj Hj'. apply mkd_in_data_blocks in Hj. destruct Hj as (x & Hx & Hj).
        exact (proj2 (iv_root16_block j E32 Hj') x (proj1 (chain_at_mem _ _ _ _ x Hc Hx)) Hj).
  Qed.
End Inv.

(* ---- the new node ---- *)
Definition mkd_newt (fat32 : bool) (sfn : list N) (tm : ts) (c blk off : N) : tslot :=
  (blk, off, ser_bytes fat32 (mk_dirent sfn tm tm A_DIRECTORY c 0 blk off)).
Definition mkd_newn (fat32 : bool) (sfn : list N) (tm : ts) (c blk off : N) : node :=
  NDir (t_entry fat32 (mkd_newt fat32 sfn tm c blk off)) [c] [].

Lemma mkd_new_node d' v dc sfn c now tm blk off :
  1 <= v_spc v -> clusters_fit v -> (dc = CL_ROOT \/ (2 <= dc /\ dc < v_clusters v + 2)) ->
  length sfn = 11%nat -> get8 sfn 0 <> 0 -> get8 sfn 0 <> 229 -> PrModes.dot_name sfn = false ->
  2 <= c -> c < v_clusters v + 2 ->
  disk_get d' (cluster_first_block v c) =
    set_bytes (set_bytes zero_block 0
                 (ser_bytes (v_fat32 v) (mk_dirent THIS_DIR_NAME now now A_DIRECTORY c 0 (cluster_first_block v c) 0)))
              32 (ser_bytes (v_fat32 v) (mk_dirent PARENT_DIR_NAME now now A_DIRECTORY
                                           (if dc =? CL_ROOT then CL_EMPTY else dc) 0 (cluster_first_block v c) 32)) ->
  (forall k, 1 <= k -> k < v_spc v -> disk_get d' (cluster_first_block v c + k) = zero_block) ->
  chain_at d' v c [c] ->
  let newt := mkd_newt (v_fat32 v) sfn tm c blk off in
  let newn := mkd_newn (v_fat32 v) sfn tm c blk off in
  node_slot newt = true /\ t_name newt = sfn /\ node_rep d' v newn newt /\ node_ok d' v dc newn /\
  node_heads newn = [c] /\ node_pos newn = (blk, off) /\ flatten newn = [newn] /\ own_head newn = [c].
Proof.
  intros Hspc Hfit Hdc Hlen H0 H229 Hdot C1 C2 Hdots Hzero Hch newt newn.
  unfold clusters_fit, fat_bad in Hfit.
  assert (Hc32 : c < (if v_fat32 v then 4294967296 else 65536)) by (destruct (v_fat32 v); lia).
  assert (Hcb : c < (if v_fat32 v then 268435447 else 65527)) by (destruct (v_fat32 v); lia).
  destruct (new_slot_facts (v_fat32 v) sfn tm c blk off Hlen H0 H229 Hdot C1 Hc32) as (A1 & A2 & A3 & A4 & A5 & A6 & A7).
  fold (mkd_newt (v_fat32 v) sfn tm c blk off) in A1, A2, A3, A4, A5, A6, A7. fold newt in A1, A2, A3, A4, A5, A6, A7.
  set (pcl := if dc =? CL_ROOT then CL_EMPTY else dc) in *.
  assert (Hp : pcl < (if v_fat32 v then 4294967296 else 65536)).
  { unfold pcl, CL_EMPTY. destruct (dc =? CL_ROOT) eqn:E; [destruct (v_fat32 v); lia|].
    destruct Hdc as [->|(D1 & D2)]; [rewrite N.eqb_refl in E; discriminate E|]. destruct (v_fat32 v); lia. }
  destruct (new_dir_ok_db d' v c pcl now Hspc C1 Hcb Hp Hdots Hzero) as (B1 & B2).
  assert (Epp : (if pcl =? 0 then CL_ROOT else pcl) = dc).
  { unfold pcl, CL_EMPTY. destruct (N.eqb_spec dc CL_ROOT) as [->|Ne]; [reflexivity|].
    destruct Hdc as [E|(D1 & D2)]; [contradiction|]. replace (dc =? 0) with false by (symmetry; apply N.eqb_neq; lia). reflexivity. }
  rewrite Epp in B2.
  split; [exact A1|]. split; [exact A2|]. split.
  { unfold newn, mkd_newn. fold newt. apply node_rep_dir. split; [reflexivity|]. split; [exact A3|].
    rewrite A4. split; [exact Hch|]. rewrite B1. constructor. }
  split.
  { unfold newn, mkd_newn. fold newt. apply node_ok_dir. rewrite A4. split; [exact B2|constructor]. }
  unfold newn, mkd_newn. fold newt. unfold node_pos. cbn [node_heads flat_map node_entry flatten own_head app].
  rewrite A4, A5, A6. repeat split; reflexivity.
Qed.

(* ---- the parent directory, when it has a free slot ---- *)
Lemma mkd_dir_slot fsz d d' v dc pp pbl sfn c tm blk off sl0 :
  blocks_wf d -> NoDup pbl ->
  (forall j, In j pbl -> ~ PrBounds.in_fat v fsz j /\
                         forall c0, 2 <= c0 -> fat_get d v 0 c0 = 0 -> ~ In j (cluster_blocks v c0)) ->
  dir_ok d v dc pp pbl ->
  length sfn = 11%nat -> ~ In sfn (map t_name (dir_shorts d pbl)) ->
  2 <= c -> fat_get d v 0 c = 0 ->
  find nv (slots_of d pbl) = Some (blk, off, sl0) ->
  disk_get d' blk = set_bytes (disk_get d blk) off
                      (ser_bytes (v_fat32 v) (mk_dirent sfn tm tm A_DIRECTORY c 0 blk off)) ->
  (forall j, ~ PrBounds.in_fat v fsz j -> ~ In j (cluster_blocks v c) -> j <> blk ->
             disk_get d' j = disk_get d j) ->
  let newt := mkd_newt (v_fat32 v) sfn tm c blk off in
  node_slot newt = true -> t_name newt = sfn ->
  (forall p, dir_ok d v dc p pbl -> dir_ok d' v dc p pbl) /\
  (exists n1 n2, dir_nodes d pbl = n1 ++ n2 /\ dir_nodes d' pbl = n1 ++ newt :: n2) /\
  In blk pbl /\ t_is_valid (blk, off, slot (disk_get d blk) (off / 32)) = false.
Proof.
  intros Hwf Hnd Hcls Hok Hlen Hfresh C1 Cf Hfind Hblk Hfr newt Hns Hnm.
  assert (Hbytes : length (ser_bytes (v_fat32 v) (mk_dirent sfn tm tm A_DIRECTORY c 0 blk off)) = 32%nat)
    by (apply ser_bytes_length; exact Hlen).
  assert (Hfr' : forall j, In j pbl -> j <> blk -> disk_get d' j = disk_get d j).
  { intros j Hj Hne. destruct (Hcls j Hj) as [A B]. apply Hfr; [exact A|exact (B c C1 Cf)|exact Hne]. }
  destruct (slots_split d d' pbl blk off sl0 _ Hnd (Hwf blk) Hbytes Hfind Hfr' Hblk) as (l1 & l2 & E1 & E2 & Hl1 & Hold).
  fold (mkd_newt (v_fat32 v) sfn tm c blk off) in E2. fold newt in E2.
  assert (Hfresh' : ~ In (t_name newt) (map t_name (dir_shorts d pbl))) by (rewrite Hnm; exact Hfresh).
  destruct (dir_ok_insert d d' v dc pp pbl l1 (blk, off, sl0) l2 newt E1 E2 Hl1 Hold Hns Hfresh' Hok) as (R1 & R2).
  split; [intros p Hp; exact (proj1 (dir_ok_insert d d' v dc p pbl l1 (blk, off, sl0) l2 newt E1 E2 Hl1 Hold Hns Hfresh' Hp))|].
  split; [exact R2|].
  assert (Hin : In (blk, off, sl0) (slots_of d pbl)) by (rewrite E1; apply in_or_app; right; left; reflexivity).
  destruct (In_slots_of d pbl _ Hin) as (b & i & Hb & Hi & Et). injection Et as -> -> ->.
  split; [exact Hb|]. replace (i * 32 / 32) with i by lia. exact Hold.
Qed.

(* ---- the parent directory, when it has to grow ---- *)
Lemma mkd_dir_grow fsz d d' v dc pp pch sfn c c' tm :
  1 <= v_spc v ->
  (forall j, In j (data_blocks v pch) -> ~ PrBounds.in_fat v fsz j /\
       forall c0, 2 <= c0 -> fat_get d v 0 c0 = 0 -> ~ In j (cluster_blocks v c0)) ->
  dir_ok d v dc pp (data_blocks v pch) ->
  length sfn = 11%nat -> ~ In sfn (map t_name (dir_shorts d (data_blocks v pch))) ->
  2 <= c -> fat_get d v 0 c = 0 -> 2 <= c' -> fat_get d v 0 c' = 0 ->
  find nv (slots_of d (data_blocks v pch)) = None ->
  disk_get d' (cluster_first_block v c') =
    set_bytes zero_block 0 (ser_bytes (v_fat32 v) (mk_dirent sfn tm tm A_DIRECTORY c 0 (cluster_first_block v c') 0)) ->
  (forall k, 1 <= k -> k < v_spc v -> disk_get d' (cluster_first_block v c' + k) = zero_block) ->
  (forall j, ~ PrBounds.in_fat v fsz j -> ~ In j (cluster_blocks v c) -> ~ In j (cluster_blocks v c') ->
             disk_get d' j = disk_get d j) ->
  let newt := mkd_newt (v_fat32 v) sfn tm c (cluster_first_block v c') 0 in
  node_slot newt = true -> t_name newt = sfn ->
  (forall p, dir_ok d v dc p (data_blocks v pch) -> dir_ok d' v dc p (data_blocks v (pch ++ [c']))) /\
  dir_nodes d' (data_blocks v (pch ++ [c'])) = dir_nodes d (data_blocks v pch) ++ [newt].
Proof.
  intros Hspc Hcls Hok Hlen Hfresh C1 Cf C1' Cf' Hfind Hfirst Hrest Hfr newt Hns Hnm.
  assert (Hbytes : length (ser_bytes (v_fat32 v) (mk_dirent sfn tm tm A_DIRECTORY c 0 (cluster_first_block v c') 0)) = 32%nat)
    by (apply ser_bytes_length; exact Hlen).
  assert (Es : slots_of d' (data_blocks v pch) = slots_of d (data_blocks v pch)).
  { apply slots_of_ext. intros j Hj. destruct (Hcls j Hj) as [A B]. apply Hfr; [exact A|exact (B c C1 Cf)|exact (B c' C1' Cf')]. }
  destruct (grown_cluster_slots d' v c' _ Hspc Hbytes Hfirst Hrest) as (zs & Ez & Hzs).
  fold (mkd_newt (v_fat32 v) sfn tm c (cluster_first_block v c') 0) in Ez. fold newt in Ez.
  assert (Hfresh' : ~ In (t_name newt) (map t_name (dir_shorts d (data_blocks v pch)))) by (rewrite Hnm; exact Hfresh).
  rewrite mkd_data_blocks_app, mkd_data_blocks_one. split.
  - intros p Hp. exact (proj1 (dir_ok_grow d d' v dc p (data_blocks v pch) (cluster_blocks v c') newt zs Es (find_nv_none _ Hfind) Ez Hzs Hns Hfresh' Hp)).
  - exact (proj2 (dir_ok_grow d d' v dc pp (data_blocks v pch) (cluster_blocks v c') newt zs Es (find_nv_none _ Hfind) Ez Hzs Hns Hfresh' Hok)).
Qed.

(* ---- the tree with the new node: assembly of the disk-level invariant ---- *)
Lemma mkd_all_nodes_map_files (f : node -> node) T :
  (forall n e ch, In (NFile e ch) (flatten n) -> In (NFile e ch) (flatten (f n))) ->
  forall e ch, In (NFile e ch) (all_nodes T) -> In (NFile e ch) (all_nodes (map f T)).
Proof.
  intros Hf e ch H. apply in_flat_map in H. destruct H as (n & Hn & H). apply in_flat_map.
  exists (f n). split; [apply in_map; exact Hn|exact (Hf n e ch H)].
Qed.

Lemma mkd_all_nodes_map_dirs (f : node -> node) T :
  (forall n e ch kids, In (NDir e ch kids) (flatten n) -> exists ch' kids', In (NDir e ch' kids') (flatten (f n))) ->
  forall e ch kids, In (NDir e ch kids) (all_nodes T) -> exists ch' kids', In (NDir e ch' kids') (all_nodes (map f T)).
Proof.
  intros Hf e ch kids H. apply in_flat_map in H. destruct H as (n & Hn & H).
  destruct (Hf n e ch kids H) as (ch' & kids' & H'). exists ch', kids'. apply in_flat_map.
  exists (f n). split; [apply in_map; exact Hn|exact H'].
Qed.

Lemma mkd_all_nodes_ins newn i T n : In n (all_nodes T) -> In n (all_nodes (ins newn i T)).
Proof.
  intros H. apply in_flat_map in H. destruct H as (m & Hm & H). apply in_flat_map.
  exists m. split; [apply in_ins; exact Hm|exact H].
Qed.

Section Assemble.
  Variables (fsz vid : N) (s : st) (vi : nat) (v : vol) (bl rch : list N) (T : list node).
  Hypothesis Hinv : fs_inv_at fsz vid s vi v bl rch T.
  Variables (d' : disk) (c : N) (newn : node) (newt : tslot).
  Hypothesis W' : fat_wf d' v (c :: iv_hs s v T).
  Hypothesis Hnew_flat : flatten newn = [newn].
  Hypothesis Hnew_head : own_head newn = [c].
  Hypothesis Hnew_pos : ~ In (node_pos newn) (map node_pos (all_nodes T)).
  Hypothesis Hnew_rep : node_rep d' v newn newt.

  Lemma as_pos_perm T' :
    Permutation (flat_map (fun n => [node_pos n]) (all_nodes T'))
                ((fun n => [node_pos n]) newn ++ flat_map (fun n => [node_pos n]) (all_nodes T)) ->
    NoDup (map node_pos (all_nodes T')).
  Proof.
    intros P. rewrite !mkt_flat_map_single in P. cbn [app] in P.
    apply (Permutation_NoDup (Permutation_sym P)). constructor; [exact Hnew_pos|].
    exact (di_pos _ _ _ _ _ _ (fi_disk _ _ _ _ _ _ _ _ Hinv)).
  Qed.

  Lemma as_wf_perm T' :
    Permutation (flat_map own_head (all_nodes T')) (own_head newn ++ flat_map own_head (all_nodes T)) ->
    fat_wf d' v (heads v T' ++ pend_of s v).
  Proof.
    intros P. rewrite Hnew_head in P. cbn [app] in P. rewrite <- !heads_all_nodes in P.
    apply (fat_wf_perm d' v (c :: iv_hs s v T)); [|exact W'].
    unfold iv_hs, heads. rewrite <- !app_assoc. apply Permutation_sym.
    apply (Permutation_trans (Permutation_app_head _ (Permutation_app_tail _ P))).
    cbn [app]. apply Permutation_sym. apply Permutation_middle.
  Qed.

  (* the parent is a directory below the root *)
  Lemma mkd_tree_sub pe pch pkids dc pch' n1 n2 :
    In (NDir pe pch pkids) (all_nodes T) -> e_cluster pe = dc ->
    (forall h ch, In h (iv_hs s v T) -> h <> dc -> chain_at (s_disk s) v h ch -> chain_at d' v h ch) ->
    (forall h ch, In h (iv_hs s v T) -> h <> dc -> chain_at (s_disk s) v h ch ->
                  forall j, In j (data_blocks v ch) -> disk_get d' j = disk_get (s_disk s) j) ->
    (v_fat32 v = false -> forall j, In j (root16_blocks v) -> disk_get d' j = disk_get (s_disk s) j) ->
    chain_at d' v dc pch' ->
    dir_nodes (s_disk s) (data_blocks v pch) = n1 ++ n2 ->
    dir_nodes d' (data_blocks v pch') = n1 ++ newt :: n2 ->
    (forall p, dir_ok (s_disk s) v dc p (data_blocks v pch) -> dir_ok d' v dc p (data_blocks v pch')) ->
    node_ok d' v dc newn ->
    let T' := map (upd dc pch' newn (length n1)) T in
    disk_inv d' v bl rch T' (pend_of s v) /\
    (forall e ch, In (NFile e ch) (all_nodes T) -> In (NFile e ch) (all_nodes T')) /\
    (forall e ch kids, In (NDir e ch kids) (all_nodes T) -> exists ch' kids', In (NDir e ch' kids') (all_nodes T')).
  Proof.
    intros HP Edc F1 F2 F16 Hpch' En En' Hdok Hnok T'.
    pose proof (fi_disk _ _ _ _ _ _ _ _ Hinv) as [Droot Dtree Drootok Dnodes Dwf Dpos].
    destruct (iv_nodup _ _ _ _ _ _ _ _ Hinv) as (N1 & N2 & N3 & N4).
    (* the parent as it is on the old disk *)
    destruct (all_nodes_rep _ _ _ _ Dtree _ HP) as (tp & blp & Hrp & _).
    apply node_rep_dir in Hrp. destruct Hrp as (_ & _ & Hpch & _). rewrite Edc in Hpch.
    assert (Hdc_head : In dc (flat_map node_heads T)).
    { apply (own_head_in T _ _ HP). left. exact Edc. }
    assert (Hfnp : forall k, In k T -> file_not_pc dc k).
    { apply (iv_file_not_pc _ _ _ _ _ _ _ _ Hinv). right. right. exists pe, pch, pkids. split; [exact HP|exact Edc]. }
    assert (Hroot_ne : forall h, In h (root_heads v) -> h <> dc).
    { intros h Hh ->. exact (proj1 (N3 _ Hh) Hdc_head). }
    (* the blocks of the root directory are as before *)
    assert (Hbl : forall j, In j bl -> disk_get d' j = disk_get (s_disk s) j).
    { unfold root_dir in Droot. destruct (v_fat32 v) eqn:E32.
      - destruct Droot as (Hch & Ebl). rewrite Ebl.
        assert (Hrh : In (v_root_cluster v) (root_heads v)) by (unfold root_heads; rewrite E32; left; reflexivity).
        exact (F2 _ _ (iv_root_head_in _ _ _ _ Hrh) (Hroot_ne _ Hrh) Hch).
      - destruct Droot as (_ & Ebl). rewrite Ebl. exact (F16 eq_refl). }
    assert (HPn : forall pch0, chain_at (s_disk s) v dc pch0 -> exists m1 m2 nt,
              dir_nodes (s_disk s) (data_blocks v pch0) = m1 ++ m2 /\ dir_nodes d' (data_blocks v pch') = m1 ++ nt :: m2 /\
              length m1 = length n1 /\ node_rep d' v newn nt).
    { intros pch0 H0. rewrite <- (chain_at_det _ _ _ _ _ Hpch H0). exists n1, n2, newt.
      split; [exact En|]. split; [exact En'|]. split; [reflexivity|exact Hnew_rep]. }
    assert (HPok : forall pch0 p, chain_at (s_disk s) v dc pch0 ->
              dir_ok (s_disk s) v dc p (data_blocks v pch0) -> dir_ok d' v dc p (data_blocks v pch')).
    { intros pch0 p H0. rewrite <- (chain_at_det _ _ _ _ _ Hpch H0). apply Hdok. }
    destruct (forest_rep_ok dc pch' newn (length n1) (s_disk s) d' v (iv_hs s v T) F1 F2
                (fun pch0 _ => Hpch') HPn HPok Hnok T (dir_nodes (s_disk s) bl) CL_ROOT
                (iv_node_heads_in _ _ _) Hfnp Dtree Dnodes) as [Ht' Hok'].
    split; [|split].
    - constructor.
      + unfold root_dir in *. destruct (v_fat32 v) eqn:E32; [|exact Droot].
        destruct Droot as (Hch & Ebl). split; [|exact Ebl].
        assert (Hrh : In (v_root_cluster v) (root_heads v)) by (unfold root_heads; rewrite E32; left; reflexivity).
        exact (F1 _ _ (iv_root_head_in _ _ _ _ Hrh) (Hroot_ne _ Hrh) Hch).
      + unfold tree_rep. rewrite (dir_nodes_ext _ d' bl Hbl). exact Ht'.
      + exact (dir_ok_frame _ d' v _ _ _ Hbl Drootok).
      + exact Hok'.
      + apply as_wf_perm. apply (upd_perm_list dc pch' newn (length n1) _ own_head (fun _ _ _ _ _ => eq_refl) Hnew_flat T Hdc_head).
        * rewrite heads_all_nodes. exact N1.
        * exact Hfnp.
      + apply as_pos_perm.
        apply (upd_perm_list dc pch' newn (length n1) _ (fun n => [node_pos n]) (fun _ _ _ _ _ => eq_refl) Hnew_flat T Hdc_head).
        * rewrite heads_all_nodes. exact N1.
        * exact Hfnp.
    - apply mkd_all_nodes_map_files. apply upd_files.
    - apply mkd_all_nodes_map_dirs. apply upd_dirs.
  Qed.

  (* the parent is the root directory *)
  Lemma mkd_tree_root bl' rch' n1 n2 :
    root_dir d' v bl' rch' ->
    (forall h ch, In h (flat_map node_heads T ++ pend_of s v) -> chain_at (s_disk s) v h ch -> chain_at d' v h ch) ->
    (forall h ch, In h (flat_map node_heads T ++ pend_of s v) -> chain_at (s_disk s) v h ch ->
                  forall j, In j (data_blocks v ch) -> disk_get d' j = disk_get (s_disk s) j) ->
    dir_nodes (s_disk s) bl = n1 ++ n2 -> dir_nodes d' bl' = n1 ++ newt :: n2 ->
    dir_ok d' v CL_ROOT CL_ROOT bl' ->
    node_ok d' v CL_ROOT newn ->
    let T' := ins newn (length n1) T in
    disk_inv d' v bl' rch' T' (pend_of s v) /\
    (forall e ch, In (NFile e ch) (all_nodes T) -> In (NFile e ch) (all_nodes T')) /\
    (forall e ch kids, In (NDir e ch kids) (all_nodes T) -> exists ch' kids', In (NDir e ch' kids') (all_nodes T')).
  Proof.
    intros Hroot' G1 G2 En En' Hrok Hnok T'.
    pose proof (fi_disk _ _ _ _ _ _ _ _ Hinv) as [Droot Dtree Drootok Dnodes Dwf Dpos].
    assert (Hkeep : forall n t p, In n T -> node_rep (s_disk s) v n t -> node_ok (s_disk s) v p n ->
                      node_rep d' v n t /\ node_ok d' v p n).
    { intros n t p Hn. apply (node_keep (s_disk s) d' v _ G1 G2).
      intros h Hh. apply in_or_app. left. apply in_flat_map. exists n. split; assumption. }
    assert (Ht : Forall2 (node_rep d' v) T (dir_nodes (s_disk s) bl) /\ Forall (node_ok d' v CL_ROOT) T).
    { unfold tree_rep in Dtree. revert Dtree Dnodes Hkeep. generalize (dir_nodes (s_disk s) bl) as ts. clear.
      induction T as [|n T0 IH]; intros ts H2 Hok Hk.
      - inversion H2; subst. split; constructor.
      - inversion H2 as [|? t ? ts' Hnt Hrest]; subst. inversion Hok as [|? ? Hokn Hokr]; subst.
        destruct (Hk n t CL_ROOT (or_introl eq_refl) Hnt Hokn) as [A B].
        destruct (IH ts' Hrest Hokr (fun n0 t0 p0 Hin => Hk n0 t0 p0 (or_intror Hin))) as [C D].
        split; constructor; assumption. }
    destruct Ht as [Ht Hok]. rewrite En in Ht.
    split; [|split].
    - constructor.
      + exact Hroot'.
      + unfold tree_rep. rewrite En'. exact (ins_Forall2 _ newn T n1 newt n2 Ht Hnew_rep).
      + exact Hrok.
      + exact (ins_Forall _ newn _ T Hok Hnok).
      + apply as_wf_perm. exact (ins_perm newn (length n1) _ own_head Hnew_flat T).
      + apply as_pos_perm. exact (ins_perm newn (length n1) _ (fun n => [node_pos n]) Hnew_flat T).
    - intros e ch. apply mkd_all_nodes_ins.
    - intros e ch kids H. exists ch, kids. apply mkd_all_nodes_ins. exact H.
  Qed.
End Assemble.

(* ---- the tree is kept: chains and directory blocks as before ---- *)
Lemma mkd_disk_keep fsz vid s vi v bl rch T d' :
  fs_inv_at fsz vid s vi v bl rch T ->
  fat_wf d' v (iv_hs s v T) ->
  (forall h ch, In h (iv_hs s v T) -> chain_at (s_disk s) v h ch -> chain_at d' v h ch) ->
  (forall h ch, In h (iv_hs s v T) -> chain_at (s_disk s) v h ch ->
                forall j, In j (data_blocks v ch) -> disk_get d' j = disk_get (s_disk s) j) ->
  (v_fat32 v = false -> forall j, In j (root16_blocks v) -> disk_get d' j = disk_get (s_disk s) j) ->
  disk_inv d' v bl rch T (pend_of s v).
Proof.
  intros Hinv W' G1 G2 G16.
  pose proof (fi_disk _ _ _ _ _ _ _ _ Hinv) as [Droot Dtree Drootok Dnodes Dwf Dpos].
  assert (Hrh : v_fat32 v = true -> In (v_root_cluster v) (iv_hs s v T)).
  { intros E32. apply iv_root_head_in. unfold root_heads. rewrite E32. left. reflexivity. }
  assert (Hbl : forall j, In j bl -> disk_get d' j = disk_get (s_disk s) j).
  { unfold root_dir in Droot. destruct (v_fat32 v) eqn:E32.
    - destruct Droot as (Hch & Ebl). rewrite Ebl. exact (G2 _ _ (Hrh eq_refl) Hch).
    - destruct Droot as (_ & Ebl). rewrite Ebl. exact (G16 eq_refl). }
  assert (Ht : Forall2 (node_rep d' v) T (dir_nodes (s_disk s) bl) /\ Forall (node_ok d' v CL_ROOT) T).
  { assert (Hkeep : forall n t p, In n T -> node_rep (s_disk s) v n t -> node_ok (s_disk s) v p n ->
                      node_rep d' v n t /\ node_ok d' v p n).
    { intros n t p Hn. apply (node_keep (s_disk s) d' v _ G1 G2).
      intros h Hh. apply iv_node_heads_in. apply in_flat_map. exists n. split; assumption. }
    unfold tree_rep in Dtree. revert Dtree Dnodes Hkeep. generalize (dir_nodes (s_disk s) bl) as ts. clear.
    induction T as [|n T0 IH]; intros ts H2 Hok Hk.
    - inversion H2; subst. split; constructor.
    - inversion H2 as [|? t ? ts' Hnt Hrest]; subst. inversion Hok as [|? ? Hokn Hokr]; subst.
      destruct (Hk n t CL_ROOT (or_introl eq_refl) Hnt Hokn) as [A B].
      destruct (IH ts' Hrest Hokr (fun n0 t0 p0 Hin => Hk n0 t0 p0 (or_intror Hin))) as [C D].
      split; constructor; assumption. }
  destruct Ht as [Ht Hok]. constructor.
  - unfold root_dir in *. destruct (v_fat32 v) eqn:E32; [|exact Droot].
    destruct Droot as (Hch & Ebl). split; [exact (G1 _ _ (Hrh eq_refl) Hch)|exact Ebl].
  - unfold tree_rep. rewrite (dir_nodes_ext _ d' bl Hbl). exact Ht.
  - exact (dir_ok_frame _ d' v _ _ _ Hbl Drootok).
  - exact Hok.
  - exact W'.
  - exact Dpos.
Qed.

(* ---- the directory behind a handle ---- *)
Definition mkd_is_dir (T : list node) (c : N) : Prop :=
  c = CL_ROOT \/ exists e ch ks, In (NDir e ch ks) (all_nodes T) /\ e_cluster e = c.

Lemma mkd_flatten_ok d v : forall m p, node_ok d v p m -> forall n, In n (flatten m) ->
  n = m \/ exists e ch ks, In (NDir e ch ks) (flatten m) /\ node_ok d v (e_cluster e) n.
Proof.
  induction m as [e ch|e ch kids IH] using node_ind'; intros p Hm n Hn.
  - destruct Hn as [<-|[]]. left. reflexivity.
  - destruct Hn as [<-|Hn]; [left; reflexivity|]. right.
    apply in_flat_map in Hn. destruct Hn as (k & Hk & Hn).
    apply node_ok_dir in Hm. destruct Hm as (_ & Hkids).
    rewrite Forall_forall in IH, Hkids.
    destruct (IH k Hk (e_cluster e) (Hkids k Hk) n Hn) as [->|(e' & ch' & ks' & A & B)].
    + exists e, ch, kids. split; [apply flatten_self|exact (Hkids k Hk)].
    + exists e', ch', ks'. split; [exact (flatten_kid e ch kids k _ Hk A)|exact B].
Qed.

Lemma mkd_all_nodes_ok d v T : Forall (node_ok d v CL_ROOT) T -> forall n, In n (all_nodes T) ->
  exists p, node_ok d v p n.
Proof.
  intros HT n Hn. apply in_flat_map in Hn. destruct Hn as (m & Hm & Hn).
  rewrite Forall_forall in HT.
  destruct (mkd_flatten_ok d v m CL_ROOT (HT m Hm) n Hn) as [->|(e & ch & ks & A & B)].
  - exists CL_ROOT. exact (HT m Hm).
  - exists (e_cluster e). exact B.
Qed.

Lemma mkd_sub_dir fsz vid s vi v bl rch T e ch kids : fs_inv_at fsz vid s vi v bl rch T ->
  In (NDir e ch kids) (all_nodes T) ->
  chain_at (s_disk s) v (e_cluster e) ch /\ 2 <= e_cluster e /\ e_cluster e < v_clusters v + 2 /\
  In (e_cluster e) (iv_hs s v T) /\
  exists pp, dir_ok (s_disk s) v (e_cluster e) pp (data_blocks v ch).
Proof.
  intros Hinv Hn. pose proof (fi_disk _ _ _ _ _ _ _ _ Hinv) as [Droot Dtree Drootok Dnodes Dwf Dpos].
  destruct (all_nodes_rep _ _ _ _ Dtree _ Hn) as (t & bl0 & Hr & _).
  apply node_rep_dir in Hr. destruct Hr as (_ & _ & Hch & _).
  destruct (chain_of_head _ _ _ _ _ Hch) as (R1 & R2 & _).
  split; [exact Hch|]. split; [exact R1|]. split; [exact R2|]. split.
  - apply iv_node_heads_in. apply (own_head_in T _ _ Hn). left. reflexivity.
  - destruct (mkd_all_nodes_ok _ _ _ Dnodes _ Hn) as (p & Hok). apply node_ok_dir in Hok. exists p. exact (proj1 Hok).
Qed.

(* ---- the slot of the new entry is the slot of no node ---- *)
Lemma mkd_pos_fresh fsz vid s vi v bl rch T blk off : fs_inv_at fsz vid s vi v bl rch T ->
  t_is_valid (blk, off, slot (disk_get (s_disk s) blk) (off / 32)) = false \/
  (exists c', 2 <= c' /\ fat_get (s_disk s) v 0 c' = 0 /\ In blk (cluster_blocks v c')) ->
  ~ In (blk, off) (map node_pos (all_nodes T)).
Proof.
  intros Hinv Hcond Hin. apply in_map_iff in Hin. destruct Hin as (n & Epos & Hn).
  pose proof (fi_disk _ _ _ _ _ _ _ _ Hinv) as [Droot Dtree Drootok Dnodes Dwf Dpos].
  destruct (all_nodes_rep _ _ _ _ Dtree _ Hn) as (t & bl0 & Hr & Ht & Hbl0).
  destruct (node_rep_slot _ _ _ _ _ Hr Ht) as (Hb & _ & Est & _ & Hns).
  unfold node_pos in Epos. injection Epos as Eb Eo.
  destruct Hcond as [Hnv|(c' & C1 & Cf & Hc')].
  - unfold slot_tslot in Est. rewrite Eb, Eo in Est. rewrite Est in Hnv.
    unfold node_slot, short_slot in Hns. rewrite Hnv in Hns. discriminate Hns.
  - rewrite Eb in Hb. destruct Hbl0 as [->|(e & ch & kids & Hnd & -> & Hch)].
    + exact (proj2 (proj1 (proj2 (iv_root_blocks _ _ _ _ _ _ _ _ Hinv)) blk Hb) c' C1 Cf Hc').
    + destruct (mkd_sub_dir _ _ _ _ _ _ _ _ _ _ _ Hinv Hnd) as (_ & _ & _ & Hh & _).
      exact (proj2 (iv_chain_block _ _ _ _ _ _ _ _ Hinv _ _ blk Hh Hch Hb) c' C1 Cf Hc').
Qed.

Lemma mkd_dir_blocks_chain d v c ch : vol_ok v -> chain_at d v c ch -> dir_blocks d v c = Some (data_blocks v ch).
Proof.
  intros Hv Hch. destruct (chain_of_head _ _ _ _ _ Hch) as (R1 & R2 & _).
  unfold dir_blocks, dir_first_cluster.
  replace (c =? CL_ROOT) with false by (symmetry; apply N.eqb_neq; exact (in_range_not_root v c Hv R2)).
  rewrite !andb_false_r. unfold chain_at in Hch. rewrite Hch. reflexivity.
Qed.

Lemma mkd_ctx fsz vid s vi v bl rch T dc : fs_inv_at fsz vid s vi v bl rch T -> mkd_is_dir T dc ->
  exists pbl pp, dir_blocks (s_disk s) v dc = Some pbl /\ dir_ok (s_disk s) v dc pp pbl /\ NoDup pbl /\
    (forall j, In j pbl -> ~ PrBounds.in_fat v fsz j /\
       forall c0, 2 <= c0 -> fat_get (s_disk s) v 0 c0 = 0 -> ~ In j (cluster_blocks v c0)) /\
    (dc = CL_ROOT \/ (2 <= dc /\ dc < v_clusters v + 2)) /\
    (negb (v_fat32 v) && (dc =? CL_ROOT) = false -> In (dir_first_cluster v dc) (iv_hs s v T)) /\
    ((dc = CL_ROOT /\ pbl = bl /\ pp = CL_ROOT) \/
     (exists pe pch pkids, In (NDir pe pch pkids) (all_nodes T) /\ e_cluster pe = dc /\
                           pbl = data_blocks v pch /\ chain_at (s_disk s) v dc pch /\ dc <> CL_ROOT)).
Proof.
  intros Hinv Hdc. destruct (mkd_facts _ _ _ _ _ _ _ _ Hinv) as (_ & _ & _ & _ & _ & _ & Hv & _).
  pose proof (fi_disk _ _ _ _ _ _ _ _ Hinv) as [Droot Dtree Drootok Dnodes Dwf Dpos].
  destruct Hdc as [->|(pe & pch & pkids & Hn & Edc)].
  - exists bl, CL_ROOT. destruct (iv_root_blocks _ _ _ _ _ _ _ _ Hinv) as (B1 & B2 & _).
    split.
    { unfold root_dir in Droot. unfold dir_blocks, dir_first_cluster. rewrite N.eqb_refl, !andb_true_r.
      destruct (v_fat32 v); cbn [negb].
      - destruct Droot as (Hch & ->). unfold chain_at in Hch. rewrite Hch. reflexivity.
      - destruct Droot as (_ & ->). reflexivity. }
    split; [exact Drootok|]. split; [exact B1|]. split; [exact B2|]. split; [left; reflexivity|].
    split; [|left; repeat split; reflexivity].
    rewrite N.eqb_refl, andb_true_r. intros E. apply negb_false_iff in E.
    unfold dir_first_cluster. rewrite E, N.eqb_refl. cbn [andb]. apply iv_root_head_in. unfold root_heads. rewrite E. left. reflexivity.
  - destruct (mkd_sub_dir _ _ _ _ _ _ _ _ _ _ _ Hinv Hn) as (Hch & R1 & R2 & Hh & pp & Hok). rewrite Edc in *.
    pose proof (in_range_not_root v dc Hv R2) as Hnr.
    exists (data_blocks v pch), pp. split; [exact (mkd_dir_blocks_chain _ _ _ _ Hv Hch)|]. split; [exact Hok|].
    split.
    { apply mkd_data_blocks_nodup; [exact (chain_at_nodup _ _ _ _ Hch)|].
      apply Forall_forall. intros x Hx. exact (proj1 (chain_at_mem _ _ _ _ x Hch Hx)). }
    split; [intros j Hj; exact (iv_chain_block _ _ _ _ _ _ _ _ Hinv _ _ j Hh Hch Hj)|].
    split; [right; split; assumption|]. split.
    + intros _. unfold dir_first_cluster. replace (dc =? CL_ROOT) with false by (symmetry; apply N.eqb_neq; exact Hnr).
      rewrite andb_false_r. exact Hh.
    + right. exists pe, pch, pkids. repeat (split; [first [assumption|reflexivity]|]). exact Hnr.
Qed.

(* ---- the chains of the open files ---- *)
Lemma mkd_file_chains fsz vid s vi v bl rch T d' pc : fs_inv_at fsz vid s vi v bl rch T ->
  (pc < 2 \/ In pc (root_heads v) \/ exists e ch kids, In (NDir e ch kids) (all_nodes T) /\ e_cluster e = pc) ->
  (forall h ch, In h (iv_hs s v T) -> h <> pc -> chain_at (s_disk s) v h ch -> chain_at d' v h ch) ->
  forall f, In f (s_files s) -> 2 <= e_cluster (f_entry f) ->
    chain_at d' v (e_cluster (f_entry f)) (chain_l (s_disk s) v (e_cluster (f_entry f))).
Proof.
  intros Hinv Hpc Hkeep f Hf H2.
  pose proof (iv_wf _ _ _ _ _ _ _ _ Hinv) as W.
  pose proof (ofile_in_hs _ _ _ _ _ _ _ _ Hinv f Hf H2) as Hin.
  pose proof (wf_l_def _ _ _ _ W Hin) as Hch.
  apply (Hkeep _ _ Hin); [|exact Hch]. intros E.
  destruct Hpc as [Hlt|Hpc]; [lia|].
  apply (dir_chain_apart _ _ _ _ _ _ _ _ Hinv pc f Hpc Hf pc).
  - rewrite <- E. exact (chain_at_head_in _ _ _ _ Hch).
  - unfold fchain. replace (e_cluster (f_entry f) <? 2) with false by (symmetry; apply N.ltb_ge; exact H2).
    rewrite <- E. exact (chain_at_head_in _ _ _ _ Hch).
Qed.

(* ================================================================== 3b. the invariant after make_dir, every outcome *)
Theorem mkd_make_dir_inv fsz vid s vi v bl rch T dc sfn pbl pp r s' :
  fs_inv_at fsz vid s vi v bl rch T ->
  dir_ok (s_disk s) v dc pp pbl -> NoDup pbl ->
  (forall j, In j pbl -> ~ PrBounds.in_fat v fsz j /\
     forall c0, 2 <= c0 -> fat_get (s_disk s) v 0 c0 = 0 -> ~ In j (cluster_blocks v c0)) ->
  (dc = CL_ROOT \/ (2 <= dc /\ dc < v_clusters v + 2)) ->
  ((dc = CL_ROOT /\ pbl = bl /\ pp = CL_ROOT) \/
   (exists pe pch pkids, In (NDir pe pch pkids) (all_nodes T) /\ e_cluster pe = dc /\
                         pbl = data_blocks v pch /\ chain_at (s_disk s) v dc pch /\ dc <> CL_ROOT)) ->
  length sfn = 11%nat -> get8 sfn 0 <> 0 -> get8 sfn 0 <> 229 -> PrModes.dot_name sfn = false ->
  ~ In sfn (map t_name (dir_shorts (s_disk s) pbl)) ->
  mk_common fsz vi v s s' -> mk_outcome fsz v (iv_hs s v T) dc sfn pbl s r s' ->
  fs_inv fsz vid s'.
Proof.
  intros Hinv Hok Hnd Hcls Hrange Hwhere Hlen H0 H229 Hdot Hfresh [Hvol Htabs Hblocks Hwrites] Hout.
  destruct (mkd_facts _ _ _ _ _ _ _ _ Hinv) as (Hl & _ & _ & Ev & Evi & _ & Hv & _ & Hwf & _ & _ & Hfit).
  destruct Hvol as (v' & Evols & G & Hpre').
  assert (Ev' : s_vols s' = [v']) by (rewrite Evols, Ev, Evi; reflexivity).
  destruct Htabs as (Edirs & Efiles & _ & Elock & _).
  pose proof (PrBounds.pl_spc _ _ _ (fi_layout _ _ _ _ _ _ _ _ Hinv)) as Hspc.
  pose proof (fi_disk _ _ _ _ _ _ _ _ Hinv) as [Droot Dtree Drootok Dnodes Dwf Dpos].
  pose proof (iv_wf _ _ _ _ _ _ _ _ Hinv) as W.
  set (hs := iv_hs s v T) in *.
  assert (Hhs_tail : forall h, In h (flat_map node_heads T ++ pend_of s v) -> In h hs).
  { intros h Hh. unfold hs, iv_hs, heads. rewrite <- app_assoc. apply in_or_app. right. exact Hh. }
  assert (Hfinish : forall bl' rch' T' pc,
            disk_inv (s_disk s') v bl' rch' T' (pend_of s v) ->
            (pc < 2 \/ In pc (root_heads v) \/ exists e ch kids, In (NDir e ch kids) (all_nodes T) /\ e_cluster e = pc) ->
            (forall h ch, In h hs -> h <> pc -> chain_at (s_disk s) v h ch -> chain_at (s_disk s') v h ch) ->
            (forall e ch, In (NFile e ch) (all_nodes T) -> In (NFile e ch) (all_nodes T')) ->
            (forall e ch kids, In (NDir e ch kids) (all_nodes T) -> exists ch' kids', In (NDir e ch' kids') (all_nodes T')) ->
            fs_inv fsz vid s').
  { intros bl' rch' T' pc Hdisk Hpc Hkeep K3 K4. exists vi, v', bl', rch', T'.
    apply (mkd_finish fsz vid s s' vi v v' bl rch T bl' rch' T' Hinv Ev' G Hpre' Hblocks Edirs Efiles Elock Hdisk);
      [|exact K3|exact K4].
    exact (mkd_file_chains _ _ _ _ _ _ _ _ (s_disk s') pc Hinv Hpc Hkeep). }
  destruct Hout as [s' Hd | s' c C1 C2 Cf Hnone W' Hkeep Hfr
                   | s' c now tm blk off sl0 Hcl Hfind Hblk W' Hc Hkeep Hfr
                   | s' c c' now tm pc pch Hcl Hnone Hnr Epc Hpch Epbl C1' C2' Cf' Hne Hfirst Hrest W' Hc Hpc' Hkeep Hfr].
  - (* no free cluster: the disk is the same *)
    apply (Hfinish bl rch T 0); [rewrite Hd; exact (fi_disk _ _ _ _ _ _ _ _ Hinv)|left; lia| |auto|].
    + intros h ch _ _ Hch. rewrite Hd. exact Hch.
    + intros e ch kids H. exists ch, kids. exact H.
  - (* the cluster was taken and given back *)
    apply (Hfinish bl rch T 0); [|left; lia|intros h ch Hh _; exact (Hkeep h ch Hh)|auto|intros e ch kids H; exists ch, kids; exact H].
    apply (mkd_disk_keep _ _ _ _ _ _ _ _ _ Hinv W' Hkeep).
    + intros h ch Hh Hch j Hj. destruct (iv_chain_block _ _ _ _ _ _ _ _ Hinv _ _ j Hh Hch Hj) as [A B].
      exact (Hfr j A (B c C1 Cf)).
    + intros E16 j Hj. destruct (iv_root16_block _ _ _ _ _ _ _ _ Hinv j E16 Hj) as [A B]. exact (Hfr j A (B c C1)).
  - (* the parent had a free slot *)
    destruct Hcl as [(C1 & C2 & Cf) Hdots Hzero].
    destruct (mkd_new_node (s_disk s') v dc sfn c now tm blk off Hspc Hfit Hrange Hlen H0 H229 Hdot C1 C2 Hdots Hzero Hc)
      as (A1 & A2 & A3 & A4 & A5 & A6 & A7 & A8).
    set (newt := mkd_newt (v_fat32 v) sfn tm c blk off) in *. set (newn := mkd_newn (v_fat32 v) sfn tm c blk off) in *.
    destruct (mkd_dir_slot fsz (s_disk s) (s_disk s') v dc pp pbl sfn c tm blk off sl0 Hwf Hnd Hcls Hok Hlen Hfresh
                C1 Cf Hfind Hblk Hfr A1 A2) as (Hdok & (n1 & n2 & En & En') & Hblkin & Hinvalid).
    fold newt in En'.
    assert (Hpos : ~ In (node_pos newn) (map node_pos (all_nodes T))).
    { rewrite A6. apply (mkd_pos_fresh _ _ _ _ _ _ _ _ blk off Hinv). left. exact Hinvalid. }
    (* blocks of the chains of the other heads are as before *)
    assert (Hother : forall h ch j, In h hs -> chain_at (s_disk s) v h ch -> In j (data_blocks v ch) -> j <> blk ->
              disk_get (s_disk s') j = disk_get (s_disk s) j).
    { intros h ch j Hh Hch Hj Hjb. destruct (iv_chain_block _ _ _ _ _ _ _ _ Hinv _ _ j Hh Hch Hj) as [A B].
      exact (Hfr j A (B c C1 Cf) Hjb). }
    destruct Hwhere as [(-> & -> & ->)|(pe & pch & pkids & HP & Edc & -> & Hpch & Hnr)].
    + (* the parent is the root *)
      destruct (mkd_tree_root _ _ _ _ _ _ _ _ Hinv (s_disk s') c newn newt W' A7 A8 Hpos A3 bl rch n1 n2)
        as (Hdisk & K3 & K4); try assumption.
      * unfold root_dir in *. destruct (v_fat32 v) eqn:E32; [|exact Droot]. destruct Droot as (Hch & Ebl).
        split; [|exact Ebl]. apply Hkeep; [|exact Hch]. apply iv_root_head_in. unfold root_heads. rewrite E32. left. reflexivity.
      * intros h ch Hh. exact (Hkeep h ch (Hhs_tail h Hh)).
      * intros h ch Hh Hch j Hj. apply (Hother h ch j (Hhs_tail h Hh) Hch Hj). intros ->.
        exact (proj2 (proj2 (iv_root_blocks _ _ _ _ _ _ _ _ Hinv)) h ch blk Hh Hch Hj Hblkin).
      * exact (Hdok CL_ROOT Drootok).
      * apply (Hfinish bl rch _ 0 Hdisk); [left; lia|intros h ch Hh _; exact (Hkeep h ch Hh)|exact K3|exact K4].
    + (* the parent is a directory below the root *)
      destruct (mkd_sub_dir _ _ _ _ _ _ _ _ _ _ _ Hinv HP) as (_ & R1 & R2 & Hdch & _). rewrite Edc in *.
      destruct (mkd_tree_sub _ _ _ _ _ _ _ _ Hinv (s_disk s') c newn newt W' A7 A8 Hpos A3 pe pch pkids dc pch n1 n2)
        as (Hdisk & K3 & K4); try assumption.
      * intros h ch Hh _. exact (Hkeep h ch Hh).
      * intros h ch Hh Hne Hch j Hj. apply (Hother h ch j Hh Hch Hj). intros ->.
        exact (iv_disj _ _ _ _ _ _ _ _ Hinv h dc ch pch blk Hh Hdch Hne Hch Hpch Hj Hblkin).
      * intros E16 j Hj. destruct (iv_root16_block _ _ _ _ _ _ _ _ Hinv j E16 Hj) as [A B].
        apply (Hfr j A (B c C1)). intros ->. apply mkd_in_data_blocks in Hblkin. destruct Hblkin as (x & Hx & Hbx).
        exact (B x (proj1 (chain_at_mem _ _ _ _ x Hpch Hx)) Hbx).
      * exact (Hkeep dc pch Hdch Hpch).
      * apply (Hfinish bl rch _ 0 Hdisk); [left; lia|intros h ch Hh _; exact (Hkeep h ch Hh)|exact K3|exact K4].
  - (* the parent had to grow *)
    destruct Hcl as [(C1 & C2 & Cf) Hdots Hzero].
    set (blk := cluster_first_block v c') in *.
    destruct (mkd_new_node (s_disk s') v dc sfn c now tm blk 0 Hspc Hfit Hrange Hlen H0 H229 Hdot C1 C2 Hdots Hzero Hc)
      as (A1 & A2 & A3 & A4 & A5 & A6 & A7 & A8).
    set (newt := mkd_newt (v_fat32 v) sfn tm c blk 0) in *. set (newn := mkd_newn (v_fat32 v) sfn tm c blk 0) in *.
    assert (Hpos : ~ In (node_pos newn) (map node_pos (all_nodes T))).
    { rewrite A6. apply (mkd_pos_fresh _ _ _ _ _ _ _ _ blk 0 Hinv). right. exists c'. split; [exact C1'|]. split; [exact Cf'|].
      unfold blk. rewrite <- (N.add_0_r (cluster_first_block v c')). apply In_cluster_blocks_intro. lia. }
    assert (Hother : forall h ch j, In h hs -> chain_at (s_disk s) v h ch -> In j (data_blocks v ch) ->
              disk_get (s_disk s') j = disk_get (s_disk s) j).
    { intros h ch j Hh Hch Hj. destruct (iv_chain_block _ _ _ _ _ _ _ _ Hinv _ _ j Hh Hch Hj) as [A B].
      exact (Hfr j A (B c C1 Cf) (B c' C1' Cf')). }
    change (flat_map (cluster_blocks v) pch) with (data_blocks v pch) in Epbl. subst pbl.
    destruct (mkd_dir_grow fsz (s_disk s) (s_disk s') v dc pp pch sfn c c' tm Hspc Hcls Hok Hlen Hfresh C1 Cf C1' Cf'
                Hnone Hfirst Hrest Hfr A1 A2) as (Hdok & En').
    fold blk in En'. fold newt in En'.
    destruct Hwhere as [(-> & Ebl & ->)|(pe & pch0 & pkids & HP & Edc & Ebl & Hpch0 & Hnr')].
    + (* the root of a FAT32 volume *)
      rewrite N.eqb_refl, andb_true_r in Hnr. apply negb_false_iff in Hnr.
      assert (Epc' : pc = v_root_cluster v) by (rewrite Epc; unfold dir_first_cluster; rewrite Hnr, N.eqb_refl; reflexivity).
      unfold root_dir in Droot. rewrite Hnr in Droot. destruct Droot as (Hrch & Ebl2).
      rewrite Epc' in *. pose proof (chain_at_det _ _ _ _ _ Hpch Hrch) as ->.
      assert (Hrh : In (v_root_cluster v) (root_heads v)) by (unfold root_heads; rewrite Hnr; left; reflexivity).
      destruct (iv_nodup _ _ _ _ _ _ _ _ Hinv) as (_ & _ & N3 & _).
      assert (Hne_root : forall h, In h (flat_map node_heads T ++ pend_of s v) -> h <> v_root_cluster v).
      { intros h Hh ->. destruct (N3 _ Hrh) as [X Y]. apply in_app_or in Hh. destruct Hh; contradiction. }
      destruct (mkd_tree_root _ _ _ _ _ _ _ _ Hinv (s_disk s') c newn newt W' A7 A8 Hpos A3
                  (data_blocks v (rch ++ [c'])) (rch ++ [c']) (dir_nodes (s_disk s) bl) [])
        as (Hdisk & K3 & K4); try assumption.
      * unfold root_dir. rewrite Hnr. split; [exact Hpc'|reflexivity].
      * intros h ch Hh. exact (Hkeep h ch (Hhs_tail h Hh) (Hne_root h Hh)).
      * intros h ch Hh Hch j Hj. exact (Hother h ch j (Hhs_tail h Hh) Hch Hj).
      * symmetry. apply app_nil_r.
      * rewrite En', Ebl2. reflexivity.
      * exact (Hdok CL_ROOT Hok).
      * apply (Hfinish _ _ _ (v_root_cluster v) Hdisk); [right; left; exact Hrh|exact Hkeep|exact K3|exact K4].
    + (* a directory below the root *)
      destruct (mkd_sub_dir _ _ _ _ _ _ _ _ _ _ _ Hinv HP) as (_ & R1 & R2 & Hdch & _). rewrite Edc in *.
      assert (Epc' : pc = dc).
      { rewrite Epc. unfold dir_first_cluster. replace (dc =? CL_ROOT) with false by (symmetry; apply N.eqb_neq; exact Hnr').
        rewrite andb_false_r. reflexivity. }
      rewrite Epc' in *. pose proof (chain_at_det _ _ _ _ _ Hpch Hpch0) as ->.
      destruct (mkd_tree_sub _ _ _ _ _ _ _ _ Hinv (s_disk s') c newn newt W' A7 A8 Hpos A3 pe pch0 pkids dc (pch0 ++ [c'])
                  (dir_nodes (s_disk s) (data_blocks v pch0)) [])
        as (Hdisk & K3 & K4); try assumption.
      * intros h ch Hh _ Hch j Hj. exact (Hother h ch j Hh Hch Hj).
      * intros E16 j Hj. destruct (iv_root16_block _ _ _ _ _ _ _ _ Hinv j E16 Hj) as [A B]. exact (Hfr j A (B c C1) (B c' C1')).
      * symmetry. apply app_nil_r.
      * apply (Hfinish bl rch _ dc Hdisk); [right; right; exists pe, pch0, pkids; split; assumption|exact Hkeep|exact K3|exact K4].
Qed.

(* ================================================================== 4. make_dir_in_dir *)
(* ---- 8.3 names: 11 bytes, none below 0x20 ---- *)
Definition mkd_sfn_wf (l : list N) : Prop := length l = 11%nat /\ Forall (fun x => 32 <= x) l.

Lemma mkd_set_bytes_one_wf l idx b : mkd_sfn_wf l -> idx < 11 -> 32 <= b -> mkd_sfn_wf (set_bytes l idx [b]).
Proof.
  intros (Hlen & Hall) Hi Hb. unfold set_bytes. split.
  - rewrite !app_length, firstn_length, skipn_length. cbn [length]. lia.
  - apply Forall_app. split; [apply Forall_forall; intros x Hx; rewrite Forall_forall in Hall; apply Hall; exact (In_firstn _ _ _ Hx)|].
    apply Forall_app. split; [constructor; [exact Hb|constructor]|].
    apply Forall_forall. intros x Hx. rewrite Forall_forall in Hall. apply Hall.
    clear - Hx. revert Hx. generalize (N.to_nat idx + length [b])%nat as k. intros k. revert l.
    induction k as [|k IH]; intros l Hx; [exact Hx|]. destruct l as [|a l]; [destruct Hx|].
    right. apply IH. exact Hx.
Qed.

Lemma mkd_upper_ge c : sfn_invalid_char c = false -> 32 <= upper c.
Proof.
  unfold sfn_invalid_char, upper. intros H. apply orb_false_iff in H. destruct H as [H1 H2].
  apply N.leb_gt in H1. cbn [existsb] in H2. repeat (apply orb_false_iff in H2; destruct H2 as [? H2]).
  destruct ((97 <=? c) && (c <=? 122)) eqn:E; [|lia].
  apply andb_true_iff in E. destruct E as [E1 E2]. apply N.leb_le in E1. lia.
Qed.

Lemma mkd_sfn_loop_wf : forall chars contents idx seen r, mkd_sfn_wf contents ->
  sfn_loop chars contents idx seen = Some r -> mkd_sfn_wf r.
Proof.
  induction chars as [|ch rest IH]; intros contents idx seen r Hc H; cbn [sfn_loop] in H.
  - destruct (idx =? 0); [discriminate|]. injection H as <-. exact Hc.
  - destruct (sfn_invalid_char ch) eqn:Ei; [discriminate|].
    destruct (255 <? ch); [discriminate|].
    destruct (ch =? 46).
    + destruct (negb seen && (1 <=? idx) && (idx <=? 8)); [|discriminate]. exact (IH _ _ _ _ Hc H).
    + cbv zeta in H. destruct seen.
      * destruct ((8 <=? idx) && (idx <? 11)) eqn:E; [|discriminate].
        apply andb_true_iff in E. destruct E as [_ E]. apply N.ltb_lt in E.
        exact (IH _ _ _ _ (mkd_set_bytes_one_wf _ _ _ Hc E (mkd_upper_ge ch Ei)) H).
      * destruct (idx <? 8) eqn:E; [|discriminate]. apply N.ltb_lt in E.
        assert (E' : idx < 11) by lia.
        exact (IH _ _ _ _ (mkd_set_bytes_one_wf _ _ _ Hc E' (mkd_upper_ge ch Ei)) H).
Qed.

Theorem mkd_sfn_of_str_wf name sfn : sfn_of_str name = Some sfn -> mkd_sfn_wf sfn.
Proof.
  unfold sfn_of_str. destruct (list_eqb name [46; 46]).
  { intros H. injection H as <-. split; [reflexivity|]. unfold PARENT_DIR_NAME. repeat constructor; lia. }
  destruct (list_eqb name [] || list_eqb name [46]).
  { intros H. injection H as <-. split; [reflexivity|]. unfold THIS_DIR_NAME. repeat constructor; lia. }
  apply mkd_sfn_loop_wf. split; [reflexivity|]. cbn [repeat]. repeat constructor; lia.
Qed.

(* ---- a step that only reads keeps the invariant ---- *)
Lemma mkd_ro fsz vid s s1 vi v bl rch T :
  fs_inv_at fsz vid s vi v bl rch T -> ro_step s s1 -> fs_inv_at fsz vid s1 vi v bl rch T.
Proof.
  intros Hinv Hro. pose proof Hro as (Hd & Hc & Hnf & (M1 & M2 & M3 & _ & _ & M6 & _)).
  destruct (mkd_facts _ _ _ _ _ _ _ _ Hinv) as (_ & _ & _ & Ev & Evi & _ & _ & _ & Hwf & _ & Hpre & _).
  pose proof (fi_vol _ _ _ _ _ _ _ _ Hinv) as (_ & Hpre0 & _).
  apply (mkd_finish fsz vid s s1 vi v v bl rch T bl rch T Hinv).
  - rewrite M1. exact Ev.
  - apply geo_eq_refl.
  - exact (alloc_pre_ro vi v fsz s s1 Hpre0 Hro).
  - rewrite Hd. exact Hwf.
  - exact M2.
  - exact M3.
  - exact M6.
  - rewrite Hd. exact (fi_disk _ _ _ _ _ _ _ _ Hinv).
  - intros f Hf H2. rewrite Hd.
    exact (wf_l_def _ _ _ _ (iv_wf _ _ _ _ _ _ _ _ Hinv) (ofile_in_hs _ _ _ _ _ _ _ _ Hinv f Hf H2)).
  - auto.
  - intros e ch kids H. exists ch, kids. exact H.
Qed.

Lemma mkd_reads_only_tsteps s s' : PrModes.reads_only s s' -> PrOrder.tsteps s s' [].
Proof. intros (_ & _ & l & E & Hl). exists l. split; [exact E|exact (reads_no_writes l Hl)]. Qed.

(* the conclusion of step_ok *)
Lemma mkd_conclude fsz vid s v (r : outcome res) s' v' ws :
  s_vols s = [v] -> s_vols s' = [v'] -> geo_eq v v' ->
  r <> Panic -> r <> OutOfFuel -> fs_inv fsz vid s' ->
  PrOrder.tsteps s s' ws -> Forall (PrBounds.in_region v fsz) ws ->
  r <> Panic /\ r <> OutOfFuel /\ fs_inv fsz vid s' /\ same_geo s s' /\
  exists ws0, PrOrder.tsteps s s' ws0 /\ forall v0, In v0 (s_vols s) -> Forall (PrBounds.in_region v0 fsz) ws0.
Proof.
  intros Ev Ev' G R1 R2 Hinv' Ht Hw. split; [exact R1|]. split; [exact R2|]. split; [exact Hinv'|]. split.
  - exists v, v'. split; [exact Ev|]. split; [exact Ev'|exact G].
  - exists ws. split; [exact Ht|]. intros v0 Hv0. rewrite Ev in Hv0. destruct Hv0 as [<-|[]]. exact Hw.
Qed.

Theorem step_ok_Mkdir fsz vid d name : step_ok fsz vid (Mkdir d name).
Proof.
  intros s r s' Hinv _ Hknown Hs. pose proof (fs_inv_lock fsz vid s Hinv) as Hl.
  cbn [step] in Hs. destruct Hinv as (vi & v & bl & rch & T & Hat).
  assert (Hinv : fs_inv fsz vid s) by (exists vi, v, bl, rch, T; exact Hat).
  destruct (mkd_facts _ _ _ _ _ _ _ _ Hat) as (_ & Hnf & Hc & Ev & Evi & Hv0 & Hv & _ & _ & _ & _ & _).
  subst vi.
  destruct (find_idx (fun x => d_id x =? d) (s_dirs s) 0) as [di|] eqn:Efind.
  2:{ (* a stale directory handle *)
    assert (Hno : PrHandles.no_dir d s) by (intros x Hx; apply N.eqb_neq; exact (find_idx_none_inv _ _ _ Efind x Hx)).
    destruct (PrHandles.C08_stale_dir_handle d s Hl Hno) as (_ & _ & _ & _ & _ & E & _). specialize (E name). cbn [step] in E.
    rewrite E in Hs. injection Hs as <- <-. apply step_ok_same; [exact Hinv|discriminate|discriminate]. }
  destruct (find_idx_nth _ _ _ _ Efind) as (dd & Hdd & _). rewrite Nat.sub_0_r in Hdd.
  assert (H1 : get_dir_by_id d s = (Ok di, s)) by (rewrite PrHandles.get_dir_by_id_eq, Efind; reflexivity).
  assert (H2 : get_dir di s = (Ok dd, s)) by (rewrite PrHandles.get_dir_eq, Hdd; reflexivity).
  destruct (is_full (s_dirs s) (s_maxd s)) eqn:Hfull.
  { assert (E : make_dir_in_dir d name s = (Err TooManyOpenDirs, s)).
    { unfold make_dir_in_dir. rewrite (PrHandles.locked_free _ s Hl), PrHandles.bind_get, Hfull. reflexivity. }
    rewrite (PrHandles.lift_err _ _ _ _ _ E) in Hs. injection Hs as <- <-.
    apply step_ok_same; [exact Hinv|discriminate|discriminate]. }
  assert (H3 : get_volume_by_id (d_vol dd) s = if v_id v =? d_vol dd then (Ok 0%nat, s) else (Err BadHandle, s)).
  { rewrite PrHandles.get_volume_by_id_eq, Ev. cbn [find_idx]. destruct (v_id v =? d_vol dd); reflexivity. }
  destruct (N.eqb_spec (v_id v) (d_vol dd)) as [Evol|Nvol].
  2:{ (* a handle of another volume id *)
    assert (E : make_dir_in_dir d name s = (Err BadHandle, s)).
    { unfold make_dir_in_dir. rewrite (PrHandles.locked_free _ s Hl), PrHandles.bind_get, Hfull.
      rewrite (bind_ok _ _ _ _ _ H1), (bind_ok _ _ _ _ _ H2). apply bind_err. exact H3. }
    rewrite (PrHandles.lift_err _ _ _ _ _ E) in Hs. injection Hs as <- <-.
    apply step_ok_same; [exact Hinv|discriminate|discriminate]. }
  assert (Hres : PrModes.resolves s d di dd 0 v).
  { split; [exact Hl|]. split; [exact H1|]. split; [exact H2|]. split; [exact H3|].
    rewrite PrHandles.get_vol_eq, Hv0. reflexivity. }
  assert (Hdir : mkd_is_dir T (d_cluster dd)).
  { pose proof (fi_dirs _ _ _ _ _ _ _ _ Hat) as Hd. rewrite Forall_forall in Hd.
    exact (Hd dd (nth_error_In _ _ Hdd) (eq_sym Evol)). }
  destruct (sfn_of_str name) as [sfn|] eqn:Hsfn.
  2:{ assert (E : make_dir_in_dir d name s = (Err FilenameError, s)).
      { unfold make_dir_in_dir. rewrite (PrHandles.locked_free _ s Hl), PrHandles.bind_get, Hfull.
        rewrite (bind_ok _ _ _ _ _ H1), (bind_ok _ _ _ _ _ H2), (bind_ok _ _ _ _ _ H3), Hsfn. reflexivity. }
      rewrite (PrHandles.lift_err _ _ _ _ _ E) in Hs. injection Hs as <- <-.
      apply step_ok_same; [exact Hinv|discriminate|discriminate]. }
  destruct (PrModes.C07_mkdir_refusals s d di dd 0%nat v name sfn Hres Hfull Hsfn) as (Rdot & Rfound).
  destruct (PrModes.dot_name sfn) eqn:Hdot.
  { rewrite (PrHandles.lift_err _ _ _ _ _ (Rdot eq_refl)) in Hs. injection Hs as <- <-.
    apply step_ok_same; [exact Hinv|discriminate|discriminate]. }
  specialize (Rfound eq_refl).
  (* the lookup *)
  destruct (mkd_ctx _ _ _ _ _ _ _ _ (d_cluster dd) Hat Hdir) as (pbl & pp & Hbl & Hok & Hnd & Hcls & Hrange & Hhead & Hwhere).
  destruct (C06_find 0 v (d_cluster dd) sfn s pbl Hv0 Hv Hnf Hc Hbl) as (s1 & Hfind & Hro).
  pose proof (PrModes.find_directory_entry_reads_only _ _ _ _ _ _ Hfind) as Hrd.
  pose proof (mkd_ro _ _ _ _ _ _ _ _ _ Hat Hro) as Hat1.
  destruct Hro as (Hd1 & Hc1 & Hnf1 & Hm1). pose proof Hm1 as (M1 & _).
  destruct (find (t_matches sfn) (live_in_blocks (s_disk s) pbl)) as [t|] eqn:Ematch.
  { (* the name exists *)
    destruct (Rfound _ _ _ Hfind eq_refl) as (E & _).
    rewrite (PrHandles.lift_err _ _ _ _ _ E) in Hs. injection Hs as <- <-.
    apply (mkd_conclude fsz vid s v _ s1 v []); try assumption; try discriminate.
    - rewrite M1. exact Ev.
    - apply geo_eq_refl.
    - exists 0%nat, v, bl, rch, T. exact Hat1.
    - exact (mkd_reads_only_tsteps _ _ Hrd).
    - constructor. }
  (* NotFound: make_dir runs in the state after the lookup *)
  assert (Erun : make_dir_in_dir d name s = make_dir 0 (d_cluster dd) sfn A_DIRECTORY s1).
  { unfold make_dir_in_dir. rewrite (PrHandles.locked_free _ s Hl), PrHandles.bind_get, Hfull.
    rewrite (bind_ok _ _ _ _ _ H1), (bind_ok _ _ _ _ _ H2), (bind_ok _ _ _ _ _ H3), Hsfn.
    unfold PrModes.dot_name in Hdot. rewrite Hdot. unfold bind at 1, try. rewrite Hfind. reflexivity. }
  destruct (mkd_sfn_of_str_wf name sfn Hsfn) as (Hlen & Hge).
  assert (H0 : get8 sfn 0 <> 0).
  { destruct sfn as [|b0 rest]; [discriminate Hlen|]. inversion Hge; subst. unfold get8. cbn [N.to_nat nth]. lia. }
  assert (H229 : get8 sfn 0 <> 229).
  { destruct Hknown as (_ & Hn). cbn [op_name_ok] in Hn. unfold e5_name in Hn. rewrite Hsfn in Hn.
    apply N.eqb_neq. exact Hn. }
  destruct (mkd_facts _ _ _ _ _ _ _ _ Hat1) as (_ & _ & _ & Ev1 & _ & _ & _ & _ & Hwf1 & _ & Hpre1 & Hfit1).
  rewrite <- Hd1 in Hbl, Hok, Hcls, Hwhere, Ematch.
  assert (Hhead1 : negb (v_fat32 v) && (d_cluster dd =? CL_ROOT) = false -> In (dir_first_cluster v (d_cluster dd)) (iv_hs s1 v T)).
  { intros E. specialize (Hhead E). unfold iv_hs, pend_of in *. rewrite Hd1. destruct Hm1 as (_ & _ & -> & _). exact Hhead. }
  destruct (make_dir_run fsz (v_nblocks v) 0%nat v (iv_hs s1 v T) (d_cluster dd) sfn pbl s1 Hpre1
              (fi_layout _ _ _ _ _ _ _ _ Hat1) Hfit1 Hwf1 (iv_wf _ _ _ _ _ _ _ _ Hat1) Hbl Hhead1 Hlen)
    as (r0 & s2 & Hmk & Hcommon & Hout).
  assert (Hfresh : ~ In sfn (map t_name (dir_shorts (s_disk s1) pbl))).
  { apply name_fresh; [exact (do_tail _ _ _ _ _ Hok)|exact Ematch]. }
  pose proof (mkd_make_dir_inv fsz vid s1 0%nat v bl rch T (d_cluster dd) sfn pbl pp r0 s2 Hat1 Hok Hnd Hcls Hrange Hwhere
                Hlen H0 H229 Hdot Hfresh Hcommon Hout) as Hinv2.
  destruct Hcommon as [(v' & Evols & G & _) _ _ (ws & Hws & Hreg)].
  assert (Ev2 : s_vols s2 = [v']) by (rewrite Evols, Ev1; reflexivity).
  assert (Ht : PrOrder.tsteps s s2 ws).
  { pose proof (PrOrder.tsteps_trans _ _ _ _ _ (mkd_reads_only_tsteps _ _ Hrd) Hws) as X. exact X. }
  unfold lift, bind in Hs. rewrite Erun, Hmk in Hs.
  assert (Hr0 : r0 = Ok tt \/ r0 = Err NotEnoughSpace) by (destruct Hout; auto).
  destruct Hr0 as [-> | ->]; injection Hs as <- <-;
    apply (mkd_conclude fsz vid s v _ s2 v' ws Ev Ev2 G); try assumption; discriminate.
Qed.

Print Assumptions step_ok_Mkdir.

(* ================================================================== 5. example: the hypotheses are satisfiable *)
(* PrFat's FAT16 example volume on a blank device (empty root directory, nothing allocated), one
   handle (9) on the root directory: the invariant holds; Mkdir 9 "A" succeeds, a second Mkdir of
   the same name answers DirAlreadyExists, and by step_ok_Mkdir the invariant holds after both *)
Definition mkd_ex_state : st :=
  set_s_next_id (set_s_dirs (PrFat.ex_state PrFat.ex_vol16) [mk_dirinfo 9 0 CL_ROOT]) 10.

Example mkd_ex_inv : fs_inv 256 0 mkd_ex_state.
Proof.
  exists 0%nat, PrFat.ex_vol16, (root16_blocks PrFat.ex_vol16), [], [].
  assert (Hget : forall i, disk_get (s_disk mkd_ex_state) i = zero_block).
  { intros i. unfold disk_get. cbn [s_disk mkd_ex_state set_s_next_id set_s_dirs PrFat.ex_state]. rewrite PositiveMap.gempty. reflexivity. }
  constructor.
  - reflexivity.
  - reflexivity.
  - split; [reflexivity|]. split.
    { split; [|split; [exact (proj1 PrBounds.ex_fat_layouts)|intros c E; inversion E; subst c; lia]].
      split; [intros n []|]. split; [intros i Hi; discriminate Hi|]. split; [reflexivity|].
      intros k _. rewrite Hget. reflexivity. }
    split; [unfold clusters_fit; vm_compute; discriminate|]. split; [reflexivity|].
    split; [intros i; rewrite Hget; reflexivity|reflexivity].
  - exact PrBounds.ex_layout16.
  - vm_compute. reflexivity.
  - intros E. discriminate E.
  - constructor.
    + split; reflexivity.
    + unfold tree_rep. replace (dir_nodes (s_disk mkd_ex_state) (root16_blocks PrFat.ex_vol16)) with (@nil tslot) by (vm_compute; reflexivity).
      constructor.
    + apply dir_ok_b_ok. vm_compute. reflexivity.
    + constructor.
    + apply fat_wf_b_spec. vm_compute. reflexivity.
    + constructor.
  - constructor.
  - constructor.
  - constructor.
  - constructor; [|constructor]. intros _. left. reflexivity.
Qed.

Example mkd_ex_run :
  exists s1 s2,
    step (Mkdir 9 [65]) mkd_ex_state = (Ok RUnit, s1) /\ fs_inv 256 0 s1 /\
    step (Mkdir 9 [65]) s1 = (Err DirAlreadyExists, s2) /\ fs_inv 256 0 s2.
Proof.
  assert (F1 : fst (step (Mkdir 9 [65]) mkd_ex_state) = Ok RUnit) by (vm_compute; reflexivity).
  assert (F2 : fst (step (Mkdir 9 [65]) (snd (step (Mkdir 9 [65]) mkd_ex_state))) = Err DirAlreadyExists)
    by (vm_compute; reflexivity).
  assert (I0 : PrHandles.all_ids mkd_ex_state = [0; 9] /\ s_next_id mkd_ex_state = 10) by (vm_compute; split; reflexivity).
  assert (I1 : PrHandles.all_ids (snd (step (Mkdir 9 [65]) mkd_ex_state)) = [0; 9] /\
               s_next_id (snd (step (Mkdir 9 [65]) mkd_ex_state)) = 10) by (vm_compute; split; reflexivity).
  assert (Hk : op_known_ok (Mkdir 9 [65])) by (repeat split; vm_compute; reflexivity).
  destruct (step (Mkdir 9 [65]) mkd_ex_state) as [r1 s1] eqn:E1. cbn [fst snd] in F1, F2, I1. subst r1.
  assert (Hfresh : id_fresh mkd_ex_state).
  { intros x Hx. rewrite (proj1 I0) in Hx. rewrite (proj2 I0). destruct Hx as [<-|[<-|[]]]; discriminate. }
  destruct (step_ok_Mkdir 256 0 9 [65] mkd_ex_state _ s1 mkd_ex_inv Hfresh Hk E1) as (_ & _ & Hinv1 & _).
  destruct (step (Mkdir 9 [65]) s1) as [r2 s2] eqn:E2. cbn [fst] in F2. subst r2.
  exists s1, s2. split; [reflexivity|]. split; [exact Hinv1|]. split; [exact E2|].
  assert (Hfresh1 : id_fresh s1).
  { intros x Hx. rewrite (proj1 I1) in Hx. rewrite (proj2 I1). destruct Hx as [<-|[<-|[]]]; discriminate. }
  exact (proj1 (proj2 (proj2 (step_ok_Mkdir 256 0 9 [65] s1 _ s2 Hinv1 Hfresh1 Hk E2)))).
Qed.

Print Assumptions mkd_make_dir_inv.
Print Assumptions mkd_ex_run.
