(* PROOFS, continued from PrContentOpen.v: the CONTENT obligation for OpenFile - the truncating open,
   the creating open (free slot; directory growth), and the theorem content_OpenFile for all six
   modes and every outcome.

   1  which nodes a new tree has: files_agree / dirs_agree (both directions)
   2  the disk after a truncating open, after a create (with the node correspondence)
   3  the truncating open
   4  the creating open
   5  content_OpenFile *)
From Coq Require Import NArith ZArith List Bool Lia Arith ZifyClasses ZifyInst Zify FMapPositive Permutation.
From SdFs Require Import FsTypes FsBase FsFat FsMgr FsLemmas PrBase PrFat PrAlloc PrDir PrSeek PrAllocEffect
  PrRw PrWrite PrFileSeq PrMulti PrEntry PrChain PrCount PrWf PrOpenClose PrGlobalDef PrGlobalOpen PrGlobalOpen2
  PrContentDef PrContentOpen.
From SdFs Require PrModes PrHandles PrCrash PrBounds PrOrder.
Import ListNotations.
Open Scope N_scope.
Local Arguments N.mul : simpl never.
Local Arguments N.add : simpl never.
Local Arguments N.sub : simpl never.
Local Arguments N.div : simpl never.
Local Arguments N.modulo : simpl never.
Local Arguments N.land : simpl never.
Local Arguments N.lor : simpl never.
Local Arguments N.min : simpl never.
Local Arguments N.max : simpl never.
Local Ltac Zify.zify_post_hook ::= Z.to_euclidean_division_equations.

(* ================================================================== 1. the nodes of the new tree *)
(* the file nodes at positions other than p are the same; the directory nodes are the same up to
   their kid lists *)
Definition files_agree (p : N * N) (T T' : list node) : Prop :=
  forall e0 ch0, node_pos (NFile e0 ch0) <> p ->
    (In (NFile e0 ch0) (all_nodes T) <-> In (NFile e0 ch0) (all_nodes T')).
Definition dirs_agree (T T' : list node) : Prop :=
  forall e0 ch0, (exists ks, In (NDir e0 ch0 ks) (all_nodes T)) <-> (exists ks, In (NDir e0 ch0 ks) (all_nodes T')).

Lemma files_agree_refl p T : files_agree p T T.
Proof. intros e0 ch0 _. tauto. Qed.
Lemma files_agree_trans p A B C : files_agree p A B -> files_agree p B C -> files_agree p A C.
Proof. intros H1 H2 e0 ch0 Hp. rewrite (H1 e0 ch0 Hp). exact (H2 e0 ch0 Hp). Qed.
Lemma dirs_agree_refl T : dirs_agree T T.
Proof. intros e0 ch0. tauto. Qed.
Lemma dirs_agree_trans A B C : dirs_agree A B -> dirs_agree B C -> dirs_agree A C.
Proof. intros H1 H2 e0 ch0. rewrite (H1 e0 ch0). exact (H2 e0 ch0). Qed.

Lemma is_dir_of_agree v bl rch T T' c bld chd : dirs_agree T T' ->
  is_dir_of v bl rch T c bld chd -> is_dir_of v bl rch T' c bld chd.
Proof.
  intros Hag [H|(e & kids & Hn & Ec & Eb)]; [left; exact H|right].
  destruct (proj1 (Hag e chd) (ex_intro _ kids Hn)) as (ks & Hn'). exists e, ks. auto.
Qed.

Lemma dirs_agree_sym T T' : dirs_agree T T' -> dirs_agree T' T.
Proof. intros H e0 ch0. symmetry. apply H. Qed.

(* a leaf file is replaced by a leaf file at the same position *)
Lemma replace_agree p e' ch' T e ch : NoDup (map node_pos (all_nodes T)) -> In (NFile e ch) (all_nodes T) ->
  node_pos (NFile e ch) = p -> node_pos (NFile e' ch') = p ->
  files_agree p T (forest_replace p (NFile e' ch') T) /\ dirs_agree T (forest_replace p (NFile e' ch') T).
Proof.
  intros Hnd Hin Hp Hp'.
  assert (Hu : forall m, In m (all_nodes T) -> node_pos m = p -> m = NFile e ch)
    by (intros m Hm Hpm; apply (pos_unique _ _ _ Hnd Hm Hin); congruence).
  assert (Hleaf : forall m, In m (all_nodes T) -> node_pos m = p -> node_kids m = [])
    by (intros m Hm Hpm; rewrite (Hu m Hm Hpm); reflexivity).
  unfold files_agree, dirs_agree. rewrite (all_nodes_replace p (NFile e' ch') eq_refl T Hleaf).
  assert (Hinv : forall x, In x (map (node_replace p (NFile e' ch')) (all_nodes T)) ->
            exists m, In m (all_nodes T) /\
              ((node_pos m = p /\ x = NFile e' ch') \/
               (node_pos m <> p /\ ((exists e0 ch0, m = NFile e0 ch0 /\ x = m) \/
                                    (exists e0 ch0 ks, m = NDir e0 ch0 ks /\ x = NDir e0 ch0 (map (node_replace p (NFile e' ch')) ks)))))).
  { intros x Hx. apply in_map_iff in Hx. destruct Hx as (m & <- & Hm). exists m. split; [exact Hm|].
    destruct (pos_eqb (node_pos m) p) eqn:Ep.
    - apply pos_eqb_eq in Ep. left. split; [exact Ep|]. exact (node_replace_hit _ _ _ Ep).
    - assert (Ep' : node_pos m <> p) by (intros E; apply pos_eqb_eq in E; congruence). right. split; [exact Ep'|].
      destruct m as [e0 ch0|e0 ch0 ks].
      + left. exists e0, ch0. split; [reflexivity|]. exact (node_replace_miss_file _ _ _ _ Ep').
      + right. exists e0, ch0, ks. split; [reflexivity|]. exact (node_replace_miss_dir _ _ _ _ _ Ep'). }
  split.
  - intros e0 ch0 Hne. split.
    + intros H0. rewrite <- (node_replace_miss_file p (NFile e' ch') e0 ch0 Hne). apply in_map. exact H0.
    + intros H0. destruct (Hinv _ H0) as (m & Hm & [(Epm & Ex)|(Epm & [(e1 & ch1 & -> & Ex)|(e1 & ch1 & ks & -> & Ex)])]).
      * exfalso. apply Hne. injection Ex as -> ->. exact Hp'.
      * rewrite Ex. exact Hm.
      * discriminate Ex.
  - intros e0 ch0. split.
    + intros (ks & H0).
      assert (Hne : node_pos (NDir e0 ch0 ks) <> p) by (intros E; discriminate (Hu _ H0 E)).
      exists (map (node_replace p (NFile e' ch')) ks). rewrite <- (node_replace_miss_dir p (NFile e' ch') e0 ch0 ks Hne).
      apply in_map. exact H0.
    + intros (ks' & H0). destruct (Hinv _ H0) as (m & Hm & [(Epm & Ex)|(Epm & [(e1 & ch1 & -> & Ex)|(e1 & ch1 & ks & -> & Ex)])]).
      * discriminate Ex.
      * discriminate Ex.
      * injection Ex as -> -> _. exists ks. exact Hm.
Qed.

(* the keys (entry, chain, file or directory) of the new tree are those of the old tree and one more file *)
Lemma perm_agree p T T' e2 ch2 : node_pos (NFile e2 ch2) = p ->
  Permutation (flat_map own_key (all_nodes T')) (own_key (NFile e2 ch2) ++ flat_map own_key (all_nodes T)) ->
  files_agree p T T' /\ dirs_agree T T'.
Proof.
  intros Hp P.
  assert (Hiff : forall x, In x (flat_map own_key (all_nodes T')) <-> x = node_key (NFile e2 ch2) \/ In x (flat_map own_key (all_nodes T))).
  { intros x. split.
    - intros H. apply (Permutation_in _ P) in H. cbn [own_key app] in H. destruct H as [H|H]; [left; symmetry; exact H|right; exact H].
    - intros H. apply (Permutation_in _ (Permutation_sym P)). cbn [own_key app]. destruct H as [H|H]; [left; symmetry; exact H|right; exact H]. }
  split.
  - intros e0 ch0 Hne. split.
    + intros H0. assert (X : In (e0, ch0, false) (flat_map own_key (all_nodes T')))
        by (apply Hiff; right; apply in_own_key; exists (NFile e0 ch0); split; [exact H0|reflexivity]).
      apply in_own_key in X. destruct X as (m & Hm & Ek). rewrite <- (key_file m e0 ch0 Ek). exact Hm.
    + intros H0. assert (X : In (e0, ch0, false) (flat_map own_key (all_nodes T')))
        by (apply in_own_key; exists (NFile e0 ch0); split; [exact H0|reflexivity]).
      apply Hiff in X. destruct X as [X|X].
      * exfalso. apply Hne. unfold node_key in X. cbn [node_entry node_chain node_is_dir] in X. injection X as -> ->. exact Hp.
      * apply in_own_key in X. destruct X as (m & Hm & Ek). rewrite <- (key_file m e0 ch0 Ek). exact Hm.
  - intros e0 ch0. split.
    + intros (ks & H0). assert (X : In (e0, ch0, true) (flat_map own_key (all_nodes T')))
        by (apply Hiff; right; apply in_own_key; exists (NDir e0 ch0 ks); split; [exact H0|reflexivity]).
      apply in_own_key in X. destruct X as (m & Hm & Ek). destruct (key_dir m e0 ch0 Ek) as (ks' & ->). exists ks'. exact Hm.
    + intros (ks & H0). assert (X : In (e0, ch0, true) (flat_map own_key (all_nodes T')))
        by (apply in_own_key; exists (NDir e0 ch0 ks); split; [exact H0|reflexivity]).
      apply Hiff in X. destruct X as [X|X]; [discriminate X|].
      apply in_own_key in X. destruct X as (m & Hm & Ek). destruct (key_dir m e0 ch0 Ek) as (ks' & ->). exists ks'. exact Hm.
Qed.

(* ================================================================== 2. the disk after a truncating open, with the node correspondence *)
(* PrGlobalOpen2.trunc_disk, with both directions of the correspondence between the trees *)
Section TruncDisk.
  Variables (fsz : N) (d d2 : disk) (v : vol) (bl rch : list N) (T : list node) (pend : list N)
            (e : dirent) (ch : list N) (e' : dirent).
  Hypothesis Hinv : disk_inv d v bl rch T pend.
  Hypothesis Hwf : blocks_wf d.
  Hypothesis Hwf2 : blocks_wf d2.
  Hypothesis L : fat_layout v fsz.
  Hypothesis Hfit : clusters_fit v.
  Hypothesis Hin : In (NFile e ch) (all_nodes T).
  Hypothesis Hoff : off_fat v fsz (e_block e).
  Hypothesis Hdirblocks : (forall j, In j bl -> off_fat v fsz j) /\
    (forall e0 ch0 kids0, In (NDir e0 ch0 kids0) (all_nodes T) -> forall j, In j (data_blocks v ch0) -> off_fat v fsz j).
  Hypothesis Ename : e_name e' = e_name e.
  Hypothesis Eattr : e_attr e' = e_attr e.
  Hypothesis Ecl : e_cluster e' = e_cluster e.
  Hypothesis Eblk : e_block e' = e_block e.
  Hypothesis Eofs : e_offset e' = e_offset e.
  Hypothesis Esize : e_size e' = 0.
  Hypothesis F4 : forall j, off_fat v fsz j -> disk_get d2 j = disk_get d j.
  Hypothesis Hcase :
    (e_cluster e < 2 /\ d2 = d) \/
    (2 <= e_cluster e /\ fat_wf d2 v (heads v T ++ pend) /\
     (forall h2 ch2, In h2 (heads v T ++ pend) -> h2 <> e_cluster e -> chain_at d v h2 ch2 -> chain_at d2 v h2 ch2) /\
     chain_at d2 v (e_cluster e) [e_cluster e]).

  Local Notation blk := (e_block e).
  Local Notation c := (e_cluster e).
  Local Notation d4 := (disk_set d2 blk (put_entry (v_fat32 v) e' (disk_get d2 blk))).
  Local Notation e2 := (t_entry (v_fat32 v) (blk, e_offset e, ser_bytes (v_fat32 v) e')).
  Local Notation p := (node_pos (NFile e ch)).

  Local Notation dA := (disk_set d blk (put_entry (v_fat32 v) e' (disk_get d blk))).

  Theorem trunc_disk_agree : exists T' ch',
    disk_inv d4 v bl rch T' pend /\ files_agree p T T' /\ dirs_agree T T' /\ In (NFile e2 ch') (all_nodes T') /\
    blocks_wf d4 /\
    (forall h2 ch2, In h2 (heads v T ++ pend) -> h2 <> c -> chain_at d v h2 ch2 -> chain_at d4 v h2 ch2) /\
    (forall j, off_fat v fsz j -> disk_get d4 j = disk_get dA j) /\
    slot_write d dA blk (e_offset e / 32) (ser_bytes (v_fat32 v) e') /\
    e_cluster e2 = c /\ e_size e2 = 0 /\ e_block e2 = blk /\ e_offset e2 = e_offset e /\ e_name e2 = e_name e /\ e_attr e2 = e_attr e.
  Proof.
    assert (Esz : e_size e' <= N.of_nat (length ch) * bytes_per_cluster v /\ e_size e' < U32)
      by (rewrite Esize; unfold U32; split; lia).
    destruct (go_disk_inv_rewrite fsz d v bl rch T pend e ch e' Hinv Hwf L Hfit Hin Hoff Ename Eattr Ecl Eblk Eofs Esz)
      as (HinvA & Hsw & HwfA & HinA & Ec2 & Es2 & Eb2 & Eo2 & En2 & Ea2 & HmapA).
    set (TA := forest_replace p (NFile e2 ch) T) in *.
    assert (Hpos2 : node_pos (NFile e2 ch) = p) by (unfold node_pos; cbn [node_entry]; rewrite Eb2, Eo2; reflexivity).
    destruct (replace_agree p e2 ch T e ch (di_pos _ _ _ _ _ _ Hinv) Hin eq_refl Hpos2) as (FA & DA). fold TA in FA, DA.
    rewrite Esize in Es2.
    assert (Hnfat : ~ fat_area v blk) by exact (off_fat_not_area fsz v blk L Hoff).
    destruct Hcase as [(Hc & ->)|(Hc & W2 & Hkeep2 & Hnew2)].
    - exists TA, ch. split; [exact HinvA|]. split; [exact FA|]. split; [exact DA|]. split; [exact HinA|]. split; [exact HwfA|].
      split; [intros h2 ch2 _ _ H; apply (chain_at_ext d dA v _ _); [|exact H];
              intros j Hj; apply (proj1 Hsw); intros ->; exact (Hnfat Hj)|].
      split; [intros j _; reflexivity|].
      split; [exact Hsw|].
      repeat (split; [assumption|]). assumption.
    - assert (Eb : disk_get d2 blk = disk_get d blk) by exact (F4 blk Hoff).
      rewrite Eb.
      set (NB := put_entry (v_fat32 v) e' (disk_get d blk)) in *.
      assert (H4A : forall j, off_fat v fsz j -> disk_get (disk_set d2 blk NB) j = disk_get (disk_set d blk NB) j).
      { intros j Hj. destruct (N.eq_dec j blk) as [->|Hne]; [rewrite !disk_get_set_same; reflexivity|].
        rewrite !disk_get_set_other by congruence. exact (F4 j Hj). }
      assert (Hfat42 : forall j, fat_area v j -> disk_get (disk_set d2 blk NB) j = disk_get d2 j)
        by (intros j Hj; apply disk_get_set_other; intros E; rewrite <- E in Hj; exact (Hnfat Hj)).
      assert (HfatA : forall j, fat_area v j -> disk_get (disk_set d blk NB) j = disk_get d j)
        by (intros j Hj; apply disk_get_set_other; intros E; rewrite <- E in Hj; exact (Hnfat Hj)).
      assert (HfatA' : forall j, fat_area v j -> disk_get d j = disk_get (disk_set d blk NB) j) by (intros j Hj; symmetry; exact (HfatA j Hj)).
      assert (Hu : forall m, In m (all_nodes T) -> node_pos m = p -> m = NFile e ch)
        by (intros m Hm Hpm; apply (pos_unique _ _ _ (di_pos _ _ _ _ _ _ Hinv) Hm Hin); exact Hpm).
      pose proof (heads_replace_perm p (NFile e2 ch) eq_refl v T (NFile e ch) (di_pos _ _ _ _ _ _ Hinv) Hin eq_refl eq_refl Hu) as P.
      assert (Hown : own_head (NFile e2 ch) = own_head (NFile e ch)) by (cbn [own_head]; rewrite Ec2; reflexivity).
      rewrite Hown in P. apply Permutation_app_inv_l in P. fold TA in P.
      assert (PA : Permutation (heads v TA ++ pend) (heads v T ++ pend)) by (apply Permutation_app_tail; exact P).
      assert (Hkeep4 : forall h2 ch2, In h2 (heads v T ++ pend) -> h2 <> c -> chain_at d v h2 ch2 ->
                chain_at (disk_set d2 blk NB) v h2 ch2).
      { intros h2 ch2 Hh Hne H. apply (chain_at_ext d2 _ v _ _ Hfat42). exact (Hkeep2 h2 ch2 Hh Hne H). }
      assert (Hnew4 : chain_at (disk_set d2 blk NB) v c [c]) by exact (chain_at_ext d2 _ v _ _ Hfat42 Hnew2).
      pose proof (go_disk_inv_cut (disk_set d blk NB) (disk_set d2 blk NB) v bl rch TA pend e2 ch HinvA) as Cut.
      rewrite Hpos2, Ec2 in Cut.
      assert (Hpos3 : node_pos (NFile e2 [c]) = p) by exact Hpos2.
      destruct (replace_agree p e2 [c] TA e2 ch (di_pos _ _ _ _ _ _ HinvA) HinA Hpos2 Hpos3) as (FB & DB).
      exists (forest_replace p (NFile e2 [c]) TA), [c].
      split.
      { apply Cut.
        - intros j Hj. apply H4A. exact (proj1 Hdirblocks j Hj).
        - intros e0 ch0 kids0 H0 j Hj. apply H4A.
          destruct (all_nodes_rep _ v bl TA (di_tree _ _ _ _ _ _ HinvA) _ H0) as (t & bl0 & Hr & _).
          apply node_rep_dir in Hr. destruct Hr as (_ & _ & Hc0 & _).
          exact (chain_blocks_off_fat fsz _ v _ _ j L Hc0 Hj).
        - exact HinA.
        - exact Hc.
        - exact Hnew4.
        - intros h2 ch2 Hh Hne H. apply (Hkeep4 h2 ch2 (Permutation_in _ PA Hh) Hne).
          exact (chain_at_ext _ d v _ _ HfatA' H).
        - apply (fat_wf_perm _ v (heads v T ++ pend)); [apply Permutation_sym; exact PA|].
          exact (fat_wf_ext d2 _ v _ Hfat42 W2).
        - rewrite Es2. lia.
        - rewrite Es2. unfold U32. lia. }
      split; [exact (files_agree_trans p _ _ _ FA FB)|]. split; [exact (dirs_agree_trans _ _ _ DA DB)|].
      split.
      { assert (HleafA : forall m, In m (all_nodes TA) -> node_pos m = p -> node_kids m = []).
        { intros m Hm Hpm. rewrite (pos_unique _ _ _ (di_pos _ _ _ _ _ _ HinvA) Hm HinA ltac:(rewrite Hpm, Hpos2; reflexivity)). reflexivity. }
        pose proof (In_all_nodes_replace p (NFile e2 [c]) eq_refl TA _ HleafA HinA) as X.
        rewrite (node_replace_hit _ _ _ Hpos2) in X. exact X. }
      split.
      { intros j. destruct (N.eq_dec j blk) as [->|Hne].
        - rewrite disk_get_set_same. pose proof (HwfA blk) as X. rewrite disk_get_set_same in X. exact X.
        - rewrite disk_get_set_other by congruence. apply Hwf2. }
      split; [exact Hkeep4|].
      split; [exact H4A|].
      split; [exact Hsw|].
      repeat (split; [assumption|]). assumption.
  Qed.
End TruncDisk.

(* ================================================================== 2b. blocks of files and blocks of directories *)
Lemma file_head_in v T pend h : file_head T pend h -> In h (heads v T ++ pend).
Proof.
  intros [(e0 & ch0 & Hn & Ec & H2)|Hp]; apply in_or_app; [left|right; exact Hp].
  unfold heads. apply in_or_app. right. apply (own_head_in T _ _ Hn). cbn [own_head]. rewrite Ec.
  apply N.leb_le in H2. rewrite H2. left. reflexivity.
Qed.

Section FileDirBlocks.
  Variables (d : disk) (v : vol) (bl rch : list N) (T : list node) (pend : list N) (total fsz : N).
  Hypothesis Hdi : disk_inv d v bl rch T pend.
  Hypothesis Hlay : PrBounds.part_layout v total fsz.

  (* a block of the chain of a file is no block of a directory *)
  Lemma file_block_not_dir h ch dc bld chd j : file_head T pend h -> chain_at d v h ch ->
    is_dir_of v bl rch T dc bld chd -> In j (data_blocks v ch) -> In j bld -> False.
  Proof.
    intros Hfh Hch Hdir Hj Hb.
    pose proof (di_wf _ _ _ _ _ _ Hdi) as W.
    destruct (heads_nodup v T pend (wf_heads _ _ _ W)) as (N1 & N2 & N3 & N4).
    pose proof (file_head_in v T pend h Hfh) as Hh.
    assert (Hnode : forall c, In c (flat_map node_heads T) -> c = h ->
              (forall e1 ch1 k1, In (NDir e1 ch1 k1) (all_nodes T) -> e_cluster e1 = c -> False) -> ~ In c (root_heads v)).
    { intros c Hc -> _ Hr. exact (proj1 (N3 h Hr) Hc). }
    destruct Hdir as [(-> & -> & ->)|(e1 & kids1 & Hn1 & <- & ->)].
    - pose proof (di_root _ _ _ _ _ _ Hdi) as Hroot. unfold root_dir in Hroot. destruct (v_fat32 v) eqn:E32.
      + destruct Hroot as (Hrc & Ebl). rewrite Ebl in Hb.
        assert (Hr : In (v_root_cluster v) (root_heads v)) by (unfold root_heads; rewrite E32; left; reflexivity).
        assert (Hr' : In (v_root_cluster v) (heads v T ++ pend)) by (apply in_or_app; left; unfold heads; apply in_or_app; left; exact Hr).
        pose proof (chain_blocks_apart d v _ _ _ _ _ j W Hh Hr' Hch Hrc Hj Hb) as E. subst h.
        destruct Hfh as [(e0 & ch0 & Hn & Ec & H2)|Hp].
        * apply (proj1 (N3 _ Hr)). apply (own_head_in T _ _ Hn). cbn [own_head]. rewrite Ec.
          apply N.leb_le in H2. rewrite H2. left. reflexivity.
        * exact (proj2 (N3 _ Hr) Hp).
      + destruct Hroot as (_ & Ebl). rewrite Ebl in Hb. unfold data_blocks in Hj. apply in_flat_map in Hj.
        destruct Hj as (c & Hc & Hj). destruct (chain_at_mem _ _ _ _ c Hch Hc) as (A & _).
        exact (root16_no_cluster' v total fsz j c Hlay E32 Hb A Hj).
    - destruct (dir_node_chain d v bl rch T pend Hdi e1 chd kids1 Hn1) as (C1 & I1 & _).
      pose proof (chain_blocks_apart d v _ _ _ _ _ j W Hh I1 Hch C1 Hj Hb) as E. subst h.
      assert (Hd1 : In (e_cluster e1) (own_head (NDir e1 chd kids1))) by (left; reflexivity).
      destruct Hfh as [(e0 & ch0 & Hn & Ec & H2)|Hp].
      + assert (Hf0 : In (e_cluster e1) (own_head (NFile e0 ch0))).
        { cbn [own_head]. rewrite Ec. apply N.leb_le in H2. rewrite H2. left. reflexivity. }
        discriminate (flat_map_owner own_head _ N1 _ _ _ Hn Hn1 Hf0 Hd1).
      + exact (N4 _ (own_head_in T _ _ Hn1 Hd1) Hp).
  Qed.
End FileDirBlocks.

Lemma is_dir_blocks_off fsz vid s vi v bl rch T c bld chd j : fs_inv_at fsz vid s vi v bl rch T ->
  is_dir_of v bl rch T c bld chd -> In j bld -> off_fat v fsz j.
Proof.
  intros Hat [(_ & -> & _)|(e1 & kids1 & Hn1 & _ & ->)] Hj.
  - exact (root_blocks_off_fat _ _ _ _ _ _ _ _ j Hat Hj).
  - destruct (go_facts _ _ _ _ _ _ _ _ Hat) as (_ & _ & _ & _ & _ & _ & _ & L & _).
    exact (dir_node_blocks_off_fat fsz _ v bl T e1 chd kids1 j L (di_tree _ _ _ _ _ _ (fi_disk _ _ _ _ _ _ _ _ Hat)) Hn1 Hj).
Qed.

Lemma node_slot_in_slots d bl t : In t (dir_nodes d bl) -> In t (slots_of d bl).
Proof. intros H. destruct (dir_nodes_in d bl t H) as (Hl & _). exact (live_in_slots d bl t Hl). Qed.

Lemma is_dir_of_geo v w bl rch T c bld chd : geo_eq v w -> is_dir_of v bl rch T c bld chd -> is_dir_of w bl rch T c bld chd.
Proof.
  intros G [H|(e & kids & Hn & Ec & Eb)]; [left; exact H|right]. exists e, kids. split; [exact Hn|]. split; [exact Ec|].
  rewrite (data_blocks_geo v w chd G). exact Eb.
Qed.

Lemma geo_eq_sym' v w : geo_eq v w -> geo_eq w v.
Proof. exact (PrWf.geo_eq_sym v w). Qed.

(* the clusters of the blocks of a file chain lie outside the FAT copies *)
Lemma file_blocks_off fsz d v h ch j : fat_layout v fsz -> chain_at d v h ch -> In j (data_blocks v ch) -> off_fat v fsz j.
Proof. intros L Hc Hj. exact (chain_blocks_off_fat fsz d v h ch j L Hc Hj). Qed.

(* ================================================================== 3. the truncating open *)
Lemma open_trunc_content fsz vid s vi v bl rch T h name di dd sfn bl' parent kids s1 md t r s' :
  open_ctx fsz vid s vi v bl rch T h name di dd sfn bl' parent kids s1 ->
  find (t_matches sfn) (live_in_blocks (s_disk s) bl') = Some t ->
  PrModes.open_refusal md (Ok (t_entry (v_fat32 v) t)) (PrModes.is_open s1 (d_vol dd) (t_entry (v_fat32 v) t)) = None ->
  md = ReadWriteTruncate \/ md = ReadWriteCreateOrTruncate ->
  fs_inv fsz vid s' -> step (OpenFile h name md) s = (r, s') ->
  exists a', observes fsz vid s' a' /\ open_content name md (s_clock s) r (obs_at s v bl T) a'.
Proof.
  intros [Hat Hfresh Hres Hvol Hroom Hsfn He5 Hdot Hctx Hlook Hro Hrd] Hfind Href Hmd Hinv' Hs.
  rewrite Hfind in Hlook. set (e := t_entry (v_fat32 v) t) in *.
  destruct (refusal_none_ok _ _ _ Href) as (Hop & Hnd & _).
  pose proof (go_ro _ _ _ _ _ _ _ _ _ Hat Hro) as Hat1.
  pose proof Hro as (Hd & Hc1 & Hnf1 & Hm1). pose proof Hm1 as (M1 & M2 & M3 & M4 & M5 & M6 & _).
  pose proof (sfn_of_str_wf _ _ Hsfn) as Hwf.
  rewrite <- Hd in Hctx, Hfind.
  destruct (found_file _ _ _ _ _ _ _ _ _ _ Hctx Hwf He5 Hdot Hfind Hnd) as (ch & Hk & Hall & Hr & Hn & Hshort & Hname).
  fold e in Hk, Hall, Hr.
  destruct (node_rep_slot _ _ _ _ _ Hr Hn) as (Hb & Ho & Hts & Hde & Hns). cbn [node_entry] in Hb, Ho, Hts, Hde.
  set (sg := set_s_next_id s1 ((s_next_id s1 + 1) mod U32)).
  pose proof (go_bump _ _ _ _ _ _ _ _ ((s_next_id s1 + 1) mod U32) Hat1) as Hatg. fold sg in Hatg.
  destruct (go_facts _ _ _ _ _ _ _ _ Hatg) as (Hlg & Hnfg & Hcg & Evg & E0 & Hv0g & Hv & L & Hwfg & Hvid). subst vi.
  destruct (trunc_step _ _ _ _ _ _ _ _ e ch Hatg Hall) as (s2 & v2 & ws1 & Htr & G & Evols2 & Hpre2 & Hwf2 & Htabs & F4 & Hcase & Hts1 & Hcl1).
  pose proof Htabs as (T1 & T2 & T3 & T4 & T5 & _).
  pose proof Hpre2 as ((Hnf2 & Hc2 & Hvi2 & Hlen2) & L2 & Hh2).
  set (now := clock_ts (s_clock s2)).
  set (s3 := set_s_clock s2 (s_clock s2 + 1)).
  set (e' := set_e_mtime (set_e_size e 0) now).
  assert (Ects : ts_ok (e_ctime e)) by (unfold e, t_entry, get_entry; apply ts_from_fat_ok).
  destruct (write_entry_to_disk_spec v2 e' s3 Hnf2 Hc2 Ects ltac:(apply ts_cal_ok, clock_ts_cal) Ho)
    as (s4 & Hwrite & Hd4 & _ & Hfr4 & _ & _ & Hc4 & Hnf4 & Hm4 & Htr4).
  cbn [e_block e' set_e_mtime set_e_size] in Hd4, Hfr4, Htr4.
  change (s_disk s3) with (s_disk s2) in Hd4, Hfr4.
  assert (E32 : v_fat32 v2 = v_fat32 v) by (destruct G as (a & b & ->); reflexivity).
  rewrite E32 in Hd4.
  pose proof Hm4 as (Q1 & Q2 & Q3 & Q4 & Q5 & Q6 & _).
  set (nf := mk_fileinfo (s_next_id s1) (d_vol dd) 0 (e_cluster e) 0 ReadWriteTruncate e' false).
  assert (Hopen : open_file_in_dir h name md s = (Ok (s_next_id s1), set_s_files s4 (s_files s4 ++ [nf]))).
  { pose proof (PrModes.resolves_vol_id _ _ _ _ _ _ Hres) as Hvid'.
    assert (Htail : (truncate_cluster_chain 0%nat (e_cluster e) ;;;
                     now0 <- get_timestamp ;;
                     v' <- get_vol 0%nat ;;
                     write_entry_to_disk v' (set_e_mtime (set_e_size e 0) now0) ;;;
                     push_file (set_f_entry (mk_fileinfo (s_next_id s1) (d_vol dd) 0 (e_cluster e) 0
                                                         ReadWriteTruncate e false)
                                            (set_e_mtime (set_e_size e 0) now0)) ;;; ret (s_next_id s1)) sg
                    = (Ok (s_next_id s1), set_s_files s4 (s_files s4 ++ [nf]))).
    { rewrite (bind_ok _ _ _ _ _ Htr), (bind_ok _ _ _ _ _ (get_timestamp_eq s2)).
      rewrite (bind_ok _ _ _ _ _ (get_vol_some 0%nat _ s3 Hvi2)), (bind_ok _ _ _ _ _ Hwrite). reflexivity. }
    unfold open_file_in_dir. PrModes.open_prefix Hres Hroom Hsfn.
    unfold PrModes.dot_name in Hdot. rewrite Hdot.
    unfold bind at 1. unfold try. rewrite Hlook.
    rewrite PrModes.bind_ret, (bind_ok _ _ _ _ _ (PrModes.file_is_open_eq _ _ _)), Hvid'.
    cbn [PrModes.open_refusal] in Href.
    destruct (PrModes.is_open s1 (d_vol dd) e) eqn:Hop'; [discriminate|].
    destruct (mode_eqb md ReadWriteCreate) eqn:Hcm; [discriminate|].
    destruct (is_read_only (e_attr e) && negb (mode_eqb md ReadOnly)) eqn:Hrr; [discriminate|].
    destruct (is_directory (e_attr e)) eqn:Hdd; [discriminate|].
    destruct Hmd as [-> | ->]; cbn [solve_mode_variant mode_eqb] in *;
      rewrite Hrr, (bind_ok _ _ _ _ _ (PrModes.file_is_open_eq _ _ _)), Hop',
              (bind_ok _ _ _ _ _ (generate_spec s1)); exact Htail. }
  cbn [step] in Hs. rewrite (lift_ok' _ _ _ _ _ Hopen) in Hs. injection Hs as <- <-.
  set (s5 := set_s_files s4 (s_files s4 ++ [nf])) in *.
  pose proof (fi_disk _ _ _ _ _ _ _ _ Hatg) as Hdiskg.
  pose proof (fi_vol _ _ _ _ _ _ _ _ Hatg) as (_ & _ & Hfit & _).
  pose proof (fi_layout _ _ _ _ _ _ _ _ Hatg) as Hlay.
  assert (Hoffe : off_fat v fsz (e_block e)) by exact (node_block_off_fat _ _ _ _ _ _ _ _ _ Hatg Hall).
  assert (Hdirblocks : (forall j, In j bl -> off_fat v fsz j) /\
    (forall e0 ch0 kids0, In (NDir e0 ch0 kids0) (all_nodes T) -> forall j, In j (data_blocks v ch0) -> off_fat v fsz j)).
  { split; [intros j Hj; exact (root_blocks_off_fat _ _ _ _ _ _ _ _ j Hatg Hj)|].
    intros e0 ch0 kids0 H0 j Hj. exact (dir_node_blocks_off_fat fsz _ v bl T e0 ch0 kids0 j L (di_tree _ _ _ _ _ _ Hdiskg) H0 Hj). }
  destruct (trunc_disk_agree fsz (s_disk sg) (s_disk s2) v bl rch T (pend_of sg v) e ch e' Hdiskg Hwfg Hwf2 L Hfit Hall Hoffe
              Hdirblocks eq_refl eq_refl eq_refl eq_refl eq_refl eq_refl F4 Hcase)
    as (T' & ch' & Hdisk4 & FA & DA & Hin2 & Hwf4 & Hkeep4 & H4A & Hsw & Ec2 & Es2 & Eb2 & Eo2 & En2 & Ea2).
  rewrite <- Hd4 in Hdisk4, Hwf4, Hkeep4, H4A.
  set (e2 := t_entry (v_fat32 v) (e_block e, e_offset e, ser_bytes (v_fat32 v) e')) in *.
  set (dA := disk_set (s_disk sg) (e_block e) (put_entry (v_fat32 v) e' (disk_get (s_disk sg) (e_block e)))) in *.
  set (p := node_pos (NFile e ch)) in *.
  (* the state after *)
  assert (Hd5 : s_disk s5 = s_disk s4) by reflexivity.
  assert (Hfiles5 : s_files s5 = s_files sg ++ [nf]).
  { unfold s5. cbn [s_files set_s_files]. rewrite Q3. change (s_files s3) with (s_files s2). rewrite T2. reflexivity. }
  assert (Hvols5 : s_vols s5 = [v2]) by (unfold s5; cbn [s_vols set_s_files]; rewrite Q1; exact Evols2).
  pose proof (disk_inv_geo _ v v2 _ _ _ _ G Hdisk4) as Hdisk5. rewrite <- Hd5 in Hdisk5.
  destruct (fs_inv_at_of fsz vid s5 v2 bl rch T' Hinv' Hvols5 (di_root _ _ _ _ _ _ Hdisk5) (di_tree _ _ _ _ _ _ Hdisk5)) as (vi5 & Hat5).
  assert (Hnokey : ~ In p (map slot_key (s_files sg))).
  { apply (not_open_key s1 (v_id v) e); [rewrite <- Hvol; exact Hop|]. exact (files_on_vol _ _ _ _ _ _ _ _ Hat1). }
  assert (Hkey : slot_key nf = p) by reflexivity.
  assert (Hcalm : calm s sg) by (repeat split; [exact Hd|exact M1|exact M3]).
  rewrite <- (obs_at_calm s sg v bl T Hcalm).
  destruct (dir_ctx_is_dir_of _ v bl rch T _ bl' parent kids (di_root _ _ _ _ _ _ Hdiskg) Hctx) as (chd & Hdirdc).
  destruct (node_slot_index _ _ _ _ _ (di_tree _ _ _ _ _ _ Hdiskg) Hall) as (ie & Hie & Eoe). cbn [node_entry] in Eoe.
  (* the frame: every file but this one keeps its chain and the contents of its clusters *)
  assert (Hframe : frame_ok (s_disk sg) (s_disk s5) v T (pend_of sg v) (e_cluster e)).
  { constructor.
    - intros h0 ch0 Hfh Hne Hch0. rewrite Hd5. exact (Hkeep4 h0 ch0 (file_head_in v T _ h0 Hfh) Hne Hch0).
    - intros h0 ch0 j Hfh Hne Hch0 Hj. rewrite Hd5.
      rewrite (H4A j (file_blocks_off fsz _ v h0 ch0 j L Hch0 Hj)). unfold dA. apply disk_get_set_other.
      intros Ej. rewrite <- Ej in Hj.
      exact (file_block_not_dir _ v bl rch T _ _ fsz Hdiskg Hlay h0 ch0 _ bl' chd _ Hfh Hch0 Hdirdc Hj Hb). }
  assert (Hmemp : vget p (mem_view sg v T) = Some (disk_fv (s_disk sg) v (NFile e ch))).
  { apply (vget_mem_closed fsz vid sg 0%nat v bl rch T Hatg e ch Hall). intros f Hf E. apply Hnokey. fold p in E. rewrite <- E.
    apply in_map. exact Hf. }
  assert (Hoth : others_same p (obs_at sg v bl T) (obs_at s5 v2 bl T')).
  { apply (others_same_open fsz vid sg 0%nat v bl rch T Hatg s5 vi5 v2 bl rch T' p nf Hat5 G Hfiles5 Hkey FA).
    - intros e0 ch0 H0 Hp0. apply (closed_bytes fsz vid sg 0%nat v bl rch T Hatg (s_disk s5) (e_cluster e) e0 ch0 Hframe H0).
      intros H2 Ec0. apply Hp0.
      pose proof (di_wf _ _ _ _ _ _ Hdiskg) as W.
      destruct (heads_nodup v T (pend_of sg v) (wf_heads _ _ _ W)) as (N1 & _).
      assert (X0 : In (e_cluster e0) (own_head (NFile e0 ch0))) by (cbn [own_head]; apply N.leb_le in H2; rewrite H2; left; reflexivity).
      assert (X1 : In (e_cluster e0) (own_head (NFile e ch))).
      { cbn [own_head]. rewrite <- Ec0. apply N.leb_le in H2. rewrite H2. left. reflexivity. }
      rewrite (flat_map_owner own_head _ N1 _ _ _ H0 Hall X0 X1). reflexivity.
    - intros f Hf. apply (open_bytes fsz vid sg 0%nat v bl rch T Hatg s5 (e_cluster e) f Hframe Hf).
      intros H2 Ec0.
      apply (file_head_not_node fsz vid sg 0%nat v bl rch T f (NFile e ch) Hatg Hf H2 Hall).
      + intros E. apply Hnokey. fold p in E. rewrite E. apply in_map. exact Hf.
      + cbn [own_head]. rewrite <- Ec0. apply N.leb_le in H2. rewrite H2. left. reflexivity. }
  exists (obs_at s5 v2 bl T'). split; [exact (observes_at _ _ _ _ _ _ _ _ Hat5)|].
  unfold open_content. cbn [obs_at ob_handles ob_mem ob_disk ob_dirs].
  assert (Hhn : hget (s_next_id s1) (handles_of sg) = None).
  { unfold handles_of. change (s_files sg) with (s_files s1). rewrite M3, M4. exact (hget_fresh s Hfresh). }
  split; [exact Hhn|].
  exists sfn, p, ReadWriteTruncate. split; [exact Hsfn|]. split; [exact (not_open_intro sg v bl T p Hnokey)|].
  rewrite Hmemp. split; [destruct Hmd as [-> | ->]; reflexivity|]. split; [exact Hoth|].
  split; [unfold disk_fv, fv_of; cbn [fv_name node_entry]; unfold e; rewrite t_entry_name; exact Hname|].
  right. split; [reflexivity|].
  assert (Hinnf : In nf (s_files s5)) by (rewrite Hfiles5; apply in_or_app; right; left; reflexivity).
  assert (Hclock : s_clock s2 = s_clock s) by (rewrite T4; change (s_clock sg) with (s_clock s1); exact M5).
  assert (Hmem' : vget p (mem_view s5 v2 T') =
                  Some (set_fv_mtime (set_fv_bytes (disk_fv (s_disk sg) v (NFile e ch)) []) (stamp_of (s_clock s)))).
  { rewrite <- Hkey. rewrite (vget_mem_open fsz vid s5 vi5 v2 bl rch T' Hat5 nf Hinnf). f_equal.
    unfold mem_fv, fv_of, disk_fv, set_fv_mtime, set_fv_bytes, stamp_of.
    cbn [f_entry nf e' set_e_mtime set_e_size e_name e_attr e_ctime e_mtime e_size fv_name fv_attr fv_ctime fv_mtime fv_bytes node_entry].
    unfold now. rewrite Hclock. reflexivity. }
  split; [exact Hmem'|].
  split.
  { rewrite Hmem'. assert (Hp2 : node_pos (NFile e2 ch') = p) by (unfold node_pos, p; cbn [node_entry]; rewrite Eb2, Eo2; reflexivity).
    rewrite <- Hp2. rewrite (vget_disk_node fsz vid s5 vi5 v2 bl rch T' Hat5 e2 ch' Hin2). f_equal.
    unfold disk_fv, fv_of, set_fv_mtime, set_fv_bytes, stamp_of.
    cbn [fv_name fv_attr fv_ctime fv_mtime fv_bytes node_entry node_chain].
    assert (Hlen11 : length (e_name e') = 11%nat) by (cbn [e_name e' set_e_mtime set_e_size]; unfold e; rewrite t_entry_name, Hname; exact (proj1 Hwf)).
    pose proof (C02_codec_roundtrip_fields (v_fat32 v) e' (e_block e) (e_offset e) Hlen11) as R. cbv zeta in R.
    destruct R as (_ & _ & _ & R4 & R5 & _).
    change (get_entry (v_fat32 v) (ser_bytes (v_fat32 v) e') (e_block e) (e_offset e)) with e2 in R4, R5.
    rewrite En2, Ea2, Es2, R4, R5, !ts_readback_idem. cbn [e_ctime e_mtime e' set_e_mtime set_e_size].
    unfold now. rewrite Hclock. reflexivity. }
  split.
  { (* the directory: only the slot of the file changes *)
    assert (Eoff : e_offset e / 32 = ie) by (rewrite Eoe; apply N.div_mul; lia).
    rewrite Eoff in Hsw.
    assert (Hkm : forall c, dget c (dblocks v2 bl T') =
              option_map (fun b => if c =? d_cluster dd then b ++ [] else b) (dget c (dblocks v bl T))).
    { apply (dget_transfer fsz vid sg 0%nat v bl rch T s5 vi5 v2 bl rch T' (fun c b => if c =? d_cluster dd then b ++ [] else b) Hatg Hat5).
      - intros c bld chd0 H0. exists chd0. replace (if c =? d_cluster dd then bld ++ [] else bld) with bld
          by (destruct (c =? d_cluster dd); [rewrite app_nil_r|]; reflexivity).
        exact (is_dir_of_geo v v2 _ _ _ _ _ _ G (is_dir_of_agree v bl rch T T' c bld chd0 DA H0)).
      - intros c bld' chd' H0. exists bld', chd'.
        exact (is_dir_of_agree v bl rch T' T c bld' chd' (dirs_agree_sym _ _ DA) (is_dir_of_geo v2 v _ _ _ _ _ _ (geo_eq_sym' _ _ G) H0)). }
    apply (dirs_slot_intro false p (d_cluster dd) bl' [] (ser_bytes (v_fat32 v) e') [] (s_disk sg) (s_disk s5) v bl T v2 bl T').
    - exact (dget_dblocks fsz vid sg 0%nat v bl rch T Hatg _ bl' chd Hdirdc).
    - exact Hkm.
    - rewrite !app_nil_r. rewrite Hd5.
      rewrite (slots_of_ext dA (s_disk s4) bl') by (intros j Hj; apply H4A; exact (is_dir_blocks_off _ _ _ _ _ _ _ _ _ _ _ j Hatg Hdirdc Hj)).
      rewrite (slots_of_upd (s_disk sg) dA (e_block e) ie _ bl' Hsw). unfold p, node_pos. cbn [fst snd node_entry]. rewrite Eoe. reflexivity.
    - rewrite app_nil_r. apply in_map_iff. exists t. split; [|exact (node_slot_in_slots _ _ _ Hn)].
      unfold p. rewrite (node_rep_pos _ _ _ _ Hr). reflexivity.
    - constructor.
    - reflexivity.
    - intros c b Hc Hgc. destruct (dget_dblocks_inv v bl rch T c b Hgc) as (chdc & Hdc).
      rewrite Hd5. apply slots_of_ext. intros j Hj.
      rewrite (H4A j (is_dir_blocks_off _ _ _ _ _ _ _ _ _ _ _ j Hatg Hdc Hj)). unfold dA. apply disk_get_set_other.
      intros Ej. apply Hc. rewrite <- Ej in Hj.
      exact (dirs_apart _ v bl rch T _ _ fsz Hdiskg Hlay c (d_cluster dd) b bl' chdc chd _ Hdc Hdirdc Hj Hb). }
  (* the new handle *)
  intros k. cbn [obs_at ob_handles].
  rewrite (handles_snoc sg s5 nf Hfiles5 Hhn k). cbn [f_id nf]. destruct (k =? s_next_id s1); reflexivity.
Qed.

(* ================================================================== 4. the creating open *)
(* PrGlobalOpen2.create_disk, with both directions of the correspondence between the trees *)
Section CreateDisk.
  Variables (fsz : N) (d d' : disk) (v : vol) (bl rch : list N) (T : list node) (pend : list N).
  Variables (dc : N) (bl' : list N) (parent : N) (kids : list node) (sfn : list N) (blk i : N) (sl0 : list N) (ts0 : ts).
  Local Notation off := (i * 32).
  Hypothesis Hinv : disk_inv d v bl rch T pend.
  Hypothesis Hlay : PrBounds.part_layout v (v_nblocks v) fsz.
  Hypothesis Hdev : v_lba v + v_nblocks v < U32.
  Hypothesis Hctx : dir_ctx d v bl T dc bl' parent kids.
  Hypothesis Hwf : sfn_wf sfn.
  Hypothesis He5 : get8 sfn 0 <> 229.
  Hypothesis Hdot : PrModes.dot_name sfn = false.
  Hypothesis Hnone : find (t_matches sfn) (live_in_blocks d bl') = None.
  Hypothesis Hfree : find nv (slots_of d bl') = Some (blk, off, sl0).
  Local Notation e := (mk_dirent sfn ts0 ts0 0 CL_EMPTY 0 blk off).
  Local Notation new := (ser_bytes (v_fat32 v) e).
  Hypothesis Hsw : slot_write d d' blk i new.
  Local Notation e2 := (t_entry (v_fat32 v) (blk, off, new)).

  Theorem create_disk_agree : exists T',
    disk_inv d' v bl rch T' pend /\ files_agree (blk, off) T T' /\ dirs_agree T T' /\ In (NFile e2 []) (all_nodes T') /\
    ~ In (blk, off) (map node_pos (all_nodes T)) /\ In blk bl' /\ i < 16 /\
    e_cluster e2 = 0 /\ e_size e2 = 0 /\ e_block e2 = blk /\ e_offset e2 = off /\ e_name e2 = sfn /\ e_attr e2 = 0 /\
    e_ctime e2 = ts_readback ts0 /\ e_mtime e2 = ts_readback ts0.
  Proof.
    pose proof (find_some _ _ Hfree) as [Hin Hnv]. apply In_slots_of in Hin.
    destruct Hin as (b & i0 & Hb & Hi & Et). injection Et as E1 E2 E3. subst b sl0.
    assert (i0 = i) by lia. subst i0.
    destruct (dir_ctx_is_dir_of d v bl rch T dc bl' parent kids (di_root _ _ _ _ _ _ Hinv) Hctx) as (chd & Hdir).
    destruct Hwf as (Hlen & Hall).
    assert (Hlen' : length (e_name e) = 11%nat) by exact Hlen.
    destruct (ser_bytes_layout (v_fat32 v) e Hlen') as (L0 & L11 & _ & _ & _ & _ & _ & _ & _ & Lfirst).
    cbn [e_name e_attr] in L0, L11, Lfirst.
    pose proof (C02_codec_roundtrip_fields (v_fat32 v) e blk (i * 32) Hlen') as R.
    cbv zeta in R. destruct R as (R1 & R2 & R3 & R4 & R5 & _ & _ & R8 & R9 & R10).
    change (get_entry (v_fat32 v) (ser_bytes (v_fat32 v) e) blk (i * 32)) with e2 in R1, R2, R3, R4, R5, R8, R9, R10.
    cbn [e_name e_attr e_size e_cluster e_mtime e_ctime] in R1, R2, R3, R4, R5, R10.
    assert (Ec2 : e_cluster e2 = 0).
    { rewrite R10 by (unfold CL_EMPTY; destruct (v_fat32 v); lia). reflexivity. }
    assert (Es2 : e_size e2 = 0) by (apply R3; lia).
    assert (Hf0 : get8 new 0 <> 0) by (rewrite Lfirst; exact (sfn_first_byte sfn (conj Hlen Hall))).
    assert (Hend : is_end new = false) by (unfold is_end; apply N.eqb_neq; exact Hf0).
    assert (Hnode : node_slot (blk, i * 32, new) = true).
    { unfold node_slot, short_slot, t_is_valid, is_valid, dot_slot, t_attr, t_name. cbn [snd].
      rewrite Hend, L11, L0. unfold PrModes.dot_name in Hdot. rewrite Hdot.
      rewrite Lfirst. apply N.eqb_neq in He5. rewrite He5. reflexivity. }
    assert (Hfresh : ~ In (t_name (blk, i * 32, new)) (map t_name (dir_shorts d bl'))).
    { unfold t_name. cbn [snd]. rewrite L0. exact (notfound_slot d v dc parent bl' sfn (dx_ok _ _ _ _ _ _ _ _ Hctx) Hnone). }
    assert (Hrep : node_rep d' v (NFile e2 []) (blk, i * 32, new)).
    { apply node_rep_file. split; [reflexivity|]. split; [rewrite R2; reflexivity|]. right. split; [rewrite Ec2; lia|reflexivity]. }
    assert (Hok : node_ok d' v dc (NFile e2 [])).
    { apply node_ok_file. rewrite Es2. cbn [length]. unfold U32. split; lia. }
    destruct (tree_inv_insert d d' v bl rch T pend (v_nblocks v) fsz Hinv Hlay Hdev dc bl' chd blk i new Hdir Hsw Hb
                (NFile e2 []) Hfree Hend Hnode Hfresh Hrep Hok ltac:(repeat constructor; intros [])
                ltac:(intros q [])) as (k & HT' & Hperm).
    cbv zeta in HT', Hperm. set (T' := forest_upd_kids dc (ins_at k (NFile e2 [])) T) in *.
    exists T'.
    assert (Hnfat : ~ fat_area v blk).
    { exact (dir_blocks_not_fat d v bl rch T pend (v_nblocks v) fsz Hinv Hlay Hdev dc bl' chd blk Hdir Hb). }
    pose proof (slot_write_fat d d' v blk i new Hsw Hnfat) as Hfat.
    split.
    { apply (disk_inv_join d' v bl rch T' pend HT').
      apply (fat_wf_ext d d' v _ Hfat). apply (fat_wf_perm d v (heads v T ++ pend)); [|exact (di_wf _ _ _ _ _ _ Hinv)].
      apply Permutation_app_tail. unfold heads. apply Permutation_app_head. rewrite !heads_all_nodes.
      pose proof (Hperm _ own_head own_head_blind) as P. cbn [flatten flat_map own_head] in P. rewrite Ec2 in P.
      cbn [N.leb app] in P. apply Permutation_sym. exact P. }
    pose proof (Hperm _ own_key own_key_blind) as PK. cbn [flatten flat_map] in PK. rewrite app_nil_r in PK.
    assert (Hp2 : node_pos (NFile e2 []) = (blk, i * 32)) by (unfold node_pos; cbn [node_entry]; rewrite R8, R9; reflexivity).
    destruct (perm_agree (blk, i * 32) T T' e2 [] Hp2 PK) as (FA & DA).
    split; [exact FA|]. split; [exact DA|].
    split.
    { assert (X : In (node_key (NFile e2 [])) (flat_map own_key (all_nodes T'))).
      { apply (Permutation_in _ (Permutation_sym PK)). apply in_or_app. left. left. reflexivity. }
      apply in_own_key in X. destruct X as (m & Hm & Ek). pose proof (key_file m e2 [] Ek) as Em. rewrite <- Em. exact Hm. }
    split.
    { unfold nv in Hnv. apply negb_true_iff in Hnv.
      exact (non_node_pos_free d v bl rch T pend Hinv blk i (proj2 (invalid_not_short _ Hnv)) Hi). }
    split; [exact Hb|]. split; [exact Hi|].
    repeat (split; [assumption|]). assumption.
  Qed.
End CreateDisk.

Lemma creating_variant md : creating md = true -> solve_mode_variant md false = ReadWriteCreate.
Proof. destruct md; try discriminate; reflexivity. Qed.

(* the slot keys of the open files are positions of nodes of the tree *)
Lemma open_keys_positions fsz vid s vi v bl rch T f : fs_inv_at fsz vid s vi v bl rch T -> In f (s_files s) ->
  In (slot_key f) (map node_pos (all_nodes T)).
Proof.
  intros Hat Hf. destruct (of_node _ _ _ _ (ofile_of fsz vid s vi v bl rch T Hat f Hf)) as (e0 & ch0 & Hn & Eb & Eo & _).
  apply in_map_iff. exists (NFile e0 ch0). split; [|exact Hn]. unfold node_pos, slot_key. cbn [node_entry]. rewrite Eb, Eo. reflexivity.
Qed.

(* the common end of a creating open: s1 = the state before the write (invariant with tree T), s5 =
   the state after, d5 its disk with tree T5 over blocks bl5; p = the new slot in a block of the
   directory dc whose blocks bld got the blocks xb appended *)
Section CreateEnd.
  Variables (fsz vid : N) (s s1 s5 : st) (vi5 : nat) (v v5 : vol) (bl rch bl5 rch5 : list N) (T T5 : list node).
  Variables (name sfn : list N) (md : mode) (blk i : N) (ct : ts) (vol_id : N).
  Local Notation p := (blk, i * 32).
  Local Notation en := (mk_dirent sfn ct ct 0 CL_EMPTY 0 blk (i * 32)).
  Local Notation nf := (mk_fileinfo (s_next_id s1) vol_id 0 (e_cluster en) 0 ReadWriteCreate en false).
  Local Notation e2 := (t_entry (v_fat32 v) (blk, i * 32, ser_bytes (v_fat32 v) en)).
  Hypothesis Hat1 : fs_inv_at fsz vid s1 0%nat v bl rch T.
  Hypothesis Hat5 : fs_inv_at fsz vid s5 vi5 v5 bl5 rch5 T5.
  Hypothesis Hcalm : calm s s1.
  Hypothesis Hfresh : id_fresh s.
  Hypothesis Hid : s_next_id s1 = s_next_id s.
  Hypothesis Hclk : ct = clock_ts (s_clock s).
  Hypothesis G : geo_eq v v5.
  Hypothesis Hsfn : sfn_of_str name = Some sfn.
  Hypothesis Hcr : creating md = true.
  Hypothesis Hfiles5 : s_files s5 = s_files s1 ++ [nf].
  Hypothesis FA : files_agree p T T5.
  Hypothesis Hin2 : In (NFile e2 []) (all_nodes T5).
  Hypothesis Hpos : ~ In p (map node_pos (all_nodes T)).
  Hypothesis Hfields : e_size e2 = 0 /\ e_block e2 = blk /\ e_offset e2 = i * 32 /\ e_name e2 = sfn /\ e_attr e2 = 0 /\
                       e_ctime e2 = ts_readback ct /\ e_mtime e2 = ts_readback ct.
  Hypothesis Hframe : frame_ok (s_disk s1) (s_disk s5) v T (pend_of s1 v) 0.
  Hypothesis Hdirs : dirs_slot true p (obs_at s1 v bl T) (obs_at s5 v5 bl5 T5).

  Theorem create_end :
    exists a', observes fsz vid s5 a' /\ open_content name md (s_clock s) (Ok (RHandle (s_next_id s1))) (obs_at s v bl T) a'.
  Proof.
    destruct Hfields as (Es2 & Eb2 & Eo2 & En2 & Ea2 & Ect2 & Emt2).
    rewrite <- (obs_at_calm s s1 v bl T Hcalm).
    assert (Hnokey : ~ In p (map slot_key (s_files s1))).
    { intros Hk. apply Hpos. apply in_map_iff in Hk. destruct Hk as (f & Ek & Hf). rewrite <- Ek.
      exact (open_keys_positions _ _ _ _ _ _ _ _ f Hat1 Hf). }
    assert (Hkey : slot_key nf = p) by reflexivity.
    assert (Hmemp : vget p (mem_view s1 v T) = None).
    { unfold mem_view. apply vget_file_item_none. intros e0 ch0 H0 Ep. apply Hpos. rewrite <- Ep.
      apply (in_map node_pos). exact H0. }
    assert (Hoth : others_same p (obs_at s1 v bl T) (obs_at s5 v5 bl5 T5)).
    { apply (others_same_open fsz vid s1 0%nat v bl rch T Hat1 s5 vi5 v5 bl5 rch5 T5 p nf Hat5 G Hfiles5 Hkey FA).
      - intros e0 ch0 H0 _. apply (closed_bytes fsz vid s1 0%nat v bl rch T Hat1 (s_disk s5) 0 e0 ch0 Hframe H0). intros H2. lia.
      - intros f Hf. apply (open_bytes fsz vid s1 0%nat v bl rch T Hat1 s5 0 f Hframe Hf). intros H2. lia. }
    exists (obs_at s5 v5 bl5 T5). split; [exact (observes_at _ _ _ _ _ _ _ _ Hat5)|].
    unfold open_content. cbn [obs_at ob_handles ob_mem ob_disk ob_dirs].
    assert (Hhn : hget (s_next_id s1) (handles_of s1) = None).
    { unfold handles_of. rewrite (proj2 (proj2 Hcalm)), Hid. exact (hget_fresh s Hfresh). }
    split; [exact Hhn|].
    exists sfn, p, ReadWriteCreate. split; [exact Hsfn|]. split; [exact (not_open_intro s1 v bl T p Hnokey)|].
    rewrite Hmemp. split; [symmetry; exact (creating_variant md Hcr)|]. split; [exact Hoth|].
    split; [reflexivity|].
    split; [exact (proj1 (vget_mem_none_iff s1 v T p) Hmemp)|].
    assert (Hinnf : In nf (s_files s5)) by (rewrite Hfiles5; apply in_or_app; right; left; reflexivity).
    assert (Hmem' : vget p (mem_view s5 v5 T5) = Some (mk_fview sfn 0 (stamp_of (s_clock s)) (stamp_of (s_clock s)) [])).
    { rewrite <- Hkey. rewrite (vget_mem_open fsz vid s5 vi5 v5 bl5 rch5 T5 Hat5 nf Hinnf). f_equal.
      unfold mem_fv, fv_of, stamp_of. cbn [f_entry e_name e_attr e_ctime e_mtime e_size]. rewrite Hclk. reflexivity. }
    split; [exact Hmem'|].
    split.
    { rewrite Hmem'. assert (Hp2 : node_pos (NFile e2 []) = p) by (unfold node_pos; cbn [node_entry]; rewrite Eb2, Eo2; reflexivity).
      rewrite <- Hp2. rewrite (vget_disk_node fsz vid s5 vi5 v5 bl5 rch5 T5 Hat5 e2 [] Hin2). f_equal.
      unfold disk_fv, fv_of, stamp_of. cbn [node_entry node_chain].
      rewrite En2, Ea2, Es2, Ect2, Emt2, !ts_readback_idem, Hclk. reflexivity. }
    split; [exact Hdirs|].
    intros k. cbn [obs_at ob_handles].
    rewrite (handles_snoc s1 s5 nf Hfiles5 Hhn k). cbn [f_id]. destruct (k =? s_next_id s1); reflexivity.
  Qed.
End CreateEnd.

(* the directories of a tree with the same directory nodes over the same root blocks *)
Lemma dget_agree_dirs fsz vid s vi v bl rch T s' vi' v' T' dc :
  fs_inv_at fsz vid s vi v bl rch T -> fs_inv_at fsz vid s' vi' v' bl rch T' -> geo_eq v v' -> dirs_agree T T' ->
  forall c, dget c (dblocks v' bl T') = option_map (fun b => if c =? dc then b ++ [] else b) (dget c (dblocks v bl T)).
Proof.
  intros Hat Hat' G DA.
  apply (dget_transfer fsz vid s vi v bl rch T s' vi' v' bl rch T' (fun c b => if c =? dc then b ++ [] else b) Hat Hat').
  - intros c bld chd0 H0. exists chd0. replace (if c =? dc then bld ++ [] else bld) with bld
      by (destruct (c =? dc); [rewrite app_nil_r|]; reflexivity).
    exact (is_dir_of_geo v v' _ _ _ _ _ _ G (is_dir_of_agree v bl rch T T' c bld chd0 DA H0)).
  - intros c bld' chd' H0. exists bld', chd'.
    exact (is_dir_of_agree v bl rch T' T c bld' chd' (dirs_agree_sym _ _ DA) (is_dir_of_geo v' v _ _ _ _ _ _ (geo_eq_sym' _ _ G) H0)).
Qed.

(* ---- the creating open, the directory has a free slot ---- *)
Lemma open_create_slot_content fsz vid s vi v bl rch T h name di dd sfn bl' parent kids s1 md blk off sl0 s2 r s' :
  open_ctx fsz vid s vi v bl rch T h name di dd sfn bl' parent kids s1 ->
  find (t_matches sfn) (live_in_blocks (s_disk s) bl') = None -> creating md = true ->
  find nv (slots_of (s_disk s1) bl') = Some (blk, off, sl0) ->
  let en := mk_dirent sfn (clock_ts (s_clock s1)) (clock_ts (s_clock s1)) 0 CL_EMPTY 0 blk off in
  write_new_directory_entry 0%nat (d_cluster dd) sfn 0 CL_EMPTY s1 = (Ok en, s2) ->
  slot_write (s_disk s1) (s_disk s2) blk (off / 32) (ser_bytes (v_fat32 v) en) ->
  same_tables s1 s2 ->
  fs_inv fsz vid s' -> step (OpenFile h name md) s = (r, s') ->
  exists a', observes fsz vid s' a' /\ open_content name md (s_clock s) r (obs_at s v bl T) a'.
Proof.
  intros Hoc Hfind Hcr Hfree en Hrun Hsw Htab Hinv' Hs.
  pose proof (open_create_run _ _ _ _ _ _ _ _ _ _ _ _ _ _ _ _ _ md Hoc Hfind Hcr) as E. rewrite Hrun in E.
  cbn [step] in Hs. rewrite (lift_ok' _ _ _ _ _ E) in Hs. injection Hs as <- <-. clear E.
  destruct Hoc as [Hat Hfresh Hres Hvol Hroom Hsfn He5 Hdot Hctx Hlook Hro Hrd].
  pose proof (go_ro _ _ _ _ _ _ _ _ _ Hat Hro) as Hat1.
  pose proof Hro as (Hd & Hc1 & Hnf1 & Hm1). pose proof Hm1 as (M1 & M2 & M3 & M4 & M5 & M6 & _).
  pose proof Htab as (T1 & T2 & T3 & T4 & T5 & _).
  pose proof (sfn_of_str_wf _ _ Hsfn) as Hwf.
  rewrite <- Hd in Hctx, Hfind.
  destruct (go_facts _ _ _ _ _ _ _ _ Hat1) as (Hl1 & _ & _ & Ev1 & E0 & Hv01 & Hv & L & Hwf1 & _). subst vi.
  pose proof (find_some _ _ Hfree) as [Hin _]. apply In_slots_of in Hin.
  destruct (Hin) as (b & i & Hb & Hi & Et). injection Et as E1 E2 E3. subst b off sl0.
  replace (i * 32 / 32) with i in Hsw by lia.
  pose proof (fi_disk _ _ _ _ _ _ _ _ Hat1) as Hdisk1. pose proof (fi_layout _ _ _ _ _ _ _ _ Hat1) as Hlay.
  destruct (create_disk_agree fsz (s_disk s1) (s_disk s2) v bl rch T (pend_of s1 v) (d_cluster dd) bl' parent kids sfn blk i _
              (clock_ts (s_clock s1)) Hdisk1 Hlay (fi_dev _ _ _ _ _ _ _ _ Hat1)
              Hctx Hwf He5 Hdot Hfind Hfree Hsw)
    as (T' & Hdisk2 & FA & DA & Hin2 & Hpos & _ & _ & Ec2 & Es2 & Eb2 & Eo2 & En2 & Ea2 & Ect2 & Emt2).
  destruct (dir_ctx_is_dir_of _ v bl rch T _ bl' parent kids (di_root _ _ _ _ _ _ Hdisk1) Hctx) as (chd & Hdirdc).
  assert (Hnfat : ~ fat_area v blk)
    by exact (off_fat_not_area fsz v blk L (is_dir_blocks_off _ _ _ _ _ _ _ _ _ _ _ blk Hat1 Hdirdc Hb)).
  pose proof (slot_write_fat _ _ v blk i _ Hsw Hnfat) as Hfat.
  rewrite T4 in Hinv' |- *.
  set (nf := mk_fileinfo (s_next_id s1) (d_vol dd) 0 (e_cluster en) 0 ReadWriteCreate en false) in *.
  set (s5 := set_s_files (set_s_next_id s2 ((s_next_id s1 + 1) mod U32)) (s_files s2 ++ [nf])) in *.
  assert (Hd5 : s_disk s5 = s_disk s2) by reflexivity.
  assert (Hfiles5 : s_files s5 = s_files s1 ++ [nf]) by (unfold s5; cbn [s_files set_s_files]; rewrite T3; reflexivity).
  assert (Hvols5 : s_vols s5 = [v]) by (unfold s5; cbn [s_vols set_s_files set_s_next_id]; rewrite T1; exact Ev1).
  rewrite <- Hd5 in Hdisk2.
  destruct (fs_inv_at_of fsz vid s5 v bl rch T' Hinv' Hvols5 (di_root _ _ _ _ _ _ Hdisk2) (di_tree _ _ _ _ _ _ Hdisk2)) as (vi5 & Hat5).
  apply (create_end fsz vid s s1 s5 vi5 v v bl rch bl rch T T' name sfn md blk i (clock_ts (s_clock s1)) (d_vol dd)
           Hat1 Hat5 (calm_ro _ _ Hro) Hfresh M4 ltac:(rewrite M5; reflexivity) (geo_eq_refl v) Hsfn Hcr Hfiles5 FA Hin2 Hpos).
  - repeat (split; [assumption|]). assumption.
  - constructor.
    + intros h0 ch0 _ _ Hch0. rewrite Hd5. exact (chain_at_ext _ _ v _ _ Hfat Hch0).
    + intros h0 ch0 j Hfh _ Hch0 Hj. rewrite Hd5. apply (proj1 Hsw). intros Ej. rewrite Ej in Hj.
      exact (file_block_not_dir _ v bl rch T _ _ fsz Hdisk1 Hlay h0 ch0 _ bl' chd _ Hfh Hch0 Hdirdc Hj Hb).
  - unfold obs_at.
    apply (dirs_slot_intro true (blk, i * 32) (d_cluster dd) bl' [] (ser_bytes (v_fat32 v) en) [] (s_disk s1) (s_disk s5) v bl T v bl T').
    + exact (dget_dblocks fsz vid s1 0%nat v bl rch T Hat1 _ bl' chd Hdirdc).
    + exact (dget_agree_dirs fsz vid s1 0%nat v bl rch T s5 vi5 v T' (d_cluster dd) Hat1 Hat5 (geo_eq_refl v) DA).
    + rewrite !app_nil_r, Hd5. exact (slots_of_upd (s_disk s1) (s_disk s2) blk i _ bl' Hsw).
    + rewrite app_nil_r. pose proof (find_some _ _ Hfree) as [Hin0 _].
      apply in_map_iff. exists (blk, i * 32, slot (disk_get (s_disk s1) blk) i). split; [reflexivity|exact Hin0].
    + constructor.
    + reflexivity.
    + intros c b0 Hc Hgc. destruct (dget_dblocks_inv v bl rch T c b0 Hgc) as (chdc & Hdc).
      rewrite Hd5. apply slots_of_ext. intros j Hj. apply (proj1 Hsw). intros Ej. apply Hc. rewrite Ej in Hj.
      exact (dirs_apart _ v bl rch T _ _ fsz Hdisk1 Hlay c (d_cluster dd) b0 bl' chdc chd _ Hdc Hdirdc Hj Hb).
Qed.

(* ================================================================== 4b. the directory grows by one zeroed cluster *)
(* PrGlobalOpen2.grow_disk with the new tree spelled out *)
Section GrowDisk.
  Variables (fsz : N) (d da : disk) (v : vol) (bl rch : list N) (T : list node) (pend : list N) (dc c0 : N) (ch : list N) (cn : N).
  Hypothesis Hinv : disk_inv d v bl rch T pend.
  Hypothesis L : fat_layout v fsz.
  Hypothesis Hlay : PrBounds.part_layout v (v_nblocks v) fsz.
  Hypothesis Hhead : (dc = CL_ROOT /\ v_fat32 v = true /\ c0 = v_root_cluster v /\ ch = rch) \/
                     (exists e kids, In (NDir e ch kids) (all_nodes T) /\ e_cluster e = dc /\ c0 = dc).
  Hypothesis Hch : chain_at d v c0 ch.
  Hypothesis W' : fat_wf da v (heads v T ++ pend).
  Hypothesis Hnew : chain_at da v c0 (ch ++ [cn]).
  Hypothesis Hoth : forall h2 ch2, In h2 (heads v T ++ pend) -> h2 <> c0 -> chain_at d v h2 ch2 -> chain_at da v h2 ch2.
  Hypothesis Hcn : 2 <= cn /\ cn < v_clusters v + 2 /\ fat_get d v 0 cn = 0.
  Hypothesis Hframe : forall j, off_fat v fsz j -> ~ In j (cluster_blocks v cn) -> disk_get da j = disk_get d j.
  Hypothesis Hzero : forall j, In j (cluster_blocks v cn) -> disk_get da j = zero_block.

  Theorem grow_disk_explicit : exists bl_a rch_a T_a,
    disk_inv da v bl_a rch_a T_a pend /\
    map node_pos (all_nodes T_a) = map node_pos (all_nodes T) /\
    ((dc = CL_ROOT /\ v_fat32 v = true /\ bl_a = bl ++ cluster_blocks v cn /\ rch_a = rch ++ [cn] /\ T_a = T) \/
     ((exists e kids, In (NDir e ch kids) (all_nodes T) /\ e_cluster e = dc) /\
      bl_a = bl /\ rch_a = rch /\ T_a = forest_set_chain dc (ch ++ [cn]) T)).
  Proof.
    pose proof (di_wf _ _ _ _ _ _ Hinv) as W.
    destruct (heads_nodup v T pend (wf_heads _ _ _ W)) as (N1 & N2 & N3 & N4).
    pose proof (disk_inv_tree _ _ _ _ _ _ Hinv) as HT.
    destruct Hhead as [(Edc & E32 & Ec0 & Erch)|(e & kids & Hn & Edc & Ec0)].
    - pose proof Hnew as Hnew'. rewrite Ec0, Erch in Hnew'.
      assert (Hoth' : forall h2 ch2, In h2 (heads v T ++ pend) -> h2 <> v_root_cluster v -> chain_at d v h2 ch2 -> chain_at da v h2 ch2)
        by (rewrite <- Ec0; exact Hoth).
      assert (Hr : In (v_root_cluster v) (root_heads v)) by (unfold root_heads; rewrite E32; left; reflexivity).
      exists (bl ++ cluster_blocks v cn), (rch ++ [cn]), T.
      split; [|split; [reflexivity|left; repeat split; assumption]].
      apply (disk_inv_join da v _ _ T pend); [|exact W'].
      apply (tree_inv_grow_root d da v bl rch T cn HT E32 Hnew' Hzero).
      + intros j Hj. destruct (tree_dir_blocks_inv v bl T j Hj) as [Hb|(e0 & ch0 & kids0 & H0 & Hb)].
        * destruct (root_block_old fsz d v bl rch T pend dc c0 ch cn Hinv L Hlay Hhead Hcn j Hb) as (A & B). exact (Hframe j A B).
        * exact (dir_block_old fsz d da v bl rch T pend cn Hinv L Hcn Hframe e0 ch0 kids0 j H0 Hb).
      + intros m Hm Hne.
        destruct (node_chain_head d v bl T (di_tree _ _ _ _ _ _ Hinv) m Hm) as [(A & _)|(h & A & -> & B)]; [contradiction|].
        assert (Hh : In (e_cluster (node_entry m)) (own_head m)) by (rewrite A; left; reflexivity).
        apply (Hoth' _ _ (node_head_in v T pend m _ Hm Hh)); [|exact B].
        intros Eq. apply (proj1 (N3 _ Hr)). rewrite <- Eq. exact (own_head_in T m _ Hm Hh).
    - pose proof Hnew as Hnew'. rewrite Ec0 in Hnew'.
      assert (Hoth' : forall h2 ch2, In h2 (heads v T ++ pend) -> h2 <> dc -> chain_at d v h2 ch2 -> chain_at da v h2 ch2)
        by (rewrite <- Ec0; exact Hoth).
      assert (HD : In dc (own_head (NDir e ch kids))) by (left; exact Edc).
      exists bl, rch, (forest_set_chain dc (ch ++ [cn]) T).
      split; [|split; [apply positions_set_chain|right; split; [exists e, kids; split; assumption|repeat split]]].
      apply (disk_inv_join da v _ _ _ pend); [|rewrite heads_set_chain; exact W'].
      apply (tree_inv_grow d da v dc cn ch Hnew' Hzero bl rch T HT).
      + intros m Hm. split; [|split].
        * destruct m as [e0 ch0|e0 ch0 kids0]; [intros j []|]. intros j Hj.
          exact (dir_block_old fsz d da v bl rch T pend cn Hinv L Hcn Hframe e0 ch0 kids0 j Hm Hj).
        * intros Hne Hnd.
          destruct (node_chain_head d v bl T (di_tree _ _ _ _ _ _ Hinv) m Hm) as [(A & _)|(h & A & -> & B)]; [contradiction|].
          assert (Hh : In (e_cluster (node_entry m)) (own_head m)) by (rewrite A; left; reflexivity).
          apply (Hoth' _ _ (node_head_in v T pend m _ Hm Hh)); [|exact B].
          intros Eq. rewrite Eq in Hh. pose proof (flat_map_owner own_head _ N1 _ _ _ Hm Hn Hh HD) as ->.
          exact (Hnd e ch kids eq_refl Edc).
        * intros e0 ch0 kids0 -> E0.
          assert (Hh : In dc (own_head (NDir e0 ch0 kids0))) by (left; exact E0).
          pose proof (flat_map_owner own_head _ N1 _ _ _ Hm Hn Hh HD) as Eq. injection Eq as _ -> _. reflexivity.
      + intros j Hj. destruct (root_block_old fsz d v bl rch T pend dc c0 ch cn Hinv L Hlay Hhead Hcn j Hj) as (A & B). exact (Hframe j A B).
      + intros E32. pose proof (di_root _ _ _ _ _ _ Hinv) as H0. unfold root_dir in H0. rewrite E32 in H0. destruct H0 as (Hc & _).
        assert (Hr : In (v_root_cluster v) (root_heads v)) by (unfold root_heads; rewrite E32; left; reflexivity).
        apply (Hoth' _ _ ltac:(apply in_or_app; left; unfold heads; apply in_or_app; left; exact Hr)); [|exact Hc].
        intros Eq. apply (proj1 (N3 _ Hr)). rewrite Eq. exact (own_head_in T _ _ Hn HD).
  Qed.
End GrowDisk.

Lemma set_chain_files dc ch' T e0 ch0 :
  In (NFile e0 ch0) (all_nodes (forest_set_chain dc ch' T)) <-> In (NFile e0 ch0) (all_nodes T).
Proof.
  rewrite all_nodes_set_chain. split.
  - intros H. apply in_map_iff in H. destruct H as (m & Em & Hm). destruct m as [e1 ch1|e1 ch1 k1]; [|discriminate Em].
    cbn [node_set_chain] in Em. rewrite <- Em. exact Hm.
  - intros H. apply in_map_iff. exists (NFile e0 ch0). split; [reflexivity|exact H].
Qed.

(* what the grown tree has: the same files; the same directories, the one that grew with the new cluster's blocks *)
Lemma grow_agree fsz vid s vi v bl rch T dc ch cn bl_a rch_a T_a : fs_inv_at fsz vid s vi v bl rch T ->
  ((dc = CL_ROOT /\ v_fat32 v = true /\ bl_a = bl ++ cluster_blocks v cn /\ rch_a = rch ++ [cn] /\ T_a = T) \/
   ((exists e kids, In (NDir e ch kids) (all_nodes T) /\ e_cluster e = dc) /\
    bl_a = bl /\ rch_a = rch /\ T_a = forest_set_chain dc (ch ++ [cn]) T)) ->
  (forall q, files_agree q T T_a) /\
  (forall c bld chd, is_dir_of v bl rch T c bld chd ->
     exists chd', is_dir_of v bl_a rch_a T_a c (if c =? dc then bld ++ cluster_blocks v cn else bld) chd') /\
  (forall c bld' chd', is_dir_of v bl_a rch_a T_a c bld' chd' -> exists bld chd, is_dir_of v bl rch T c bld chd).
Proof.
  intros Hat [(-> & E32 & -> & -> & ->)|((e & kids & Hn & Edc) & -> & -> & ->)].
  - split; [intros q; apply files_agree_refl|]. split.
    + intros c bld chd [(-> & -> & ->)|(e1 & k1 & Hn1 & Ec & Eb)].
      * rewrite N.eqb_refl. exists (rch ++ [cn]). left. repeat split.
      * replace (c =? CL_ROOT) with false
          by (symmetry; apply N.eqb_neq; rewrite <- Ec; exact (dir_cluster_not_root fsz vid s vi v bl rch T Hat e1 chd k1 Hn1)).
        exists chd. right. exists e1, k1. auto.
    + intros c bld' chd' [(-> & -> & ->)|(e1 & k1 & Hn1 & Ec & Eb)].
      * exists bl, rch. left. repeat split.
      * exists bld', chd'. right. exists e1, k1. auto.
  - pose proof (dir_cluster_not_root fsz vid s vi v bl rch T Hat e ch kids Hn) as Hnr. rewrite Edc in Hnr.
    split; [intros q e0 ch0 _; symmetry; apply set_chain_files|]. split.
    + intros c bld chd [(-> & -> & ->)|(e1 & k1 & Hn1 & Ec & Eb)].
      * replace (CL_ROOT =? dc) with false by (symmetry; apply N.eqb_neq; congruence). exists rch. left. repeat split.
      * pose proof (in_map (node_set_chain dc (ch ++ [cn])) _ _ Hn1) as Hn1'. rewrite <- all_nodes_set_chain in Hn1'.
        cbn [node_set_chain] in Hn1'. rewrite Ec in Hn1'.
        destruct (N.eqb_spec c dc) as [E|E].
        -- exists (ch ++ [cn]). right. exists e1, (map (node_set_chain dc (ch ++ [cn])) k1). split; [exact Hn1'|]. split; [exact Ec|].
           assert (X : NDir e1 chd k1 = NDir e ch kids)
             by (apply (dir_nodes_unique fsz vid s vi v bl rch T Hat); [exact Hn1|exact Hn|congruence]).
           injection X as _ -> _. rewrite data_blocks_snoc, Eb. reflexivity.
        -- exists chd. right. exists e1, (map (node_set_chain dc (ch ++ [cn])) k1). auto.
    + intros c bld' chd' [(-> & -> & ->)|(e1 & k1 & Hn1 & Ec & Eb)].
      * exists bl, rch. left. repeat split.
      * rewrite all_nodes_set_chain in Hn1. apply in_map_iff in Hn1. destruct Hn1 as (m & Em & Hm).
        destruct m as [e2 ch2|e2 ch2 k2]; [discriminate Em|]. cbn [node_set_chain] in Em. injection Em as -> _ _.
        exists (data_blocks v ch2), ch2. right. exists e1, k2. auto.
Qed.

Lemma file_head_not_dirhead d v bl rch T pend h : disk_inv d v bl rch T pend -> file_head T pend h ->
  (In h (root_heads v) \/ exists e1 ch1 k1, In (NDir e1 ch1 k1) (all_nodes T) /\ e_cluster e1 = h) -> False.
Proof.
  intros Hdi Hfh Hd. pose proof (di_wf _ _ _ _ _ _ Hdi) as W.
  destruct (heads_nodup v T pend (wf_heads _ _ _ W)) as (N1 & N2 & N3 & N4).
  destruct Hd as [Hr|(e1 & ch1 & k1 & Hn1 & Ec1)].
  - destruct Hfh as [(e0 & ch0 & Hn & Ec & H2)|Hp].
    + apply (proj1 (N3 _ Hr)). apply (own_head_in T _ _ Hn). cbn [own_head]. rewrite Ec.
      apply N.leb_le in H2. rewrite H2. left. reflexivity.
    + exact (proj2 (N3 _ Hr) Hp).
  - assert (Hd1 : In h (own_head (NDir e1 ch1 k1))) by (left; exact Ec1).
    destruct Hfh as [(e0 & ch0 & Hn & Ec & H2)|Hp].
    + assert (Hf0 : In h (own_head (NFile e0 ch0))).
      { cbn [own_head]. rewrite Ec. apply N.leb_le in H2. rewrite H2. left. reflexivity. }
      discriminate (flat_map_owner own_head _ N1 _ _ _ Hn Hn1 Hf0 Hd1).
    + exact (N4 _ (own_head_in T _ _ Hn1 Hd1) Hp).
Qed.

Lemma slot_zero i : i < 16 -> slot zero_block i = repeat 0 32.
Proof.
  intros Hi.
  assert (H : i = 0 \/ i = 1 \/ i = 2 \/ i = 3 \/ i = 4 \/ i = 5 \/ i = 6 \/ i = 7 \/ i = 8 \/ i = 9 \/ i = 10 \/
              i = 11 \/ i = 12 \/ i = 13 \/ i = 14 \/ i = 15) by lia.
  repeat (destruct H as [->|H]; [vm_compute; reflexivity|]). subst i. vm_compute. reflexivity.
Qed.

Lemma zero_slots d l : (forall b, In b l -> disk_get d b = zero_block) -> Forall zero_slot (slots_of d l).
Proof.
  intros H. apply Forall_forall. intros t Ht. destruct (In_slots_of d l t Ht) as (b & i & Hb & Hi & ->).
  unfold zero_slot. cbn [snd]. rewrite (H b Hb). exact (slot_zero i Hi).
Qed.

(* ---- the creating open, the directory grows ---- *)
Lemma open_create_grow_content fsz vid s vi v bl rch T h name di dd sfn bl' parent kids s1 md ch s0 cn sa en s2 r s' :
  open_ctx fsz vid s vi v bl rch T h name di dd sfn bl' parent kids s1 ->
  find (t_matches sfn) (live_in_blocks (s_disk s) bl') = None -> creating md = true ->
  find nv (slots_of (s_disk s1) bl') = None ->
  chain_at (s_disk s1) v (dir_first_cluster v (d_cluster dd)) ch -> bl' = data_blocks v ch ->
  qstep s1 s0 -> alloc_pre s0 0%nat v fsz ->
  alloc_cluster 0%nat (Some (last ch (dir_first_cluster v (d_cluster dd)))) true s0 = (Ok cn, sa) ->
  create_post (v_fat32 v) sfn 0 CL_EMPTY (cluster_first_block v cn) 0 sa en s2 ->
  write_new_directory_entry 0%nat (d_cluster dd) sfn 0 CL_EMPTY s1 = (Ok en, s2) ->
  fs_inv fsz vid s' -> step (OpenFile h name md) s = (r, s') ->
  exists a', observes fsz vid s' a' /\ open_content name md (s_clock s) r (obs_at s v bl T) a'.
Proof.
  intros Hoc Hfind Hcr Hfreenone Hch Ebl' Hq0 Hpre0 Hal Hpost Hrun Hinv' Hs.
  pose proof (open_create_run _ _ _ _ _ _ _ _ _ _ _ _ _ _ _ _ _ md Hoc Hfind Hcr) as E. rewrite Hrun in E.
  cbn [step] in Hs. rewrite (lift_ok' _ _ _ _ _ E) in Hs. injection Hs as <- <-. clear E.
  destruct Hoc as [Hat Hfresh Hres Hvol Hroom Hsfn He5 Hdot Hctx Hlook Hro Hrd].
  set (dc := d_cluster dd) in *. set (c0 := dir_first_cluster v dc) in *.
  pose proof (go_ro _ _ _ _ _ _ _ _ _ Hat Hro) as Hat1.
  pose proof (go_ro _ _ _ _ _ _ _ _ _ Hat1 (proj1 Hq0)) as Hat0.
  pose proof Hro as (Hd & _ & _ & Hm1). pose proof Hm1 as (M1 & M2 & M3 & M4 & M5 & _).
  pose proof (proj1 Hq0) as (Hd0 & Hc0 & Hnf0 & Hm0). pose proof Hm0 as (O1 & O2 & O3 & O4 & O5 & O6 & _).
  pose proof (sfn_of_str_wf _ _ Hsfn) as Hwf.
  rewrite <- Hd, <- Hd0 in Hctx, Hfind. rewrite <- Hd0 in Hfreenone, Hch.
  destruct (go_facts _ _ _ _ _ _ _ _ Hat0) as (Hl0 & _ & _ & Ev0 & E0 & Hv00 & Hv & L & Hwf0 & _). subst vi.
  pose proof (fi_disk _ _ _ _ _ _ _ _ Hat0) as Hdisk0.
  pose proof (fi_layout _ _ _ _ _ _ _ _ Hat0) as Hlay.
  pose proof (fi_vol _ _ _ _ _ _ _ _ Hat0) as (_ & _ & Hfit & Hspc & _).
  pose proof (di_wf _ _ _ _ _ _ Hdisk0) as W.
  destruct (heads_nodup v T (pend_of s0 v) (wf_heads _ _ _ W)) as (N1 & N2 & N3 & N4).
  assert (Hhead : (dc = CL_ROOT /\ v_fat32 v = true /\ c0 = v_root_cluster v /\ ch = rch) \/
                  (exists e kids0, In (NDir e ch kids0) (all_nodes T) /\ e_cluster e = dc /\ c0 = dc)).
  { destruct (dx_where _ _ _ _ _ _ _ _ Hctx) as [(Edc & _)|(e & ch1 & Hn & Ec & _ & Hch1 & R1 & R2)].
    - left. split; [exact Edc|]. unfold c0, dir_first_cluster in *. rewrite Edc, N.eqb_refl, andb_true_r in *.
      destruct (v_fat32 v) eqn:E32.
      + split; [reflexivity|]. split; [reflexivity|]. pose proof (di_root _ _ _ _ _ _ Hdisk0) as Hr. unfold root_dir in Hr.
        rewrite E32 in Hr. exact (chain_at_det _ _ _ _ _ Hch (proj1 Hr)).
      + exfalso. destruct (chain_of_head _ _ _ _ _ Hch) as (_ & R2 & _). exact (in_range_not_root v _ Hv R2 eq_refl).
    - right. assert (Ec0 : c0 = dc).
      { unfold c0, dir_first_cluster. replace (dc =? CL_ROOT) with false; [rewrite andb_false_r; reflexivity|].
        symmetry. apply N.eqb_neq. exact (in_range_not_root v dc Hv R2). }
      rewrite Ec0 in Hch. rewrite (chain_at_det _ _ _ _ _ Hch Hch1). exists e, kids. auto. }
  assert (Hc0head : In c0 (root_heads v) \/ exists e1 ch1 k1, In (NDir e1 ch1 k1) (all_nodes T) /\ e_cluster e1 = c0).
  { destruct Hhead as [(_ & E32 & -> & _)|(e & kids0 & Hn & Ec & ->)].
    - left. unfold root_heads. rewrite E32. left. reflexivity.
    - right. exists e, ch, kids0. auto. }
  assert (Hc0in : In c0 (heads v T ++ pend_of s0 v)).
  { apply in_or_app. left. unfold heads. apply in_or_app.
    destruct Hc0head as [Hr|(e & ch1 & k1 & Hn & Ec)]; [left; exact Hr|right].
    apply (own_head_in T _ _ Hn). left. exact Ec. }
  destruct (chain_at_head _ _ _ _ Hch) as (r0 & Ech).
  assert (Hsplit : ch = removelast ch ++ [last ch c0]) by (apply app_removelast_last; rewrite Ech; discriminate).
  set (p := last ch c0) in *. set (pre := removelast ch) in *.
  rewrite Hsplit in Hch.
  destruct (C03_alloc_extends_wf 0%nat v fsz true s0 _ c0 pre p cn sa Hpre0 Hfit W Hc0in Hch Hal)
    as (W' & Hnew & Hoth & Hcn & v2 & G & Hprea).
  replace (pre ++ [p; cn]) with (ch ++ [cn]) in Hnew by (rewrite Hsplit, <- app_assoc; reflexivity).
  rewrite <- Hsplit in Hch.
  destruct (chain_at_mem _ _ _ _ p Hch ltac:(rewrite Hsplit; apply in_or_app; right; left; reflexivity)) as (P1 & P2 & P3 & _).
  destruct (alloc_cluster_effect_inuse 0%nat v fsz (Some p) true s0 cn sa Hpre0
              ltac:(intros p0 E; injection E as <-; split; assumption) Hal) as (Heff & _ & _).
  destruct (ae_tables _ _ _ _ _ _ _ _ Heff) as (A1 & A2 & A3 & A4 & A5 & _).
  pose proof (alloc_blocks_wf _ _ _ _ _ _ _ _ Heff Hwf0) as Hwfa.
  assert (Hframe : forall j, off_fat v fsz j -> ~ In j (cluster_blocks v cn) -> disk_get (s_disk sa) j = disk_get (s_disk s0) j).
  { intros j Hoff Hnc. apply (ae_frame _ _ _ _ _ _ _ _ Heff).
    - exact (Hoff 0 _ (layout_sector v fsz cn L (proj1 (proj2 Hcn)))).
    - exact (Hoff 1 _ (layout_sector v fsz cn L (proj1 (proj2 Hcn)))).
    - intros p0 E. injection E as <-. split; [exact (Hoff 0 _ (layout_sector v fsz p L P2))|exact (Hoff 1 _ (layout_sector v fsz p L P2))].
    - intros _ Hin. apply Hnc. apply in_cluster_blocks_iff. exact Hin. }
  assert (Hzero : forall j, In j (cluster_blocks v cn) -> disk_get (s_disk sa) j = zero_block).
  { intros j Hj. destruct (In_cluster_blocks _ _ _ Hj) as (k & Hk & ->). exact (ae_zero _ _ _ _ _ _ _ _ Heff eq_refl k Hk). }
  destruct (grow_disk_explicit fsz (s_disk s0) (s_disk sa) v bl rch T (pend_of s0 v) dc c0 ch cn Hdisk0 L Hlay Hhead W' Hnew Hoth Hcn Hframe Hzero)
    as (bl_a & rch_a & T_a & Hdiska & Hpos_a & Hform).
  set (cbs := cluster_blocks v cn) in *.
  destruct (grow_agree fsz vid s0 0%nat v bl rch T dc ch cn bl_a rch_a T_a Hat0 Hform) as (FAa & Dfw & Dbw).
  destruct (dir_ctx_is_dir_of _ v bl rch T _ bl' parent kids (di_root _ _ _ _ _ _ Hdisk0) Hctx) as (chd & Hdirdc).
  destruct (Dfw dc bl' chd Hdirdc) as (chda & Hdira). rewrite N.eqb_refl in Hdira. fold cbs in Hdira.
  assert (Hgoa : go_is_dir T_a dc).
  { destruct Hdira as [(Edc & _)|(e & kids0 & Hn & Ec & _)]; [left; exact Edc|right; exists e, chda, kids0; auto]. }
  destruct (dir_ctx_of_disk _ v bl_a rch_a T_a _ dc Hv Hdiska Hgoa) as (bla' & para & kidsa & Hctxa).
  assert (Ebla : bla' = bl' ++ cbs).
  { destruct (dir_ctx_is_dir_of _ v bl_a rch_a T_a _ bla' para kidsa (di_root _ _ _ _ _ _ Hdiska) Hctxa) as (chdb & Hdirb).
    exact (proj1 (is_dir_of_det _ v bl_a rch_a T_a _ _ fsz Hdiska Hlay dc _ _ _ _ Hdirb Hdira)). }
  assert (Hbl'same : forall j, In j bl' -> disk_get (s_disk sa) j = disk_get (s_disk s0) j).
  { intros j Hj. rewrite Ebl' in Hj. destruct (chain_block_old fsz _ v cn L Hcn c0 ch j Hch Hj) as (A & B). exact (Hframe j A B). }
  set (B := cluster_first_block v cn) in *.
  assert (Ecbs : cbs = B :: PrOrder.blocks_from (N.to_nat (v_spc v) - 1) (B + 1)) by (apply PrBounds.cluster_blocks_cons; lia).
  assert (HB : In B cbs) by (rewrite Ecbs; left; reflexivity).
  assert (HzB : disk_get (s_disk sa) B = zero_block) by exact (Hzero B HB).
  assert (Hnone_a : find (t_matches sfn) (live_in_blocks (s_disk sa) bla') = None).
  { rewrite Ebla, live_in_blocks_app, find_app_first, (live_ext _ _ bl' Hbl'same), Hfind.
    rewrite (all_end_live _ cbs (zero_blocks_all_end _ cbs Hzero)). reflexivity. }
  assert (Hfree_a : find nv (slots_of (s_disk sa) bla') = Some (B, 0 * 32, slot zero_block 0)).
  { rewrite Ebla, slots_of_app, find_app_first, (slots_of_ext _ _ bl' Hbl'same), Hfreenone.
    rewrite Ecbs, slots_of_cons, find_app_first, (proj2 (zero_block_slots _ B HzB)). reflexivity. }
  unfold create_post in Hpost. cbv zeta in Hpost. destruct Hpost as (Een & Hd2 & Hc2 & Hnf2 & Hclk2 & Htab2 & _).
  fold B in Een, Hd2. rewrite HzB in Hd2.
  set (ct := clock_ts (s_clock sa)) in *.
  assert (Hsw : slot_write (s_disk sa) (s_disk s2) B 0 (ser_bytes (v_fat32 v) (mk_dirent sfn ct ct 0 CL_EMPTY 0 B (0 * 32)))).
  { destruct (put_entry_slots (v_fat32 v) (mk_dirent sfn ct ct 0 CL_EMPTY 0 B (0 * 32)) zero_block eq_refl (proj1 Hwf)
                ltac:(cbn [e_offset]; lia) ltac:(cbn [e_offset]; lia)) as (_ & Hslot & Hothr & _ & _).
    cbn [e_offset] in Hslot, Hothr. replace (0 * 32 / 32) with 0 in Hslot, Hothr by lia.
    split; [intros j Hj; rewrite Hd2; apply disk_get_set_other; congruence|].
    rewrite Hd2, disk_get_set_same. split; [exact Hslot|]. intros k Hk. rewrite HzB. exact (Hothr k Hk). }
  destruct (create_disk_agree fsz (s_disk sa) (s_disk s2) v bl_a rch_a T_a (pend_of s0 v) dc bla' para kidsa sfn B 0 _ ct
              Hdiska Hlay (fi_dev _ _ _ _ _ _ _ _ Hat0) Hctxa Hwf He5 Hdot Hnone_a Hfree_a Hsw)
    as (T' & Hdisk2 & FA2 & DA2 & Hin2 & Hpos2 & _ & _ & Ec2 & Es2 & Eb2 & Eo2 & En2 & Ea2 & Ect2 & Emt2).
  pose proof Htab2 as (X1 & X2 & X3 & X4 & X5 & _).
  pose proof Hprea as ((_ & _ & Hvia & _) & La & Hha).
  assert (HoffB : off_fat v fsz B) by exact (cluster_block_off_fat fsz v cn B L (proj1 Hcn) HB).
  assert (HnfatB : ~ fat_area v B) by exact (off_fat_not_area fsz v B L HoffB).
  pose proof (slot_write_fat _ _ v B 0 _ Hsw HnfatB) as Hfat2.
  assert (Evols_a : s_vols sa = [v2]).
  { destruct (ae_vol _ _ _ _ _ _ _ _ Heff) as (nf0 & Evols & _). rewrite Evols, Ev0 in *. cbn [list_set nth_error] in *.
    injection Hvia as <-. reflexivity. }
  subst en.
  assert (Eid : s_next_id s2 = s_next_id s0) by (rewrite X4; exact A3).
  rewrite Eid in Hinv' |- *.
  set (en := mk_dirent sfn ct ct 0 CL_EMPTY 0 B (0 * 32)) in *.
  set (nf := mk_fileinfo (s_next_id s0) (d_vol dd) 0 (e_cluster en) 0 ReadWriteCreate en false) in *.
  set (s5 := set_s_files (set_s_next_id s2 ((s_next_id s0 + 1) mod U32)) (s_files s2 ++ [nf])) in *.
  assert (Hd5 : s_disk s5 = s_disk s2) by reflexivity.
  assert (Hfiles5 : s_files s5 = s_files s0 ++ [nf]) by (unfold s5; cbn [s_files set_s_files]; rewrite X3, A2; reflexivity).
  assert (Hvols5 : s_vols s5 = [v2]) by (unfold s5; cbn [s_vols set_s_files set_s_next_id]; rewrite X1; exact Evols_a).
  pose proof (disk_inv_geo _ v v2 _ _ _ _ G Hdisk2) as Hdisk5. rewrite <- Hd5 in Hdisk5.
  destruct (fs_inv_at_of fsz vid s5 v2 bl_a rch_a T' Hinv' Hvols5 (di_root _ _ _ _ _ _ Hdisk5) (di_tree _ _ _ _ _ _ Hdisk5)) as (vi5 & Hat5).
  assert (Hcalm0 : calm s s0) by exact (calm_trans _ _ _ (calm_ro _ _ Hro) (calm_ro _ _ (proj1 Hq0))).
  (* a block of a chain of the old FAT, of the old root: untouched by the allocation and by the slot write *)
  assert (Hold2 : forall j, off_fat v fsz j -> ~ In j cbs -> disk_get (s_disk s2) j = disk_get (s_disk s0) j).
  { intros j Q1 Q2. rewrite <- (Hframe _ Q1 Q2). apply (proj1 Hsw). intros Ej. apply Q2. rewrite Ej. exact HB. }
  apply (create_end fsz vid s s0 s5 vi5 v v2 bl rch bl_a rch_a T T' name sfn md B 0 ct (d_vol dd)
           Hat0 Hat5 Hcalm0 Hfresh ltac:(rewrite O4; exact M4)
           ltac:(unfold ct; rewrite A4, O5, M5; reflexivity) G Hsfn Hcr Hfiles5
           (files_agree_trans _ _ _ _ (FAa (B, 0 * 32)) FA2) Hin2 ltac:(rewrite <- Hpos_a; exact Hpos2)).
  - repeat (split; [assumption|]). assumption.
  - constructor.
    + intros h0 ch0 Hfh _ Hch0. rewrite Hd5. apply (chain_at_ext _ _ v _ _ Hfat2).
      apply (Hoth _ _ (file_head_in v T _ h0 Hfh)); [|exact Hch0].
      intros Eq. rewrite Eq in Hfh. exact (file_head_not_dirhead _ v bl rch T _ c0 Hdisk0 Hfh Hc0head).
    + intros h0 ch0 j Hfh _ Hch0 Hj. rewrite Hd5.
      destruct (chain_block_old fsz _ v cn L Hcn h0 ch0 j Hch0 Hj) as (Q1 & Q2). exact (Hold2 j Q1 Q2).
  - unfold obs_at.
    apply (dirs_slot_intro true (B, 0 * 32) dc bl' cbs (ser_bytes (v_fat32 v) en) (slots_of (s_disk sa) cbs)
             (s_disk s0) (s_disk s5) v bl T v2 bl_a T').
    + exact (dget_dblocks fsz vid s0 0%nat v bl rch T Hat0 _ bl' chd Hdirdc).
    + apply (dget_transfer fsz vid s0 0%nat v bl rch T s5 vi5 v2 bl_a rch_a T' (fun c b => if c =? dc then b ++ cbs else b) Hat0 Hat5).
      * intros c bld chd0 H0. destruct (Dfw c bld chd0 H0) as (chd1 & H1). exists chd1.
        exact (is_dir_of_geo v v2 _ _ _ _ _ _ G (is_dir_of_agree v bl_a rch_a T_a T' c _ chd1 DA2 H1)).
      * intros c bld1 chd1 H1.
        exact (Dbw c bld1 chd1 (is_dir_of_agree v bl_a rch_a T' T_a c bld1 chd1 (dirs_agree_sym _ _ DA2)
                                  (is_dir_of_geo v2 v _ _ _ _ _ _ (geo_eq_sym' _ _ G) H1))).
    + rewrite Hd5, (slots_of_upd (s_disk sa) (s_disk s2) B 0 _ (bl' ++ cbs) Hsw), slots_of_app, (slots_of_ext _ _ bl' Hbl'same).
      reflexivity.
    + rewrite map_app. apply in_or_app. right. apply in_map_iff. exists (B, 0 * 32, slot zero_block 0). split; [reflexivity|].
      rewrite Ecbs, slots_of_cons. apply in_or_app. left.
      exact (proj1 (find_some _ _ (proj2 (zero_block_slots _ B HzB)))).
    + exact (zero_slots _ cbs Hzero).
    + discriminate.
    + intros c b0 Hc Hgc. destruct (dget_dblocks_inv v bl rch T c b0 Hgc) as (chdc & Hdc).
      rewrite Hd5. apply slots_of_ext. intros j Hj.
      assert (Hq : off_fat v fsz j /\ ~ In j cbs).
      { destruct Hdc as [(_ & -> & _)|(e1 & k1 & Hn1 & _ & ->)].
        - exact (root_block_old fsz _ v bl rch T _ dc c0 ch cn Hdisk0 L Hlay Hhead Hcn j Hj).
        - destruct (dir_node_chain _ v bl rch T _ Hdisk0 e1 chdc k1 Hn1) as (C1 & _).
          exact (chain_block_old fsz _ v cn L Hcn _ _ j C1 Hj). }
      exact (Hold2 j (proj1 Hq) (proj2 Hq)).
Qed.

(* ================================================================== 5. OpenFile, every mode, every outcome *)
Theorem content_OpenFile fsz vid h name md : step_content fsz vid (OpenFile h name md).
Proof.
  intros s r s' a Hinv Hfresh Hk Hs Ho. cbn [content_rel].
  destruct (step_ok_OpenFile fsz vid h name md s r s' Hinv Hfresh Hk Hs) as (_ & _ & Hinv' & _).
  destruct Hk as (_ & Hname). pose proof (fs_inv_lock fsz vid s Hinv) as Hl.
  cbn [op_name_ok] in Hname.
  pose proof Ho as (vi & v & bl & rch & T & Hat & Ea). subst a.
  assert (Hsame : forall e, r = Err e -> s' = s ->
            exists a', observes fsz vid s' a' /\ open_content name md (s_clock s) r (obs_at s v bl T) a').
  { intros e -> ->. exact (open_refused_content fsz vid s s _ name md e Ho Hinv (calm_refl s)). }
  destruct (dir_resolve _ _ _ _ _ _ _ _ h Hat) as [Hno|di dd H1 H2 Hne H3|di dd Hres Hvol Hdir Hdd].
  { destruct (PrHandles.C08_stale_dir_handle h s Hl Hno) as (_ & _ & _ & _ & _ & _ & E1). rewrite (E1 name md) in Hs.
    injection Hs as <- <-. exact (Hsame _ eq_refl eq_refl). }
  { cbn [step] in Hs.
    assert (E : exists e, open_file_in_dir h name md s = (Err e, s)).
    { unfold open_file_in_dir. rewrite (PrHandles.locked_free _ s Hl), PrHandles.bind_get.
      destruct (is_full (s_files s) (s_maxf s)); [eexists; reflexivity|].
      exists BadHandle. rewrite (bind_ok _ _ _ _ _ H1), (bind_ok _ _ _ _ _ H2). cbv zeta. apply bind_err. exact H3. }
    destruct E as (e & E). rewrite (lift_err' _ _ _ _ _ E) in Hs. injection Hs as <- <-. exact (Hsame _ eq_refl eq_refl). }
  pose proof Hs as Hs0. cbn [step] in Hs.
  destruct (is_full (s_files s) (s_maxf s)) eqn:Hroom.
  { assert (E : open_file_in_dir h name md s = (Err TooManyOpenFiles, s)).
    { unfold open_file_in_dir. rewrite (PrHandles.locked_free _ s Hl), PrHandles.bind_get, Hroom. reflexivity. }
    rewrite (lift_err' _ _ _ _ _ E) in Hs. injection Hs as <- <-. exact (Hsame _ eq_refl eq_refl). }
  unfold e5_name in Hname.
  destruct (sfn_of_str name) as [sfn|] eqn:Hsfn.
  2:{ assert (E : open_file_in_dir h name md s = (Err FilenameError, s)).
      { unfold open_file_in_dir. PrModes.open_prefix Hres Hroom Hsfn. reflexivity. }
      rewrite (lift_err' _ _ _ _ _ E) in Hs. injection Hs as <- <-. exact (Hsame _ eq_refl eq_refl). }
  apply N.eqb_neq in Hname.
  destruct (PrModes.dot_name sfn) eqn:Hdot.
  { rewrite (lift_err' _ _ _ _ _ (PrModes.C07_open_dot_name s h di dd 0%nat v name sfn md Hres Hroom Hsfn Hdot)) in Hs.
    injection Hs as <- <-. exact (Hsame _ eq_refl eq_refl). }
  destruct (find_run _ _ _ _ _ _ _ _ (d_cluster dd) sfn Hat Hdir) as (bl' & parent & kids & s1 & Hctx & Hrun & Hro & Hrd).
  pose proof (mk_open_ctx fsz vid s vi v bl rch T h name di dd sfn bl' parent kids s1
                Hat Hfresh Hres Hvol Hroom Hsfn Hname Hdot Hctx Hrun Hro Hrd) as Hoc.
  destruct (find (t_matches sfn) (live_in_blocks (s_disk s) bl')) as [t|] eqn:Hfind.
  - destruct (PrModes.open_refusal md (Ok (t_entry (v_fat32 v) t)) (PrModes.is_open s1 (d_vol dd) (t_entry (v_fat32 v) t)))
      as [er|] eqn:Href.
    + (* refused after the lookup: opened as directory, already open, read-only file, exists *)
      pose proof (PrModes.C07_open_refusals s h di dd 0%nat v name sfn md _ s1 er Hres Hroom Hsfn Hdot Hrun Href) as E.
      rewrite (lift_err' _ _ _ _ _ E) in Hs. injection Hs as <- <-.
      exact (open_refused_content fsz vid s s1 _ name md er Ho Hinv' (calm_ro _ _ Hro)).
    + destruct (refusal_none_ok _ _ _ Href) as (_ & _ & Hncr).
      assert (Hcases : (md = ReadOnly \/ md = ReadWriteAppend \/ md = ReadWriteCreateOrAppend) \/
                       (md = ReadWriteTruncate \/ md = ReadWriteCreateOrTruncate))
        by (destruct md; try discriminate Hncr; auto).
      destruct Hcases as [Hmd|Hmd].
      * exact (open_keep_content _ _ _ _ _ _ _ _ _ _ _ _ _ _ _ _ _ md t r s' Hoc Hfind Href Hmd Hinv' Hs0).
      * exact (open_trunc_content _ _ _ _ _ _ _ _ _ _ _ _ _ _ _ _ _ md t r s' Hoc Hfind Href Hmd Hinv' Hs0).
  - destruct (creating md) eqn:Hcr.
    2:{ assert (Href : PrModes.open_refusal md (Err NotFound) (PrModes.found_open s1 (d_vol dd) (Err NotFound)) = Some NotFound)
          by (cbn [PrModes.open_refusal]; rewrite Hcr; reflexivity).
        pose proof (PrModes.C07_open_refusals s h di dd 0%nat v name sfn md _ s1 NotFound Hres Hroom Hsfn Hdot Hrun Href) as E.
        rewrite (lift_err' _ _ _ _ _ E) in Hs. injection Hs as <- <-.
        exact (open_refused_content fsz vid s s1 _ name md NotFound Ho Hinv' (calm_ro _ _ Hro)). }
    pose proof (open_create_run _ _ _ _ _ _ _ _ _ _ _ _ _ _ _ _ _ md Hoc Hfind Hcr) as E.
    pose proof (go_ro _ _ _ _ _ _ _ _ _ Hat Hro) as Hat1.
    destruct (go_facts _ _ _ _ _ _ _ _ Hat1) as (_ & _ & _ & _ & E0 & _ & _ & _ & Hwf1 & _). subst vi.
    pose proof (fi_vol _ _ _ _ _ _ _ _ Hat1) as (_ & Hpre1 & _ & Hspc & _).
    assert (Hbl1 : dir_blocks (s_disk s1) v (d_cluster dd) = Some bl') by (rewrite (proj1 Hro); exact (dx_blocks _ _ _ _ _ _ _ _ Hctx)).
    destruct (create_run fsz 0%nat v (d_cluster dd) sfn 0 CL_EMPTY s1 bl' Hpre1 Hspc Hwf1 Hbl1 (proj1 (sfn_of_str_wf _ _ Hsfn)))
      as (o & s2 & Hw & Hcres).
    destruct Hcres as [blk off sl0 s2 Hfree en Hd2 Hsw Hc2 Hnf2 Htab|s2 Hfree Hq2 _|ch s0 cn sa en s2 Hfree Hch Ebl Hq0 Hpre0 Hal Hpost].
    + exact (open_create_slot_content _ _ _ _ _ _ _ _ _ _ _ _ _ _ _ _ _ md blk off sl0 s2 r s' Hoc Hfind Hcr Hfree Hw Hsw Htab Hinv' Hs0).
    + (* the directory is full and cannot grow (FAT16 root), or the volume is full: NotEnoughSpace, nothing written *)
      rewrite Hw in E. rewrite (lift_err' _ _ _ _ _ E) in Hs. injection Hs as <- <-.
      exact (open_refused_content fsz vid s s2 _ name md NotEnoughSpace Ho Hinv'
               (calm_trans _ _ _ (calm_ro _ _ Hro) (calm_ro _ _ (proj1 Hq2)))).
    + exact (open_create_grow_content _ _ _ _ _ _ _ _ _ _ _ _ _ _ _ _ _ md ch s0 cn sa en s2 r s' Hoc Hfind Hcr Hfree Hch Ebl Hq0 Hpre0 Hal Hpost Hw Hinv' Hs0).
Qed.

(* ================================================================== 6. the hypotheses are satisfiable *)
(* PrGlobalDef's example state (FAT16; root: A, D, B; D: C; B open; the root and D open as
   directories 5 and 9): every OpenFile through any handle, with any name and mode, relates the
   observations as open_content says; concrete runs below reach the keeping, the truncating and the
   creating case and three refusals *)
Example content_OpenFile_applies : forall d name md, e5_name name = false -> forall r s' a,
  step (OpenFile d name md) gx_state = (r, s') -> observes 1 0 gx_state a ->
  exists a', observes 1 0 s' a' /\ open_content name md (s_clock gx_state) r a a'.
Proof.
  intros d name md Hn r s' a Hs Ho.
  exact (content_OpenFile 1 0 d name md gx_state r s' a (proj1 fs_inv_example) gx_fresh (conj (conj I I) Hn) Hs Ho).
Qed.

Print Assumptions trunc_disk_agree.
Print Assumptions create_disk_agree.
Print Assumptions grow_disk_explicit.
Print Assumptions open_trunc_content.
Print Assumptions open_create_slot_content.
Print Assumptions open_create_grow_content.
Print Assumptions content_OpenFile.
Print Assumptions content_OpenFile_applies.
