(* PROOFS: C10 / C09 for OpenFile, part 2: the runs.  For every run of open_file_in_dir from a
   state of the invariant and every crashed medium d' of it (keeps_tree): d' carries a
   crash-sound tree T' (crash_inv_at, explicit lost chains) in which every file node of the old
   tree T that is not the file the call truncates is found at the same path with the same entry,
   and the data blocks of that node are unchanged.
   1  the predicate keeps_tree, what it yields (crash_inv, file_on_medium), one logged write
   2  the truncating open
   (the creating open and the assembly: PrCrashOpen3.v) *)
From Coq Require Import NArith ZArith List Bool Lia Arith ZifyClasses ZifyInst Zify FMapPositive Permutation.
From SdFs Require Import FsTypes FsBase FsFat FsMgr FsLemmas PrBase PrFat PrAlloc PrDir PrSeek PrAllocEffect
  PrRw PrWrite PrFileSeq PrMulti PrEntry PrChain PrCount PrWf PrOpenClose PrGlobalDef PrGlobalWrite PrGlobalOpen PrGlobalOpen2.
From SdFs Require PrModes PrHandles PrBounds PrOrder.
From SdFs Require Import PrCrash PrCrashDef PrCrashDef2 PrCrashDef3 PrCrashDef4 PrCrashOpen.
Import ListNotations.
Open Scope N_scope.
Local Arguments N.mul : simpl never.
Local Arguments N.add : simpl never.
Local Arguments N.sub : simpl never.
Local Arguments N.div : simpl never.
Local Arguments N.modulo : simpl never.
Local Arguments N.land : simpl never.
Local Arguments N.lor : simpl never.
Local Arguments N.min : simpl never.
Local Arguments N.max : simpl never.
Local Ltac Zify.zify_post_hook ::= Z.to_euclidean_division_equations.

(* ================================================================== 1. the goal for one crashed medium *)
(* d: the medium before the call, T its tree; tgt: the slot positions the call may change *)
Definition keeps_tree (v : vol) (d : disk) (T : list node) (tgt : N * N -> Prop) (d' : disk) : Prop :=
  exists bl' rch' T' lost', crash_inv_at d' v bl' rch' T' lost' /\
    forall path e ch, node_at T path (NFile e ch) -> ~ tgt (node_pos (NFile e ch)) ->
      node_at T' path (NFile e ch) /\ forall j, In j (data_blocks v ch) -> disk_get d' j = disk_get d j.

Lemma keeps_tree_same v d bl rch T lost tgt : crash_inv_at d v bl rch T lost -> keeps_tree v d T tgt d.
Proof. intros H. exists bl, rch, T, lost. split; [exact H|]. intros path e ch Hn _. split; [exact Hn|reflexivity]. Qed.

(* what it yields: the crash invariant (C10) and the untouched files (C09) *)
Lemma keeps_tree_post fsz v d bl rch T lost tgt d' : crash_vol fsz v -> crash_inv_at d v bl rch T lost ->
  keeps_tree v d T tgt d' ->
  crash_inv fsz v d' /\
  forall path e bytes, file_on_medium d v path e bytes -> ~ tgt (e_block e, e_offset e) -> file_on_medium d' v path e bytes.
Proof.
  intros Hv H (bl' & rch' & T' & lost' & H' & Hk). split.
  - split; [exact Hv|]. exists bl', rch', T', lost'. exact H'.
  - intros path e bytes Hf Hnt. pose proof Hf as Hf0.
    apply (file_on_medium_tree d v bl rch T lost path e bytes H) in Hf. destruct Hf as (ch & Hn & _).
    destruct (Hk path e ch Hn Hnt) as (Hn' & Hd).
    exact (file_on_medium_keep d d' v bl rch T lost bl' rch' T' lost' path e ch H Hn H' Hn' Hd bytes Hf0).
Qed.

(* ---- device-log bookkeeping ---- *)
Lemma reads_dwr_nil l : Forall PrModes.is_read_call l -> dwr l = [].
Proof.
  induction 1 as [|c l Hc _ IH]; [reflexivity|]. destruct c; cbn [PrModes.is_read_call] in Hc; try contradiction; exact IH.
Qed.

(* a read-only prefix of the run *)
Lemma reads_only_tr_ext s s1 : PrModes.reads_only s s1 -> tr_ext s s1 [].
Proof.
  intros (_ & Hd & l & Et & Hl). exists l. split; [exact Et|]. rewrite (reads_dwr_nil l Hl). split; [reflexivity|exact Hd].
Qed.

(* some reads, then one write *)
Lemma tr_ext_reads_write s s' i b l : s_trace s' = DWrite i b :: l ++ s_trace s -> Forall PrModes.is_read_call l ->
  s_disk s' = disk_set (s_disk s) i b -> tr_ext s s' [(i, b)].
Proof.
  intros Et Hl Hd. exists (DWrite i b :: l). split; [exact Et|]. cbn [dwr]. rewrite (reads_dwr_nil l Hl).
  split; [reflexivity|exact Hd].
Qed.

Lemma tsteps_nil_tr_ext s s' : PrOrder.tsteps s s' [] -> s_disk s' = s_disk s -> tr_ext s s' [].
Proof. intros H Hd. pose proof (traced_tr_ext s s' (tsteps_nil_traced s s' H Hd)) as X. rewrite (tsteps_nil_writes s s' H) in X. exact X. Qed.

(* a step that leaves the log and the medium alone *)
Lemma same_tr_ext s s' : s_trace s' = s_trace s -> s_disk s' = s_disk s -> tr_ext s s' [].
Proof. intros Et Ed. exists []. split; [exact Et|]. split; [reflexivity|exact Ed]. Qed.

(* every crashed medium of a run without writes *)
Lemma crash_all_nil (P : disk -> Prop) s s' : tr_ext s s' [] -> P (s_disk s) -> crash_all P s s'.
Proof. intros H HP. apply crash_all_quiet; [exact (tr_ext_step_writes s s' [] H)|exact HP]. Qed.

(* the directory handle names the record dd *)
Lemma resolves_dir_id s h di dd vi v : PrModes.resolves s h di dd vi v -> d_id dd = h /\ In dd (s_dirs s).
Proof.
  intros (_ & H1 & H2 & _). unfold get_dir_by_id in H1. rewrite PrHandles.bind_get in H1.
  unfold get_dir in H2. rewrite PrHandles.bind_get in H2.
  destruct (find_idx (fun d => d_id d =? h) (s_dirs s) 0) as [j|] eqn:Ef; [|discriminate H1].
  injection H1 as ->. destruct (nth_error (s_dirs s) di) as [x|] eqn:En; [|discriminate H2]. injection H2 as ->.
  destruct (PrHandles.find_idx_some _ _ _ _ Ef) as (_ & _ & x & Hx & Hp). rewrite Nat.sub_0_r, En in Hx. injection Hx as <-.
  split; [apply N.eqb_eq; exact Hp|exact (nth_error_In _ _ En)].
Qed.

(* ---- a data block of a file is no directory block ---- *)
Lemma file_block_not_dir fsz d v bl rch T pend e ch j : disk_inv d v bl rch T pend ->
  PrBounds.part_layout v (v_nblocks v) fsz ->
  In (NFile e ch) (all_nodes T) -> In j (data_blocks v ch) -> ~ In j (tree_dir_blocks v bl T).
Proof.
  intros Hinv PL Hin Hj Hdir.
  pose proof (di_wf _ _ _ _ _ _ Hinv) as W.
  destruct (heads_nodup v T pend (wf_heads _ _ _ W)) as (N1 & N2 & N3 & N4).
  destruct (node_chain_head d v bl T (di_tree _ _ _ _ _ _ Hinv) _ Hin) as [(A & _)|(h & A & Eh & B)].
  { cbn [node_chain] in A. subst ch. destruct Hj. }
  cbn [node_chain node_entry] in Eh, B. subst h.
  assert (Ho : In (e_cluster e) (own_head (NFile e ch))) by (rewrite A; left; reflexivity).
  assert (Hh : In (e_cluster e) (heads v T ++ pend)) by exact (node_head_in v T pend _ _ Hin Ho).
  destruct (tree_dir_blocks_inv v bl T j Hdir) as [Hb|(e0 & ch0 & kids0 & H0 & Hb)].
  - pose proof (di_root _ _ _ _ _ _ Hinv) as Hroot. unfold root_dir in Hroot. destruct (v_fat32 v) eqn:E32.
    + destruct Hroot as (Hc & ->).
      assert (Hr : In (v_root_cluster v) (root_heads v)) by (unfold root_heads; rewrite E32; left; reflexivity).
      assert (Hrh : In (v_root_cluster v) (heads v T ++ pend)) by (apply in_or_app; left; unfold heads; apply in_or_app; left; exact Hr).
      pose proof (chain_blocks_apart d v _ _ _ _ _ j W Hh Hrh B Hc Hj Hb) as Eq.
      apply (proj1 (N3 _ Hr)). rewrite <- Eq. exact (own_head_in T _ _ Hin Ho).
    + destruct Hroot as (_ & ->). unfold data_blocks in Hj. apply in_flat_map in Hj. destruct Hj as (x & Hx & Hj).
      destruct (chain_at_mem _ _ _ _ x B Hx) as (X1 & _).
      exact (root16_no_cluster' v _ fsz j x PL E32 Hb X1 Hj).
  - destruct (dir_node_chain d v bl rch T pend Hinv e0 ch0 kids0 H0) as (Hc0 & Hh0 & _).
    pose proof (chain_blocks_apart d v _ _ _ _ _ j W Hh Hh0 B Hc0 Hj Hb) as Eq.
    assert (Ho0 : In (e_cluster e) (own_head (NDir e0 ch0 kids0))) by (left; symmetry; exact Eq).
    discriminate (flat_map_owner own_head _ N1 _ _ _ Hin H0 Ho Ho0).
Qed.

(* a data block of a file lies outside both FAT copies *)
Lemma file_block_off_fat fsz d v bl T e ch j : fat_layout v fsz -> tree_rep d v bl T ->
  In (NFile e ch) (all_nodes T) -> In j (data_blocks v ch) -> off_fat v fsz j.
Proof.
  intros L HT Hin Hj. destruct (node_chain_head d v bl T HT _ Hin) as [(A & _)|(h & _ & _ & B)].
  - cbn [node_chain] in A. subst ch. destruct Hj.
  - exact (chain_blocks_off_fat fsz d v _ _ j L B Hj).
Qed.

(* ================================================================== 2. the truncating open *)
(* PrGlobalOpen2.trunc_disk with the tree it builds: the slot of the file node is rewritten
   (TA), then - when the file had a chain - the chain is cut *)
Section TruncDiskX.
  Variables (fsz : N) (d d2 : disk) (v : vol) (bl rch : list N) (T : list node) (pend : list N)
            (e : dirent) (ch : list N) (e' : dirent).
  Hypothesis Hinv : disk_inv d v bl rch T pend.
  Hypothesis Hwf : blocks_wf d.
  Hypothesis L : fat_layout v fsz.
  Hypothesis Hfit : clusters_fit v.
  Hypothesis Hin : In (NFile e ch) (all_nodes T).
  Hypothesis Hoff : off_fat v fsz (e_block e).
  Hypothesis Hdirblocks : forall j, In j (tree_dir_blocks v bl T) -> off_fat v fsz j.
  Hypothesis Ename : e_name e' = e_name e.
  Hypothesis Eattr : e_attr e' = e_attr e.
  Hypothesis Ecl : e_cluster e' = e_cluster e.
  Hypothesis Eblk : e_block e' = e_block e.
  Hypothesis Eofs : e_offset e' = e_offset e.
  Hypothesis Esize : e_size e' = 0.
  Hypothesis F4 : forall j, off_fat v fsz j -> disk_get d2 j = disk_get d j.
  Hypothesis Hcase :
    (e_cluster e < 2 /\ d2 = d) \/
    (2 <= e_cluster e /\ fat_wf d2 v (heads v T ++ pend) /\
     (forall h2 ch2, In h2 (heads v T ++ pend) -> h2 <> e_cluster e -> chain_at d v h2 ch2 -> chain_at d2 v h2 ch2) /\
     chain_at d2 v (e_cluster e) [e_cluster e]).

  Local Notation blk := (e_block e).
  Local Notation c := (e_cluster e).
  Local Notation d4 := (disk_set d2 blk (put_entry (v_fat32 v) e' (disk_get d2 blk))).
  Local Notation e2 := (t_entry (v_fat32 v) (blk, e_offset e, ser_bytes (v_fat32 v) e')).
  Local Notation p := (node_pos (NFile e ch)).

  Theorem trunc_disk_x : exists T',
    disk_inv d4 v bl rch T' pend /\
    (forall path e0 ch0, node_at T path (NFile e0 ch0) -> node_pos (NFile e0 ch0) <> p -> node_at T' path (NFile e0 ch0)) /\
    (forall j, off_fat v fsz j -> j <> blk -> disk_get d4 j = disk_get d j).
  Proof.
    assert (Esz : e_size e' <= N.of_nat (length ch) * bytes_per_cluster v /\ e_size e' < U32)
      by (rewrite Esize; unfold U32; split; lia).
    destruct (go_disk_inv_rewrite fsz d v bl rch T pend e ch e' Hinv Hwf L Hfit Hin Hoff Ename Eattr Ecl Eblk Eofs Esz)
      as (HinvA & Hsw & HwfA & HinA & Ec2 & Es2 & Eb2 & Eo2 & En2 & Ea2 & HmapA).
    set (dA := disk_set d blk (put_entry (v_fat32 v) e' (disk_get d blk))) in *.
    set (TA := forest_replace p (NFile e2 ch) T) in *.
    rewrite Esize in Es2.
    assert (Hnfat : ~ fat_area v blk) by exact (off_fat_not_area fsz v blk L Hoff).
    assert (HatA : forall path e0 ch0, node_at T path (NFile e0 ch0) -> node_pos (NFile e0 ch0) <> p ->
              node_at TA path (NFile e0 ch0)).
    { intros path e0 ch0 Hat Hne. apply (node_at_replace p (NFile e2 ch) T path e0 ch0 (di_pos _ _ _ _ _ _ Hinv)); [|exact Hat|exact Hne].
      exists (NFile e ch). split; [exact Hin|]. split; reflexivity. }
    assert (Hfr : forall j, off_fat v fsz j -> j <> blk -> disk_get d4 j = disk_get d j).
    { intros j Hj Hne. rewrite disk_get_set_other by congruence. exact (F4 j Hj). }
    destruct Hcase as [(Hc & ->)|(Hc & W2 & Hkeep2 & Hnew2)].
    - exists TA. split; [exact HinvA|]. split; [exact HatA|exact Hfr].
    - assert (Eb : disk_get d2 blk = disk_get d blk) by exact (F4 blk Hoff).
      rewrite Eb in *.
      set (NB := put_entry (v_fat32 v) e' (disk_get d blk)) in *.
      assert (H4A : forall j, off_fat v fsz j -> disk_get (disk_set d2 blk NB) j = disk_get dA j).
      { intros j Hj. unfold dA. destruct (N.eq_dec j blk) as [->|Hne]; [rewrite !disk_get_set_same; reflexivity|].
        rewrite !disk_get_set_other by congruence. exact (F4 j Hj). }
      assert (Hfat42 : forall j, fat_area v j -> disk_get (disk_set d2 blk NB) j = disk_get d2 j)
        by (intros j Hj; apply disk_get_set_other; intros E; rewrite <- E in Hj; exact (Hnfat Hj)).
      assert (HfatA : forall j, fat_area v j -> disk_get dA j = disk_get d j)
        by (intros j Hj; apply disk_get_set_other; intros E; rewrite <- E in Hj; exact (Hnfat Hj)).
      assert (HfatA' : forall j, fat_area v j -> disk_get d j = disk_get dA j) by (intros j Hj; symmetry; exact (HfatA j Hj)).
      assert (Hu : forall m, In m (all_nodes T) -> node_pos m = p -> m = NFile e ch)
        by (intros m Hm Hpm; apply (pos_unique _ _ _ (di_pos _ _ _ _ _ _ Hinv) Hm Hin); exact Hpm).
      pose proof (heads_replace_perm p (NFile e2 ch) eq_refl v T (NFile e ch) (di_pos _ _ _ _ _ _ Hinv) Hin eq_refl eq_refl Hu) as P.
      assert (Hown : own_head (NFile e2 ch) = own_head (NFile e ch)) by (cbn [own_head]; rewrite Ec2; reflexivity).
      rewrite Hown in P. apply Permutation_app_inv_l in P. fold TA in P.
      assert (PA : Permutation (heads v TA ++ pend) (heads v T ++ pend)) by (apply Permutation_app_tail; exact P).
      assert (Hkeep4 : forall h2 ch2, In h2 (heads v T ++ pend) -> h2 <> c -> chain_at d v h2 ch2 ->
                chain_at (disk_set d2 blk NB) v h2 ch2).
      { intros h2 ch2 Hh Hne H. apply (chain_at_ext d2 _ v _ _ Hfat42). exact (Hkeep2 h2 ch2 Hh Hne H). }
      assert (Hnew4 : chain_at (disk_set d2 blk NB) v c [c]) by exact (chain_at_ext d2 _ v _ _ Hfat42 Hnew2).
      assert (Hpos2 : node_pos (NFile e2 ch) = p) by (unfold node_pos; cbn [node_entry]; rewrite Eb2, Eo2; reflexivity).
      pose proof (go_disk_inv_cut dA (disk_set d2 blk NB) v bl rch TA pend e2 ch HinvA) as Cut.
      rewrite Hpos2, Ec2 in Cut.
      exists (forest_replace p (NFile e2 [c]) TA).
      split; [|split; [|exact Hfr]].
      + apply Cut.
        * intros j Hj. apply H4A. apply Hdirblocks. unfold tree_dir_blocks. apply in_or_app. left. exact Hj.
        * intros e0 ch0 kids0 H0 j Hj. apply H4A.
          destruct (all_nodes_rep dA v bl TA (di_tree _ _ _ _ _ _ HinvA) _ H0) as (t & bl0 & Hr & _).
          apply node_rep_dir in Hr. destruct Hr as (_ & _ & Hc0 & _).
          exact (chain_blocks_off_fat fsz dA v _ _ j L Hc0 Hj).
        * exact HinA.
        * exact Hc.
        * exact Hnew4.
        * intros h2 ch2 Hh Hne H. apply (Hkeep4 h2 ch2 (Permutation_in _ PA Hh) Hne).
          exact (chain_at_ext dA d v _ _ HfatA' H).
        * apply (fat_wf_perm _ v (heads v T ++ pend)); [apply Permutation_sym; exact PA|].
          exact (fat_wf_ext d2 _ v _ Hfat42 W2).
        * rewrite Es2. lia.
        * rewrite Es2. unfold U32. lia.
      + intros path e0 ch0 Hat Hne.
        apply (node_at_replace p (NFile e2 [c]) TA path e0 ch0 (di_pos _ _ _ _ _ _ HinvA)); [|exact (HatA path e0 ch0 Hat Hne)|exact Hne].
        exists (NFile e2 ch). split; [exact HinA|]. split; [exact Hpos2|reflexivity].
  Qed.
End TruncDiskX.

(* the slot the call may change: the one the lookup found *)
Definition slot_of (e : dirent) (q : N * N) : Prop := q = (e_block e, e_offset e).

(* ---- truncate_cluster_chain on the chain of a file node: every crashed medium ---- *)
Lemma trunc_crash fsz vid s vi v bl rch T e ch : fs_inv_at fsz vid s vi v bl rch T ->
  In (NFile e ch) (all_nodes T) -> forall s2, truncate_cluster_chain vi (e_cluster e) s = (Ok tt, s2) ->
  traced s s2 /\ crash_all (keeps_tree v (s_disk s) T (slot_of e)) s s2.
Proof.
  intros Hinv Hin s2 Htr.
  destruct (go_facts _ _ _ _ _ _ _ _ Hinv) as (Hl & Hnf & Hc & Ev & E0 & Hv0 & Hv & L & Hwf & _). subst vi.
  pose proof (fi_vol _ _ _ _ _ _ _ _ Hinv) as (_ & Hpre & _). pose proof Hpre as (Hst & _).
  pose proof (fi_disk _ _ _ _ _ _ _ _ Hinv) as Hdisk.
  pose proof (fi_layout _ _ _ _ _ _ _ _ Hinv) as PL.
  pose proof (tm_truncate_cluster_chain _ _ _ _ _ Htr) as Tr. split; [exact Tr|].
  pose proof (keeps_tree_same v (s_disk s) bl rch T (pend_of s v) (slot_of e) (disk_inv_crash_inv_at _ _ _ _ _ _ Hdisk)) as P0.
  destruct (all_nodes_rep _ _ _ _ (di_tree _ _ _ _ _ _ Hdisk) _ Hin) as (t & bl0 & Hr & _).
  apply node_rep_file in Hr. destruct Hr as (_ & _ & [(A1 & fu & A2)|(A1 & ->)]).
  2:{ rewrite (PrChain.truncate_reserved 0%nat _ s A1) in Htr. injection Htr as <-.
      apply crash_all_nil; [apply same_tr_ext; reflexivity|exact P0]. }
  destruct (chain_of_head _ _ _ _ _ A2) as (_ & C2 & rest & ->).
  destruct (PrChain.truncate_cluster_chain_effect 0%nat v fsz s (e_cluster e) rest fu L Hst A2) as (s2' & Hrun' & Heff).
  rewrite Htr in Hrun'. injection Hrun' as <-.
  pose proof (PrChain.te_trace _ _ _ _ _ _ _ Heff) as Text.
  intros d' Hd. apply (crash_disks_tr_ext s s2 _ d' Text) in Hd. destruct Hd as (k & _ & ->).
  destruct (trunc_prefix_inv fsz (s_disk s) v bl rch T (pend_of s v) e _ rest fu Hdisk L PL (PrCrash.st_ok_len _ _ _ _ Hst) Hin A2 k)
    as (Hfr & T' & lost' & HT' & Hshape).
  exists bl, rch, T', lost'. split; [exact HT'|].
  intros path e0 ch0 Hat Hne. split.
  - destruct Hshape as [->| ->]; [exact Hat|].
    apply (node_at_replace _ _ T path e0 ch0 (di_pos _ _ _ _ _ _ Hdisk)); [|exact Hat|exact Hne].
    exists (NFile e (e_cluster e :: rest)). split; [exact Hin|]. split; reflexivity.
  - intros j Hj. apply Hfr.
    exact (file_block_off_fat fsz _ v bl T e0 ch0 j L (di_tree _ _ _ _ _ _ Hdisk) (node_at_in _ _ _ Hat) Hj).
Qed.

(* ---- the truncating open: lookup (reads), handle counter, the chain is cut (FAT writes), the
   clock is read, the slot is rewritten with size 0 (one block write), the record is pushed ---- *)
Lemma open_trunc_crash fsz vid s vi v bl rch T h name di dd sfn bl' parent kids s1 md t :
  open_ctx fsz vid s vi v bl rch T h name di dd sfn bl' parent kids s1 ->
  find (t_matches sfn) (live_in_blocks (s_disk s) bl') = Some t ->
  PrModes.open_refusal md (Ok (t_entry (v_fat32 v) t)) (PrModes.is_open s1 (d_vol dd) (t_entry (v_fat32 v) t)) = None ->
  md = ReadWriteTruncate \/ md = ReadWriteCreateOrTruncate ->
  exists id s', open_file_in_dir h name md s = (Ok id, s') /\
    crash_all (keeps_tree v (s_disk s) T (slot_of (t_entry (v_fat32 v) t))) s s'.
Proof.
  intros [Hat Hfresh Hres Hvol Hroom Hsfn He5 Hdot Hctx Hlook Hro Hrd] Hfind Href Hmd.
  rewrite Hfind in Hlook. set (e := t_entry (v_fat32 v) t) in *.
  destruct (refusal_none_ok _ _ _ Href) as (Hop & Hnd & _).
  pose proof (go_ro _ _ _ _ _ _ _ _ _ Hat Hro) as Hat1.
  pose proof Hro as (Hd & Hc1 & Hnf1 & Hm1). pose proof Hm1 as (M1 & M2 & M3 & M4 & M5 & M6 & _).
  pose proof (sfn_of_str_wf _ _ Hsfn) as Hwf.
  rewrite <- Hd in Hctx, Hfind.
  destruct (found_file _ _ _ _ _ _ _ _ _ _ Hctx Hwf He5 Hdot Hfind Hnd) as (ch & Hk & Hall & Hr & Hn & Hshort & Hname).
  fold e in Hk, Hall, Hr.
  destruct (node_rep_slot _ _ _ _ _ Hr Hn) as (Hb & Ho & Hts & Hde & Hns). cbn [node_entry] in Hb, Ho, Hts, Hde.
  set (sg := set_s_next_id s1 ((s_next_id s1 + 1) mod U32)).
  pose proof (go_bump _ _ _ _ _ _ _ _ ((s_next_id s1 + 1) mod U32) Hat1) as Hatg. fold sg in Hatg.
  destruct (go_facts _ _ _ _ _ _ _ _ Hatg) as (Hlg & Hnfg & Hcg & Evg & E0 & Hv0g & Hv & L & Hwfg & Hvid). subst vi.
  destruct (trunc_step _ _ _ _ _ _ _ _ e ch Hatg Hall) as (s2 & v2 & ws1 & Htr & G & Evols2 & Hpre2 & Hwf2 & Htabs & F4 & Hcase & Hts1 & Hcl1).
  pose proof Htabs as (T1 & T2 & T3 & T4 & T5 & _).
  pose proof Hpre2 as ((Hnf2 & Hc2 & Hvi2 & Hlen2) & L2 & Hh2).
  set (now := clock_ts (s_clock s2)).
  set (s3 := set_s_clock s2 (s_clock s2 + 1)).
  set (e' := set_e_mtime (set_e_size e 0) now).
  assert (Ects : ts_ok (e_ctime e)) by (unfold e, t_entry, get_entry; apply ts_from_fat_ok).
  destruct (write_entry_to_disk_spec v2 e' s3 Hnf2 Hc2 Ects ltac:(apply ts_cal_ok, clock_ts_cal) Ho)
    as (s4 & Hwrite & Hd4 & _ & Hfr4 & _ & _ & Hc4 & Hnf4 & Hm4 & Htr4).
  cbn [e_block e' set_e_mtime set_e_size] in Hd4, Hfr4, Htr4.
  change (s_disk s3) with (s_disk s2) in Hd4, Hfr4.
  assert (E32 : v_fat32 v2 = v_fat32 v) by (destruct G as (a & b & ->); reflexivity).
  rewrite E32 in Hd4.
  set (nf := mk_fileinfo (s_next_id s1) (d_vol dd) 0 (e_cluster e) 0 ReadWriteTruncate e' false).
  assert (Hopen : open_file_in_dir h name md s = (Ok (s_next_id s1), set_s_files s4 (s_files s4 ++ [nf]))).
  { pose proof (PrModes.resolves_vol_id _ _ _ _ _ _ Hres) as Hvid'.
    assert (Htail : (truncate_cluster_chain 0%nat (e_cluster e) ;;;
                     now0 <- get_timestamp ;;
                     v' <- get_vol 0%nat ;;
                     write_entry_to_disk v' (set_e_mtime (set_e_size e 0) now0) ;;;
                     push_file (set_f_entry (mk_fileinfo (s_next_id s1) (d_vol dd) 0 (e_cluster e) 0
                                                         ReadWriteTruncate e false)
                                            (set_e_mtime (set_e_size e 0) now0)) ;;; ret (s_next_id s1)) sg
                    = (Ok (s_next_id s1), set_s_files s4 (s_files s4 ++ [nf]))).
    { rewrite (bind_ok _ _ _ _ _ Htr), (bind_ok _ _ _ _ _ (get_timestamp_eq s2)).
      rewrite (bind_ok _ _ _ _ _ (get_vol_some 0%nat _ s3 Hvi2)), (bind_ok _ _ _ _ _ Hwrite). reflexivity. }
    unfold open_file_in_dir. PrModes.open_prefix Hres Hroom Hsfn.
    unfold PrModes.dot_name in Hdot. rewrite Hdot.
    unfold bind at 1. unfold try. rewrite Hlook.
    rewrite PrModes.bind_ret, (bind_ok _ _ _ _ _ (PrModes.file_is_open_eq _ _ _)), Hvid'.
    cbn [PrModes.open_refusal] in Href.
    destruct (PrModes.is_open s1 (d_vol dd) e) eqn:Hop'; [discriminate|].
    destruct (mode_eqb md ReadWriteCreate) eqn:Hcm; [discriminate|].
    destruct (is_read_only (e_attr e) && negb (mode_eqb md ReadOnly)) eqn:Hrr; [discriminate|].
    destruct (is_directory (e_attr e)) eqn:Hdd; [discriminate|].
    destruct Hmd as [-> | ->]; cbn [solve_mode_variant mode_eqb] in *;
      rewrite Hrr, (bind_ok _ _ _ _ _ (PrModes.file_is_open_eq _ _ _)), Hop',
              (bind_ok _ _ _ _ _ (generate_spec s1)); exact Htail. }
  eexists. eexists. split; [exact Hopen|].
  set (s5 := set_s_files s4 (s_files s4 ++ [nf])).
  set (P := keeps_tree v (s_disk s) T (slot_of e)).
  pose proof (fi_disk _ _ _ _ _ _ _ _ Hatg) as Hdiskg.
  pose proof (fi_vol _ _ _ _ _ _ _ _ Hatg) as (_ & _ & Hfit & _).
  pose proof (fi_layout _ _ _ _ _ _ _ _ Hatg) as PL.
  assert (Edg : s_disk sg = s_disk s) by exact Hd.
  assert (P0 : P (s_disk s)).
  { apply (keeps_tree_same v (s_disk s) bl rch T (pend_of sg v)). rewrite <- Edg. exact (disk_inv_crash_inv_at _ _ _ _ _ _ Hdiskg). }
  (* the parts of the run *)
  assert (X01 : tr_ext s sg []).
  { destruct (reads_only_tr_ext s s1 Hrd) as (new & Et & Ew & Ed). exists new. split; [exact Et|]. split; [exact Ew|exact Ed]. }
  destruct (trunc_crash fsz vid sg 0%nat v bl rch T e ch Hatg Hall s2 Htr) as (Tr12 & Hall12).
  assert (X25 : tr_ext s2 s5 [(e_block e, put_entry (v_fat32 v2) e' (disk_get (s_disk s2) (e_block e)))]).
  { apply (tr_ext_one_write s2 s5 _ _ (e_block e)); [rewrite E32; exact Hd4|exact Htr4]. }
  assert (P2 : P (s_disk s2)).
  { unfold P. rewrite <- Edg. exact (Hall12 _ (crash_disks_new sg s2 Tr12)). }
  (* the final medium *)
  assert (P5 : P (s_disk s5)).
  { assert (Hoffe : off_fat v fsz (e_block e)) by exact (node_block_off_fat _ _ _ _ _ _ _ _ _ Hatg Hall).
    destruct (trunc_disk_x fsz (s_disk sg) (s_disk s2) v bl rch T (pend_of sg v) e ch e' Hdiskg Hwfg L Hfit Hall Hoffe
                (tree_dir_blocks_off_fat fsz _ v bl rch T _ L PL Hdiskg) eq_refl eq_refl eq_refl eq_refl eq_refl eq_refl F4 Hcase)
      as (T' & Hdisk4 & Hpaths & Hfr).
    change (s_disk s5) with (s_disk s4). rewrite Hd4.
    exists bl, rch, T', (pend_of sg v). split; [exact (disk_inv_crash_inv_at _ _ _ _ _ _ Hdisk4)|].
    intros path e0 ch0 Hna Hne. split; [exact (Hpaths path e0 ch0 Hna Hne)|].
    intros j Hj. rewrite <- Edg. apply Hfr.
    - exact (file_block_off_fat fsz _ v bl T e0 ch0 j L (di_tree _ _ _ _ _ _ Hdiskg) (node_at_in _ _ _ Hna) Hj).
    - intros ->. apply (file_block_not_dir fsz _ v bl rch T _ e0 ch0 (e_block e) Hdiskg PL (node_at_in _ _ _ Hna) Hj).
      destruct (dx_where _ _ _ _ _ _ _ _ Hctx) as [(_ & Ebl & _)|(e1 & ch1 & Hn1 & _ & Ebl & _)]; rewrite Ebl in Hb.
      + unfold tree_dir_blocks. apply in_or_app. left. exact Hb.
      + exact (all_nodes_dir_blocks v bl T e1 ch1 kids Hn1 _ Hb). }
  apply (crash_all_trans P s sg s5 (tr_ext_traced _ _ _ X01)).
  - exact (traced_trans _ _ _ Tr12 (tr_ext_traced _ _ _ X25)).
  - exact (crash_all_nil P s sg X01 P0).
  - apply (crash_all_trans P sg s2 s5 Tr12 (tr_ext_traced _ _ _ X25)).
    + intros d' Hd'. unfold P. rewrite <- Edg. exact (Hall12 d' Hd').
    + exact (crash_all_one P s2 s5 _ _ X25 P2 P5).
Qed.
