(* PROOFS: "the medium mounts" - the part of it that follows from C04 and the prefix structure:
   on EVERY crashed medium of EVERY call of EVERY history, every block outside the regions of
   the volume (FAT copies, FAT16 root region, data area, FAT32 information sector) holds what it
   held at the START of the history; in particular block 0 (the master boot record) and the boot
   sector of the partition, which are all that the mount code reads on FAT16 - on FAT32 it also
   reads the information sector, whose three signatures flush_file / close_volume preserve
   (PrFat.update_info_sector_spec: only bytes 488..495 change). *)
From Coq Require Import NArith ZArith List Bool Lia Arith FMapPositive.
From SdFs Require Import FsTypes FsBase FsFat FsMgr FsLemmas PrBase PrAllocEffect PrChain PrGlobalDef.
From SdFs Require PrHandles PrOrder PrBounds PrCrash PrGlobal.
From SdFs Require Import PrCrashDef PrCrashDef2.
Import ListNotations.
Open Scope N_scope.

Lemma traced_run_ops : forall ops s, traced s (snd (run_ops ops s)).
Proof.
  induction ops as [|o rest IH]; intros s; cbn [run_ops]; [apply traced_refl|].
  destruct (step o s) as [r s1] eqn:Es. specialize (IH s1). destruct (run_ops rest s1) as [rs s']. cbn [snd] in *.
  exact (traced_trans _ _ _ (traced_step o s r s1 Es) IH).
Qed.

Lemma run_ops_snoc : forall ops1 o s, snd (run_ops (ops1 ++ [o]) s) = snd (step o (snd (run_ops ops1 s))).
Proof.
  induction ops1 as [|o1 rest IH]; intros o s; cbn [run_ops app snd].
  - destruct (step o s) as [r s1]. reflexivity.
  - destruct (step o1 s) as [r1 s1]. specialize (IH o s1).
    destruct (run_ops (rest ++ [o]) s1) as [rs s']. destruct (run_ops rest s1) as [rs2 s2]. exact IH.
Qed.

(* a run all of whose writes lie in a set of blocks leaves every other block alone on every
   crashed medium *)
Lemma crash_untouched (R : N -> Prop) s s' ws : PrOrder.tsteps s s' ws -> Forall R ws ->
  forall d', crash_disks s s' d' -> forall j, ~ R j -> disk_get d' j = disk_get (s_disk s) j.
Proof.
  intros Ht HR d' (k & _ & ->) j Hj. apply PrCrash.prefix_disk_untouched.
  rewrite (tsteps_step_writes s s' ws Ht). intros Hin. rewrite Forall_forall in HR. exact (Hj (HR j Hin)).
Qed.

(* one call *)
Theorem crash_region_step fsz vid o : step_ok fsz vid o ->
  forall s r s', fs_inv fsz vid s -> id_fresh s -> op_known_ok o -> step o s = (r, s') ->
    forall v d', s_vols s = [v] -> crash_disks s s' d' ->
      forall j, ~ PrBounds.in_region v fsz j -> disk_get d' j = disk_get (s_disk s) j.
Proof.
  intros Hok s r s' Hinv Hfr Hk Hs v d' Ev Hd j Hj.
  destruct (Hok s r s' Hinv Hfr Hk Hs) as (_ & _ & _ & _ & ws & Ht & Hws).
  apply (crash_untouched (PrBounds.in_region v fsz) s s' ws Ht); [|exact Hd|exact Hj].
  apply Hws. rewrite Ev. left. reflexivity.
Qed.

(* whole histories, relative to the medium at the START *)
Theorem crash_region_history fsz vid ops1 o ops2 s age v :
  fs_inv fsz vid s -> PrHandles.handles_ok age s ->
  age + N.of_nat (length (ops1 ++ o :: ops2)) < U32 - 1 -> Forall op_known_ok (ops1 ++ o :: ops2) ->
  s_vols s = [v] ->
  let s1 := snd (run_ops ops1 s) in
  forall d', crash_disks s1 (snd (step o s1)) d' ->
    (forall j, ~ PrBounds.in_region v fsz j -> disk_get d' j = disk_get (s_disk s) j) /\
    disk_get d' 0 = disk_get (s_disk s) 0 /\ disk_get d' (v_lba v) = disk_get (s_disk s) (v_lba v).
Proof.
  intros Hinv Hh Hage Hops Ev s1 d' Hd.
  assert (Hage1 : age + N.of_nat (length (ops1 ++ [o])) < U32 - 1).
  { rewrite app_length in *. cbn [length] in *. rewrite Nat2N.inj_add in *. lia. }
  assert (Hops1 : Forall op_known_ok (ops1 ++ [o])).
  { rewrite Forall_forall in *. intros x Hx. apply Hops. apply in_app_or in Hx. apply in_or_app.
    destruct Hx as [Hx|[<-|[]]]; [left; exact Hx|right; left; reflexivity]. }
  destruct (PrGlobal.C04_history fsz vid (ops1 ++ [o]) s age Hinv Hh Hage1 Hops1) as (ws & Ht & Hws).
  rewrite run_ops_snoc in Ht. fold s1 in Ht.
  assert (T1 : traced s s1) by (subst s1; apply traced_run_ops).
  assert (T2 : traced s1 (snd (step o s1))).
  { destruct (step o s1) as [r s2] eqn:Es. exact (traced_step o s1 r s2 Es). }
  pose proof (crash_disks_right s s1 _ d' T1 T2 Hd) as Hd0.
  assert (Hout : forall j, ~ PrBounds.in_region v fsz j -> disk_get d' j = disk_get (s_disk s) j).
  { apply (crash_untouched (PrBounds.in_region v fsz) s _ ws Ht); [|exact Hd0].
    apply Hws. rewrite Ev. left. reflexivity. }
  split; [exact Hout|].
  destruct Hinv as (vi & v0 & bl & rch & T & Hat).
  pose proof (fi_single _ _ _ _ _ _ _ _ Hat) as Ev0. rewrite Ev in Ev0. injection Ev0 as <-.
  pose proof (fi_layout _ _ _ _ _ _ _ _ Hat) as L.
  split; apply Hout; intros Hr;
    destruct (PrBounds.C04_regions_not_outside v (v_nblocks v) fsz _ L Hr) as (A & B & _); congruence.
Qed.

Print Assumptions crash_region_step.
Print Assumptions crash_region_history.

(* the main statements of PrCrashDef.v (kept frozen for the files that import it) *)
Print Assumptions crash_disks_trans.
Print Assumptions crash_all_trans.
Print Assumptions fs_inv_crash_inv.
Print Assumptions crash_inv_at_frame.
Print Assumptions crash_inv_b_sound.
Print Assumptions crash_history.
