(* A witness for the recorded finding `three-fats` of C16: a valid volume with BPB_NumFATs >= 3 mounts, and
   afterwards only FAT copy 0 is maintained.
     mount_nfats_not2_single   the mounted record carries a second-FAT start only when BPB_NumFATs = 2
     update_fat_single_copy    with no second-FAT start, update_fat issues exactly ONE device write, to the sector
                               of copy 0: every other block of the medium - the other FAT copies included - is
                               untouched (and PrC16Def.mirror_inv / PrFat.fat_mirrored hold vacuously)
     C16_three_fats_refuted    a formatted 3-FAT FAT16 image (three byte-identical copies): mount, open the root,
                               create a file, write three bytes - copy 0 has changed, copies 1 and 2 have not *)
From Coq Require Import NArith ZArith List Bool Lia Arith FMapPositive.
From SdFs Require Import FsTypes FsBase FsFat FsMgr FsLemmas PrBase PrFat PrAlloc PrDir PrRw PrChain.
From SdFs Require PrOrder PrBounds PrCrashDef PrCrashDef2 PrMountLayout PrHandles PrC16Def PrFsck PrSess2.
From SdFs Require Import PrGlobalDef PrGlobalMount.
Import ListNotations.
Open Scope N_scope.

(* ================================================================== 1. the mount *)
(* b = the boot sector parse_volume read (PrMountLayout.parse_volume_inv); byte 16 = BPB_NumFATs *)
Theorem mount_nfats_not2_single b id idx lba nb v :
  PrMountLayout.mount_facts b id idx lba nb v -> get8 b 16 <> 2 -> v_second_fat v = None.
Proof.
  intros MF Hn. rewrite (PrMountLayout.mf_second _ _ _ _ _ _ MF).
  destruct (N.eqb_spec (get8 b 16) 2) as [E|E]; [contradiction|reflexivity].
Qed.

Corollary parse_volume_nfats_not2_single id idx lba nb s v s' :
  parse_volume id idx lba nb s = (Ok v, s') ->
  exists b s1, cache_read lba s = (Ok b, s1) /\ 1 <= get8 b 16 /\
    (get8 b 16 <> 2 -> v_second_fat v = None) /\
    (* ... while the root directory / the data area are placed behind ALL copies *)
    v_first_data v = le16 b 14 + get8 b 16 * bpb_fat_size b + (if v_fat32 v then 0 else (le16 b 17 * 32 + 511) / 512).
Proof.
  intros H. destruct (PrMountLayout.parse_volume_inv _ _ _ _ _ _ _ H) as (b & s1 & Hb & MF & _).
  exists b, s1. split; [exact Hb|]. split; [exact (PrMountLayout.mf_nfats _ _ _ _ _ _ MF)|].
  split; [exact (mount_nfats_not2_single b id idx lba nb v MF)|exact (PrMountLayout.mf_first _ _ _ _ _ _ MF)].
Qed.

(* ================================================================== 2. update_fat writes copy 0 only *)
Theorem update_fat_single_copy vi v c x s s' :
  PrOrder.good s -> nth_error (s_vols s) vi = Some v -> v_second_fat v = None ->
  update_fat vi c x s = (Ok tt, s') ->
  PrOrder.steps s s' [fat_sector v 0 c] /\
  forall j, j <> fat_sector v 0 c -> disk_get (s_disk s') j = disk_get (s_disk s) j.
Proof.
  intros Hg Hv Hsf H. destruct (PrOrder.update_fat_steps vi v c x s s' Hg Hv H) as (S & _).
  assert (E : PrOrder.fat_sectors v c = [fat_sector v 0 c]).
  { unfold PrOrder.fat_sectors, fat_sector, fat_copy_sector, fat_copy_start, fat_width. rewrite Hsf. cbn [N.eqb]. reflexivity. }
  rewrite E in S. split; [exact S|]. intros j Hj.
  apply (PrSess2.tsteps_outside s s' [fat_sector v 0 c] j (PrCrashDef2.tm_update_fat vi c x s _ s' H) (proj1 S)).
  intros [Hin|[]]. exact (Hj (eq_sym Hin)).
Qed.

(* the C16 mirror invariant says nothing about such a volume: it compares copy 1 with copy 0, and without a
   second-FAT start "copy 1" IS copy 0 *)
Lemma mirrored_vacuous d v fsz : v_second_fat v = None -> fat_mirrored d v fsz.
Proof. intros H k _. unfold fat_copy_sector, fat_copy_start. rewrite H. destruct (1 =? 0); reflexivity. Qed.

(* ================================================================== 3. a 3-FAT volume *)
(* entry 0 of the master boot record: type 6, start 2048, 5129 blocks.  1 block per cluster, 1 reserved sector,
   THREE FATs of 32 sectors (blocks 2049.., 2081.., 2113..), 512 root entries (blocks 2145..2176), 5000 clusters
   from block 2177.  An empty root directory; the three FAT copies are byte-identical. *)
Definition tx_boot : block := PrMountLayout.mk_boot 1 1 3 512 5129 32 0 0 0.
Definition tx_fat : block := set_bytes zero_block 0 [248; 255; 255; 255].
Definition tx_disk : disk :=
  fold_right (fun p d => disk_set d (fst p) (snd p)) (PositiveMap.empty block)
    [(0, PrMountLayout.mk_mbr (6, 2048, 5129) (0, 0, 0)); (2048, tx_boot);
     (2049, tx_fat); (2081, tx_fat); (2113, tx_fat)].
Definition tx_s0 : st := init_state tx_disk 0 1 4 4 [].
Definition tx_ops : list op := [OpenVol 0; OpenRoot 0; OpenFile 1 [69] ReadWriteCreate; Write 2 [1; 2; 3]].
Definition tx_s1 : st := snd (step (OpenVol 0) tx_s0).
Definition tx_s4 : st := snd (run_ops tx_ops tx_s0).

Lemma tx_disk_wf : blocks_wf tx_disk.
Proof. apply blocks_wf_b_ok. vm_compute. reflexivity. Qed.

Example three_fats_example :
  (* the image: three FAT copies, byte-identical; BPB_NumFATs = 3 *)
  get8 (disk_get tx_disk 2048) 16 = 3 /\
  disk_get tx_disk 2081 = disk_get tx_disk 2049 /\ disk_get tx_disk 2113 = disk_get tx_disk 2049 /\
  (* it mounts; the decider accepts it (so fs_inv holds: PrGlobalMount.C03_mount_establishes); no second-FAT
     start is recorded; the data area starts behind all three copies *)
  (exists v, step (OpenVol 0) tx_s0 = (Ok (RHandle 0), tx_s1) /\ s_vols tx_s1 = [v] /\
     PrFsck.fs_inv_fast 5 32 (s_disk tx_s1) v [] = true /\
     v_second_fat v = None /\ v_fat_start v = 1 /\ v_first_data v = 129 /\ v_lba v = 2048 /\ v_clusters v = 5000) /\
  (* every call of the history succeeds *)
  map (fun r => match r with Ok _ => true | _ => false end) (fst (run_ops tx_ops tx_s0)) = [true; true; true; true] /\
  (* afterwards: sector 0 of FAT copy 0 has the chain end of cluster 2; copies 1 and 2 are as formatted *)
  firstn 6 (disk_get (s_disk tx_s4) 2049) = [248; 255; 255; 255; 255; 255] /\
  disk_get (s_disk tx_s4) 2081 = disk_get tx_disk 2081 /\
  disk_get (s_disk tx_s4) 2113 = disk_get tx_disk 2113 /\
  disk_get (s_disk tx_s4) 2081 <> disk_get (s_disk tx_s4) 2049.
Proof.
  split; [vm_compute; reflexivity|]. split; [vm_compute; reflexivity|]. split; [vm_compute; reflexivity|].
  split.
  { assert (R : match step (OpenVol 0) tx_s0 with
                | (Ok (RHandle h), s1) =>
                    match s_vols s1 with
                    | [v] => h = 0 /\ PrFsck.fs_inv_fast 5 32 (s_disk s1) v [] = true /\
                             v_second_fat v = None /\ v_fat_start v = 1 /\ v_first_data v = 129 /\ v_lba v = 2048 /\
                             v_clusters v = 5000
                    | _ => False
                    end
                | _ => False
                end) by (vm_compute; repeat split; reflexivity).
    unfold tx_s1. destruct (step (OpenVol 0) tx_s0) as [[[ |h| | | | | | ]|e| |] s1] eqn:E; try contradiction.
    cbn [snd]. destruct (s_vols s1) as [|v [|w r]] eqn:Ev; try contradiction.
    destruct R as (-> & R). exists v. split; [reflexivity|]. split; [reflexivity|]. exact R. }
  split; [vm_compute; reflexivity|]. split; [vm_compute; reflexivity|].
  split; [vm_compute; reflexivity|]. split; [vm_compute; reflexivity|].
  vm_compute. discriminate.
Qed.

(* the finding, as an existence statement: from a fresh manager on a valid, decider-accepted volume with three
   byte-identical FAT copies, a history of four successful calls reaches a state - a state of the global
   invariant fs_inv - whose medium has FAT copy 1 (and 2) different from copy 0.  "Every FAT copy is identical
   to the first whenever a call has returned" is FALSE for volumes with more than two copies. *)
Theorem C16_three_fats_refuted :
  exists (d : disk) (ops : list op) (v : vol) (copy0 copy1 fsz : N) (s0 s1 s' : st),
    s0 = init_state d 0 1 4 4 [] /\ s1 = snd (step (OpenVol 0) s0) /\ s' = snd (run_ops ops s0) /\
    blocks_wf d /\
    step (OpenVol 0) s0 = (Ok (RHandle 0), s1) /\ s_vols s1 = [v] /\
    PrFsck.fs_inv_fast 5 fsz (s_disk s1) v [] = true /\ fs_inv fsz 0 s1 /\
    get8 (disk_get d (v_lba v)) 16 = 3 /\ v_second_fat v = None /\
    copy0 = v_lba v + v_fat_start v /\ copy1 = copy0 + fsz /\
    (forall k, k < fsz -> disk_get d (copy1 + k) = disk_get d (copy0 + k)) /\     (* identical when formatted *)
    hd (OpenVol 1) ops = OpenVol 0 /\
    Forall (fun r => exists x, r = Ok x) (fst (run_ops ops s0)) /\
    disk_get (s_disk s') copy1 <> disk_get (s_disk s') copy0 /\                    (* no longer *)
    disk_get (s_disk s') copy1 = disk_get d copy1.
Proof.
  destruct three_fats_example as (Hn & E1 & E2 & (v & Eo & Ev & Hb & Hsf & Hfs & Hfd & Hl & Hc) & Hr & H0 & H1 & H2 & Hne).
  exists tx_disk, tx_ops, v, 2049, 2081, 32, tx_s0, tx_s1, tx_s4.
  split; [reflexivity|]. split; [reflexivity|]. split; [reflexivity|].
  split; [exact tx_disk_wf|]. split; [exact Eo|]. split; [exact Ev|]. split; [exact Hb|].
  split.
  { exact (C03_mount_establishes_fast 5 32 0 tx_s0 0 tx_s1 v (fresh_init _ _ _ _ _) tx_disk_wf Eo Ev Hb). }
  split; [rewrite Hl; exact Hn|]. split; [exact Hsf|]. split; [rewrite Hl, Hfs; reflexivity|]. split; [reflexivity|].
  split.
  { intros k Hk. assert (C : k = 0 \/ 1 <= k) by lia. destruct C as [->|Hk1]; [exact E1|].
    (* the sectors beyond the first are absent from the sparse image: zero blocks in both copies *)
    assert (Z : forall j, 2049 < j < 2081 \/ 2081 < j < 2113 -> disk_get tx_disk j = zero_block).
    { intros j Hj. unfold tx_disk. cbn [fold_right fst snd].
      repeat (rewrite disk_get_set_other by lia). unfold disk_get. rewrite PositiveMap.gempty. reflexivity. }
    rewrite (Z (2081 + k)) by lia. rewrite (Z (2049 + k)) by lia. reflexivity. }
  split; [reflexivity|]. split.
  { assert (F : forallb (fun r => match r with Ok _ => true | _ => false end) (fst (run_ops tx_ops tx_s0)) = true)
      by (vm_compute; reflexivity).
    rewrite forallb_forall in F. apply Forall_forall. intros r Hr'. specialize (F r Hr'). clear Hr'.
    destruct r as [x|e| |]; [exists x; reflexivity|discriminate F|discriminate F|discriminate F]. }
  split; [exact Hne|exact H1].
Qed.

Print Assumptions mount_nfats_not2_single.
Print Assumptions parse_volume_nfats_not2_single.
Print Assumptions update_fat_single_copy.
Print Assumptions three_fats_example.
Print Assumptions C16_three_fats_refuted.
