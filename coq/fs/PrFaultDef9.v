(* PROOFS: step_fault for Write / IoWrite: mgr_write is a prefix run - a faulted run returns an error
   and has performed a prefix of the fault-free writes.  The sites where the error does not travel as
   `Err DeviceError`: fdod_walk / find_data_on_disk hand it on as a value, write_loop turns a failed
   allocation into DiskFull; no device call follows any of them. *)
From Coq Require Import NArith ZArith List Bool Lia Arith FMapPositive.
From SdFs Require Import FsTypes FsBase FsFat FsMgr FsLemmas PrBase PrAllocEffect PrChain PrFault PrGlobalDef.
From SdFs Require PrHandles PrCrash PrGlobal PrCrashAll.
From SdFs Require Import PrFault2 PrCrashDef PrCrashDef2 PrCrashDef4 PrFaultDef PrFaultDef2 PrFaultDef3 PrFaultDef4 PrFaultDef5 PrFaultDef8.
Import ListNotations.
Open Scope N_scope.

(* a bind whose first part hands a device error up as Err DeviceError *)
Lemma pfxG_bind_dev {A B} (T2 : outcome B -> Prop) (m : M A) (k : A -> M B) :
  pfx m -> (forall a, pfxG T2 (k a)) -> T2 (Err DeviceError) -> pfxG T2 (bind m k).
Proof.
  intros Hm Hk HT. apply (pfxG_bind (fun r => r = Err DeviceError) T2); [exact Hm|exact Hk|].
  intros r1 s1 r s' -> E. cbn [tail] in E. injection E as <- <-. split; [exact HT|apply tr_ext_refl].
Qed.
Lemma pfxG_bind_ee {A B} (m : M A) (k : A -> M B) :
  pfxG is_err m -> (forall a, pfxG is_err (k a)) -> pfxG is_err (bind m k).
Proof.
  intros Hm Hk. apply (pfxG_bind_err is_err is_err); [exact Hm|exact Hk|].
  intros r1 (e & ->). split; [intros a; discriminate|exists e; reflexivity].
Qed.
Lemma pfxG_here {A} (T : outcome A -> Prop) (r : outcome A) : pfxG T (fun s => (r, s)).
Proof. intros s r0 s' E. injection E as <- <-. exists []. split; [apply tr_ext_refl|left; reflexivity]. Qed.
Lemma pfxG_fail {A} (T : outcome A -> Prop) e : pfxG T (@fail A e). Proof. apply pfxG_here. Qed.
Lemma pfxG_panic {A} (T : outcome A -> Prop) : pfxG T (@panic A). Proof. apply pfxG_here. Qed.
Lemma pfxG_oof {A} (T : outcome A -> Prop) : pfxG T (@out_of_fuel A). Proof. apply pfxG_here. Qed.

(* taints: the error as a value, or already as Err DeviceError *)
Definition Tw {X} (r : outcome (X * option err)) : Prop :=
  (exists st, r = Ok (st, Some DeviceError)) \/ r = Err DeviceError.
Definition Tfd {X Y} (r : outcome (X * (Y + err))) : Prop :=
  (exists st, r = Ok (st, inr DeviceError)) \/ r = Err DeviceError.

Ltac pd_step T :=
  cbn beta iota;
  lazymatch goal with
  | |- pfxG _ (bind get _) => apply pfxG_bind_get; [intros ?|intros ?; reflexivity]
  | |- pfxG _ (bind _ _) => apply pfxG_bind_dev; [solve [auto 3 with pfx]|intros ?|T]
  | |- pfxG _ (if ?c then _ else _) => destruct c
  | |- pfxG _ (match ?x with _ => _ end) => destruct x
  | |- pfxG _ (let _ := _ in _) => cbv zeta
  | |- pfxG _ (ret _) => apply pfxG_ret
  | |- pfxG _ (fail _) => apply pfxG_fail
  | |- pfxG _ panic => apply pfxG_panic
  | |- pfxG _ out_of_fuel => apply pfxG_oof
  end.

Lemma caught_dev {A} (r1 : outcome (A + err)) : caught (fun r => r = Err DeviceError) r1 -> r1 = Ok (inr DeviceError).
Proof. destruct r1 as [[a|e]| | |]; cbn; intros H; try discriminate; try contradiction. injection H as ->. reflexivity. Qed.

Lemma pfxG_fdod_walk v : forall n so sc, pfxG Tw (fdod_walk n v so sc).
Proof.
  induction n as [|n IH]; intros so sc; cbn [fdod_walk]; [apply pfxG_ret|].
  apply (pfxG_bind (caught (fun r => r = Err DeviceError)) Tw).
  - apply pfxG_try, pfxG_of_pfx, pfx_next_cluster.
  - intros [c|e]; [|apply pfxG_ret].
    apply pfxG_bind_dev; [apply pfx_add32|intros so'; apply IH|right; reflexivity].
  - intros r1 s1 r s' Hc E. rewrite (caught_dev _ Hc) in E. cbn [tail] in E. injection E as <- <-.
    split; [left; eexists; reflexivity|apply tr_ext_refl].
Qed.

Lemma pfxG_find_data_on_disk vi start fs desired : pfxG Tfd (find_data_on_disk vi start fs desired).
Proof.
  unfold find_data_on_disk.
  apply pfxG_bind_dev; [apply pfx_get_vol|intros v|right; reflexivity].
  cbv zeta. destruct (if desired <? fst start then (0, fs) else start) as [so sc].
  destruct (bytes_per_cluster v =? 0); [apply pfxG_panic|].
  apply (pfxG_bind Tw Tfd); [apply pfxG_fdod_walk| |].
  - intros [st' [e|]]; [apply pfxG_ret|]. destruct st' as [so' sc'].
    repeat (pd_step ltac:(right; reflexivity)).
  - intros r1 s1 r s' [(st & ->)| ->] E; cbn [tail] in E.
    + destruct st as [a b]. injection E as <- <-. split; [left; eexists; reflexivity|apply tr_ext_refl].
    + injection E as <- <-. split; [right; reflexivity|apply tr_ext_refl].
Qed.

Ltac pe_step :=
  cbn beta iota;
  lazymatch goal with
  | |- pfxG _ (bind get _) => apply pfxG_bind_get; [intros ?|intros ?; reflexivity]
  | |- pfxG is_err (bind _ _) =>
      first [apply pfxG_bind_dev; [solve [auto 3 with pfx]|intros ?|eexists; reflexivity]
            |apply pfxG_bind_ee; [|intros ?]]
  | |- pfxG _ (if ?c then _ else _) => destruct c
  | |- pfxG _ (match ?x with _ => _ end) => destruct x
  | |- pfxG _ (let _ := _ in _) => cbv zeta
  | |- pfxG _ (ret _) => apply pfxG_ret
  | |- pfxG _ (fail _) => apply pfxG_fail
  | |- pfxG _ panic => apply pfxG_panic
  | |- pfxG _ out_of_fuel => apply pfxG_oof
  | |- pfxG is_err _ => solve [apply pfx_is_err; auto 3 with pfx | auto 3]
  end.
Ltac pe_go := repeat pe_step.

(* the second lookup after an allocation *)
Lemma pfxG_find_again vi cur fstart off :
  pfxG is_err ('(cur2, r2) <- find_data_on_disk vi cur fstart off ;;
               match r2 with
               | inl vars => ret (cur2, vars)
               | inr _ => fail AllocationError
               end : M ((N * N) * (N * N * N))).
Proof.
  apply (pfxG_bind Tfd is_err); [apply pfxG_find_data_on_disk| |].
  - intros [cur2 [vars|e]]; [apply pfxG_ret|apply pfxG_fail].
  - intros r1 s1 r s' [(st & ->)| ->] E; cbn [tail] in E; injection E as <- <-;
      (split; [eexists; reflexivity|apply tr_ext_refl]).
Qed.

Lemma pfxG_write_loop fi vi : forall fuel data, pfxG is_err (write_loop fuel fi vi data).
Proof.
  induction fuel as [|fu IH]; intros data; cbn [write_loop]; [apply pfxG_oof|].
  destruct data as [|d0 data']; [apply pfxG_ret|].
  apply pfxG_bind_dev; [apply pfx_get_file|intros f|eexists; reflexivity].
  cbv zeta.
  apply (pfxG_bind Tfd is_err); [apply pfxG_find_data_on_disk| |].
  2:{ intros r1 s1 r s' [(st & ->)| ->] E; cbn [tail] in E.
      - destruct st as [a b]. injection E as <- <-. split; [eexists; reflexivity|apply tr_ext_refl].
      - injection E as <- <-. split; [eexists; reflexivity|apply tr_ext_refl]. }
  intros [cur r].
  apply pfxG_bind_ee.
  - destruct r as [vars|e]; [apply pfxG_ret|].
    destruct e; try apply pfxG_fail.
    apply (pfxG_bind (caught (fun r => r = Err DeviceError)) is_err).
    + apply pfxG_try, pfxG_of_pfx, pfx_alloc_cluster.
    + intros [c|e]; [apply pfxG_find_again|apply pfxG_fail].
    + intros r1 s1 r s' Hc E. rewrite (caught_dev _ Hc) in E. cbn [tail] in E. injection E as <- <-.
      split; [eexists; reflexivity|apply tr_ext_refl].
  - intros [cur' [[blk boff] bavail]]. pe_go.
Qed.

Lemma pfxG_mgr_write h data : pfxG is_err (mgr_write h data).
Proof.
  unfold mgr_write. apply pfxG_locked. pose proof (pfxG_write_loop) as HW. pe_go.
Qed.

Lemma pfxG_io_write h data : pfxG is_err (io_write h data).
Proof. unfold io_write. pose proof (pfxG_mgr_write) as HW. pe_go. Qed.

Theorem step_fault_Write fsz vid h data : step_fault fsz vid (Write h data).
Proof.
  apply (step_fault_pfxG is_err); try reflexivity; try exact I.
  cbn [step]. apply pfxG_lift_err, pfxG_mgr_write.
Qed.
Theorem step_fault_IoWrite fsz vid h data : step_fault fsz vid (IoWrite h data).
Proof.
  apply (step_fault_pfxG is_err); try reflexivity; try exact I.
  cbn [step]. apply pfxG_lift_err, pfxG_io_write.
Qed.

Print Assumptions step_fault_Write.
Print Assumptions step_fault_IoWrite.
