(* PROOFS for C11, second part: what is true AFTER a call that met a device failure.
   PrFault.v shows "a failed device call makes the API call return an error".  This file adds,
   for EVERY fault schedule (s_faults s arbitrary) unless a statement says otherwise:
   1. the handle tables stay well-formed after any call with any outcome, and every open handle
      can still be closed (C11_not_wedged, C11_close_file_after_fault, C11_close_dir_after_fault);
   2. a read-only call - failed or not - changes nothing but the device-side bookkeeping and
      keeps the one-block cache coherent, so the same call gives the specified answer when it is
      retried without a further fault (C11_ro_call_state, C11_retry_find, C11_retry_iter);
   3. Mkdir: the clean-up after a failed directory-entry write (free_cluster_chain on the
      cluster just allocated) cannot panic or hang, under a geometry precondition
      (free_fresh_total, C11_reports_mkdir...);
   4. the device writes of a faulted run of a FAT-level function are a PREFIX of the writes of
      the fault-free run from the same state (the C11_bystander_blocks theorems). *)
From Coq Require Import NArith ZArith List Bool Lia Arith ZifyClasses ZifyInst Zify FMapPositive.
From SdFs Require Import FsTypes FsBase FsFat FsMgr FsLemmas PrBase PrFat PrAlloc PrDir PrFault
  PrAllocEffect PrHandles PrModes.
From SdFs Require PrOrder PrChain PrCrash.
Import ListNotations.
Open Scope N_scope.
Local Arguments N.mul : simpl never.
Local Arguments N.add : simpl never.
Local Arguments N.sub : simpl never.
Local Arguments N.div : simpl never.
Local Arguments N.modulo : simpl never.
Local Arguments N.land : simpl never.
Local Arguments N.lor : simpl never.
Local Ltac Zify.zify_post_hook ::= Z.to_euclidean_division_equations.

(* ================================================================== 1. not wedged *)
(* the invariant of the three handle tables: ids drawn from the one counter within the
   window, no id twice in a table (PrHandles.handles_ok), no table above its limit *)
Definition tables_ok (age_max : N) (s : st) : Prop := handles_ok age_max s /\ within_limits s.

(* EVERY op, EVERY outcome (Ok, Err - also after a device failure -, Panic, OutOfFuel) and
   every fault schedule: the tables are well-formed afterwards *)
Theorem C11_not_wedged : forall age_max o s, age_max < U32 - 1 -> remount_ok o ->
  tables_ok age_max s -> tables_ok (age_max + 1) (snd (step o s)).
Proof.
  intros age_max o s Ha Hr [H1 H2]. split.
  - apply C08_handles_ok_step; assumption.
  - apply C08_limits. exact H2.
Qed.

(* swap_remove drops the element at index i only *)
Lemma swap_remove_keeps_others {A} (l : list A) i x y :
  nth_error l i = Some y -> In x l -> x <> y -> In x (swap_remove l i).
Proof.
  intros Hi Hx Hne.
  assert (Hil : (i < length l)%nat) by (apply nth_error_Some; congruence).
  apply In_nth_error in Hx. destruct Hx as [k Hk].
  assert (Hkl : (k < length l)%nat) by (apply nth_error_Some; congruence).
  assert (Hki : k <> i) by (intros ->; congruence).
  destruct (Nat.eq_dec k (length l - 1)) as [E|E].
  - apply nth_error_In with (n := i). rewrite swap_remove_nth by lia.
    rewrite Nat.eqb_refl, <- E. exact Hk.
  - apply nth_error_In with (n := k). rewrite swap_remove_nth by lia.
    destruct (Nat.eqb_spec k i); [contradiction|exact Hk].
Qed.

(* closing an open file handle: whatever the device does during the flush inside (the call
   returns Ok, or Err e with the flush error), exactly that handle leaves the file table;
   the other file handles, the directory and the volume handles stay; and if a device
   failure was logged the outcome is an error. *)
Theorem C11_close_file_after_fault : forall h s out s',
  s_lock s = false -> NoDup (fids s) -> In h (fids s) ->
  step (CloseFile h) s = (out, s') -> out <> Panic -> out <> OutOfFuel ->
  (out = Ok RUnit \/ exists e, out = Err e) /\
  (exists i, nth_error (fids s) i = Some h /\ fids s' = swap_remove (fids s) i) /\
  no_file h s' /\ (forall x, In x (fids s) -> x <> h -> In x (fids s')) /\
  vids s' = vids s /\ dids s' = dids s /\ s_lock s' = false /\
  (fault_fired s s' -> exists e, out = Err e).
Proof.
  intros h s out s' Hl Hnd Hin E Hp Ho.
  assert (Hrep : fault_fired s s' -> exists e, out = Err e).
  { intros Hf. exact (C11_api_reports (CloseFile h) eq_refl s out s' E Hf). }
  cbn [step] in E. unfold lift, bind in E.
  destruct (close_file h s) as [o1 s1] eqn:Ec.
  assert (Hout : (out = Ok RUnit \/ exists e, out = Err e) /\ s1 = s' /\ o1 <> Panic /\ o1 <> OutOfFuel).
  { destruct o1 as [a|e| |]; inversion E; subst; try contradiction.
    - split; [left; reflexivity|]. repeat split; discriminate.
    - split; [right; eexists; reflexivity|]. repeat split; discriminate. }
  destruct Hout as (Hout & -> & Hp1 & Ho1).
  split; [exact Hout|].
  destruct (close_file_run h s _ _ Hl Ec) as [H|[H|(s2 & Hs & Hcase)]]; try contradiction.
  destruct Hs as (V & D & F & _ & L & _).
  assert (Hex : exists x, In x (s_files s2) /\ (f_id x =? h) = true).
  { assert (Hi : In h (fids s2)) by (rewrite F; exact Hin).
    unfold fids in Hi. apply in_map_iff in Hi. destruct Hi as (x & Hx1 & Hx2).
    exists x. split; [exact Hx2 | apply N.eqb_eq; exact Hx1]. }
  destruct (find_idx_exists _ _ Hex 0) as (j & Hj & Hlt & _). rewrite Nat.sub_0_r in Hlt.
  destruct Hcase as [(_ & _ & Hnone)|(i & Ef & ->)]; [congruence|].
  rewrite Hj in Ef. injection Ef as <-.
  apply find_idx_some in Hj. destruct Hj as (_ & _ & x & Hx & Hpx). rewrite Nat.sub_0_r in Hx.
  apply N.eqb_eq in Hpx.
  assert (Hnth : nth_error (fids s) j = Some h).
  { rewrite <- F. unfold fids. rewrite <- Hpx. apply map_nth_error. exact Hx. }
  assert (Hf' : fids (set_s_files s2 (swap_remove (s_files s2) j)) = swap_remove (fids s) j).
  { unfold fids at 1. cbn [s_files set_s_files]. rewrite map_swap_remove. fold (fids s2). rewrite F. reflexivity. }
  split; [exists j; split; [exact Hnth|exact Hf']|].
  split.
  { intros f Hf Hid. cbn [s_files set_s_files] in Hf.
    assert (Hnd2 : NoDup (map f_id (s_files s2))) by (fold (fids s2); rewrite F; exact Hnd).
    apply (swap_remove_gone f_id (s_files s2) j x Hnd2 Hx). rewrite Hpx, <- Hid. apply in_map. exact Hf. }
  split.
  { intros y Hy Hne. rewrite Hf'. eapply swap_remove_keeps_others; eauto. }
  split; [exact V|]. split; [exact D|]. split; [cbn; congruence|]. exact Hrep.
Qed.

(* closing an open directory handle never touches the device: always Ok, the slot is freed,
   everything on the device side (medium, cache, log, call counter) is as before *)
Theorem C11_close_dir_after_fault : forall h s,
  s_lock s = false -> NoDup (dids s) -> In h (dids s) ->
  exists s', step (CloseDir h) s = (Ok RUnit, s') /\
    no_dir h s' /\ length (s_dirs s') = (length (s_dirs s) - 1)%nat /\
    (forall x, In x (dids s) -> x <> h -> In x (dids s')) /\
    s_vols s' = s_vols s /\ s_files s' = s_files s /\
    s_trace s' = s_trace s /\ s_disk s' = s_disk s /\ s_ncalls s' = s_ncalls s /\
    s_cache s' = s_cache s /\ s_tag s' = s_tag s.
Proof.
  intros h s Hl Hnd Hin.
  assert (Hex : exists d, In d (s_dirs s) /\ d_id d = h).
  { unfold dids in Hin. apply in_map_iff in Hin. destruct Hin as (d & H1 & H2). exists d. auto. }
  destruct (C08_close_dir_frees h s Hl Hex) as (i & Hi & Hstep & Hlen).
  eexists. split; [exact Hstep|].
  split; [exact (C08_closed_dir_handle_stale h s RUnit _ Hnd Hstep)|].
  split; [exact Hlen|].
  split; [|repeat split; reflexivity].
  intros x Hx Hne.
  (* which index was removed: the first one whose id is h *)
  cbn [step] in Hstep. apply lift_ok_inv in Hstep. destruct Hstep as (a & Hc & _).
  unfold close_dir in Hc. rewrite (locked_free _ s Hl) in Hc. unfold bind in Hc.
  rewrite get_dir_by_id_eq in Hc.
  destruct (find_idx (fun d => d_id d =? h) (s_dirs s) 0) as [j|] eqn:Ef; [|discriminate].
  unfold modify in Hc. injection Hc as _ Hc.
  apply find_idx_some in Ef. destruct Ef as (_ & _ & y & Hy & Hpy). rewrite Nat.sub_0_r in Hy.
  apply N.eqb_eq in Hpy.
  assert (E : dids (set_s_dirs s (swap_remove (s_dirs s) i)) = swap_remove (dids s) j).
  { rewrite <- Hc. unfold dids. cbn [s_dirs set_s_dirs]. apply map_swap_remove. }
  rewrite E. eapply swap_remove_keeps_others; [|exact Hx|exact Hne].
  unfold dids. rewrite <- Hpy. apply map_nth_error. exact Hy.
Qed.

(* ================================================================== 2. read-only calls *)
(* `cok m`: m keeps the one-block cache coherent - under ANY fault schedule and for ANY
   outcome.  (A failed read clears the tag before it scribbles the buffer, so the scribbled
   block is unreachable; a successful read tags the buffer with the block it now holds.) *)
Definition cok {A} (m : M A) : Prop := forall s o s', m s = (o, s') -> cache_ok s -> cache_ok s'.

Lemma cok_ret {A} (a : A) : cok (ret a). Proof. intros s o s' E; inversion E; subst; auto. Qed.
Lemma cok_fail {A} e : cok (@fail A e). Proof. intros s o s' E; inversion E; subst; auto. Qed.
Lemma cok_panic {A} : cok (@panic A). Proof. intros s o s' E; inversion E; subst; auto. Qed.
Lemma cok_oof {A} : cok (@out_of_fuel A). Proof. intros s o s' E; inversion E; subst; auto. Qed.
Lemma cok_get : cok get. Proof. intros s o s' E; inversion E; subst; auto. Qed.
Lemma cok_bind {A B} (m : M A) (k : A -> M B) : cok m -> (forall a, cok (k a)) -> cok (bind m k).
Proof.
  intros Hm Hk s o s' E Hc. unfold bind in E.
  destruct (m s) as [[a|e| |] s1] eqn:Em; pose proof (Hm _ _ _ Em Hc) as H1.
  - exact (Hk a _ _ _ E H1).
  - inversion E; subst; exact H1.
  - inversion E; subst; exact H1.
  - inversion E; subst; exact H1.
Qed.
Lemma cok_try {A} (m : M A) : cok m -> cok (try m).
Proof.
  intros Hm s o s' E Hc. unfold try in E.
  destruct (m s) as [[a|e| |] s1] eqn:Em; pose proof (Hm _ _ _ Em Hc) as H1; inversion E; subst; exact H1.
Qed.
(* a table-side update: the medium, the buffer and its tag are not touched *)
Definition dev_same (f : st -> st) : Prop :=
  forall s, s_disk (f s) = s_disk s /\ s_cache (f s) = s_cache s /\ s_tag (f s) = s_tag s.
Lemma cok_modify f : dev_same f -> cok (modify f).
Proof.
  intros Hf s o s' E Hc. inversion E; subst. destruct (Hf s) as (D & C & T).
  intros i Hi. rewrite D, C. apply Hc. rewrite <- T. exact Hi.
Qed.
Lemma cok_locked {A} (m : M A) : cok m -> cok (locked m).
Proof.
  intros Hm. unfold locked. apply cok_bind; [apply cok_get|]. intros s1.
  destruct (s_lock s1); [apply cok_fail | exact Hm].
Qed.
Lemma cok_lift {A} (f : A -> res) (m : M A) : cok m -> cok (lift f m).
Proof. intros Hm. unfold lift. apply cok_bind; [exact Hm | intros a; apply cok_ret]. Qed.

Lemma cok_dev_read i : cok (dev_read i).
Proof.
  intros s o s' E Hc. unfold dev_read in E.
  destruct (faulty s); inversion E; subst; intros j Hj; exact (Hc j Hj).
Qed.

(* the cache fill, under any schedule *)
Lemma cok_cache_read i : cok (cache_read i).
Proof.
  intros s o s' E Hc. unfold cache_read in E. rewrite bind_get in E.
  destruct (opt_eqb (s_tag s) i). { inversion E; subst; exact Hc. }
  unfold bind, modify, try, dev_read, fail, ret in E.
  destruct (faulty (set_s_tag s None)); inversion E; subst; intros j Hj; cbn in Hj.
  - discriminate.
  - inversion Hj; subst. reflexivity.
Qed.

Create HintDb cok.
#[export] Hint Resolve cok_ret cok_fail cok_panic cok_oof cok_get cok_dev_read cok_cache_read : cok.

Ltac dev_same_tac := intros ?; repeat split; reflexivity.
Ltac cok_step :=
  match goal with
  | |- cok (bind _ _) => apply cok_bind; [|intros ?]
  | |- cok (try _) => apply cok_try
  | |- cok (locked _) => apply cok_locked
  | |- cok (lift _ _) => apply cok_lift
  | |- cok (modify _) => apply cok_modify; dev_same_tac
  | |- cok (if ?b then _ else _) => destruct b
  | |- cok (match ?x with _ => _ end) => destruct x
  | |- cok (let _ := _ in _) => cbv zeta
  | |- cok _ => solve [auto 2 with cok]
  end.
Ltac cok_go := repeat cok_step.

Lemma cok_add32 a b : cok (add32 a b). Proof. unfold add32. cok_go. Qed.
Lemma cok_sub32 a b : cok (sub32 a b). Proof. unfold sub32. cok_go. Qed.
Lemma cok_mul32 a b : cok (mul32 a b). Proof. unfold mul32. cok_go. Qed.
#[export] Hint Resolve cok_add32 cok_sub32 cok_mul32 : cok.
Lemma cok_get_vol vi : cok (get_vol vi). Proof. unfold get_vol. cok_go. Qed.
Lemma cok_put_vol vi v : cok (put_vol vi v). Proof. unfold put_vol. cok_go. Qed.
Lemma cok_get_dir i : cok (get_dir i). Proof. unfold get_dir. cok_go. Qed.
Lemma cok_get_file i : cok (get_file i). Proof. unfold get_file. cok_go. Qed.
Lemma cok_put_file i f : cok (put_file i f). Proof. unfold put_file. cok_go. Qed.
Lemma cok_get_volume_by_id h : cok (get_volume_by_id h). Proof. unfold get_volume_by_id. cok_go. Qed.
Lemma cok_get_dir_by_id h : cok (get_dir_by_id h). Proof. unfold get_dir_by_id. cok_go. Qed.
Lemma cok_get_file_by_id h : cok (get_file_by_id h). Proof. unfold get_file_by_id. cok_go. Qed.
Lemma cok_generate : cok generate. Proof. unfold generate. cok_go. Qed.
Lemma cok_push_dir d : cok (push_dir d). Proof. unfold push_dir. cok_go. Qed.
Lemma cok_get_timestamp : cok get_timestamp. Proof. unfold get_timestamp. cok_go. Qed.
#[export] Hint Resolve cok_get_vol cok_put_vol cok_get_dir cok_get_file cok_put_file cok_get_volume_by_id
  cok_get_dir_by_id cok_get_file_by_id cok_generate cok_push_dir cok_get_timestamp : cok.
Lemma cok_fat_block v a b : cok (fat_block v a b). Proof. unfold fat_block. cok_go. Qed.
Lemma cok_cluster_to_block v c : cok (cluster_to_block v c). Proof. unfold cluster_to_block. cok_go. Qed.
#[export] Hint Resolve cok_fat_block cok_cluster_to_block : cok.
Lemma cok_next_cluster v c : cok (next_cluster v c). Proof. unfold next_cluster. cok_go. Qed.
#[export] Hint Resolve cok_next_cluster : cok.
Lemma cok_for_blocks_from {R} (body : N -> M (option R)) :
  (forall i, cok (body i)) -> forall n i, cok (for_blocks_from n i body).
Proof.
  intros Hb. induction n as [|n IH]; intros i; cbn [for_blocks_from]; [apply cok_ret|].
  apply cok_bind; [apply Hb|]. intros [x|]; [apply cok_ret | apply IH].
Qed.
Lemma cok_for_blocks {R} (body : N -> M (option R)) first size :
  (forall i, cok (body i)) -> cok (for_blocks first size body).
Proof.
  intros Hb. unfold for_blocks. apply cok_bind; [apply cok_add32|]. intros _. apply cok_for_blocks_from. exact Hb.
Qed.
#[export] Hint Resolve cok_for_blocks : cok.
Lemma cok_walk_dir_ro {R} vi (body : N -> M (option R)) :
  (forall blk, cok (body blk)) -> forall fuel cluster, cok (walk_dir fuel vi cluster false body).
Proof. intros Hb. induction fuel as [|fuel IH]; intros cluster; cbn [walk_dir]; cok_go. Qed.
Lemma cok_find_directory_entry vi c name : cok (find_directory_entry vi c name).
Proof. unfold find_directory_entry. cok_go. apply cok_walk_dir_ro. intros blk. cok_go. Qed.
Lemma cok_iter_blocks fat32 : forall n i acc, cok (iter_blocks n fat32 i acc).
Proof. induction n as [|n IH]; intros i acc; cbn [iter_blocks]; cok_go. Qed.
#[export] Hint Resolve cok_find_directory_entry cok_iter_blocks : cok.
Lemma cok_iter_walk vi : forall fuel c acc, cok (iter_walk fuel vi c acc).
Proof. induction fuel as [|fuel IH]; intros c acc; cbn [iter_walk]; cok_go. Qed.
#[export] Hint Resolve cok_iter_walk : cok.
Lemma cok_iterate_dir_all vi c : cok (iterate_dir_all vi c).
Proof. unfold iterate_dir_all. cok_go. Qed.
#[export] Hint Resolve cok_iterate_dir_all : cok.
Lemma cok_mgr_find d name : cok (mgr_find d name). Proof. unfold mgr_find. cok_go. Qed.
Lemma cok_iter_listing d : cok (iter_listing d). Proof. unfold iter_listing. cok_go. Qed.
Lemma cok_with_file {A} h (k : nat -> fileinfo -> M A) : (forall fi f, cok (k fi f)) -> cok (with_file h k).
Proof. intros Hk. unfold with_file. cok_go. Qed.
(* open_dir as a whole (lookup, then the table push) keeps the cache coherent *)
Theorem C11_open_dir_cache d name : cok (step (OpenDir d name)).
Proof. cbn [step]. unfold open_dir. cok_go. Qed.

(* ---- the reads_only half for the listing (PrModes has it for the lookup) ---- *)
Lemma ro_locked {A} (m : M A) : ro m -> ro (locked m).
Proof.
  intros Hm. unfold locked. apply ro_bind; [apply ro_get|]. intros s1.
  destruct (s_lock s1); [apply ro_fail | exact Hm].
Qed.
Lemma ro_lift {A} (f : A -> res) (m : M A) : ro m -> ro (lift f m).
Proof. intros Hm. unfold lift. apply ro_bind; [exact Hm | intros a; apply ro_ret]. Qed.
Lemma ro_get_dir i : ro (get_dir i). Proof. unfold get_dir. ro_go. Qed.
Lemma ro_get_file i : ro (get_file i). Proof. unfold get_file. ro_go. Qed.
Lemma ro_get_volume_by_id h : ro (get_volume_by_id h). Proof. unfold get_volume_by_id. ro_go. Qed.
Lemma ro_get_dir_by_id h : ro (get_dir_by_id h). Proof. unfold get_dir_by_id. ro_go. Qed.
Lemma ro_get_file_by_id h : ro (get_file_by_id h). Proof. unfold get_file_by_id. ro_go. Qed.
#[export] Hint Resolve ro_get_dir ro_get_file ro_get_volume_by_id ro_get_dir_by_id ro_get_file_by_id : ro.
Lemma ro_iter_blocks fat32 : forall n i acc, ro (iter_blocks n fat32 i acc).
Proof. induction n as [|n IH]; intros i acc; cbn [iter_blocks]; ro_go. Qed.
#[export] Hint Resolve ro_iter_blocks : ro.
Lemma ro_iter_walk vi : forall fuel c acc, ro (iter_walk fuel vi c acc).
Proof. induction fuel as [|fuel IH]; intros c acc; cbn [iter_walk]; ro_go. Qed.
#[export] Hint Resolve ro_iter_walk : ro.
Lemma ro_iterate_dir_all vi c : ro (iterate_dir_all vi c).
Proof. unfold iterate_dir_all. ro_go. Qed.
Lemma ro_iter_listing d : ro (iter_listing d).
Proof. unfold iter_listing. pose proof ro_iterate_dir_all. ro_go. Qed.
Lemma ro_mgr_find d name : ro (mgr_find d name).
Proof.
  unfold mgr_find. apply ro_locked. pose proof find_directory_entry_reads_only. ro_go.
Qed.
Lemma ro_with_file {A} h (k : nat -> fileinfo -> M A) : (forall fi f, ro (k fi f)) -> ro (with_file h k).
Proof. intros Hk. unfold with_file. apply ro_locked. ro_go. Qed.

(* ---- the combined statement ---- *)
(* nothing but device-side bookkeeping changed, only reads were issued, and the cache is
   still (or again) coherent *)
Definition rstep (s s' : st) : Prop := reads_only s s' /\ (cache_ok s -> cache_ok s').

Lemma reads_only_unlock s s1 : s_lock s = false -> reads_only s s1 ->
  reads_only s (set_s_lock (set_s_lock s1 true) false).
Proof.
  intros Hl ((A1 & A2 & A3 & A4 & A5 & A6 & A7 & A8 & A9 & A10) & D & l & T & F).
  split; [unfold same_mgr; cbn; repeat split; try assumption; congruence|].
  split; [exact D|]. exists l. split; [exact T|exact F].
Qed.

(* the read-only ops of the script language: lookup, listing (without a callback op), the
   three file queries, the open-handles query *)
Definition ro_op (o : op) : bool :=
  match o with
  | Find _ _ | Iter _ None | Length _ | Offset _ | Eof _ | HasOpen => true
  | _ => false
  end.

Theorem C11_ro_call_state : forall o s out s', ro_op o = true -> step o s = (out, s') -> rstep s s'.
Proof.
  intros o s out s' Ho E. destruct o as [| | | | |d name|d [o'|]| | | | | | | | |f|f|f| | | | | | | |]; try discriminate; cbn [step] in E.
  - (* Find *) split; [exact (ro_lift _ _ (ro_mgr_find d name) _ _ _ E)|exact (cok_lift _ _ (cok_mgr_find d name) _ _ _ E)].
  - (* Iter, no callback op *)
    destruct (s_lock s) eqn:Hl.
    { unfold bind in E. unfold mgr_iterate in E. rewrite (locked_held _ s Hl) in E. inversion E; subst.
      split; [apply PrModes.ro_refl|auto]. }
    unfold bind in E. rewrite (proj1 (C08_iterate_holds_lock _ d (ret RUnit) s Hl)) in E.
    destruct (iter_listing d s) as [o1 s1] eqn:E1.
    pose proof (ro_iter_listing d _ _ _ E1) as R1. pose proof (cok_iter_listing d _ _ _ E1) as C1.
    unfold iterate_outcome, ret in E.
    destruct o1 as [[|e0 shown]|e| |]; inversion E; subst; try (split; assumption).
    split; [apply reads_only_unlock; assumption|].
    intros Hc i Hi. exact (C1 Hc i Hi).
  - (* Length *) unfold file_length in E.
    split; [refine (ro_lift _ _ (ro_with_file f _ _) _ _ _ E)|refine (cok_lift _ _ (cok_with_file f _ _) _ _ _ E)];
      intros; first [apply ro_ret|apply cok_ret].
  - (* Offset *) unfold file_offset in E.
    split; [refine (ro_lift _ _ (ro_with_file f _ _) _ _ _ E)|refine (cok_lift _ _ (cok_with_file f _ _) _ _ _ E)];
      intros; first [apply ro_ret|apply cok_ret].
  - (* Eof *) unfold file_eof in E.
    split; [refine (ro_lift _ _ (ro_with_file f _ _) _ _ _ E)|refine (cok_lift _ _ (cok_with_file f _ _) _ _ _ E)];
      intros; first [apply ro_ret|apply cok_ret].
  - (* HasOpen *) unfold lift, has_open_handles, bind, get, ret in E. inversion E; subst.
    split; [apply PrModes.ro_refl|auto].
Qed.

(* Label on a volume whose boot-sector label is not blank: no device call, no change *)
Theorem C11_label_nonblank : forall h s vi v,
  s_lock s = false -> get_volume_by_id h s = (Ok vi, s) -> get_vol vi s = (Ok v, s) ->
  trim_rev (rev (v_name v)) <> [] ->
  step (Label h) s = (Ok (RLabel (Some (v_name v))), s).
Proof.
  intros h s vi v Hl H1 H2 Hn. cbn [step]. apply (lift_ok RLabel).
  unfold get_root_volume_label. rewrite (locked_free _ _ Hl).
  rewrite (bind_ok _ _ _ _ _ H1), (bind_ok _ _ _ _ _ H2).
  destruct (trim_rev (rev (v_name v))); [contradiction|reflexivity].
Qed.

(* OpenDir: the lookup part is read-only and keeps the cache coherent; the call ends in the
   state after the lookup, plus - on success - the pushed directory record *)
Theorem C11_open_dir_lookup : forall s d di dd vi v name sfn r s1,
  resolves s d di dd vi v -> is_full (s_dirs s) (s_maxd s) = false ->
  sfn_of_str name = Some sfn -> list_eqb sfn THIS_DIR_NAME = false ->
  find_directory_entry vi (d_cluster dd) sfn s = (r, s1) ->
  rstep s s1 /\
  (snd (open_dir d name s) = s1 \/
   exists cl, snd (open_dir d name s) = push_new_dir s1 (v_id v) cl) /\
  ((forall a, r <> Ok a) -> cast r = fst (open_dir d name s) /\ snd (open_dir d name s) = s1).
Proof.
  intros s d di dd vi v name sfn r s1 Hres Hfull Hsfn Hthis Hfind.
  destruct (C06_open_dir s d di dd vi v name Hres Hfull) as (_ & H).
  rewrite Hsfn, Hthis in H. destruct (H r s1 Hfind) as (Hro & Hopen).
  split; [split; [exact Hro|exact (cok_find_directory_entry _ _ _ _ _ _ Hfind)]|].
  rewrite Hopen. split.
  - destruct r as [e|e| |]; try (left; reflexivity).
    destruct (is_directory (e_attr e)); [right; eexists; reflexivity|left; reflexivity].
  - intros Hn. destruct r as [e|e| |]; try (split; reflexivity). exfalso. eapply Hn. reflexivity.
Qed.

(* ---- retry ---- *)
Lemma resolves_same_mgr s s' d di dd vi v : same_mgr s s' -> resolves s d di dd vi v -> resolves s' d di dd vi v.
Proof.
  intros (V & D & _ & _ & _ & L & _) (Hl & H1 & H2 & H3 & H4).
  rewrite get_dir_by_id_eq in H1. rewrite get_dir_eq in H2. rewrite get_volume_by_id_eq in H3.
  rewrite get_vol_eq in H4.
  unfold resolves. rewrite get_dir_by_id_eq, get_dir_eq, get_volume_by_id_eq, get_vol_eq, L, V, D.
  split; [exact Hl|].
  destruct (find_idx (fun d0 => d_id d0 =? d) (s_dirs s) 0); inversion H1; subst.
  destruct (nth_error (s_dirs s) di); inversion H2; subst.
  destruct (find_idx (fun v0 => v_id v0 =? d_vol dd) (s_vols s) 0); inversion H3; subst.
  destruct (nth_error (s_vols s) vi); inversion H4; subst.
  repeat split; reflexivity.
Qed.

Lemma resolves_nth s d di dd vi v : resolves s d di dd vi v -> nth_error (s_vols s) vi = Some v.
Proof.
  intros (_ & _ & _ & _ & H4). rewrite get_vol_eq in H4.
  destruct (nth_error (s_vols s) vi); inversion H4; subst; reflexivity.
Qed.

(* Find: whatever the first attempt returned under whatever faults (in particular
   Err DeviceError), the same call repeated with no further fault scheduled returns exactly
   what the lookup specification C06_find says for the medium of s: the first live slot whose
   name matches, NotFound if there is none.  The medium is still that of s afterwards. *)
Theorem C11_retry_find : forall s d di dd vi v name sfn bl out s',
  resolves s d di dd vi v -> vol_ok v -> cache_ok s -> sfn_of_str name = Some sfn ->
  dir_blocks (s_disk s) v (d_cluster dd) = Some bl ->
  step (Find d name) s = (out, s') ->
  no_faults s' ->
  exists s'', step (Find d name) s' =
      (match find (t_matches sfn) (live_in_blocks (s_disk s) bl) with
       | Some t => Ok (REntry (t_entry (v_fat32 v) t))
       | None => Err NotFound
       end, s'') /\
    s_disk s'' = s_disk s /\ cache_ok s'' /\ no_faults s'' /\ same_mgr s s''.
Proof.
  intros s d di dd vi v name sfn bl out s' Hres Hv Hc Hsfn Hbl E Hnf.
  destruct (C11_ro_call_state (Find d name) _ _ _ eq_refl E) as ((Hm & Hd & _) & Hc').
  specialize (Hc' Hc).
  pose proof (resolves_same_mgr _ _ _ _ _ _ _ Hm Hres) as Hres'.
  pose proof (resolves_nth _ _ _ _ _ _ Hres') as Hnth.
  rewrite <- Hd in Hbl.
  destruct (C06_find vi v (d_cluster dd) sfn s' bl Hnth Hv Hnf Hc' Hbl) as (s2 & Hrun & D2 & C2 & N2 & M2).
  exists s2. split; [|split; [congruence|split; [exact C2|split; [exact N2|eapply same_mgr_trans; eassumption]]]].
  destruct Hres' as (Hl & H1 & H2 & H3 & H4).
  assert (Hf : mgr_find d name s' = find_directory_entry vi (d_cluster dd) sfn s').
  { unfold mgr_find. rewrite (locked_free _ _ Hl).
    rewrite (bind_ok _ _ _ _ _ H1), (bind_ok _ _ _ _ _ H2), (bind_ok _ _ _ _ _ H3), Hsfn. reflexivity. }
  cbn [step]. rewrite Hd in Hrun. rewrite Hrun in Hf. clear Hrun.
  destruct (find (t_matches sfn) (live_in_blocks (s_disk s) bl)) as [t|].
  - exact (PrHandles.lift_ok REntry _ _ _ _ Hf).
  - exact (PrHandles.lift_err REntry _ _ _ _ Hf).
Qed.

(* Iter (no callback op): the retried listing is the one C06_iterate specifies for the medium
   of s - every valid slot before the end marker, in directory order, LFN fragments hidden *)
Theorem C11_retry_iter : forall s d di dd vi v bl out s',
  resolves s d di dd vi v -> vol_ok v -> cache_ok s ->
  dir_blocks (s_disk s) v (d_cluster dd) = Some bl ->
  step (Iter d None) s = (out, s') ->
  no_faults s' ->
  exists s'', step (Iter d None) s' =
      (Ok (RIter (filter (fun e => negb (is_lfn (e_attr e)))
                    (map (t_entry (v_fat32 v))
                         (filter t_is_valid (before_end_all (slots_of (s_disk s) bl))))) None), s'') /\
    s_disk s'' = s_disk s /\ cache_ok s'' /\ no_faults s'' /\ same_mgr s s''.
Proof.
  intros s d di dd vi v bl out s' Hres Hv Hc Hbl E Hnf.
  destruct (C11_ro_call_state (Iter d None) _ _ _ eq_refl E) as ((Hm & Hd & _) & Hc').
  specialize (Hc' Hc).
  pose proof (resolves_same_mgr _ _ _ _ _ _ _ Hm Hres) as Hres'.
  pose proof (resolves_nth _ _ _ _ _ _ Hres') as Hnth.
  rewrite <- Hd in Hbl.
  destruct (C06_iterate vi v (d_cluster dd) s' bl Hnth Hv Hnf Hc' Hbl) as (s2 & Hrun & D2 & C2 & N2 & M2).
  destruct Hres' as (Hl & H1 & H2 & H3 & H4).
  assert (Hlist : iter_listing d s' =
    (Ok (filter (fun e => negb (is_lfn (e_attr e)))
           (map (t_entry (v_fat32 v)) (filter t_is_valid (before_end_all (slots_of (s_disk s') bl))))), s2)).
  { unfold iter_listing.
    rewrite (bind_ok _ _ _ _ _ H1), (bind_ok _ _ _ _ _ H2), (bind_ok _ _ _ _ _ H3), (bind_ok _ _ _ _ _ Hrun).
    reflexivity. }
  assert (Hl2 : s_lock s2 = false) by (destruct M2 as (_ & _ & _ & _ & _ & L & _); congruence).
  rewrite Hd in Hlist.
  remember (filter (fun e => negb (is_lfn (e_attr e)))
              (map (t_entry (v_fat32 v)) (filter t_is_valid (before_end_all (slots_of (s_disk s) bl)))))
    as shown0 eqn:Es.
  cbn [step]. unfold bind. rewrite (proj1 (C08_iterate_holds_lock _ d (ret RUnit) s' Hl)), Hlist.
  unfold iterate_outcome, ret.
  destruct shown0 as [|e0 shown].
  - exists s2. split; [reflexivity|]. split; [congruence|]. split; [exact C2|]. split; [exact N2|].
    eapply same_mgr_trans; eassumption.
  - exists (set_s_lock (set_s_lock s2 true) false). split; [reflexivity|].
    split; [cbn; congruence|]. split; [intros i Hi; exact (C2 i Hi)|].
    split; [intros n Hn; exact (N2 n Hn)|].
    eapply same_mgr_trans; [exact Hm|].
    destruct M2 as (A1 & A2 & A3 & A4 & A5 & A6 & A7 & A8 & A9 & A10).
    unfold same_mgr; cbn; repeat split; try assumption. congruence.
Qed.

(* ================================================================== 3. Mkdir: the clean-up cannot panic *)
(* ---- 3.0 the device layer under ANY schedule: every outcome, described ---- *)
Lemma same_mgr_vols_eq s s' : same_mgr s s' -> s_vols s' = s_vols s.
Proof. intros (H & _). exact H. Qed.

Lemma cache_read_any i s o s' : cache_read i s = (o, s') ->
  same_mgr s s' /\ s_disk s' = s_disk s /\ (cache_ok s -> cache_ok s') /\
  ((o = Err DeviceError /\ s_tag s' = None) \/
   (exists b, o = Ok b /\ s_tag s' = Some i /\ s_cache s' = b /\
              (cache_ok s -> b = disk_get (s_disk s) i))).
Proof.
  intros E. pose proof (cok_cache_read i _ _ _ E) as Hc.
  unfold cache_read in E. rewrite bind_get in E.
  destruct (opt_eqb (s_tag s) i) eqn:Ht.
  - inversion E; subst. split; [apply same_mgr_refl|]. split; [reflexivity|]. split; [exact Hc|].
    right. exists (s_cache s'). unfold opt_eqb in Ht. destruct (s_tag s') as [j|] eqn:Etag; [|discriminate].
    apply N.eqb_eq in Ht. subst j. repeat split; auto.
  - unfold bind, modify, try, dev_read, fail, ret in E.
    destruct (faulty (set_s_tag s None)); inversion E; subst;
      (split; [unfold same_mgr; cbn; repeat split; reflexivity|]); (split; [reflexivity|]); (split; [exact Hc|]).
    + left. split; reflexivity.
    + right. eexists. repeat split.
Qed.

Lemma write_back_any s o s' : write_back s = (o, s') ->
  same_mgr s s' /\
  match s_tag s with
  | None => o = Panic
  | Some i =>
      (o = Ok tt /\ s_disk s' = disk_set (s_disk s) i (s_cache s) /\ s_tag s' = Some i /\ s_cache s' = s_cache s) \/
      (o = Err DeviceError /\ s_disk s' = s_disk s /\ s_tag s' = None)
  end.
Proof.
  intros E. unfold write_back in E. rewrite bind_get in E.
  destruct (s_tag s) as [i|] eqn:Et; [|inversion E; subst; split; [apply same_mgr_refl|reflexivity]].
  unfold bind, try, dev_write, modify, fail, ret in E.
  destruct (faulty s); inversion E; subst; (split; [unfold same_mgr; cbn; repeat split; reflexivity|]).
  - right. repeat split.
  - left. repeat split; cbn; auto.
Qed.

Lemma write_back_dup_any d s o s' : write_back_with_duplicate d s = (o, s') ->
  same_mgr s s' /\
  match s_tag s with
  | None => o = Panic
  | Some i =>
      (o = Ok tt /\ s_disk s' = disk_set (disk_set (s_disk s) i (s_cache s)) d (s_cache s) /\
       s_tag s' = Some i /\ s_cache s' = s_cache s) \/
      (o = Err DeviceError /\ s_disk s' = s_disk s /\ s_tag s' = None) \/
      (o = Err DeviceError /\ s_disk s' = disk_set (s_disk s) i (s_cache s) /\
       s_tag s' = Some i /\ s_cache s' = s_cache s)
  end.
Proof.
  intros E. unfold write_back_with_duplicate in E. rewrite bind_get in E.
  destruct (s_tag s) as [i|] eqn:Et; [|inversion E; subst; split; [apply same_mgr_refl|reflexivity]].
  unfold bind, try, modify, fail, ret in E. unfold dev_write at 1 in E.
  destruct (faulty s).
  - inversion E; subst. split; [unfold same_mgr; cbn; repeat split; reflexivity|]. right. left. repeat split.
  - unfold dev_write in E.
    destruct (faulty _); inversion E; subst; (split; [unfold same_mgr; cbn; repeat split; reflexivity|]).
    + right. right. repeat split; cbn; auto.
    + left. repeat split; cbn; auto.
Qed.

(* read block i, change it with f, write it back: three ways to end, never a panic, the cache
   coherent in each *)
Lemma rmw_any i f s o s' : cache_ok s ->
  (_ <- cache_read i ;; cache_modify f ;;; write_back) s = (o, s') ->
  same_mgr s s' /\ cache_ok s' /\
  ((o = Err DeviceError /\ s_disk s' = s_disk s) \/
   (o = Ok tt /\ s_disk s' = disk_set (s_disk s) i (f (disk_get (s_disk s) i)))).
Proof.
  intros Hc E. unfold bind at 1 in E.
  destruct (cache_read i s) as [o1 s1] eqn:E1.
  destruct (cache_read_any _ _ _ _ E1) as (M1 & D1 & C1 & [(-> & T1)|(b & -> & T1 & B1 & Hb)]).
  { inversion E; subst. split; [exact M1|]. split; [exact (C1 Hc)|]. left. auto. }
  specialize (Hb Hc). unfold bind, cache_modify, modify in E.
  destruct (write_back_any _ _ _ E) as (M2 & W). cbn [s_tag set_s_cache] in W. rewrite T1 in W.
  assert (M : same_mgr s s').
  { eapply same_mgr_trans; [exact M1|]. destruct M2 as (A1 & A2 & A3 & A4 & A5 & A6 & A7 & A8 & A9 & A10).
    unfold same_mgr. cbn in *. repeat split; assumption. }
  split; [exact M|]. cbn [s_disk s_cache set_s_cache] in W. rewrite D1, B1, Hb in W.
  destruct W as [(-> & Wd & Wt & Wc)|(-> & Wd & Wt)].
  - split; [|right; auto]. intros j Hj. rewrite Wt in Hj. inversion Hj; subst j.
    rewrite Wc, Wd, disk_get_set_same. reflexivity.
  - split; [|left; auto]. intros j Hj. rewrite Wt in Hj. discriminate.
Qed.

Lemma rmw_dup_any i d f s o s' : cache_ok s ->
  (_ <- cache_read i ;; cache_modify f ;;; write_back_with_duplicate d) s = (o, s') ->
  same_mgr s s' /\ cache_ok s' /\
  let nb := f (disk_get (s_disk s) i) in
  ((o = Err DeviceError /\ s_disk s' = s_disk s) \/
   (o = Ok tt /\ s_disk s' = disk_set (disk_set (s_disk s) i nb) d nb) \/
   (o = Err DeviceError /\ s_disk s' = disk_set (s_disk s) i nb)).
Proof.
  intros Hc E. unfold bind at 1 in E.
  destruct (cache_read i s) as [o1 s1] eqn:E1.
  destruct (cache_read_any _ _ _ _ E1) as (M1 & D1 & C1 & [(-> & T1)|(b & -> & T1 & B1 & Hb)]).
  { inversion E; subst. split; [exact M1|]. split; [exact (C1 Hc)|]. left. auto. }
  specialize (Hb Hc). unfold bind, cache_modify, modify in E.
  destruct (write_back_dup_any _ _ _ _ E) as (M2 & W). cbn [s_tag set_s_cache] in W. rewrite T1 in W.
  assert (M : same_mgr s s').
  { eapply same_mgr_trans; [exact M1|]. destruct M2 as (A1 & A2 & A3 & A4 & A5 & A6 & A7 & A8 & A9 & A10).
    unfold same_mgr. cbn in *. repeat split; assumption. }
  split; [exact M|]. cbn [s_disk s_cache set_s_cache] in W. rewrite D1, B1, Hb in W. cbv zeta.
  destruct W as [(-> & Wd & Wt & Wc)|[(-> & Wd & Wt)|(-> & Wd & Wt & Wc)]].
  - split; [|right; left; auto]. intros j Hj. rewrite Wt in Hj. inversion Hj; subst j. rewrite Wc, Wd.
    destruct (N.eq_dec d i) as [->|Hne]; [rewrite disk_get_set_same; reflexivity|].
    rewrite disk_get_set_other by exact Hne. rewrite disk_get_set_same. reflexivity.
  - split; [|left; auto]. intros j Hj. rewrite Wt in Hj. discriminate.
  - split; [|right; right; auto]. intros j Hj. rewrite Wt in Hj. inversion Hj; subst j.
    rewrite Wc, Wd, disk_get_set_same. reflexivity.
Qed.

(* update_fat under any schedule, the cache coherent at the start: never a panic, the cache
   coherent at the end, and the medium is untouched, or fully updated (result Ok), or - when
   the write to the second FAT copy failed - updated in the first copy only *)
Lemma update_fat_any vi c x s v o s' :
  cache_ok s -> nth_error (s_vols s) vi = Some v -> fat_addr_ok v c ->
  update_fat vi c x s = (o, s') ->
  let this := fat_sector v 0 c in
  let dup := fat_sector v 1 c in
  let nb := fat_put_block v (disk_get (s_disk s) this) c x in
  same_mgr s s' /\ cache_ok s' /\
  ((o = Err DeviceError /\ s_disk s' = s_disk s) \/
   (o = Ok tt /\ s_disk s' = fat_disk_after (v_second_fat v) (s_disk s) this dup nb) \/
   (o = Err DeviceError /\ s_disk s' = disk_set (s_disk s) this nb)).
Proof.
  intros Hc Hv (Hmul & H0 & H1) E. intros this dup nb.
  unfold update_fat in E. rewrite (bind_ok _ _ _ _ _ (get_vol_ok vi v s Hv)) in E.
  subst this dup nb. unfold fat_put_block, fat_sector, fat_copy_sector, fat_off, fat_copy_start, fat_width, fat_disk_after in *.
  change (0 =? 0) with true in *. change (1 =? 0) with false in *. cbv iota in *.
  destruct (v_fat32 v).
  - rewrite (bind_ok _ _ _ _ _ (mul32_ok c 4 s Hmul)) in E.
    rewrite (bind_ok _ _ _ _ _ (fat_block_ok v (v_fat_start v) (c * 4) s H0)) in E.
    destruct (v_second_fat v) as [sf|].
    + assert (Hsec : (x0 <- fat_block v sf (c * 4) ;; ret (Some x0)) s
                     = (Ok (Some (v_lba v + (sf + c * 4 / 512))), s)).
      { rewrite (bind_ok _ _ _ _ _ (fat_block_ok v sf (c * 4) s H1)). reflexivity. }
      rewrite (bind_ok _ _ _ _ _ Hsec) in E. cbv beta zeta in E.
      destruct (rmw_dup_any _ _ _ _ _ _ Hc E) as (M & C & D). split; [exact M|]. split; [exact C|].
      cbv zeta in D. destruct D as [D|[D|D]]; auto.
    + rewrite (bind_ok _ _ _ _ _ (eq_refl : ret (@None N) s = (Ok None, s))) in E. cbv beta zeta in E.
      destruct (rmw_any _ _ _ _ _ Hc E) as (M & C & D). split; [exact M|]. split; [exact C|].
      destruct D as [D|D]; auto.
  - rewrite (bind_ok _ _ _ _ _ (mul32_ok c 2 s Hmul)) in E.
    rewrite (bind_ok _ _ _ _ _ (fat_block_ok v (v_fat_start v) (c * 2) s H0)) in E.
    destruct (v_second_fat v) as [sf|].
    + assert (Hsec : (x0 <- fat_block v sf (c * 2) ;; ret (Some x0)) s
                     = (Ok (Some (v_lba v + (sf + c * 2 / 512))), s)).
      { rewrite (bind_ok _ _ _ _ _ (fat_block_ok v sf (c * 2) s H1)). reflexivity. }
      rewrite (bind_ok _ _ _ _ _ Hsec) in E. cbv beta zeta in E.
      destruct (rmw_dup_any _ _ _ _ _ _ Hc E) as (M & C & D). split; [exact M|]. split; [exact C|].
      cbv zeta in D. destruct D as [D|[D|D]]; auto.
    + rewrite (bind_ok _ _ _ _ _ (eq_refl : ret (@None N) s = (Ok None, s))) in E. cbv beta zeta in E.
      destruct (rmw_any _ _ _ _ _ Hc E) as (M & C & D). split; [exact M|]. split; [exact C|].
      destruct D as [D|D]; auto.
Qed.

(* next_cluster under any schedule, the cache coherent: DeviceError, or the classification of
   the entry that the medium holds *)
Lemma next_cluster_any v c s o s' :
  vol_ok v -> c < v_clusters v + 2 -> cache_ok s -> try (next_cluster v c) s = (o, s') ->
  same_mgr s s' /\ s_disk s' = s_disk s /\ cache_ok s' /\
  (o = Ok (inr DeviceError) \/ o = Ok (next_result v (PrAlloc.fat_entry (s_disk s) v c))).
Proof.
  intros Hv Hc Hco E.
  pose proof (fat_sector_ok v c s Hv Hc) as Hfb.
  assert (Hp : (1073741823 <? c) = false).
  { apply N.ltb_ge. destruct Hv as [H1 _ _ _]. unfold U32 in H1. lia. }
  unfold try, next_cluster in E. rewrite Hp in E.
  unfold next_result, PrAlloc.fat_entry. unfold fat_w in *.
  destruct (v_fat32 v).
  - rewrite (bind_ok _ _ _ _ _ Hfb) in E. unfold bind in E.
    destruct (cache_read _ s) as [o1 s1] eqn:E1.
    destruct (cache_read_any _ _ _ _ E1) as (M1 & D1 & C1 & [(-> & T1)|(b & -> & T1 & B1 & Hb)]).
    + inversion E; subst. auto.
    + rewrite <- (Hb Hco).
      repeat match type of E with context [if ?b then _ else _] => destruct b end;
        inversion E; subst; auto.
  - rewrite (bind_ok _ _ _ _ _ Hfb) in E. unfold bind in E.
    destruct (cache_read _ s) as [o1 s1] eqn:E1.
    destruct (cache_read_any _ _ _ _ E1) as (M1 & D1 & C1 & [(-> & T1)|(b & -> & T1 & B1 & Hb)]).
    + inversion E; subst. auto.
    + rewrite <- (Hb Hco).
      repeat match type of E with context [if ?b then _ else _] => destruct b end;
        inversion E; subst; auto.
Qed.

(* ---- 3.1 the cluster alloc_cluster returns is a data cluster, under ANY schedule ---- *)
Lemma find_loop_range v endc : forall fuel cur s c s',
  find_next_free_loop fuel v cur endc s = (Ok c, s') -> cur <= c /\ c < endc.
Proof.
  induction fuel as [|f IH]; intros cur s c s' E; cbn [find_next_free_loop] in E; [discriminate|].
  destruct (cur <? endc); [|discriminate].
  apply bind_inv in E. destruct E as (fo & s1 & _ & E).
  apply bind_inv in E. destruct E as (this & s2 & _ & E).
  apply bind_inv in E. destruct E as (b & s3 & _ & E).
  destruct (scan_sector 257 (v_fat32 v) b (fo mod 512) cur endc) as [[c0|] cur'] eqn:Hs.
  - inversion E; subst. destruct (scan_sector_sound _ _ _ _ _ _ _ _ Hs) as (S1 & S2 & _). split; assumption.
  - apply IH in E. destruct (scan_sector_none _ _ _ _ _ _ _ Hs) as (N1 & _). lia.
Qed.

Lemma try_inv {A} (m : M A) s x s' : try m s = (Ok x, s') ->
  match x with inl a => m s = (Ok a, s') | inr e => m s = (Err e, s') end.
Proof. unfold try. destruct (m s) as [[a|e| |] s1]; intros E; inversion E; subst; reflexivity. Qed.

Theorem alloc_range_any vi v prev zero s c s' :
  nth_error (s_vols s) vi = Some v -> hint_ok v ->
  alloc_cluster vi prev zero s = (Ok c, s') -> 2 <= c /\ c < v_clusters v + 2.
Proof.
  intros Hvi Hh H. unfold alloc_cluster in H.
  rewrite (bind_ok _ _ _ _ _ (get_vol_some vi v s Hvi)) in H.
  apply bind_inv in H. destruct H as (endc & s0 & Ha & H).
  apply PrOrder.add32_inv in Ha. destruct Ha as (-> & -> & _). unfold RESERVED_ENTRIES in H.
  cbv zeta in H.
  remember (match v_next_free v with
            | Some c0 => if c0 <? v_clusters v + 2 then c0 else 2
            | None => 2 end) as start eqn:Estart.
  assert (Hs1 : 2 <= start).
  { subst start. destruct (v_next_free v) as [c0|] eqn:En; [|lia].
    destruct (c0 <? v_clusters v + 2); [|lia]. exact (Hh c0 En). }
  apply bind_inv in H. destruct H as (r & s1 & Hr & H).
  apply bind_inv in H. destruct H as (a & s2 & Ha & H).
  assert (Hrange : 2 <= a /\ a < v_clusters v + 2).
  { apply try_inv in Hr. destruct r as [c0|e].
    - inversion Ha; subst. apply find_loop_range in Hr. lia.
    - destruct e; try discriminate. destruct (2 <? start); [|discriminate].
      apply find_loop_range in Ha. lia. }
  repeat (apply bind_inv in H; destruct H as (? & ? & _ & H)).
  inversion H; subst. exact Hrange.
Qed.

(* ---- 3.2 the geometry of volume vi is carried through, under ANY schedule and outcome ---- *)
(* the record at index vi differs from v0 in the two free-space hints only *)
Definition geo (vi : nat) (v0 : vol) (s : st) : Prop :=
  exists w, nth_error (s_vols s) vi = Some w /\ PrChain.geo_eq v0 w.
Definition gk (vi : nat) (v0 : vol) {A} (m : M A) : Prop :=
  forall s o s', geo vi v0 s -> m s = (o, s') -> geo vi v0 s'.

Section Geo.
Variable vi : nat.
Variable v0 : vol.
Lemma gk_ret {A} (a : A) : gk vi v0 (ret a). Proof. intros s o s' H E; inversion E; subst; exact H. Qed.
Lemma gk_fail {A} e : gk vi v0 (@fail A e). Proof. intros s o s' H E; inversion E; subst; exact H. Qed.
Lemma gk_panic {A} : gk vi v0 (@panic A). Proof. intros s o s' H E; inversion E; subst; exact H. Qed.
Lemma gk_oof {A} : gk vi v0 (@out_of_fuel A). Proof. intros s o s' H E; inversion E; subst; exact H. Qed.
Lemma gk_get : gk vi v0 get. Proof. intros s o s' H E; inversion E; subst; exact H. Qed.
Lemma gk_bind {A B} (m : M A) (k : A -> M B) : gk vi v0 m -> (forall a, gk vi v0 (k a)) -> gk vi v0 (bind m k).
Proof.
  intros Hm Hk s o s' H E. unfold bind in E.
  destruct (m s) as [[a|e| |] s1] eqn:Em; pose proof (Hm _ _ _ H Em) as H1.
  - exact (Hk a _ _ _ H1 E).
  - inversion E; subst; exact H1.
  - inversion E; subst; exact H1.
  - inversion E; subst; exact H1.
Qed.
Lemma gk_try {A} (m : M A) : gk vi v0 m -> gk vi v0 (try m).
Proof.
  intros Hm s o s' H E. unfold try in E.
  destruct (m s) as [[a|e| |] s1] eqn:Em; pose proof (Hm _ _ _ H Em) as H1; inversion E; subst; exact H1.
Qed.
Lemma gk_modify f : (forall s, s_vols (f s) = s_vols s) -> gk vi v0 (modify f).
Proof. intros Hf s o s' (w & H1 & H2) E. inversion E; subst. exists w. rewrite Hf. auto. Qed.
Lemma gk_bind_get_vol {B} (k : vol -> M B) :
  (forall w, PrChain.geo_eq v0 w -> gk vi v0 (k w)) -> gk vi v0 (bind (get_vol vi) k).
Proof.
  intros Hk s o s' H E. destruct H as (w & H1 & H2).
  rewrite (bind_ok _ _ _ _ _ (get_vol_some vi w s H1)) in E.
  exact (Hk w H2 _ _ _ (ex_intro _ w (conj H1 H2)) E).
Qed.
Lemma gk_get_vol : gk vi v0 (get_vol vi).
Proof. intros s o s' H E. rewrite get_vol_eq in E. destruct (nth_error _ _); inversion E; subst; exact H. Qed.
Lemma gk_put_vol w : PrChain.geo_eq v0 w -> gk vi v0 (put_vol vi w).
Proof.
  intros Hw s o s' (w1 & H1 & H2) E. inversion E; subst. exists w. split; [|exact Hw].
  cbn [s_vols set_s_vols]. exact (PrAllocEffect.ls_nth_same _ _ _ _ H1).
Qed.
Lemma gk_dev_read i : gk vi v0 (dev_read i).
Proof. intros s o s' H E. unfold dev_read in E. destruct (faulty s); inversion E; subst; exact H. Qed.
Lemma gk_dev_write i b : gk vi v0 (dev_write i b).
Proof. intros s o s' H E. unfold dev_write in E. destruct (faulty s); inversion E; subst; exact H. Qed.
End Geo.

Create HintDb gk.
#[export] Hint Resolve gk_ret gk_fail gk_panic gk_oof gk_get gk_get_vol gk_dev_read gk_dev_write : gk.
#[export] Hint Resolve PrChain.geo_eq_free PrChain.geo_eq_next PrChain.geo_eq_refl : gk.

Ltac gk_step :=
  match goal with
  | |- gk ?vi _ (bind (get_vol ?vi) _) => apply gk_bind_get_vol; intros ? ?
  | |- gk _ _ (bind _ _) => apply gk_bind; [|intros ?]
  | |- gk _ _ (try _) => apply gk_try
  | |- gk _ _ (put_vol _ _) => apply gk_put_vol; solve [auto 4 with gk]
  | |- gk _ _ (modify _) => apply gk_modify; intros ?; reflexivity
  | |- gk _ _ (if ?b then _ else _) => destruct b
  | |- gk _ _ (match ?x with _ => _ end) => destruct x
  | |- gk _ _ (let _ := _ in _) => cbv zeta
  | |- gk _ _ _ => solve [auto 2 with gk]
  end.
Ltac gk_go := repeat gk_step.

Section Geo2.
Variable vi : nat.
Variable v0 : vol.
Lemma gk_add32 a b : gk vi v0 (add32 a b). Proof. unfold add32. gk_go. Qed.
Lemma gk_sub32 a b : gk vi v0 (sub32 a b). Proof. unfold sub32. gk_go. Qed.
Lemma gk_mul32 a b : gk vi v0 (mul32 a b). Proof. unfold mul32. gk_go. Qed.
Hint Resolve gk_add32 gk_sub32 gk_mul32 : gk.
Lemma gk_cache_read i : gk vi v0 (cache_read i). Proof. unfold cache_read. gk_go. Qed.
Lemma gk_cache_modify f : gk vi v0 (cache_modify f). Proof. unfold cache_modify. gk_go. Qed.
Lemma gk_write_back : gk vi v0 write_back. Proof. unfold write_back. gk_go. Qed.
Lemma gk_write_back_dup d : gk vi v0 (write_back_with_duplicate d). Proof. unfold write_back_with_duplicate. gk_go. Qed.
Lemma gk_blank_mut i : gk vi v0 (blank_mut i). Proof. unfold blank_mut. gk_go. Qed.
Hint Resolve gk_cache_read gk_cache_modify gk_write_back gk_write_back_dup gk_blank_mut : gk.
Lemma gk_fat_block v a b : gk vi v0 (fat_block v a b). Proof. unfold fat_block. gk_go. Qed.
Lemma gk_cluster_to_block v c : gk vi v0 (cluster_to_block v c). Proof. unfold cluster_to_block. gk_go. Qed.
Lemma gk_ts_to_fat t : gk vi v0 (ts_to_fat t). Proof. unfold ts_to_fat. gk_go. Qed.
Hint Resolve gk_fat_block gk_cluster_to_block gk_ts_to_fat : gk.
Lemma gk_serialize b e : gk vi v0 (serialize b e). Proof. unfold serialize. gk_go. Qed.
Lemma gk_get_timestamp : gk vi v0 get_timestamp. Proof. unfold get_timestamp. gk_go. Qed.
Hint Resolve gk_serialize gk_get_timestamp : gk.
Lemma gk_update_fat c x : gk vi v0 (update_fat vi c x). Proof. unfold update_fat. gk_go. Qed.
Lemma gk_next_cluster v c : gk vi v0 (next_cluster v c). Proof. unfold next_cluster. gk_go. Qed.
Hint Resolve gk_update_fat gk_next_cluster : gk.
Lemma gk_for_blocks_from {R} (body : N -> M (option R)) :
  (forall i, gk vi v0 (body i)) -> forall n i, gk vi v0 (for_blocks_from n i body).
Proof.
  intros Hb. induction n as [|n IH]; intros i; cbn [for_blocks_from]; [apply gk_ret|].
  apply gk_bind; [apply Hb|]. intros [x|]; [apply gk_ret | apply IH].
Qed.
Lemma gk_for_blocks {R} (body : N -> M (option R)) first size :
  (forall i, gk vi v0 (body i)) -> gk vi v0 (for_blocks first size body).
Proof. intros Hb. unfold for_blocks. apply gk_bind; [apply gk_add32|]. intros _. apply gk_for_blocks_from. exact Hb. Qed.
Lemma gk_find_next_free_loop v endc : forall fuel cur, gk vi v0 (find_next_free_loop fuel v cur endc).
Proof. induction fuel as [|f IH]; intros cur; cbn [find_next_free_loop]; gk_go. Qed.
Lemma gk_find_next_free_cluster v a b : gk vi v0 (find_next_free_cluster v a b).
Proof. apply gk_find_next_free_loop. Qed.
Hint Resolve gk_find_next_free_cluster : gk.
Lemma gk_zero_cluster v c : gk vi v0 (zero_cluster v c).
Proof. unfold zero_cluster. gk_go. apply gk_for_blocks. intros i. gk_go. Qed.
Hint Resolve gk_zero_cluster : gk.
Lemma gk_alloc_cluster prev zero : gk vi v0 (alloc_cluster vi prev zero).
Proof. unfold alloc_cluster. gk_go. Qed.
Hint Resolve gk_alloc_cluster : gk.
Lemma gk_bump_free : gk vi v0 (bump_free vi). Proof. unfold bump_free. gk_go. Qed.
Hint Resolve gk_bump_free : gk.
Lemma gk_truncate_loop : forall fuel next, gk vi v0 (truncate_loop fuel vi next).
Proof. induction fuel as [|f IH]; intros next; cbn [truncate_loop]; gk_go. Qed.
Hint Resolve gk_truncate_loop : gk.
Lemma gk_truncate_cluster_chain c : gk vi v0 (truncate_cluster_chain vi c).
Proof. unfold truncate_cluster_chain. gk_go. Qed.
Hint Resolve gk_truncate_cluster_chain : gk.
Lemma gk_free_cluster_chain c : gk vi v0 (free_cluster_chain vi c).
Proof. unfold free_cluster_chain. gk_go. Qed.
Lemma gk_walk_dir {R} grow (body : N -> M (option R)) :
  (forall blk, gk vi v0 (body blk)) -> forall fuel cluster, gk vi v0 (walk_dir fuel vi cluster grow body).
Proof.
  intros Hb. induction fuel as [|fuel IH]; intros cluster; cbn [walk_dir]; gk_go.
  all: apply gk_for_blocks; exact Hb.
Qed.
Lemma gk_write_new_directory_entry dc name attr fc : gk vi v0 (write_new_directory_entry vi dc name attr fc).
Proof. unfold write_new_directory_entry. gk_go. apply gk_walk_dir. intros blk. gk_go. Qed.
End Geo2.

(* ---- 3.3 the clean-up on a freshly allocated cluster is total ---- *)
(* what the clean-up needs: the cache coherent, the volume record addressable, the cluster a
   data cluster whose FAT entry on the medium reads end-of-chain (what alloc_cluster wrote) *)
Definition eoc_on_disk (v : vol) (d : disk) (c : N) : Prop :=
  next_result v (PrAlloc.fat_entry d v c) = inr EndOfFile.

Definition cleanup_ready (vi : nat) (c : N) (s : st) : Prop :=
  cache_ok s /\ exists w, nth_error (s_vols s) vi = Some w /\ vol_ok w /\ fat_addr_ok w c /\
    2 <= c /\ c < v_clusters w + 2 /\ eoc_on_disk w (s_disk s) c.

Lemma truncate_fresh vi c s o s' : cleanup_ready vi c s -> truncate_cluster_chain vi c s = (o, s') ->
  same_mgr s s' /\ s_disk s' = s_disk s /\ cache_ok s' /\ (o = Ok tt \/ o = Err DeviceError).
Proof.
  intros (Hc & w & Hw & Hv & _ & H2 & Hr & He) E. unfold truncate_cluster_chain in E.
  assert (Hlt : (c <? RESERVED_ENTRIES) = false) by (apply N.ltb_ge; unfold RESERVED_ENTRIES; lia).
  rewrite Hlt in E. rewrite (bind_ok _ _ _ _ _ (get_vol_some vi w s Hw)) in E.
  unfold bind at 1 in E. destruct (try (next_cluster w c) s) as [o1 s1] eqn:E1.
  destruct (next_cluster_any w c s o1 s1 Hv Hr Hc E1) as (M & D & C & [-> | ->]).
  - inversion E; subst. auto.
  - unfold eoc_on_disk in He. rewrite He in E. inversion E; subst. auto.
Qed.

(* under ANY fault schedule the clean-up ends with Ok or with an error: no panic, no hang *)
Theorem free_fresh_total vi c s o s' :
  cleanup_ready vi c s -> free_cluster_chain vi c s = (o, s') -> no_panic o.
Proof.
  intros Hready E. pose proof Hready as (Hc & w & Hw & Hv & Ha & H2 & Hr & He).
  unfold free_cluster_chain in E.
  assert (Hlt : (c <? RESERVED_ENTRIES) = false) by (apply N.ltb_ge; unfold RESERVED_ENTRIES; lia).
  rewrite Hlt in E. unfold bind at 1 in E.
  destruct (truncate_cluster_chain vi c s) as [o1 s1] eqn:E1.
  destruct (truncate_fresh vi c s o1 s1 Hready E1) as (M1 & D1 & C1 & [-> | ->]);
    [|inversion E; subst; split; discriminate].
  assert (Hw1 : nth_error (s_vols s1) vi = Some w) by (rewrite (same_mgr_vols_eq _ _ M1); exact Hw).
  unfold bind at 1 in E. destruct (update_fat vi c CL_EMPTY s1) as [o2 s2] eqn:E2.
  destruct (update_fat_any vi c CL_EMPTY s1 w o2 s2 C1 Hw1 Ha E2) as (M2 & C2 & [(-> & _)|[(-> & _)|(-> & _)]]);
    try (inversion E; subst; split; discriminate).
  assert (Hw2 : nth_error (s_vols s2) vi = Some w) by (rewrite (same_mgr_vols_eq _ _ M2); exact Hw1).
  rewrite (bind_ok _ _ _ _ _ (PrChain.bump_free_spec vi w s2 Hw2)) in E.
  rewrite PrChain.hint_tail with (w := set_v_free w (PrChain.add_free (v_free w) 1)) in E.
  - inversion E; subst. split; discriminate.
  - cbn [s_vols set_s_vols]. exact (PrAllocEffect.ls_nth_same _ _ _ _ Hw2).
Qed.

(* so make_dir reports (always Err after a device failure) as soon as the state in which a
   failed directory-entry write leaves the manager is ready for the clean-up *)
Lemma always_then_fail_ready {B} vi c e :
  forall s, cleanup_ready vi c s ->
  forall r s', (free_cluster_chain vi c ;;; @fail B e) s = (r, s') -> bad (fun _ => True) false r.
Proof.
  intros s Hr r s' H. unfold bind in H.
  destruct (free_cluster_chain vi c s) as [[a|e'| |] s1] eqn:E; inversion H; subst; cbn; auto.
  - destruct (free_fresh_total _ _ _ _ _ Hr E) as [X _]. congruence.
  - destruct (free_fresh_total _ _ _ _ _ Hr E) as [_ X]. congruence.
Qed.

(* ================================================================== 4. the writes of a faulted run are a prefix *)
(* the same state with an empty fault schedule: the device never fails from here on *)
Definition nf (s : st) : st := set_s_faults s [].

Lemma nf_no_faults s : no_faults (nf s).
Proof. intros n H. destruct H. Qed.
Lemma nf_not_faulty s : faulty (nf s) = false.
Proof. reflexivity. Qed.
Lemma tr_ext_nf s s' ws : tr_ext s s' ws -> tr_ext (nf s) (nf s') ws.
Proof. intros (n & T & W & D). exists n. repeat split; assumption. Qed.
Lemma tr_ext_same s s' : s_trace s' = s_trace s -> s_disk s' = s_disk s -> tr_ext s s' [].
Proof. intros T D. exists []. repeat split; assumption. Qed.

(* `pfx m`: run m from s under ANY fault schedule.  Either the run is, step for step, the run
   from the same state with no fault scheduled (same result, same final state up to the
   schedule); or it ended with Err DeviceError and the fault-free run from the same state
   performs the same successful writes ws first, in the same order with the same contents, and
   then possibly more (ws0).  In both cases the medium of s' is that of s with ws applied. *)
Definition pfx {A} (m : M A) : Prop :=
  forall s r s', m s = (r, s') ->
  exists ws, tr_ext s s' ws /\
    (m (nf s) = (r, nf s') \/
     (r = Err DeviceError /\
      exists r0 s0 ws0, m (nf s) = (r0, s0) /\ tr_ext (nf s) s0 (ws ++ ws0))).

Lemma pfx_bind {A B} (m : M A) (k : A -> M B) : pfx m -> (forall a, pfx (k a)) -> pfx (bind m k).
Proof.
  intros Hm Hk s r s' E. unfold bind in E. destruct (m s) as [r1 s1] eqn:E1.
  destruct (Hm _ _ _ E1) as (ws1 & T1 & C1).
  destruct r1 as [a|e| |].
  - destruct C1 as [C1|(C1 & _)]; [|discriminate].
    destruct (Hk a _ _ _ E) as (ws2 & T2 & C2).
    exists (ws1 ++ ws2). split; [eapply tr_ext_trans; eassumption|].
    destruct C2 as [C2|(-> & r0 & s0 & ws0 & C2 & T0)].
    + left. unfold bind. rewrite C1. exact C2.
    + right. split; [reflexivity|]. exists r0, s0, ws0. split; [unfold bind; rewrite C1; exact C2|].
      rewrite <- app_assoc. eapply tr_ext_trans; [apply tr_ext_nf; exact T1|exact T0].
  - inversion E; subst. exists ws1. split; [exact T1|].
    destruct C1 as [C1|(C1 & r0 & s0 & ws0 & C0 & T0)].
    + left. unfold bind. rewrite C1. reflexivity.
    + right. injection C1 as ->. split; [reflexivity|]. unfold bind. rewrite C0.
      destruct r0 as [a0|e0| |].
      2:{ exists (Err e0), s0, ws0. split; [reflexivity|exact T0]. }
      * destruct (k a0 s0) as [r2 s2] eqn:E2. destruct (Hk a0 _ _ _ E2) as (ws3 & T3 & _).
        exists r2, s2, (ws0 ++ ws3). split; [reflexivity|]. rewrite app_assoc.
        eapply tr_ext_trans; eassumption.
      * exists Panic, s0, ws0. split; [reflexivity|exact T0].
      * exists OutOfFuel, s0, ws0. split; [reflexivity|exact T0].
  - inversion E; subst. exists ws1. split; [exact T1|].
    destruct C1 as [C1|(C1 & _)]; [|discriminate]. left. unfold bind. rewrite C1. reflexivity.
  - inversion E; subst. exists ws1. split; [exact T1|].
    destruct C1 as [C1|(C1 & _)]; [|discriminate]. left. unfold bind. rewrite C1. reflexivity.
Qed.

(* the catch sites: the handler of a caught DeviceError re-raises it without another device
   call (it may clear the cache tag or scribble the buffer first) *)
Definition reraises {A B} (k : A + err -> M B) : Prop :=
  forall s, exists s2, k (inr DeviceError) s = (Err DeviceError, s2) /\ tr_ext s s2 [].

Lemma pfx_try_bind {A B} (m : M A) (k : A + err -> M B) :
  pfx m -> (forall x, pfx (k x)) -> reraises k -> pfx (bind (try m) k).
Proof.
  intros Hm Hk Hh s r s' E. unfold bind, try in E. destruct (m s) as [r1 s1] eqn:E1.
  destruct (Hm _ _ _ E1) as (ws1 & T1 & C1).
  assert (Hgo : forall x, m (nf s) = (match x with inl a => Ok a | inr e => Err e end, nf s1) ->
                k x s1 = (r, s') ->
                exists ws, tr_ext s s' ws /\
                  (bind (try m) k (nf s) = (r, nf s') \/
                   (r = Err DeviceError /\ exists r0 s0 ws0, bind (try m) k (nf s) = (r0, s0) /\
                                                           tr_ext (nf s) s0 (ws ++ ws0)))).
  { intros x C E2. destruct (Hk x _ _ _ E2) as (ws2 & T2 & C2).
    assert (Ex : bind (try m) k (nf s) = k x (nf s1)) by (unfold bind, try; rewrite C; destruct x; reflexivity).
    exists (ws1 ++ ws2). split; [eapply tr_ext_trans; eassumption|]. rewrite Ex.
    destruct C2 as [C2|(-> & r0 & s0 & ws0 & C2 & T0)].
    + left. exact C2.
    + right. split; [reflexivity|]. exists r0, s0, ws0. split; [exact C2|].
      rewrite <- app_assoc. eapply tr_ext_trans; [apply tr_ext_nf; exact T1|exact T0]. }
  destruct r1 as [a|e| |].
  - destruct C1 as [C1|(C1 & _)]; [|discriminate]. exact (Hgo (inl a) C1 E).
  - destruct C1 as [C1|(C1 & r0 & s0 & ws0 & C0 & T0)]; [exact (Hgo (inr e) C1 E)|].
    injection C1 as ->. destruct (Hh s1) as (s2 & Eh & Th). rewrite Eh in E. inversion E; subst.
    exists ws1. split; [eapply PrAllocEffect.tr_ext_trans_nil; eassumption|].
    right. split; [reflexivity|]. unfold bind, try. rewrite C0.
    assert (Hx : forall x, exists r2 s3 ws3, k x s0 = (r2, s3) /\ tr_ext (nf s) s3 (ws1 ++ ws0 ++ ws3)).
    { intros x. destruct (k x s0) as [r2 s3] eqn:E2. destruct (Hk x _ _ _ E2) as (ws3 & T3 & _).
      exists r2, s3, ws3. split; [reflexivity|]. rewrite app_assoc. eapply tr_ext_trans; eassumption. }
    destruct r0 as [a0|e0| |].
    + destruct (Hx (inl a0)) as (r2 & s3 & ws3 & E2 & T3). exists r2, s3, (ws0 ++ ws3). auto.
    + destruct (Hx (inr e0)) as (r2 & s3 & ws3 & E2 & T3). exists r2, s3, (ws0 ++ ws3). auto.
    + exists Panic, s0, ws0. auto.
    + exists OutOfFuel, s0, ws0. auto.
  - inversion E; subst. exists ws1. split; [exact T1|].
    destruct C1 as [C1|(C1 & _)]; [|discriminate]. left. unfold bind, try. rewrite C1. reflexivity.
  - inversion E; subst. exists ws1. split; [exact T1|].
    destruct C1 as [C1|(C1 & _)]; [|discriminate]. left. unfold bind, try. rewrite C1. reflexivity.
Qed.

(* computations that do not call the device and do not look at the schedule *)
Lemma pfx_quiet {A} (m : M A) :
  (forall s, m (nf s) = (fst (m s), nf (snd (m s))) /\ tr_ext s (snd (m s)) []) -> pfx m.
Proof.
  intros H s r s' E. destruct (H s) as (H1 & H2). rewrite E in H1, H2. cbn in H1, H2.
  exists []. split; [exact H2|]. left. exact H1.
Qed.
Lemma pfx_ret {A} (a : A) : pfx (ret a).
Proof. apply pfx_quiet. intros s. split; [reflexivity|apply tr_ext_refl]. Qed.
Lemma pfx_fail {A} e : pfx (@fail A e).
Proof. apply pfx_quiet. intros s. split; [reflexivity|apply tr_ext_refl]. Qed.
Lemma pfx_panic {A} : pfx (@panic A).
Proof. apply pfx_quiet. intros s. split; [reflexivity|apply tr_ext_refl]. Qed.
Lemma pfx_oof {A} : pfx (@out_of_fuel A).
Proof. apply pfx_quiet. intros s. split; [reflexivity|apply tr_ext_refl]. Qed.
Lemma pfx_modify f : (forall s, f (nf s) = nf (f s)) ->
  (forall s, s_trace (f s) = s_trace s /\ s_disk (f s) = s_disk s) -> pfx (modify f).
Proof.
  intros H1 H2. apply pfx_quiet. intros s. unfold modify. cbn [fst snd]. rewrite H1.
  split; [reflexivity|]. destruct (H2 s). apply tr_ext_same; assumption.
Qed.
(* reading the state: the continuation must not depend on the schedule field *)
Lemma pfx_bind_get {B} (k : st -> M B) :
  (forall s0, pfx (k s0)) -> (forall s0, k (nf s0) = k s0) -> pfx (bind get k).
Proof.
  intros Hk Hn s r s' E. rewrite bind_get in E. destruct (Hk s _ _ _ E) as (ws & T & C).
  exists ws. split; [exact T|]. rewrite !bind_get, Hn. exact C.
Qed.

Lemma pfx_dev_read i : pfx (dev_read i).
Proof.
  intros s r s' E. unfold dev_read in E. destruct (faulty s) eqn:Hf; inversion E; subst.
  - exists []. split; [exists [DReadFail i]; repeat split|].
    right. split; [reflexivity|]. eexists _, _, []. split; [reflexivity|].
    exists [DRead i]. repeat split.
  - exists []. split; [exists [DRead i]; repeat split|]. left. reflexivity.
Qed.
Lemma pfx_dev_write i b : pfx (dev_write i b).
Proof.
  intros s r s' E. unfold dev_write in E. destruct (faulty s) eqn:Hf; inversion E; subst.
  - exists []. split; [exists [DWriteFail i]; repeat split|].
    right. split; [reflexivity|]. eexists _, _, [(i, b)]. split; [reflexivity|].
    exists [DWrite i b]. repeat split.
  - exists [(i, b)]. split; [exists [DWrite i b]; repeat split|]. left. reflexivity.
Qed.

Create HintDb pfx.
#[export] Hint Resolve pfx_ret pfx_fail pfx_panic pfx_oof pfx_dev_read pfx_dev_write : pfx.

Ltac reraises_tac := intros ?; eexists; split; [reflexivity|apply tr_ext_same; reflexivity].
Ltac pfx_step :=
  cbn beta iota;
  lazymatch goal with
  | |- pfx (bind get _) => apply pfx_bind_get; [intros ?|intros ?; reflexivity]
  | |- pfx (bind (try _) _) => apply pfx_try_bind; [|intros [?|?]|reraises_tac]
  | |- pfx (bind _ _) => apply pfx_bind; [|intros ?]
  | |- pfx (modify _) => apply pfx_modify; [intros ?; reflexivity|intros ?; split; reflexivity]
  | |- pfx (if ?c then _ else _) => destruct c
  | |- pfx (match ?x with _ => _ end) => destruct x
  | |- pfx (let _ := _ in _) => cbv zeta
  | |- pfx _ => solve [auto 2 with pfx]
  end.
Ltac pfx_go := repeat pfx_step.

Lemma pfx_add32 a b : pfx (add32 a b). Proof. unfold add32. pfx_go. Qed.
Lemma pfx_sub32 a b : pfx (sub32 a b). Proof. unfold sub32. pfx_go. Qed.
Lemma pfx_mul32 a b : pfx (mul32 a b). Proof. unfold mul32. pfx_go. Qed.
#[export] Hint Resolve pfx_add32 pfx_sub32 pfx_mul32 : pfx.
Lemma pfx_get_vol vi : pfx (get_vol vi). Proof. unfold get_vol. pfx_go. Qed.
Lemma pfx_put_vol vi v : pfx (put_vol vi v). Proof. unfold put_vol. pfx_go. Qed.
Lemma pfx_get_timestamp : pfx get_timestamp. Proof. unfold get_timestamp. pfx_go. Qed.
Lemma pfx_cache_read i : pfx (cache_read i). Proof. unfold cache_read. pfx_go. Qed.
Lemma pfx_cache_modify f : pfx (cache_modify f). Proof. unfold cache_modify. pfx_go. Qed.
Lemma pfx_write_back : pfx write_back. Proof. unfold write_back. pfx_go. Qed.
Lemma pfx_write_back_dup d : pfx (write_back_with_duplicate d). Proof. unfold write_back_with_duplicate. pfx_go. Qed.
Lemma pfx_blank_mut i : pfx (blank_mut i). Proof. unfold blank_mut. pfx_go. Qed.
#[export] Hint Resolve pfx_get_vol pfx_put_vol pfx_get_timestamp pfx_cache_read pfx_cache_modify
  pfx_write_back pfx_write_back_dup pfx_blank_mut : pfx.
Lemma pfx_fat_block v a b : pfx (fat_block v a b). Proof. unfold fat_block. pfx_go. Qed.
Lemma pfx_cluster_to_block v c : pfx (cluster_to_block v c). Proof. unfold cluster_to_block. pfx_go. Qed.
Lemma pfx_ts_to_fat t : pfx (ts_to_fat t). Proof. unfold ts_to_fat. pfx_go. Qed.
#[export] Hint Resolve pfx_fat_block pfx_cluster_to_block pfx_ts_to_fat : pfx.
Lemma pfx_serialize b e : pfx (serialize b e). Proof. unfold serialize. pfx_go. Qed.
#[export] Hint Resolve pfx_serialize : pfx.
Lemma pfx_update_fat vi c x : pfx (update_fat vi c x). Proof. unfold update_fat. pfx_go. Qed.
Lemma pfx_next_cluster v c : pfx (next_cluster v c). Proof. unfold next_cluster. pfx_go. Qed.
Lemma pfx_write_entry_to_disk v e : pfx (write_entry_to_disk v e). Proof. unfold write_entry_to_disk. pfx_go. Qed.
Lemma pfx_update_info_sector vi : pfx (update_info_sector vi). Proof. unfold update_info_sector. pfx_go. Qed.
#[export] Hint Resolve pfx_update_fat pfx_next_cluster pfx_write_entry_to_disk pfx_update_info_sector : pfx.
Lemma pfx_for_blocks_from {R} (body : N -> M (option R)) :
  (forall i, pfx (body i)) -> forall n i, pfx (for_blocks_from n i body).
Proof. intros Hb. induction n as [|n IH]; intros i; cbn [for_blocks_from]; pfx_go. Qed.
Lemma pfx_for_blocks {R} (body : N -> M (option R)) first size :
  (forall i, pfx (body i)) -> pfx (for_blocks first size body).
Proof. intros Hb. unfold for_blocks. pfx_go. apply pfx_for_blocks_from. exact Hb. Qed.
Lemma pfx_find_next_free_loop v endc : forall fuel cur, pfx (find_next_free_loop fuel v cur endc).
Proof. induction fuel as [|f IH]; intros cur; cbn [find_next_free_loop]; pfx_go. Qed.
Lemma pfx_find_next_free_cluster v a b : pfx (find_next_free_cluster v a b).
Proof. apply pfx_find_next_free_loop. Qed.
#[export] Hint Resolve pfx_find_next_free_cluster : pfx.
Lemma pfx_zero_cluster v c : pfx (zero_cluster v c).
Proof. unfold zero_cluster. pfx_go. apply pfx_for_blocks. intros i. pfx_go. Qed.
#[export] Hint Resolve pfx_zero_cluster : pfx.
Lemma pfx_alloc_cluster vi prev zero : pfx (alloc_cluster vi prev zero).
Proof. unfold alloc_cluster. pfx_go. Qed.
#[export] Hint Resolve pfx_alloc_cluster : pfx.
Lemma pfx_bump_free vi : pfx (bump_free vi). Proof. unfold bump_free. pfx_go. Qed.
#[export] Hint Resolve pfx_bump_free : pfx.
Lemma pfx_truncate_loop vi : forall fuel next, pfx (truncate_loop fuel vi next).
Proof. induction fuel as [|f IH]; intros next; cbn [truncate_loop]; pfx_go. Qed.
#[export] Hint Resolve pfx_truncate_loop : pfx.
Lemma pfx_truncate_cluster_chain vi c : pfx (truncate_cluster_chain vi c).
Proof. unfold truncate_cluster_chain. pfx_go. Qed.
#[export] Hint Resolve pfx_truncate_cluster_chain : pfx.
Lemma pfx_free_cluster_chain vi c : pfx (free_cluster_chain vi c).
Proof. unfold free_cluster_chain. pfx_go. Qed.
Lemma pfx_walk_dir {R} vi grow (body : N -> M (option R)) :
  (forall blk, pfx (body blk)) -> forall fuel cluster, pfx (walk_dir fuel vi cluster grow body).
Proof.
  intros Hb. induction fuel as [|fuel IH]; intros cluster; cbn [walk_dir]; pfx_go.
  all: apply pfx_for_blocks; exact Hb.
Qed.
Lemma pfx_find_directory_entry vi dc name : pfx (find_directory_entry vi dc name).
Proof. unfold find_directory_entry. pfx_go. apply pfx_walk_dir. intros blk. pfx_go. Qed.
Lemma pfx_delete_directory_entry vi dc name : pfx (delete_directory_entry vi dc name).
Proof. unfold delete_directory_entry. pfx_go. apply pfx_walk_dir. intros blk. pfx_go. Qed.
Lemma pfx_write_new_directory_entry vi dc name attr fc : pfx (write_new_directory_entry vi dc name attr fc).
Proof. unfold write_new_directory_entry. pfx_go. apply pfx_walk_dir. intros blk. pfx_go. Qed.

(* ---- the statement, unfolded ---- *)
(* s' : the state after the run under the schedule of s;  s0 : the state after the run from the
   same state with no fault scheduled.  ws / ws ++ ws0 are the successful device writes of the
   two runs, oldest first, with contents (tr_ext: read off the device logs; and the media are
   the medium of s with these writes applied).  So the k-th write that happened in the faulted
   run is the k-th write of the fault-free run, and the medium after the faulted run is the
   medium after a PREFIX of the fault-free run's writes (PrCrash.prefix_disk) - the situation
   the crash-prefix theorems of PrCrash.v describe. *)
Definition bystander {A} (m : M A) : Prop :=
  forall s r s', m s = (r, s') ->
  exists ws r0 s0 ws0,
    tr_ext s s' ws /\
    m (nf s) = (r0, s0) /\ tr_ext (nf s) s0 (ws ++ ws0) /\
    (forall k w, nth_error ws k = Some w -> nth_error (ws ++ ws0) k = Some w) /\
    s_disk s' = PrCrash.prefix_disk (ws ++ ws0) (length ws) (s_disk s) /\
    ((r0 = r /\ ws0 = []) \/ r = Err DeviceError).

Theorem pfx_bystander {A} (m : M A) : pfx m -> bystander m.
Proof.
  intros Hm s r s' E. destruct (Hm _ _ _ E) as (ws & T & C).
  assert (Hd : forall ws0, s_disk s' = PrCrash.prefix_disk (ws ++ ws0) (length ws) (s_disk s)).
  { intros ws0. unfold PrCrash.prefix_disk. rewrite firstn_app, firstn_all, Nat.sub_diag. cbn [firstn].
    rewrite app_nil_r. exact (tr_ext_disk _ _ _ T). }
  assert (Hn : forall ws0 k w, nth_error ws k = Some w -> nth_error (ws ++ ws0) k = Some w).
  { intros ws0 k w H. rewrite nth_error_app1; [exact H|]. apply nth_error_Some. congruence. }
  destruct C as [C|(-> & r0 & s0 & ws0 & C & T0)].
  - exists ws, r, (nf s'), []. rewrite app_nil_r. split; [exact T|]. split; [exact C|].
    split; [apply tr_ext_nf; exact T|]. split; [auto|]. split; [rewrite <- (app_nil_r ws) at 1; apply Hd|].
    left. auto.
  - exists ws, r0, s0, ws0. repeat split; auto.
Qed.

Theorem C11_bystander_blocks_update_fat vi c x : bystander (update_fat vi c x).
Proof. apply pfx_bystander, pfx_update_fat. Qed.
Theorem C11_bystander_blocks_alloc_cluster vi prev zero : bystander (alloc_cluster vi prev zero).
Proof. apply pfx_bystander, pfx_alloc_cluster. Qed.
Theorem C11_bystander_blocks_truncate vi c : bystander (truncate_cluster_chain vi c).
Proof. apply pfx_bystander, pfx_truncate_cluster_chain. Qed.
Theorem C11_bystander_blocks_free vi c : bystander (free_cluster_chain vi c).
Proof. apply pfx_bystander, pfx_free_cluster_chain. Qed.
Theorem C11_bystander_blocks_write_entry v e : bystander (write_entry_to_disk v e).
Proof. apply pfx_bystander, pfx_write_entry_to_disk. Qed.
Theorem C11_bystander_blocks_info_sector vi : bystander (update_info_sector vi).
Proof. apply pfx_bystander, pfx_update_info_sector. Qed.
Theorem C11_bystander_blocks_zero_cluster v c : bystander (zero_cluster v c).
Proof. apply pfx_bystander, pfx_zero_cluster. Qed.
Theorem C11_bystander_blocks_find vi dc name : bystander (find_directory_entry vi dc name).
Proof. apply pfx_bystander, pfx_find_directory_entry. Qed.
Theorem C11_bystander_blocks_delete_entry vi dc name : bystander (delete_directory_entry vi dc name).
Proof. apply pfx_bystander, pfx_delete_directory_entry. Qed.
Theorem C11_bystander_blocks_new_entry vi dc name attr fc : bystander (write_new_directory_entry vi dc name attr fc).
Proof. apply pfx_bystander, pfx_write_new_directory_entry. Qed.

(* a consequence used below and by callers: a run that returned Ok under some schedule is the
   fault-free run (no fault can have fired in it), so every theorem proved under `no_faults`
   applies to it *)
Corollary pfx_ok_is_fault_free {A} (m : M A) : pfx m ->
  forall s a s', m s = (Ok a, s') -> m (nf s) = (Ok a, nf s').
Proof.
  intros Hm s a s' E. destruct (Hm _ _ _ E) as (ws & T & [C|(C & _)]); [exact C|discriminate].
Qed.
