(* PROOFS for C11, second part: what is true AFTER a call that met a device failure.
   PrFault.v shows "a failed device call makes the API call return an error".  This file adds,
   for EVERY fault schedule (s_faults s arbitrary) unless a statement says otherwise:
   1. the handle tables stay well-formed after any call with any outcome, and every open handle
      can still be closed, whatever the device does (C11_not_wedged, C11_close_file_after_fault,
      C11_close_file_total, C11_close_file_whatever, C11_close_dir_after_fault);
   2. a read-only call - failed or not - changes nothing but the device-side bookkeeping and
      keeps the one-block cache coherent (C11_ro_call_state, C11_label_nonblank,
      C11_open_dir_lookup, C11_open_dir_cache), so the same call gives the specified answer when
      it is retried without a further fault (C11_retry_find, C11_retry_iter);
   3. Mkdir: the clean-up after a failed directory-entry write (free_cluster_chain on the
      cluster just allocated) cannot panic or hang (free_fresh_total), and Mkdir as a whole
      reports - always Err after a device failure - under a precondition on geometry and FAT
      consistency (C11_reports_mkdir; the invariant carried through alloc_cluster and
      write_new_directory_entry under arbitrary faults is MI, section 3b);
   4. the device writes of a faulted run of a FAT-level or directory-level function are a PREFIX
      of the writes of the fault-free run from the same state, and a run that returned Ok IS the
      fault-free run (pfx, pfx_bystander, pfx_ok_is_fault_free, the C11_bystander_blocks
      theorems). *)
From Coq Require Import NArith ZArith List Bool Lia Arith ZifyClasses ZifyInst Zify FMapPositive.
From SdFs Require Import FsTypes FsBase FsFat FsMgr FsLemmas PrBase PrFat PrAlloc PrDir PrFault
  PrAllocEffect PrHandles PrModes.
From SdFs Require PrOrder PrChain PrCrash.
Import ListNotations.
Open Scope N_scope.
Local Arguments N.mul : simpl never.
Local Arguments N.add : simpl never.
Local Arguments N.sub : simpl never.
Local Arguments N.div : simpl never.
Local Arguments N.modulo : simpl never.
Local Arguments N.land : simpl never.
Local Arguments N.lor : simpl never.
Local Ltac Zify.zify_post_hook ::= Z.to_euclidean_division_equations.

(* ================================================================== 1. not wedged *)
(* the invariant of the three handle tables: ids drawn from the one counter within the
   window, no id twice in a table (PrHandles.handles_ok), no table above its limit *)
Definition tables_ok (age_max : N) (s : st) : Prop := handles_ok age_max s /\ within_limits s.

(* EVERY op, EVERY outcome (Ok, Err - also after a device failure -, Panic, OutOfFuel) and
   every fault schedule: the tables are well-formed afterwards *)
Theorem C11_not_wedged : forall age_max o s, age_max < U32 - 1 -> remount_ok o ->
  tables_ok age_max s -> tables_ok (age_max + 1) (snd (step o s)).
Proof.
  intros age_max o s Ha Hr [H1 H2]. split.
  - apply C08_handles_ok_step; assumption.
  - apply C08_limits. exact H2.
Qed.

(* swap_remove drops the element at index i only *)
Lemma swap_remove_keeps_others {A} (l : list A) i x y :
  nth_error l i = Some y -> In x l -> x <> y -> In x (swap_remove l i).
Proof.
  intros Hi Hx Hne.
  assert (Hil : (i < length l)%nat) by (apply nth_error_Some; congruence).
  apply In_nth_error in Hx. destruct Hx as [k Hk].
  assert (Hkl : (k < length l)%nat) by (apply nth_error_Some; congruence).
  assert (Hki : k <> i) by (intros ->; congruence).
  destruct (Nat.eq_dec k (length l - 1)) as [E|E].
  - apply nth_error_In with (n := i). rewrite swap_remove_nth by lia.
    rewrite Nat.eqb_refl, <- E. exact Hk.
  - apply nth_error_In with (n := k). rewrite swap_remove_nth by lia.
    destruct (Nat.eqb_spec k i); [contradiction|exact Hk].
Qed.

(* closing an open file handle: whatever the device does during the flush inside (the call
   returns Ok, or Err e with the flush error), exactly that handle leaves the file table;
   the other file handles, the directory and the volume handles stay; and if a device
   failure was logged the outcome is an error. *)
Theorem C11_close_file_after_fault : forall h s out s',
  s_lock s = false -> NoDup (fids s) -> In h (fids s) ->
  step (CloseFile h) s = (out, s') -> out <> Panic -> out <> OutOfFuel ->
  (out = Ok RUnit \/ exists e, out = Err e) /\
  (exists i, nth_error (fids s) i = Some h /\ fids s' = swap_remove (fids s) i) /\
  no_file h s' /\ (forall x, In x (fids s) -> x <> h -> In x (fids s')) /\
  vids s' = vids s /\ dids s' = dids s /\ s_lock s' = false /\
  (fault_fired s s' -> exists e, out = Err e).
Proof.
  intros h s out s' Hl Hnd Hin E Hp Ho.
  assert (Hrep : fault_fired s s' -> exists e, out = Err e).
  { intros Hf. exact (C11_api_reports (CloseFile h) eq_refl s out s' E Hf). }
  cbn [step] in E. unfold lift, bind in E.
  destruct (close_file h s) as [o1 s1] eqn:Ec.
  assert (Hout : (out = Ok RUnit \/ exists e, out = Err e) /\ s1 = s' /\ o1 <> Panic /\ o1 <> OutOfFuel).
  { destruct o1 as [a|e| |]; inversion E; subst; try contradiction.
    - split; [left; reflexivity|]. repeat split; discriminate.
    - split; [right; eexists; reflexivity|]. repeat split; discriminate. }
  destruct Hout as (Hout & -> & Hp1 & Ho1).
  split; [exact Hout|].
  destruct (close_file_run h s _ _ Hl Ec) as [H|[H|(s2 & Hs & Hcase)]]; try contradiction.
  destruct Hs as (V & D & F & _ & L & _).
  assert (Hex : exists x, In x (s_files s2) /\ (f_id x =? h) = true).
  { assert (Hi : In h (fids s2)) by (rewrite F; exact Hin).
    unfold fids in Hi. apply in_map_iff in Hi. destruct Hi as (x & Hx1 & Hx2).
    exists x. split; [exact Hx2 | apply N.eqb_eq; exact Hx1]. }
  destruct (find_idx_exists _ _ Hex 0) as (j & Hj & Hlt & _). rewrite Nat.sub_0_r in Hlt.
  destruct Hcase as [(_ & _ & Hnone)|(i & Ef & ->)]; [congruence|].
  rewrite Hj in Ef. injection Ef as <-.
  apply find_idx_some in Hj. destruct Hj as (_ & _ & x & Hx & Hpx). rewrite Nat.sub_0_r in Hx.
  apply N.eqb_eq in Hpx.
  assert (Hnth : nth_error (fids s) j = Some h).
  { rewrite <- F. unfold fids. rewrite <- Hpx. apply map_nth_error. exact Hx. }
  assert (Hf' : fids (set_s_files s2 (swap_remove (s_files s2) j)) = swap_remove (fids s) j).
  { unfold fids at 1. cbn [s_files set_s_files]. rewrite map_swap_remove. fold (fids s2). rewrite F. reflexivity. }
  split; [exists j; split; [exact Hnth|exact Hf']|].
  split.
  { intros f Hf Hid. cbn [s_files set_s_files] in Hf.
    assert (Hnd2 : NoDup (map f_id (s_files s2))) by (fold (fids s2); rewrite F; exact Hnd).
    apply (swap_remove_gone f_id (s_files s2) j x Hnd2 Hx). rewrite Hpx, <- Hid. apply in_map. exact Hf. }
  split.
  { intros y Hy Hne. rewrite Hf'. eapply swap_remove_keeps_others; eauto. }
  split; [exact V|]. split; [exact D|]. split; [cbn; congruence|]. exact Hrep.
Qed.

(* closing an open directory handle never touches the device: always Ok, the slot is freed,
   everything on the device side (medium, cache, log, call counter) is as before *)
Theorem C11_close_dir_after_fault : forall h s,
  s_lock s = false -> NoDup (dids s) -> In h (dids s) ->
  exists s', step (CloseDir h) s = (Ok RUnit, s') /\
    no_dir h s' /\ length (s_dirs s') = (length (s_dirs s) - 1)%nat /\
    (forall x, In x (dids s) -> x <> h -> In x (dids s')) /\
    s_vols s' = s_vols s /\ s_files s' = s_files s /\
    s_trace s' = s_trace s /\ s_disk s' = s_disk s /\ s_ncalls s' = s_ncalls s /\
    s_cache s' = s_cache s /\ s_tag s' = s_tag s.
Proof.
  intros h s Hl Hnd Hin.
  assert (Hex : exists d, In d (s_dirs s) /\ d_id d = h).
  { unfold dids in Hin. apply in_map_iff in Hin. destruct Hin as (d & H1 & H2). exists d. auto. }
  destruct (C08_close_dir_frees h s Hl Hex) as (i & Hi & Hstep & Hlen).
  eexists. split; [exact Hstep|].
  split; [exact (C08_closed_dir_handle_stale h s RUnit _ Hnd Hstep)|].
  split; [exact Hlen|].
  split; [|repeat split; reflexivity].
  intros x Hx Hne.
  (* which index was removed: the first one whose id is h *)
  cbn [step] in Hstep. apply lift_ok_inv in Hstep. destruct Hstep as (a & Hc & _).
  unfold close_dir in Hc. rewrite (locked_free _ s Hl) in Hc. unfold bind in Hc.
  rewrite get_dir_by_id_eq in Hc.
  destruct (find_idx (fun d => d_id d =? h) (s_dirs s) 0) as [j|] eqn:Ef; [|discriminate].
  unfold modify in Hc. injection Hc as _ Hc.
  apply find_idx_some in Ef. destruct Ef as (_ & _ & y & Hy & Hpy). rewrite Nat.sub_0_r in Hy.
  apply N.eqb_eq in Hpy.
  assert (E : dids (set_s_dirs s (swap_remove (s_dirs s) i)) = swap_remove (dids s) j).
  { rewrite <- Hc. unfold dids. cbn [s_dirs set_s_dirs]. apply map_swap_remove. }
  rewrite E. eapply swap_remove_keeps_others; [|exact Hx|exact Hne].
  unfold dids. rewrite <- Hpy. apply map_nth_error. exact Hy.
Qed.

(* ================================================================== 2. read-only calls *)
(* `cok m`: m keeps the one-block cache coherent - under ANY fault schedule and for ANY
   outcome.  (A failed read clears the tag before it scribbles the buffer, so the scribbled
   block is unreachable; a successful read tags the buffer with the block it now holds.) *)
Definition cok {A} (m : M A) : Prop := forall s o s', m s = (o, s') -> cache_ok s -> cache_ok s'.

Lemma cok_ret {A} (a : A) : cok (ret a). Proof. intros s o s' E; inversion E; subst; auto. Qed.
Lemma cok_fail {A} e : cok (@fail A e). Proof. intros s o s' E; inversion E; subst; auto. Qed.
Lemma cok_panic {A} : cok (@panic A). Proof. intros s o s' E; inversion E; subst; auto. Qed.
Lemma cok_oof {A} : cok (@out_of_fuel A). Proof. intros s o s' E; inversion E; subst; auto. Qed.
Lemma cok_get : cok get. Proof. intros s o s' E; inversion E; subst; auto. Qed.
Lemma cok_bind {A B} (m : M A) (k : A -> M B) : cok m -> (forall a, cok (k a)) -> cok (bind m k).
Proof.
  intros Hm Hk s o s' E Hc. unfold bind in E.
  destruct (m s) as [[a|e| |] s1] eqn:Em; pose proof (Hm _ _ _ Em Hc) as H1.
  - exact (Hk a _ _ _ E H1).
  - inversion E; subst; exact H1.
  - inversion E; subst; exact H1.
  - inversion E; subst; exact H1.
Qed.
Lemma cok_try {A} (m : M A) : cok m -> cok (try m).
Proof.
  intros Hm s o s' E Hc. unfold try in E.
  destruct (m s) as [[a|e| |] s1] eqn:Em; pose proof (Hm _ _ _ Em Hc) as H1; inversion E; subst; exact H1.
Qed.
(* a table-side update: the medium, the buffer and its tag are not touched *)
Definition dev_same (f : st -> st) : Prop :=
  forall s, s_disk (f s) = s_disk s /\ s_cache (f s) = s_cache s /\ s_tag (f s) = s_tag s.
Lemma cok_modify f : dev_same f -> cok (modify f).
Proof.
  intros Hf s o s' E Hc. inversion E; subst. destruct (Hf s) as (D & C & T).
  intros i Hi. rewrite D, C. apply Hc. rewrite <- T. exact Hi.
Qed.
Lemma cok_locked {A} (m : M A) : cok m -> cok (locked m).
Proof.
  intros Hm. unfold locked. apply cok_bind; [apply cok_get|]. intros s1.
  destruct (s_lock s1); [apply cok_fail | exact Hm].
Qed.
Lemma cok_lift {A} (f : A -> res) (m : M A) : cok m -> cok (lift f m).
Proof. intros Hm. unfold lift. apply cok_bind; [exact Hm | intros a; apply cok_ret]. Qed.

Lemma cok_dev_read i : cok (dev_read i).
Proof.
  intros s o s' E Hc. unfold dev_read in E.
  destruct (faulty s); inversion E; subst; intros j Hj; exact (Hc j Hj).
Qed.

(* the cache fill, under any schedule *)
Lemma cok_cache_read i : cok (cache_read i).
Proof.
  intros s o s' E Hc. unfold cache_read in E. rewrite bind_get in E.
  destruct (opt_eqb (s_tag s) i). { inversion E; subst; exact Hc. }
  unfold bind, modify, try, dev_read, fail, ret in E.
  destruct (faulty (set_s_tag s None)); inversion E; subst; intros j Hj; cbn in Hj.
  - discriminate.
  - inversion Hj; subst. reflexivity.
Qed.

Create HintDb cok.
#[export] Hint Resolve cok_ret cok_fail cok_panic cok_oof cok_get cok_dev_read cok_cache_read : cok.

Ltac dev_same_tac := intros ?; repeat split; reflexivity.
Ltac cok_step :=
  match goal with
  | |- cok (bind _ _) => apply cok_bind; [|intros ?]
  | |- cok (try _) => apply cok_try
  | |- cok (locked _) => apply cok_locked
  | |- cok (lift _ _) => apply cok_lift
  | |- cok (modify _) => apply cok_modify; dev_same_tac
  | |- cok (if ?b then _ else _) => destruct b
  | |- cok (match ?x with _ => _ end) => destruct x
  | |- cok (let _ := _ in _) => cbv zeta
  | |- cok _ => solve [auto 2 with cok]
  end.
Ltac cok_go := repeat cok_step.

Lemma cok_add32 a b : cok (add32 a b). Proof. unfold add32. cok_go. Qed.
Lemma cok_sub32 a b : cok (sub32 a b). Proof. unfold sub32. cok_go. Qed.
Lemma cok_mul32 a b : cok (mul32 a b). Proof. unfold mul32. cok_go. Qed.
#[export] Hint Resolve cok_add32 cok_sub32 cok_mul32 : cok.
Lemma cok_get_vol vi : cok (get_vol vi). Proof. unfold get_vol. cok_go. Qed.
Lemma cok_put_vol vi v : cok (put_vol vi v). Proof. unfold put_vol. cok_go. Qed.
Lemma cok_get_dir i : cok (get_dir i). Proof. unfold get_dir. cok_go. Qed.
Lemma cok_get_file i : cok (get_file i). Proof. unfold get_file. cok_go. Qed.
Lemma cok_put_file i f : cok (put_file i f). Proof. unfold put_file. cok_go. Qed.
Lemma cok_get_volume_by_id h : cok (get_volume_by_id h). Proof. unfold get_volume_by_id. cok_go. Qed.
Lemma cok_get_dir_by_id h : cok (get_dir_by_id h). Proof. unfold get_dir_by_id. cok_go. Qed.
Lemma cok_get_file_by_id h : cok (get_file_by_id h). Proof. unfold get_file_by_id. cok_go. Qed.
Lemma cok_generate : cok generate. Proof. unfold generate. cok_go. Qed.
Lemma cok_push_dir d : cok (push_dir d). Proof. unfold push_dir. cok_go. Qed.
Lemma cok_get_timestamp : cok get_timestamp. Proof. unfold get_timestamp. cok_go. Qed.
#[export] Hint Resolve cok_get_vol cok_put_vol cok_get_dir cok_get_file cok_put_file cok_get_volume_by_id
  cok_get_dir_by_id cok_get_file_by_id cok_generate cok_push_dir cok_get_timestamp : cok.
Lemma cok_fat_block v a b : cok (fat_block v a b). Proof. unfold fat_block. cok_go. Qed.
Lemma cok_cluster_to_block v c : cok (cluster_to_block v c). Proof. unfold cluster_to_block. cok_go. Qed.
#[export] Hint Resolve cok_fat_block cok_cluster_to_block : cok.
Lemma cok_next_cluster v c : cok (next_cluster v c). Proof. unfold next_cluster. cok_go. Qed.
#[export] Hint Resolve cok_next_cluster : cok.
Lemma cok_for_blocks_from {R} (body : N -> M (option R)) :
  (forall i, cok (body i)) -> forall n i, cok (for_blocks_from n i body).
Proof.
  intros Hb. induction n as [|n IH]; intros i; cbn [for_blocks_from]; [apply cok_ret|].
  apply cok_bind; [apply Hb|]. intros [x|]; [apply cok_ret | apply IH].
Qed.
Lemma cok_for_blocks {R} (body : N -> M (option R)) first size :
  (forall i, cok (body i)) -> cok (for_blocks first size body).
Proof.
  intros Hb. unfold for_blocks. apply cok_bind; [apply cok_add32|]. intros _. apply cok_for_blocks_from. exact Hb.
Qed.
#[export] Hint Resolve cok_for_blocks : cok.
Lemma cok_walk_dir_ro {R} vi (body : N -> M (option R)) :
  (forall blk, cok (body blk)) -> forall fuel cluster, cok (walk_dir fuel vi cluster false body).
Proof. intros Hb. induction fuel as [|fuel IH]; intros cluster; cbn [walk_dir]; cok_go. Qed.
Lemma cok_find_directory_entry vi c name : cok (find_directory_entry vi c name).
Proof. unfold find_directory_entry. cok_go. apply cok_walk_dir_ro. intros blk. cok_go. Qed.
Lemma cok_iter_blocks fat32 : forall n i acc, cok (iter_blocks n fat32 i acc).
Proof. induction n as [|n IH]; intros i acc; cbn [iter_blocks]; cok_go. Qed.
#[export] Hint Resolve cok_find_directory_entry cok_iter_blocks : cok.
Lemma cok_iter_walk vi : forall fuel c acc, cok (iter_walk fuel vi c acc).
Proof. induction fuel as [|fuel IH]; intros c acc; cbn [iter_walk]; cok_go. Qed.
#[export] Hint Resolve cok_iter_walk : cok.
Lemma cok_iterate_dir_all vi c : cok (iterate_dir_all vi c).
Proof. unfold iterate_dir_all. cok_go. Qed.
#[export] Hint Resolve cok_iterate_dir_all : cok.
Lemma cok_mgr_find d name : cok (mgr_find d name). Proof. unfold mgr_find. cok_go. Qed.
Lemma cok_iter_listing d : cok (iter_listing d). Proof. unfold iter_listing. cok_go. Qed.
Lemma cok_with_file {A} h (k : nat -> fileinfo -> M A) : (forall fi f, cok (k fi f)) -> cok (with_file h k).
Proof. intros Hk. unfold with_file. cok_go. Qed.
(* open_dir as a whole (lookup, then the table push) keeps the cache coherent *)
Theorem C11_open_dir_cache d name : cok (step (OpenDir d name)).
Proof. cbn [step]. unfold open_dir. cok_go. Qed.

(* ---- the reads_only half for the listing (PrModes has it for the lookup) ---- *)
Lemma ro_locked {A} (m : M A) : ro m -> ro (locked m).
Proof.
  intros Hm. unfold locked. apply ro_bind; [apply ro_get|]. intros s1.
  destruct (s_lock s1); [apply ro_fail | exact Hm].
Qed.
Lemma ro_lift {A} (f : A -> res) (m : M A) : ro m -> ro (lift f m).
Proof. intros Hm. unfold lift. apply ro_bind; [exact Hm | intros a; apply ro_ret]. Qed.
Lemma ro_get_dir i : ro (get_dir i). Proof. unfold get_dir. ro_go. Qed.
Lemma ro_get_file i : ro (get_file i). Proof. unfold get_file. ro_go. Qed.
Lemma ro_get_volume_by_id h : ro (get_volume_by_id h). Proof. unfold get_volume_by_id. ro_go. Qed.
Lemma ro_get_dir_by_id h : ro (get_dir_by_id h). Proof. unfold get_dir_by_id. ro_go. Qed.
Lemma ro_get_file_by_id h : ro (get_file_by_id h). Proof. unfold get_file_by_id. ro_go. Qed.
#[export] Hint Resolve ro_get_dir ro_get_file ro_get_volume_by_id ro_get_dir_by_id ro_get_file_by_id : ro.
Lemma ro_iter_blocks fat32 : forall n i acc, ro (iter_blocks n fat32 i acc).
Proof. induction n as [|n IH]; intros i acc; cbn [iter_blocks]; ro_go. Qed.
#[export] Hint Resolve ro_iter_blocks : ro.
Lemma ro_iter_walk vi : forall fuel c acc, ro (iter_walk fuel vi c acc).
Proof. induction fuel as [|fuel IH]; intros c acc; cbn [iter_walk]; ro_go. Qed.
#[export] Hint Resolve ro_iter_walk : ro.
Lemma ro_iterate_dir_all vi c : ro (iterate_dir_all vi c).
Proof. unfold iterate_dir_all. ro_go. Qed.
Lemma ro_iter_listing d : ro (iter_listing d).
Proof. unfold iter_listing. pose proof ro_iterate_dir_all. ro_go. Qed.
Lemma ro_mgr_find d name : ro (mgr_find d name).
Proof.
  unfold mgr_find. apply ro_locked. pose proof find_directory_entry_reads_only. ro_go.
Qed.
Lemma ro_with_file {A} h (k : nat -> fileinfo -> M A) : (forall fi f, ro (k fi f)) -> ro (with_file h k).
Proof. intros Hk. unfold with_file. apply ro_locked. ro_go. Qed.

(* ---- the combined statement ---- *)
(* nothing but device-side bookkeeping changed, only reads were issued, and the cache is
   still (or again) coherent *)
Definition rstep (s s' : st) : Prop := reads_only s s' /\ (cache_ok s -> cache_ok s').

Lemma reads_only_unlock s s1 : s_lock s = false -> reads_only s s1 ->
  reads_only s (set_s_lock (set_s_lock s1 true) false).
Proof.
  intros Hl ((A1 & A2 & A3 & A4 & A5 & A6 & A7 & A8 & A9 & A10) & D & l & T & F).
  split; [unfold same_mgr; cbn; repeat split; try assumption; congruence|].
  split; [exact D|]. exists l. split; [exact T|exact F].
Qed.

(* the read-only ops of the script language: lookup, listing (without a callback op), the
   three file queries, the open-handles query *)
Definition ro_op (o : op) : bool :=
  match o with
  | Find _ _ | Iter _ None | Length _ | Offset _ | Eof _ | HasOpen => true
  | _ => false
  end.

Theorem C11_ro_call_state : forall o s out s', ro_op o = true -> step o s = (out, s') -> rstep s s'.
Proof.
  intros o s out s' Ho E. destruct o as [| | | | |d name|d [o'|]| | | | | | | | |f|f|f| | | | | | | |]; try discriminate; cbn [step] in E.
  - (* Find *) split; [exact (ro_lift _ _ (ro_mgr_find d name) _ _ _ E)|exact (cok_lift _ _ (cok_mgr_find d name) _ _ _ E)].
  - (* Iter, no callback op *)
    destruct (s_lock s) eqn:Hl.
    { unfold bind in E. unfold mgr_iterate in E. rewrite (locked_held _ s Hl) in E. inversion E; subst.
      split; [apply PrModes.ro_refl|auto]. }
    unfold bind in E. rewrite (proj1 (C08_iterate_holds_lock _ d (ret RUnit) s Hl)) in E.
    destruct (iter_listing d s) as [o1 s1] eqn:E1.
    pose proof (ro_iter_listing d _ _ _ E1) as R1. pose proof (cok_iter_listing d _ _ _ E1) as C1.
    unfold iterate_outcome, ret in E.
    destruct o1 as [[|e0 shown]|e| |]; inversion E; subst; try (split; assumption).
    split; [apply reads_only_unlock; assumption|].
    intros Hc i Hi. exact (C1 Hc i Hi).
  - (* Length *) unfold file_length in E.
    split; [refine (ro_lift _ _ (ro_with_file f _ _) _ _ _ E)|refine (cok_lift _ _ (cok_with_file f _ _) _ _ _ E)];
      intros; first [apply ro_ret|apply cok_ret].
  - (* Offset *) unfold file_offset in E.
    split; [refine (ro_lift _ _ (ro_with_file f _ _) _ _ _ E)|refine (cok_lift _ _ (cok_with_file f _ _) _ _ _ E)];
      intros; first [apply ro_ret|apply cok_ret].
  - (* Eof *) unfold file_eof in E.
    split; [refine (ro_lift _ _ (ro_with_file f _ _) _ _ _ E)|refine (cok_lift _ _ (cok_with_file f _ _) _ _ _ E)];
      intros; first [apply ro_ret|apply cok_ret].
  - (* HasOpen *) unfold lift, has_open_handles, bind, get, ret in E. inversion E; subst.
    split; [apply PrModes.ro_refl|auto].
Qed.

(* Label on a volume whose boot-sector label is not blank: no device call, no change *)
Theorem C11_label_nonblank : forall h s vi v,
  s_lock s = false -> get_volume_by_id h s = (Ok vi, s) -> get_vol vi s = (Ok v, s) ->
  trim_rev (rev (v_name v)) <> [] ->
  step (Label h) s = (Ok (RLabel (Some (v_name v))), s).
Proof.
  intros h s vi v Hl H1 H2 Hn. cbn [step]. apply (lift_ok RLabel).
  unfold get_root_volume_label. rewrite (locked_free _ _ Hl).
  rewrite (bind_ok _ _ _ _ _ H1), (bind_ok _ _ _ _ _ H2).
  destruct (trim_rev (rev (v_name v))); [contradiction|reflexivity].
Qed.

(* OpenDir: the lookup part is read-only and keeps the cache coherent; the call ends in the
   state after the lookup, plus - on success - the pushed directory record *)
Theorem C11_open_dir_lookup : forall s d di dd vi v name sfn r s1,
  resolves s d di dd vi v -> is_full (s_dirs s) (s_maxd s) = false ->
  sfn_of_str name = Some sfn -> list_eqb sfn THIS_DIR_NAME = false ->
  find_directory_entry vi (d_cluster dd) sfn s = (r, s1) ->
  rstep s s1 /\
  (snd (open_dir d name s) = s1 \/
   exists cl, snd (open_dir d name s) = push_new_dir s1 (v_id v) cl) /\
  ((forall a, r <> Ok a) -> cast r = fst (open_dir d name s) /\ snd (open_dir d name s) = s1).
Proof.
  intros s d di dd vi v name sfn r s1 Hres Hfull Hsfn Hthis Hfind.
  destruct (C06_open_dir s d di dd vi v name Hres Hfull) as (_ & H).
  rewrite Hsfn, Hthis in H. destruct (H r s1 Hfind) as (Hro & Hopen).
  split; [split; [exact Hro|exact (cok_find_directory_entry _ _ _ _ _ _ Hfind)]|].
  rewrite Hopen. split.
  - destruct r as [e|e| |]; try (left; reflexivity).
    destruct (is_directory (e_attr e)); [right; eexists; reflexivity|left; reflexivity].
  - intros Hn. destruct r as [e|e| |]; try (split; reflexivity). exfalso. eapply Hn. reflexivity.
Qed.

(* ---- retry ---- *)
Lemma resolves_same_mgr s s' d di dd vi v : same_mgr s s' -> resolves s d di dd vi v -> resolves s' d di dd vi v.
Proof.
  intros (V & D & _ & _ & _ & L & _) (Hl & H1 & H2 & H3 & H4).
  rewrite get_dir_by_id_eq in H1. rewrite get_dir_eq in H2. rewrite get_volume_by_id_eq in H3.
  rewrite get_vol_eq in H4.
  unfold resolves. rewrite get_dir_by_id_eq, get_dir_eq, get_volume_by_id_eq, get_vol_eq, L, V, D.
  split; [exact Hl|].
  destruct (find_idx (fun d0 => d_id d0 =? d) (s_dirs s) 0); inversion H1; subst.
  destruct (nth_error (s_dirs s) di); inversion H2; subst.
  destruct (find_idx (fun v0 => v_id v0 =? d_vol dd) (s_vols s) 0); inversion H3; subst.
  destruct (nth_error (s_vols s) vi); inversion H4; subst.
  repeat split; reflexivity.
Qed.

Lemma resolves_nth s d di dd vi v : resolves s d di dd vi v -> nth_error (s_vols s) vi = Some v.
Proof.
  intros (_ & _ & _ & _ & H4). rewrite get_vol_eq in H4.
  destruct (nth_error (s_vols s) vi); inversion H4; subst; reflexivity.
Qed.

(* Find: whatever the first attempt returned under whatever faults (in particular
   Err DeviceError), the same call repeated with no further fault scheduled returns exactly
   what the lookup specification C06_find says for the medium of s: the first live slot whose
   name matches, NotFound if there is none.  The medium is still that of s afterwards. *)
Theorem C11_retry_find : forall s d di dd vi v name sfn bl out s',
  resolves s d di dd vi v -> vol_ok v -> cache_ok s -> sfn_of_str name = Some sfn ->
  dir_blocks (s_disk s) v (d_cluster dd) = Some bl ->
  step (Find d name) s = (out, s') ->
  no_faults s' ->
  exists s'', step (Find d name) s' =
      (match find (t_matches sfn) (live_in_blocks (s_disk s) bl) with
       | Some t => Ok (REntry (t_entry (v_fat32 v) t))
       | None => Err NotFound
       end, s'') /\
    s_disk s'' = s_disk s /\ cache_ok s'' /\ no_faults s'' /\ same_mgr s s''.
Proof.
  intros s d di dd vi v name sfn bl out s' Hres Hv Hc Hsfn Hbl E Hnf.
  destruct (C11_ro_call_state (Find d name) _ _ _ eq_refl E) as ((Hm & Hd & _) & Hc').
  specialize (Hc' Hc).
  pose proof (resolves_same_mgr _ _ _ _ _ _ _ Hm Hres) as Hres'.
  pose proof (resolves_nth _ _ _ _ _ _ Hres') as Hnth.
  rewrite <- Hd in Hbl.
  destruct (C06_find vi v (d_cluster dd) sfn s' bl Hnth Hv Hnf Hc' Hbl) as (s2 & Hrun & D2 & C2 & N2 & M2).
  exists s2. split; [|split; [congruence|split; [exact C2|split; [exact N2|eapply same_mgr_trans; eassumption]]]].
  destruct Hres' as (Hl & H1 & H2 & H3 & H4).
  assert (Hf : mgr_find d name s' = find_directory_entry vi (d_cluster dd) sfn s').
  { unfold mgr_find. rewrite (locked_free _ _ Hl).
    rewrite (bind_ok _ _ _ _ _ H1), (bind_ok _ _ _ _ _ H2), (bind_ok _ _ _ _ _ H3), Hsfn. reflexivity. }
  cbn [step]. rewrite Hd in Hrun. rewrite Hrun in Hf. clear Hrun.
  destruct (find (t_matches sfn) (live_in_blocks (s_disk s) bl)) as [t|].
  - exact (PrHandles.lift_ok REntry _ _ _ _ Hf).
  - exact (PrHandles.lift_err REntry _ _ _ _ Hf).
Qed.

(* Iter (no callback op): the retried listing is the one C06_iterate specifies for the medium
   of s - every valid slot before the end marker, in directory order, LFN fragments hidden *)
Theorem C11_retry_iter : forall s d di dd vi v bl out s',
  resolves s d di dd vi v -> vol_ok v -> cache_ok s ->
  dir_blocks (s_disk s) v (d_cluster dd) = Some bl ->
  step (Iter d None) s = (out, s') ->
  no_faults s' ->
  exists s'', step (Iter d None) s' =
      (Ok (RIter (filter (fun e => negb (is_lfn (e_attr e)))
                    (map (t_entry (v_fat32 v))
                         (filter t_is_valid (before_end_all (slots_of (s_disk s) bl))))) None), s'') /\
    s_disk s'' = s_disk s /\ cache_ok s'' /\ no_faults s'' /\ same_mgr s s''.
Proof.
  intros s d di dd vi v bl out s' Hres Hv Hc Hbl E Hnf.
  destruct (C11_ro_call_state (Iter d None) _ _ _ eq_refl E) as ((Hm & Hd & _) & Hc').
  specialize (Hc' Hc).
  pose proof (resolves_same_mgr _ _ _ _ _ _ _ Hm Hres) as Hres'.
  pose proof (resolves_nth _ _ _ _ _ _ Hres') as Hnth.
  rewrite <- Hd in Hbl.
  destruct (C06_iterate vi v (d_cluster dd) s' bl Hnth Hv Hnf Hc' Hbl) as (s2 & Hrun & D2 & C2 & N2 & M2).
  destruct Hres' as (Hl & H1 & H2 & H3 & H4).
  assert (Hlist : iter_listing d s' =
    (Ok (filter (fun e => negb (is_lfn (e_attr e)))
           (map (t_entry (v_fat32 v)) (filter t_is_valid (before_end_all (slots_of (s_disk s') bl))))), s2)).
  { unfold iter_listing.
    rewrite (bind_ok _ _ _ _ _ H1), (bind_ok _ _ _ _ _ H2), (bind_ok _ _ _ _ _ H3), (bind_ok _ _ _ _ _ Hrun).
    reflexivity. }
  assert (Hl2 : s_lock s2 = false) by (destruct M2 as (_ & _ & _ & _ & _ & L & _); congruence).
  rewrite Hd in Hlist.
  remember (filter (fun e => negb (is_lfn (e_attr e)))
              (map (t_entry (v_fat32 v)) (filter t_is_valid (before_end_all (slots_of (s_disk s) bl)))))
    as shown0 eqn:Es.
  cbn [step]. unfold bind. rewrite (proj1 (C08_iterate_holds_lock _ d (ret RUnit) s' Hl)), Hlist.
  unfold iterate_outcome, ret.
  destruct shown0 as [|e0 shown].
  - exists s2. split; [reflexivity|]. split; [congruence|]. split; [exact C2|]. split; [exact N2|].
    eapply same_mgr_trans; eassumption.
  - exists (set_s_lock (set_s_lock s2 true) false). split; [reflexivity|].
    split; [cbn; congruence|]. split; [intros i Hi; exact (C2 i Hi)|].
    split; [intros n Hn; exact (N2 n Hn)|].
    eapply same_mgr_trans; [exact Hm|].
    destruct M2 as (A1 & A2 & A3 & A4 & A5 & A6 & A7 & A8 & A9 & A10).
    unfold same_mgr; cbn; repeat split; try assumption. congruence.
Qed.

(* ================================================================== 3. Mkdir: the clean-up cannot panic *)
(* ---- 3.0 the device layer under ANY schedule: every outcome, described ---- *)
Lemma same_mgr_vols_eq s s' : same_mgr s s' -> s_vols s' = s_vols s.
Proof. intros (H & _). exact H. Qed.

Lemma cache_read_any i s o s' : cache_read i s = (o, s') ->
  same_mgr s s' /\ s_disk s' = s_disk s /\ (cache_ok s -> cache_ok s') /\
  ((o = Err DeviceError /\ s_tag s' = None) \/
   (exists b, o = Ok b /\ s_tag s' = Some i /\ s_cache s' = b /\
              (cache_ok s -> b = disk_get (s_disk s) i))).
Proof.
  intros E. pose proof (cok_cache_read i _ _ _ E) as Hc.
  unfold cache_read in E. rewrite bind_get in E.
  destruct (opt_eqb (s_tag s) i) eqn:Ht.
  - inversion E; subst. split; [apply same_mgr_refl|]. split; [reflexivity|]. split; [exact Hc|].
    right. exists (s_cache s'). unfold opt_eqb in Ht. destruct (s_tag s') as [j|] eqn:Etag; [|discriminate].
    apply N.eqb_eq in Ht. subst j. repeat split; auto.
  - unfold bind, modify, try, dev_read, fail, ret in E.
    destruct (faulty (set_s_tag s None)); inversion E; subst;
      (split; [unfold same_mgr; cbn; repeat split; reflexivity|]); (split; [reflexivity|]); (split; [exact Hc|]).
    + left. split; reflexivity.
    + right. eexists. repeat split.
Qed.

Lemma write_back_any s o s' : write_back s = (o, s') ->
  same_mgr s s' /\
  match s_tag s with
  | None => o = Panic
  | Some i =>
      (o = Ok tt /\ s_disk s' = disk_set (s_disk s) i (s_cache s) /\ s_tag s' = Some i /\ s_cache s' = s_cache s) \/
      (o = Err DeviceError /\ s_disk s' = s_disk s /\ s_tag s' = None)
  end.
Proof.
  intros E. unfold write_back in E. rewrite bind_get in E.
  destruct (s_tag s) as [i|] eqn:Et; [|inversion E; subst; split; [apply same_mgr_refl|reflexivity]].
  unfold bind, try, dev_write, modify, fail, ret in E.
  destruct (faulty s); inversion E; subst; (split; [unfold same_mgr; cbn; repeat split; reflexivity|]).
  - right. repeat split.
  - left. repeat split; cbn; auto.
Qed.

Lemma write_back_dup_any d s o s' : write_back_with_duplicate d s = (o, s') ->
  same_mgr s s' /\
  match s_tag s with
  | None => o = Panic
  | Some i =>
      (o = Ok tt /\ s_disk s' = disk_set (disk_set (s_disk s) i (s_cache s)) d (s_cache s) /\
       s_tag s' = Some i /\ s_cache s' = s_cache s) \/
      (o = Err DeviceError /\ s_disk s' = s_disk s /\ s_tag s' = None) \/
      (o = Err DeviceError /\ s_disk s' = disk_set (s_disk s) i (s_cache s) /\
       s_tag s' = Some i /\ s_cache s' = s_cache s)
  end.
Proof.
  intros E. unfold write_back_with_duplicate in E. rewrite bind_get in E.
  destruct (s_tag s) as [i|] eqn:Et; [|inversion E; subst; split; [apply same_mgr_refl|reflexivity]].
  unfold bind, try, modify, fail, ret in E. unfold dev_write at 1 in E.
  destruct (faulty s).
  - inversion E; subst. split; [unfold same_mgr; cbn; repeat split; reflexivity|]. right. left. repeat split.
  - unfold dev_write in E.
    destruct (faulty _); inversion E; subst; (split; [unfold same_mgr; cbn; repeat split; reflexivity|]).
    + right. right. repeat split; cbn; auto.
    + left. repeat split; cbn; auto.
Qed.

(* read block i, change it with f, write it back: three ways to end, never a panic, the cache
   coherent in each *)
Lemma rmw_any i f s o s' : cache_ok s ->
  (_ <- cache_read i ;; cache_modify f ;;; write_back) s = (o, s') ->
  same_mgr s s' /\ cache_ok s' /\
  ((o = Err DeviceError /\ s_disk s' = s_disk s) \/
   (o = Ok tt /\ s_disk s' = disk_set (s_disk s) i (f (disk_get (s_disk s) i)))).
Proof.
  intros Hc E. unfold bind at 1 in E.
  destruct (cache_read i s) as [o1 s1] eqn:E1.
  destruct (cache_read_any _ _ _ _ E1) as (M1 & D1 & C1 & [(-> & T1)|(b & -> & T1 & B1 & Hb)]).
  { inversion E; subst. split; [exact M1|]. split; [exact (C1 Hc)|]. left. auto. }
  specialize (Hb Hc). unfold bind, cache_modify, modify in E.
  destruct (write_back_any _ _ _ E) as (M2 & W). cbn [s_tag set_s_cache] in W. rewrite T1 in W.
  assert (M : same_mgr s s').
  { eapply same_mgr_trans; [exact M1|]. destruct M2 as (A1 & A2 & A3 & A4 & A5 & A6 & A7 & A8 & A9 & A10).
    unfold same_mgr. cbn in *. repeat split; assumption. }
  split; [exact M|]. cbn [s_disk s_cache set_s_cache] in W. rewrite D1, B1, Hb in W.
  destruct W as [(-> & Wd & Wt & Wc)|(-> & Wd & Wt)].
  - split; [|right; auto]. intros j Hj. rewrite Wt in Hj. inversion Hj; subst j.
    rewrite Wc, Wd, disk_get_set_same. reflexivity.
  - split; [|left; auto]. intros j Hj. rewrite Wt in Hj. discriminate.
Qed.

Lemma rmw_dup_any i d f s o s' : cache_ok s ->
  (_ <- cache_read i ;; cache_modify f ;;; write_back_with_duplicate d) s = (o, s') ->
  same_mgr s s' /\ cache_ok s' /\
  let nb := f (disk_get (s_disk s) i) in
  ((o = Err DeviceError /\ s_disk s' = s_disk s) \/
   (o = Ok tt /\ s_disk s' = disk_set (disk_set (s_disk s) i nb) d nb) \/
   (o = Err DeviceError /\ s_disk s' = disk_set (s_disk s) i nb)).
Proof.
  intros Hc E. unfold bind at 1 in E.
  destruct (cache_read i s) as [o1 s1] eqn:E1.
  destruct (cache_read_any _ _ _ _ E1) as (M1 & D1 & C1 & [(-> & T1)|(b & -> & T1 & B1 & Hb)]).
  { inversion E; subst. split; [exact M1|]. split; [exact (C1 Hc)|]. left. auto. }
  specialize (Hb Hc). unfold bind, cache_modify, modify in E.
  destruct (write_back_dup_any _ _ _ _ E) as (M2 & W). cbn [s_tag set_s_cache] in W. rewrite T1 in W.
  assert (M : same_mgr s s').
  { eapply same_mgr_trans; [exact M1|]. destruct M2 as (A1 & A2 & A3 & A4 & A5 & A6 & A7 & A8 & A9 & A10).
    unfold same_mgr. cbn in *. repeat split; assumption. }
  split; [exact M|]. cbn [s_disk s_cache set_s_cache] in W. rewrite D1, B1, Hb in W. cbv zeta.
  destruct W as [(-> & Wd & Wt & Wc)|[(-> & Wd & Wt)|(-> & Wd & Wt & Wc)]].
  - split; [|right; left; auto]. intros j Hj. rewrite Wt in Hj. inversion Hj; subst j. rewrite Wc, Wd.
    destruct (N.eq_dec d i) as [->|Hne]; [rewrite disk_get_set_same; reflexivity|].
    rewrite disk_get_set_other by exact Hne. rewrite disk_get_set_same. reflexivity.
  - split; [|left; auto]. intros j Hj. rewrite Wt in Hj. discriminate.
  - split; [|right; right; auto]. intros j Hj. rewrite Wt in Hj. inversion Hj; subst j.
    rewrite Wc, Wd, disk_get_set_same. reflexivity.
Qed.

(* update_fat under any schedule, the cache coherent at the start: never a panic, the cache
   coherent at the end, and the medium is untouched, or fully updated (result Ok), or - when
   the write to the second FAT copy failed - updated in the first copy only *)
Lemma update_fat_any vi c x s v o s' :
  cache_ok s -> nth_error (s_vols s) vi = Some v -> fat_addr_ok v c ->
  update_fat vi c x s = (o, s') ->
  let this := fat_sector v 0 c in
  let dup := fat_sector v 1 c in
  let nb := fat_put_block v (disk_get (s_disk s) this) c x in
  same_mgr s s' /\ cache_ok s' /\
  ((o = Err DeviceError /\ s_disk s' = s_disk s) \/
   (o = Ok tt /\ s_disk s' = fat_disk_after (v_second_fat v) (s_disk s) this dup nb) \/
   (o = Err DeviceError /\ s_disk s' = disk_set (s_disk s) this nb)).
Proof.
  intros Hc Hv (Hmul & H0 & H1) E. intros this dup nb.
  unfold update_fat in E. rewrite (bind_ok _ _ _ _ _ (get_vol_ok vi v s Hv)) in E.
  subst this dup nb. unfold fat_put_block, fat_sector, fat_copy_sector, fat_off, fat_copy_start, fat_width, fat_disk_after in *.
  change (0 =? 0) with true in *. change (1 =? 0) with false in *. cbv iota in *.
  destruct (v_fat32 v).
  - rewrite (bind_ok _ _ _ _ _ (mul32_ok c 4 s Hmul)) in E.
    rewrite (bind_ok _ _ _ _ _ (fat_block_ok v (v_fat_start v) (c * 4) s H0)) in E.
    destruct (v_second_fat v) as [sf|].
    + assert (Hsec : (x0 <- fat_block v sf (c * 4) ;; ret (Some x0)) s
                     = (Ok (Some (v_lba v + (sf + c * 4 / 512))), s)).
      { rewrite (bind_ok _ _ _ _ _ (fat_block_ok v sf (c * 4) s H1)). reflexivity. }
      rewrite (bind_ok _ _ _ _ _ Hsec) in E. cbv beta zeta in E.
      destruct (rmw_dup_any _ _ _ _ _ _ Hc E) as (M & C & D). split; [exact M|]. split; [exact C|].
      cbv zeta in D. destruct D as [D|[D|D]]; auto.
    + rewrite (bind_ok _ _ _ _ _ (eq_refl : ret (@None N) s = (Ok None, s))) in E. cbv beta zeta in E.
      destruct (rmw_any _ _ _ _ _ Hc E) as (M & C & D). split; [exact M|]. split; [exact C|].
      destruct D as [D|D]; auto.
  - rewrite (bind_ok _ _ _ _ _ (mul32_ok c 2 s Hmul)) in E.
    rewrite (bind_ok _ _ _ _ _ (fat_block_ok v (v_fat_start v) (c * 2) s H0)) in E.
    destruct (v_second_fat v) as [sf|].
    + assert (Hsec : (x0 <- fat_block v sf (c * 2) ;; ret (Some x0)) s
                     = (Ok (Some (v_lba v + (sf + c * 2 / 512))), s)).
      { rewrite (bind_ok _ _ _ _ _ (fat_block_ok v sf (c * 2) s H1)). reflexivity. }
      rewrite (bind_ok _ _ _ _ _ Hsec) in E. cbv beta zeta in E.
      destruct (rmw_dup_any _ _ _ _ _ _ Hc E) as (M & C & D). split; [exact M|]. split; [exact C|].
      cbv zeta in D. destruct D as [D|[D|D]]; auto.
    + rewrite (bind_ok _ _ _ _ _ (eq_refl : ret (@None N) s = (Ok None, s))) in E. cbv beta zeta in E.
      destruct (rmw_any _ _ _ _ _ Hc E) as (M & C & D). split; [exact M|]. split; [exact C|].
      destruct D as [D|D]; auto.
Qed.

(* next_cluster under any schedule, the cache coherent: DeviceError, or the classification of
   the entry that the medium holds *)
Lemma next_cluster_any v c s o s' :
  vol_ok v -> c < v_clusters v + 2 -> cache_ok s -> try (next_cluster v c) s = (o, s') ->
  same_mgr s s' /\ s_disk s' = s_disk s /\ cache_ok s' /\
  (o = Ok (inr DeviceError) \/ o = Ok (next_result v (PrAlloc.fat_entry (s_disk s) v c))).
Proof.
  intros Hv Hc Hco E.
  pose proof (fat_sector_ok v c s Hv Hc) as Hfb.
  assert (Hp : (1073741823 <? c) = false).
  { apply N.ltb_ge. destruct Hv as [H1 _ _ _]. unfold U32 in H1. lia. }
  unfold try, next_cluster in E. rewrite Hp in E.
  unfold next_result, PrAlloc.fat_entry. unfold fat_w in *.
  destruct (v_fat32 v).
  - rewrite (bind_ok _ _ _ _ _ Hfb) in E. unfold bind in E.
    destruct (cache_read _ s) as [o1 s1] eqn:E1.
    destruct (cache_read_any _ _ _ _ E1) as (M1 & D1 & C1 & [(-> & T1)|(b & -> & T1 & B1 & Hb)]).
    + inversion E; subst. auto.
    + rewrite <- (Hb Hco).
      repeat match type of E with context [if ?b then _ else _] => destruct b end;
        inversion E; subst; auto.
  - rewrite (bind_ok _ _ _ _ _ Hfb) in E. unfold bind in E.
    destruct (cache_read _ s) as [o1 s1] eqn:E1.
    destruct (cache_read_any _ _ _ _ E1) as (M1 & D1 & C1 & [(-> & T1)|(b & -> & T1 & B1 & Hb)]).
    + inversion E; subst. auto.
    + rewrite <- (Hb Hco).
      repeat match type of E with context [if ?b then _ else _] => destruct b end;
        inversion E; subst; auto.
Qed.

(* ---- 3.0b closing a file never panics or hangs when the file records are well-formed ---- *)
(* the panics of flush_file are about the file RECORD (a non-empty file without a first
   cluster, a timestamp that cannot be encoded, a slot offset outside the block) - none is
   caused by the device.  With well-formed records close_file is total under ANY schedule. *)
Definition ts_fat_ok (t : ts) : Prop := t_month t <> 255 /\ t_day t <> 255.
Definition file_rec_ok (f : fileinfo) : Prop :=
  (e_size (f_entry f) = 0 \/ e_cluster (f_entry f) <> 0) /\ e_offset (f_entry f) + 32 <= 512 /\
  ts_fat_ok (e_ctime (f_entry f)) /\ ts_fat_ok (e_mtime (f_entry f)).

Lemma ts_to_fat_total t s : ts_fat_ok t -> exists l, ts_to_fat t s = (Ok l, s).
Proof.
  intros (H1 & H2). unfold ts_to_fat.
  replace (t_month t =? 255) with false by (symmetry; apply N.eqb_neq; exact H1).
  replace (t_day t =? 255) with false by (symmetry; apply N.eqb_neq; exact H2).
  cbn [orb]. eexists. reflexivity.
Qed.
Lemma serialize_total fat32 e s : ts_fat_ok (e_ctime e) -> ts_fat_ok (e_mtime e) ->
  exists l, serialize fat32 e s = (Ok l, s).
Proof.
  intros H1 H2. unfold serialize.
  destruct (ts_to_fat_total (e_ctime e) s H1) as (l1 & E1). rewrite (bind_ok _ _ _ _ _ E1).
  destruct (ts_to_fat_total (e_mtime e) s H2) as (l2 & E2). rewrite (bind_ok _ _ _ _ _ E2).
  eexists. reflexivity.
Qed.

Lemma tail_write_np f s o s' i : s_tag s = Some i ->
  (cache_modify f ;;; write_back) s = (o, s') -> no_panic o /\ s_vols s' = s_vols s.
Proof.
  intros Ht E. unfold bind, cache_modify, modify in E.
  destruct (write_back_any _ _ _ E) as (M & W). cbn [s_tag set_s_cache] in W. rewrite Ht in W.
  split; [|exact (same_mgr_vols_eq _ _ M)].
  destruct W as [(-> & _)|(-> & _)]; split; discriminate.
Qed.

Lemma write_entry_np v e s o s' :
  e_offset e + 32 <= 512 -> ts_fat_ok (e_ctime e) -> ts_fat_ok (e_mtime e) ->
  write_entry_to_disk v e s = (o, s') -> no_panic o.
Proof.
  intros Ho H1 H2 E. unfold write_entry_to_disk in E. unfold bind at 1 in E.
  destruct (cache_read (e_block e) s) as [o1 s1] eqn:E1.
  destruct (cache_read_any _ _ _ _ E1) as (_ & _ & _ & [(-> & _)|(b & -> & T & _)]).
  { inversion E; subst. split; discriminate. }
  destruct (serialize_total (v_fat32 v) e s1 H1 H2) as (l & Es). rewrite (bind_ok _ _ _ _ _ Es) in E.
  replace (512 <? e_offset e + 32) with false in E by (symmetry; apply N.ltb_ge; exact Ho).
  exact (proj1 (tail_write_np _ _ _ _ _ T E)).
Qed.

Lemma update_info_np vi v s o s' : nth_error (s_vols s) vi = Some v ->
  update_info_sector vi s = (o, s') -> no_panic o /\ s_vols s' = s_vols s.
Proof.
  intros Hv E. unfold update_info_sector in E. rewrite (bind_ok _ _ _ _ _ (get_vol_some vi v s Hv)) in E.
  destruct (negb (v_fat32 v)); [inversion E; subst; split; [split; discriminate|reflexivity]|].
  assert (Hgo : forall fc nf,
    (_ <- cache_read (v_info v) ;;
     (match fc with Some c => cache_modify (fun b => set_bytes b 488 (bytes32 c)) | None => ret tt end) ;;;
     (match nf with Some c => cache_modify (fun b => set_bytes b 492 (bytes32 c)) | None => ret tt end) ;;;
     write_back) s = (o, s') -> no_panic o /\ s_vols s' = s_vols s).
  { intros fc nf E0. unfold bind at 1 in E0.
    destruct (cache_read (v_info v) s) as [o1 s1] eqn:E1.
    destruct (cache_read_any _ _ _ _ E1) as (M1 & _ & _ & [(-> & _)|(b & -> & T & _)]).
    { inversion E0; subst. split; [split; discriminate|exact (same_mgr_vols_eq _ _ M1)]. }
    assert (Hwb : forall s2, s_tag s2 = Some (v_info v) -> s_vols s2 = s_vols s1 -> write_back s2 = (o, s') ->
              no_panic o /\ s_vols s' = s_vols s).
    { intros s2 T2 V2 E2. destruct (write_back_any _ _ _ E2) as (M & W). rewrite T2 in W.
      split; [destruct W as [(-> & _)|(-> & _)]; split; discriminate|].
      rewrite (same_mgr_vols_eq _ _ M), V2. exact (same_mgr_vols_eq _ _ M1). }
    destruct fc as [c1|], nf as [c2|]; unfold bind, cache_modify, modify, ret in E0;
      (eapply Hwb; [| |exact E0]; [exact T|reflexivity]). }
  destruct (v_free v) as [fc|], (v_next_free v) as [nf|].
  - exact (Hgo (Some fc) (Some nf) E).
  - exact (Hgo (Some fc) None E).
  - exact (Hgo None (Some nf) E).
  - inversion E; subst. split; [split; discriminate|reflexivity].
Qed.

Lemma flush_file_np h s o s' : Forall file_rec_ok (s_files s) ->
  flush_file h s = (o, s') -> no_panic o.
Proof.
  intros Hok E. unfold flush_file, locked in E. rewrite bind_get in E.
  destruct (s_lock s); [inversion E; subst; split; discriminate|].
  unfold bind at 1 in E. rewrite get_file_by_id_eq in E.
  destruct (find_idx (fun f => f_id f =? h) (s_files s) 0) as [fi|] eqn:Ef;
    [|inversion E; subst; split; discriminate].
  apply find_idx_some in Ef. destruct Ef as (_ & _ & f & Hf & _). rewrite Nat.sub_0_r in Hf.
  unfold bind at 1 in E. rewrite get_file_eq, Hf in E.
  assert (Hfo : file_rec_ok f) by (rewrite Forall_forall in Hok; apply Hok; eapply nth_error_In; exact Hf).
  destruct Hfo as (F1 & F2 & F3 & F4).
  destruct (f_dirty f); [|inversion E; subst; split; discriminate].
  unfold bind at 1 in E. rewrite get_volume_by_id_eq in E.
  destruct (find_idx (fun v => v_id v =? f_vol f) (s_vols s) 0) as [vi|] eqn:Ev;
    [|inversion E; subst; split; discriminate].
  apply find_idx_some in Ev. destruct Ev as (_ & _ & v & Hv & _). rewrite Nat.sub_0_r in Hv.
  unfold bind at 1 in E. destruct (update_info_sector vi s) as [o1 s1] eqn:E1.
  destruct (update_info_np vi v s o1 s1 Hv E1) as ((N1 & N2) & V1).
  destruct o1 as [u|e| |]; try contradiction; [|inversion E; subst; split; discriminate].
  assert (Hchk : negb (e_size (f_entry f) =? 0) && (e_cluster (f_entry f) =? 0) = false).
  { destruct F1 as [F1|F1]; [rewrite F1; reflexivity|].
    apply andb_false_iff. right. apply N.eqb_neq. exact F1. }
  rewrite Hchk in E.
  assert (Hv1 : nth_error (s_vols s1) vi = Some v) by (rewrite V1; exact Hv).
  rewrite (bind_ok _ _ _ _ _ (get_vol_some vi v s1 Hv1)) in E.
  exact (write_entry_np v (f_entry f) s1 o s' F2 F3 F4 E).
Qed.

Theorem C11_close_file_total : forall h s out s',
  Forall file_rec_ok (s_files s) -> step (CloseFile h) s = (out, s') -> no_panic out.
Proof.
  intros h s out s' Hok E. cbn [step] in E. unfold lift, close_file in E.
  unfold bind at 1 2 in E. unfold try in E.
  destruct (flush_file h s) as [o1 s1] eqn:E1.
  destruct (flush_file_np h s o1 s1 Hok E1) as (N1 & N2).
  assert (Htail : forall r : unit + err,
    (let (o, s2) := locked (fi <- get_file_by_id h ;;
                            modify (fun s => set_s_files s (swap_remove (s_files s) fi)) ;;;
                            match r with inl _ => ret tt | inr e => fail e end) s1 in
     match o with Ok a => ret RUnit s2 | Err e => (Err e, s2) | Panic => (Panic, s2) | OutOfFuel => (OutOfFuel, s2) end)
    = (out, s') -> no_panic out).
  { intros r E2. unfold locked in E2. rewrite bind_get in E2.
    destruct (s_lock s1); [inversion E2; subst; split; discriminate|].
    unfold bind at 1 in E2. rewrite get_file_by_id_eq in E2.
    destruct (find_idx _ _ _); [|inversion E2; subst; split; discriminate].
    unfold bind, modify, ret, fail in E2. destruct r; inversion E2; subst; split; discriminate. }
  destruct o1 as [u|e| |]; try contradiction.
  - exact (Htail (inl u) E).
  - exact (Htail (inr e) E).
Qed.

(* "every handle can still be closed", with no proviso left: whatever the device does *)
Corollary C11_close_file_whatever : forall h s out s',
  s_lock s = false -> NoDup (fids s) -> In h (fids s) -> Forall file_rec_ok (s_files s) ->
  step (CloseFile h) s = (out, s') ->
  (out = Ok RUnit \/ exists e, out = Err e) /\
  (exists i, nth_error (fids s) i = Some h /\ fids s' = swap_remove (fids s) i) /\
  no_file h s' /\ (forall x, In x (fids s) -> x <> h -> In x (fids s')) /\
  vids s' = vids s /\ dids s' = dids s /\ s_lock s' = false /\
  (fault_fired s s' -> exists e, out = Err e).
Proof.
  intros h s out s' Hl Hnd Hin Hok E. destruct (C11_close_file_total h s out s' Hok E) as (N1 & N2).
  exact (C11_close_file_after_fault h s out s' Hl Hnd Hin E N1 N2).
Qed.

(* ---- 3.1 the cluster alloc_cluster returns is a data cluster, under ANY schedule ---- *)
Lemma find_loop_range v endc : forall fuel cur s c s',
  find_next_free_loop fuel v cur endc s = (Ok c, s') -> cur <= c /\ c < endc.
Proof.
  induction fuel as [|f IH]; intros cur s c s' E; cbn [find_next_free_loop] in E; [discriminate|].
  destruct (cur <? endc); [|discriminate].
  apply bind_inv in E. destruct E as (fo & s1 & _ & E).
  apply bind_inv in E. destruct E as (this & s2 & _ & E).
  apply bind_inv in E. destruct E as (b & s3 & _ & E).
  destruct (scan_sector 257 (v_fat32 v) b (fo mod 512) cur endc) as [[c0|] cur'] eqn:Hs.
  - inversion E; subst. destruct (scan_sector_sound _ _ _ _ _ _ _ _ Hs) as (S1 & S2 & _). split; assumption.
  - apply IH in E. destruct (scan_sector_none _ _ _ _ _ _ _ Hs) as (N1 & _). lia.
Qed.

Lemma try_inv {A} (m : M A) s x s' : try m s = (Ok x, s') ->
  match x with inl a => m s = (Ok a, s') | inr e => m s = (Err e, s') end.
Proof. unfold try. destruct (m s) as [[a|e| |] s1]; intros E; inversion E; subst; reflexivity. Qed.

Theorem alloc_range_any vi v prev zero s c s' :
  nth_error (s_vols s) vi = Some v -> hint_ok v ->
  alloc_cluster vi prev zero s = (Ok c, s') -> 2 <= c /\ c < v_clusters v + 2.
Proof.
  intros Hvi Hh H. unfold alloc_cluster in H.
  rewrite (bind_ok _ _ _ _ _ (get_vol_some vi v s Hvi)) in H.
  apply bind_inv in H. destruct H as (endc & s0 & Ha & H).
  apply PrOrder.add32_inv in Ha. destruct Ha as (-> & -> & _). unfold RESERVED_ENTRIES in H.
  cbv zeta in H.
  remember (match v_next_free v with
            | Some c0 => if c0 <? v_clusters v + 2 then c0 else 2
            | None => 2 end) as start eqn:Estart.
  assert (Hs1 : 2 <= start).
  { subst start. destruct (v_next_free v) as [c0|] eqn:En; [|lia].
    destruct (c0 <? v_clusters v + 2); [|lia]. exact (Hh c0 En). }
  apply bind_inv in H. destruct H as (r & s1 & Hr & H).
  apply bind_inv in H. destruct H as (a & s2 & Ha & H).
  assert (Hrange : 2 <= a /\ a < v_clusters v + 2).
  { apply try_inv in Hr. destruct r as [c0|e].
    - inversion Ha; subst. apply find_loop_range in Hr. lia.
    - destruct e; try discriminate. destruct (2 <? start); [|discriminate].
      apply find_loop_range in Ha. lia. }
  repeat (apply bind_inv in H; destruct H as (? & ? & _ & H)).
  inversion H; subst. exact Hrange.
Qed.

(* ---- 3.2 the geometry of volume vi is carried through, under ANY schedule and outcome ---- *)
(* the record at index vi differs from v0 in the two free-space hints only *)
Definition geo (vi : nat) (v0 : vol) (s : st) : Prop :=
  exists w, nth_error (s_vols s) vi = Some w /\ PrChain.geo_eq v0 w.
Definition gk (vi : nat) (v0 : vol) {A} (m : M A) : Prop :=
  forall s o s', geo vi v0 s -> m s = (o, s') -> geo vi v0 s'.

Section Geo.
Variable vi : nat.
Variable v0 : vol.
Lemma gk_ret {A} (a : A) : gk vi v0 (ret a). Proof. intros s o s' H E; inversion E; subst; exact H. Qed.
Lemma gk_fail {A} e : gk vi v0 (@fail A e). Proof. intros s o s' H E; inversion E; subst; exact H. Qed.
Lemma gk_panic {A} : gk vi v0 (@panic A). Proof. intros s o s' H E; inversion E; subst; exact H. Qed.
Lemma gk_oof {A} : gk vi v0 (@out_of_fuel A). Proof. intros s o s' H E; inversion E; subst; exact H. Qed.
Lemma gk_get : gk vi v0 get. Proof. intros s o s' H E; inversion E; subst; exact H. Qed.
Lemma gk_bind {A B} (m : M A) (k : A -> M B) : gk vi v0 m -> (forall a, gk vi v0 (k a)) -> gk vi v0 (bind m k).
Proof.
  intros Hm Hk s o s' H E. unfold bind in E.
  destruct (m s) as [[a|e| |] s1] eqn:Em; pose proof (Hm _ _ _ H Em) as H1.
  - exact (Hk a _ _ _ H1 E).
  - inversion E; subst; exact H1.
  - inversion E; subst; exact H1.
  - inversion E; subst; exact H1.
Qed.
Lemma gk_try {A} (m : M A) : gk vi v0 m -> gk vi v0 (try m).
Proof.
  intros Hm s o s' H E. unfold try in E.
  destruct (m s) as [[a|e| |] s1] eqn:Em; pose proof (Hm _ _ _ H Em) as H1; inversion E; subst; exact H1.
Qed.
Lemma gk_modify f : (forall s, s_vols (f s) = s_vols s) -> gk vi v0 (modify f).
Proof. intros Hf s o s' (w & H1 & H2) E. inversion E; subst. exists w. rewrite Hf. auto. Qed.
Lemma gk_bind_get_vol {B} (k : vol -> M B) :
  (forall w, PrChain.geo_eq v0 w -> gk vi v0 (k w)) -> gk vi v0 (bind (get_vol vi) k).
Proof.
  intros Hk s o s' H E. destruct H as (w & H1 & H2).
  rewrite (bind_ok _ _ _ _ _ (get_vol_some vi w s H1)) in E.
  exact (Hk w H2 _ _ _ (ex_intro _ w (conj H1 H2)) E).
Qed.
Lemma gk_get_vol : gk vi v0 (get_vol vi).
Proof. intros s o s' H E. rewrite get_vol_eq in E. destruct (nth_error _ _); inversion E; subst; exact H. Qed.
Lemma gk_put_vol w : PrChain.geo_eq v0 w -> gk vi v0 (put_vol vi w).
Proof.
  intros Hw s o s' (w1 & H1 & H2) E. inversion E; subst. exists w. split; [|exact Hw].
  cbn [s_vols set_s_vols]. exact (PrAllocEffect.ls_nth_same _ _ _ _ H1).
Qed.
Lemma gk_dev_read i : gk vi v0 (dev_read i).
Proof. intros s o s' H E. unfold dev_read in E. destruct (faulty s); inversion E; subst; exact H. Qed.
Lemma gk_dev_write i b : gk vi v0 (dev_write i b).
Proof. intros s o s' H E. unfold dev_write in E. destruct (faulty s); inversion E; subst; exact H. Qed.
End Geo.

Create HintDb gk.
#[export] Hint Resolve gk_ret gk_fail gk_panic gk_oof gk_get gk_get_vol gk_dev_read gk_dev_write : gk.
#[export] Hint Resolve PrChain.geo_eq_free PrChain.geo_eq_next PrChain.geo_eq_refl : gk.

Ltac gk_step :=
  match goal with
  | |- gk ?vi _ (bind (get_vol ?vi) _) => apply gk_bind_get_vol; intros ? ?
  | |- gk _ _ (bind _ _) => apply gk_bind; [|intros ?]
  | |- gk _ _ (try _) => apply gk_try
  | |- gk _ _ (put_vol _ _) => apply gk_put_vol; solve [auto 4 with gk]
  | |- gk _ _ (modify _) => apply gk_modify; intros ?; reflexivity
  | |- gk _ _ (if ?b then _ else _) => destruct b
  | |- gk _ _ (match ?x with _ => _ end) => destruct x
  | |- gk _ _ (let _ := _ in _) => cbv zeta
  | |- gk _ _ _ => solve [auto 2 with gk]
  end.
Ltac gk_go := repeat gk_step.

Section Geo2.
Variable vi : nat.
Variable v0 : vol.
Lemma gk_add32 a b : gk vi v0 (add32 a b). Proof. unfold add32. gk_go. Qed.
Lemma gk_sub32 a b : gk vi v0 (sub32 a b). Proof. unfold sub32. gk_go. Qed.
Lemma gk_mul32 a b : gk vi v0 (mul32 a b). Proof. unfold mul32. gk_go. Qed.
Hint Resolve gk_add32 gk_sub32 gk_mul32 : gk.
Lemma gk_cache_read i : gk vi v0 (cache_read i). Proof. unfold cache_read. gk_go. Qed.
Lemma gk_cache_modify f : gk vi v0 (cache_modify f). Proof. unfold cache_modify. gk_go. Qed.
Lemma gk_write_back : gk vi v0 write_back. Proof. unfold write_back. gk_go. Qed.
Lemma gk_write_back_dup d : gk vi v0 (write_back_with_duplicate d). Proof. unfold write_back_with_duplicate. gk_go. Qed.
Lemma gk_blank_mut i : gk vi v0 (blank_mut i). Proof. unfold blank_mut. gk_go. Qed.
Hint Resolve gk_cache_read gk_cache_modify gk_write_back gk_write_back_dup gk_blank_mut : gk.
Lemma gk_fat_block v a b : gk vi v0 (fat_block v a b). Proof. unfold fat_block. gk_go. Qed.
Lemma gk_cluster_to_block v c : gk vi v0 (cluster_to_block v c). Proof. unfold cluster_to_block. gk_go. Qed.
Lemma gk_ts_to_fat t : gk vi v0 (ts_to_fat t). Proof. unfold ts_to_fat. gk_go. Qed.
Hint Resolve gk_fat_block gk_cluster_to_block gk_ts_to_fat : gk.
Lemma gk_serialize b e : gk vi v0 (serialize b e). Proof. unfold serialize. gk_go. Qed.
Lemma gk_get_timestamp : gk vi v0 get_timestamp. Proof. unfold get_timestamp. gk_go. Qed.
Hint Resolve gk_serialize gk_get_timestamp : gk.
Lemma gk_update_fat c x : gk vi v0 (update_fat vi c x). Proof. unfold update_fat. gk_go. Qed.
Lemma gk_next_cluster v c : gk vi v0 (next_cluster v c). Proof. unfold next_cluster. gk_go. Qed.
Hint Resolve gk_update_fat gk_next_cluster : gk.
Lemma gk_for_blocks_from {R} (body : N -> M (option R)) :
  (forall i, gk vi v0 (body i)) -> forall n i, gk vi v0 (for_blocks_from n i body).
Proof.
  intros Hb. induction n as [|n IH]; intros i; cbn [for_blocks_from]; [apply gk_ret|].
  apply gk_bind; [apply Hb|]. intros [x|]; [apply gk_ret | apply IH].
Qed.
Lemma gk_for_blocks {R} (body : N -> M (option R)) first size :
  (forall i, gk vi v0 (body i)) -> gk vi v0 (for_blocks first size body).
Proof. intros Hb. unfold for_blocks. apply gk_bind; [apply gk_add32|]. intros _. apply gk_for_blocks_from. exact Hb. Qed.
Lemma gk_find_next_free_loop v endc : forall fuel cur, gk vi v0 (find_next_free_loop fuel v cur endc).
Proof. induction fuel as [|f IH]; intros cur; cbn [find_next_free_loop]; gk_go. Qed.
Lemma gk_find_next_free_cluster v a b : gk vi v0 (find_next_free_cluster v a b).
Proof. apply gk_find_next_free_loop. Qed.
Hint Resolve gk_find_next_free_cluster : gk.
Lemma gk_zero_cluster v c : gk vi v0 (zero_cluster v c).
Proof. unfold zero_cluster. gk_go. apply gk_for_blocks. intros i. gk_go. Qed.
Hint Resolve gk_zero_cluster : gk.
Lemma gk_alloc_cluster prev zero : gk vi v0 (alloc_cluster vi prev zero).
Proof. unfold alloc_cluster. gk_go. Qed.
Hint Resolve gk_alloc_cluster : gk.
Lemma gk_bump_free : gk vi v0 (bump_free vi). Proof. unfold bump_free. gk_go. Qed.
Hint Resolve gk_bump_free : gk.
Lemma gk_truncate_loop : forall fuel next, gk vi v0 (truncate_loop fuel vi next).
Proof. induction fuel as [|f IH]; intros next; cbn [truncate_loop]; gk_go. Qed.
Hint Resolve gk_truncate_loop : gk.
Lemma gk_truncate_cluster_chain c : gk vi v0 (truncate_cluster_chain vi c).
Proof. unfold truncate_cluster_chain. gk_go. Qed.
Hint Resolve gk_truncate_cluster_chain : gk.
Lemma gk_free_cluster_chain c : gk vi v0 (free_cluster_chain vi c).
Proof. unfold free_cluster_chain. gk_go. Qed.
Lemma gk_walk_dir {R} grow (body : N -> M (option R)) :
  (forall blk, gk vi v0 (body blk)) -> forall fuel cluster, gk vi v0 (walk_dir fuel vi cluster grow body).
Proof.
  intros Hb. induction fuel as [|fuel IH]; intros cluster; cbn [walk_dir]; gk_go.
  all: apply gk_for_blocks; exact Hb.
Qed.
Lemma gk_write_new_directory_entry dc name attr fc : gk vi v0 (write_new_directory_entry vi dc name attr fc).
Proof. unfold write_new_directory_entry. gk_go. apply gk_walk_dir. intros blk. gk_go. Qed.
End Geo2.

(* ---- 3.3 the clean-up on a freshly allocated cluster is total ---- *)
(* what the clean-up needs: the cache coherent, the volume record addressable, the cluster a
   data cluster whose FAT entry on the medium reads end-of-chain (what alloc_cluster wrote) *)
Definition eoc_on_disk (v : vol) (d : disk) (c : N) : Prop :=
  next_result v (PrAlloc.fat_entry d v c) = inr EndOfFile.

Definition cleanup_ready (vi : nat) (c : N) (s : st) : Prop :=
  cache_ok s /\ exists w, nth_error (s_vols s) vi = Some w /\ vol_ok w /\ fat_addr_ok w c /\
    2 <= c /\ c < v_clusters w + 2 /\ eoc_on_disk w (s_disk s) c.

Lemma truncate_fresh vi c s o s' : cleanup_ready vi c s -> truncate_cluster_chain vi c s = (o, s') ->
  same_mgr s s' /\ s_disk s' = s_disk s /\ cache_ok s' /\ (o = Ok tt \/ o = Err DeviceError).
Proof.
  intros (Hc & w & Hw & Hv & _ & H2 & Hr & He) E. unfold truncate_cluster_chain in E.
  assert (Hlt : (c <? RESERVED_ENTRIES) = false) by (apply N.ltb_ge; unfold RESERVED_ENTRIES; lia).
  rewrite Hlt in E. rewrite (bind_ok _ _ _ _ _ (get_vol_some vi w s Hw)) in E.
  unfold bind at 1 in E. destruct (try (next_cluster w c) s) as [o1 s1] eqn:E1.
  destruct (next_cluster_any w c s o1 s1 Hv Hr Hc E1) as (M & D & C & [-> | ->]).
  - inversion E; subst. auto.
  - unfold eoc_on_disk in He. rewrite He in E. inversion E; subst. auto.
Qed.

(* under ANY fault schedule the clean-up ends with Ok or with an error: no panic, no hang *)
Theorem free_fresh_total vi c s o s' :
  cleanup_ready vi c s -> free_cluster_chain vi c s = (o, s') -> no_panic o.
Proof.
  intros Hready E. pose proof Hready as (Hc & w & Hw & Hv & Ha & H2 & Hr & He).
  unfold free_cluster_chain in E.
  assert (Hlt : (c <? RESERVED_ENTRIES) = false) by (apply N.ltb_ge; unfold RESERVED_ENTRIES; lia).
  rewrite Hlt in E. unfold bind at 1 in E.
  destruct (truncate_cluster_chain vi c s) as [o1 s1] eqn:E1.
  destruct (truncate_fresh vi c s o1 s1 Hready E1) as (M1 & D1 & C1 & [-> | ->]);
    [|inversion E; subst; split; discriminate].
  assert (Hw1 : nth_error (s_vols s1) vi = Some w) by (rewrite (same_mgr_vols_eq _ _ M1); exact Hw).
  unfold bind at 1 in E. destruct (update_fat vi c CL_EMPTY s1) as [o2 s2] eqn:E2.
  destruct (update_fat_any vi c CL_EMPTY s1 w o2 s2 C1 Hw1 Ha E2) as (M2 & C2 & [(-> & _)|[(-> & _)|(-> & _)]]);
    try (inversion E; subst; split; discriminate).
  assert (Hw2 : nth_error (s_vols s2) vi = Some w) by (rewrite (same_mgr_vols_eq _ _ M2); exact Hw1).
  rewrite (bind_ok _ _ _ _ _ (PrChain.bump_free_spec vi w s2 Hw2)) in E.
  rewrite PrChain.hint_tail with (w := set_v_free w (PrChain.add_free (v_free w) 1)) in E.
  - inversion E; subst. split; discriminate.
  - cbn [s_vols set_s_vols]. exact (PrAllocEffect.ls_nth_same _ _ _ _ Hw2).
Qed.

(* so make_dir reports (always Err after a device failure) as soon as the state in which a
   failed directory-entry write leaves the manager is ready for the clean-up *)
Lemma always_then_fail_ready {B} vi c e :
  forall s, cleanup_ready vi c s ->
  forall r s', (free_cluster_chain vi c ;;; @fail B e) s = (r, s') -> bad (fun _ => True) false r.
Proof.
  intros s Hr r s' H. unfold bind in H.
  destruct (free_cluster_chain vi c s) as [[a|e'| |] s1] eqn:E; inversion H; subst; cbn; auto.
  - destruct (free_fresh_total _ _ _ _ _ Hr E) as [X _]. congruence.
  - destruct (free_fresh_total _ _ _ _ _ Hr E) as [_ X]. congruence.
Qed.

(* ================================================================== 4. the writes of a faulted run are a prefix *)
(* the same state with an empty fault schedule: the device never fails from here on *)
Definition nf (s : st) : st := set_s_faults s [].

Lemma nf_no_faults s : no_faults (nf s).
Proof. intros n H. destruct H. Qed.
Lemma nf_not_faulty s : faulty (nf s) = false.
Proof. reflexivity. Qed.
Lemma tr_ext_nf s s' ws : tr_ext s s' ws -> tr_ext (nf s) (nf s') ws.
Proof. intros (n & T & W & D). exists n. repeat split; assumption. Qed.
Lemma tr_ext_same s s' : s_trace s' = s_trace s -> s_disk s' = s_disk s -> tr_ext s s' [].
Proof. intros T D. exists []. repeat split; assumption. Qed.

(* `pfx m`: run m from s under ANY fault schedule.  Either the run is, step for step, the run
   from the same state with no fault scheduled (same result, same final state up to the
   schedule); or it ended with Err DeviceError and the fault-free run from the same state
   performs the same successful writes ws first, in the same order with the same contents, and
   then possibly more (ws0).  In both cases the medium of s' is that of s with ws applied. *)
Definition pfx {A} (m : M A) : Prop :=
  forall s r s', m s = (r, s') ->
  exists ws, tr_ext s s' ws /\
    (m (nf s) = (r, nf s') \/
     (r = Err DeviceError /\
      exists r0 s0 ws0, m (nf s) = (r0, s0) /\ tr_ext (nf s) s0 (ws ++ ws0))).

Lemma pfx_bind {A B} (m : M A) (k : A -> M B) : pfx m -> (forall a, pfx (k a)) -> pfx (bind m k).
Proof.
  intros Hm Hk s r s' E. unfold bind in E. destruct (m s) as [r1 s1] eqn:E1.
  destruct (Hm _ _ _ E1) as (ws1 & T1 & C1).
  destruct r1 as [a|e| |].
  - destruct C1 as [C1|(C1 & _)]; [|discriminate].
    destruct (Hk a _ _ _ E) as (ws2 & T2 & C2).
    exists (ws1 ++ ws2). split; [eapply tr_ext_trans; eassumption|].
    destruct C2 as [C2|(-> & r0 & s0 & ws0 & C2 & T0)].
    + left. unfold bind. rewrite C1. exact C2.
    + right. split; [reflexivity|]. exists r0, s0, ws0. split; [unfold bind; rewrite C1; exact C2|].
      rewrite <- app_assoc. eapply tr_ext_trans; [apply tr_ext_nf; exact T1|exact T0].
  - inversion E; subst. exists ws1. split; [exact T1|].
    destruct C1 as [C1|(C1 & r0 & s0 & ws0 & C0 & T0)].
    + left. unfold bind. rewrite C1. reflexivity.
    + right. injection C1 as ->. split; [reflexivity|]. unfold bind. rewrite C0.
      destruct r0 as [a0|e0| |].
      2:{ exists (Err e0), s0, ws0. split; [reflexivity|exact T0]. }
      * destruct (k a0 s0) as [r2 s2] eqn:E2. destruct (Hk a0 _ _ _ E2) as (ws3 & T3 & _).
        exists r2, s2, (ws0 ++ ws3). split; [reflexivity|]. rewrite app_assoc.
        eapply tr_ext_trans; eassumption.
      * exists Panic, s0, ws0. split; [reflexivity|exact T0].
      * exists OutOfFuel, s0, ws0. split; [reflexivity|exact T0].
  - inversion E; subst. exists ws1. split; [exact T1|].
    destruct C1 as [C1|(C1 & _)]; [|discriminate]. left. unfold bind. rewrite C1. reflexivity.
  - inversion E; subst. exists ws1. split; [exact T1|].
    destruct C1 as [C1|(C1 & _)]; [|discriminate]. left. unfold bind. rewrite C1. reflexivity.
Qed.

(* the catch sites: the handler of a caught DeviceError re-raises it without another device
   call (it may clear the cache tag or scribble the buffer first) *)
Definition reraises {A B} (k : A + err -> M B) : Prop :=
  forall s, exists s2, k (inr DeviceError) s = (Err DeviceError, s2) /\ tr_ext s s2 [].

Lemma pfx_try_bind {A B} (m : M A) (k : A + err -> M B) :
  pfx m -> (forall x, pfx (k x)) -> reraises k -> pfx (bind (try m) k).
Proof.
  intros Hm Hk Hh s r s' E. unfold bind, try in E. destruct (m s) as [r1 s1] eqn:E1.
  destruct (Hm _ _ _ E1) as (ws1 & T1 & C1).
  assert (Hgo : forall x, m (nf s) = (match x with inl a => Ok a | inr e => Err e end, nf s1) ->
                k x s1 = (r, s') ->
                exists ws, tr_ext s s' ws /\
                  (bind (try m) k (nf s) = (r, nf s') \/
                   (r = Err DeviceError /\ exists r0 s0 ws0, bind (try m) k (nf s) = (r0, s0) /\
                                                           tr_ext (nf s) s0 (ws ++ ws0)))).
  { intros x C E2. destruct (Hk x _ _ _ E2) as (ws2 & T2 & C2).
    assert (Ex : bind (try m) k (nf s) = k x (nf s1)) by (unfold bind, try; rewrite C; destruct x; reflexivity).
    exists (ws1 ++ ws2). split; [eapply tr_ext_trans; eassumption|]. rewrite Ex.
    destruct C2 as [C2|(-> & r0 & s0 & ws0 & C2 & T0)].
    + left. exact C2.
    + right. split; [reflexivity|]. exists r0, s0, ws0. split; [exact C2|].
      rewrite <- app_assoc. eapply tr_ext_trans; [apply tr_ext_nf; exact T1|exact T0]. }
  destruct r1 as [a|e| |].
  - destruct C1 as [C1|(C1 & _)]; [|discriminate]. exact (Hgo (inl a) C1 E).
  - destruct C1 as [C1|(C1 & r0 & s0 & ws0 & C0 & T0)]; [exact (Hgo (inr e) C1 E)|].
    injection C1 as ->. destruct (Hh s1) as (s2 & Eh & Th). rewrite Eh in E. inversion E; subst.
    exists ws1. split; [eapply PrAllocEffect.tr_ext_trans_nil; eassumption|].
    right. split; [reflexivity|]. unfold bind, try. rewrite C0.
    assert (Hx : forall x, exists r2 s3 ws3, k x s0 = (r2, s3) /\ tr_ext (nf s) s3 (ws1 ++ ws0 ++ ws3)).
    { intros x. destruct (k x s0) as [r2 s3] eqn:E2. destruct (Hk x _ _ _ E2) as (ws3 & T3 & _).
      exists r2, s3, ws3. split; [reflexivity|]. rewrite app_assoc. eapply tr_ext_trans; eassumption. }
    destruct r0 as [a0|e0| |].
    + destruct (Hx (inl a0)) as (r2 & s3 & ws3 & E2 & T3). exists r2, s3, (ws0 ++ ws3). auto.
    + destruct (Hx (inr e0)) as (r2 & s3 & ws3 & E2 & T3). exists r2, s3, (ws0 ++ ws3). auto.
    + exists Panic, s0, ws0. auto.
    + exists OutOfFuel, s0, ws0. auto.
  - inversion E; subst. exists ws1. split; [exact T1|].
    destruct C1 as [C1|(C1 & _)]; [|discriminate]. left. unfold bind, try. rewrite C1. reflexivity.
  - inversion E; subst. exists ws1. split; [exact T1|].
    destruct C1 as [C1|(C1 & _)]; [|discriminate]. left. unfold bind, try. rewrite C1. reflexivity.
Qed.

(* computations that do not call the device and do not look at the schedule *)
Lemma pfx_quiet {A} (m : M A) :
  (forall s, m (nf s) = (fst (m s), nf (snd (m s))) /\ tr_ext s (snd (m s)) []) -> pfx m.
Proof.
  intros H s r s' E. destruct (H s) as (H1 & H2). rewrite E in H1, H2. cbn in H1, H2.
  exists []. split; [exact H2|]. left. exact H1.
Qed.
Lemma pfx_ret {A} (a : A) : pfx (ret a).
Proof. apply pfx_quiet. intros s. split; [reflexivity|apply tr_ext_refl]. Qed.
Lemma pfx_fail {A} e : pfx (@fail A e).
Proof. apply pfx_quiet. intros s. split; [reflexivity|apply tr_ext_refl]. Qed.
Lemma pfx_panic {A} : pfx (@panic A).
Proof. apply pfx_quiet. intros s. split; [reflexivity|apply tr_ext_refl]. Qed.
Lemma pfx_oof {A} : pfx (@out_of_fuel A).
Proof. apply pfx_quiet. intros s. split; [reflexivity|apply tr_ext_refl]. Qed.
Lemma pfx_modify f : (forall s, f (nf s) = nf (f s)) ->
  (forall s, s_trace (f s) = s_trace s /\ s_disk (f s) = s_disk s) -> pfx (modify f).
Proof.
  intros H1 H2. apply pfx_quiet. intros s. unfold modify. cbn [fst snd]. rewrite H1.
  split; [reflexivity|]. destruct (H2 s). apply tr_ext_same; assumption.
Qed.
(* reading the state: the continuation must not depend on the schedule field *)
Lemma pfx_bind_get {B} (k : st -> M B) :
  (forall s0, pfx (k s0)) -> (forall s0, k (nf s0) = k s0) -> pfx (bind get k).
Proof.
  intros Hk Hn s r s' E. rewrite bind_get in E. destruct (Hk s _ _ _ E) as (ws & T & C).
  exists ws. split; [exact T|]. rewrite !bind_get, Hn. exact C.
Qed.

Lemma pfx_dev_read i : pfx (dev_read i).
Proof.
  intros s r s' E. unfold dev_read in E. destruct (faulty s) eqn:Hf; inversion E; subst.
  - exists []. split; [exists [DReadFail i]; repeat split|].
    right. split; [reflexivity|]. eexists _, _, []. split; [reflexivity|].
    exists [DRead i]. repeat split.
  - exists []. split; [exists [DRead i]; repeat split|]. left. reflexivity.
Qed.
Lemma pfx_dev_write i b : pfx (dev_write i b).
Proof.
  intros s r s' E. unfold dev_write in E. destruct (faulty s) eqn:Hf; inversion E; subst.
  - exists []. split; [exists [DWriteFail i]; repeat split|].
    right. split; [reflexivity|]. eexists _, _, [(i, b)]. split; [reflexivity|].
    exists [DWrite i b]. repeat split.
  - exists [(i, b)]. split; [exists [DWrite i b]; repeat split|]. left. reflexivity.
Qed.

Create HintDb pfx.
#[export] Hint Resolve pfx_ret pfx_fail pfx_panic pfx_oof pfx_dev_read pfx_dev_write : pfx.

Ltac reraises_tac := intros ?; eexists; split; [reflexivity|apply tr_ext_same; reflexivity].
Ltac pfx_step :=
  cbn beta iota;
  lazymatch goal with
  | |- pfx (bind get _) => apply pfx_bind_get; [intros ?|intros ?; reflexivity]
  | |- pfx (bind (try _) _) => apply pfx_try_bind; [|intros [?|?]|reraises_tac]
  | |- pfx (bind _ _) => apply pfx_bind; [|intros ?]
  | |- pfx (modify _) => apply pfx_modify; [intros ?; reflexivity|intros ?; split; reflexivity]
  | |- pfx (if ?c then _ else _) => destruct c
  | |- pfx (match ?x with _ => _ end) => destruct x
  | |- pfx (let _ := _ in _) => cbv zeta
  | |- pfx _ => solve [auto 2 with pfx]
  end.
Ltac pfx_go := repeat pfx_step.

Lemma pfx_add32 a b : pfx (add32 a b). Proof. unfold add32. pfx_go. Qed.
Lemma pfx_sub32 a b : pfx (sub32 a b). Proof. unfold sub32. pfx_go. Qed.
Lemma pfx_mul32 a b : pfx (mul32 a b). Proof. unfold mul32. pfx_go. Qed.
#[export] Hint Resolve pfx_add32 pfx_sub32 pfx_mul32 : pfx.
Lemma pfx_get_vol vi : pfx (get_vol vi). Proof. unfold get_vol. pfx_go. Qed.
Lemma pfx_put_vol vi v : pfx (put_vol vi v). Proof. unfold put_vol. pfx_go. Qed.
Lemma pfx_get_timestamp : pfx get_timestamp. Proof. unfold get_timestamp. pfx_go. Qed.
Lemma pfx_cache_read i : pfx (cache_read i). Proof. unfold cache_read. pfx_go. Qed.
Lemma pfx_cache_modify f : pfx (cache_modify f). Proof. unfold cache_modify. pfx_go. Qed.
Lemma pfx_write_back : pfx write_back. Proof. unfold write_back. pfx_go. Qed.
Lemma pfx_write_back_dup d : pfx (write_back_with_duplicate d). Proof. unfold write_back_with_duplicate. pfx_go. Qed.
Lemma pfx_blank_mut i : pfx (blank_mut i). Proof. unfold blank_mut. pfx_go. Qed.
#[export] Hint Resolve pfx_get_vol pfx_put_vol pfx_get_timestamp pfx_cache_read pfx_cache_modify
  pfx_write_back pfx_write_back_dup pfx_blank_mut : pfx.
Lemma pfx_fat_block v a b : pfx (fat_block v a b). Proof. unfold fat_block. pfx_go. Qed.
Lemma pfx_cluster_to_block v c : pfx (cluster_to_block v c). Proof. unfold cluster_to_block. pfx_go. Qed.
Lemma pfx_ts_to_fat t : pfx (ts_to_fat t). Proof. unfold ts_to_fat. pfx_go. Qed.
#[export] Hint Resolve pfx_fat_block pfx_cluster_to_block pfx_ts_to_fat : pfx.
Lemma pfx_serialize b e : pfx (serialize b e). Proof. unfold serialize. pfx_go. Qed.
#[export] Hint Resolve pfx_serialize : pfx.
Lemma pfx_update_fat vi c x : pfx (update_fat vi c x). Proof. unfold update_fat. pfx_go. Qed.
Lemma pfx_next_cluster v c : pfx (next_cluster v c). Proof. unfold next_cluster. pfx_go. Qed.
Lemma pfx_write_entry_to_disk v e : pfx (write_entry_to_disk v e). Proof. unfold write_entry_to_disk. pfx_go. Qed.
Lemma pfx_update_info_sector vi : pfx (update_info_sector vi). Proof. unfold update_info_sector. pfx_go. Qed.
#[export] Hint Resolve pfx_update_fat pfx_next_cluster pfx_write_entry_to_disk pfx_update_info_sector : pfx.
Lemma pfx_for_blocks_from {R} (body : N -> M (option R)) :
  (forall i, pfx (body i)) -> forall n i, pfx (for_blocks_from n i body).
Proof. intros Hb. induction n as [|n IH]; intros i; cbn [for_blocks_from]; pfx_go. Qed.
Lemma pfx_for_blocks {R} (body : N -> M (option R)) first size :
  (forall i, pfx (body i)) -> pfx (for_blocks first size body).
Proof. intros Hb. unfold for_blocks. pfx_go. apply pfx_for_blocks_from. exact Hb. Qed.
Lemma pfx_find_next_free_loop v endc : forall fuel cur, pfx (find_next_free_loop fuel v cur endc).
Proof. induction fuel as [|f IH]; intros cur; cbn [find_next_free_loop]; pfx_go. Qed.
Lemma pfx_find_next_free_cluster v a b : pfx (find_next_free_cluster v a b).
Proof. apply pfx_find_next_free_loop. Qed.
#[export] Hint Resolve pfx_find_next_free_cluster : pfx.
Lemma pfx_zero_cluster v c : pfx (zero_cluster v c).
Proof. unfold zero_cluster. pfx_go. apply pfx_for_blocks. intros i. pfx_go. Qed.
#[export] Hint Resolve pfx_zero_cluster : pfx.
Lemma pfx_alloc_cluster vi prev zero : pfx (alloc_cluster vi prev zero).
Proof. unfold alloc_cluster. pfx_go. Qed.
#[export] Hint Resolve pfx_alloc_cluster : pfx.
Lemma pfx_bump_free vi : pfx (bump_free vi). Proof. unfold bump_free. pfx_go. Qed.
#[export] Hint Resolve pfx_bump_free : pfx.
Lemma pfx_truncate_loop vi : forall fuel next, pfx (truncate_loop fuel vi next).
Proof. induction fuel as [|f IH]; intros next; cbn [truncate_loop]; pfx_go. Qed.
#[export] Hint Resolve pfx_truncate_loop : pfx.
Lemma pfx_truncate_cluster_chain vi c : pfx (truncate_cluster_chain vi c).
Proof. unfold truncate_cluster_chain. pfx_go. Qed.
#[export] Hint Resolve pfx_truncate_cluster_chain : pfx.
Lemma pfx_free_cluster_chain vi c : pfx (free_cluster_chain vi c).
Proof. unfold free_cluster_chain. pfx_go. Qed.
Lemma pfx_walk_dir {R} vi grow (body : N -> M (option R)) :
  (forall blk, pfx (body blk)) -> forall fuel cluster, pfx (walk_dir fuel vi cluster grow body).
Proof.
  intros Hb. induction fuel as [|fuel IH]; intros cluster; cbn [walk_dir]; pfx_go.
  all: apply pfx_for_blocks; exact Hb.
Qed.
Lemma pfx_find_directory_entry vi dc name : pfx (find_directory_entry vi dc name).
Proof. unfold find_directory_entry. pfx_go. apply pfx_walk_dir. intros blk. pfx_go. Qed.
Lemma pfx_delete_directory_entry vi dc name : pfx (delete_directory_entry vi dc name).
Proof. unfold delete_directory_entry. pfx_go. apply pfx_walk_dir. intros blk. pfx_go. Qed.
Lemma pfx_write_new_directory_entry vi dc name attr fc : pfx (write_new_directory_entry vi dc name attr fc).
Proof. unfold write_new_directory_entry. pfx_go. apply pfx_walk_dir. intros blk. pfx_go. Qed.

(* ---- the statement, unfolded ---- *)
(* s' : the state after the run under the schedule of s;  s0 : the state after the run from the
   same state with no fault scheduled.  ws / ws ++ ws0 are the successful device writes of the
   two runs, oldest first, with contents (tr_ext: read off the device logs; and the media are
   the medium of s with these writes applied).  So the k-th write that happened in the faulted
   run is the k-th write of the fault-free run, and the medium after the faulted run is the
   medium after a PREFIX of the fault-free run's writes (PrCrash.prefix_disk) - the situation
   the crash-prefix theorems of PrCrash.v describe. *)
Definition bystander {A} (m : M A) : Prop :=
  forall s r s', m s = (r, s') ->
  exists ws r0 s0 ws0,
    tr_ext s s' ws /\
    m (nf s) = (r0, s0) /\ tr_ext (nf s) s0 (ws ++ ws0) /\
    (forall k w, nth_error ws k = Some w -> nth_error (ws ++ ws0) k = Some w) /\
    s_disk s' = PrCrash.prefix_disk (ws ++ ws0) (length ws) (s_disk s) /\
    ((r0 = r /\ ws0 = []) \/ r = Err DeviceError).

Theorem pfx_bystander {A} (m : M A) : pfx m -> bystander m.
Proof.
  intros Hm s r s' E. destruct (Hm _ _ _ E) as (ws & T & C).
  assert (Hd : forall ws0, s_disk s' = PrCrash.prefix_disk (ws ++ ws0) (length ws) (s_disk s)).
  { intros ws0. unfold PrCrash.prefix_disk. rewrite firstn_app, firstn_all, Nat.sub_diag. cbn [firstn].
    rewrite app_nil_r. exact (tr_ext_disk _ _ _ T). }
  assert (Hn : forall ws0 k w, nth_error ws k = Some w -> nth_error (ws ++ ws0) k = Some w).
  { intros ws0 k w H. rewrite nth_error_app1; [exact H|]. apply nth_error_Some. congruence. }
  destruct C as [C|(-> & r0 & s0 & ws0 & C & T0)].
  - exists ws, r, (nf s'), []. rewrite app_nil_r. split; [exact T|]. split; [exact C|].
    split; [apply tr_ext_nf; exact T|]. split; [auto|]. split; [rewrite <- (app_nil_r ws) at 1; apply Hd|].
    left. auto.
  - exists ws, r0, s0, ws0. repeat split; auto.
Qed.

Theorem C11_bystander_blocks_update_fat vi c x : bystander (update_fat vi c x).
Proof. apply pfx_bystander, pfx_update_fat. Qed.
Theorem C11_bystander_blocks_alloc_cluster vi prev zero : bystander (alloc_cluster vi prev zero).
Proof. apply pfx_bystander, pfx_alloc_cluster. Qed.
Theorem C11_bystander_blocks_truncate vi c : bystander (truncate_cluster_chain vi c).
Proof. apply pfx_bystander, pfx_truncate_cluster_chain. Qed.
Theorem C11_bystander_blocks_free vi c : bystander (free_cluster_chain vi c).
Proof. apply pfx_bystander, pfx_free_cluster_chain. Qed.
Theorem C11_bystander_blocks_write_entry v e : bystander (write_entry_to_disk v e).
Proof. apply pfx_bystander, pfx_write_entry_to_disk. Qed.
Theorem C11_bystander_blocks_info_sector vi : bystander (update_info_sector vi).
Proof. apply pfx_bystander, pfx_update_info_sector. Qed.
Theorem C11_bystander_blocks_zero_cluster v c : bystander (zero_cluster v c).
Proof. apply pfx_bystander, pfx_zero_cluster. Qed.
Theorem C11_bystander_blocks_find vi dc name : bystander (find_directory_entry vi dc name).
Proof. apply pfx_bystander, pfx_find_directory_entry. Qed.
Theorem C11_bystander_blocks_delete_entry vi dc name : bystander (delete_directory_entry vi dc name).
Proof. apply pfx_bystander, pfx_delete_directory_entry. Qed.
Theorem C11_bystander_blocks_new_entry vi dc name attr fc : bystander (write_new_directory_entry vi dc name attr fc).
Proof. apply pfx_bystander, pfx_write_new_directory_entry. Qed.

(* a consequence used below and by callers: a run that returned Ok under some schedule is the
   fault-free run (no fault can have fired in it), so every theorem proved under `no_faults`
   applies to it *)
Corollary pfx_ok_is_fault_free {A} (m : M A) : pfx m ->
  forall s a s', m s = (Ok a, s') -> m (nf s) = (Ok a, nf s').
Proof.
  intros Hm s a s' E. destruct (Hm _ _ _ E) as (ws & T & [C|(C & _)]); [exact C|discriminate].
Qed.

(* ================================================================== 3b. Mkdir reports: the full statement *)
(* A small Hoare logic with an exceptional postcondition: from a state in P, an Ok result a
   ends in Q a, an Err result ends in E; nothing is claimed for Panic / OutOfFuel.  ANY fault
   schedule. *)
Definition hr {A} (P : st -> Prop) (Q : A -> st -> Prop) (E : st -> Prop) (m : M A) : Prop :=
  forall s r s', P s -> m s = (r, s') ->
  match r with Ok a => Q a s' | Err _ => E s' | _ => True end.

Lemma hr_bind {A B} P (Q : A -> st -> Prop) (R : B -> st -> Prop) E (m : M A) (k : A -> M B) :
  hr P Q E m -> (forall a, hr (Q a) R E (k a)) -> hr P R E (bind m k).
Proof.
  intros Hm Hk s r s' HP H. unfold bind in H. destruct (m s) as [[a|e| |] s1] eqn:E1;
    pose proof (Hm _ _ _ HP E1) as H1; cbn in H1.
  - exact (Hk a _ _ _ H1 H).
  - inversion H; subst. exact H1.
  - inversion H; subst. exact I.
  - inversion H; subst. exact I.
Qed.
Lemma hr_try {A} P (Q : A -> st -> Prop) E E' (m : M A) :
  hr P Q E m -> hr P (fun x s' => match x with inl a => Q a s' | inr _ => E s' end) E' (try m).
Proof.
  intros Hm s r s' HP H. unfold try in H. destruct (m s) as [[a|e| |] s1] eqn:E1;
    pose proof (Hm _ _ _ HP E1) as H1; cbn in H1; inversion H; subst; auto.
Qed.
Lemma hr_weaken {A} (P P' : st -> Prop) (Q Q' : A -> st -> Prop) (E E' : st -> Prop) (m : M A) :
  (forall s, P' s -> P s) -> (forall a s, Q a s -> Q' a s) -> (forall s, E s -> E' s) ->
  hr P Q E m -> hr P' Q' E' m.
Proof.
  intros H1 H2 H3 Hm s r s' HP H. specialize (Hm _ _ _ (H1 _ HP) H). destruct r; auto.
Qed.
Lemma hr_pure {A} (P : st -> Prop) (m : M A) : PrOrder.keeps m -> hr P (fun _ => P) P m.
Proof. intros Hk s r s' HP H. rewrite (Hk _ _ _ H). destruct r; auto. Qed.
Lemma hr_pure' {A} (P E : st -> Prop) (m : M A) :
  PrOrder.keeps m -> (forall s, P s -> E s) -> hr P (fun _ => P) E m.
Proof. intros Hk HE s r s' HP H. rewrite (Hk _ _ _ H). destruct r; auto. Qed.
Lemma hr_ret {A} (P : st -> Prop) (Q : A -> st -> Prop) E a : (forall s, P s -> Q a s) -> hr P Q E (ret a).
Proof. intros HPQ s r s' HP H. inversion H; subst. auto. Qed.
Lemma hr_fail {A} (P : st -> Prop) (Q : A -> st -> Prop) (E : st -> Prop) e : (forall s, P s -> E s) -> hr P Q E (@fail A e).
Proof. intros HPE s r s' HP H. inversion H; subst. auto. Qed.
Lemma hr_panic {A} (P : st -> Prop) (Q : A -> st -> Prop) (E : st -> Prop) : hr P Q E (@panic A).
Proof. intros s r s' HP H. inversion H; subst. exact I. Qed.
Lemma hr_oof {A} (P : st -> Prop) (Q : A -> st -> Prop) (E : st -> Prop) : hr P Q E (@out_of_fuel A).
Proof. intros s r s' HP H. inversion H; subst. exact I. Qed.
Lemma hr_modify (P : st -> Prop) (Q : unit -> st -> Prop) E f : (forall s, P s -> Q tt (f s)) -> hr P Q E (modify f).
Proof. intros HPQ s r s' HP H. inversion H; subst. auto. Qed.
Lemma hr_false {A} (Q : A -> st -> Prop) E (m : M A) : hr (fun _ => False) Q E m.
Proof. intros s r s' []. Qed.

Section Mkdir.
Variables (vi : nat) (v0 : vol) (fsz : N) (c : N).
Hypothesis L : fat_layout v0 fsz.
Hypothesis Hfits : PrCrash.fat_fits v0.
Hypothesis Hroot16 : v_fat32 v0 = false -> v_fat_start v0 + fsz <= v_root_block v0.
Hypothesis Hc : 2 <= c /\ c < v_clusters v0 + 2.

(* j is a data cluster number of the volume; the entry of j in the first FAT copy; the
   classification next_cluster makes of an entry *)
Definition inr_ (j : N) : Prop := 2 <= j /\ j < v_clusters v0 + 2.
Definition ent (d : disk) (j : N) : N := fat_get d v0 0 j.
Definition lnk (e : N) : N + err := next_result v0 e.

Lemma inr_in_fat j : inr_ j -> PrCrash.in_fat v0 fsz j.
Proof. intros (_ & H). exact (layout_sector v0 fsz j L H). Qed.

Lemma lnk_inl e n : lnk e = inl n -> n = e.
Proof.
  unfold lnk, next_result. destruct (v_fat32 v0);
    repeat match goal with |- context [if ?b then _ else _] => destruct b end;
    intros H; inversion H; reflexivity.
Qed.
Lemma lnk_range x : inr_ x -> lnk x = inl x /\ enc v0 x = x.
Proof.
  intros (H1 & H2). unfold PrCrash.fat_fits, fat_bad in Hfits. split.
  - unfold lnk, next_result. destruct (v_fat32 v0).
    + replace (x =? 0) with false by (symmetry; apply N.eqb_neq; lia).
      replace (x =? 268435447) with false by (symmetry; apply N.eqb_neq; lia).
      replace (x =? 1) with false by (symmetry; apply N.eqb_neq; lia).
      replace (268435448 <=? x) with false by (symmetry; apply N.leb_gt; lia). reflexivity.
    + replace (x =? 65527) with false by (symmetry; apply N.eqb_neq; lia).
      replace (65528 <=? x) with false by (symmetry; apply N.leb_gt; lia). reflexivity.
  - apply enc_cluster; [exact H2|]. destruct (v_fat32 v0); lia.
Qed.
Lemma lnk_eof : lnk (enc v0 CL_EOF) = inr EndOfFile /\ enc v0 CL_EOF <> 0.
Proof. rewrite enc_eof. unfold lnk, next_result. destruct (v_fat32 v0); split; try reflexivity; discriminate. Qed.

(* the invariant of the medium while the directory entry of the new directory is written:
   FAT sectors are full blocks; the entry of the new cluster c reads end-of-chain; and every
   allocated data cluster that links somewhere links to an allocated data cluster other than c
   ("the FAT is closed and nothing points to c") *)
Record DI (d : disk) : Prop := mk_DI {
  di_len : PrCrash.fat_len_ok v0 fsz d;
  di_eoc : lnk (ent d c) = inr EndOfFile;
  di_closed : forall j n, inr_ j -> ent d j <> 0 -> lnk (ent d j) = inl n ->
              inr_ n /\ n <> c /\ ent d n <> 0
}.

(* the first FAT copy of d is that of D *)
Definition fat1eq (D d : disk) : Prop :=
  forall k, k < fsz -> disk_get d (fat_copy_sector v0 0 k) = disk_get D (fat_copy_sector v0 0 k).
(* the first FAT copy of d is that of D with entry y := x *)
Definition fat1upd (D d : disk) (y x : N) : Prop :=
  disk_get d (fat_sector v0 0 y) = fat_put_block v0 (disk_get D (fat_sector v0 0 y)) y x /\
  forall k, k < fsz -> fat_copy_sector v0 0 k <> fat_sector v0 0 y ->
            disk_get d (fat_copy_sector v0 0 k) = disk_get D (fat_copy_sector v0 0 k).
Definition nonfat1 (blk : N) : Prop := forall k, k < fsz -> blk <> fat_copy_sector v0 0 k.

Lemma fat1eq_refl D : fat1eq D D. Proof. intros k _. reflexivity. Qed.
Lemma fat1eq_set D blk b : nonfat1 blk -> fat1eq D (disk_set D blk b).
Proof. intros H k Hk. apply disk_get_set_other. exact (H k Hk). Qed.
Lemma fat1eq_trans a b d : fat1eq a b -> fat1eq b d -> fat1eq a d.
Proof. intros H1 H2 k Hk. rewrite (H2 k Hk). exact (H1 k Hk). Qed.
Lemma fat1eq_ent D d j : fat1eq D d -> PrCrash.in_fat v0 fsz j -> ent d j = ent D j.
Proof. intros H Hj. unfold ent, fat_get, fat_sector. rewrite (H _ Hj). reflexivity. Qed.

Lemma DI_fat1eq D d : fat1eq D d -> DI D -> DI d.
Proof.
  intros H [H1 H2 H3]. pose proof (inr_in_fat c Hc) as Fc. constructor.
  - intros k Hk. rewrite (H k Hk). exact (H1 k Hk).
  - rewrite (fat1eq_ent D d c H Fc). exact H2.
  - intros j n Hj. rewrite (fat1eq_ent D d j H (inr_in_fat j Hj)). intros Hz Hl.
    destruct (H3 j n Hj Hz Hl) as (A1 & A2 & A3). split; [exact A1|]. split; [exact A2|].
    rewrite (fat1eq_ent D d n H (inr_in_fat n A1)). exact A3.
Qed.

Lemma fat1upd_ent D d y x j : PrCrash.fat_len_ok v0 fsz D -> inr_ y -> fat1upd D d y x ->
  PrCrash.in_fat v0 fsz j -> ent d j = if j =? y then enc v0 x else ent D j.
Proof.
  intros Hlen Hy (Hs & Ho) Hj. unfold ent.
  apply (PrCrash.half_step v0 fsz D d y x j L Hlen (inr_in_fat y Hy) Hs).
  intros Hne. exact (Ho _ Hj Hne).
Qed.
Lemma fat1upd_len D d y x : PrCrash.fat_len_ok v0 fsz D -> inr_ y -> fat1upd D d y x ->
  PrCrash.fat_len_ok v0 fsz d.
Proof.
  intros Hlen Hy (Hs & Ho) k Hk.
  destruct (N.eq_dec (fat_copy_sector v0 0 k) (fat_sector v0 0 y)) as [E|Hne].
  - rewrite E, Hs. apply fat_put_block_length. apply Hlen. exact (inr_in_fat y Hy).
  - rewrite (Ho k Hk Hne). exact (Hlen k Hk).
Qed.

(* an update of entry y (not c) with end-of-chain, or with a link to an allocated data
   cluster (not c), keeps the invariant; and allocated entries stay allocated *)
Definition updok (d : disk) (y x : N) : Prop :=
  inr_ y /\ y <> c /\ (x = CL_EOF \/ (inr_ x /\ x <> c /\ x <> y /\ ent d x <> 0)).

Lemma upd_nonzero D y x : updok D y x -> enc v0 x <> 0.
Proof.
  intros (_ & _ & [->|((X1 & X2) & _)]); [exact (proj2 lnk_eof)|].
  rewrite (proj2 (lnk_range x (conj X1 X2))). lia.
Qed.

Lemma DI_upd D d y x : DI D -> updok D y x -> fat1upd D d y x -> DI d.
Proof.
  intros [H1 H2 H3] Hok Hu. pose proof Hok as (Hy & Hyc & Hx).
  pose proof (upd_nonzero D y x Hok) as Hnz.
  assert (Hent : forall j, inr_ j -> ent d j = if j =? y then enc v0 x else ent D j).
  { intros j Hj. apply fat1upd_ent; auto. apply inr_in_fat. exact Hj. }
  constructor.
  - eapply fat1upd_len; eauto.
  - rewrite (Hent c Hc). destruct (N.eqb_spec c y) as [E|_]; [congruence|exact H2].
  - intros j n Hj. rewrite (Hent j Hj). destruct (N.eqb_spec j y) as [->|Hjy].
    + intros _ Hl. destruct Hx as [->|(X1 & X2 & X3 & X4)].
      * rewrite (proj1 lnk_eof) in Hl. discriminate.
      * rewrite (proj2 (lnk_range x X1)), (proj1 (lnk_range x X1)) in Hl. injection Hl as <-.
        split; [exact X1|]. split; [exact X2|]. rewrite (Hent x X1).
        destruct (N.eqb_spec x y); [contradiction|exact X4].
    + intros Hz Hl. destruct (H3 j n Hj Hz Hl) as (A1 & A2 & A3).
      split; [exact A1|]. split; [exact A2|]. rewrite (Hent n A1).
      destruct (N.eqb_spec n y); [exact Hnz|exact A3].
Qed.

Lemma upd_keeps_alloc D d y x p : DI D -> updok D y x -> fat1upd D d y x -> inr_ p ->
  ent D p <> 0 -> ent d p <> 0.
Proof.
  intros [H1 _ _] Hok Hu Hp Hz. pose proof Hok as (Hy & _).
  rewrite (fat1upd_ent D d y x p H1 Hy Hu (inr_in_fat p Hp)).
  destruct (N.eqb_spec p y); [exact (upd_nonzero D y x Hok)|exact Hz].
Qed.

(* ---- state assertions ---- *)
(* the record of volume vi has the geometry of v0 and a hint that is no reserved entry *)
Definition geoh (s : st) : Prop :=
  exists w, nth_error (s_vols s) vi = Some w /\ PrChain.geo_eq v0 w /\ hint_ok w.
Definition MI (s : st) : Prop := geoh s /\ cache_ok s /\ DI (s_disk s).
(* a block is being prepared in the buffer (tagged blk, not yet written) *)
Definition MIp (blk : N) (s : st) : Prop := geoh s /\ DI (s_disk s) /\ s_tag s = Some blk.
(* extra facts about the first FAT copy that the steps below carry along *)
Definition st1 (X : disk -> Prop) : Prop := forall D d, fat1eq D d -> X D -> X d.
Definition st2 (X : disk -> Prop) : Prop :=
  forall D d y x, DI D -> updok D y x -> fat1upd D d y x -> X D -> X d.

Lemma geoh_vols s s' : s_vols s' = s_vols s -> geoh s -> geoh s'.
Proof. intros E (w & H1 & H2). exists w. rewrite E. auto. Qed.

Lemma geo_w w : PrChain.geo_eq v0 w ->
  fat_layout w fsz /\ v_clusters w = v_clusters v0 /\ v_fat32 w = v_fat32 v0 /\ v_spc w = v_spc v0 /\
  v_second_fat w = v_second_fat v0 /\ v_root_entries w = v_root_entries v0 /\
  v_lba w = v_lba v0 /\ v_root_block w = v_root_block v0 /\
  (forall k y, fat_sector w k y = fat_sector v0 k y) /\
  (forall b y x, fat_put_block w b y x = fat_put_block v0 b y x) /\
  (forall d j, PrAlloc.fat_entry d w j = ent d j) /\
  (forall e, next_result w e = lnk e) /\
  (forall cl, cluster_first_block w cl = cluster_first_block v0 cl).
Proof.
  intros G. split; [exact (PrChain.geo_layout _ _ _ G L)|]. destruct G as (a & b & ->).
  repeat split; try reflexivity. intros d j. rewrite fat_entry_get. reflexivity.
Qed.

Lemma fat1upd_after D y x : PrCrash.in_fat v0 fsz y ->
  fat1upd D (fat_disk_after (v_second_fat v0) D (fat_sector v0 0 y) (fat_sector v0 1 y)
               (fat_put_block v0 (disk_get D (fat_sector v0 0 y)) y x)) y x.
Proof.
  intros Hy. split; [apply fat_disk_after_this|]. intros k Hk Hne.
  unfold fat_disk_after. destruct (v_second_fat v0) as [sf|] eqn:E.
  - rewrite !disk_get_set_other; [reflexivity|congruence|].
    intros E1. exact (PrCrash.sec01_ne v0 fsz sf k _ L E Hk (eq_sym E1)).
  - rewrite disk_get_set_other by congruence. reflexivity.
Qed.
Lemma fat1upd_first D y x :
  fat1upd D (disk_set D (fat_sector v0 0 y) (fat_put_block v0 (disk_get D (fat_sector v0 0 y)) y x)) y x.
Proof.
  split; [apply disk_get_set_same|]. intros k Hk Hne. apply disk_get_set_other. congruence.
Qed.

(* ---- the primitive steps ---- *)
Lemma T_get_vol (P : st -> Prop) E : (forall s, P s -> geoh s) ->
  hr P (fun w s' => P s' /\ nth_error (s_vols s') vi = Some w /\ PrChain.geo_eq v0 w /\ hint_ok w) E (get_vol vi).
Proof.
  intros HP s r s' H E0. destruct (HP _ H) as (w & Hw & G & Hh).
  rewrite (get_vol_some vi w s Hw) in E0. inversion E0; subst. auto.
Qed.

Lemma T_cache_read X blk :
  hr (fun s => MI s /\ X (s_disk s))
     (fun b s' => MI s' /\ X (s_disk s') /\ s_tag s' = Some blk) MI (cache_read blk).
Proof.
  intros s r s' ((Hg & Hc0 & HD) & HX) E0.
  destruct (cache_read_any _ _ _ _ E0) as (M & D & C & Hr).
  assert (HM : MI s').
  { split; [exact (geoh_vols _ _ (same_mgr_vols_eq _ _ M) Hg)|]. split; [exact (C Hc0)|]. rewrite D. exact HD. }
  destruct Hr as [(-> & _)|(b & -> & T & _)]; [exact HM|]. rewrite D. auto.
Qed.

Lemma T_write_back X blk : nonfat1 blk -> st1 X ->
  hr (fun s => MIp blk s /\ X (s_disk s)) (fun _ s' => MI s' /\ X (s_disk s')) MI write_back.
Proof.
  intros Hb HX1 s r s' ((Hg & HD & Ht) & HX) E0.
  destruct (write_back_any _ _ _ E0) as (M & W). rewrite Ht in W.
  pose proof (geoh_vols _ _ (same_mgr_vols_eq _ _ M) Hg) as Hg'.
  destruct W as [(-> & Wd & Wt & Wc)|(-> & Wd & Wt)].
  - assert (F : fat1eq (s_disk s) (s_disk s')) by (rewrite Wd; apply fat1eq_set; exact Hb).
    split; [|exact (HX1 _ _ F HX)]. split; [exact Hg'|]. split; [|exact (DI_fat1eq _ _ F HD)].
    intros j Hj. rewrite Wt in Hj. inversion Hj; subst j. rewrite Wc, Wd, disk_get_set_same. reflexivity.
  - split; [exact Hg'|]. split; [|rewrite Wd; exact HD]. intros j Hj. rewrite Wt in Hj. discriminate.
Qed.

Lemma T_blank_mut X i E :
  hr (fun s => MI s /\ X (s_disk s)) (fun _ s' => MIp i s' /\ X (s_disk s')) E (blank_mut i).
Proof.
  apply hr_modify. intros s ((Hg & _ & HD) & HX). split; [|exact HX].
  split; [exact Hg|]. split; [exact HD|reflexivity].
Qed.

Lemma T_cache_modify X blk f E :
  hr (fun s => MIp blk s /\ X (s_disk s)) (fun _ s' => MIp blk s' /\ X (s_disk s')) E (cache_modify f).
Proof. apply hr_modify. intros s ((Hg & HD & Ht) & HX). split; [|exact HX]. split; [exact Hg|]. split; [exact HD|exact Ht]. Qed.

(* the clock is no part of any assertion used here *)
Definition noclock (P : st -> Prop) : Prop := forall s x, P s -> P (set_s_clock s x).
Lemma T_get_timestamp (P : st -> Prop) E : noclock P -> hr P (fun _ => P) E get_timestamp.
Proof.
  intros HP s r s' H E0. unfold get_timestamp in E0. rewrite bind_get in E0.
  unfold bind, modify, ret in E0. inversion E0; subst. apply HP. exact H.
Qed.
Lemma noclock_MI X : noclock (fun s => MI s /\ X (s_disk s)).
Proof. intros s x H. exact H. Qed.
Lemma noclock_MI_tag X blk : noclock (fun s => MI s /\ X (s_disk s) /\ s_tag s = Some blk).
Proof. intros s x H. exact H. Qed.

(* update_fat: Ok - the entry is set, the invariant and the extra facts hold; Err - the
   invariant holds (the medium is unchanged, or the first copy alone was updated) *)
Lemma T_update_fat X y x : st2 X ->
  hr (fun s => MI s /\ X (s_disk s) /\ updok (s_disk s) y x)
     (fun _ s' => MI s' /\ X (s_disk s') /\ ent (s_disk s') y = enc v0 x) MI (update_fat vi y x).
Proof.
  intros HX2 s r s' ((Hg & Hc0 & HD) & HX & Hok) E0.
  pose proof Hok as (Hy & _).
  destruct Hg as (w & Hw & G & Hh).
  destruct (geo_w w G) as (Lw & Ecl & _ & _ & Esf & _ & _ & _ & Esec & Eput & _).
  assert (Ha : fat_addr_ok w y) by (apply (layout_addr w fsz y Lw); rewrite Ecl; exact (proj2 Hy)).
  destruct (update_fat_any vi y x s w r s' Hc0 Hw Ha E0) as (M & C & Dc). cbv zeta in Dc.
  rewrite !Esec, Eput, Esf in Dc.
  assert (Hg' : geoh s').
  { exists w. rewrite (same_mgr_vols_eq _ _ M). auto. }
  assert (Hupd : forall d, fat1upd (s_disk s) d y x ->
            DI d /\ X d /\ ent d y = enc v0 x).
  { intros d Hu. split; [exact (DI_upd _ _ _ _ HD Hok Hu)|]. split; [exact (HX2 _ _ _ _ HD Hok Hu HX)|].
    rewrite (fat1upd_ent _ _ _ _ y (di_len _ HD) Hy Hu (inr_in_fat y Hy)), N.eqb_refl. reflexivity. }
  destruct Dc as [(-> & Dd)|[(-> & Dd)|(-> & Dd)]].
  - split; [exact Hg'|]. split; [exact C|]. rewrite Dd. exact HD.
  - destruct (Hupd (s_disk s')) as (A1 & A2 & A3); [rewrite Dd; apply fat1upd_after, inr_in_fat; exact Hy|].
    split; [split; [exact Hg'|split; [exact C|exact A1]]|]. auto.
  - destruct (Hupd (s_disk s')) as (A1 & A2 & A3); [rewrite Dd; apply fat1upd_first|].
    split; [exact Hg'|split; [exact C|exact A1]].
Qed.

Lemma MI_same s s' : same_mgr s s' -> s_disk s' = s_disk s -> cache_ok s' -> MI s -> MI s'.
Proof.
  intros M D C (Hg & _ & HD). split; [exact (geoh_vols _ _ (same_mgr_vols_eq _ _ M) Hg)|].
  split; [exact C|]. rewrite D. exact HD.
Qed.

(* the free-entry search: reads only; an Ok result is an entry in the range that reads 0 *)
Lemma T_find X w endc : PrChain.geo_eq v0 w -> endc <= v_clusters v0 + 2 ->
  forall fuel cur,
  hr (fun s => MI s /\ X (s_disk s))
     (fun a s' => MI s' /\ X (s_disk s') /\ cur <= a /\ a < endc /\ ent (s_disk s') a = 0)
     (fun s' => MI s' /\ X (s_disk s'))
     (find_next_free_loop fuel w cur endc).
Proof.
  intros G Hend. destruct (geo_w w G) as (Lw & Ecl & _ & _ & _ & _ & _ & _ & _ & _ & Eent & _).
  pose proof (fl_vol w fsz Lw) as Hv.
  induction fuel as [|f IH]; intros cur s r s' (HM & HX) E0; cbn [find_next_free_loop] in E0.
  { inversion E0; subst. exact I. }
  destruct (cur <? endc) eqn:Hlt; [|inversion E0; subst; split; assumption].
  apply N.ltb_lt in Hlt.
  change (if v_fat32 w then 4 else 2) with (fat_w w) in E0.
  assert (Hcur : cur < v_clusters w + 2) by (rewrite Ecl; lia).
  rewrite (bind_ok _ _ _ _ _ (entry_mul_ok w cur s Hv Hcur)) in E0.
  rewrite (bind_ok _ _ _ _ _ (fat_sector_ok w cur s Hv Hcur)) in E0.
  unfold bind at 1 in E0.
  destruct (cache_read (v_lba w + v_fat_start w + cur * fat_w w / 512) s) as [o1 s1] eqn:E1.
  destruct (cache_read_any _ _ _ _ E1) as (M & D & C & Hr).
  assert (HM1 : MI s1) by (apply (MI_same s); auto; apply C; apply HM).
  assert (HX1 : X (s_disk s1)) by (rewrite D; exact HX).
  destruct Hr as [(-> & _)|(b & -> & _ & _ & Hb)]; [inversion E0; subst; split; assumption|].
  specialize (Hb (proj1 (proj2 HM))).
  pose proof (fat_w_cases w) as Hw.
  destruct (scan_sector 257 (v_fat32 w) b ((cur * fat_w w) mod 512) cur endc) as [[a|] cur'] eqn:Hs.
  - inversion E0; subst r s'.
    pose proof (scan_sector_sound _ _ _ _ _ _ _ _ Hs) as (S1 & S2 & S3 & S4).
    change (if v_fat32 w then 4 else 2) with (fat_w w) in *.
    split; [exact HM1|]. split; [exact HX1|]. split; [exact S1|]. split; [exact S2|].
    rewrite D, <- Eent.
    destruct (same_sector (fat_w w) cur a Hw S1 S4) as (Q1 & Q2).
    rewrite fat_entry_at_eq, Q1, Q2, <- Hb. exact S3.
  - destruct (scan_sector_none _ _ _ _ _ _ _ Hs) as (N1 & _).
    pose proof (IH cur' s1 r s' (conj HM1 HX1) E0) as T.
    destruct r as [a| | |]; auto. destruct T as (A1 & A2 & A3 & A4 & A5).
    split; [exact A1|]. split; [exact A2|]. split; [clear - A3 N1; lia|]. split; [exact A4|exact A5].
Qed.

(* the block loops *)
Lemma T_loop {R} (P : st -> Prop) (body : N -> M (option R)) lo hi :
  (forall i, lo <= i -> i < hi -> hr P (fun _ => P) MI (body i)) ->
  forall n i, lo <= i -> i + N.of_nat n <= hi -> hr P (fun _ => P) MI (for_blocks_from n i body).
Proof.
  intros Hb. induction n as [|n IH]; intros i H1 H2; cbn [for_blocks_from].
  - apply hr_ret. auto.
  - apply (hr_bind _ (fun _ => P)); [apply Hb; lia|].
    intros [x|]; [apply hr_ret; auto|]. apply IH; lia.
Qed.

Lemma T_blank_write X i : nonfat1 i -> st1 X ->
  hr (fun s => MI s /\ X (s_disk s)) (fun (_ : option unit) s' => MI s' /\ X (s_disk s')) MI
     (blank_mut i ;;; write_back ;;; ret None).
Proof.
  intros Hi HX. eapply hr_bind; [apply T_blank_mut|]. intros ?; cbn beta.
  eapply hr_bind; [apply T_write_back; assumption|]. intros ?; cbn beta. apply hr_ret. auto.
Qed.

Lemma cluster_blocks_nonfat1 p k : inr_ p -> k < v_spc v0 -> nonfat1 (cluster_first_block v0 p + k).
Proof.
  intros (H1 & _) Hk q Hq E. exact (fat_sector_not_data v0 fsz 0 q p k L Hq H1 (eq_sym E)).
Qed.

Lemma T_zero X w new : PrChain.geo_eq v0 w -> inr_ new -> st1 X ->
  hr (fun s => MI s /\ X (s_disk s)) (fun _ s' => MI s' /\ X (s_disk s')) MI (zero_cluster w new).
Proof.
  intros G Hn HX s r s' HP E0.
  destruct (geo_w w G) as (Lw & Ecl & _ & Espc & _ & _ & _ & _ & _ & _ & _ & _ & Ecfb).
  pose proof (fl_vol w fsz Lw) as Hv.
  unfold zero_cluster in E0.
  assert (H2 : new < v_clusters w + 2) by (rewrite Ecl; exact (proj2 Hn)).
  rewrite (bind_ok _ _ _ _ _ (proj1 (cluster_block_ok w new s Hv (proj1 Hn) H2))) in E0.
  rewrite Ecfb, Espc in E0. revert s r s' HP E0.
  change (hr (fun s => MI s /\ X (s_disk s)) (fun (_ : unit) s' => MI s' /\ X (s_disk s')) MI
            (_ <- for_blocks (cluster_first_block v0 new) (v_spc v0)
                    (fun i => blank_mut i ;;; write_back ;;; ret (@None unit)) ;; ret tt)).
  eapply hr_bind; [|intros ?; apply hr_ret; intros ? H; exact H].
  unfold for_blocks. eapply hr_bind.
  { apply hr_pure'; [apply PrOrder.keeps_add32|intros s H; exact (proj1 H)]. }
  intros ?. apply (T_loop _ _ (cluster_first_block v0 new) (cluster_first_block v0 new + v_spc v0)).
  - intros i H1 H3. replace i with (cluster_first_block v0 new + (i - cluster_first_block v0 new)) by lia.
    apply T_blank_write; [|exact HX]. apply cluster_blocks_nonfat1; [exact Hn|lia].
  - lia.
  - lia.
Qed.

(* stepping through a bind in a hypothesis with a triple T and a proof HP of its precondition *)
Ltac hstep T HP x :=
  match goal with
  | H : bind ?m ?k ?s = (?r, ?s') |- _ =>
      let o1 := fresh "o" in let s1 := fresh "s" in let E1 := fresh "E" in let T1 := fresh "T" in
      unfold bind at 1 in H; destruct (m s) as [o1 s1] eqn:E1;
      pose proof (T s o1 s1 HP E1) as T1; cbn beta iota in T1;
      destruct o1 as [x|?e| |];
      [ cbn beta in H | inversion H; subst; clear H | inversion H; subst; exact I | inversion H; subst; exact I ]
  end.

Definition stb (X : disk -> Prop) : Prop := st1 X /\ st2 X.
Lemma stb_alloc p : inr_ p -> stb (fun d => ent d p <> 0).
Proof.
  intros Hp. split.
  - intros D d F H. rewrite (fat1eq_ent D d p F (inr_in_fat p Hp)). exact H.
  - intros D d y x HD Hok Hu H. exact (upd_keeps_alloc D d y x p HD Hok Hu Hp H).
Qed.
Lemma stb_and X Y : stb X -> stb Y -> stb (fun d => X d /\ Y d).
Proof.
  intros (A1 & A2) (B1 & B2). split.
  - intros D d F (H1 & H2). split; [exact (A1 _ _ F H1)|exact (B1 _ _ F H2)].
  - intros D d y x HD Hok Hu (H1 & H2). split; [exact (A2 _ _ _ _ HD Hok Hu H1)|exact (B2 _ _ _ _ HD Hok Hu H2)].
Qed.
Lemma stb_true : stb (fun _ => True).
Proof. split; [intros D d _ _; exact I|intros D d y x _ _ _ _; exact I]. Qed.

Lemma eoc_not_free d : DI d -> ent d c <> 0.
Proof.
  intros [_ H _] E. rewrite E in H. unfold lnk, next_result in H. destruct (v_fat32 v0); cbn in H; discriminate.
Qed.

(* alloc_cluster after the new cluster has been found, for prev = Some last, zero = true *)
Definition alloc_rest (w : vol) (endc last new : N) : M N :=
  update_fat vi new CL_EOF ;;;
  zero_cluster w new ;;;
  update_fat vi last new ;;;
  r2 <- try (find_next_free_cluster w new endc) ;;
  nf <- match r2 with
        | inl c => ret (Some c)
        | inr NotEnoughSpace =>
            if RESERVED_ENTRIES <? new then
              r3 <- try (find_next_free_cluster w RESERVED_ENTRIES endc) ;;
              match r3 with
              | inl c => ret (Some c)
              | inr NotEnoughSpace => ret None
              | inr e => fail e
              end
            else ret None
        | inr e => fail e
        end ;;
  v1 <- get_vol vi ;;
  let fc := match v_free v1 with
            | Some n => if 1 <=? n then Some (n - 1) else None
            | None => None end in
  put_vol vi (set_v_free (set_v_next_free v1 nf) fc) ;;;
  ret new.

Lemma T_alloc_rest X w endc last new :
  PrChain.geo_eq v0 w -> endc = v_clusters v0 + 2 -> stb X -> inr_ last -> last <> c -> inr_ new ->
  hr (fun s => MI s /\ X (s_disk s) /\ ent (s_disk s) last <> 0 /\ ent (s_disk s) new = 0)
     (fun a s' => a = new /\ MI s' /\ X (s_disk s') /\ ent (s_disk s') new <> 0) MI
     (alloc_rest w endc last new).
Proof.
  intros G Hend HX Hl Hlc Hn s r s' (HM & HXs & Hal & Hfree) E0. unfold alloc_rest in E0.
  assert (Hnc : new <> c) by (intros ->; exact (eoc_not_free _ (proj2 (proj2 HM)) Hfree)).
  assert (Hnl : new <> last) by (intros ->; contradiction).
  pose proof (stb_alloc last Hl) as SL. pose proof (stb_alloc new Hn) as SN.
  (* entry new := end of chain *)
  set (X1 := fun d => X d /\ ent d last <> 0).
  assert (S1 : stb X1) by (apply stb_and; assumption).
  assert (P1 : MI s /\ X1 (s_disk s) /\ updok (s_disk s) new CL_EOF).
  { split; [exact HM|]. split; [split; assumption|]. split; [exact Hn|]. split; [exact Hnc|]. left; reflexivity. }
  hstep (T_update_fat X1 new CL_EOF (proj2 S1)) P1 u1.
  2:{ exact T. }
  destruct T as (HM1 & (HX1 & Hal1) & Hnew1).
  assert (Hnz1 : ent (s_disk s0) new <> 0) by (rewrite Hnew1; exact (proj2 lnk_eof)).
  (* the new cluster is zeroed *)
  set (X2 := fun d => X1 d /\ ent d new <> 0).
  assert (S2 : stb X2) by (apply stb_and; assumption).
  assert (P2 : MI s0 /\ X2 (s_disk s0)) by (split; [exact HM1|]; split; [split; assumption|assumption]).
  hstep (T_zero X2 w new G Hn (proj1 S2)) P2 u2.
  2:{ exact T. }
  destruct T as (HM2 & (HX2 & Hal2) & Hnz2).
  (* entry last := new *)
  set (X3 := fun d => X d /\ ent d new <> 0).
  assert (S3 : stb X3) by (apply stb_and; assumption).
  assert (P3 : MI s1 /\ X3 (s_disk s1) /\ updok (s_disk s1) last new).
  { split; [exact HM2|]. split; [split; assumption|]. split; [exact Hl|]. split; [exact Hlc|].
    right. repeat split; try assumption; apply Hn. }
  hstep (T_update_fat X3 last new (proj2 S3)) P3 u3.
  2:{ exact T. }
  destruct T as (HM3 & HX3 & _).
  (* the tail: the record of the volume gets the new hint *)
  assert (Htail : forall nf s4, MI s4 /\ X3 (s_disk s4) -> (forall h, nf = Some h -> 2 <= h) ->
            (v1 <- get_vol vi ;;
             let fc := match v_free v1 with
                       | Some n => if 1 <=? n then Some (n - 1) else None
                       | None => None end in
             put_vol vi (set_v_free (set_v_next_free v1 nf) fc) ;;; ret new) s4 = (r, s') ->
            match r with
            | Ok a => a = new /\ MI s' /\ X (s_disk s') /\ ent (s_disk s') new <> 0
            | Err _ => MI s'
            | _ => True
            end).
  { intros nf s4 ((Hg4 & Hc4 & HD4) & HX4 & Hnz4) Hnf E4.
    destruct Hg4 as (w4 & Hw4 & G4 & Hh4).
    rewrite (bind_ok _ _ _ _ _ (get_vol_some vi w4 s4 Hw4)) in E4. cbv zeta in E4.
    unfold put_vol, bind, modify, ret in E4. inversion E4; subst r s'. clear E4.
    split; [reflexivity|]. split; [|split; assumption].
    split; [|split; assumption].
    eexists. split; [cbn [s_vols set_s_vols]; exact (PrAllocEffect.ls_nth_same _ _ _ _ Hw4)|].
    split; [auto with gk|]. intros h Eh. cbn in Eh. exact (Hnf h Eh). }
  (* the search for the next hint *)
  unfold find_next_free_cluster in E0.
  assert (Hendle : endc <= v_clusters v0 + 2) by lia.
  hstep (hr_try _ _ _ MI _ (T_find X3 w endc G Hendle (N.to_nat (endc / 128) + 3) new)) (conj HM3 HX3) a2.
  2:{ exact T. }
  destruct a2 as [a2|e2].
  - destruct T as (HM4 & HX4 & R1 & _). rewrite bind_ret in E0.
    apply (Htail (Some a2) s3 (conj HM4 HX4)); [|exact E0]. intros h Eh. injection Eh as <-. destruct Hn. lia.
  - destruct T as (HM4 & HX4).
    destruct e2; try (rewrite bind_fail in E0; inversion E0; subst; exact HM4).
    destruct (RESERVED_ENTRIES <? new); cbv iota in E0.
    + rewrite PrDir.bind_bind in E0.
      hstep (hr_try _ _ _ MI _ (T_find X3 w endc G Hendle (N.to_nat (endc / 128) + 3) RESERVED_ENTRIES)) (conj HM4 HX4) a3.
      2:{ exact T. }
      destruct a3 as [a3|e3].
      * destruct T as (HM5 & HX5 & R1 & _). rewrite bind_ret in E0.
        apply (Htail (Some a3) s4 (conj HM5 HX5)); [|exact E0]. intros h Eh. injection Eh as <-. exact R1.
      * destruct T as (HM5 & HX5).
        destruct e3; try (rewrite bind_fail in E0; inversion E0; subst; exact HM5).
        rewrite bind_ret in E0. apply (Htail None s4 (conj HM5 HX5)); [|exact E0]. intros h Eh. discriminate.
    + rewrite bind_ret in E0. apply (Htail None s3 (conj HM4 HX4)); [|exact E0]. intros h Eh. discriminate.
Qed.

(* alloc_cluster extending the chain of `last` by a zeroed cluster, under ANY schedule: an Ok
   result is an allocated data cluster other than c; an Err result leaves the invariant *)
Lemma T_alloc X last : stb X -> inr_ last -> last <> c ->
  hr (fun s => MI s /\ X (s_disk s) /\ ent (s_disk s) last <> 0)
     (fun a s' => MI s' /\ X (s_disk s') /\ inr_ a /\ a <> c /\ ent (s_disk s') a <> 0) MI
     (alloc_cluster vi (Some last) true).
Proof.
  intros HX Hl Hlc s r s' (HM & HXs & Hal) E0. unfold alloc_cluster in E0.
  destruct (proj1 HM) as (w & Hw & G & Hh).
  rewrite (bind_ok _ _ _ _ _ (get_vol_some vi w s Hw)) in E0.
  destruct (geo_w w G) as (Lw & Ecl & _).
  unfold bind at 1 in E0.
  destruct (add32 (v_clusters w) RESERVED_ENTRIES s) as [o1 s1] eqn:Ea.
  unfold add32 in Ea. destruct (v_clusters w + RESERVED_ENTRIES <? U32); inversion Ea; subst o1 s1; clear Ea;
    [|inversion E0; subst; exact I].
  cbv beta iota zeta in E0. rewrite Ecl in E0.
  remember (match v_next_free w with
            | Some c0 => if c0 <? v_clusters v0 + RESERVED_ENTRIES then c0 else RESERVED_ENTRIES
            | None => RESERVED_ENTRIES end) as start eqn:Estart.
  assert (Hs1 : 2 <= start).
  { subst start. unfold RESERVED_ENTRIES. destruct (v_next_free w) as [c0|] eqn:En; [|lia].
    destruct (c0 <? v_clusters v0 + 2); [|lia]. exact (Hh c0 En). }
  set (X1 := fun d => X d /\ ent d last <> 0).
  assert (Hendle : v_clusters v0 + RESERVED_ENTRIES <= v_clusters v0 + 2) by (unfold RESERVED_ENTRIES; lia).
  assert (Hrest : forall a s1, MI s1 /\ X1 (s_disk s1) -> start <= a \/ 2 <= a -> a < v_clusters v0 + RESERVED_ENTRIES ->
            ent (s_disk s1) a = 0 ->
            alloc_rest w (v_clusters v0 + RESERVED_ENTRIES) last a s1 = (r, s') ->
            match r with
            | Ok a => MI s' /\ X (s_disk s') /\ inr_ a /\ a <> c /\ ent (s_disk s') a <> 0
            | Err _ => MI s'
            | _ => True
            end).
  { intros a s1 (HM1 & HX1 & Hal1) Hlo Hhi Hz Er. unfold RESERVED_ENTRIES in Hhi.
    assert (Ha : inr_ a) by (split; [destruct Hlo; lia|exact Hhi]).
    assert (Hac : a <> c) by (intros ->; exact (eoc_not_free _ (proj2 (proj2 HM1)) Hz)).
    pose proof (T_alloc_rest X w _ last a G eq_refl HX Hl Hlc Ha s1 r s'
                  (conj HM1 (conj HX1 (conj Hal1 Hz))) Er) as R.
    destruct r as [a'| | |]; auto. destruct R as (-> & R1 & R2 & R3). auto. }
  unfold find_next_free_cluster in E0 at 1 2.
  hstep (hr_try _ _ _ MI _ (T_find X1 w _ G Hendle
           (N.to_nat ((v_clusters v0 + RESERVED_ENTRIES) / 128) + 3) start)) (conj HM (conj HXs Hal : X1 (s_disk s))) a1.
  2:{ exact T. }
  destruct a1 as [a1|e1].
  - destruct T as (HM1 & HX1 & R1 & R2 & R3). rewrite bind_ret in E0.
    exact (Hrest a1 s0 (conj HM1 HX1) (or_introl R1) R2 R3 E0).
  - destruct T as (HM1 & HX1).
    destruct e1; try (rewrite bind_fail in E0; inversion E0; subst; exact HM1).
    destruct (RESERVED_ENTRIES <? start); cbv iota in E0;
      [|rewrite bind_fail in E0; inversion E0; subst; exact HM1].
    hstep (T_find X1 w _ G Hendle (N.to_nat ((v_clusters v0 + RESERVED_ENTRIES) / 128) + 3) RESERVED_ENTRIES)
          (conj HM1 HX1) a2.
    2:{ exact (proj1 T). }
    destruct T as (HM2 & HX2 & R1 & R2 & R3).
    exact (Hrest a2 s1 (conj HM2 HX2) (or_intror R1) R2 R3 E0).
Qed.

(* ---- the directory walk that may grow the directory ---- *)
(* the walk is at an allocated data cluster other than c, or in the fixed FAT16 root region *)
Definition visit_ok (p : N) (d : disk) : Prop := inr_ p /\ p <> c /\ ent d p <> 0.
Definition root16 (p : N) : Prop := v_fat32 v0 = false /\ p = CL_ROOT.

Lemma root16_nonfat1 i : v_fat32 v0 = false -> v_lba v0 + v_root_block v0 <= i -> nonfat1 i.
Proof.
  intros H32 Hi k Hk E. specialize (Hroot16 H32). subst i.
  unfold fat_copy_sector, fat_copy_start in Hi. change (0 =? 0) with true in Hi. cbv iota in Hi. lia.
Qed.

Section Walk.
Context {R : Type}.
Variable body : N -> M (option R).
Hypothesis Hbody : forall X blk, st1 X -> nonfat1 blk ->
  hr (fun s => MI s /\ X (s_disk s)) (fun _ s' => MI s' /\ X (s_disk s')) MI (body blk).

Lemma T_blocks X first size : st1 X ->
  (forall i, first <= i -> i < first + size -> nonfat1 i) ->
  hr (fun s => MI s /\ X (s_disk s)) (fun _ s' => MI s' /\ X (s_disk s')) MI (for_blocks first size body).
Proof.
  intros HX Hnf. unfold for_blocks. eapply hr_bind.
  { apply hr_pure'; [apply PrOrder.keeps_add32|intros s H; exact (proj1 H)]. }
  intros ?. apply (T_loop _ _ first (first + size)).
  - intros i H1 H2. apply Hbody; [exact HX|]. apply Hnf; assumption.
  - lia.
  - lia.
Qed.

Lemma T_walk : forall fuel p,
  hr (fun s => MI s /\ (root16 p \/ visit_ok p (s_disk s))) (fun _ s' => MI s') MI
     (walk_dir fuel vi p true body).
Proof.
  induction fuel as [|f IH]; intros p s r s' (HM & Hp) E0; cbn [walk_dir] in E0.
  { inversion E0; subst. exact I. }
  destruct (proj1 HM) as (w & Hw & G & Hh).
  rewrite (bind_ok _ _ _ _ _ (get_vol_some vi w s Hw)) in E0.
  destruct (geo_w w G) as (Lw & Ecl & E32 & Espc & _ & Ere & Elba & Erb & _ & _ & Eent & Elnk & Ecfb).
  pose proof (fl_vol w fsz Lw) as Hv.
  destruct Hp as [(H32 & ->)|(Hp1 & Hpc & Hpz)].
  - (* the fixed root region of a FAT16 volume *)
    unfold cluster_to_block in E0. rewrite E32, H32 in E0. change (CL_ROOT =? CL_ROOT) with true in E0.
    cbv iota in E0. unfold bind at 1 in E0.
    destruct (add32 (v_lba w) (v_root_block w) s) as [o1 s1] eqn:Ea.
    unfold add32 in Ea. destruct (_ <? U32); inversion Ea; subst o1 s1; clear Ea; [|inversion E0; subst; exact I].
    cbv beta iota zeta in E0. cbn [negb andb] in E0.
    assert (P1 : MI s /\ (fun _ => True) (s_disk s)) by (split; [exact HM|exact I]).
    hstep (T_blocks (fun _ => True) (v_lba w + v_root_block w) (from_bytes (v_root_entries w * 32)) (proj1 stb_true)
             (fun i H1 _ => root16_nonfat1 i H32 ltac:(rewrite <- Elba, <- Erb; exact H1))) P1 r1.
    2:{ exact T. }
    destruct r1; inversion E0; subst; exact (proj1 T).
  - (* a cluster of the chain *)
    assert (Hp2 : p < v_clusters w + 2) by (rewrite Ecl; exact (proj2 Hp1)).
    rewrite (bind_ok _ _ _ _ _ (proj1 (cluster_block_ok w p s Hv (proj1 Hp1) Hp2))) in E0.
    assert (Hnr : (p =? CL_ROOT) = false) by (apply N.eqb_neq; exact (in_range_not_root w p Hv Hp2)).
    rewrite Hnr, andb_false_r in E0. cbv beta iota zeta in E0. rewrite Ecfb, Espc in E0.
    set (Xp := fun d => ent d p <> 0).
    assert (P1 : MI s /\ Xp (s_disk s)) by (split; assumption).
    hstep (T_blocks Xp (cluster_first_block v0 p) (v_spc v0) (proj1 (stb_alloc p Hp1))
             (fun i H1 H2 => ltac:(replace i with (cluster_first_block v0 p + (i - cluster_first_block v0 p)) by lia;
                                    apply cluster_blocks_nonfat1; [exact Hp1|lia]))) P1 r1.
    2:{ exact T. }
    destruct T as (HM1 & Hpz1).
    destruct r1 as [x|]; [inversion E0; subst; exact HM1|].
    unfold bind at 1 in E0. destruct (try (next_cluster w p) s0) as [o2 s2] eqn:E2.
    destruct (next_cluster_any w p s0 o2 s2 Hv Hp2 (proj1 (proj2 HM1)) E2) as (M2 & D2 & C2 & Ho2).
    assert (HM2 : MI s2) by (apply (MI_same s0); assumption).
    rewrite Eent, Elnk in Ho2.
    destruct Ho2 as [-> | ->]; [inversion E0; subst; exact HM2|].
    destruct (lnk (ent (s_disk s0) p)) as [n|e] eqn:El.
    + destruct (di_closed _ (proj2 (proj2 HM1)) p n Hp1 Hpz1 El) as (N1 & N2 & N3).
      apply (IH n s2 r s'); [|exact E0]. split; [exact HM2|]. right. rewrite D2.
      split; [exact N1|split; [exact N2|exact N3]].
    + destruct e; try (inversion E0; subst; exact HM2).
      assert (P2 : MI s2 /\ (fun _ => True) (s_disk s2) /\ ent (s_disk s2) p <> 0)
        by (split; [exact HM2|split; [exact I|rewrite D2; exact Hpz1]]).
      hstep (T_alloc (fun _ => True) p stb_true Hp1 Hpc) P2 a.
      2:{ exact T. }
      destruct T as (HM3 & _ & A1 & A2 & A3).
      apply (IH a s1 r s'); [|exact E0]. split; [exact HM3|]. right.
      split; [exact A1|split; [exact A2|exact A3]].
Qed.
End Walk.

(* the body of write_new_directory_entry: read the block, and if it has a free slot put the
   entry there and write the block back *)
Lemma T_create_body fat32 name attr fc X blk : st1 X -> nonfat1 blk ->
  hr (fun s => MI s /\ X (s_disk s)) (fun (_ : option dirent) s' => MI s' /\ X (s_disk s')) MI
     (b <- cache_read blk ;;
      match free_slot 16 b 0 with
      | Some i =>
          ctime <- get_timestamp ;;
          let e := mk_dirent name ctime ctime attr fc 0 blk (i * 32) in
          bytes <- serialize fat32 e ;;
          cache_modify (fun b => set_bytes b (i * 32) bytes) ;;;
          write_back ;;; ret (Some e)
      | None => ret None
      end).
Proof.
  intros HX Hb. eapply hr_bind; [apply T_cache_read|]. intros b. cbn beta.
  destruct (free_slot 16 b 0) as [i|]; [|apply hr_ret; intros s (H1 & H2 & _); auto].
  eapply hr_bind.
  { apply T_get_timestamp. exact (noclock_MI_tag X blk). }
  intros ctime. cbv zeta. cbn beta. eapply hr_bind.
  { apply hr_pure'; [apply PrOrder.keeps_serialize|intros s H; exact (proj1 H)]. }
  intros bytes. cbn beta. eapply hr_bind.
  { eapply hr_weaken; [| | |apply (T_cache_modify X blk _ MI)].
    - intros s ((Hg & _ & HD) & H2 & Ht). split; [|exact H2]. split; [exact Hg|]. split; [exact HD|exact Ht].
    - intros a s H. exact H.
    - intros s H. exact H. }
  intros ?. cbn beta. eapply hr_bind; [apply T_write_back; assumption|].
  intros ?. cbn beta. apply hr_ret. intros s H. exact H.
Qed.

Definition start_ok (dc : N) (d : disk) : Prop :=
  root16 (dir_first_cluster v0 dc) \/ visit_ok (dir_first_cluster v0 dc) d.

Lemma T_write_new_directory_entry dc name attr fc :
  hr (fun s => MI s /\ start_ok dc (s_disk s)) (fun _ s' => MI s') MI
     (write_new_directory_entry vi dc name attr fc).
Proof.
  intros s r s' (HM & Hst) E0. unfold write_new_directory_entry in E0.
  destruct (proj1 HM) as (w & Hw & G & Hh).
  rewrite (bind_ok _ _ _ _ _ (get_vol_some vi w s Hw)) in E0.
  assert (Ed : dir_first_cluster w dc = dir_first_cluster v0 dc) by (destruct G as (a & b & ->); reflexivity).
  rewrite Ed in E0.
  hstep (T_walk _ (fun X blk => T_create_body (v_fat32 w) name attr fc X blk) (walk_fuel w) (dir_first_cluster v0 dc))
        (conj HM Hst) r1.
  2:{ exact T. }
  destruct r1; inversion E0; subst; exact T.
Qed.

(* ---- the invariant makes the clean-up total ---- *)
Lemma MI_cleanup_ready s : MI s -> cleanup_ready vi c s.
Proof.
  intros ((w & Hw & G & Hh) & Hc0 & HD).
  destruct (geo_w w G) as (Lw & Ecl & _ & _ & _ & _ & _ & _ & _ & _ & Eent & Elnk & _).
  split; [exact Hc0|]. exists w. split; [exact Hw|]. split; [exact (fl_vol w fsz Lw)|].
  assert (Hcw : c < v_clusters w + 2) by (rewrite Ecl; exact (proj2 Hc)).
  split; [exact (layout_addr w fsz c Lw Hcw)|]. split; [exact (proj1 Hc)|]. split; [exact Hcw|].
  unfold eoc_on_disk. rewrite Eent, Elnk. exact (di_eoc _ HD).
Qed.

Lemma data_block_nonfat1 p k : inr_ p -> nonfat1 (cluster_first_block v0 p + k).
Proof. intros (H1 & _) q Hq E. exact (fat_sector_not_data v0 fsz 0 q p k L Hq H1 (eq_sym E)). Qed.

(* ---- reporting, with a precondition on the state ---- *)
Definition repS {A} (P : st -> Prop) (m : M A) : Prop :=
  forall s r s', P s -> m s = (r, s') -> exists new, ext s s' new /\ (fails new -> exists e, r = Err e).

Lemma repS_of_rep {A} (P : st -> Prop) (m : M A) : rep (fun _ => True) false m -> repS P m.
Proof.
  intros Hm s r s' _ E. destruct (Hm _ _ _ E) as (n & X & F). exists n. split; [exact X|].
  intros Hf. specialize (F Hf). destruct r; cbn in F; try contradiction; try discriminate. eauto.
Qed.

Lemma repS_bind {A B} (P : st -> Prop) (Q : A -> st -> Prop) E (m : M A) (k : A -> M B) :
  rep (fun _ => True) false m -> hr P Q E m -> (forall a, repS (Q a) (k a)) -> repS P (bind m k).
Proof.
  intros Hm Hh Hk s r s' HP E0. unfold bind in E0. destruct (m s) as [r1 s1] eqn:E1.
  destruct (Hm _ _ _ E1) as (n1 & X1 & F1). pose proof (Hh _ _ _ HP E1) as H1.
  destruct r1 as [a|e| |].
  - destruct (Hk a _ _ _ H1 E0) as (n2 & X2 & F2). exists (n2 ++ n1).
    split; [eapply ext_trans; eassumption|]. intros Hf. apply fails_app in Hf.
    destruct Hf as [Hf|Hf]; [auto|]. destruct (F1 Hf).
  - inversion E0; subst. exists n1. split; [exact X1|]. intros _. eauto.
  - inversion E0; subst. exists n1. split; [exact X1|]. intros Hf. specialize (F1 Hf). discriminate.
  - inversion E0; subst. exists n1. split; [exact X1|]. intros Hf. specialize (F1 Hf). discriminate.
Qed.

(* a catch site whose handler must yield an error when the caught error is DeviceError *)
Lemma repS_try_bind {A B} (P : st -> Prop) (Q : A -> st -> Prop) (E : st -> Prop) (m : M A) (k : A + err -> M B) :
  rep (eq DeviceError) false m -> hr P Q E m ->
  (forall a, repS (Q a) (k (inl a))) -> (forall e, repS E (k (inr e))) ->
  (forall s r s', E s -> k (inr DeviceError) s = (r, s') -> exists e, r = Err e) ->
  repS P (bind (try m) k).
Proof.
  intros Hm Hh Hk1 Hk2 Hd s r s' HP E0. unfold bind, try in E0. destruct (m s) as [r1 s1] eqn:E1.
  destruct (Hm _ _ _ E1) as (n1 & X1 & F1). pose proof (Hh _ _ _ HP E1) as H1.
  destruct r1 as [a|e| |].
  - destruct (Hk1 a _ _ _ H1 E0) as (n2 & X2 & F2). exists (n2 ++ n1).
    split; [eapply ext_trans; eassumption|]. intros Hf. apply fails_app in Hf.
    destruct Hf as [Hf|Hf]; [auto|]. destruct (F1 Hf).
  - destruct (Hk2 e _ _ _ H1 E0) as (n2 & X2 & F2). exists (n2 ++ n1).
    split; [eapply ext_trans; eassumption|]. intros Hf. apply fails_app in Hf.
    destruct Hf as [Hf|Hf]; [auto|]. specialize (F1 Hf). cbn in F1. subst e. exact (Hd _ _ _ H1 E0).
  - inversion E0; subst. exists n1. split; [exact X1|]. intros Hf. specialize (F1 Hf). discriminate.
  - inversion E0; subst. exists n1. split; [exact X1|]. intros Hf. specialize (F1 Hf). discriminate.
Qed.

(* ---- make_dir after the allocation of c ---- *)
Definition make_dir_rest (parent : N) (sfn : list N) (att : N) : M unit :=
  v <- get_vol vi ;;
  start <- cluster_to_block v c ;;
  now <- get_timestamp ;;
  blank_mut start ;;;
  dot <- serialize (v_fat32 v) (mk_dirent THIS_DIR_NAME now now att c 0 start 0) ;;
  dotdot <- serialize (v_fat32 v)
              (mk_dirent PARENT_DIR_NAME now now att (if parent =? CL_ROOT then CL_EMPTY else parent) 0 start 32) ;;
  cache_modify (fun b => set_bytes (set_bytes b 0 dot) 32 dotdot) ;;;
  write_back ;;;
  _ <- add32 start (v_spc v) ;;
  _ <- for_blocks_from (N.to_nat (v_spc v) - 1) (start + 1)
         (fun i => blank_mut i ;;; write_back ;;; ret (@None unit)) ;;
  r <- try (write_new_directory_entry vi parent sfn att c) ;;
  match r with
  | inl _ => ret tt
  | inr e => free_cluster_chain vi c ;;; fail e
  end.

Lemma st1_start_ok parent : st1 (start_ok parent).
Proof.
  intros D d F [H|(H1 & H2 & H3)]; [left; exact H|right].
  split; [exact H1|]. split; [exact H2|]. rewrite (fat1eq_ent D d _ F (inr_in_fat _ H1)). exact H3.
Qed.

Lemma T_ctb (P : st -> Prop) w : PrChain.geo_eq v0 w ->
  hr P (fun st s' => P s' /\ st = cluster_first_block v0 c) P (cluster_to_block w c).
Proof.
  intros G s r s' HP E0. destruct (geo_w w G) as (Lw & Ecl & _ & _ & _ & _ & _ & _ & _ & _ & _ & _ & Ecfb).
  assert (Hcw : c < v_clusters w + 2) by (rewrite Ecl; exact (proj2 Hc)).
  rewrite (proj1 (cluster_block_ok w c s (fl_vol w fsz Lw) (proj1 Hc) Hcw)) in E0.
  inversion E0; subst. split; [exact HP|apply Ecfb].
Qed.

Theorem make_dir_rest_reports parent sfn att :
  repS (fun s => MI s /\ start_ok parent (s_disk s)) (make_dir_rest parent sfn att).
Proof.
  pose proof I as PD. pose proof (st1_start_ok parent) as SX.
  unfold make_dir_rest.
  eapply repS_bind; [rep_auto|apply (T_get_vol _ MI); intros s H; exact (proj1 (proj1 H))|]. intros w. cbn beta.
  (* from here on the geometry of w is known *)
  assert (Hgo : forall (G : PrChain.geo_eq v0 w),
    repS (fun s => MI s /\ start_ok parent (s_disk s))
     (start <- cluster_to_block w c ;;
      now <- get_timestamp ;;
      blank_mut start ;;;
      dot <- serialize (v_fat32 w) (mk_dirent THIS_DIR_NAME now now att c 0 start 0) ;;
      dotdot <- serialize (v_fat32 w)
                  (mk_dirent PARENT_DIR_NAME now now att (if parent =? CL_ROOT then CL_EMPTY else parent) 0 start 32) ;;
      cache_modify (fun b => set_bytes (set_bytes b 0 dot) 32 dotdot) ;;;
      write_back ;;;
      _ <- add32 start (v_spc w) ;;
      _ <- for_blocks_from (N.to_nat (v_spc w) - 1) (start + 1)
             (fun i => blank_mut i ;;; write_back ;;; ret (@None unit)) ;;
      r <- try (write_new_directory_entry vi parent sfn att c) ;;
      match r with
      | inl _ => ret tt
      | inr e => free_cluster_chain vi c ;;; fail e
      end)).
  2:{ intros s r s' (HP & _ & G & _) E0. exact (Hgo G s r s' HP E0). }
  intros G.
  eapply repS_bind; [rep_auto|apply (T_ctb _ w G)|]. intros start. cbn beta.
  intros s r s' (HP & ->) E0. revert s r s' HP E0.
  change (repS (fun s => MI s /\ start_ok parent (s_disk s)) ?m) with (repS (fun s => MI s /\ start_ok parent (s_disk s)) m).
  eapply repS_bind; [rep_auto|apply (T_get_timestamp _ MI); exact (noclock_MI (start_ok parent))|]. intros now. cbn beta.
  eapply repS_bind; [rep_auto|apply (T_blank_mut (start_ok parent) _ MI)|]. intros ?. cbn beta.
  eapply repS_bind; [rep_auto|apply hr_pure; apply PrOrder.keeps_serialize|]. intros dot. cbn beta.
  eapply repS_bind; [rep_auto|apply hr_pure; apply PrOrder.keeps_serialize|]. intros dotdot. cbn beta.
  eapply repS_bind; [rep_auto|apply (T_cache_modify (start_ok parent) _ _ MI)|]. intros ?. cbn beta.
  eapply repS_bind; [rep_auto2|apply (T_write_back (start_ok parent)); [|exact SX]|].
  { replace (cluster_first_block v0 c) with (cluster_first_block v0 c + 0) by lia. apply data_block_nonfat1. exact Hc. }
  intros ?. cbn beta.
  eapply repS_bind; [rep_auto|apply hr_pure; apply PrOrder.keeps_add32|]. intros ?. cbn beta.
  eapply repS_bind.
  { apply rep_for_blocks_from. intros i. rep_auto2. }
  { apply (T_loop _ _ (cluster_first_block v0 c + 1)
                  (cluster_first_block v0 c + 1 + N.of_nat (N.to_nat (v_spc w) - 1))).
    - intros i H1 H2. replace i with (cluster_first_block v0 c + (i - cluster_first_block v0 c)) by lia.
      apply T_blank_write; [|exact SX]. apply data_block_nonfat1. exact Hc.
    - lia.
    - lia. }
  intros ?. cbn beta.
  apply (repS_try_bind _ (fun _ _ => True) MI).
  - apply rep_write_new_directory_entry. reflexivity.
  - eapply hr_weaken; [| | |apply T_write_new_directory_entry]; cbn beta; auto.
  - intros x. apply repS_of_rep. rep_auto.
  - intros e. apply repS_of_rep. apply rep_bind; [apply rep_free_cluster_chain; exact I|intros ?; apply rep_fail].
  - intros s r s' HM E0. pose proof (always_then_fail_ready (B := unit) vi c DeviceError s (MI_cleanup_ready s HM) r s' E0) as Hb.
    destruct r; cbn in Hb; try contradiction; try discriminate. eauto.
Qed.
End Mkdir.

(* ---- the precondition of the Mkdir theorem ---- *)
(* every allocated data cluster that links somewhere links to an allocated data cluster *)
Definition fat_closed (v : vol) (d : disk) : Prop :=
  forall j n, inr_ v j -> ent v d j <> 0 -> lnk v (ent v d j) = inl n -> inr_ v n /\ ent v d n <> 0.
(* the directory starts in the fixed FAT16 root region or at an allocated data cluster *)
Definition dir_start_ok (v : vol) (dc : N) (d : disk) : Prop :=
  root16 v (dir_first_cluster v dc) \/
  (inr_ v (dir_first_cluster v dc) /\ ent v d (dir_first_cluster v dc) <> 0).

Record mkdir_pre (vi : nat) (v : vol) (fsz parent : N) (s : st) : Prop := mk_mkdir_pre {
  mp_vol : nth_error (s_vols s) vi = Some v;
  mp_hint : hint_ok v;
  mp_cache : cache_ok s;
  mp_len : PrCrash.fat_len_ok v fsz (s_disk s);
  mp_closed : fat_closed v (s_disk s);
  mp_start : dir_start_ok v parent (s_disk s)
}.

Section MkdirTop.
Variables (vi : nat) (v : vol) (fsz : N).
Hypothesis L : fat_layout v fsz.
Hypothesis Hfits : PrCrash.fat_fits v.
Hypothesis Hroot16 : v_fat32 v = false -> v_fat_start v + fsz <= v_root_block v.

(* the first allocation: an Ok result is the result of the fault-free run (pfx), so the effect
   theorem of PrAllocEffect applies; it establishes the invariant for the new cluster *)
Lemma alloc_first parent :
  hr (mkdir_pre vi v fsz parent)
     (fun c s1 => inr_ v c /\ MI vi v fsz c s1 /\ start_ok v c parent (s_disk s1)) (fun _ => True)
     (alloc_cluster vi None false).
Proof.
  intros s r s' [Hv Hh Hc Hlen Hcl Hst] E. destruct r as [c| | |]; try exact I.
  pose proof (pfx_ok_is_fault_free _ (pfx_alloc_cluster vi None false) s c s' E) as En.
  assert (Hpre : alloc_pre (nf s) vi v fsz).
  { split; [|split; [exact L|exact Hh]]. split; [apply nf_no_faults|]. split; [exact Hc|]. split; [exact Hv|exact Hlen]. }
  assert (Hprev : forall p, @None N = Some p -> p < v_clusters v + 2) by (intros p H; discriminate).
  destruct (alloc_cluster_effect vi v fsz None false (nf s) c (nf s') Hpre Hprev En)
    as [(A1 & A1' & A1z) A2 _ A4 _ (nf' & A6 & A6') _ _ _ (_ & A10c & A10l) _].
  change (s_disk (nf s)) with (s_disk s) in *. change (s_disk (nf s')) with (s_disk s') in *.
  change (s_vols (nf s)) with (s_vols s) in *. change (s_vols (nf s')) with (s_vols s') in *.
  assert (Hcr : inr_ v c) by (split; assumption).
  assert (Hnew : ent v (s_disk s') c = enc v CL_EOF) by (apply A2; discriminate).
  assert (Hoth : forall j, inr_ v j -> j <> c -> ent v (s_disk s') j = ent v (s_disk s) j).
  { intros j Hj Hne. apply A4; [exact (layout_sector v fsz j L (proj2 Hj))|exact Hne|discriminate]. }
  split; [exact Hcr|]. split; [split; [|split]|].
  - eexists. split; [rewrite A6; exact (PrAllocEffect.ls_nth_same _ _ _ _ Hv)|].
    split; [eexists; eexists; reflexivity|]. intros h Eh. cbn in Eh. subst nf'. exact (proj1 A6').
  - exact A10c.
  - constructor.
    + exact A10l.
    + rewrite Hnew. exact (proj1 (lnk_eof v fsz Hroot16)).
    + intros j n Hj Hz Hl. destruct (N.eq_dec j c) as [->|Hne].
      * rewrite Hnew, (proj1 (lnk_eof v fsz Hroot16)) in Hl. discriminate.
      * rewrite (Hoth j Hj Hne) in Hz, Hl. destruct (Hcl j n Hj Hz Hl) as (N1 & N2).
        assert (Hnc : n <> c) by (intros ->; contradiction).
        split; [exact N1|]. split; [exact Hnc|]. rewrite (Hoth n N1 Hnc). exact N2.
  - destruct Hst as [Hst|(P1 & P2)]; [left; exact Hst|right].
    assert (Hpc : dir_first_cluster v parent <> c) by (intros E0; rewrite E0 in P2; contradiction).
    split; [exact P1|]. split; [exact Hpc|]. rewrite (Hoth _ P1 Hpc). exact P2.
Qed.

Theorem make_dir_reports parent sfn att : repS (mkdir_pre vi v fsz parent) (make_dir vi parent sfn att).
Proof.
  change (make_dir vi parent sfn att)
    with (c <- alloc_cluster vi None false ;; make_dir_rest vi c parent sfn att).
  eapply repS_bind; [apply rep_alloc_cluster; exact I|apply alloc_first|].
  intros c s r s' (Hc & HM & Hs) E.
  exact (make_dir_rest_reports vi v fsz c L Hfits Hroot16 Hc parent sfn att s r s' (conj HM Hs) E).
Qed.

(* the lookup before make_dir only reads: the precondition survives it, failed or not *)
Lemma find_keeps_pre parent dc sfn :
  hr (mkdir_pre vi v fsz parent) (fun _ _ => True) (mkdir_pre vi v fsz parent) (find_directory_entry vi dc sfn).
Proof.
  intros s r s' [Hv Hh Hc Hlen Hcl Hst] E. destruct r as [a|e| |]; try exact I.
  destruct (find_directory_entry_reads_only _ _ _ _ _ _ E) as (M & D & _).
  pose proof (cok_find_directory_entry _ _ _ _ _ _ E Hc) as Hc'.
  constructor; try rewrite D; try assumption. rewrite (same_mgr_vols_eq _ _ M). exact Hv.
Qed.
End MkdirTop.

(* C11 for Mkdir, the full statement: if any block-device call fails during the call, the call
   returns an error - not success, not a panic, not a hang.  Precondition: the handles resolve,
   the volume geometry is consistent (PrAllocEffect.fat_layout, the cluster count fits the FAT
   type, the FAT16 root region lies behind the FAT), the hint is no reserved entry, the cache is
   coherent, the sectors of the first FAT copy are full blocks, the FAT is closed (allocated
   clusters link to allocated data clusters) and the parent directory starts at an allocated
   cluster (or is the FAT16 root).  The fault schedule is arbitrary. *)
Theorem C11_reports_mkdir : forall s d name di dd vi v fsz out s',
  resolves s d di dd vi v ->
  fat_layout v fsz -> PrCrash.fat_fits v ->
  (v_fat32 v = false -> v_fat_start v + fsz <= v_root_block v) ->
  mkdir_pre vi v fsz (d_cluster dd) s ->
  run_op (Mkdir d name) s = (out, s') -> fault_fired s s' -> exists e, out = Err e.
Proof.
  intros s d name di dd vi v fsz out s' Hres L Hfits Hroot Hpre E (new & Xn & Hf).
  unfold run_op in E. cbn [step] in E. unfold lift, bind in E.
  destruct (make_dir_in_dir d name s) as [o1 s1] eqn:E1.
  assert (Hrep : exists n1, ext s s1 n1 /\ (fails n1 -> exists e, o1 = Err e)).
  { pose proof Hres as (Hl & H1 & H2 & H3 & H4).
    unfold make_dir_in_dir in E1. rewrite (locked_free _ _ Hl), bind_get in E1.
    assert (Hq : forall e, (Err e, s) = (o1, s1) -> exists n1, ext s s1 n1 /\ (fails n1 -> exists e, o1 = Err e)).
    { intros e H. inversion H; subst. exists []. split; [apply ext_refl|]. intros _. eauto. }
    destruct (is_full (s_dirs s) (s_maxd s)); [exact (Hq _ E1)|].
    rewrite (bind_ok _ _ _ _ _ H1), (bind_ok _ _ _ _ _ H2), (bind_ok _ _ _ _ _ H3) in E1.
    destruct (sfn_of_str name) as [sfn|]; [|exact (Hq _ E1)].
    destruct (list_eqb sfn THIS_DIR_NAME || list_eqb sfn PARENT_DIR_NAME); [exact (Hq _ E1)|].
    revert E1. apply (repS_try_bind (mkdir_pre vi v fsz (d_cluster dd)) (fun _ _ => True)
                        (mkdir_pre vi v fsz (d_cluster dd))); [| | | | |exact Hpre].
    - apply rep_find_directory_entry. reflexivity.
    - apply find_keeps_pre.
    - intros a. apply repS_of_rep. rep_auto.
    - intros e.
      assert (Hcase : e = NotFound \/ e <> NotFound) by (destruct e; auto; right; discriminate).
      destruct Hcase as [->|Hne]; [apply make_dir_reports; assumption|].
      apply repS_of_rep. destruct e; try contradiction; rep_auto.
    - intros s2 r2 s2' _ H. inversion H; subst. eauto. }
  destruct Hrep as (n1 & X1 & F1).
  destruct o1 as [a|e| |]; inversion E; subst.
  - rewrite (ext_unique _ _ _ _ Xn X1) in Hf. destruct (F1 Hf) as (e & He). discriminate.
  - eauto.
  - rewrite (ext_unique _ _ _ _ Xn X1) in Hf. destruct (F1 Hf) as (e & He). discriminate.
  - rewrite (ext_unique _ _ _ _ Xn X1) in Hf. destruct (F1 Hf) as (e & He). discriminate.
Qed.

(* ================================================================== the hypotheses are satisfiable *)
(* ---- 1. tables; a close whose flush meets a device failure ---- *)
Example ex_tables_ok : tables_ok 0 (init_state (PositiveMap.empty block) 5 1 4 4 [0; 3]).
Proof.
  split; [apply handles_ok_init; reflexivity|]. unfold within_limits. cbn. repeat split; lia.
Qed.

(* a dirty file (handle 9) on a FAT16 volume; the very first device call fails *)
Definition exc_state : st :=
  set_s_files (set_s_vols (init_state wx_disk 0 1 4 4 [0]) [wx_vol]) [set_f_dirty wx_file true].

Example ex_close_after_fault :
  s_lock exc_state = false /\ NoDup (fids exc_state) /\ In 9 (fids exc_state) /\
  Forall file_rec_ok (s_files exc_state) /\
  fst (step (CloseFile 9) exc_state) = Err DeviceError /\
  s_files (snd (step (CloseFile 9) exc_state)) = [] /\
  fault_fired exc_state (snd (step (CloseFile 9) exc_state)).
Proof.
  split; [reflexivity|]. split; [repeat constructor; intros []|]. split; [left; reflexivity|].
  split.
  { constructor; [|constructor]. unfold file_rec_ok, ts_fat_ok. cbn.
    split; [right; discriminate|]. split; [lia|]. repeat split; discriminate. }
  split; [vm_compute; reflexivity|]. split; [vm_compute; reflexivity|].
  exists [DReadFail 290]. split; [vm_compute; reflexivity|]. exists 290. left. left. reflexivity.
Qed.

(* ---- 2. a lookup that fails on a transient fault and succeeds when retried ---- *)
Definition exr_state : st :=
  mk_st exd_disk zero_block None [exd_vol] [mk_dirinfo 7 0 2] [] 8 0 0 [0] [] false 1 1 1.

Example ex_retry_find :
  resolves exr_state 7 0 (mk_dirinfo 7 0 2) 0 exd_vol /\ vol_ok exd_vol /\ cache_ok exr_state /\
  sfn_of_str [65] = Some exd_name /\
  dir_blocks (s_disk exr_state) exd_vol 2 = Some [30; 31; 32; 33] /\
  fst (step (Find 7 [65]) exr_state) = Err DeviceError /\
  no_faults (snd (step (Find 7 [65]) exr_state)) /\
  exists e, fst (step (Find 7 [65]) (snd (step (Find 7 [65]) exr_state))) = Ok (REntry e) /\
            e_name e = exd_name.
Proof.
  split; [repeat split; reflexivity|]. split; [exact (proj1 dir_example)|].
  split; [intros i H; discriminate H|]. split; [reflexivity|]. split; [vm_compute; reflexivity|].
  split; [vm_compute; reflexivity|].
  split; [intros n H; vm_compute in H; destruct H as [<-|[]]; vm_compute; reflexivity|].
  eexists. split; vm_compute; reflexivity.
Qed.

(* ---- 3. Mkdir on a blank FAT16 volume; the write of the new directory entry fails ---- *)
Lemma nth_repeat_0 : forall n i, nth i (repeat 0 n) 0 = 0.
Proof. induction n as [|n IH]; intros [|i]; cbn; auto. Qed.
Lemma le16_zero_block off : le16 zero_block off = 0.
Proof. unfold le16, get8, zero_block. rewrite !nth_repeat_0. reflexivity. Qed.
Lemma disk_get_empty i : disk_get (PositiveMap.empty block) i = zero_block.
Proof. unfold disk_get. rewrite PositiveMap.gempty. reflexivity. Qed.

Definition exm_vol : vol := ex_vol false None.
Definition exm_state (faults : list N) : st :=
  mk_st (PositiveMap.empty block) zero_block None [exm_vol] [mk_dirinfo 7 0 CL_ROOT] [] 8 0 0 faults [] false 1 4 4.

Lemma exm_ent faults j : ent exm_vol (s_disk (exm_state faults)) j = 0.
Proof.
  unfold ent, fat_get, PrFat.fat_entry. cbn [s_disk exm_state]. rewrite disk_get_empty.
  change (v_fat32 exm_vol) with false. cbv iota. apply le16_zero_block.
Qed.

Example ex_mkdir_pre faults :
  resolves (exm_state faults) 7 0 (mk_dirinfo 7 0 CL_ROOT) 0 exm_vol /\
  fat_layout exm_vol 200 /\ PrCrash.fat_fits exm_vol /\
  (v_fat32 exm_vol = false -> v_fat_start exm_vol + 200 <= v_root_block exm_vol) /\
  mkdir_pre 0 exm_vol 200 CL_ROOT (exm_state faults).
Proof.
  split; [repeat split; reflexivity|]. split; [apply ex_layout|].
  split; [unfold PrCrash.fat_fits; cbn; lia|]. split; [intros _; cbn; lia|].
  constructor.
  - reflexivity.
  - intros c H. discriminate H.
  - intros i H. discriminate H.
  - intros k Hk. cbn [s_disk exm_state]. rewrite disk_get_empty. apply repeat_length.
  - intros j n Hj Hz. rewrite exm_ent in Hz. contradiction.
  - left. split; reflexivity.
Qed.

(* the 45th device call (the write of the directory block that holds the new entry) fails:
   the clean-up runs (it re-reads the FAT sector and frees the cluster) and the call returns
   the error; with a second failure inside the clean-up it still returns the error *)
Example ex_mkdir_faulted :
  fst (run_op (Mkdir 7 [68]) (exm_state [44])) = Err DeviceError /\
  fault_fired (exm_state [44]) (snd (run_op (Mkdir 7 [68]) (exm_state [44]))) /\
  fst (run_op (Mkdir 7 [68]) (exm_state [44; 46])) = Err DeviceError /\
  fst (run_op (Mkdir 7 [68]) (exm_state [])) = Ok RUnit.
Proof.
  split; [vm_compute; reflexivity|]. split; [|split; vm_compute; reflexivity].
  exists (s_trace (snd (run_op (Mkdir 7 [68]) (exm_state [44])))).
  split; [unfold ext; cbn [s_trace exm_state]; rewrite app_nil_r; reflexivity|].
  exists 2948. right. vm_compute. do 3 right. left. reflexivity.
Qed.

(* ---- 4. a faulted allocation: the write to the second FAT copy fails ---- *)
Definition exb_state : st :=
  mk_st (PositiveMap.empty block) zero_block None [ex_vol false None] [] [] 0 0 0 [2] [] false 1 1 1.

Example ex_bystander :
  fst (alloc_cluster 0 None false exb_state) = Err DeviceError /\
  map fst (rev (dwr (s_trace (snd (alloc_cluster 0 None false exb_state))))) = [2080] /\
  fst (alloc_cluster 0 None false (nf exb_state)) = Ok 2 /\
  map fst (rev (dwr (s_trace (snd (alloc_cluster 0 None false (nf exb_state)))))) = [2080; 2448].
Proof. repeat split; vm_compute; reflexivity. Qed.

(* ================================================================== assumptions *)
Print Assumptions C11_not_wedged.
Print Assumptions C11_close_file_after_fault.
Print Assumptions C11_close_dir_after_fault.
Print Assumptions C11_close_file_total.
Print Assumptions C11_close_file_whatever.
Print Assumptions C11_ro_call_state.
Print Assumptions C11_label_nonblank.
Print Assumptions C11_open_dir_cache.
Print Assumptions C11_open_dir_lookup.
Print Assumptions C11_retry_find.
Print Assumptions C11_retry_iter.
Print Assumptions alloc_range_any.
Print Assumptions free_fresh_total.
Print Assumptions make_dir_reports.
Print Assumptions C11_reports_mkdir.
Print Assumptions pfx_bystander.
Print Assumptions pfx_ok_is_fault_free.
Print Assumptions C11_bystander_blocks_update_fat.
Print Assumptions C11_bystander_blocks_alloc_cluster.
Print Assumptions C11_bystander_blocks_truncate.
Print Assumptions C11_bystander_blocks_free.
Print Assumptions C11_bystander_blocks_write_entry.
Print Assumptions C11_bystander_blocks_info_sector.
Print Assumptions C11_bystander_blocks_zero_cluster.
Print Assumptions C11_bystander_blocks_find.
Print Assumptions C11_bystander_blocks_delete_entry.
Print Assumptions C11_bystander_blocks_new_entry.
Print Assumptions ex_close_after_fault.
Print Assumptions ex_retry_find.
Print Assumptions ex_mkdir_pre.
Print Assumptions ex_mkdir_faulted.
Print Assumptions ex_bystander.
