(* PROOFS for C04: every block the library writes lies inside the partition of the volume being
   operated on and inside the region appropriate to its purpose; the master boot record, the
   boot sector, other partitions and blocks past the last cluster are never written.
   1 SPEC side: the layout of a FAT partition (part_layout) and the region classifiers, written
     from the FAT specification, independent of the model's code;
   2 the addressing functions of the spec side land in their regions;
   3 the write lists, classified function by function: update_fat, update_info_sector,
     alloc_cluster, truncate/free_cluster_chain (from PrOrder, PrAllocEffect, PrChain),
     write_entry_to_disk, flush_file, write_new_directory_entry and make_dir INCLUDING the growth
     of the parent directory (the walk is done here), write_loop and mgr_write for ANY outcome
     (the trace-level walk is done here; PrWrite's frame gives the changed-blocks form);
   4 corollary: nothing outside (v_lba, v_lba + total), nothing at or after the end of the data
     area; C04_writes_classified / C04_never_outside collect all operations in one statement;
   5 examples (FAT16, FAT32, a small FAT16 volume with a file write).
   The write list of a run s -> s' is PrOrder.tsteps s s' ws: the trace of s' is the trace of s
   plus new events whose successful writes are, oldest first, the block numbers ws (unique:
   tsteps_det).
   Everything is for ALL inputs; no bounds.
   Build order: after PrWrite (uses PrOrder, PrAllocEffect, PrChain, PrSeek, PrEntry, PrRw, PrWrite). *)
From Coq Require Import NArith ZArith List Bool Lia Arith ZifyClasses ZifyInst Zify FMapPositive.
From SdFs Require Import FsTypes FsBase FsFat FsMgr FsLemmas PrBase PrFat PrAlloc PrDir PrOrder
                         PrAllocEffect PrChain.
From SdFs Require PrSeek PrEntry PrRw PrWrite.   (* qualified use only *)
Import ListNotations.
Open Scope N_scope.
Local Arguments N.mul : simpl never.
Local Arguments N.add : simpl never.
Local Arguments N.sub : simpl never.
Local Arguments N.div : simpl never.
Local Arguments N.modulo : simpl never.
Local Arguments N.land : simpl never.
Local Arguments N.lor : simpl never.
Local Ltac Zify.zify_post_hook ::= Z.to_euclidean_division_equations.

(* ================================================================== 1. SPEC side: the partition *)
(* Block numbers relative to the first block of the partition (v_lba v), in this order:
     0                      boot sector
     [1, fat_start)         rest of the reserved region (FAT32: holds the information sector)
     [fat_start, +fsz)      FAT copy 0
     [second, +fsz)         FAT copy 1, if there is one, at or behind the end of copy 0
     [root_block, +rb)      FAT16 only: the fixed root directory region, rb = ceil(32 * entries / 512)
     [first_data, +N * spc) data area: cluster c, 2 <= c < N + 2, is the spc blocks at (c - 2) * spc
     [.., total)            slack
   and the partition [v_lba, v_lba + total) lies on a device with 32-bit block numbers. *)
Definition fat1_start (v : vol) : N :=
  match v_second_fat v with Some sf => sf | None => v_fat_start v end.
(* end (relative) of the last FAT copy *)
Definition fats_end (v : vol) (fsz : N) : N := fat1_start v + fsz.
Definition root_size (v : vol) : N := from_bytes (v_root_entries v * 32).
Definition data_end (v : vol) : N := v_first_data v + v_clusters v * v_spc v.

Record part_layout (v : vol) (total fsz : N) : Prop := mk_part_layout {
  pl_dev : v_lba v + total <= 4294967296;
  pl_reserved : 1 <= v_fat_start v;
  pl_spc : 1 <= v_spc v;
  (* cluster numbers stay below the bad-cluster mark of the FAT type *)
  pl_count : v_clusters v + 2 <= (if v_fat32 v then 268435447 else 65527);
  (* a FAT copy has room for the entries 0 .. N + 1 *)
  pl_cover : (v_clusters v + 2) * fat_width v <= fsz * 512;
  pl_fat1 : forall sf, v_second_fat v = Some sf -> v_fat_start v + fsz <= sf;
  pl_root : if v_fat32 v then fats_end v fsz <= v_first_data v
            else fats_end v fsz <= v_root_block v /\ v_root_block v + root_size v <= v_first_data v;
  pl_data : data_end v <= total;
  pl_info : v_fat32 v = true -> v_lba v < v_info v /\ v_info v < v_lba v + v_fat_start v
}.

(* ---- region classifiers, on absolute block numbers ---- *)
Definition in_fat0 (v : vol) (fsz i : N) : Prop :=
  v_lba v + v_fat_start v <= i /\ i < v_lba v + v_fat_start v + fsz.
Definition in_fat1 (v : vol) (fsz i : N) : Prop :=
  exists sf, v_second_fat v = Some sf /\ v_lba v + sf <= i /\ i < v_lba v + sf + fsz.
Definition in_fat (v : vol) (fsz i : N) : Prop := in_fat0 v fsz i \/ in_fat1 v fsz i.
Definition in_root16 (v : vol) (i : N) : Prop :=
  v_fat32 v = false /\ v_lba v + v_root_block v <= i /\ i < v_lba v + v_root_block v + root_size v.
Definition in_data (v : vol) (i : N) : Prop :=
  v_lba v + v_first_data v <= i /\ i < v_lba v + data_end v.
Definition is_info (v : vol) (i : N) : Prop := v_fat32 v = true /\ i = v_info v.
(* strictly above the boot sector, below the end of the partition *)
Definition in_volume (v : vol) (total i : N) : Prop := v_lba v < i /\ i < v_lba v + total.
(* a block of some directory of the volume *)
Definition in_dir (v : vol) (i : N) : Prop := in_data v i \/ in_root16 v i.
(* any of the regions the library may write *)
Definition in_region (v : vol) (fsz i : N) : Prop :=
  in_fat v fsz i \/ in_data v i \/ in_root16 v i \/ is_info v i.

(* boolean versions, for the examples and for run-time oracles *)
Definition in_fatb (v : vol) (fsz i : N) : bool :=
  ((v_lba v + v_fat_start v <=? i) && (i <? v_lba v + v_fat_start v + fsz))
  || match v_second_fat v with
     | Some sf => (v_lba v + sf <=? i) && (i <? v_lba v + sf + fsz)
     | None => false end.
Definition in_root16b (v : vol) (i : N) : bool :=
  negb (v_fat32 v) && (v_lba v + v_root_block v <=? i) && (i <? v_lba v + v_root_block v + root_size v).
Definition in_datab (v : vol) (i : N) : bool :=
  (v_lba v + v_first_data v <=? i) && (i <? v_lba v + data_end v).
Definition is_infob (v : vol) (i : N) : bool := v_fat32 v && (i =? v_info v).

Lemma in_fatb_ok v fsz i : in_fatb v fsz i = true <-> in_fat v fsz i.
Proof.
  unfold in_fatb, in_fat, in_fat0, in_fat1. rewrite orb_true_iff, andb_true_iff, N.leb_le, N.ltb_lt.
  split; (intros [H|H]; [left; exact H|right]).
  - destruct (v_second_fat v) as [sf|]; [|discriminate]. exists sf.
    apply andb_true_iff in H. rewrite N.leb_le, N.ltb_lt in H. tauto.
  - destruct H as (sf & -> & H). apply andb_true_iff. rewrite N.leb_le, N.ltb_lt. exact H.
Qed.
Lemma in_root16b_ok v i : in_root16b v i = true <-> in_root16 v i.
Proof.
  unfold in_root16b, in_root16. rewrite !andb_true_iff, negb_true_iff, N.leb_le, N.ltb_lt. tauto.
Qed.
Lemma in_datab_ok v i : in_datab v i = true <-> in_data v i.
Proof. unfold in_datab, in_data. rewrite andb_true_iff, N.leb_le, N.ltb_lt. tauto. Qed.
Lemma is_infob_ok v i : is_infob v i = true <-> is_info v i.
Proof. unfold is_infob, is_info. rewrite andb_true_iff, N.eqb_eq. tauto. Qed.

(* the classifiers look at the geometry only, not at the free-space bookkeeping *)
Lemma same_geom_class v v' fsz i : same_geom v v' ->
  (in_fat v' fsz i <-> in_fat v fsz i) /\ (in_data v' i <-> in_data v i) /\
  (in_root16 v' i <-> in_root16 v i) /\ (is_info v' i <-> is_info v i).
Proof. intros (nf & fc & ->). repeat apply conj; apply iff_refl. Qed.

Lemma part_layout_geom v v' total fsz : same_geom v v' -> part_layout v total fsz -> part_layout v' total fsz.
Proof. intros (nf & fc & ->) [A1 A2 A3 A4 A5 A6 A7 A8 A9]. constructor; assumption. Qed.

(* ---- the order of the regions, hence: pairwise disjoint, all inside the partition ---- *)
Lemma layout_order v total fsz : part_layout v total fsz ->
  1 <= v_fat_start v /\ v_fat_start v + fsz <= fats_end v fsz /\
  (forall sf, v_second_fat v = Some sf -> v_fat_start v + fsz <= sf /\ sf + fsz = fats_end v fsz) /\
  fats_end v fsz <= v_first_data v /\
  (v_fat32 v = false -> fats_end v fsz <= v_root_block v /\ v_root_block v + root_size v <= v_first_data v) /\
  data_end v <= total /\ v_lba v + total <= 4294967296 /\ 1 <= fsz.
Proof.
  intros [Hdev Hres Hspc Hcnt Hcov Hf1 Hroot Hdata Hinfo].
  assert (Hfsz : 1 <= fsz).
  { destruct (fat_width_cases v) as [E|E]; rewrite E in Hcov; lia. }
  assert (Hsf : forall sf, v_second_fat v = Some sf -> v_fat_start v + fsz <= sf /\ sf + fsz = fats_end v fsz).
  { intros sf E. split; [exact (Hf1 sf E)|]. unfold fats_end, fat1_start. rewrite E. reflexivity. }
  assert (Hfe : v_fat_start v + fsz <= fats_end v fsz).
  { unfold fats_end, fat1_start. destruct (v_second_fat v) as [sf|] eqn:E; [specialize (Hf1 sf eq_refl)|]; lia. }
  split; [exact Hres|]. split; [exact Hfe|]. split; [exact Hsf|].
  destruct (v_fat32 v).
  - split; [exact Hroot|]. split; [discriminate|]. auto.
  - split; [lia|]. split; [intros _; exact Hroot|]. auto.
Qed.

(* the regions are pairwise disjoint *)
Theorem C04_regions_disjoint v total fsz i : part_layout v total fsz ->
  (in_fat0 v fsz i -> ~ in_fat1 v fsz i) /\
  (in_fat v fsz i -> ~ in_root16 v i /\ ~ in_data v i /\ ~ is_info v i) /\
  (in_root16 v i -> ~ in_data v i /\ ~ is_info v i) /\
  (in_data v i -> ~ is_info v i).
Proof.
  intros L. pose proof (layout_order v total fsz L) as (O1 & O2 & O3 & O4 & O5 & O6 & O7 & O8).
  pose proof (pl_info v total fsz L) as Hinfo.
  unfold in_fat, in_fat0, in_fat1, in_root16, in_data, is_info, data_end in *.
  remember (v_clusters v * v_spc v) as X.
  split; [|split; [|split]].
  - intros F0 (sf & E & F1). specialize (O3 sf E). lia.
  - intros [F0|(sf & E & F1)]; [|specialize (O3 sf E)];
      (split; [intros (H16 & R); specialize (O5 H16); lia|]);
      (split; [intros D; lia|intros (H32 & ->); specialize (Hinfo H32); lia]).
  - intros (H16 & R). specialize (O5 H16). split; [intros D; lia|intros (H32 & _); congruence].
  - intros D (H32 & ->). specialize (Hinfo H32). lia.
Qed.

(* every region lies strictly above the boot sector, inside the partition, and below the end
   of the data area *)
Theorem C04_regions_inside v total fsz i : part_layout v total fsz -> in_region v fsz i ->
  in_volume v total i /\ i < v_lba v + data_end v.
Proof.
  intros L. pose proof (layout_order v total fsz L) as (O1 & O2 & O3 & O4 & O5 & O6 & O7 & O8).
  pose proof (pl_info v total fsz L) as Hinfo.
  unfold in_region, in_fat, in_fat0, in_fat1, in_root16, in_data, is_info, in_volume, data_end in *.
  remember (v_clusters v * v_spc v) as X.
  intros [[F0|(sf & E & F1)]|[D|[(H16 & R)|(H32 & ->)]]].
  - lia.
  - specialize (O3 sf E). lia.
  - lia.
  - specialize (O5 H16). lia.
  - specialize (Hinfo H32). lia.
Qed.

(* the boot sector, block 0 of the device (the master boot record when the volume is a
   partition; v_lba itself otherwise) and everything outside the partition are in no region *)
Corollary C04_regions_not_outside v total fsz i : part_layout v total fsz -> in_region v fsz i ->
  i <> 0 /\ i <> v_lba v /\ ~ i < v_lba v /\ ~ v_lba v + total <= i /\ ~ v_lba v + data_end v <= i.
Proof. intros L H. destruct (C04_regions_inside v total fsz i L H) as ((A & B) & C). lia. Qed.

(* ---- the partition layout gives the arithmetic side conditions used by the other proofs ----
   (the model, like the Rust code, computes `first + count` of a block range with overflow
   checks, so the last block of the device must be below 2^32 - 1 for these) *)
Lemma part_layout_vol_ok v total fsz : part_layout v total fsz -> v_lba v + total < U32 -> vol_ok v.
Proof.
  intros L Hdev. pose proof (layout_order v total fsz L) as (O1 & O2 & O3 & O4 & O5 & O6 & O7 & O8).
  pose proof (pl_count v total fsz L) as Hcnt. pose proof (pl_spc v total fsz L) as Hspc.
  assert (HX : v_clusters v <= v_clusters v * v_spc v).
  { rewrite <- (N.mul_1_r (v_clusters v)) at 1. apply N.mul_le_mono_l. exact Hspc. }
  unfold data_end in *. remember (v_clusters v * v_spc v) as X.
  constructor.
  - destruct (v_fat32 v); unfold U32; lia.
  - unfold U32 in *. lia.
  - unfold data_geom_ok. rewrite <- HeqX. unfold U32 in *. lia.
  - intros H16. specialize (O5 H16). unfold root_size in O5. unfold U32 in *. lia.
Qed.

Theorem part_layout_fat_layout v total fsz :
  part_layout v total fsz -> v_lba v + total < U32 -> fat_layout v fsz.
Proof.
  intros L Hdev. pose proof (layout_order v total fsz L) as (O1 & O2 & O3 & O4 & O5 & O6 & O7 & O8).
  pose proof (pl_cover v total fsz L) as Hcov.
  unfold data_end in *. remember (v_clusters v * v_spc v) as X.
  constructor.
  - exact (part_layout_vol_ok v total fsz L Hdev).
  - exact (pl_fat1 v total fsz L).
  - destruct (fat_width_cases v) as [E|E]; rewrite E in *; lia.
  - intros sf E. specialize (O3 sf E). unfold U32 in *. lia.
  - lia.
  - intros sf E. specialize (O3 sf E). lia.
Qed.

Lemma part_layout_fit v total fsz : part_layout v total fsz -> v_clusters v + 2 <= fat_bad v.
Proof. intros L. exact (pl_count v total fsz L). Qed.

(* ================================================================== 2. addressing lands in its region *)
(* the sector holding FAT entry c, in either copy *)
Lemma fat_index_fits v total fsz c : part_layout v total fsz -> c < v_clusters v + 2 ->
  (c * fat_width v) / 512 < fsz.
Proof.
  intros L Hc. pose proof (pl_cover v total fsz L) as Hcov.
  destruct (fat_width_cases v) as [E|E]; rewrite E in *; lia.
Qed.

Theorem C04_fat_sector_in_fat v total fsz c : part_layout v total fsz -> c < v_clusters v + 2 ->
  in_fat0 v fsz (fat_sector v 0 c) /\ in_fat v fsz (fat_sector v 1 c).
Proof.
  intros L Hc. pose proof (fat_index_fits v total fsz c L Hc) as Hq.
  unfold fat_sector, fat_copy_sector, fat_copy_start.
  change (0 =? 0) with true. change (1 =? 0) with false. cbv iota.
  remember ((c * fat_width v) / 512) as q.
  assert (H0 : in_fat0 v fsz (v_lba v + (v_fat_start v + q))) by (unfold in_fat0; lia).
  split; [exact H0|].
  destruct (v_second_fat v) as [sf|] eqn:E.
  - right. exists sf. split; [exact E|]. lia.
  - left. exact H0.
Qed.

(* the write list of update_fat on entry c, in both formulations used by the other files *)
Lemma fat_sectors_fat_writes v c : fat_sectors v c = fat_writes v c.
Proof.
  unfold fat_sectors, fat_writes, fat_sector, fat_copy_sector, fat_copy_start, fat_width.
  change (0 =? 0) with true. change (1 =? 0) with false. cbv iota.
  destruct (v_second_fat v); reflexivity.
Qed.

Lemma fat_writes_in_fat v total fsz c : part_layout v total fsz -> c < v_clusters v + 2 ->
  Forall (in_fat v fsz) (fat_writes v c).
Proof.
  intros L Hc. destruct (C04_fat_sector_in_fat v total fsz c L Hc) as (H0 & H1).
  unfold fat_writes. destruct (v_second_fat v).
  - apply Forall_cons; [left; exact H0|]. apply Forall_cons; [exact H1|constructor].
  - apply Forall_cons; [left; exact H0|constructor].
Qed.

(* the blocks of a data cluster *)
Lemma cluster_span v c : 2 <= c -> c < v_clusters v + 2 ->
  (c - 2) * v_spc v + v_spc v <= v_clusters v * v_spc v.
Proof.
  intros H2 HN.
  assert (E : (c - 2 + 1) * v_spc v = (c - 2) * v_spc v + v_spc v)
    by (rewrite N.mul_add_distr_r, N.mul_1_l; reflexivity).
  rewrite <- E. apply N.mul_le_mono_r. lia.
Qed.

Theorem C04_cluster_block_in_data v c : 2 <= c -> c < v_clusters v + 2 ->
  Forall (in_data v) (cluster_blocks v c).
Proof.
  intros H2 HN. pose proof (cluster_span v c H2 HN) as Hs.
  apply Forall_forall. intros i Hi. unfold cluster_blocks in Hi.
  apply PrOrder.blocks_from_In in Hi.
  unfold cluster_first_block in Hi. unfold in_data, data_end.
  remember ((c - 2) * v_spc v) as X. remember (v_clusters v * v_spc v) as Y. lia.
Qed.

(* the same through the model's own address computation *)
Corollary C04_cluster_to_block_in_data v c s blk s' : 2 <= c -> c < v_clusters v + 2 -> c <> CL_ROOT ->
  cluster_to_block v c s = (Ok blk, s') ->
  blk = cluster_first_block v c /\ forall k, k < v_spc v -> in_data v (blk + k).
Proof.
  intros H2 HN Hr H. pose proof (cluster_span v c H2 HN) as Hs.
  assert (E : blk = cluster_first_block v c).
  { unfold cluster_to_block in H. apply N.eqb_neq in Hr. rewrite Hr in H. unfold cluster_first_block.
    destruct (v_fat32 v).
    - inv_bind H as a s1 Ha. unfold sub32 in Ha. destruct (2 <=? c); inversion Ha; subst a s1.
      inv_bind H as fb s1 Hm. apply mul32_inv in Hm. destruct Hm as (-> & -> & _).
      inv_bind H as x s1 Hx. apply add32_inv in Hx. destruct Hx as (-> & -> & _).
      apply add32_inv in H. destruct H as (_ & -> & _). reflexivity.
    - inv_bind H as a s1 Ha. unfold sub32 in Ha. destruct (2 <=? c); inversion Ha; subst a s1.
      inv_bind H as fb s1 Hm. apply mul32_inv in Hm. destruct Hm as (-> & -> & _).
      inv_bind H as x s1 Hx. apply add32_inv in Hx. destruct Hx as (-> & -> & _).
      apply add32_inv in H. destruct H as (_ & -> & _). lia. }
  split; [exact E|]. intros k Hk. subst blk. unfold in_data, data_end, cluster_first_block.
  remember ((c - 2) * v_spc v) as X. remember (v_clusters v * v_spc v) as Y. lia.
Qed.

(* the fixed root directory region of a FAT16 volume *)
Theorem C04_root_block_in_root v : v_fat32 v = false -> Forall (in_root16 v) (root16_blocks v).
Proof.
  intros H16. apply Forall_forall. intros i Hi. unfold root16_blocks in Hi.
  apply PrOrder.blocks_from_In in Hi. unfold in_root16, root_size. split; [exact H16|]. lia.
Qed.

(* the blocks of a directory of the volume, as PrDir.dir_blocks lists them *)
Lemma chain_blocks_in_data v ch : Forall (fun x => 2 <= x /\ x < v_clusters v + 2) ch ->
  Forall (in_data v) (flat_map (cluster_blocks v) ch).
Proof.
  induction 1 as [|c ch (H1 & H2) _ IH]; [constructor|]. cbn [flat_map].
  apply Forall_app. split; [exact (C04_cluster_block_in_data v c H1 H2)|exact IH].
Qed.

Theorem C04_dir_blocks_in_dir d v dc bl : dir_blocks d v dc = Some bl -> Forall (in_dir v) bl.
Proof.
  unfold dir_blocks. destruct (negb (v_fat32 v) && (dc =? CL_ROOT)) eqn:E.
  - apply andb_true_iff in E. destruct E as [E _]. apply negb_true_iff in E.
    intros H. inversion H; subst bl.
    eapply Forall_impl; [|exact (C04_root_block_in_root v E)]. intros i Hi. right. exact Hi.
  - destruct (chain_of d v (dir_first_cluster v dc) (walk_fuel v)) as [ch|] eqn:Ech; [|discriminate].
    intros H. inversion H; subst bl.
    eapply Forall_impl; [|exact (chain_blocks_in_data v ch (chain_of_range _ _ _ _ _ Ech))].
    intros i Hi. left. exact Hi.
Qed.

(* ================================================================== 3. the write lists, classified *)
(* the two formulations of "block numbers of the successful writes, oldest first" agree *)
Lemma dwrites_writes_of new : rev (dwrites new) = writes_of new.
Proof.
  induction new as [|x new IH]; [reflexivity|].
  change (x :: new) with ([x] ++ new). rewrite writes_of_app, <- IH.
  destruct x; cbn [app dwrites dwr map fst rev writes_of wr1 flat_map]; rewrite ?app_nil_r; reflexivity.
Qed.

Lemma tsteps_of_dwrites s s' new ws :
  s_trace s' = new ++ s_trace s -> rev (dwrites new) = ws -> tsteps s s' ws.
Proof. intros T W. exists new. split; [exact T|]. rewrite <- dwrites_writes_of. exact W. Qed.

(* ---- 3a. update_fat ---- *)
Theorem C04_update_fat vi v total fsz c x s s' :
  part_layout v total fsz -> good s -> nth_error (s_vols s) vi = Some v -> c < v_clusters v + 2 ->
  update_fat vi c x s = (Ok tt, s') ->
  tsteps s s' (fat_writes v c) /\ Forall (in_fat v fsz) (fat_writes v c).
Proof.
  intros L Hg Hv Hc H. destruct (update_fat_steps vi v c x s s' Hg Hv H) as ((T & _) & _).
  rewrite fat_sectors_fat_writes in T. split; [exact T|exact (fat_writes_in_fat v total fsz c L Hc)].
Qed.

(* ---- 3b. update_info_sector ---- *)
(* computations that change nothing but the cached block *)
Definition cache_only (k : M unit) : Prop := forall t u t', k t = (Ok u, t') -> exists b, t' = set_s_cache t b.

Lemma cache_only_modify f : cache_only (cache_modify f).
Proof. intros t u t' H. unfold cache_modify, modify in H. inversion H. eexists. reflexivity. Qed.
Lemma cache_only_ret : cache_only (ret tt).
Proof. intros t u t' H. inversion H; subst. exists (s_cache t'). destruct t'. reflexivity. Qed.
Lemma cache_only_seq k1 k2 : cache_only k1 -> cache_only k2 -> cache_only (k1 ;;; k2).
Proof.
  intros H1 H2 t u t' H. inv_bind H as u1 t1 E1. destruct (H1 _ _ _ E1) as (b1 & ->).
  destruct (H2 _ _ _ H) as (b2 & ->). exists b2. reflexivity.
Qed.

(* read block i, change the cached copy, write it back: one write, to i *)
Lemma rmw_steps i (k : M unit) s s' : good s -> cache_only k ->
  (_ <- cache_read i ;; k ;;; write_back) s = (Ok tt, s') -> steps s s' [i] /\ same_mgr s s'.
Proof.
  intros Hg Hk H. inv_bind H as b s1 Hr.
  destruct (PrOrder.ro_cache_read i _ _ _ Hg Hr) as (S1 & M1 & _).
  destruct Hg as [Hn Hc].
  destruct (cache_read_spec i s Hn Hc) as (s1' & E & _ & T & _).
  rewrite E in Hr. inversion Hr; subst s1' b. clear Hr E.
  inv_bind H as u s2 Hm. destruct (Hk _ _ _ Hm) as (b2 & ->).
  assert (T2 : s_tag (set_s_cache s1 b2) = Some i) by exact T.
  assert (N2 : no_faults (set_s_cache s1 b2))
    by (apply (no_faults_step s1); [reflexivity|cbn; lia|exact (proj1 (proj2 S1))]).
  destruct (write_back_steps i _ _ _ T2 N2 H) as (_ & [S3 G3] & M3 & _).
  split.
  - split; [|exact G3]. apply (tsteps_trans _ _ _ [] _ (proj1 S1)).
    apply (tsteps_trans _ (set_s_cache s1 b2) _ [] _); [apply tsteps_same_trace; reflexivity|exact S3].
  - eapply same_mgr_trans; [exact M1|]. eapply same_mgr_trans; [|exact M3].
    unfold same_mgr. cbn. repeat split; reflexivity.
Qed.

Lemma steps_refl s : good s -> steps s s [].
Proof. intros Hg. split; [apply tsteps_refl|exact Hg]. Qed.

(* update_info_sector writes nothing, or - FAT32 only - the information sector and nothing else *)
Theorem update_info_sector_steps vi v s s' : good s -> nth_error (s_vols s) vi = Some v ->
  update_info_sector vi s = (Ok tt, s') ->
  exists ws, steps s s' ws /\ same_mgr s s' /\ (ws = [] \/ (ws = [v_info v] /\ v_fat32 v = true)).
Proof.
  intros Hg Hv H. unfold update_info_sector in H. inv_bind H as v0 s0 Hgv.
  apply get_vol_inv in Hgv. destruct Hgv as (-> & Hv'). rewrite Hv in Hv'. inversion Hv'; subst v0. clear Hv'.
  destruct (v_fat32 v) eqn:H32; cbn [negb] in H.
  2:{ inversion H; subst. exists []. split; [apply steps_refl; exact Hg|]. split; [apply same_mgr_refl|left; reflexivity]. }
  assert (Hbody : forall fc nf : option N,
    (_ <- cache_read (v_info v);;
     (match fc with Some c => cache_modify (fun b => set_bytes b 488 (bytes32 c)) | None => ret tt end);;;
     (match nf with Some c => cache_modify (fun b => set_bytes b 492 (bytes32 c)) | None => ret tt end);;;
     write_back) s = (Ok tt, s') ->
    exists ws, steps s s' ws /\ same_mgr s s' /\ (ws = [] \/ (ws = [v_info v] /\ true = true))).
  { intros fc nf Hb.
    assert (Hshape : (_ <- cache_read (v_info v);;
       ((match fc with Some c => cache_modify (fun b => set_bytes b 488 (bytes32 c)) | None => ret tt end);;;
        (match nf with Some c => cache_modify (fun b => set_bytes b 492 (bytes32 c)) | None => ret tt end));;;
       write_back) s = (Ok tt, s')).
    { rewrite <- Hb. unfold bind. destruct (cache_read (v_info v) s) as [[a|e| |] s1]; try reflexivity.
      destruct (match fc with Some c => cache_modify (fun b => set_bytes b 488 (bytes32 c)) | None => ret tt end s1)
        as [[a2|e2| |] s2]; reflexivity. }
    assert (Hco : cache_only
       ((match fc with Some c => cache_modify (fun b => set_bytes b 488 (bytes32 c)) | None => ret tt end);;;
        (match nf with Some c => cache_modify (fun b => set_bytes b 492 (bytes32 c)) | None => ret tt end))).
    { apply cache_only_seq; [destruct fc|destruct nf]; first [apply cache_only_modify|apply cache_only_ret]. }
    destruct (rmw_steps (v_info v) _ s s' Hg Hco Hshape) as (S & M).
    exists [v_info v]. split; [exact S|]. split; [exact M|right; split; reflexivity]. }
  destruct (v_free v) as [fc|] eqn:Ef; destruct (v_next_free v) as [nf|] eqn:En.
  - exact (Hbody (Some fc) (Some nf) H).
  - exact (Hbody (Some fc) None H).
  - exact (Hbody None (Some nf) H).
  - inversion H; subst. exists []. split; [apply steps_refl; exact Hg|]. split; [apply same_mgr_refl|left; reflexivity].
Qed.

Theorem C04_update_info_sector vi v total fsz s s' :
  part_layout v total fsz -> good s -> nth_error (s_vols s) vi = Some v ->
  update_info_sector vi s = (Ok tt, s') ->
  exists ws, tsteps s s' ws /\ Forall (is_info v) ws.
Proof.
  intros L Hg Hv H. destruct (update_info_sector_steps vi v s s' Hg Hv H) as (ws & (T & _) & _ & Hws).
  exists ws. split; [exact T|]. destruct Hws as [->|(-> & H32)]; [constructor|].
  apply Forall_cons; [split; [exact H32|reflexivity]|constructor].
Qed.

(* ---- 3c. alloc_cluster ---- *)
Definition alloc_ws (v : vol) (prev : option N) (zero : bool) (c : N) : list N :=
  fat_writes v c ++ (if zero then cluster_blocks v c else [])
  ++ match prev with Some p => fat_writes v p | None => [] end.

Lemma alloc_ws_classified v total fsz prev zero c : part_layout v total fsz ->
  2 <= c -> c < v_clusters v + 2 -> (forall p, prev = Some p -> p < v_clusters v + 2) ->
  Forall (fun i => in_fat v fsz i \/ in_data v i) (alloc_ws v prev zero c).
Proof.
  intros L R1 R2 Hprev. unfold alloc_ws. apply Forall_app. split; [|apply Forall_app; split].
  - eapply Forall_impl; [|exact (fat_writes_in_fat v total fsz c L R2)]. intros i Hi. left. exact Hi.
  - destruct zero; [|constructor].
    eapply Forall_impl; [|exact (C04_cluster_block_in_data v c R1 R2)]. intros i Hi. right. exact Hi.
  - destruct prev as [p|]; [|constructor].
    eapply Forall_impl; [|exact (fat_writes_in_fat v total fsz p L (Hprev p eq_refl))]. intros i Hi. left. exact Hi.
Qed.

(* the new cluster is a data cluster of the volume; the writes are: its FAT sector(s), its own
   blocks when zeroing, the FAT sector(s) of the previous cluster *)
Theorem alloc_cluster_ws vi v prev zero s c s' :
  vol_ok v -> hint_ok v -> good s -> nth_error (s_vols s) vi = Some v ->
  alloc_cluster vi prev zero s = (Ok c, s') ->
  2 <= c /\ c < v_clusters v + 2 /\ steps s s' (alloc_ws v prev zero c) /\
  exists v', nth_error (s_vols s') vi = Some v' /\ same_geom v v'.
Proof.
  intros Hok Hh Hg Hv H.
  destruct (alloc_range vi v prev zero s c s' Hv Hok Hh (proj1 Hg) (proj2 Hg) H) as (R1 & R2 & _).
  destruct (alloc_cluster_steps vi v prev zero s c s' Hg Hv H) as (zb & Hzb & S & Hv').
  split; [exact R1|]. split; [exact R2|]. split; [|exact Hv'].
  unfold alloc_ws. rewrite <- fat_sectors_fat_writes.
  replace (if zero then cluster_blocks v c else []) with zb.
  - destruct prev as [p|]; [rewrite <- fat_sectors_fat_writes|]; exact S.
  - destruct zero; [|exact Hzb]. destruct Hzb as (first & Hf & ->).
    destruct (cluster_block_ok v c s Hok R1 R2) as (Hcb & _). rewrite Hf in Hcb.
    inversion Hcb; subst first. reflexivity.
Qed.

Theorem C04_alloc_cluster vi v total fsz prev zero s c s' :
  part_layout v total fsz -> vol_ok v -> hint_ok v -> good s -> nth_error (s_vols s) vi = Some v ->
  (forall p, prev = Some p -> p < v_clusters v + 2) ->
  alloc_cluster vi prev zero s = (Ok c, s') ->
  tsteps s s' (alloc_ws v prev zero c) /\
  Forall (fun i => in_fat v fsz i \/ in_data v i) (alloc_ws v prev zero c).
Proof.
  intros L Hok Hh Hg Hv Hprev H.
  destruct (alloc_cluster_ws vi v prev zero s c s' Hok Hh Hg Hv H) as (R1 & R2 & (T & _) & _).
  split; [exact T|exact (alloc_ws_classified v total fsz prev zero c L R1 R2 Hprev)].
Qed.

(* ---- 3d. truncate_cluster_chain / free_cluster_chain ---- *)
Lemma chain_fat_writes v total fsz l : part_layout v total fsz ->
  Forall (fun x => 2 <= x /\ x < v_clusters v + 2) l -> Forall (in_fat v fsz) (flat_map (fat_writes v) l).
Proof.
  intros L. induction 1 as [|c l (_ & H2) _ IH]; [constructor|]. cbn [flat_map].
  apply Forall_app. split; [exact (fat_writes_in_fat v total fsz c L H2)|exact IH].
Qed.

Definition trunc_ws (v : vol) (c : N) (rest : list N) : list N :=
  match rest with [] => [] | _ => fat_writes v c ++ flat_map (fat_writes v) rest end.

Lemma trunc_ws_in_fat d v total fsz c rest fuel : part_layout v total fsz ->
  chain_of d v c fuel = Some (c :: rest) -> Forall (in_fat v fsz) (trunc_ws v c rest) /\ Forall (in_fat v fsz) (fat_writes v c).
Proof.
  intros L Hch. pose proof (chain_of_range _ _ _ _ _ Hch) as R. inversion R as [|x l (_ & Hc) Hrest]; subst x l.
  pose proof (fat_writes_in_fat v total fsz c L Hc) as Fc.
  split; [|exact Fc]. unfold trunc_ws. destruct rest as [|n tl]; [constructor|].
  apply Forall_app. split; [exact Fc|exact (chain_fat_writes v total fsz _ L Hrest)].
Qed.

Theorem C04_truncate_cluster_chain vi v total fsz s c rest fuel s' :
  part_layout v total fsz -> fat_layout v fsz -> st_ok vi v fsz s ->
  chain_of (s_disk s) v c fuel = Some (c :: rest) ->
  truncate_cluster_chain vi c s = (Ok tt, s') ->
  tsteps s s' (trunc_ws v c rest) /\ Forall (in_fat v fsz) (trunc_ws v c rest).
Proof.
  intros L FL Hst Hch H.
  destruct (truncate_cluster_chain_write_order vi v fsz s c rest fuel s' FL Hst Hch H) as (new & T & W).
  split; [exact (tsteps_of_dwrites s s' new _ T W)|exact (proj1 (trunc_ws_in_fat _ v total fsz c rest fuel L Hch))].
Qed.

Theorem C04_free_cluster_chain vi v total fsz s c rest fuel s' :
  part_layout v total fsz -> fat_layout v fsz -> st_ok vi v fsz s ->
  chain_of (s_disk s) v c fuel = Some (c :: rest) ->
  free_cluster_chain vi c s = (Ok tt, s') ->
  tsteps s s' (trunc_ws v c rest ++ fat_writes v c) /\
  Forall (in_fat v fsz) (trunc_ws v c rest ++ fat_writes v c).
Proof.
  intros L FL Hst Hch H.
  destruct (free_cluster_chain_write_order vi v fsz s c rest fuel s' FL Hst Hch H) as (new & T & W).
  split; [exact (tsteps_of_dwrites s s' new _ T W)|].
  destruct (trunc_ws_in_fat _ v total fsz c rest fuel L Hch) as (F1 & F2).
  apply Forall_app. split; assumption.
Qed.

(* clusters below 2 name no chain: nothing happens at all *)
Lemma C04_truncate_free_reserved vi c s : c < 2 ->
  truncate_cluster_chain vi c s = (Ok tt, s) /\ free_cluster_chain vi c s = (Ok tt, s).
Proof. intros H. split; [apply truncate_reserved|apply free_reserved]; exact H. Qed.

(* ---- 3e. write_entry_to_disk / flush_file ---- *)
(* one write, to the block recorded in the entry *)
Theorem write_entry_to_disk_steps v e s s' : good s -> write_entry_to_disk v e s = (Ok tt, s') ->
  steps s s' [e_block e] /\ same_mgr s s'.
Proof.
  intros Hg H. unfold write_entry_to_disk in H. inv_bind H as b s1 Hr.
  destruct (PrOrder.ro_cache_read (e_block e) _ _ _ Hg Hr) as (S1 & M1 & _).
  destruct Hg as [Hn Hc].
  destruct (cache_read_spec (e_block e) s Hn Hc) as (s1' & E & _ & T & _).
  rewrite E in Hr. inversion Hr; subst s1' b. clear Hr E.
  inv_bind H as bytes s2 Hser. pose proof (keeps_serialize _ _ _ _ _ Hser) as ->.
  destruct (512 <? e_offset e + 32); [discriminate H|].
  inv_bind H as u s3 Hcm. unfold cache_modify, modify in Hcm. inversion Hcm; subst u s3. clear Hcm.
  match type of H with write_back ?st = _ => set (s3 := st) in * end.
  assert (T3 : s_tag s3 = Some (e_block e)) by exact T.
  assert (N3 : no_faults s3) by (apply (no_faults_step s1); [reflexivity|cbn; lia|exact (proj1 (proj2 S1))]).
  destruct (write_back_steps (e_block e) _ _ _ T3 N3 H) as (_ & [S4 G4] & M4 & _).
  split.
  - split; [|exact G4]. apply (tsteps_trans _ _ _ [] _ (proj1 S1)).
    apply (tsteps_trans _ s3 _ [] _); [apply tsteps_same_trace; reflexivity|exact S4].
  - eapply same_mgr_trans; [exact M1|]. eapply same_mgr_trans; [|exact M4].
    unfold same_mgr. cbn. repeat split; reflexivity.
Qed.

(* IF the block recorded in the entry is a directory block of the volume THEN the write is
   inside the volume, in the data area or the FAT16 root region *)
Theorem C04_write_entry_to_disk v total fsz e s s' :
  part_layout v total fsz -> good s -> in_dir v (e_block e) ->
  write_entry_to_disk v e s = (Ok tt, s') ->
  tsteps s s' [e_block e] /\ Forall (in_dir v) [e_block e] /\ Forall (in_volume v total) [e_block e].
Proof.
  intros L Hg Hd H. destruct (write_entry_to_disk_steps v e s s' Hg H) as ((T & _) & _).
  split; [exact T|]. split; [apply Forall_cons; [exact Hd|constructor]|]. apply Forall_cons; [|constructor].
  apply (C04_regions_inside v total fsz _ L). destruct Hd as [Hd|Hd]; [right; left; exact Hd|right; right; left; exact Hd].
Qed.

(* flush_file: nothing (clean file), or - dirty - the information-sector step followed by the
   one write of the file's directory entry; stated for ANY successful run *)
Theorem flush_file_steps h s s' : good s -> flush_file h s = (Ok tt, s') ->
  exists ws, steps s s' ws /\
    (ws = [] \/
     exists fi f vi v wi,
       find_idx (fun g => f_id g =? h) (s_files s) 0 = Some fi /\ nth_error (s_files s) fi = Some f /\
       find_idx (fun w => v_id w =? f_vol f) (s_vols s) 0 = Some vi /\ nth_error (s_vols s) vi = Some v /\
       (wi = [] \/ (wi = [v_info v] /\ v_fat32 v = true)) /\ ws = wi ++ [e_block (f_entry f)]).
Proof.
  intros Hg H. unfold flush_file, locked in H.
  inv_bind H as s0 s0' Hget. inversion Hget; subst s0 s0'. clear Hget.
  destruct (s_lock s); [discriminate H|].
  inv_bind H as fi s0 Hfi. unfold get_file_by_id, bind, get in Hfi.
  destruct (find_idx (fun g => f_id g =? h) (s_files s) 0) as [fi'|] eqn:Efi; inversion Hfi; subst fi' s0. clear Hfi.
  inv_bind H as f s0 Hf. unfold get_file, bind, get in Hf.
  destruct (nth_error (s_files s) fi) as [f'|] eqn:Ef; inversion Hf; subst f' s0. clear Hf.
  destruct (f_dirty f).
  2:{ inversion H; subst. exists []. split; [apply steps_refl; exact Hg|left; reflexivity]. }
  inv_bind H as vi s0 Hvi. unfold get_volume_by_id, bind, get in Hvi.
  destruct (find_idx (fun w => v_id w =? f_vol f) (s_vols s) 0) as [vi'|] eqn:Evi; inversion Hvi; subst vi' s0. clear Hvi.
  inv_bind H as u s1 Hinfo.
  destruct (nth_error (s_vols s) vi) as [v|] eqn:Ev.
  2:{ unfold update_info_sector, get_vol, bind, get in Hinfo. rewrite Ev in Hinfo. discriminate Hinfo. }
  destruct u. destruct (update_info_sector_steps vi v s s1 Hg Ev Hinfo) as (wi & S1 & M1 & Hwi).
  destruct (negb (e_size (f_entry f) =? 0) && (e_cluster (f_entry f) =? 0)); [discriminate H|].
  inv_bind H as v1 s1' Hgv. apply get_vol_inv in Hgv. destruct Hgv as (-> & Hv1).
  rewrite (same_mgr_vols _ _ M1), Ev in Hv1. inversion Hv1; subst v1. clear Hv1.
  destruct (write_entry_to_disk_steps v (f_entry f) s1 s' (proj2 S1) H) as (S2 & _).
  exists (wi ++ [e_block (f_entry f)]). split; [exact (steps_trans _ _ _ _ _ S1 S2)|].
  right. exists fi, f, vi, v, wi. split; [first [exact Efi|reflexivity]|]. split; [exact Ef|]. split; [exact Evi|]. split; [exact Ev|]. split; [exact Hwi|reflexivity].
Qed.

Theorem C04_flush_file s h fi f vi v total fsz s' :
  part_layout v total fsz -> good s -> PrSeek.resolves s h fi f -> PrEntry.file_vol s f vi v ->
  in_dir v (e_block (f_entry f)) ->
  flush_file h s = (Ok tt, s') ->
  exists ws, tsteps s s' ws /\
    Forall (fun i => is_info v i \/ i = e_block (f_entry f)) ws /\ Forall (in_volume v total) ws.
Proof.
  intros L Hg (Hl & Hfi & Hf) (Hvi & Hv) Hd H.
  destruct (flush_file_steps h s s' Hg H) as (ws & (T & _) & Hws).
  exists ws. split; [exact T|].
  destruct Hws as [->|(fi' & f' & vi' & v' & wi & E1 & E2 & E3 & E4 & Hwi & ->)]; [split; constructor|].
  rewrite Hfi in E1. inversion E1; subst fi'. rewrite Hf in E2. inversion E2; subst f'.
  rewrite Hvi in E3. inversion E3; subst vi'. rewrite Hv in E4. inversion E4; subst v'.
  assert (Hcl : Forall (fun i => is_info v i \/ i = e_block (f_entry f)) (wi ++ [e_block (f_entry f)])).
  { apply Forall_app. split; [|apply Forall_cons; [right; reflexivity|constructor]].
    destruct Hwi as [->|(-> & H32)]; [constructor|]. apply Forall_cons; [left; split; [exact H32|reflexivity]|constructor]. }
  split; [exact Hcl|]. eapply Forall_impl; [|exact Hcl]. intros i Hi.
  apply (C04_regions_inside v total fsz i L). destruct Hi as [Hi| ->].
  - right. right. right. exact Hi.
  - destruct Hd as [Hd|Hd]; [right; left; exact Hd|right; right; left; exact Hd].
Qed.

(* ---- 3f. the directory walk that may grow the directory; write_new_directory_entry; make_dir ---- *)
Lemma same_geom_refl v : same_geom v v.
Proof. exists (v_next_free v), (v_free v). destruct v. reflexivity. Qed.
Lemma same_geom_trans a b c : same_geom a b -> same_geom b c -> same_geom a c.
Proof. intros (n1 & f1 & ->) (n2 & f2 & ->). exists n2, f2. reflexivity. Qed.

Lemma tsteps_det s s' w1 w2 : tsteps s s' w1 -> tsteps s s' w2 -> w1 = w2.
Proof.
  intros (n1 & T1 & W1) (n2 & T2 & W2). rewrite T1 in T2. apply app_inv_tail in T2. congruence.
Qed.

Section GrowWalk.
Variables (vi : nat) (v0 : vol) (total fsz : N).
Hypothesis L0 : part_layout v0 total fsz.
Variable R : Type.
Variable Pe : R -> N -> Prop.
Variable body : N -> M (option R).
(* one directory block: nothing is written and the device contents stay unless the walk stops
   here, and then exactly this block is written *)
Hypothesis body_ok : forall blk s r s', good s -> body blk s = (Ok r, s') ->
  match r with
  | None => steps s s' [] /\ s_disk s' = s_disk s /\ same_mgr s s'
  | Some x => steps s s' [blk] /\ Pe x blk
  end.

Definition Cl (i : N) : Prop := in_fat v0 fsz i \/ in_data v0 i.

Lemma loop_ws : forall n i s r s', good s -> for_blocks_from n i body s = (Ok r, s') ->
  match r with
  | None => steps s s' [] /\ s_disk s' = s_disk s /\ same_mgr s s'
  | Some x => exists blk, In blk (PrOrder.blocks_from n i) /\ steps s s' [blk] /\ Pe x blk
  end.
Proof.
  induction n as [|n IH]; intros i s r s' Hg H; cbn [for_blocks_from] in H.
  - inversion H; subst. split; [apply steps_refl; exact Hg|]. split; [reflexivity|apply same_mgr_refl].
  - inv_bind H as r1 s1 Hb. pose proof (body_ok _ _ _ _ Hg Hb) as B. destruct r1 as [x|].
    + inversion H; subst. exists i. split; [left; reflexivity|exact B].
    + destruct B as (S1 & D1 & M1). specialize (IH (i + 1) s1 r s' (proj2 S1) H). destruct r as [x|].
      * destruct IH as (blk & Hin & S2 & P). exists blk. split; [right; exact Hin|].
        split; [exact (steps_trans _ _ _ [] _ S1 S2)|exact P].
      * destruct IH as (S2 & D2 & M2). split; [exact (steps_trans _ _ _ [] [] S1 S2)|].
        split; [congruence|eapply same_mgr_trans; eauto].
Qed.

Lemma Cl_geom w i : same_geom v0 w -> in_fat w fsz i \/ in_data w i -> Cl i.
Proof. intros (nf & fc & ->) H. exact H. Qed.

(* the walk over a cluster chain, growing the directory at its end *)
Lemma walk_grow_ws : forall fuel c s r s' w f' ch,
  alloc_pre s vi w fsz -> same_geom v0 w -> chain_of (s_disk s) w c f' = Some ch ->
  walk_dir fuel vi c true body s = (Ok r, s') ->
  exists gw tl, steps s s' (gw ++ tl) /\ Forall Cl gw /\
    match r with
    | Some x => exists blk, tl = [blk] /\ Pe x blk /\ in_data v0 blk
    | None => tl = []
    end.
Proof.
  induction fuel as [|f IH]; intros c s r s' w f' ch Hpre Hgeo Hch H; cbn [walk_dir] in H; [discriminate|].
  pose proof Hpre as ((Hnf & Hc & Hvi & Hlen) & FL & Hh). pose proof (fl_vol w fsz FL) as Hv.
  assert (Hg : good s) by (split; assumption).
  pose proof (part_layout_geom v0 w total fsz Hgeo L0) as Lw.
  destruct (chain_of_head _ _ _ _ _ Hch) as (R1 & R2 & l' & El).
  inv_bind H as w1 s0 Hgv. apply get_vol_inv in Hgv. destruct Hgv as (-> & Hw1).
  rewrite Hvi in Hw1. inversion Hw1; subst w1. clear Hw1.
  inv_bind H as first s0 Hcb. pose proof (keeps_cluster_to_block _ _ _ _ _ Hcb) as ->.
  destruct (cluster_block_ok w c s Hv R1 R2) as (Hcb' & _). rewrite Hcb' in Hcb. inversion Hcb; subst first. clear Hcb.
  assert (Hnr : (c =? CL_ROOT) = false) by (apply N.eqb_neq; exact (in_range_not_root w c Hv R2)).
  cbv zeta in H. rewrite Hnr, andb_false_r in H.
  inv_bind H as r1 s1 Hfb. unfold for_blocks in Hfb. inv_bind Hfb as x s0 Ha.
  apply add32_inv in Ha. destruct Ha as (-> & _).
  pose proof (loop_ws _ _ _ _ _ Hg Hfb) as B.
  destruct r1 as [x1|].
  { inversion H; subst. destruct B as (blk & Hin & S & P). exists [], [blk].
    split; [exact S|]. split; [constructor|]. exists blk. split; [reflexivity|]. split; [exact P|].
    pose proof (C04_cluster_block_in_data w c R1 R2) as Fd. rewrite Forall_forall in Fd.
    specialize (Fd blk Hin). destruct Hgeo as (nf & fc & ->). exact Fd. }
  destruct B as (S1 & D1 & M1).
  assert (Hpre1 : alloc_pre s1 vi w fsz).
  { apply (PrWrite.alloc_pre_ro vi w fsz s s1 Hpre).
    split; [exact D1|]. split; [exact (proj2 (proj2 S1))|]. split; [exact (proj1 (proj2 S1))|exact M1]. }
  inv_bind H as nc s2 Hn.
  assert (Rn : PrOrder.ro (try (next_cluster w c))) by (apply PrOrder.ro_try, PrOrder.ro_next_cluster).
  destruct (Rn _ _ _ (proj2 S1) Hn) as (S2 & M2 & D2).
  destruct (next_cluster_reads w c s1 Hv R2 (proj1 (proj2 S1)) (proj2 (proj2 S1))) as (s2' & Hnc & _).
  rewrite Hnc in Hn. inversion Hn; subst nc s2'. clear Hn Hnc.
  pose proof (steps_trans _ _ _ [] [] S1 S2) as S12. cbn [app] in S12.
  assert (Hpre2 : alloc_pre s2 vi w fsz).
  { apply (PrWrite.alloc_pre_ro vi w fsz s1 s2 Hpre1).
    split; [exact D2|]. split; [exact (proj2 (proj2 S2))|]. split; [exact (proj1 (proj2 S2))|exact M2]. }
  rewrite D1 in H.
  destruct f' as [|f'']; [discriminate|]. cbn [chain_of] in Hch.
  replace ((2 <=? c) && (c <? v_clusters w + 2)) with true in Hch
    by (symmetry; apply andb_true_iff; split; [apply N.leb_le|apply N.ltb_lt]; assumption).
  cbv zeta in Hch.
  destruct (fat_entry (s_disk s) w c =? fat_bad w) eqn:Hbad; [discriminate|].
  destruct (fat_eoc_min w <=? fat_entry (s_disk s) w c) eqn:Heoc.
  - (* end of the chain: the directory grows by one zeroed cluster *)
    rewrite (next_result_end _ _ Hbad Heoc) in H.
    inv_bind H as c' s3 Hal.
    assert (Hinuse : forall p, Some c = Some p -> p < v_clusters w + 2 /\ fat_get (s_disk s2) w 0 p <> 0).
    { intros p Ep. inversion Ep; subst p. split; [exact R2|].
      rewrite <- fat_entry_get, D2, D1. apply N.leb_le in Heoc. unfold fat_eoc_min in Heoc.
      destruct (v_fat32 w); lia. }
    destruct (alloc_cluster_effect_inuse vi w fsz (Some c) true s2 c' s3 Hpre2 Hinuse Hal) as (_ & _ & Hnew).
    assert (Hprev : forall p, Some c = Some p -> p < v_clusters w + 2) by (intros p Ep; exact (proj1 (Hinuse p Ep))).
    destruct (alloc_cluster_keeps_pre vi w fsz (Some c) true s2 c' s3 Hpre2 Hprev Hal) as (w' & Hw' & Hpre3 & _).
    destruct Hpre2 as ((Hnf2 & Hc2 & Hvi2 & _) & _ & _).
    destruct (alloc_cluster_ws vi w (Some c) true s2 c' s3 Hv Hh (conj Hnf2 Hc2) Hvi2 Hal)
      as (C1 & C2 & S3 & w'' & Hw'' & Hgeo').
    rewrite Hw' in Hw''. inversion Hw''; subst w''. clear Hw''.
    assert (Hch3 : chain_of (s_disk s3) w' c' 1 = Some [c']).
    { destruct Hgeo' as (nf & fc & ->). apply (PrWrite.chain_single (s_disk s3) _ c' 0 C1 C2).
      rewrite fat_entry_get. exact Hnew. }
    destruct (IH c' s3 r s' w' 1%nat [c'] Hpre3 (same_geom_trans _ _ _ Hgeo Hgeo') Hch3 H) as (gw & tl & S4 & F4 & Hr).
    exists (alloc_ws w (Some c) true c' ++ gw), tl. split; [|split; [|exact Hr]].
    + pose proof (steps_trans _ _ _ _ _ S12 (steps_trans _ _ _ _ _ S3 S4)) as S.
      cbn [app] in S. rewrite app_assoc in S. exact S.
    + apply Forall_app. split; [|exact F4].
      eapply Forall_impl; [|exact (alloc_ws_classified w total fsz (Some c) true c' Lw C1 C2 Hprev)].
      intros i Hi. exact (Cl_geom w i Hgeo Hi).
  - (* a link: go on with the next cluster of the chain *)
    destruct (chain_of (s_disk s) w (fat_entry (s_disk s) w c) f'') as [l|] eqn:Hrest; [|discriminate].
    destruct (chain_of_head _ _ _ _ _ Hrest) as (Q1 & _ & _).
    rewrite (next_result_link _ _ Hbad Heoc Q1) in H.
    assert (Hrest2 : chain_of (s_disk s2) w (fat_entry (s_disk s) w c) f'' = Some l) by (rewrite D2, D1; exact Hrest).
    destruct (IH _ s2 r s' w f'' l Hpre2 Hgeo Hrest2 H) as (gw & tl & S4 & F4 & Hr).
    exists gw, tl. split; [exact (steps_trans _ _ _ [] _ S12 S4)|]. split; [exact F4|exact Hr].
Qed.

(* the walk over the fixed root region of a FAT16 volume: it cannot grow *)
Lemma walk_root16_ws fuel s r s' w : good s -> nth_error (s_vols s) vi = Some w -> same_geom v0 w ->
  v_fat32 w = false -> walk_dir (S fuel) vi CL_ROOT true body s = (Ok r, s') ->
  exists tl, steps s s' tl /\
    match r with
    | Some x => exists blk, tl = [blk] /\ Pe x blk /\ in_root16 v0 blk
    | None => tl = []
    end.
Proof.
  intros Hg Hvi Hgeo H16 H. cbn [walk_dir] in H.
  inv_bind H as w1 s0 Hgv. apply get_vol_inv in Hgv. destruct Hgv as (-> & Hw1).
  rewrite Hvi in Hw1. inversion Hw1; subst w1. clear Hw1.
  inv_bind H as first s0 Hcb. pose proof (keeps_cluster_to_block _ _ _ _ _ Hcb) as ->.
  unfold cluster_to_block in Hcb. rewrite H16, N.eqb_refl in Hcb.
  apply add32_inv in Hcb. destruct Hcb as (_ & -> & _).
  cbv zeta in H. rewrite H16, N.eqb_refl in H. cbn [negb andb] in H.
  inv_bind H as r1 s1 Hfb. unfold for_blocks in Hfb. inv_bind Hfb as x s0 Ha.
  apply add32_inv in Ha. destruct Ha as (-> & _).
  pose proof (loop_ws _ _ _ _ _ Hg Hfb) as B.
  destruct r1 as [x1|]; inversion H; subst.
  - destruct B as (blk & Hin & S & P). exists [blk]. split; [exact S|]. exists blk.
    split; [reflexivity|]. split; [exact P|].
    pose proof (C04_root_block_in_root w H16) as Fd. rewrite Forall_forall in Fd.
    specialize (Fd blk Hin). destruct Hgeo as (nf & fc & ->). exact Fd.
  - destruct B as (S & _). exists []. split; [exact S|reflexivity].
Qed.
End GrowWalk.

(* the body of write_new_directory_entry fits: it reads the block; if the block has a free slot
   it writes this block once and the entry returned records this block *)
Lemma create_body_ok fat32 name attr fc blk s r s' : good s ->
  PrEntry.create_body fat32 name attr fc blk s = (Ok r, s') ->
  match r with
  | None => steps s s' [] /\ s_disk s' = s_disk s /\ same_mgr s s'
  | Some e => steps s s' [blk] /\ e_block e = blk
  end.
Proof.
  intros Hg Hb. unfold PrEntry.create_body in Hb. inv_bind Hb as b t1 Hr.
  destruct (PrOrder.ro_cache_read blk _ _ _ Hg Hr) as (S1 & M1 & D1).
  destruct Hg as [Hn Hc].
  destruct (cache_read_spec blk s Hn Hc) as (t1' & E & _ & T & _).
  rewrite E in Hr. inversion Hr; subst t1' b. clear Hr E.
  destruct (free_slot 16 (disk_get (s_disk s) blk) 0) as [i|].
  - inv_bind Hb as ctime t2 Hts.
    unfold get_timestamp, bind, get, modify, ret in Hts. inversion Hts; subst ctime t2. clear Hts.
    cbv zeta in Hb. inv_bind Hb as bytes t3 Hser. pose proof (keeps_serialize _ _ _ _ _ Hser) as ->.
    inv_bind Hb as u t4 Hcm. unfold cache_modify, modify in Hcm. inversion Hcm; subst u t4. clear Hcm.
    inv_bind Hb as u t5 Hwb. inversion Hb; subst r s'. clear Hb.
    match type of Hwb with write_back ?st = _ => set (t4 := st) in * end.
    assert (T4 : s_tag t4 = Some blk) by exact T.
    assert (N4 : no_faults t4) by (apply (no_faults_step t1); [reflexivity|cbn; lia|exact (proj1 (proj2 S1))]).
    destruct (write_back_steps blk _ _ _ T4 N4 Hwb) as (_ & [S5 G5] & _ & _).
    split; [|reflexivity]. split; [|exact G5].
    apply (tsteps_trans _ _ _ [] _ (proj1 S1)).
    apply (tsteps_trans _ t4 _ [] _); [apply tsteps_same_trace; reflexivity|exact S5].
  - inversion Hb; subst. split; [exact S1|]. split; [exact D1|exact M1].
Qed.

(* write_new_directory_entry: the LAST write is the directory block that receives the entry - a
   block of the parent directory (data area or FAT16 root region); anything before it is the
   growth of the directory by one cluster: FAT sectors and the blocks of a data cluster *)
Theorem C04_write_new_directory_entry vi v total fsz dc name attr fc s bl e s' :
  part_layout v total fsz -> alloc_pre s vi v fsz -> dir_blocks (s_disk s) v dc = Some bl ->
  write_new_directory_entry vi dc name attr fc s = (Ok e, s') ->
  exists gw, tsteps s s' (gw ++ [e_block e]) /\
    Forall (fun i => in_fat v fsz i \/ in_data v i) gw /\ in_dir v (e_block e).
Proof.
  intros L Hpre Hbl H. rewrite PrEntry.write_new_is in H.
  pose proof Hpre as ((Hnf & Hc & Hvi & _) & _ & _).
  inv_bind H as w s0 Hgv. apply get_vol_inv in Hgv. destruct Hgv as (-> & Hw).
  rewrite Hvi in Hw. inversion Hw; subst w. clear Hw.
  inv_bind H as r s1 Hwalk.
  pose proof (fun blk t r0 t' => create_body_ok (v_fat32 v) name attr fc blk t r0 t') as Hbody.
  unfold dir_blocks in Hbl.
  destruct (negb (v_fat32 v) && (dc =? CL_ROOT)) eqn:Eroot.
  - apply andb_true_iff in Eroot. destruct Eroot as [H16 Hdc].
    apply negb_true_iff in H16. apply N.eqb_eq in Hdc. subst dc.
    assert (Edf : dir_first_cluster v CL_ROOT = CL_ROOT) by (unfold dir_first_cluster; rewrite H16; reflexivity).
    rewrite Edf in Hwalk. unfold walk_fuel in Hwalk.
    replace (N.to_nat (v_clusters v) + 4)%nat with (S (N.to_nat (v_clusters v) + 3)) in Hwalk by lia.
    destruct (walk_root16_ws vi v dirent (fun e0 blk => e_block e0 = blk) _ Hbody
                _ s r s1 v (conj Hnf Hc) Hvi (same_geom_refl v) H16 Hwalk) as (tl & (T & _) & Hr).
    destruct r as [e0|]; [|discriminate H]. inversion H; subst e0 s1. clear H.
    destruct Hr as (blk & -> & Eb & Hin). exists []. rewrite Eb. split; [exact T|].
    split; [constructor|right; exact Hin].
  - destruct (chain_of (s_disk s) v (dir_first_cluster v dc) (walk_fuel v)) as [ch|] eqn:Hch; [|discriminate].
    destruct (walk_grow_ws vi v total fsz L dirent (fun e0 blk => e_block e0 = blk) _ Hbody
                _ _ s r s1 v _ ch Hpre (same_geom_refl v) Hch Hwalk) as (gw & tl & (T & _) & F & Hr).
    destruct r as [e0|]; [|discriminate H]. inversion H; subst e0 s1. clear H.
    destruct Hr as (blk & -> & Eb & Hin). exists gw. rewrite Eb. split; [exact T|].
    split; [exact F|left; exact Hin].
Qed.

Lemma dir_blocks_geom d v w dc : same_geom v w -> dir_blocks d w dc = dir_blocks d v dc.
Proof.
  intros (nf & fc & ->). unfold dir_blocks.
  change (set_v_free (set_v_next_free v nf) fc) with (PrRw.vol_rebook v nf fc).
  rewrite PrRw.chain_of_rebook. reflexivity.
Qed.

Lemma fat_sector_outside_cluster w fsz copy k c : fat_layout w fsz -> k < fsz -> 2 <= c ->
  fat_copy_sector w copy k < cluster_first_block w c \/
  cluster_first_block w c + v_spc w <= fat_copy_sector w copy k.
Proof.
  intros FL Hk Hc.
  pose proof (fat_sector_not_data w fsz copy k c (fat_copy_sector w copy k - cluster_first_block w c) FL Hk Hc).
  lia.
Qed.

Lemma cluster_blocks_cons v c : 1 <= v_spc v ->
  cluster_blocks v c = cluster_first_block v c
                       :: PrOrder.blocks_from (N.to_nat (v_spc v) - 1) (cluster_first_block v c + 1).
Proof.
  intros H. unfold cluster_blocks.
  replace (N.to_nat (v_spc v)) with (S (N.to_nat (v_spc v) - 1)) at 1 by lia. reflexivity.
Qed.

(* make_dir: the FAT sector(s) of the new cluster c; the blocks of cluster c (the block with the
   dot entries first, then zeros); possibly the growth of the parent directory (FAT sectors and
   the blocks of one more data cluster); last, the block of the parent directory that receives
   the new entry *)
Theorem C04_make_dir vi v total fsz parent sfn att s bl s' :
  part_layout v total fsz -> alloc_pre s vi v fsz -> dir_blocks (s_disk s) v parent = Some bl ->
  make_dir vi parent sfn att s = (Ok tt, s') ->
  exists c gw pblk,
    2 <= c /\ c < v_clusters v + 2 /\
    tsteps s s' (fat_writes v c ++ cluster_blocks v c ++ gw ++ [pblk]) /\
    Forall (fun i => in_fat v fsz i \/ in_data v i) gw /\ in_dir v pblk /\
    Forall (fun i => in_fat v fsz i \/ in_data v i \/ in_root16 v i)
           (fat_writes v c ++ cluster_blocks v c ++ gw ++ [pblk]).
Proof.
  intros L Hpre Hbl H. unfold make_dir in H.
  pose proof Hpre as ((Hnf & Hc & Hvi & Hlen) & FL & Hh). pose proof (fl_vol v fsz FL) as Hv.
  pose proof (pl_spc v total fsz L) as Hspc.
  inv_bind H as c s1 Hal.
  assert (Hprev0 : forall p, @None N = Some p -> p < v_clusters v + 2) by (intros p Ep; discriminate Ep).
  pose proof (alloc_cluster_effect vi v fsz None false s c s1 Hpre Hprev0 Hal) as Heff.
  destruct (alloc_cluster_keeps_pre vi v fsz None false s c s1 Hpre Hprev0 Hal) as (w & Hw & Hpre1 & _).
  destruct (alloc_cluster_ws vi v None false s c s1 Hv Hh (conj Hnf Hc) Hvi Hal)
    as (C1 & C2 & S1 & w' & Hw' & Hgeo).
  rewrite Hw in Hw'. inversion Hw'; subst w'. clear Hw'.
  unfold alloc_ws in S1. cbn [app] in S1. rewrite app_nil_r in S1.
  pose proof Hpre1 as ((Hnf1 & Hc1 & _ & Hlen1) & FLw & Hhw). pose proof (fl_vol w fsz FLw) as Hvw.
  assert (Egeo : v_spc w = v_spc v /\ v_clusters w = v_clusters v /\
                 cluster_first_block w c = cluster_first_block v c /\
                 (forall k, fat_copy_sector w 0 k = fat_copy_sector v 0 k))
    by (destruct Hgeo as (nf & fc & ->); repeat split; reflexivity).
  destruct Egeo as (Espc & Ecl & Ecfb & Efcs).
  inv_bind H as w1 s1' Hgv. apply get_vol_inv in Hgv. destruct Hgv as (-> & Hw1).
  rewrite Hw in Hw1. inversion Hw1; subst w1. clear Hw1.
  inv_bind H as start s1' Hcb. pose proof (keeps_cluster_to_block _ _ _ _ _ Hcb) as ->.
  destruct (cluster_block_ok w c s1 Hvw C1 ltac:(rewrite Ecl; exact C2)) as (Hcb' & _).
  rewrite Hcb' in Hcb. inversion Hcb; subst start. clear Hcb Hcb'. rewrite Ecfb, Espc in H.
  set (start := cluster_first_block v c) in *.
  inv_bind H as now s2 Hts.
  unfold get_timestamp, bind, get, modify, ret in Hts. inversion Hts; subst now s2. clear Hts.
  inv_bind H as u s3 Hbl0. unfold blank_mut, modify in Hbl0. inversion Hbl0; subst u s3. clear Hbl0.
  inv_bind H as dot s3 Hd. pose proof (keeps_serialize _ _ _ _ _ Hd) as ->.
  inv_bind H as dotdot s3 Hdd. pose proof (keeps_serialize _ _ _ _ _ Hdd) as ->.
  inv_bind H as u s4 Hcm. unfold cache_modify, modify in Hcm. inversion Hcm; subst u s4. clear Hcm.
  inv_bind H as u s5 Hwb.
  match type of Hwb with write_back ?st = _ => set (s4 := st) in * end.
  assert (T4 : s_tag s4 = Some start) by reflexivity.
  assert (N4 : no_faults s4) by (apply (no_faults_step s1); [reflexivity|cbn; lia|exact Hnf1]).
  destruct (write_back_steps start _ _ _ T4 N4 Hwb) as (_ & [S5 G5] & _ & _).
  rewrite (write_back_ok start s4 T4 N4) in Hwb. inversion Hwb; subst u s5. clear Hwb.
  match type of G5 with good ?st => set (s5 := st) in * end.
  assert (S15 : steps s1 s5 [start]).
  { split; [|exact G5]. apply (tsteps_trans _ s4 _ [] _); [apply tsteps_same_trace; reflexivity|exact S5]. }
  assert (D5 : forall j, j <> start -> disk_get (s_disk s5) j = disk_get (s_disk s1) j).
  { intros j Hj. subst s5 s4. cbn. apply disk_get_set_other. congruence. }
  assert (V5 : s_vols s5 = s_vols s1) by reflexivity.
  inv_bind H as x s5' Hadd. apply add32_inv in Hadd. destruct Hadd as (-> & _).
  inv_bind H as o s6 Hloop.
  destruct (PrOrder.zero_loop_steps _ _ _ _ _ G5 Hloop) as (_ & S6 & M6).
  destruct (PrAllocEffect.zero_loop (N.to_nat (v_spc v) - 1) (start + 1) s5 (proj1 G5) (proj2 G5))
    as (s6' & Hrun & _ & _ & _ & _ & Hfr6 & _).
  rewrite Hrun in Hloop. inversion Hloop; subst o s6'. clear Hloop Hrun.
  assert (Hframe : forall j, j < start \/ start + v_spc v <= j ->
            disk_get (s_disk s6) j = disk_get (s_disk s1) j).
  { intros j Hj. rewrite Hfr6 by lia. apply D5. lia. }
  inv_bind H as r s7 Htry. apply try_inv_ok in Htry.
  destruct Htry as [(e & -> & Hwn)|(e & -> & Hwn)].
  2:{ inv_bind H as u8 s8 Hfree. discriminate H. }
  inversion H; subst s7. clear H.
  (* the hypotheses of write_new_directory_entry hold again in s6 *)
  assert (Hw6 : nth_error (s_vols s6) vi = Some w) by (rewrite (same_mgr_vols _ _ M6), V5; exact Hw).
  assert (Hpre6 : alloc_pre s6 vi w fsz).
  { split; [|split; assumption].
    split; [exact (proj1 (proj2 S6))|]. split; [exact (proj2 (proj2 S6))|]. split; [exact Hw6|].
    intros k Hk. rewrite Hframe; [exact (Hlen1 k Hk)|].
    pose proof (fat_sector_outside_cluster w fsz 0 k c FLw Hk C1) as Ho. rewrite Ecfb, Espc in Ho. exact Ho. }
  assert (Hbl6 : dir_blocks (s_disk s6) w parent = Some bl).
  { rewrite (dir_blocks_geom _ v w parent Hgeo). unfold dir_blocks in Hbl |- *.
    destruct (negb (v_fat32 v) && (parent =? CL_ROOT)); [exact Hbl|].
    destruct (chain_of (s_disk s) v (dir_first_cluster v parent) (walk_fuel v)) as [ch|] eqn:Hch; [|discriminate].
    rewrite (PrChain.chain_of_frame (s_disk s) (s_disk s6) v _ _ ch Hch); [exact Hbl|].
    intros y Hy.
    pose proof (chain_of_range _ _ _ _ _ Hch) as Rg. rewrite Forall_forall in Rg. destruct (Rg y Hy) as (Y1 & Y2).
    pose proof (layout_sector v fsz y FL Y2) as Hq.
    transitivity (fat_get (s_disk s1) v 0 y).
    - apply fat_get_same_sector. apply Hframe.
      pose proof (fat_sector_outside_cluster v fsz 0 ((y * fat_width v) / 512) c FL Hq C1) as Ho. exact Ho.
    - apply (ae_other _ _ _ _ _ _ _ _ Heff y Hq); [|discriminate].
      intros ->. destruct (ae_range _ _ _ _ _ _ _ _ Heff) as (_ & _ & Z).
      apply (PrWrite.chain_entry_nonzero _ _ _ _ _ Hch c Hy). rewrite fat_entry_get. exact Z. }
  destruct (C04_write_new_directory_entry vi w total fsz parent sfn att c s6 bl e s'
              (part_layout_geom v w total fsz Hgeo L) Hpre6 Hbl6 Hwn) as (gw & T7 & F7 & D7).
  assert (F7v : Forall (fun i => in_fat v fsz i \/ in_data v i) gw /\ in_dir v (e_block e))
    by (destruct Hgeo as (nf & fc & ->); split; assumption).
  destruct F7v as (F7v & D7v).
  exists c, gw, (e_block e). split; [exact C1|]. split; [exact C2|].
  assert (T : tsteps s s' (fat_writes v c ++ cluster_blocks v c ++ gw ++ [e_block e])).
  { rewrite (cluster_blocks_cons v c Hspc). fold start.
    pose proof (tsteps_trans _ _ _ _ _ (proj1 S1)
                 (tsteps_trans _ _ _ _ _ (proj1 S15) (tsteps_trans _ _ _ _ _ (proj1 S6) T7))) as T.
    cbn [app] in T |- *. exact T. }
  split; [exact T|]. split; [exact F7v|]. split; [exact D7v|].
  apply Forall_app. split; [|apply Forall_app; split; [|apply Forall_app; split]].
  - eapply Forall_impl; [|exact (fat_writes_in_fat v total fsz c L C2)]. intros i Hi. left. exact Hi.
  - eapply Forall_impl; [|exact (C04_cluster_block_in_data v c C1 C2)]. intros i Hi. right. left. exact Hi.
  - eapply Forall_impl; [|exact F7v]. intros i [Hi|Hi]; [left|right; left]; exact Hi.
  - apply Forall_cons; [|constructor]. destruct D7v as [Hi|Hi]; [right; left|right; right]; exact Hi.
Qed.

(* ---- 3g. mgr_write (frame form): the blocks whose contents differ afterwards ---- *)
Lemma fat_copy_sector_in_fat v fsz copy k : k < fsz -> in_fat v fsz (fat_copy_sector v copy k).
Proof.
  intros Hk. unfold fat_copy_sector, fat_copy_start, in_fat, in_fat0, in_fat1.
  destruct (copy =? 0); [left; lia|].
  destruct (v_second_fat v) as [sf|]; [right; exists sf; split; [reflexivity|lia]|left; lia].
Qed.

Lemma in_fat_is_copy_sector v fsz j : in_fat v fsz j -> exists copy k, k < fsz /\ j = fat_copy_sector v copy k.
Proof.
  unfold in_fat, in_fat0, in_fat1, fat_copy_sector, fat_copy_start. intros [H|(sf & E & H)].
  - exists 0, (j - (v_lba v + v_fat_start v)). change (0 =? 0) with true. cbv iota. lia.
  - exists 1, (j - (v_lba v + sf)). change (1 =? 0) with false. cbv iota. rewrite E. lia.
Qed.

(* from a frame in the style of PrWrite.wframe: a block that changed is a FAT sector or a block
   of one of the clusters ch' *)
Lemma frame_classified v fsz ch' D D' :
  Forall (fun x => 2 <= x /\ x < v_clusters v + 2) ch' ->
  (forall j, (forall copy k, k < fsz -> j <> fat_copy_sector v copy k) ->
             ~ In j (flat_map (cluster_blocks v) ch') -> disk_get D' j = disk_get D j) ->
  forall j, disk_get D' j <> disk_get D j -> in_fat v fsz j \/ in_data v j.
Proof.
  intros Hr Hfr j Hne.
  destruct (in_fatb v fsz j) eqn:Ef; [left; apply in_fatb_ok; exact Ef|].
  destruct (in_dec N.eq_dec j (flat_map (cluster_blocks v) ch')) as [Hin|Hnin].
  - right. pose proof (chain_blocks_in_data v ch' Hr) as F. rewrite Forall_forall in F. exact (F j Hin).
  - exfalso. apply Hne. apply Hfr; [|exact Hnin].
    intros copy k Hk ->. pose proof (fat_copy_sector_in_fat v fsz copy k Hk) as Hi.
    apply in_fatb_ok in Hi. congruence.
Qed.

(* C04 for mgr_write, frame form: whatever the outcome (Ok, DiskFull part-way, NotEnoughSpace),
   a block whose contents differ after the call is a FAT sector of the volume or a block of the
   data area (more precisely: of a cluster of the file's chain after the call) *)
Theorem C04_mgr_write_changed fsz total h data s fi f vi v ch o s' :
  part_layout v total fsz -> PrWrite.mw_pre fsz h s fi f vi v ch -> mode_eqb (f_mode f) ReadOnly = false ->
  mgr_write h data s = (o, s') ->
  forall j, disk_get (s_disk s') j <> disk_get (s_disk s) j ->
    (in_fat v fsz j \/ in_data v j) /\ in_volume v total j /\ j < v_lba v + data_end v.
Proof.
  intros L Hmw Hmode H j Hne.
  assert (Hcl : in_fat v fsz j \/ in_data v j).
  { destruct (PrWrite.mgr_write_spec fsz h data s fi f vi v ch Hmw Hmode) as (o2 & s2 & Hrun & Hres).
    rewrite H in Hrun. inversion Hrun; subst o2 s2. clear Hrun.
    assert (Hpost : forall b stored f' v' ch', PrWrite.mw_post fsz h s fi f vi v ch b stored s' f' v' ch' ->
              in_fat v fsz j \/ in_data v j).
    { intros b stored f' v' ch' P.
      pose proof (PrWrite.mp_frame _ _ _ _ _ _ _ _ _ _ _ _ _ _ P) as (Fr & _).
      pose proof (PrWrite.mp_pre _ _ _ _ _ _ _ _ _ _ _ _ _ _ P) as Pre'.
      destruct (PrWrite.mp_vol _ _ _ _ _ _ _ _ _ _ _ _ _ _ P) as (nf & fc & Ev').
      apply (frame_classified v fsz ch' (s_disk s) (s_disk s')); [|exact Fr|exact Hne].
      destruct (PrWrite.mq_chain _ _ _ _ _ _ _ _ Pre') as [(_ & (fu & Hch) & _)|(_ & -> & _)]; [|constructor].
      subst v'. rewrite PrRw.chain_of_rebook in Hch. exact (chain_of_range _ _ _ _ _ Hch). }
    destruct Hres as [(_ & f' & v' & ch' & P)|[(_ & f' & v' & ch' & k & _ & P & _)|(_ & _ & _ & Hd & _)]].
    - exact (Hpost _ _ _ _ _ P).
    - exact (Hpost _ _ _ _ _ P).
    - exfalso. apply Hne. rewrite Hd. reflexivity. }
  split; [exact Hcl|].
  apply (C04_regions_inside v total fsz j L). destruct Hcl as [Hi|Hi]; [left; exact Hi|right; left; exact Hi].
Qed.

(* ---- 3h. write_loop / mgr_write (trace form) ----
   The clusters write_loop visits come from the FAT (next_cluster), so the statement needs the
   chain the walk follows to stay inside the volume: safe_n k d v c says that c is a data cluster
   and so is every cluster reached from c in at most k steps of next_cluster.  A chain in the
   sense of PrDir.chain_of is safe for every k (chain_safe). *)
Definition dcl (v : vol) (c : N) : Prop := 2 <= c /\ c < v_clusters v + 2.

Fixpoint safe_n (k : nat) (d : disk) (v : vol) (c : N) : Prop :=
  dcl v c /\
  match k with
  | O => True
  | S k' => forall n, next_result v (PrAlloc.fat_entry d v c) = inl n -> safe_n k' d v n
  end.
Definition SAFE (d : disk) (v : vol) (c : N) : Prop := forall k, safe_n k d v c.

Lemma SAFE_dcl d v c : SAFE d v c -> dcl v c.
Proof. intros H. exact (proj1 (H O)). Qed.

Lemma SAFE_next d v c n : SAFE d v c -> next_result v (PrAlloc.fat_entry d v c) = inl n -> SAFE d v n.
Proof. intros H Hn k. exact (proj2 (H (S k)) n Hn). Qed.

Lemma next_result_inl v e n : next_result v e = inl n -> n = e.
Proof.
  unfold next_result. destruct (v_fat32 v).
  - destruct (e =? 0); [discriminate|]. destruct (e =? 268435447); [discriminate|].
    destruct ((e =? 1) || (268435448 <=? e)); [discriminate|]. intros H. inversion H. reflexivity.
  - destruct (e =? 65527); [discriminate|]. destruct (65528 <=? e); [discriminate|].
    intros H. inversion H. reflexivity.
Qed.

Lemma safe_ext d d' v : (forall c, dcl v c -> PrAlloc.fat_entry d' v c = PrAlloc.fat_entry d v c) ->
  forall k c, safe_n k d v c -> safe_n k d' v c.
Proof.
  intros He. induction k as [|k IH]; intros c (Hr & H); (split; [exact Hr|]); [exact I|].
  intros n Hn. rewrite (He c Hr) in Hn. exact (IH n (H n Hn)).
Qed.

Lemma SAFE_stop d v c : dcl v c -> (forall n, next_result v (PrAlloc.fat_entry d v c) <> inl n) -> SAFE d v c.
Proof. intros Hr Hn k. destruct k; (split; [exact Hr|]); [exact I|]. intros n E. destruct (Hn n E). Qed.

Lemma SAFE_self d v c : dcl v c -> PrAlloc.fat_entry d v c = c -> SAFE d v c.
Proof.
  intros Hr He k. induction k as [|k IH]; (split; [exact Hr|]); [exact I|].
  intros n Hn. apply next_result_inl in Hn. rewrite He in Hn. subst n. exact IH.
Qed.

Lemma SAFE_eof d v c : dcl v c -> PrAlloc.fat_entry d v c = enc v CL_EOF -> SAFE d v c.
Proof.
  intros Hr He. apply SAFE_stop; [exact Hr|]. intros n. rewrite He.
  destruct (PrWrite.eof_is_end v) as (Eb & Ee). rewrite (next_result_end v _ Eb Ee). discriminate.
Qed.

(* what an allocation does to the FAT keeps safe clusters safe *)
Lemma SAFE_alloc d d' v c' (prev : option N) : dcl v c' ->
  (PrAlloc.fat_entry d' v c' = enc v CL_EOF \/ PrAlloc.fat_entry d' v c' = c') ->
  (forall p, prev = Some p -> PrAlloc.fat_entry d' v p = c') ->
  (forall q, dcl v q -> q <> c' -> prev <> Some q -> PrAlloc.fat_entry d' v q = PrAlloc.fat_entry d v q) ->
  SAFE d' v c' /\ forall c0, SAFE d v c0 -> SAFE d' v c0.
Proof.
  intros Hr Hnew Hprev Hother.
  assert (Hc' : SAFE d' v c') by (destruct Hnew as [E|E]; [apply SAFE_eof|apply SAFE_self]; assumption).
  split; [exact Hc'|]. intros c0 H k. revert c0 H.
  induction k as [|k IH]; intros c0 H; (split; [exact (SAFE_dcl _ _ _ H)|]); [exact I|].
  intros n Hn. destruct (N.eq_dec c0 c') as [->|Hne]; [exact (proj2 (Hc' (S k)) n Hn)|].
  destruct prev as [p|].
  - destruct (N.eq_dec c0 p) as [->|Hnp].
    + apply next_result_inl in Hn. rewrite (Hprev p eq_refl) in Hn. subst n. exact (Hc' k).
    + rewrite (Hother c0 (SAFE_dcl _ _ _ H) Hne ltac:(congruence)) in Hn. exact (IH n (SAFE_next _ _ _ _ H Hn)).
  - rewrite (Hother c0 (SAFE_dcl _ _ _ H) Hne ltac:(discriminate)) in Hn. exact (IH n (SAFE_next _ _ _ _ H Hn)).
Qed.

(* every cluster of a chain is safe *)
Lemma chain_safe d v : forall f c ch, chain_of d v c f = Some ch -> forall x, In x ch -> SAFE d v x.
Proof.
  induction f as [|f IH]; intros c ch H x Hx; [discriminate|].
  destruct (chain_of_head _ _ _ _ _ H) as (R1 & R2 & _).
  cbn [chain_of] in H.
  replace ((2 <=? c) && (c <? v_clusters v + 2)) with true in H
    by (symmetry; apply andb_true_iff; split; [apply N.leb_le|apply N.ltb_lt]; assumption).
  cbv zeta in H.
  destruct (PrAlloc.fat_entry d v c =? fat_bad v) eqn:Hbad; [discriminate|].
  destruct (fat_eoc_min v <=? PrAlloc.fat_entry d v c) eqn:Heoc.
  - inversion H; subst ch. destruct Hx as [<-|[]].
    apply SAFE_stop; [split; assumption|]. intros n. rewrite (next_result_end _ _ Hbad Heoc). discriminate.
  - destruct (chain_of d v (PrAlloc.fat_entry d v c) f) as [l|] eqn:Hrest; [|discriminate].
    inversion H; subst ch. destruct Hx as [<-|Hx]; [|exact (IH _ _ Hrest x Hx)].
    destruct (chain_of_head _ _ _ _ _ Hrest) as (Q1 & _ & l' & ->).
    pose proof (IH _ _ Hrest _ (or_introl eq_refl)) as Hnext.
    intros k. destruct k; (split; [split; assumption|]); [exact I|].
    intros n Hn. rewrite (next_result_link _ _ Hbad Heoc Q1) in Hn. inversion Hn; subst n. exact (Hnext k).
Qed.

Lemma safe_geom d v w : same_geom v w -> forall k c, safe_n k d w c <-> safe_n k d v c.
Proof.
  intros (nf & fc & ->). induction k as [|k IH]; intros c; cbn [safe_n]; [apply iff_refl|].
  split; intros (Hr & H); (split; [exact Hr|]); intros n Hn; apply IH; exact (H n Hn).
Qed.

Lemma SAFE_geom d v w c : same_geom v w -> (SAFE d w c <-> SAFE d v c).
Proof. intros Hg. split; intros H k; apply (safe_geom d v w Hg); exact (H k). Qed.

(* find_data_on_disk only reads, whatever its outcome *)
Lemma ro_fdod_walk v : forall n so sc, PrOrder.ro (fdod_walk n v so sc).
Proof.
  induction n as [|n IH]; intros so sc; cbn [fdod_walk]; [apply ro_keeps, keeps_ret|].
  apply ro_bind; [apply ro_try, ro_next_cluster|]. intros [c|e]; [|apply ro_keeps, keeps_ret].
  apply ro_bind; [apply ro_keeps, keeps_add32|]. intros so'. apply IH.
Qed.

Lemma ro_find_data vi start fs desired : PrOrder.ro (find_data_on_disk vi start fs desired).
Proof.
  unfold find_data_on_disk. apply ro_bind; [apply ro_keeps, keeps_get_vol|]. intros v. cbv zeta.
  destruct (if desired <? fst start then (0, fs) else start) as [so sc].
  destruct (bytes_per_cluster v =? 0); [apply ro_keeps, keeps_panic|].
  apply ro_bind; [apply ro_fdod_walk|]. intros [[so' sc'] [e|]]; [apply ro_keeps, keeps_ret|].
  apply ro_bind; [apply ro_keeps, keeps_sub32|]. intros ofc.
  destruct (negb (ofc <? bytes_per_cluster v)); [apply ro_keeps, keeps_panic|].
  apply ro_bind; [apply ro_keeps, keeps_cluster_to_block|]. intros cb.
  apply ro_bind; [apply ro_keeps, keeps_add32|]. intros blk. apply ro_keeps, keeps_ret.
Qed.

(* the cluster where the walk of find_data_on_disk ends is safe when it started at a safe one *)
Lemma fdod_walk_safe w : vol_ok w -> forall n so sc s so' sc' oe s', good s -> SAFE (s_disk s) w sc ->
  fdod_walk n w so sc s = (Ok ((so', sc'), oe), s') -> SAFE (s_disk s) w sc'.
Proof.
  intros Hv. induction n as [|n IH]; intros so sc s so' sc' oe s' Hg Hs H; cbn [fdod_walk] in H.
  - inversion H; subst. exact Hs.
  - inv_bind H as r s1 Ht.
    destruct (next_cluster_reads w sc s Hv (proj2 (SAFE_dcl _ _ _ Hs)) (proj1 Hg) (proj2 Hg))
      as (s1' & Hnc & Hd & Hc1 & Hnf1 & _).
    rewrite Hnc in Ht. inversion Ht; subst r s1'. clear Ht Hnc.
    destruct (next_result w (PrAlloc.fat_entry (s_disk s) w sc)) as [c|e] eqn:En.
    + inv_bind H as so2 s2 Ha. apply add32_inv in Ha. destruct Ha as (-> & _).
      rewrite <- Hd. apply (IH so2 c s1 so' sc' oe s' (conj Hnf1 Hc1)); [|exact H].
      rewrite Hd. exact (SAFE_next _ _ _ _ Hs En).
    + inversion H; subst. exact Hs.
Qed.

Lemma find_data_result vi w start fs desired s cur r s' :
  good s -> nth_error (s_vols s) vi = Some w -> vol_ok w ->
  SAFE (s_disk s) w fs -> SAFE (s_disk s) w (snd start) ->
  find_data_on_disk vi start fs desired s = (Ok (cur, r), s') ->
  SAFE (s_disk s) w (snd cur) /\ forall blk boff bavail, r = inl (blk, boff, bavail) -> in_data w blk.
Proof.
  intros Hg Hvi Hv Hfs Hst H. unfold find_data_on_disk in H.
  inv_bind H as w1 s0 Hgv. apply get_vol_inv in Hgv. destruct Hgv as (-> & Hw1).
  rewrite Hvi in Hw1. inversion Hw1; subst w1. clear Hw1. cbv zeta in H.
  assert (Hsc : SAFE (s_disk s) w (snd (if desired <? fst start then (0, fs) else start)))
    by (destruct (desired <? fst start); assumption).
  destruct (if desired <? fst start then (0, fs) else start) as [so sc]. cbn [snd] in Hsc.
  destruct (bytes_per_cluster w =? 0); [discriminate H|].
  inv_bind H as x s1 Hw. destruct x as [[so' sc'] oe].
  pose proof (fdod_walk_safe w Hv _ _ _ _ _ _ _ _ Hg Hsc Hw) as Hsafe.
  destruct oe as [e|].
  { inversion H; subst. split; [exact Hsafe|]. intros blk boff bavail E. discriminate E. }
  inv_bind H as ofc s2 Hsub. pose proof (keeps_sub32 _ _ _ _ _ Hsub) as ->.
  destruct (ofc <? bytes_per_cluster w) eqn:Hlt; cbn [negb] in H; [|discriminate H].
  apply N.ltb_lt in Hlt. unfold bytes_per_cluster in Hlt.
  inv_bind H as cb s2 Hcb.
  destruct (SAFE_dcl _ _ _ Hsafe) as (R1 & R2).
  destruct (C04_cluster_to_block_in_data w sc' s1 cb s2 R1 R2 (in_range_not_root w sc' Hv R2) Hcb) as (_ & Hin).
  inv_bind H as blk s3 Hadd. apply add32_inv in Hadd. destruct Hadd as (_ & -> & _).
  inversion H; subst. split; [exact Hsafe|]. intros blk boff bavail E. inversion E; subst.
  apply Hin. lia.
Qed.

(* the three device statements of one iteration: one write, to blk *)
Lemma chunk_ws blk boff (guard : bool) (chunk : list N) s r s' : good s ->
  ((if guard then blank_mut blk else (_ <- cache_read blk ;; ret tt)) ;;;
   cache_modify (fun b => set_bytes b boff chunk) ;;; write_back) s = (r, s') ->
  r = Ok tt /\ steps s s' [blk] /\ same_mgr s s' /\
  (forall j, j <> blk -> disk_get (s_disk s') j = disk_get (s_disk s) j).
Proof.
  intros Hg H.
  assert (Hpre : exists s1, (if guard then blank_mut blk else (_ <- cache_read blk ;; ret tt)) s = (Ok tt, s1) /\
            tsteps s s1 [] /\ s_disk s1 = s_disk s /\ s_tag s1 = Some blk /\ no_faults s1 /\ same_mgr s s1).
  { destruct guard.
    - eexists. split; [reflexivity|]. split; [apply tsteps_same_trace; reflexivity|].
      split; [reflexivity|]. split; [reflexivity|].
      split; [apply (no_faults_step s); [reflexivity|cbn; lia|exact (proj1 Hg)]|].
      unfold same_mgr. cbn. repeat split; reflexivity.
    - destruct (cache_read_spec blk s (proj1 Hg) (proj2 Hg)) as (s1 & E & D1 & T1 & _ & _ & N1 & M1 & _).
      exists s1. split; [unfold bind; rewrite E; reflexivity|].
      destruct (PrOrder.ro_cache_read blk _ _ _ Hg E) as (S1 & _ & _).
      split; [exact (proj1 S1)|]. repeat (split; [assumption|]). exact M1. }
  destruct Hpre as (s1 & E1 & T1 & D1 & Tag1 & N1 & M1).
  rewrite (bind_ok _ _ _ _ _ E1) in H.
  set (s2 := set_s_cache s1 (set_bytes (s_cache s1) boff chunk)) in *.
  assert (E2 : cache_modify (fun b => set_bytes b boff chunk) s1 = (Ok tt, s2)) by reflexivity.
  rewrite (bind_ok _ _ _ _ _ E2) in H.
  assert (T2 : s_tag s2 = Some blk) by exact Tag1.
  assert (N2 : no_faults s2) by (apply (no_faults_step s1); [reflexivity|cbn; lia|exact N1]).
  destruct (write_back_steps blk _ _ _ T2 N2 H) as (-> & [S3 G3] & M3 & _).
  split; [reflexivity|]. split; [|split].
  - split; [|exact G3]. apply (tsteps_trans _ _ _ [] _ T1).
    apply (tsteps_trans _ s2 _ [] _); [apply tsteps_same_trace; reflexivity|exact S3].
  - eapply same_mgr_trans; [exact M1|]. eapply same_mgr_trans; [|exact M3].
    unfold same_mgr. cbn. repeat split; reflexivity.
  - intros j Hj. rewrite (write_back_ok blk s2 T2 N2) in H. inversion H; subst s'. cbn.
    rewrite disk_get_set_other by congruence. exact (f_equal (fun d => disk_get d j) D1).
Qed.

Lemma tr_ext_nil_tsteps s s' : tr_ext s s' [] -> tsteps s s' [].
Proof.
  intros (new & T & W & _). exists new. split; [exact T|].
  rewrite <- dwrites_writes_of. unfold dwrites. rewrite <- map_rev, W. reflexivity.
Qed.

Lemma bind_cases {A B} (m : M A) (k : A -> M B) s r s' : bind m k s = (r, s') ->
  (exists a s1, m s = (Ok a, s1) /\ k a s1 = (r, s')) \/
  (exists r1, m s = (r1, s') /\ (forall a, r1 <> Ok a) /\ (forall b, r <> Ok b)).
Proof.
  unfold bind. destruct (m s) as [[a|e| |] s1]; intros H.
  - left. eauto.
  - right. inversion H; subst. eexists. split; [reflexivity|split; discriminate].
  - right. inversion H; subst. eexists. split; [reflexivity|split; discriminate].
  - right. inversion H; subst. eexists. split; [reflexivity|split; discriminate].
Qed.

Lemma alloc_pre_upd_file vi w fsz s fi g : alloc_pre s vi w fsz -> alloc_pre (PrRw.upd_file s fi g) vi w fsz.
Proof. intros ((A & B & C & D) & FL & Hh). split; [|split; assumption]. split; [exact A|]. split; [exact B|]. split; [exact C|exact D]. Qed.

Section WriteLoopWs.
Variables (vi fi : nat) (v0 : vol) (total fsz : N).
Hypothesis L0 : part_layout v0 total fsz.

Definition Cl0 (i : N) : Prop := in_fat v0 fsz i \/ in_data v0 i.

(* between two iterations: the preconditions of alloc_cluster; the first cluster and the cursor
   cluster of the file record are safe *)
Definition WI (s : st) : Prop :=
  exists w f, same_geom v0 w /\ alloc_pre s vi w fsz /\ nth_error (s_files s) fi = Some f /\
    SAFE (s_disk s) v0 (e_cluster (f_entry f)) /\ SAFE (s_disk s) v0 (f_cur_cluster f).

(* FAT entries do not change when a block of the data area is written *)
Lemma entry_frame d d' blk : in_data v0 blk -> (forall j, j <> blk -> disk_get d' j = disk_get d j) ->
  forall c, dcl v0 c -> PrAlloc.fat_entry d' v0 c = PrAlloc.fat_entry d v0 c.
Proof.
  intros Hb Hfr c (_ & Hc). unfold PrAlloc.fat_entry. rewrite Hfr; [reflexivity|].
  intros E. destruct (C04_fat_sector_in_fat v0 total fsz c L0 Hc) as (F0 & _).
  destruct (C04_regions_disjoint v0 total fsz blk L0) as (_ & Hd & _).
  unfold fat_sector, fat_copy_sector, fat_copy_start in F0. change (0 =? 0) with true in F0. cbv iota in F0.
  change (fat_width v0) with (fat_w v0) in F0. rewrite N.add_assoc, E in F0.
  exact (proj1 (proj2 (Hd (or_introl F0))) Hb).
Qed.

Lemma alloc_pre_data_write w s s' blk : same_geom v0 w -> alloc_pre s vi w fsz -> good s' -> same_mgr s s' ->
  in_data v0 blk -> (forall j, j <> blk -> disk_get (s_disk s') j = disk_get (s_disk s) j) ->
  alloc_pre s' vi w fsz.
Proof.
  intros Hgeo ((_ & _ & Hv & Hlen) & FL & Hh) Hg' M Hb Hfr.
  split; [|split; assumption]. split; [exact (proj1 Hg')|]. split; [exact (proj2 Hg')|].
  split; [exact (same_mgr_vol s s' vi w M Hv)|]. intros k Hk. rewrite Hfr; [exact (Hlen k Hk)|].
  intros E. pose proof (fat_copy_sector_in_fat w fsz 0 k Hk) as Hi. rewrite E in Hi.
  destruct (C04_regions_disjoint v0 total fsz blk L0) as (_ & Hd & _).
  destruct Hgeo as (nf & fc & ->). exact (proj1 (proj2 (Hd Hi)) Hb).
Qed.

(* resolving the position: either it was found, or the chain is extended by alloc_cluster and the
   position is looked up again *)
Lemma locate_ws s w f cur (r : (N * N * N) + err) fstart off ox s2 :
  same_geom v0 w -> alloc_pre s vi w fsz -> nth_error (s_files s) fi = Some f ->
  SAFE (s_disk s) v0 fstart -> SAFE (s_disk s) v0 (snd cur) ->
  (forall blk boff bavail, r = inl (blk, boff, bavail) -> in_data v0 blk) ->
  match r with
  | inl vars => ret (cur, vars)
  | inr EndOfFile =>
      a <- try (alloc_cluster vi (Some (snd cur)) false) ;;
      match a with
      | inr _ => fail DiskFull
      | inl _ =>
          '(cur2, r2) <- find_data_on_disk vi cur fstart off ;;
          match r2 with
          | inl vars => ret (cur2, vars)
          | inr _ => fail AllocationError
          end
      end
  | inr e => fail e
  end s = (ox, s2) ->
  exists ws w2, steps s s2 ws /\ Forall Cl0 ws /\ same_geom v0 w2 /\ alloc_pre s2 vi w2 fsz /\
    s_files s2 = s_files s /\
    (forall c0, SAFE (s_disk s) v0 c0 -> SAFE (s_disk s2) v0 c0) /\
    (forall cur' blk boff bavail, ox = Ok (cur', (blk, boff, bavail)) ->
       SAFE (s_disk s2) v0 (snd cur') /\ in_data v0 blk).
Proof.
  intros Hgeo Hpre Hfi Sfs Scur Hblk H.
  pose proof Hpre as ((Hnf & Hc & Hvi & Hlen) & FL & Hh). pose proof (fl_vol w fsz FL) as Hv.
  assert (Hg : good s) by (split; assumption).
  assert (Hstay : forall o, (o, s2) = (ox, s2) -> s2 = s -> (forall x, o <> Ok x) ->
    exists ws w2, steps s s2 ws /\ Forall Cl0 ws /\ same_geom v0 w2 /\ alloc_pre s2 vi w2 fsz /\
      s_files s2 = s_files s /\ (forall c0, SAFE (s_disk s) v0 c0 -> SAFE (s_disk s2) v0 c0) /\
      (forall cur' blk boff bavail, ox = Ok (cur', (blk, boff, bavail)) ->
         SAFE (s_disk s2) v0 (snd cur') /\ in_data v0 blk)).
  { intros o Eo -> Hno. inversion Eo; subst o. exists [], w. split; [apply steps_refl; exact Hg|].
    split; [constructor|]. split; [exact Hgeo|]. split; [exact Hpre|]. split; [reflexivity|].
    split; [intros c0 Hc0; exact Hc0|]. intros cur' blk boff bavail E. destruct (Hno _ E). }
  destruct r as [[[blk boff] bavail]|e].
  { inversion H; subst ox s2. exists [], w. split; [apply steps_refl; exact Hg|].
    split; [constructor|]. split; [exact Hgeo|]. split; [exact Hpre|]. split; [reflexivity|].
    split; [intros c0 Hc0; exact Hc0|]. intros cur' blk' boff' bavail' E. inversion E; subst.
    split; [exact Scur|exact (Hblk _ _ _ eq_refl)]. }
  destruct e; try (unfold fail in H; inversion H; subst ox s2; apply (Hstay _ eq_refl eq_refl); discriminate).
  (* EndOfFile: extend the chain *)
  assert (Hprev : forall p, Some (snd cur) = Some p -> p < v_clusters w + 2).
  { intros p Ep. inversion Ep; subst p. destruct (SAFE_dcl _ _ _ Scur) as (_ & Hlt).
    destruct Hgeo as (nf & fc & ->). exact Hlt. }
  destruct (alloc_cluster_total vi w fsz (Some (snd cur)) false s Hpre Hprev) as (o & s1 & Hrun & Hres).
  unfold bind at 1 in H. unfold try at 1 in H. rewrite Hrun in H.
  destruct Hres as [(-> & _ & Hd1 & Hm1 & T1 & Hst1)|(c' & -> & Heff)].
  { (* no free cluster: DiskFull, nothing written *)
    unfold fail in H. inversion H; subst ox s2. exists [], w.
    split; [split; [exact (tr_ext_nil_tsteps _ _ T1)|split; [exact (proj1 Hst1)|exact (proj1 (proj2 Hst1))]]|].
    split; [constructor|]. split; [exact Hgeo|]. split; [split; [exact Hst1|split; assumption]|].
    split; [exact (proj1 (proj2 (proj2 Hm1)))|]. split; [intros c0 Hc0; rewrite Hd1; exact Hc0|].
    intros cur' blk boff bavail E. discriminate E. }
  (* a cluster c' was allocated and linked *)
  destruct (alloc_cluster_keeps_pre vi w fsz (Some (snd cur)) false s c' s1 Hpre Hprev Hrun) as (w' & Hw' & Hpre1 & _).
  destruct (alloc_cluster_ws vi w (Some (snd cur)) false s c' s1 Hv Hh Hg Hvi Hrun) as (C1 & C2 & S1 & w'' & Hw'' & Hgeo').
  rewrite Hw' in Hw''. inversion Hw''; subst w''. clear Hw''.
  pose proof (same_geom_trans _ _ _ Hgeo Hgeo') as Hgeo1.
  pose proof (part_layout_geom v0 w total fsz Hgeo L0) as Lw.
  assert (Hfit : v_clusters v0 + 2 <= fat_bad v0) by exact (pl_count v0 total fsz L0).
  assert (Rc' : dcl v0 c') by (destruct Hgeo as (nf & fc & ->); split; assumption).
  assert (Henc : enc v0 c' = c') by (apply PrWrite.fit_enc; [exact Hfit|exact (proj2 Rc')]).
  assert (Enew : PrAlloc.fat_entry (s_disk s1) v0 c' = enc v0 CL_EOF \/ PrAlloc.fat_entry (s_disk s1) v0 c' = c').
  { rewrite fat_entry_get. destruct (N.eq_dec (snd cur) c') as [E|E].
    - right. pose proof (ae_prev _ _ _ _ _ _ _ _ Heff (snd cur) eq_refl) as X. rewrite E in X.
      rewrite <- Henc at 2. destruct Hgeo as (nf & fc & ->). exact X.
    - left. pose proof (ae_new _ _ _ _ _ _ _ _ Heff ltac:(congruence)) as X.
      destruct Hgeo as (nf & fc & ->). exact X. }
  assert (Eprev : forall p, Some (snd cur) = Some p -> PrAlloc.fat_entry (s_disk s1) v0 p = c').
  { intros p Ep. rewrite fat_entry_get. pose proof (ae_prev _ _ _ _ _ _ _ _ Heff p Ep) as X.
    rewrite <- Henc. destruct Hgeo as (nf & fc & ->). exact X. }
  assert (Eother : forall q, dcl v0 q -> q <> c' -> Some (snd cur) <> Some q ->
            PrAlloc.fat_entry (s_disk s1) v0 q = PrAlloc.fat_entry (s_disk s) v0 q).
  { intros q (_ & Hq) Hne Hnp. rewrite !fat_entry_get.
    assert (Hq' : q < v_clusters w + 2) by (destruct Hgeo as (nf & fc & ->); exact Hq).
    pose proof (ae_other _ _ _ _ _ _ _ _ Heff q (layout_sector w fsz q FL Hq') Hne Hnp) as X.
    destruct Hgeo as (nf & fc & ->). exact X. }
  destruct (SAFE_alloc (s_disk s) (s_disk s1) v0 c' (Some (snd cur)) Rc' Enew Eprev Eother) as (Sc' & Skeep).
  assert (Hfiles1 : s_files s1 = s_files s) by exact (proj1 (proj2 (ae_tables _ _ _ _ _ _ _ _ Heff))).
  assert (Fws : Forall Cl0 (alloc_ws w (Some (snd cur)) false c')).
  { eapply Forall_impl; [|exact (alloc_ws_classified w total fsz (Some (snd cur)) false c' Lw C1 C2 Hprev)].
    intros i Hi. destruct Hgeo as (nf & fc & ->). exact Hi. }
  cbv beta iota in H.
  apply bind_cases in H. destruct H as [(x & s2' & Hfd & H)|(r1 & Hfd & _ & Hno)].
  - destruct x as [cur2 r2]. cbv beta iota in H.
    pose proof Hpre1 as ((Hnf1 & Hc1 & Hvi1 & _) & FL1 & _).
    destruct (ro_find_data vi cur fstart off s1 _ _ (conj Hnf1 Hc1) Hfd) as (S2 & M2 & D2).
    destruct (find_data_result vi w' cur fstart off s1 cur2 r2 s2' (conj Hnf1 Hc1) Hvi1 (fl_vol w' fsz FL1)
                ltac:(apply (SAFE_geom _ v0 w' _ Hgeo1); exact (Skeep _ Sfs))
                ltac:(apply (SAFE_geom _ v0 w' _ Hgeo1); exact (Skeep _ Scur)) Hfd) as (Scur2 & Hblk2).
    apply (SAFE_geom _ v0 w' _ Hgeo1) in Scur2.
    assert (Hpre2 : alloc_pre s2' vi w' fsz).
    { apply (PrWrite.alloc_pre_ro vi w' fsz s1 s2' Hpre1).
      split; [exact D2|]. split; [exact (proj2 (proj2 S2))|]. split; [exact (proj1 (proj2 S2))|exact M2]. }
    assert (Hend : s2 = s2' /\ (forall cur' blk boff bavail, ox = Ok (cur', (blk, boff, bavail)) ->
                      cur' = cur2 /\ r2 = inl (blk, boff, bavail))).
    { destruct r2 as [[[b1 b2] b3]|e2]; inversion H; subst; (split; [reflexivity|]);
        intros cur' blk boff bavail E; inversion E; subst; auto. }
    destruct Hend as (-> & Hox).
    exists (alloc_ws w (Some (snd cur)) false c'), w'.
    split; [pose proof (steps_trans _ _ _ _ _ S1 S2) as S; rewrite app_nil_r in S; exact S|].
    split; [exact Fws|]. split; [exact Hgeo1|]. split; [exact Hpre2|].
    split; [rewrite (proj1 (proj2 (proj2 M2))); exact Hfiles1|].
    split; [intros c0 Hc0; rewrite D2; exact (Skeep _ Hc0)|].
    intros cur' blk boff bavail E. destruct (Hox _ _ _ _ E) as (-> & Er2).
    split; [rewrite D2; exact Scur2|]. pose proof (Hblk2 _ _ _ Er2) as X.
    destruct Hgeo1 as (nf & fc & ->). exact X.
  - pose proof Hpre1 as ((Hnf1 & Hc1 & Hvi1 & _) & FL1 & _).
    destruct (ro_find_data vi cur fstart off s1 _ _ (conj Hnf1 Hc1) Hfd) as (S2 & M2 & D2).
    exists (alloc_ws w (Some (snd cur)) false c'), w'.
    split; [pose proof (steps_trans _ _ _ _ _ S1 S2) as S; rewrite app_nil_r in S; exact S|].
    split; [exact Fws|]. split; [exact Hgeo1|].
    split; [apply (PrWrite.alloc_pre_ro vi w' fsz s1 s2 Hpre1);
            split; [exact D2|]; split; [exact (proj2 (proj2 S2))|]; split; [exact (proj1 (proj2 S2))|exact M2]|].
    split; [rewrite (proj1 (proj2 (proj2 M2))); exact Hfiles1|].
    split; [intros c0 Hc0; rewrite D2; exact (Skeep _ Hc0)|].
    intros cur' blk boff bavail E. destruct (Hno _ E).
Qed.
(* write_loop, any outcome (Ok, DiskFull part-way, any error): every block written is a FAT
   sector or a block of the data area *)
Lemma write_loop_ws : forall fuel data s r s', WI s -> write_loop fuel fi vi data s = (r, s') ->
  exists ws, tsteps s s' ws /\ Forall Cl0 ws.
Proof.
  induction fuel as [|fu IH]; intros data s r s' HWI H.
  { inversion H; subst. exists []. split; [apply tsteps_refl|constructor]. }
  destruct data as [|x0 t0] eqn:Edata.
  { inversion H; subst. exists []. split; [apply tsteps_refl|constructor]. }
  rewrite <- Edata in *. assert (Hdata : data <> []) by (rewrite Edata; discriminate). clear x0 t0 Edata.
  rewrite (PrRw.write_loop_unfold fu fi vi data s Hdata) in H.
  destruct HWI as (w & f & Hgeo & Hpre & Hfi & Sf & Sc).
  pose proof Hpre as ((Hnf & Hc & Hvi & Hlen) & FL & Hh). pose proof (fl_vol w fsz FL) as Hv.
  assert (Hg : good s) by (split; assumption).
  rewrite (bind_ok _ _ _ _ _ (PrRw.get_file_some fi f s Hfi)) in H. cbv zeta in H.
  apply bind_cases in H. destruct H as [(x1 & s1 & Hfd & H)|(r1 & Hfd & _)].
  2:{ destruct (ro_find_data _ _ _ _ s _ _ Hg Hfd) as ((T & _) & _). exists []. split; [exact T|constructor]. }
  destruct x1 as [cur r1]. cbv beta iota in H.
  destruct (ro_find_data _ _ _ _ s _ _ Hg Hfd) as (S1 & M1 & D1).
  destruct (find_data_result vi w (f_cur_off f, f_cur_cluster f) (e_cluster (f_entry f)) (f_offset f) s cur r1 s1 Hg Hvi Hv
              ltac:(apply (SAFE_geom _ v0 w _ Hgeo); exact Sf)
              ltac:(apply (SAFE_geom _ v0 w _ Hgeo); exact Sc) Hfd) as (Scur & Hblk).
  apply (SAFE_geom _ v0 w _ Hgeo) in Scur.
  assert (Hblk0 : forall blk boff bavail, r1 = inl (blk, boff, bavail) -> in_data v0 blk).
  { intros blk boff bavail E. pose proof (Hblk _ _ _ E) as X. destruct Hgeo as (nf & fc & ->). exact X. }
  assert (Hpre1 : alloc_pre s1 vi w fsz).
  { apply (PrWrite.alloc_pre_ro vi w fsz s s1 Hpre).
    split; [exact D1|]. split; [exact (proj2 (proj2 S1))|]. split; [exact (proj1 (proj2 S1))|exact M1]. }
  assert (Hfi1 : nth_error (s_files s1) fi = Some f) by (rewrite (proj1 (proj2 (proj2 M1))); exact Hfi).
  apply bind_cases in H. destruct H as [(x2 & s2 & Hloc & H)|(r2 & Hloc & _)].
  2:{ destruct (locate_ws s1 w f cur r1 _ _ r2 s' Hgeo Hpre1 Hfi1
                  ltac:(rewrite D1; exact Sf) ltac:(rewrite D1; exact Scur) Hblk0 Hloc)
        as (ws & w2 & S2 & F2 & _).
      exists ws. split; [exact (proj1 (steps_trans _ _ _ [] _ S1 S2))|exact F2]. }
  destruct (locate_ws s1 w f cur r1 _ _ (Ok x2) s2 Hgeo Hpre1 Hfi1
              ltac:(rewrite D1; exact Sf) ltac:(rewrite D1; exact Scur) Hblk0 Hloc)
    as (ws2 & w2 & S2 & F2 & Hgeo2 & Hpre2 & Hfiles2 & Skeep2 & Hx2).
  destruct x2 as [cur' [[blk boff] bavail]].
  destruct (Hx2 _ _ _ _ eq_refl) as (Scur' & Hin).
  unfold PrRw.wl_tail in H. cbv beta iota zeta in H.
  rewrite PrRw.seq_assoc3 in H.
  apply bind_cases in H. destruct H as [(u & s3 & Hch & H)|(r3 & Hch & Hno & _)].
  2:{ destruct (chunk_ws _ _ _ _ _ _ _ (proj2 S2) Hch) as (-> & _). destruct (Hno tt eq_refl). }
  destruct (chunk_ws _ _ _ _ _ _ _ (proj2 S2) Hch) as (_ & S3 & M3 & Hfr3).
  assert (Hfi3 : nth_error (s_files s3) fi = Some f)
    by (rewrite (proj1 (proj2 (proj2 M3))), Hfiles2; exact Hfi1).
  rewrite (bind_ok _ _ _ _ _ (PrRw.get_file_some fi f s3 Hfi3)) in H.
  rewrite PrRw.put_file_ok' in H.
  match type of H with write_loop _ _ _ _ (PrRw.upd_file _ _ ?g) = _ => set (f' := g) in * end.
  assert (Hpre3 : alloc_pre s3 vi w2 fsz)
    by exact (alloc_pre_data_write w2 s2 s3 blk Hgeo2 Hpre2 (proj2 S3) M3 Hin Hfr3).
  assert (Skeep3 : forall c0, SAFE (s_disk s2) v0 c0 -> SAFE (s_disk s3) v0 c0).
  { intros c0 Hc0 k. apply (safe_ext (s_disk s2) (s_disk s3) v0 (entry_frame _ _ blk Hin Hfr3)). exact (Hc0 k). }
  assert (HWI3 : WI (PrRw.upd_file s3 fi f')).
  { exists w2, f'. split; [exact Hgeo2|]. split; [apply alloc_pre_upd_file; exact Hpre3|].
    split; [exact (list_set_nth_same _ _ _ _ Hfi3)|].
    change (s_disk (PrRw.upd_file s3 fi f')) with (s_disk s3).
    split.
    - replace (e_cluster (f_entry f')) with (e_cluster (f_entry f)).
      + apply Skeep3, Skeep2. rewrite D1. exact Sf.
      + subst f'. cbn [f_entry set_f_offset set_f_entry].
        match goal with |- context [if ?b then _ else _] => destruct b end; reflexivity.
    - change (f_cur_cluster f') with (snd cur'). apply Skeep3. exact Scur'. }
  destruct (IH _ _ _ _ HWI3 H) as (ws4 & T4 & F4).
  exists (ws2 ++ [blk] ++ ws4). split.
  - pose proof (tsteps_trans _ _ _ _ _ (proj1 S1) (tsteps_trans _ _ _ _ _ (proj1 S2)
                 (tsteps_trans _ _ _ _ _ (proj1 S3)
                    (tsteps_trans _ _ _ [] _ (tsteps_same_trace s3 (PrRw.upd_file s3 fi f') eq_refl) T4)))) as T.
    cbn [app] in T |- *. exact T.
  - apply Forall_app. split; [exact F2|]. apply Forall_cons; [right; exact Hin|exact F4].
Qed.
End WriteLoopWs.

Lemma mw_tail_trace fi s r s' : PrWrite.mw_tail fi s = (r, s') -> s_trace s' = s_trace s.
Proof.
  unfold PrWrite.mw_tail, get_file, get_timestamp, put_file, bind, get, modify, ret, panic.
  destruct (nth_error (s_files s) fi); intros H; inversion H; reflexivity.
Qed.

Lemma mw_loop_tail_ws vi fi v total fsz data s o s' : part_layout v total fsz -> WI vi fi v fsz s ->
  (f3 <- get_file fi ;;
   let to_write := N.min (N.of_nat (length data)) (MAX_FILE_SIZE - f_offset f3) in
   write_loop (N.to_nat (to_write / 512) + 3) fi vi (firstn (N.to_nat to_write) data) ;;;
   PrWrite.mw_tail fi) s = (o, s') ->
  exists ws, tsteps s s' ws /\ Forall (Cl0 v fsz) ws.
Proof.
  intros L HWI H. pose proof HWI as (w & f3 & _ & _ & Hfi & _).
  rewrite (bind_ok _ _ _ _ _ (PrRw.get_file_some fi f3 s Hfi)) in H. cbv zeta in H.
  apply bind_cases in H. destruct H as [(u & s1 & Hloop & H)|(r1 & Hloop & _)].
  - destruct (write_loop_ws vi fi v total fsz L _ _ _ _ _ HWI Hloop) as (ws & T & F).
    exists ws. split; [|exact F].
    pose proof (tsteps_trans _ _ _ _ [] T (tsteps_same_trace _ _ (mw_tail_trace _ _ _ _ H))) as T'.
    rewrite app_nil_r in T'. exact T'.
  - exact (write_loop_ws vi fi v total fsz L _ _ _ _ _ HWI Hloop).
Qed.

(* C04 for mgr_write, trace form: for ANY outcome of the call (Ok, ReadOnly refusal, DiskFull
   part-way, NotEnoughSpace, ...), every block the call writes is a FAT sector of the volume or
   a block of its data area *)
Theorem C04_mgr_write fsz total h data s fi f vi v ch o s' :
  part_layout v total fsz -> PrWrite.mw_pre fsz h s fi f vi v ch ->
  mgr_write h data s = (o, s') ->
  exists ws, tsteps s s' ws /\ Forall (fun i => in_fat v fsz i \/ in_data v i) ws.
Proof.
  intros L [Hl Hh Hfi Hvol Hpre Hfit Hspc Hwf Hchain Hoff Hsize H32] H.
  rewrite (PrWrite.mgr_write_unfold h data s fi f vi Hl Hh Hfi Hvol) in H.
  destruct (mode_eqb (f_mode f) ReadOnly).
  { inversion H; subst. exists []. split; [apply tsteps_refl|constructor]. }
  set (f0 := set_f_dirty f true) in *. set (s0 := PrRw.upd_file s fi f0) in *.
  assert (T0 : tsteps s s0 []) by (apply tsteps_same_trace; reflexivity).
  assert (Hpre0 : alloc_pre s0 vi v fsz) by (apply alloc_pre_upd_file; exact Hpre).
  assert (Hfi0 : nth_error (s_files s0) fi = Some f0) by exact (list_set_nth_same _ _ _ _ Hfi).
  assert (Hprev0 : forall p, @None N = Some p -> p < v_clusters v + 2) by (intros p Ep; discriminate Ep).
  pose proof Hpre0 as ((Hnf0 & Hc0 & Hvi0 & _) & FL & Hh0). pose proof (fl_vol v fsz FL) as Hv.
  assert (Hfirst : forall o1 s1, PrWrite.mw_first fi vi f s0 = (o1, s1) ->
    exists ws, tsteps s0 s1 ws /\ Forall (Cl0 v fsz) ws /\
      (forall u, o1 = Ok u -> exists w f1, same_geom v w /\ alloc_pre s1 vi w fsz /\
         nth_error (s_files s1) fi = Some f1 /\ f_vol f1 = f_vol f /\
         find_idx (fun x => v_id x =? f_vol f) (s_vols s1) 0 = Some vi /\
         SAFE (s_disk s1) v (e_cluster (f_entry f1)) /\
         (f_cur_cluster f1 < e_cluster (f_entry f1) \/ SAFE (s_disk s1) v (f_cur_cluster f1)))).
  { intros o1 s1 H1. unfold PrWrite.mw_first in H1.
    destruct (e_cluster (f_entry f) <? RESERVED_ENTRIES) eqn:Elt.
    - apply N.ltb_lt in Elt. unfold RESERVED_ENTRIES in Elt.
      destruct Hchain as [(Hge & _)|(_ & _ & Hcur)]; [lia|].
      destruct (alloc_cluster_total vi v fsz None false s0 Hpre0 Hprev0) as (oa & sa & Hrun & Hres).
      unfold bind at 1 in H1. rewrite Hrun in H1.
      destruct Hres as [(-> & _ & _ & _ & T & _)|(c & -> & Heff)].
      + inversion H1; subst. exists []. split; [exact (tr_ext_nil_tsteps _ _ T)|]. split; [constructor|].
        intros u E. discriminate E.
      + assert (Hfia : nth_error (s_files sa) fi = Some f0)
          by (rewrite (proj1 (proj2 (ae_tables _ _ _ _ _ _ _ _ Heff))); exact Hfi0).
        rewrite (bind_ok _ _ _ _ _ (PrRw.get_file_some fi f0 sa Hfia)) in H1.
        rewrite PrRw.put_file_ok in H1. inversion H1; subst o1 s1. clear H1.
        destruct (alloc_cluster_keeps_pre vi v fsz None false s0 c sa Hpre0 Hprev0 Hrun) as (w' & Hw' & Hprea & _).
        destruct (alloc_cluster_ws vi v None false s0 c sa Hv Hh0 (conj Hnf0 Hc0) Hvi0 Hrun)
          as (C1 & C2 & S1 & w'' & Hw'' & Hgeo).
        rewrite Hw' in Hw''. inversion Hw''; subst w''. clear Hw''.
        exists (alloc_ws v None false c). split.
        { rewrite <- (app_nil_r (alloc_ws v None false c)). apply (tsteps_trans _ sa _ _ [] (proj1 S1)).
          apply tsteps_same_trace. reflexivity. }
        split; [exact (alloc_ws_classified v total fsz None false c L C1 C2 Hprev0)|].
        intros u _. eexists w', _. split; [exact Hgeo|]. split; [apply alloc_pre_upd_file; exact Hprea|].
        split; [exact (list_set_nth_same _ _ _ _ Hfia)|]. split; [reflexivity|].
        split.
        { unfold PrRw.upd_file. cbn [s_vols set_s_files].
          destruct (ae_vol _ _ _ _ _ _ _ _ Heff) as (nf & Ev & _). rewrite Ev.
          apply (PrWrite.find_vol_set _ _ vi v); [exact Hvol|exact Hvi0|reflexivity]. }
        cbn [f_entry set_f_entry e_cluster set_e_cluster f_cur_cluster s_disk PrRw.upd_file set_s_files].
        split; [|left; subst f0; cbn [f_cur_cluster set_f_dirty]; lia].
        apply SAFE_eof; [split; assumption|]. rewrite fat_entry_get.
        exact (ae_new _ _ _ _ _ _ _ _ Heff ltac:(discriminate)).
    - apply N.ltb_ge in Elt. unfold RESERVED_ENTRIES in Elt.
      inversion H1; subst o1 s1. exists []. split; [apply tsteps_refl|]. split; [constructor|].
      intros u _. exists v, f0. split; [apply same_geom_refl|]. split; [exact Hpre0|].
      split; [exact Hfi0|]. split; [reflexivity|]. split; [exact Hvol|].
      destruct Hchain as [(_ & (fu & Hch) & (k & _ & Hk))|(Hlt & _)]; [|lia].
      change (s_disk s0) with (s_disk s). cbn [f_entry f0 set_f_dirty f_cur_cluster].
      destruct (chain_of_head _ _ _ _ _ Hch) as (_ & _ & l' & El).
      split; [apply (chain_safe _ _ _ _ _ Hch); rewrite El; left; reflexivity|].
      right. apply (chain_safe _ _ _ _ _ Hch). exact (nth_error_In _ _ Hk). }
  apply bind_cases in H. destruct H as [(u & s1 & H1 & H)|(r1 & H1 & _)].
  2:{ destruct (Hfirst _ _ H1) as (ws & T & F & _). exists ws. split; [|exact F].
      exact (tsteps_trans _ _ _ [] _ T0 T). }
  destruct (Hfirst _ _ H1) as (ws1 & T1 & F1 & Hinv).
  destruct (Hinv u eq_refl) as (w & f1 & Hgeo & Hpre1 & Hfi1 & Hfv & Hvol1 & Sfirst & Scur).
  unfold PrWrite.mw_rest in H.
  rewrite (bind_ok _ _ _ _ _ (PrRw.get_file_some fi f1 s1 Hfi1)) in H.
  rewrite Hfv in H. rewrite (bind_ok _ _ _ _ _ (PrWrite.get_volume_by_id_ok _ s1 vi Hvol1)) in H.
  assert (Hrest : exists s2, tsteps s1 s2 [] /\ WI vi fi v fsz s2 /\
            (f3 <- get_file fi ;;
             let to_write := N.min (N.of_nat (length data)) (MAX_FILE_SIZE - f_offset f3) in
             write_loop (N.to_nat (to_write / 512) + 3) fi vi (firstn (N.to_nat to_write) data) ;;;
             PrWrite.mw_tail fi) s2 = (o, s')).
  { destruct (f_cur_cluster f1 <? e_cluster (f_entry f1)) eqn:Ecur.
    - rewrite PrRw.put_file_ok' in H. eexists. split; [|split; [|exact H]].
      + apply tsteps_same_trace. reflexivity.
      + eexists w, _. split; [exact Hgeo|]. split; [apply alloc_pre_upd_file; exact Hpre1|].
        split; [exact (list_set_nth_same _ _ _ _ Hfi1)|]. split; exact Sfirst.
    - exists s1. split; [apply tsteps_refl|]. split; [|exact H].
      exists w, f1. split; [exact Hgeo|]. split; [exact Hpre1|]. split; [exact Hfi1|]. split; [exact Sfirst|].
      apply N.ltb_ge in Ecur. destruct Scur as [Hlt|Hs]; [lia|exact Hs]. }
  destruct Hrest as (s2 & T2 & HWI2 & Hrun).
  destruct (mw_loop_tail_ws vi fi v total fsz data s2 o s' L HWI2 Hrun) as (ws3 & T3 & F3).
  exists (ws1 ++ ws3). split; [|apply Forall_app; split; assumption].
  exact (tsteps_trans _ _ _ [] _ T0 (tsteps_trans _ _ _ _ _ T1 (tsteps_trans _ _ _ [] _ T2 T3))).
Qed.

(* ================================================================== 4. never outside *)
(* A write list all of whose elements are classified lies strictly inside the partition, above
   the boot sector, and ends before the end of the data area: block 0 (the master boot record),
   the boot sector v_lba, every block of another partition (< v_lba or >= v_lba + total) and
   every block at or after the end of the last cluster are never written. *)
Definition never_outside (v : vol) (total : N) (ws : list N) : Prop :=
  Forall (in_volume v total) ws /\ Forall (fun i => i < v_lba v + v_first_data v + v_clusters v * v_spc v) ws.

Lemma classified_never_outside v total fsz ws : part_layout v total fsz ->
  Forall (in_region v fsz) ws -> never_outside v total ws.
Proof.
  intros L F. split; (eapply Forall_impl; [|exact F]); intros i Hi;
    destruct (C04_regions_inside v total fsz i L Hi) as (A & B); [exact A|].
  unfold data_end in B. lia.
Qed.

Lemma never_outside_spelled v total ws : never_outside v total ws ->
  forall i, In i ws ->
    i <> 0 /\ i <> v_lba v /\ ~ i < v_lba v /\ ~ v_lba v + total <= i /\
    ~ v_lba v + v_first_data v + v_clusters v * v_spc v <= i.
Proof.
  intros (F1 & F2) i Hi. rewrite Forall_forall in F1, F2.
  destruct (F1 i Hi) as (A & B). specialize (F2 i Hi). cbv beta in F2. lia.
Qed.

Lemma region_of_fat v fsz i : in_fat v fsz i -> in_region v fsz i.
Proof. intros H. left. exact H. Qed.
Lemma region_of_fat_data v fsz i : in_fat v fsz i \/ in_data v i -> in_region v fsz i.
Proof. intros [H|H]; [left; exact H|right; left; exact H]. Qed.
Lemma region_of_fat_data_root v fsz i : in_fat v fsz i \/ in_data v i \/ in_root16 v i -> in_region v fsz i.
Proof. intros [H|[H|H]]; [left; exact H|right; left; exact H|right; right; left; exact H]. Qed.
Lemma region_of_dir v fsz i : in_dir v i -> in_region v fsz i.
Proof. intros [H|H]; [right; left; exact H|right; right; left; exact H]. Qed.
Lemma region_of_info v fsz i : is_info v i -> in_region v fsz i.
Proof. intros H. right. right. right. exact H. Qed.

(* C04, the corollary, operation by operation: the write list of each successful run (the
   list ws with PrOrder.tsteps s s' ws is unique, tsteps_det) is never_outside *)
Theorem C04_never_outside_update_fat vi v total fsz c x s s' :
  part_layout v total fsz -> good s -> nth_error (s_vols s) vi = Some v -> c < v_clusters v + 2 ->
  update_fat vi c x s = (Ok tt, s') ->
  exists ws, tsteps s s' ws /\ never_outside v total ws.
Proof.
  intros L Hg Hv Hc H. destruct (C04_update_fat vi v total fsz c x s s' L Hg Hv Hc H) as (T & F).
  exists (fat_writes v c). split; [exact T|]. apply (classified_never_outside v total fsz _ L).
  exact (Forall_impl _ (region_of_fat v fsz) F).
Qed.

Theorem C04_never_outside_update_info_sector vi v total fsz s s' :
  part_layout v total fsz -> good s -> nth_error (s_vols s) vi = Some v ->
  update_info_sector vi s = (Ok tt, s') ->
  exists ws, tsteps s s' ws /\ never_outside v total ws.
Proof.
  intros L Hg Hv H. destruct (C04_update_info_sector vi v total fsz s s' L Hg Hv H) as (ws & T & F).
  exists ws. split; [exact T|]. apply (classified_never_outside v total fsz _ L).
  exact (Forall_impl _ (region_of_info v fsz) F).
Qed.

Theorem C04_never_outside_alloc_cluster vi v total fsz prev zero s c s' :
  part_layout v total fsz -> vol_ok v -> hint_ok v -> good s -> nth_error (s_vols s) vi = Some v ->
  (forall p, prev = Some p -> p < v_clusters v + 2) ->
  alloc_cluster vi prev zero s = (Ok c, s') ->
  exists ws, tsteps s s' ws /\ never_outside v total ws.
Proof.
  intros L Hok Hh Hg Hv Hprev H.
  destruct (C04_alloc_cluster vi v total fsz prev zero s c s' L Hok Hh Hg Hv Hprev H) as (T & F).
  exists (alloc_ws v prev zero c). split; [exact T|]. apply (classified_never_outside v total fsz _ L).
  exact (Forall_impl _ (region_of_fat_data v fsz) F).
Qed.

Theorem C04_never_outside_truncate vi v total fsz s c rest fuel s' :
  part_layout v total fsz -> fat_layout v fsz -> st_ok vi v fsz s ->
  chain_of (s_disk s) v c fuel = Some (c :: rest) ->
  truncate_cluster_chain vi c s = (Ok tt, s') ->
  exists ws, tsteps s s' ws /\ never_outside v total ws.
Proof.
  intros L FL Hst Hch H.
  destruct (C04_truncate_cluster_chain vi v total fsz s c rest fuel s' L FL Hst Hch H) as (T & F).
  eexists. split; [exact T|]. apply (classified_never_outside v total fsz _ L).
  exact (Forall_impl _ (region_of_fat v fsz) F).
Qed.

Theorem C04_never_outside_free vi v total fsz s c rest fuel s' :
  part_layout v total fsz -> fat_layout v fsz -> st_ok vi v fsz s ->
  chain_of (s_disk s) v c fuel = Some (c :: rest) ->
  free_cluster_chain vi c s = (Ok tt, s') ->
  exists ws, tsteps s s' ws /\ never_outside v total ws.
Proof.
  intros L FL Hst Hch H.
  destruct (C04_free_cluster_chain vi v total fsz s c rest fuel s' L FL Hst Hch H) as (T & F).
  eexists. split; [exact T|]. apply (classified_never_outside v total fsz _ L).
  exact (Forall_impl _ (region_of_fat v fsz) F).
Qed.

Theorem C04_never_outside_write_entry v total fsz e s s' :
  part_layout v total fsz -> good s -> in_dir v (e_block e) ->
  write_entry_to_disk v e s = (Ok tt, s') ->
  exists ws, tsteps s s' ws /\ never_outside v total ws.
Proof.
  intros L Hg Hd H. destruct (C04_write_entry_to_disk v total fsz e s s' L Hg Hd H) as (T & F & _).
  eexists. split; [exact T|]. apply (classified_never_outside v total fsz _ L).
  exact (Forall_impl _ (region_of_dir v fsz) F).
Qed.

Theorem C04_never_outside_flush_file s h fi f vi v total fsz s' :
  part_layout v total fsz -> good s -> PrSeek.resolves s h fi f -> PrEntry.file_vol s f vi v ->
  in_dir v (e_block (f_entry f)) ->
  flush_file h s = (Ok tt, s') ->
  exists ws, tsteps s s' ws /\ never_outside v total ws.
Proof.
  intros L Hg Hr Hfv Hd H.
  destruct (C04_flush_file s h fi f vi v total fsz s' L Hg Hr Hfv Hd H) as (ws & T & F & _).
  exists ws. split; [exact T|]. apply (classified_never_outside v total fsz _ L).
  eapply Forall_impl; [|exact F]. intros i [Hi| ->]; [exact (region_of_info v fsz i Hi)|exact (region_of_dir v fsz _ Hd)].
Qed.

Theorem C04_never_outside_write_new_directory_entry vi v total fsz dc name attr fc s bl e s' :
  part_layout v total fsz -> alloc_pre s vi v fsz -> dir_blocks (s_disk s) v dc = Some bl ->
  write_new_directory_entry vi dc name attr fc s = (Ok e, s') ->
  exists ws, tsteps s s' ws /\ never_outside v total ws.
Proof.
  intros L Hpre Hbl H.
  destruct (C04_write_new_directory_entry vi v total fsz dc name attr fc s bl e s' L Hpre Hbl H)
    as (gw & T & F & D).
  exists (gw ++ [e_block e]). split; [exact T|]. apply (classified_never_outside v total fsz _ L).
  apply Forall_app. split; [exact (Forall_impl _ (region_of_fat_data v fsz) F)|].
  apply Forall_cons; [exact (region_of_dir v fsz _ D)|constructor].
Qed.

Theorem C04_never_outside_make_dir vi v total fsz parent sfn att s bl s' :
  part_layout v total fsz -> alloc_pre s vi v fsz -> dir_blocks (s_disk s) v parent = Some bl ->
  make_dir vi parent sfn att s = (Ok tt, s') ->
  exists ws, tsteps s s' ws /\ never_outside v total ws.
Proof.
  intros L Hpre Hbl H.
  destruct (C04_make_dir vi v total fsz parent sfn att s bl s' L Hpre Hbl H)
    as (c & gw & pblk & _ & _ & T & _ & _ & F).
  eexists. split; [exact T|]. apply (classified_never_outside v total fsz _ L).
  exact (Forall_impl _ (region_of_fat_data_root v fsz) F).
Qed.

Theorem C04_never_outside_mgr_write fsz total h data s fi f vi v ch o s' :
  part_layout v total fsz -> PrWrite.mw_pre fsz h s fi f vi v ch ->
  mgr_write h data s = (o, s') ->
  exists ws, tsteps s s' ws /\ never_outside v total ws.
Proof.
  intros L Hmw H. destruct (C04_mgr_write fsz total h data s fi f vi v ch o s' L Hmw H) as (ws & T & F).
  exists ws. split; [exact T|]. apply (classified_never_outside v total fsz _ L).
  exact (Forall_impl _ (region_of_fat_data v fsz) F).
Qed.

(* ---- the whole of C04 in one statement, parametrised by what is said of a run s -> s' ---- *)
Definition C04_statement (v : vol) (total fsz : N) (Q : st -> st -> Prop) : Prop :=
  (forall vi c x s s', good s -> nth_error (s_vols s) vi = Some v -> c < v_clusters v + 2 ->
     update_fat vi c x s = (Ok tt, s') -> Q s s') /\
  (forall vi s s', good s -> nth_error (s_vols s) vi = Some v ->
     update_info_sector vi s = (Ok tt, s') -> Q s s') /\
  (forall vi prev zero s c s', vol_ok v -> hint_ok v -> good s -> nth_error (s_vols s) vi = Some v ->
     (forall p, prev = Some p -> p < v_clusters v + 2) ->
     alloc_cluster vi prev zero s = (Ok c, s') -> Q s s') /\
  (forall vi s c rest fuel s', fat_layout v fsz -> st_ok vi v fsz s ->
     chain_of (s_disk s) v c fuel = Some (c :: rest) ->
     truncate_cluster_chain vi c s = (Ok tt, s') -> Q s s') /\
  (forall vi s c rest fuel s', fat_layout v fsz -> st_ok vi v fsz s ->
     chain_of (s_disk s) v c fuel = Some (c :: rest) ->
     free_cluster_chain vi c s = (Ok tt, s') -> Q s s') /\
  (forall e s s', good s -> in_dir v (e_block e) -> write_entry_to_disk v e s = (Ok tt, s') -> Q s s') /\
  (forall s h fi f vi s', good s -> PrSeek.resolves s h fi f -> PrEntry.file_vol s f vi v ->
     in_dir v (e_block (f_entry f)) -> flush_file h s = (Ok tt, s') -> Q s s') /\
  (forall vi dc name attr fc s bl e s', alloc_pre s vi v fsz -> dir_blocks (s_disk s) v dc = Some bl ->
     write_new_directory_entry vi dc name attr fc s = (Ok e, s') -> Q s s') /\
  (forall vi parent sfn att s bl s', alloc_pre s vi v fsz -> dir_blocks (s_disk s) v parent = Some bl ->
     make_dir vi parent sfn att s = (Ok tt, s') -> Q s s') /\
  (forall h data s fi f vi ch o s', PrWrite.mw_pre fsz h s fi f vi v ch ->
     mgr_write h data s = (o, s') -> Q s s').

Definition wrote_classified (v : vol) (fsz : N) (s s' : st) : Prop :=
  exists ws, tsteps s s' ws /\ Forall (in_region v fsz) ws.
Definition wrote_inside (v : vol) (total : N) (s s' : st) : Prop :=
  exists ws, tsteps s s' ws /\ never_outside v total ws.

(* C04: every block written by these operations lies in a region of the volume operated on:
   a FAT copy, the data area, the FAT16 root region, the information sector *)
Theorem C04_writes_classified v total fsz : part_layout v total fsz ->
  C04_statement v total fsz (wrote_classified v fsz).
Proof.
  intros L. unfold C04_statement, wrote_classified.
  split; [|split; [|split; [|split; [|split; [|split; [|split; [|split; [|split]]]]]]]].
  - intros vi c x s s' Hg Hv Hc H. destruct (C04_update_fat vi v total fsz c x s s' L Hg Hv Hc H) as (T & F).
    eexists. split; [exact T|exact (Forall_impl _ (region_of_fat v fsz) F)].
  - intros vi s s' Hg Hv H. destruct (C04_update_info_sector vi v total fsz s s' L Hg Hv H) as (ws & T & F).
    exists ws. split; [exact T|exact (Forall_impl _ (region_of_info v fsz) F)].
  - intros vi prev zero s c s' Hok Hh Hg Hv Hprev H.
    destruct (C04_alloc_cluster vi v total fsz prev zero s c s' L Hok Hh Hg Hv Hprev H) as (T & F).
    eexists. split; [exact T|exact (Forall_impl _ (region_of_fat_data v fsz) F)].
  - intros vi s c rest fuel s' FL Hst Hch H.
    destruct (C04_truncate_cluster_chain vi v total fsz s c rest fuel s' L FL Hst Hch H) as (T & F).
    eexists. split; [exact T|exact (Forall_impl _ (region_of_fat v fsz) F)].
  - intros vi s c rest fuel s' FL Hst Hch H.
    destruct (C04_free_cluster_chain vi v total fsz s c rest fuel s' L FL Hst Hch H) as (T & F).
    eexists. split; [exact T|exact (Forall_impl _ (region_of_fat v fsz) F)].
  - intros e s s' Hg Hd H. destruct (C04_write_entry_to_disk v total fsz e s s' L Hg Hd H) as (T & F & _).
    eexists. split; [exact T|exact (Forall_impl _ (region_of_dir v fsz) F)].
  - intros s h fi f vi s' Hg Hr Hfv Hd H.
    destruct (C04_flush_file s h fi f vi v total fsz s' L Hg Hr Hfv Hd H) as (ws & T & F & _).
    exists ws. split; [exact T|]. eapply Forall_impl; [|exact F].
    intros i [Hi| ->]; [exact (region_of_info v fsz i Hi)|exact (region_of_dir v fsz _ Hd)].
  - intros vi dc name attr fc s bl e s' Hpre Hbl H.
    destruct (C04_write_new_directory_entry vi v total fsz dc name attr fc s bl e s' L Hpre Hbl H) as (gw & T & F & D).
    exists (gw ++ [e_block e]). split; [exact T|].
    apply Forall_app. split; [exact (Forall_impl _ (region_of_fat_data v fsz) F)|].
    apply Forall_cons; [exact (region_of_dir v fsz _ D)|constructor].
  - intros vi parent sfn att s bl s' Hpre Hbl H.
    destruct (C04_make_dir vi v total fsz parent sfn att s bl s' L Hpre Hbl H) as (c & gw & pblk & _ & _ & T & _ & _ & F).
    eexists. split; [exact T|exact (Forall_impl _ (region_of_fat_data_root v fsz) F)].
  - intros h data s fi f vi ch o s' Hmw H.
    destruct (C04_mgr_write fsz total h data s fi f vi v ch o s' L Hmw H) as (ws & T & F).
    exists ws. split; [exact T|exact (Forall_impl _ (region_of_fat_data v fsz) F)].
Qed.

(* C04, the corollary: none of these writes hits block 0 (the master boot record), the boot
   sector v_lba, a block below v_lba or at/after v_lba + total (another partition), or a block
   at/after the end of the data area *)
Theorem C04_never_outside v total fsz : part_layout v total fsz ->
  C04_statement v total fsz (wrote_inside v total).
Proof.
  intros L. destruct (C04_writes_classified v total fsz L) as (A1 & A2 & A3 & A4 & A5 & A6 & A7 & A8 & A9 & A10).
  assert (Hm : forall s s', wrote_classified v fsz s s' -> wrote_inside v total s s').
  { intros s s' (ws & T & F). exists ws. split; [exact T|exact (classified_never_outside v total fsz ws L F)]. }
  unfold C04_statement.
  split; [|split; [|split; [|split; [|split; [|split; [|split; [|split; [|split]]]]]]]]; intros; apply Hm.
  - eapply A1; eassumption.
  - eapply A2; eassumption.
  - eapply A3; eassumption.
  - eapply A4; eassumption.
  - eapply A5; eassumption.
  - eapply A6; eassumption.
  - eapply A7; eassumption.
  - eapply A8; eassumption.
  - eapply A9; eassumption.
  - eapply A10; eassumption.
Qed.

(* ================================================================== 5. examples *)
(* a decision procedure for the layout (also usable as a run-time oracle on a mounted volume) *)
Definition part_layoutb (v : vol) (total fsz : N) : bool :=
  (v_lba v + total <=? 4294967296) && (1 <=? v_fat_start v) && (1 <=? v_spc v) &&
  (v_clusters v + 2 <=? (if v_fat32 v then 268435447 else 65527)) &&
  ((v_clusters v + 2) * fat_width v <=? fsz * 512) &&
  (match v_second_fat v with Some sf => v_fat_start v + fsz <=? sf | None => true end) &&
  (if v_fat32 v then fats_end v fsz <=? v_first_data v
   else (fats_end v fsz <=? v_root_block v) && (v_root_block v + root_size v <=? v_first_data v)) &&
  (data_end v <=? total) &&
  (if v_fat32 v then (v_lba v <? v_info v) && (v_info v <? v_lba v + v_fat_start v) else true).

Lemma part_layoutb_ok v total fsz : part_layoutb v total fsz = true -> part_layout v total fsz.
Proof.
  unfold part_layoutb. rewrite !andb_true_iff.
  intros ((((((((H1 & H2) & H3) & H4) & H5) & H6) & H7) & H8) & H9).
  apply N.leb_le in H1, H2, H3, H4, H5, H8.
  constructor; try assumption.
  - intros sf E. rewrite E in H6. apply N.leb_le. exact H6.
  - destruct (v_fat32 v); [apply N.leb_le; exact H7|].
    apply andb_true_iff in H7. destruct H7 as [A B]. split; apply N.leb_le; assumption.
  - intros H32. rewrite H32 in H9. apply andb_true_iff in H9. destruct H9 as [A B].
    split; apply N.ltb_lt; assumption.
Qed.

(* PrFat's example volumes: FAT16 (60000 clusters of 4 blocks, FAT copies of 256 sectors at 4
   and 260, root region at 520, data at 600) and FAT32 (130000 clusters of 8 blocks, FAT copies
   of 1024 sectors at 32 and 1056, information sector at 1, data at 2100), both at block 2048 *)
Example ex_layout16 : part_layout ex_vol16 250000 256.
Proof. apply part_layoutb_ok. vm_compute. reflexivity. Qed.
Example ex_layout32 : part_layout ex_vol32 1100000 1024.
Proof. apply part_layoutb_ok. vm_compute. reflexivity. Qed.

Example ex_fat_layouts : fat_layout ex_vol16 256 /\ fat_layout ex_vol32 1024.
Proof.
  split; [apply (part_layout_fat_layout _ 250000 _ ex_layout16)|apply (part_layout_fat_layout _ 1100000 _ ex_layout32)];
    vm_compute; reflexivity.
Qed.

Definition ex_class (v : vol) (fsz i : N) : bool :=
  in_fatb v fsz i || in_datab v i || in_root16b v i || is_infob v i.

Lemma ex_class_ok v fsz ws : forallb (ex_class v fsz) ws = true -> Forall (in_region v fsz) ws.
Proof.
  intros H. apply Forall_forall. intros i Hi. rewrite forallb_forall in H. specialize (H i Hi).
  unfold ex_class in H. rewrite !orb_true_iff in H.
  destruct H as [[[H|H]|H]|H].
  - left. apply in_fatb_ok. exact H.
  - right. left. apply in_datab_ok. exact H.
  - right. right. left. apply in_root16b_ok. exact H.
  - right. right. right. apply is_infob_ok. exact H.
Qed.

Definition ex_name : list N := 65 :: repeat 32 10.

Lemma ex_state_pre v fsz : fat_layout v fsz -> hint_ok v -> alloc_pre (PrFat.ex_state v) 0 v fsz.
Proof.
  intros FL Hh. split; [|split; assumption].
  split; [intros n []|]. split; [intros i Hi; discriminate Hi|]. split; [reflexivity|].
  intros k _. unfold disk_get. cbn [s_disk PrFat.ex_state]. rewrite PositiveMap.gempty. reflexivity.
Qed.

(* FAT16, blank device: the hypotheses of C04_make_dir hold for a directory made in the root *)
Example ex_pre16 :
  alloc_pre (PrFat.ex_state ex_vol16) 0 ex_vol16 256 /\
  dir_blocks (s_disk (PrFat.ex_state ex_vol16)) ex_vol16 CL_ROOT = Some (root16_blocks ex_vol16).
Proof.
  split; [|reflexivity]. apply ex_state_pre; [exact (proj1 ex_fat_layouts)|].
  intros c E. inversion E; subst c. lia.
Qed.

(* the model runs there: alloc_cluster (linking from cluster 7, zeroing) hands out cluster 5 and
   writes FAT sector 2052 and its copy 2308, the four blocks of cluster 5, then the FAT sectors
   again; make_dir then takes cluster 6: FAT sectors, the four blocks of cluster 6, and the
   first block 2568 of the root region.  Every block number passes the classifiers. *)
Example ex_run16 :
  match alloc_cluster 0 (Some 7) true (PrFat.ex_state ex_vol16) with
  | (Ok c, s1) =>
      c = 5 /\ writes_of (s_trace s1) = [2052; 2308; 2660; 2661; 2662; 2663; 2052; 2308] /\
      forallb (ex_class ex_vol16 256) (writes_of (s_trace s1)) = true /\
      match make_dir 0 CL_ROOT ex_name 16 s1 with
      | (Ok tt, s2) =>
          writes_of (firstn (length (s_trace s2) - length (s_trace s1)) (s_trace s2))
          = [2052; 2308; 2664; 2665; 2666; 2667; 2568] /\
          forallb (ex_class ex_vol16 256) (writes_of (s_trace s2)) = true /\
          forallb (fun i => (2048 <? i) && (i <? 2048 + 240600)) (writes_of (s_trace s2)) = true
      | _ => False
      end
  | _ => False
  end.
Proof. vm_compute. repeat split; reflexivity. Qed.

(* FAT32: a device whose FAT (both copies) marks the root directory cluster 2 as end of chain *)
Definition ex_fat32_sector : block := set_bytes zero_block 8 [255; 255; 255; 15].
Definition ex_state32 : st :=
  set_s_disk (PrFat.ex_state ex_vol32)
    (disk_set (disk_set (PositiveMap.empty block) 2080 ex_fat32_sector) 3104 ex_fat32_sector).

Example ex_pre32 :
  alloc_pre ex_state32 0 ex_vol32 1024 /\
  dir_blocks (s_disk ex_state32) ex_vol32 CL_ROOT = Some (cluster_blocks ex_vol32 2).
Proof.
  split; [|vm_compute; reflexivity].
  split; [|split; [exact (proj2 ex_fat_layouts)|intros c E; inversion E; subst c; lia]].
  split; [intros n []|]. split; [intros i Hi; discriminate Hi|]. split; [reflexivity|].
  intros k _. unfold ex_state32. cbn [s_disk set_s_disk].
  destruct (N.eq_dec (fat_copy_sector ex_vol32 0 k) 3104) as [E|E].
  - rewrite E, disk_get_set_same. reflexivity.
  - rewrite disk_get_set_other by congruence.
    destruct (N.eq_dec (fat_copy_sector ex_vol32 0 k) 2080) as [E2|E2].
    + rewrite E2, disk_get_set_same. reflexivity.
    + rewrite disk_get_set_other by congruence. unfold disk_get. rewrite PositiveMap.gempty. reflexivity.
Qed.

(* there: the hint 5 is taken for the new directory; FAT sectors 2080 and 3104, the eight blocks
   of cluster 5, then the first block 4148 of the root directory (cluster 2) *)
Example ex_run32 :
  match make_dir 0 CL_ROOT ex_name 16 ex_state32 with
  | (Ok tt, s2) =>
      writes_of (s_trace s2) = [2080; 3104; 4172; 4173; 4174; 4175; 4176; 4177; 4178; 4179; 4148] /\
      forallb (ex_class ex_vol32 1024) (writes_of (s_trace s2)) = true /\
      match update_info_sector 0 s2 with
      | (Ok tt, s3) =>
          writes_of (firstn (length (s_trace s3) - length (s_trace s2)) (s_trace s3)) = [2049] /\
          is_infob ex_vol32 2049 = true
      | _ => False
      end
  | _ => False
  end.
Proof. vm_compute. repeat split; reflexivity. Qed.

(* pl_info is needed: with an information-sector number that is not inside the reserved region
   (here 0 blocks after the start of the partition, which the mount code accepts when that block
   carries the three signature words) update_info_sector rewrites the boot sector *)
Example ex_info_needs_layout :
  let v := set_v_info ex_vol32 2048 in
  match update_info_sector 0 (PrFat.ex_state v) with
  | (Ok tt, s') => writes_of (s_trace s') = [v_lba v]
  | _ => False
  end.
Proof. vm_compute. reflexivity. Qed.

(* mgr_write: PrWrite's example (FAT16, 100 clusters of 2 blocks at block 10; a file of clusters
   2 -> 3, offset 700, 2000 bytes written: blocks 31..33 of the file, then cluster 4 is allocated
   and linked - FAT sector 11 twice - and its blocks 34, 35 are written) *)
Example ex_layout_small : part_layout exd_vol 1000 1.
Proof. apply part_layoutb_ok. vm_compute. reflexivity. Qed.

Example ex_mgr_write :
  PrWrite.mw_pre 1 7 PrRw.exr_state 0 PrRw.exr_file 0 exd_vol [2; 3] /\
  match mgr_write 7 (repeat 7 2000) PrRw.exr_state with
  | (Ok tt, s') => writes_of (s_trace s') = [31; 32; 33; 11; 11; 34; 35] /\
                   forallb (ex_class exd_vol 1) (writes_of (s_trace s')) = true
  | _ => False
  end.
Proof. split; [exact (proj1 PrWrite.write_example)|]. vm_compute. split; reflexivity. Qed.

(* ================================================================== assumptions *)
Print Assumptions C04_regions_disjoint.
Print Assumptions C04_regions_inside.
Print Assumptions C04_regions_not_outside.
Print Assumptions part_layout_fat_layout.
Print Assumptions C04_fat_sector_in_fat.
Print Assumptions C04_cluster_block_in_data.
Print Assumptions C04_cluster_to_block_in_data.
Print Assumptions C04_root_block_in_root.
Print Assumptions C04_dir_blocks_in_dir.
Print Assumptions C04_update_fat.
Print Assumptions update_info_sector_steps.
Print Assumptions C04_update_info_sector.
Print Assumptions C04_alloc_cluster.
Print Assumptions C04_truncate_cluster_chain.
Print Assumptions C04_free_cluster_chain.
Print Assumptions write_entry_to_disk_steps.
Print Assumptions C04_write_entry_to_disk.
Print Assumptions flush_file_steps.
Print Assumptions C04_flush_file.
Print Assumptions walk_grow_ws.
Print Assumptions C04_write_new_directory_entry.
Print Assumptions C04_make_dir.
Print Assumptions C04_mgr_write_changed.
Print Assumptions C04_never_outside_update_fat.
Print Assumptions C04_never_outside_update_info_sector.
Print Assumptions C04_never_outside_alloc_cluster.
Print Assumptions C04_never_outside_truncate.
Print Assumptions C04_never_outside_free.
Print Assumptions C04_never_outside_write_entry.
Print Assumptions C04_never_outside_flush_file.
Print Assumptions C04_never_outside_write_new_directory_entry.
Print Assumptions C04_never_outside_make_dir.
Print Assumptions ex_layout16.
Print Assumptions ex_layout32.
Print Assumptions ex_pre16.
Print Assumptions ex_run16.
Print Assumptions ex_pre32.
Print Assumptions ex_run32.
Print Assumptions chain_safe.
Print Assumptions write_loop_ws.
Print Assumptions C04_mgr_write.
Print Assumptions C04_never_outside_mgr_write.
Print Assumptions ex_mgr_write.
Print Assumptions C04_writes_classified.
Print Assumptions C04_never_outside.
