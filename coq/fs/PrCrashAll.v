(* C10 and C09 for whole histories of the model - assembly of the per-operation crash theorems. *)
From Coq Require Import NArith ZArith List Bool Lia.
From SdFs Require Import FsTypes FsBase FsFat FsMgr FsLemmas PrBase PrFat PrAlloc PrDir PrSeek PrAllocEffect
  PrRw PrWrite PrFileSeq PrMulti PrEntry PrChain PrCount PrWf PrOpenClose PrGlobalDef.
From SdFs Require PrHandles PrGlobal.
From SdFs Require Import PrCrash PrCrashDef PrCrashDef2 PrCrashDef3 PrCrashDef4.
From SdFs Require PrCrashWrite3 PrCrashWrite4 PrCrashOpen3 PrCrashMkdir2 PrCrashDelete.
Import ListNotations.
Open Scope N_scope.

Theorem all_steps_crash fsz vid : forall o, step_crash fsz vid o.
Proof.
  intros o. destruct o.
  - intros s r s' _ _ [[_ F] _]. destruct F.
  - intros s r s' _ _ [[_ F] _]. destruct F.
  - apply step_crash_OpenRoot.
  - apply step_crash_OpenDir.
  - apply step_crash_CloseDir.
  - apply step_crash_Find.
  - apply step_crash_Iter.
  - apply PrCrashOpen3.step_crash_OpenFile.
  - apply step_crash_CloseFile.
  - apply step_crash_Flush.
  - apply step_crash_Read.
  - apply PrCrashWrite3.step_crash_Write.
  - apply step_crash_SeekStart.
  - apply step_crash_SeekCur.
  - apply step_crash_SeekEnd.
  - apply step_crash_Length.
  - apply step_crash_Offset.
  - apply step_crash_Eof.
  - apply PrCrashDelete.step_crash_Delete.
  - apply PrCrashMkdir2.step_crash_Mkdir.
  - apply step_crash_Label.
  - apply step_crash_HasOpen.
  - apply step_crash_IoSeek.
  - apply step_crash_IoRead.
  - apply PrCrashWrite3.step_crash_IoWrite.
  - intros s r s' _ _ [[F _] _]. destruct F.
Qed.

Theorem all_steps_keep fsz vid : forall o, step_keeps_flushed fsz vid o.
Proof.
  intros o. destruct o.
  - intros s r s' _ _ [[_ F] _]. destruct F.
  - intros s r s' _ _ [[_ F] _]. destruct F.
  - apply step_keeps_OpenRoot.
  - apply step_keeps_OpenDir.
  - apply step_keeps_CloseDir.
  - apply step_keeps_Find.
  - apply step_keeps_Iter.
  - apply PrCrashOpen3.step_keeps_OpenFile.
  - apply PrCrashWrite4.step_keeps_CloseFile.
  - apply PrCrashWrite4.step_keeps_Flush.
  - apply step_keeps_Read.
  - apply PrCrashWrite3.step_keeps_Write.
  - apply step_keeps_SeekStart.
  - apply step_keeps_SeekCur.
  - apply step_keeps_SeekEnd.
  - apply step_keeps_Length.
  - apply step_keeps_Offset.
  - apply step_keeps_Eof.
  - apply PrCrashDelete.step_keeps_Delete.
  - apply PrCrashMkdir2.step_keeps_Mkdir.
  - apply step_keeps_Label.
  - apply step_keeps_HasOpen.
  - apply step_keeps_IoSeek.
  - apply step_keeps_IoRead.
  - apply PrCrashWrite3.step_keeps_IoWrite.
  - intros s r s' _ _ [[F _] _]. destruct F.
Qed.

(* C10: in any history, the medium between calls and the medium after EVERY prefix of the block writes of
   EVERY call satisfies the crash invariant: tree over the raw disk with unique names, clean tails and
   correct dot entries, every referenced chain in range / acyclic / terminated / never through free, bad
   or reserved entries / disjoint from every other, every sub-directory with its own chain; the only
   residue: lost chains (allocated, unreferenced) and a recorded size that exceeds a chain just cut *)
Theorem C10_history fsz vid ops1 o ops2 s age v :
  fs_inv fsz vid s -> PrHandles.handles_ok age s ->
  age + N.of_nat (length (ops1 ++ o :: ops2)) < U32 - 1 -> Forall op_known_ok (ops1 ++ o :: ops2) ->
  s_vols s = [v] ->
  let s1 := snd (run_ops ops1 s) in
  crash_inv fsz v (s_disk s1) /\
  forall d', crash_disks s1 (snd (step o s1)) d' -> crash_inv fsz v d'.
Proof. exact (crash_history fsz vid (PrGlobal.all_steps_ok fsz vid) (all_steps_crash fsz vid) ops1 o ops2 s age v). Qed.

(* C09: a file that is on the medium (e.g. after its flush or close returned) stays on the medium - same
   path, same entry, exactly the same bytes - between calls and on every crashed medium of every later
   call, as long as no call targets that file (write / flush / close through a handle on it, truncating
   open or delete of its name) *)
Theorem C09_history fsz vid ops1 o ops2 s age v path e bytes :
  fs_inv fsz vid s -> PrHandles.handles_ok age s ->
  age + N.of_nat (length (ops1 ++ o :: ops2)) < U32 - 1 -> Forall op_known_ok (ops1 ++ o :: ops2) ->
  s_vols s = [v] -> file_on_medium (s_disk s) v path e bytes ->
  (forall pre o' post, ops1 ++ [o] = pre ++ o' :: post -> ~ op_targets (snd (run_ops pre s)) v o' e) ->
  let s1 := snd (run_ops ops1 s) in
  file_on_medium (s_disk s1) v path e bytes /\
  forall d', crash_disks s1 (snd (step o s1)) d' -> file_on_medium d' v path e bytes.
Proof.
  exact (flushed_history fsz vid (PrGlobal.all_steps_ok fsz vid) (all_steps_keep fsz vid) ops1 o ops2 s age v path e bytes).
Qed.

Print Assumptions all_steps_crash.
Print Assumptions all_steps_keep.
Print Assumptions C10_history.
Print Assumptions C09_history.
