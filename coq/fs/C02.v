(* Property C02 - after flush/close the medium holds the files
   This file contains only property theorems (each closed by `exact`), `Check` pins and
   `Print Assumptions`.  FULL STATEMENT (DESIGN.md 4 C02) is not yet proved for the whole
   layer-B model; what is proved here are the named mechanisms, for all inputs.  The gap is
   covered - visibly - by the correspondence check and the spec oracle (see evidence). *)
From Coq Require Import NArith ZArith List Bool.
From SdFs Require Import FsTypes FsBase FsFat FsMgr FsLemmas.
Import ListNotations.
Open Scope N_scope.


Theorem C02_lookup_first_match_partial : forall n fat32 b blk name i, find_in_slots n fat32 b blk i name = match find (fun p => matches (snd p) name) (before_end (slots_from n b i)) with Some (j, sl) => Some (get_entry fat32 sl blk (j * 32)) | None => None end.
Proof. exact find_in_slots_spec. Qed.

Print Assumptions C02_lookup_first_match_partial.
