(* C10, first sentence: "... THE MEDIUM MOUNTS".  Part 1 (assembly: PrCrashMount2.v, examples:
   PrCrashMount3.v).
   The mount path of a FAT32 volume reads, beside block 0 and the boot sector (which no call
   writes: PrCrashDef6.crash_region_history), the INFORMATION SECTOR and refuses the volume unless
   three signature words are in place.  Here: the signatures are an invariant of every device
   write of every API call.
   1  sig3 / Sg / info_sig
   2  the family sg: a Hoare-style property of EVERY function of the model, for every outcome
      (Ok, error, panic, out of fuel; device faults included), w.r.t. a fixed block number I:
        J   the medium holds a signed 512-byte block at I, the cache does if it is tagged I, every
            volume record in the table is a FAT32 record whose information sector is I and lies
            below its first FAT, the directory slot of every open file lies above I
        W   every successful device write to block I that the run logs carries a signed
            512-byte block
      J s -> m s = (r, s') -> J s' /\ W s s'.  No layout invariant beyond J is used: every block
      the library modifies is computed as partition start + first FAT + .. or + first data + ..,
      hence above I; the only read-modify-write of I itself is update_info_sector, which changes
      bytes 488..495.
   3  sg_step: every API call except a top-level OpenVol (which adds a record) - inside an Iter
      callback OpenVol is refused by the lock, so it is covered there. *)
From Coq Require Import NArith ZArith List Bool Lia Arith ZifyClasses ZifyInst Zify FMapPositive.
From SdFs Require Import FsTypes FsBase FsFat FsMgr FsLemmas PrBase.
From SdFs Require PrOrder PrAllocEffect.
Import ListNotations.
Open Scope N_scope.
Local Arguments N.mul : simpl never.
Local Arguments N.add : simpl never.
Local Arguments N.sub : simpl never.
Local Arguments N.div : simpl never.
Local Arguments N.modulo : simpl never.
Local Arguments N.land : simpl never.
Local Arguments N.lor : simpl never.
Local Ltac Zify.zify_post_hook ::= Z.to_euclidean_division_equations.

(* ================================================================== 1. the signatures *)
(* the three words parse_volume checks in the FAT32 information sector: lead signature "RRaA",
   structure signature "rrAa", trail signature 0xAA550000 *)
Definition sig3 (b : block) : Prop :=
  le32 b 0 = 1096897106 /\ le32 b 484 = 1631679090 /\ le32 b 508 = 2857697280.
(* ... in a block of 512 bytes *)
Definition Sg (b : block) : Prop := length b = 512%nat /\ sig3 b.
(* the information sector of the volume is signed (FAT16 has none) *)
Definition info_sig (d : disk) (v : vol) : Prop :=
  if v_fat32 v then Sg (disk_get d (v_info v)) else True.

(* the fields update_info_sector stores keep the signatures *)
Lemma le32_set_bytes_outside b off l i : (N.to_nat off + length l <= length b)%nat ->
  i + 4 <= off \/ off + N.of_nat (length l) <= i -> le32 (set_bytes b off l) i = le32 b i.
Proof.
  intros Hl Hi. unfold le32. rewrite !get8_set_bytes_outside by (try exact Hl; lia). reflexivity.
Qed.

Lemma Sg_put32 b off x : off = 488 \/ off = 492 -> Sg b -> Sg (set_bytes b off (bytes32 x)).
Proof.
  intros Ho (Hl & A & B & C).
  assert (Hfit : (N.to_nat off + length (bytes32 x) <= length b)%nat).
  { rewrite Hl. cbn [bytes32 length]. destruct Ho as [-> | ->]; vm_compute; lia. }
  split; [rewrite set_bytes_length by exact Hfit; exact Hl|].
  unfold sig3. rewrite !le32_set_bytes_outside by (try exact Hfit; cbn [bytes32 length]; lia).
  auto.
Qed.

(* ================================================================== 2. the family *)
Section Family.
Variable I : N.

(* a FAT32 record whose information sector is I, below the first FAT; the second FAT and the
   data area begin at or after the first FAT *)
Definition vgood (w : vol) : Prop :=
  v_fat32 w = true /\ v_info w = I /\ I < v_lba w + v_fat_start w /\
  v_fat_start w <= v_first_data w /\ (forall sf, v_second_fat w = Some sf -> v_fat_start w <= sf).
Definition egood (e : dirent) : Prop := I < e_block e.
Definition fgood (f : fileinfo) : Prop := egood (f_entry f).

Record J (s : st) : Prop := mk_J {
  J_disk : Sg (disk_get (s_disk s) I);
  J_cache : s_tag s = Some I -> Sg (s_cache s);
  J_vols : Forall vgood (s_vols s);
  J_files : Forall fgood (s_files s)
}.

Definition W (s s' : st) : Prop :=
  exists new, s_trace s' = new ++ s_trace s /\ forall b, In (DWrite I b) new -> Sg b.

Definition sgP {A} (P : st -> Prop) (m : M A) (R : A -> Prop) : Prop :=
  forall s r s', m s = (r, s') -> J s -> P s -> J s' /\ W s s' /\ forall a, r = Ok a -> R a.
Definition sg {A} (m : M A) (R : A -> Prop) : Prop := sgP (fun _ => True) m R.
Definition anyv {A} : A -> Prop := fun _ => True.
(* the cache holds block t *)
Definition tagged (t : N) : st -> Prop := fun s => s_tag s = Some t.

Lemma W_refl s : W s s.
Proof. exists []. split; [reflexivity|intros b []]. Qed.
Lemma W_trans a b c : W a b -> W b c -> W a c.
Proof.
  intros (n1 & E1 & H1) (n2 & E2 & H2). exists (n2 ++ n1). split; [rewrite E2, E1, app_assoc; reflexivity|].
  intros x Hx. apply in_app_or in Hx. destruct Hx as [Hx|Hx]; [exact (H2 x Hx)|exact (H1 x Hx)].
Qed.
Lemma W_same s s' : s_trace s' = s_trace s -> W s s'.
Proof. intros E. exists []. split; [exact E|intros b []]. Qed.

(* J looks at five fields only *)
Lemma J_ext s s' : s_disk s' = s_disk s -> s_cache s' = s_cache s -> s_tag s' = s_tag s ->
  s_vols s' = s_vols s -> s_files s' = s_files s -> J s -> J s'.
Proof. intros E1 E2 E3 E4 E5 [A B C D]. constructor; rewrite ?E1, ?E2, ?E3, ?E4, ?E5; assumption. Qed.

(* ---- composition ---- *)
Lemma sgP_bind {A B} P (m : M A) (k : A -> M B) (R : A -> Prop) (R' : B -> Prop) :
  sgP P m R -> (forall a, R a -> sg (k a) R') -> sgP P (bind m k) R'.
Proof.
  intros Hm Hk s r s' E HJ HP. unfold bind in E.
  destruct (m s) as [[a|e| |] s1] eqn:Em; destruct (Hm _ _ _ Em HJ HP) as (J1 & W1 & R1).
  - destruct (Hk a (R1 a eq_refl) _ _ _ E J1 Logic.I) as (J2 & W2 & R2).
    split; [exact J2|]. split; [exact (W_trans _ _ _ W1 W2)|exact R2].
  - inversion E; subst. split; [exact J1|]. split; [exact W1|]. intros a Ha; discriminate Ha.
  - inversion E; subst. split; [exact J1|]. split; [exact W1|]. intros a Ha; discriminate Ha.
  - inversion E; subst. split; [exact J1|]. split; [exact W1|]. intros a Ha; discriminate Ha.
Qed.
Lemma sg_bind {A B} (m : M A) (k : A -> M B) (R : A -> Prop) (R' : B -> Prop) :
  sg m R -> (forall a, R a -> sg (k a) R') -> sg (bind m k) R'.
Proof. apply sgP_bind. Qed.

(* ... when the first part keeps the state property P *)
Definition keepsP {A} (P : st -> Prop) (m : M A) : Prop := forall s r s', m s = (r, s') -> P s -> P s'.
Lemma sgP_bind_keep {A B} P (m : M A) (k : A -> M B) (R : A -> Prop) (R' : B -> Prop) :
  sgP P m R -> keepsP P m -> (forall a, R a -> sgP P (k a) R') -> sgP P (bind m k) R'.
Proof.
  intros Hm Hkeep Hk s r s' E HJ HP. unfold bind in E.
  destruct (m s) as [[a|e| |] s1] eqn:Em; destruct (Hm _ _ _ Em HJ HP) as (J1 & W1 & R1).
  - destruct (Hk a (R1 a eq_refl) _ _ _ E J1 (Hkeep _ _ _ Em HP)) as (J2 & W2 & R2).
    split; [exact J2|]. split; [exact (W_trans _ _ _ W1 W2)|exact R2].
  - inversion E; subst. split; [exact J1|]. split; [exact W1|]. intros a Ha; discriminate Ha.
  - inversion E; subst. split; [exact J1|]. split; [exact W1|]. intros a Ha; discriminate Ha.
  - inversion E; subst. split; [exact J1|]. split; [exact W1|]. intros a Ha; discriminate Ha.
Qed.
(* ... when the first part establishes Q on success *)
Definition makesP {A} (Q : st -> Prop) (m : M A) : Prop := forall s a s', m s = (Ok a, s') -> Q s'.
Lemma sgP_bind_make {A B} P Q (m : M A) (k : A -> M B) (R : A -> Prop) (R' : B -> Prop) :
  sgP P m R -> makesP Q m -> (forall a, R a -> sgP Q (k a) R') -> sgP P (bind m k) R'.
Proof.
  intros Hm Hmk Hk s r s' E HJ HP. unfold bind in E.
  destruct (m s) as [[a|e| |] s1] eqn:Em; destruct (Hm _ _ _ Em HJ HP) as (J1 & W1 & R1).
  - destruct (Hk a (R1 a eq_refl) _ _ _ E J1 (Hmk _ _ _ Em)) as (J2 & W2 & R2).
    split; [exact J2|]. split; [exact (W_trans _ _ _ W1 W2)|exact R2].
  - inversion E; subst. split; [exact J1|]. split; [exact W1|]. intros a Ha; discriminate Ha.
  - inversion E; subst. split; [exact J1|]. split; [exact W1|]. intros a Ha; discriminate Ha.
  - inversion E; subst. split; [exact J1|]. split; [exact W1|]. intros a Ha; discriminate Ha.
Qed.

Lemma sgP_weaken {A} (P P' : st -> Prop) (m : M A) (R R' : A -> Prop) :
  sgP P m R -> (forall s, P' s -> P s) -> (forall a, R a -> R' a) -> sgP P' m R'.
Proof.
  intros H HP HR s r s' E HJ HP'. destruct (H _ _ _ E HJ (HP _ HP')) as (A1 & A2 & A3).
  split; [exact A1|]. split; [exact A2|]. intros a Ha. exact (HR a (A3 a Ha)).
Qed.
Lemma sg_any {A} (m : M A) (R : A -> Prop) : sg m R -> sg m anyv.
Proof. intros H. unfold sg in *. eapply sgP_weaken; [exact H|intros; exact Logic.I|intros; exact Logic.I]. Qed.
Lemma sgP_of_sg {A} P (m : M A) (R : A -> Prop) : sg m R -> sgP P m R.
Proof. intros H. unfold sg in *. eapply sgP_weaken; [exact H|intros; exact Logic.I|intros a Ha; exact Ha]. Qed.
Lemma sg_post {A} (m : M A) (R R' : A -> Prop) : sg m R -> (forall a, R a -> R' a) -> sg m R'.
Proof. intros H HR. unfold sg in *. eapply sgP_weaken; [exact H|intros; exact Logic.I|exact HR]. Qed.

Lemma sgP_here {A} P (r : outcome A) (R : A -> Prop) : (forall a, r = Ok a -> R a) -> sgP P (fun s => (r, s)) R.
Proof. intros H s r0 s' E HJ _. inversion E; subst. split; [exact HJ|]. split; [apply W_refl|exact H]. Qed.
Lemma sg_ret {A} (a : A) (R : A -> Prop) : R a -> sg (ret a) R.
Proof. intros H. apply sgP_here. intros x Hx. inversion Hx; subst. exact H. Qed.
Lemma sgP_ret {A} P (a : A) (R : A -> Prop) : R a -> sgP P (ret a) R.
Proof. intros H. apply sgP_here. intros x Hx. inversion Hx; subst. exact H. Qed.
Lemma sg_fail {A} e (R : A -> Prop) : sg (fail e) R.
Proof. apply sgP_here. intros x Hx. discriminate Hx. Qed.
Lemma sg_panic {A} (R : A -> Prop) : sg panic R.
Proof. apply sgP_here. intros x Hx. discriminate Hx. Qed.
Lemma sg_oof {A} (R : A -> Prop) : sg out_of_fuel R.
Proof. apply sgP_here. intros x Hx. discriminate Hx. Qed.
Lemma sgP_fail {A} P e (R : A -> Prop) : sgP P (fail e) R.
Proof. apply sgP_here. intros x Hx. discriminate Hx. Qed.
Lemma sgP_panic {A} P (R : A -> Prop) : sgP P panic R.
Proof. apply sgP_here. intros x Hx. discriminate Hx. Qed.
Lemma sg_get : sg get anyv.
Proof. intros s r s' E HJ _. inversion E; subst. split; [exact HJ|]. split; [apply W_refl|intros; exact Logic.I]. Qed.

Lemma sg_modify g : (forall s, J s -> J (g s)) -> (forall s, s_trace (g s) = s_trace s) -> sg (modify g) anyv.
Proof.
  intros H1 H2 s r s' E HJ _. inversion E; subst. split; [exact (H1 s HJ)|].
  split; [exact (W_same _ _ (H2 s))|intros; exact Logic.I].
Qed.

Lemma sgP_try {A} P (m : M A) (R : A -> Prop) : sgP P m R -> sgP P (try m) (fun x => forall a, x = inl a -> R a).
Proof.
  intros Hm s r s' E HJ HP. unfold try in E. destruct (m s) as [o s1] eqn:Em.
  destruct (Hm _ _ _ Em HJ HP) as (A1 & A2 & A3).
  destruct o; inversion E; subst; (split; [exact A1|]; split; [exact A2|]); intros x Hx; try discriminate Hx.
  - inversion Hx; subst. intros a0 Ha0. inversion Ha0; subst. exact (A3 _ eq_refl).
  - inversion Hx; subst. intros a0 Ha0. discriminate Ha0.
Qed.
Lemma sg_try {A} (m : M A) (R : A -> Prop) : sg m R -> sg (try m) (fun x => forall a, x = inl a -> R a).
Proof. apply sgP_try. Qed.

(* a function that leaves the state alone: only its values matter *)
Lemma sg_keeps {A} (m : M A) (R : A -> Prop) : PrOrder.keeps m ->
  (forall s a s', m s = (Ok a, s') -> R a) -> sg m R.
Proof.
  intros Hk Hv s r s' E HJ _. pose proof (Hk _ _ _ E) as ->. split; [exact HJ|]. split; [apply W_refl|].
  intros a ->. exact (Hv _ _ _ E).
Qed.

(* ---- the device and the cache ---- *)
Lemma sg_dev_read i : sg (dev_read i) anyv.
Proof.
  intros s r s' E HJ _. unfold dev_read in E. cbv zeta in E. destruct (faulty s); inversion E; subst; clear E.
  - split; [apply (J_ext s); try reflexivity; exact HJ|]. split; [|intros; exact Logic.I].
    exists [DReadFail i]. split; [reflexivity|]. intros b [H|[]]; discriminate H.
  - split; [apply (J_ext s); try reflexivity; exact HJ|]. split; [|intros; exact Logic.I].
    exists [DRead i]. split; [reflexivity|]. intros b [H|[]]; discriminate H.
Qed.

Lemma sg_cache_read i : sg (cache_read i) anyv.
Proof.
  intros s r s' E HJ _. unfold cache_read, bind, get in E.
  destruct (opt_eqb (s_tag s) i).
  - inversion E; subst. split; [exact HJ|]. split; [apply W_refl|intros; exact Logic.I].
  - unfold modify, try, dev_read, ret, fail in E. cbv zeta in E.
    destruct (faulty (set_s_tag s None)); inversion E; subst; clear E.
    + split; [|split; [|intros; exact Logic.I]].
      * destruct HJ as [A B C D]. constructor; cbn; try assumption. discriminate.
      * exists [DReadFail i]. split; [reflexivity|]. intros b [H|[]]; discriminate H.
    + split; [|split; [|intros; exact Logic.I]].
      * destruct HJ as [A B C D]. constructor; cbn; try assumption. intros Ht. inversion Ht; subst. exact A.
      * exists [DRead i]. split; [reflexivity|]. intros b [H|[]]; discriminate H.
Qed.
Lemma cache_read_tag i : makesP (tagged i) (cache_read i).
Proof.
  intros s a s' E. unfold tagged, cache_read, bind, get in E |- *.
  destruct (opt_eqb (s_tag s) i) eqn:Ht.
  - inversion E; subst. unfold opt_eqb in Ht. destruct (s_tag s') as [j|]; [|discriminate Ht].
    apply N.eqb_eq in Ht. subst. reflexivity.
  - unfold modify, try, dev_read, ret, fail in E. cbv zeta in E.
    destruct (faulty (set_s_tag s None)); inversion E; subst. reflexivity.
Qed.

Lemma sg_cache_modify_pres f : (forall b, Sg b -> Sg (f b)) -> sg (cache_modify f) anyv.
Proof.
  intros Hf s r s' E HJ _. inversion E; subst. split; [|split; [apply W_same; reflexivity|intros; exact Logic.I]].
  destruct HJ as [A B C D]. constructor; cbn; try assumption. intros Ht. exact (Hf _ (B Ht)).
Qed.
Lemma sgT_cache_modify t f : t <> I -> sgP (tagged t) (cache_modify f) anyv.
Proof.
  intros Hne s r s' E HJ HT. inversion E; subst. split; [|split; [apply W_same; reflexivity|intros; exact Logic.I]].
  destruct HJ as [A B C D]. constructor; cbn; try assumption. intros Ht. unfold tagged in HT. congruence.
Qed.
Lemma keeps_tag_cache_modify t f : keepsP (tagged t) (cache_modify f).
Proof. intros s r s' E HT. inversion E; subst. exact HT. Qed.

Lemma sg_dev_write i b : (i = I -> Sg b) -> sg (dev_write i b) anyv.
Proof.
  intros Hb s r s' E HJ _. unfold dev_write in E. cbv zeta in E. destruct (faulty s); inversion E; subst; clear E.
  - split; [apply (J_ext s); try reflexivity; exact HJ|]. split; [|intros; exact Logic.I].
    exists [DWriteFail i]. split; [reflexivity|]. intros x [H|[]]; discriminate H.
  - split; [|split; [|intros; exact Logic.I]].
    + destruct HJ as [A B C D]. constructor; cbn; try assumption.
      destruct (N.eq_dec i I) as [->|Hne]; [rewrite disk_get_set_same; exact (Hb eq_refl)|].
      rewrite disk_get_set_other by exact Hne. exact A.
    + exists [DWrite i b]. split; [reflexivity|]. intros x [H|[]]. inversion H; subst. exact (Hb eq_refl).
Qed.

Lemma sg_write_back : sg write_back anyv.
Proof.
  intros s r s' E HJ _. unfold write_back in E. unfold bind at 1 in E. unfold get at 1 in E.
  destruct (s_tag s) as [i|] eqn:Et.
  - assert (Hw : sg (dev_write i (s_cache s)) anyv).
    { apply sg_dev_write. intros ->. exact (J_cache s HJ Et). }
    assert (H : sg (r0 <- try (dev_write i (s_cache s)) ;;
                    match r0 with inl _ => ret tt | inr e => modify (fun s => set_s_tag s None) ;;; fail e end) anyv).
    { eapply sg_bind; [apply sg_try; exact Hw|]. intros [u|e] _; [apply sg_ret; exact Logic.I|].
      eapply sg_bind; [|intros; apply sg_fail]. apply sg_modify; [|reflexivity].
      intros t [A B C D]. constructor; cbn; try assumption. discriminate. }
    exact (H _ _ _ E HJ Logic.I).
  - inversion E; subst. split; [exact HJ|]. split; [apply W_refl|intros a Ha; discriminate Ha].
Qed.

Lemma sg_write_back_with_duplicate d : d <> I -> sg (write_back_with_duplicate d) anyv.
Proof.
  intros Hd s r s' E HJ _. unfold write_back_with_duplicate in E. unfold bind at 1 in E. unfold get at 1 in E.
  destruct (s_tag s) as [i|] eqn:Et.
  - assert (Hw : sg (dev_write i (s_cache s)) anyv).
    { apply sg_dev_write. intros ->. exact (J_cache s HJ Et). }
    assert (H : sg (r0 <- try (dev_write i (s_cache s)) ;;
                    match r0 with inl _ => dev_write d (s_cache s)
                                | inr e => modify (fun s => set_s_tag s None) ;;; fail e end) anyv).
    { eapply sg_bind; [apply sg_try; exact Hw|]. intros [u|e] _.
      - apply sg_dev_write. intros X. destruct (Hd X).
      - eapply sg_bind; [|intros; apply sg_fail]. apply sg_modify; [|reflexivity].
        intros t [A B C D]. constructor; cbn; try assumption. discriminate. }
    exact (H _ _ _ E HJ Logic.I).
  - inversion E; subst. split; [exact HJ|]. split; [apply W_refl|intros a Ha; discriminate Ha].
Qed.

Lemma sg_blank_mut i : i <> I -> sg (blank_mut i) anyv.
Proof.
  intros Hi. apply sg_modify; [|reflexivity]. intros s [A B C D]. constructor; cbn; try assumption.
  intros Ht. inversion Ht; subst. destruct (Hi eq_refl).
Qed.
Lemma blank_mut_tag i : makesP (tagged i) (blank_mut i).
Proof. intros s a s' E. inversion E; subst. reflexivity. Qed.

(* ================================================================== 2b. the functions of the model *)
Lemma sg_modify_ext g :
  (forall s, s_disk (g s) = s_disk s /\ s_cache (g s) = s_cache s /\ s_tag (g s) = s_tag s /\
             s_vols (g s) = s_vols s /\ s_files (g s) = s_files s /\ s_trace (g s) = s_trace s) ->
  sg (modify g) anyv.
Proof.
  intros H. apply sg_modify; intros s; destruct (H s) as (A1 & A2 & A3 & A4 & A5 & A6); [|exact A6].
  apply J_ext; assumption.
Qed.

Lemma keepsP_keeps {A} P (m : M A) : PrOrder.keeps m -> keepsP P m.
Proof. intros H s r s' E HP. rewrite (H _ _ _ E). exact HP. Qed.

Create HintDb sg.
Hint Resolve sg_get sg_dev_read sg_cache_read sg_write_back : sg.

Ltac sg_leaf :=
  first [ match goal with |- sg (try _) _ => eapply sg_try; sg_leaf end
        | solve [eauto 4 with sg]
        | apply sg_modify_ext; solve [intros ?; repeat split; reflexivity]
        | eapply sg_any; solve [eauto 4 with sg]
        | eapply sg_post; [apply sg_modify_ext; solve [intros ?; repeat split; reflexivity]|intros; exact Logic.I] ].
Ltac sg_step1 :=
  match goal with
  | |- sg (bind (if _ then _ else _) _) _ => eapply (sg_bind _ _ anyv); [|intros ? _]
  | |- sg (bind (match _ with _ => _ end) _) _ => eapply (sg_bind _ _ anyv); [|intros ? _]
  | |- sg (bind _ _) _ => eapply sg_bind; [sg_leaf|intros ? ?]
  | |- sg (ret _) _ => apply sg_ret; try exact Logic.I
  | |- sg (fail _) _ => apply sg_fail
  | |- sg panic _ => apply sg_panic
  | |- sg out_of_fuel _ => apply sg_oof
  | |- sg (if ?b then _ else _) _ => destruct b eqn:?
  | |- sg (match ?x with _ => _ end) _ => destruct x eqn:?
  | |- sg (let _ := _ in _) _ => cbv zeta
  | |- sg _ _ => sg_leaf
  end.
Ltac sg_go := repeat sg_step1.

(* ---- FsBase ---- *)
Lemma sg_add32 a b : sg (add32 a b) (fun x => x = a + b).
Proof. unfold add32. destruct (a + b <? U32); [apply sg_ret; reflexivity|apply sg_panic]. Qed.
Lemma sg_sub32 a b : sg (sub32 a b) anyv.
Proof. unfold sub32. sg_go. Qed.
Lemma sg_mul32 a b : sg (mul32 a b) anyv.
Proof. unfold mul32. sg_go. Qed.
Hint Resolve sg_add32 sg_sub32 sg_mul32 : sg.

Definition optp {R} (Q : R -> Prop) : option R -> Prop := fun r => forall x, r = Some x -> Q x.

Lemma sg_for_blocks_from {R} (body : N -> M (option R)) (Q : R -> Prop) : forall n i,
  (forall j, i <= j -> sg (body j) (optp Q)) -> sg (for_blocks_from n i body) (optp Q).
Proof.
  induction n as [|n IH]; intros i Hb; cbn [for_blocks_from].
  - apply sg_ret. intros x Hx. discriminate Hx.
  - eapply sg_bind; [apply Hb; lia|]. intros [x|] Hr.
    + apply sg_ret. exact Hr.
    + apply IH. intros j Hj. apply Hb. lia.
Qed.
Lemma sg_for_blocks {R} (body : N -> M (option R)) (Q : R -> Prop) first size :
  (forall j, first <= j -> sg (body j) (optp Q)) -> sg (for_blocks first size body) (optp Q).
Proof.
  intros Hb. unfold for_blocks. eapply sg_bind; [apply sg_add32|]. intros _ _. apply sg_for_blocks_from. exact Hb.
Qed.

(* ---- FsFat ---- *)
Lemma sg_ts_to_fat t : sg (ts_to_fat t) anyv.
Proof. apply sg_keeps; [apply PrOrder.keeps_ts_to_fat|intros; exact Logic.I]. Qed.
Lemma sg_serialize f e : sg (serialize f e) anyv.
Proof. apply sg_keeps; [apply PrOrder.keeps_serialize|intros; exact Logic.I]. Qed.
Lemma sg_get_timestamp : sg get_timestamp anyv.
Proof. unfold get_timestamp. sg_go. Qed.
Lemma keeps_tag_get_timestamp t : keepsP (tagged t) get_timestamp.
Proof. intros s r s' E HT. unfold get_timestamp, bind, get, modify, ret in E. inversion E; subst. exact HT. Qed.
Hint Resolve sg_ts_to_fat sg_serialize sg_get_timestamp : sg.

Lemma sg_get_vol vi : sg (get_vol vi) vgood.
Proof.
  intros s r s' E HJ _. unfold get_vol, bind, get, ret, panic in E.
  destruct (nth_error (s_vols s) vi) as [v|] eqn:En; inversion E; subst;
    (split; [exact HJ|split; [apply W_refl|]]); intros a Ha; inversion Ha; subst.
  pose proof (J_vols _ HJ) as F. rewrite Forall_forall in F. exact (F _ (nth_error_In _ _ En)).
Qed.
Lemma Forall_list_set {A} (P : A -> Prop) l i x : Forall P l -> P x -> Forall P (list_set l i x).
Proof.
  intros F Hx. rewrite Forall_forall in *. intros y Hy. apply In_list_set in Hy. destruct Hy as [->|Hy]; auto.
Qed.
Lemma Forall_swap_remove {A} (P : A -> Prop) l i : Forall P l -> Forall P (swap_remove l i).
Proof. intros F. rewrite Forall_forall in *. intros y Hy. apply F. exact (swap_remove_subset _ _ _ Hy). Qed.
Lemma sg_put_vol vi v : vgood v -> sg (put_vol vi v) anyv.
Proof.
  intros Hv. unfold put_vol. apply sg_modify; [|reflexivity]. intros s [A B C D]. constructor; cbn; try assumption.
  apply Forall_list_set; assumption.
Qed.
Lemma vgood_nf v x : vgood v -> vgood (set_v_next_free v x).
Proof. intros H. exact H. Qed.
Lemma vgood_fc v x : vgood v -> vgood (set_v_free v x).
Proof. intros H. exact H. Qed.
Hint Resolve sg_get_vol sg_put_vol vgood_nf vgood_fc : sg.

Lemma sg_fat_block v fs fo : vgood v -> v_fat_start v <= fs -> sg (fat_block v fs fo) (fun x => I < x).
Proof.
  intros (_ & _ & H1 & _) Hfs. apply sg_keeps; [apply PrOrder.keeps_fat_block|].
  intros s a s' E. apply PrOrder.fat_block_inv in E. destruct E as (_ & ->). lia.
Qed.
Lemma sg_fat_block_any v fs fo : sg (fat_block v fs fo) anyv.
Proof. apply sg_keeps; [apply PrOrder.keeps_fat_block|intros; exact Logic.I]. Qed.
Lemma sg_cluster_to_block v c : vgood v -> sg (cluster_to_block v c) (fun x => I < x).
Proof.
  intros (H32 & _ & H1 & H2 & _). apply sg_keeps; [apply PrOrder.keeps_cluster_to_block|].
  intros s a s' E. unfold cluster_to_block in E. rewrite H32 in E.
  unfold bind, sub32, mul32, add32, ret, panic in E.
  repeat match type of E with context [if ?c then _ else _] => destruct c end; inversion E; subst;
    match goal with |- context [?p * ?q] => pose proof (N.le_0_l (p * q)); generalize dependent (p * q); intros end; lia.
Qed.
Lemma sg_cluster_to_block_any v c : sg (cluster_to_block v c) anyv.
Proof. apply sg_keeps; [apply PrOrder.keeps_cluster_to_block|intros; exact Logic.I]. Qed.
Hint Resolve sg_fat_block_any sg_cluster_to_block_any | 5 : sg.
Hint Resolve sg_cluster_to_block | 1 : sg.

Lemma sg_rmw_tail t (f : block -> block) (second : option N) : t <> I -> (forall d, second = Some d -> d <> I) ->
  sgP (tagged t) (cache_modify f ;;; match second with Some d => write_back_with_duplicate d | None => write_back end) anyv.
Proof.
  intros Ht Hd. eapply sgP_bind; [apply sgT_cache_modify; exact Ht|]. intros _ _.
  destruct second as [d|]; [apply sg_write_back_with_duplicate; apply Hd; reflexivity|apply sg_write_back].
Qed.

Lemma sg_second v fo : vgood v ->
  sg (match v_second_fat v with Some sf => x <- fat_block v sf fo ;; ret (Some x) | None => ret None end)
     (fun second => forall d, second = Some d -> I < d).
Proof.
  intros Hv. destruct (v_second_fat v) as [sf|] eqn:E.
  - eapply sg_bind; [apply sg_fat_block; [exact Hv|]|].
    + destruct Hv as (_ & _ & _ & _ & H). exact (H sf E).
    + intros x Hx. apply sg_ret. intros d Hd. inversion Hd; subst. exact Hx.
  - apply sg_ret. intros d Hd. discriminate Hd.
Qed.

Lemma sg_update_fat vi c x : sg (update_fat vi c x) anyv.
Proof.
  unfold update_fat. eapply sg_bind; [apply sg_get_vol|]. intros v Hv.
  destruct (v_fat32 v).
  - eapply sg_bind; [apply sg_mul32|]. intros fo _.
    eapply sg_bind; [apply sg_fat_block; [exact Hv|apply N.le_refl]|]. intros this Hthis.
    eapply sg_bind; [apply sg_second; exact Hv|]. intros second Hsec. cbv zeta.
    eapply sgP_bind_make; [apply sg_cache_read|apply cache_read_tag|]. intros _ _.
    cbv beta in *. apply sg_rmw_tail; [lia|]. intros d Hd. specialize (Hsec d Hd). lia.
  - eapply sg_bind; [apply sg_mul32|]. intros fo _.
    eapply sg_bind; [apply sg_fat_block; [exact Hv|apply N.le_refl]|]. intros this Hthis.
    eapply sg_bind; [apply sg_second; exact Hv|]. intros second Hsec. cbv zeta.
    eapply sgP_bind_make; [apply sg_cache_read|apply cache_read_tag|]. intros _ _.
    cbv beta in *. apply sg_rmw_tail; [lia|]. intros d Hd. specialize (Hsec d Hd). lia.
Qed.
Hint Resolve sg_update_fat : sg.

Lemma sg_next_cluster v c : sg (next_cluster v c) anyv.
Proof. unfold next_cluster. sg_go. Qed.
Hint Resolve sg_next_cluster : sg.
Lemma sg_find_next_free_loop v endc : forall fuel cur, sg (find_next_free_loop fuel v cur endc) anyv.
Proof. induction fuel as [|f IH]; intros cur; cbn [find_next_free_loop]; sg_go. Qed.
Lemma sg_find_next_free_cluster v a b : sg (find_next_free_cluster v a b) anyv.
Proof. unfold find_next_free_cluster. apply sg_find_next_free_loop. Qed.
Hint Resolve sg_find_next_free_cluster : sg.

Lemma sg_blank_loop_body j : I < j -> sg (blank_mut j ;;; write_back ;;; ret (@None unit)) (optp anyv).
Proof.
  intros Hj. eapply sg_bind; [apply sg_blank_mut; lia|]. intros _ _.
  eapply sg_bind; [apply sg_write_back|]. intros _ _. apply sg_ret. intros x Hx. discriminate Hx.
Qed.
Lemma sg_zero_cluster v c : vgood v -> sg (zero_cluster v c) anyv.
Proof.
  intros Hv. unfold zero_cluster. eapply sg_bind; [apply sg_cluster_to_block; exact Hv|]. intros first Hf.
  cbv beta in Hf. eapply sg_bind; [apply (sg_for_blocks _ anyv); intros j Hj; apply sg_blank_loop_body; lia|].
  intros _ _. apply sg_ret. exact Logic.I.
Qed.
Hint Resolve sg_zero_cluster : sg.

Lemma sg_alloc_cluster vi prev zero : sg (alloc_cluster vi prev zero) anyv.
Proof. unfold alloc_cluster. sg_go. Qed.
Lemma sg_bump_free vi : sg (bump_free vi) anyv.
Proof. unfold bump_free. sg_go. Qed.
Hint Resolve sg_alloc_cluster sg_bump_free : sg.
Lemma sg_truncate_loop vi : forall fuel next, sg (truncate_loop fuel vi next) anyv.
Proof. induction fuel as [|f IH]; intros next; cbn [truncate_loop]; sg_go. Qed.
Hint Resolve sg_truncate_loop : sg.
Lemma sg_truncate_cluster_chain vi c : sg (truncate_cluster_chain vi c) anyv.
Proof. unfold truncate_cluster_chain. sg_go. Qed.
Hint Resolve sg_truncate_cluster_chain : sg.
Lemma sg_free_cluster_chain vi c : sg (free_cluster_chain vi c) anyv.
Proof. unfold free_cluster_chain. sg_go. Qed.
Hint Resolve sg_free_cluster_chain : sg.

Lemma sg_write_entry_to_disk v e : egood e -> sg (write_entry_to_disk v e) anyv.
Proof.
  intros He. unfold egood in He. unfold write_entry_to_disk.
  eapply sgP_bind_make; [apply sg_cache_read|apply cache_read_tag|]. intros _ _.
  eapply sgP_bind_keep; [apply sgP_of_sg; apply sg_serialize|apply keepsP_keeps; apply PrOrder.keeps_serialize|].
  intros bytes _. destruct (512 <? e_offset e + 32); [apply sgP_panic|].
  eapply sgP_bind; [apply sgT_cache_modify; lia|]. intros _ _. apply sg_write_back.
Qed.
Hint Resolve sg_write_entry_to_disk : sg.

Lemma sg_put488 c : sg (cache_modify (fun b => set_bytes b 488 (bytes32 c))) anyv.
Proof. apply sg_cache_modify_pres. intros b Hb. apply Sg_put32; [left; reflexivity|exact Hb]. Qed.
Lemma sg_put492 c : sg (cache_modify (fun b => set_bytes b 492 (bytes32 c))) anyv.
Proof. apply sg_cache_modify_pres. intros b Hb. apply Sg_put32; [right; reflexivity|exact Hb]. Qed.
Hint Resolve sg_put488 sg_put492 : sg.
Lemma sg_update_info_sector vi : sg (update_info_sector vi) anyv.
Proof. unfold update_info_sector. sg_go. Qed.
Hint Resolve sg_update_info_sector : sg.

Lemma sg_walk_dir {R} (body : N -> M (option R)) (Q : R -> Prop) :
  (forall blk, I < blk -> sg (body blk) (optp Q)) ->
  forall fuel vi cluster grow, sg (walk_dir fuel vi cluster grow body) (optp Q).
Proof.
  intros Hb. induction fuel as [|f IH]; intros vi cluster grow; cbn [walk_dir]; [apply sg_oof|].
  eapply sg_bind; [apply sg_get_vol|]. intros v Hv.
  eapply sg_bind; [apply sg_cluster_to_block; exact Hv|]. intros first Hf. cbv beta zeta in *.
  eapply sg_bind; [apply sg_for_blocks; intros j Hj; apply Hb; lia|]. intros r Hr.
  destruct r as [x|]; [apply sg_ret; exact Hr|].
  destruct (negb (v_fat32 v) && (cluster =? CL_ROOT)); [apply sg_ret; intros x Hx; discriminate Hx|].
  eapply sg_bind; [apply sg_try; apply sg_next_cluster|]. intros nc _.
  destruct nc as [n|e]; [apply IH|].
  destruct e; try (apply sg_ret; intros x Hx; discriminate Hx); try apply sg_fail.
  destruct grow; [|apply sg_ret; intros x Hx; discriminate Hx].
  eapply sg_bind; [apply sg_alloc_cluster|]. intros c _. apply IH.
Qed.

Lemma find_in_slots_block fat32 b blk name : forall n i e,
  find_in_slots n fat32 b blk i name = Some e -> e_block e = blk.
Proof.
  induction n as [|n IH]; intros i e H; cbn [find_in_slots] in H; [discriminate H|].
  cbv zeta in H. destruct (is_end (slot b i)); [discriminate H|].
  destruct (matches (slot b i) name); [|exact (IH _ _ H)]. inversion H; subst. reflexivity.
Qed.

Lemma sg_find_directory_entry vi dc name : sg (find_directory_entry vi dc name) egood.
Proof.
  unfold find_directory_entry. eapply sg_bind; [apply sg_get_vol|]. intros v Hv.
  eapply sg_bind; [apply (sg_walk_dir _ egood)|].
  - intros blk Hblk. eapply sg_bind; [apply sg_cache_read|]. intros b _. apply sg_ret.
    intros e He. unfold egood. rewrite (find_in_slots_block _ _ _ _ _ _ _ He). exact Hblk.
  - intros r Hr. destruct r as [e|]; [apply sg_ret; exact (Hr e eq_refl)|apply sg_fail].
Qed.
Hint Resolve sg_find_directory_entry : sg.

Lemma sg_iter_blocks fat32 : forall n i acc, sg (iter_blocks n fat32 i acc) anyv.
Proof. induction n as [|n IH]; intros i acc; cbn [iter_blocks]; sg_go. Qed.
Hint Resolve sg_iter_blocks : sg.
Lemma sg_iter_walk vi : forall fuel c acc, sg (iter_walk fuel vi c acc) anyv.
Proof. induction fuel as [|f IH]; intros c acc; cbn [iter_walk]; sg_go. Qed.
Hint Resolve sg_iter_walk : sg.
Lemma sg_iterate_dir_all vi c : sg (iterate_dir_all vi c) anyv.
Proof. unfold iterate_dir_all. sg_go. Qed.
Hint Resolve sg_iterate_dir_all : sg.

Lemma sg_delete_directory_entry vi dc name : sg (delete_directory_entry vi dc name) anyv.
Proof.
  unfold delete_directory_entry. eapply sg_bind; [apply sg_get_vol|]. intros v Hv.
  eapply sg_bind; [apply (sg_walk_dir _ anyv)|].
  - intros blk Hblk. eapply sgP_bind_make; [apply sg_cache_read|apply cache_read_tag|]. intros b _.
    destruct (delete_in_slots 16 b 0 name) as [start|]; [|apply sgP_ret; intros x Hx; discriminate Hx].
    eapply sgP_bind; [apply sgT_cache_modify; lia|]. intros _ _.
    eapply sg_bind; [apply sg_write_back|]. intros _ _. apply sg_ret. intros x _. exact Logic.I.
  - intros r _. destruct r; [apply sg_ret; exact Logic.I|apply sg_fail].
Qed.
Hint Resolve sg_delete_directory_entry : sg.

Lemma sg_write_new_directory_entry vi dc name attr fc : sg (write_new_directory_entry vi dc name attr fc) egood.
Proof.
  unfold write_new_directory_entry. eapply sg_bind; [apply sg_get_vol|]. intros v Hv.
  eapply sg_bind; [apply (sg_walk_dir _ egood)|].
  - intros blk Hblk. eapply sgP_bind_make; [apply sg_cache_read|apply cache_read_tag|]. intros b _.
    destruct (free_slot 16 b 0) as [i|]; [|apply sgP_ret; intros x Hx; discriminate Hx].
    eapply sgP_bind_keep; [apply sgP_of_sg; apply sg_get_timestamp|apply keeps_tag_get_timestamp|].
    intros ctime _. cbv zeta.
    eapply sgP_bind_keep; [apply sgP_of_sg; apply sg_serialize|apply keepsP_keeps; apply PrOrder.keeps_serialize|].
    intros bytes _.
    eapply sgP_bind; [apply sgT_cache_modify; lia|]. intros _ _.
    eapply sg_bind; [apply sg_write_back|]. intros _ _. apply sg_ret.
    intros e He. inversion He; subst. exact Hblk.
  - intros r Hr. destruct r as [e|]; [apply sg_ret; exact (Hr e eq_refl)|apply sg_fail].
Qed.
Hint Resolve sg_write_new_directory_entry : sg.

Lemma sg_make_dir vi parent sfn att : sg (make_dir vi parent sfn att) anyv.
Proof.
  unfold make_dir. eapply sg_bind; [apply sg_alloc_cluster|]. intros c _.
  eapply sg_bind; [apply sg_get_vol|]. intros v Hv.
  eapply sg_bind; [apply sg_cluster_to_block; exact Hv|]. intros start Hstart. cbv beta in Hstart.
  eapply sg_bind; [apply sg_get_timestamp|]. intros now _.
  eapply sgP_bind_make; [apply sg_blank_mut; lia|apply blank_mut_tag|]. intros _ _.
  eapply sgP_bind_keep; [apply sgP_of_sg; apply sg_serialize|apply keepsP_keeps; apply PrOrder.keeps_serialize|].
  intros dot _.
  eapply sgP_bind_keep; [apply sgP_of_sg; apply sg_serialize|apply keepsP_keeps; apply PrOrder.keeps_serialize|].
  intros dotdot _.
  eapply sgP_bind; [apply sgT_cache_modify; lia|]. intros _ _.
  eapply sg_bind; [apply sg_write_back|]. intros _ _.
  eapply sg_bind; [apply sg_add32|]. intros _ _.
  eapply sg_bind; [apply (sg_for_blocks_from _ anyv); intros j Hj; apply sg_blank_loop_body; lia|]. intros _ _.
  sg_go.
Qed.
Hint Resolve sg_make_dir : sg.

(* ---- FsMgr ---- *)
Lemma sg_locked {A} (m : M A) (R : A -> Prop) : sg m R -> sg (locked m) R.
Proof. intros H. unfold locked. eapply sg_bind; [apply sg_get|]. intros s _. destruct (s_lock s); [apply sg_fail|exact H]. Qed.
Lemma sg_generate : sg generate anyv.
Proof. unfold generate. sg_go. Qed.
Lemma sg_get_volume_by_id h : sg (get_volume_by_id h) anyv.
Proof. unfold get_volume_by_id. sg_go. Qed.
Lemma sg_get_dir_by_id h : sg (get_dir_by_id h) anyv.
Proof. unfold get_dir_by_id. sg_go. Qed.
Lemma sg_get_file_by_id h : sg (get_file_by_id h) anyv.
Proof. unfold get_file_by_id. sg_go. Qed.
Lemma sg_get_dir i : sg (get_dir i) anyv.
Proof. unfold get_dir. sg_go. Qed.
Lemma sg_get_file i : sg (get_file i) fgood.
Proof.
  intros s r s' E HJ _. unfold get_file, bind, get, ret, panic in E.
  destruct (nth_error (s_files s) i) as [f|] eqn:En; inversion E; subst;
    (split; [exact HJ|split; [apply W_refl|]]); intros a Ha; inversion Ha; subst.
  pose proof (J_files _ HJ) as F. rewrite Forall_forall in F. exact (F _ (nth_error_In _ _ En)).
Qed.
Lemma sg_put_file i f : fgood f -> sg (put_file i f) anyv.
Proof.
  intros Hf. unfold put_file. apply sg_modify; [|reflexivity]. intros s [A B C D]. constructor; cbn; try assumption.
  apply Forall_list_set; assumption.
Qed.
Lemma sg_push_file f : fgood f -> sg (push_file f) anyv.
Proof.
  intros Hf. unfold push_file. apply sg_modify; [|reflexivity]. intros s [A B C D]. constructor; cbn; try assumption.
  apply Forall_app. split; [exact D|constructor; [exact Hf|constructor]].
Qed.
Lemma sg_file_is_open v e : sg (file_is_open v e) anyv.
Proof. unfold file_is_open. sg_go. Qed.
Lemma sg_push_dir d : sg (push_dir d) anyv.
Proof. unfold push_dir. sg_go. Qed.
Hint Resolve sg_generate sg_get_volume_by_id sg_get_dir_by_id sg_get_file_by_id sg_get_dir sg_get_file
  sg_put_file sg_push_file sg_file_is_open sg_push_dir : sg.

(* the updates of a file record keep the position of its directory slot *)
Lemma fgood_entry f : fgood f -> egood (f_entry f).
Proof. intros H. exact H. Qed.
Hint Resolve fgood_entry : sg.
Ltac fg := match goal with H : fgood _ |- _ => exact H end.
Ltac fg_cbn := cbn [f_id f_vol f_cur_off f_cur_cluster f_offset f_mode f_entry f_dirty
  set_f_id set_f_vol set_f_cur_off set_f_cur_cluster set_f_offset set_f_mode set_f_entry set_f_dirty
  e_name e_mtime e_ctime e_attr e_cluster e_size e_block e_offset
  set_e_name set_e_mtime set_e_ctime set_e_attr set_e_cluster set_e_size set_e_block set_e_offset].
Hint Extern 2 (fgood _) => (unfold fgood, egood in *; fg_cbn; try match goal with |- context [if ?c then _ else _] => destruct c end; fg_cbn; assumption) : sg.
Hint Extern 2 (egood _) => (unfold fgood, egood in *; fg_cbn; assumption) : sg.

Lemma sg_open_root_dir h : sg (open_root_dir h) anyv.
Proof. unfold open_root_dir. apply sg_locked. sg_go. Qed.
Lemma sg_open_dir h name : sg (open_dir h name) anyv.
Proof. unfold open_dir. apply sg_locked. sg_go. Qed.
Lemma sg_close_dir h : sg (close_dir h) anyv.
Proof. unfold close_dir. apply sg_locked. sg_go. Qed.
Lemma sg_close_volume h : sg (close_volume h) anyv.
Proof.
  unfold close_volume. apply sg_locked. sg_go.
  apply sg_modify; [|reflexivity]. intros s [A B C D]. constructor; cbn; try assumption.
  apply Forall_swap_remove. exact C.
Qed.
Lemma sg_mgr_find h name : sg (mgr_find h name) anyv.
Proof. unfold mgr_find. apply sg_locked. sg_go. Qed.
Hint Resolve sg_open_root_dir sg_close_dir : sg.

(* the callback of an iteration runs under the lock *)
Definition lockedP : st -> Prop := fun s => s_lock s = true.
Lemma sg_mgr_iterate {R} h (inner : M R) : sgP lockedP inner anyv -> sg (mgr_iterate h inner) anyv.
Proof.
  intros Hi. unfold mgr_iterate. apply sg_locked.
  eapply sg_bind; [apply sg_get_dir_by_id|]. intros di _.
  eapply sg_bind; [apply sg_get_dir|]. intros dd _.
  eapply sg_bind; [apply sg_get_volume_by_id|]. intros vi _.
  eapply sg_bind; [apply sg_iterate_dir_all|]. intros all _. cbv zeta.
  destruct (filter (fun e => negb (is_lfn (e_attr e))) all) as [|e0 rest]; [apply sg_ret; exact Logic.I|].
  eapply (sgP_bind_make _ lockedP).
  - apply sg_modify_ext. intros s. repeat split; reflexivity.
  - intros s a s' E. inversion E; subst. reflexivity.
  - intros _ _. eapply sgP_bind; [apply sgP_try; exact Hi|]. intros r _. sg_go.
Qed.

Lemma sg_open_file_in_dir h name md : sg (open_file_in_dir h name md) anyv.
Proof.
  unfold open_file_in_dir. apply sg_locked.
  eapply sg_bind; [apply sg_get|]. intros s _. destruct (is_full (s_files s) (s_maxf s)); [apply sg_fail|].
  eapply sg_bind; [apply sg_get_dir_by_id|]. intros di _.
  eapply sg_bind; [apply sg_get_dir|]. intros dd _. cbv zeta.
  eapply sg_bind; [apply sg_get_volume_by_id|]. intros vi _.
  eapply sg_bind; [apply sg_get_vol|]. intros v Hv.
  destruct (sfn_of_str name) as [sfn|]; [|apply sg_fail].
  destruct (list_eqb sfn THIS_DIR_NAME || list_eqb sfn PARENT_DIR_NAME); [apply sg_fail|].
  eapply sg_bind; [apply sg_try; apply sg_find_directory_entry|]. intros r Hr.
  eapply (sg_bind _ _ (fun oe => forall e, oe = Some e -> egood e)).
  { destruct r as [e|e]; [apply sg_ret; intros e' He'; inversion He'; subst; exact (Hr _ eq_refl)|].
    destruct e; try apply sg_fail. destruct (creating md); [apply sg_ret; intros e' He'; discriminate He'|apply sg_fail]. }
  intros oe Hoe.
  eapply (sg_bind _ _ anyv); [destruct oe; [apply sg_file_is_open|apply sg_ret; exact Logic.I]|].
  intros op _. destruct op; [apply sg_fail|]. cbv zeta.
  destruct oe as [e|].
  - specialize (Hoe e eq_refl). sg_go.
  - sg_go.
Qed.
Lemma sg_delete_file_in_dir h name : sg (delete_file_in_dir h name) anyv.
Proof. unfold delete_file_in_dir. apply sg_locked. sg_go. Qed.
Lemma sg_get_root_volume_label h : sg (get_root_volume_label h) anyv.
Proof.
  unfold get_root_volume_label. apply sg_locked. sg_go.
  eapply sg_bind; [apply sg_try; apply sg_mgr_iterate; apply sgP_ret; exact Logic.I|]. intros r _. sg_go.
Qed.

Lemma sg_fdod_walk v : forall n so sc, sg (fdod_walk n v so sc) anyv.
Proof. induction n as [|n IH]; intros so sc; cbn [fdod_walk]; sg_go. Qed.
Hint Resolve sg_fdod_walk : sg.
Definition blkpost (p : (N * N) * ((N * N * N) + err)) : Prop :=
  forall blk bo ba, snd p = inl (blk, bo, ba) -> I < blk.
Lemma sg_find_data_on_disk vi start fs desired : sg (find_data_on_disk vi start fs desired) blkpost.
Proof.
  unfold find_data_on_disk. eapply sg_bind; [apply sg_get_vol|]. intros v Hv. cbv zeta.
  destruct (if desired <? fst start then (0, fs) else start) as [so sc].
  destruct (bytes_per_cluster v =? 0); [apply sg_panic|].
  eapply sg_bind; [apply sg_fdod_walk|]. intros [st' oe] _.
  destruct oe as [e|]; [apply sg_ret; intros blk bo ba H; discriminate H|].
  destruct st' as [so' sc'].
  eapply sg_bind; [apply sg_sub32|]. intros ofc _.
  destruct (negb (ofc <? bytes_per_cluster v)); [apply sg_panic|].
  eapply sg_bind; [apply sg_cluster_to_block; exact Hv|]. intros cb Hcb.
  eapply sg_bind; [apply sg_add32|]. intros blk Hblk. apply sg_ret.
  intros b bo ba H. cbn [snd] in H. inversion H; subst. cbv beta in Hcb. lia.
Qed.
Hint Resolve sg_find_data_on_disk : sg.

Lemma sg_read_loop fi vi : forall fuel space acc, sg (read_loop fuel fi vi space acc) anyv.
Proof. induction fuel as [|fu IH]; intros space acc; cbn [read_loop]; unfold f_left; sg_go. Qed.
Lemma sg_mgr_read h n : sg (mgr_read h n) anyv.
Proof. unfold mgr_read. apply sg_locked. sg_go. apply sg_read_loop. Qed.

Lemma sg_write_loop fi vi : forall fuel data, sg (write_loop fuel fi vi data) anyv.
Proof.
  induction fuel as [|fu IH]; intros data; cbn [write_loop]; [apply sg_oof|].
  destruct data as [|d0 data']; [apply sg_ret; exact Logic.I|].
  eapply sg_bind; [apply sg_get_file|]. intros f Hf. cbv zeta.
  eapply sg_bind; [apply sg_find_data_on_disk|]. intros [cur r] Hr.
  eapply (sg_bind _ _ (fun x : (N * N) * (N * N * N) => I < fst (fst (snd x)))).
  { destruct r as [vars|e].
    - apply sg_ret. destruct vars as [[blk bo] ba]. cbn [fst snd]. exact (Hr blk bo ba eq_refl).
    - destruct e; try apply sg_fail.
      eapply sg_bind; [apply sg_try; apply sg_alloc_cluster|]. intros a _. destruct a; [|apply sg_fail].
      eapply sg_bind; [apply sg_find_data_on_disk|]. intros [cur2 r2] Hr2. destruct r2 as [vars|e2]; [|apply sg_fail].
      apply sg_ret. destruct vars as [[blk bo] ba]. cbn [fst snd]. exact (Hr2 blk bo ba eq_refl). }
  intros [cur' [[blk boff] bavail]] Hx. cbn [fst snd] in Hx. cbv zeta.
  eapply (sgP_bind_make _ (tagged blk)).
  - destruct ((boff =? 0) && (_ =? bavail)); [apply sg_blank_mut; lia|].
    eapply sg_bind; [apply sg_cache_read|]. intros _ _. apply sg_ret. exact Logic.I.
  - intros s a s' E. destruct ((boff =? 0) && (_ =? bavail)); [exact (blank_mut_tag _ _ _ _ E)|].
    unfold bind in E. destruct (cache_read blk s) as [[b|e| |] s1] eqn:E1; inversion E; subst.
    exact (cache_read_tag _ _ _ _ E1).
  - intros _ _. eapply sgP_bind; [apply sgT_cache_modify; lia|]. intros _ _.
    eapply sg_bind; [apply sg_write_back|]. intros _ _.
    eapply sg_bind; [apply sg_get_file|]. intros f1 Hf1. cbv zeta.
    eapply sg_bind; [apply sg_put_file|]; [|intros _ _; apply IH].
    unfold fgood, egood in *. fg_cbn. destruct (e_size (f_entry f1) <? _); fg_cbn; exact Hf1.
Qed.
Hint Resolve sg_write_loop : sg.
Lemma sg_mgr_write h data : sg (mgr_write h data) anyv.
Proof. unfold mgr_write. apply sg_locked. sg_go. Qed.
Lemma sg_flush_file h : sg (flush_file h) anyv.
Proof. unfold flush_file. apply sg_locked. sg_go. Qed.
Hint Resolve sg_mgr_read sg_mgr_write sg_flush_file : sg.
Lemma sg_close_file h : sg (close_file h) anyv.
Proof.
  unfold close_file. eapply sg_bind; [apply sg_try; apply sg_flush_file|]. intros r _.
  apply sg_locked. eapply sg_bind; [apply sg_get_file_by_id|]. intros fi _.
  eapply sg_bind; [|intros _ _; destruct r; [apply sg_ret; exact Logic.I|apply sg_fail]].
  apply sg_modify; [|reflexivity]. intros s [A B C D]. constructor; cbn; try assumption.
  apply Forall_swap_remove. exact D.
Qed.
Lemma sg_has_open_handles : sg has_open_handles anyv.
Proof. unfold has_open_handles. sg_go. Qed.
Lemma sg_with_file {A} h (k : nat -> fileinfo -> M A) :
  (forall fi f, fgood f -> sg (k fi f) anyv) -> sg (with_file h k) anyv.
Proof. intros Hk. unfold with_file. apply sg_locked. sg_go. Qed.
Lemma sg_file_eof h : sg (file_eof h) anyv. Proof. apply sg_with_file. intros; sg_go. Qed.
Lemma sg_file_length h : sg (file_length h) anyv. Proof. apply sg_with_file. intros; sg_go. Qed.
Lemma sg_file_offset h : sg (file_offset h) anyv. Proof. apply sg_with_file. intros; sg_go. Qed.
Lemma sg_file_seek_from_start h x : sg (file_seek_from_start h x) anyv. Proof. apply sg_with_file. intros; sg_go. Qed.
Lemma sg_file_seek_from_end h x : sg (file_seek_from_end h x) anyv. Proof. apply sg_with_file. intros; sg_go. Qed.
Lemma sg_file_seek_from_current h x : sg (file_seek_from_current h x) anyv.
Proof. apply sg_with_file. intros; cbv zeta; sg_go. Qed.
Hint Resolve sg_file_offset sg_file_seek_from_start sg_file_seek_from_end sg_file_seek_from_current : sg.
Lemma sg_make_dir_in_dir h name : sg (make_dir_in_dir h name) anyv.
Proof. unfold make_dir_in_dir. apply sg_locked. sg_go. Qed.
Lemma sg_io_seek h w x : sg (io_seek h w x) anyv. Proof. unfold io_seek. sg_go. Qed.
Lemma sg_io_read h n : sg (io_read h n) anyv. Proof. unfold io_read. sg_go. Qed.
Lemma sg_io_write h data : sg (io_write h data) anyv. Proof. unfold io_write. sg_go. Qed.
Lemma sg_remount id : sg (remount id) anyv.
Proof.
  unfold remount. apply sg_modify; [|reflexivity]. intros s [A B C D]. constructor; cbn; try assumption.
  - discriminate.
  - constructor.
  - constructor.
Qed.
Lemma sgP_lift {A} P (f : A -> res) (m : M A) : sgP P m anyv -> sgP P (lift f m) anyv.
Proof. intros H. unfold lift. eapply sgP_bind; [exact H|]. intros a _. apply sg_ret. exact Logic.I. Qed.

(* a locked call under the lock: refused, nothing happens *)
Lemma sgL_locked {A} (m : M A) : sgP lockedP (locked m) anyv.
Proof.
  intros s r s' E HJ HL. unfold locked, bind, get in E. unfold lockedP in HL. rewrite HL in E.
  inversion E; subst. split; [exact HJ|]. split; [apply W_refl|intros; exact Logic.I].
Qed.

(* every API call: from any state when it is not a mount; under the lock in any case *)
Definition is_mount (o : op) : bool := match o with OpenVol _ => true | _ => false end.
Theorem sg_step : forall o, (is_mount o = false -> sg (step o) anyv) /\ sgP lockedP (step o) anyv.
Proof.
  fix IH 1. intros o.
  assert (G : forall o', is_mount o' = false -> sg (step o') anyv -> sg (step o') anyv /\ sgP lockedP (step o') anyv).
  { intros o' _ H. split; [exact H|apply (sgP_of_sg _ _ _ H)]. }
  destruct o; cbn [step];
    try (split; [intros _|]; [|apply sgP_of_sg]; apply sgP_lift;
         first [ apply sg_close_volume | apply sg_open_root_dir | apply sg_open_dir | apply sg_close_dir
               | apply sg_mgr_find | apply sg_open_file_in_dir | apply sg_close_file | apply sg_flush_file
               | apply sg_mgr_read | apply sg_mgr_write | apply sg_file_seek_from_start
               | apply sg_file_seek_from_current | apply sg_file_seek_from_end | apply sg_file_length
               | apply sg_file_offset | apply sg_file_eof | apply sg_delete_file_in_dir
               | apply sg_make_dir_in_dir | apply sg_get_root_volume_label | apply sg_has_open_handles
               | apply sg_io_seek | apply sg_io_read | apply sg_io_write | apply sg_remount ]).
  - (* OpenVol *)
    split; [intros H; discriminate H|]. apply sgP_lift. unfold open_raw_volume. apply sgL_locked.
  - (* Iter *)
    assert (H : sg (r <- mgr_iterate d (match inner with Some o' => step o' | None => ret RUnit end) ;;
                    ret (RIter (fst r) (match inner with Some _ => snd r | None => None end))) anyv).
    { eapply sg_bind; [|intros r _; apply sg_ret; exact Logic.I]. apply sg_mgr_iterate.
      destruct inner as [o'|]; [exact (proj2 (IH o'))|apply sgP_ret; exact Logic.I]. }
    split; [intros _; exact H|exact (sgP_of_sg _ _ _ H)].
Qed.

End Family.

Print Assumptions sg_step.
