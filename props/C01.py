"""C01 - see fsprops.py"""
from fsprops import check_C01 as check
