"""C05 - see fsprops.py"""
from fsprops import check_C05 as check
