"""C08 - see fsprops.py"""
from fsprops import check_C08 as check
