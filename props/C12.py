"""C12 - the SD driver reads and writes exactly the addressed blocks on every card type.
Proof: coq/sd/C12.v.  Tie: the real SdCard against the card simulator (all kinds, CRC
on/off, small and real-world CSDs, seeded legal timings up to the driver's budgets,
random histories); model and implementation must produce identical traces and results.
Oracle on the implementation's outputs: what a read returns = what the simulated card
stores; a successful write changes exactly the addressed blocks to the given bytes; the
reported capacity = the SD specification's formula on the card's CSD; the card type
matches the kind.  The simulator is checked against the extracted LEGALCARD."""
import vcommon as V
import sdcommon as S

PROPFILE = "C12.v"
TYPE_OF = {"V1SC": "SD1", "V2SC": "SD2", "V2HC": "SDHC"}


def cap_checks(tie, rng, thorough):
    """CSD decoding on assorted registers: model vs implementation vs specification"""
    regs = []
    for _ in range(20000 if thorough else 400):
        regs.append(bytes(rng.below(256) for _ in range(16)).hex())
    for c in (0, 1, 4095, 2048, 1000):
        for m in range(8):
            for r in (0, 1, 6, 7, 8, 9, 10, 11, 12, 15):
                regs.append(S.csd_v1(c, m, r))
    for c in (0, 1, 0x3FFFFF, 0x3FFFFE, 0x200000, 0x1FFFFF, 7529, 65535, 65536):
        regs.append(S.csd_v2(c))
    mo = S.run_proc(tie.model, "\n".join("CAP " + r for r in regs) + "\n" + "\n".join("SPECCAP " + r for r in regs) + "\n")
    io = S.run_proc(tie.impl, "\n".join("CAP " + r for r in regs) + "\n")
    mcap = [l for l in mo if l.startswith("CAP ")]; spec = [l for l in mo if l.startswith("SPECCAP ")]; icap = [l for l in io if l.startswith("CAP ")]
    tie.counts["cap_checks"] += len(regs)
    bad_corr, bad_spec, panics = [], [], {"v1": 0, "v2": 0}
    for r, m, i, sp in zip(regs, mcap, icap, spec):
        if m != i:
            bad_corr.append((r, m, i)); continue
        v = int(r, 16)
        sl = lambda hi, lo: (v >> lo) & ((1 << (hi + 1 - lo)) - 1)
        p = i.split()
        spec_bytes_v1 = (sl(73, 62) + 1) << (sl(49, 47) + 2 + sl(83, 80)); spec_bytes_v2 = (sl(69, 48) + 1) * 524288
        # expected per the proved theorems C12_capacity_v1/v2
        e1 = str(spec_bytes_v1 // 512)
        e2 = str(min(spec_bytes_v2 // 512, (1 << 32) - 1))
        if [p[1], p[2], p[3], p[4]] != [e1, str(spec_bytes_v1), e2, str(spec_bytes_v2)]:
            bad_spec.append((r, i, "expected CAP %s %d %s %d" % (e1, spec_bytes_v1, e2, spec_bytes_v2)))
        panics["v1"] += p[1] == "panic"; panics["v2"] += p[3] == "panic"
        # the extracted spec agrees with python's reading of the formulas for the structure version of the register
        sb = spec_bytes_v1 if sl(127, 126) == 0 else spec_bytes_v2
        if sp.split()[1:] != [str(sb // 512), str(sb)]:
            bad_spec.append((r, sp, "extracted spec_capacity disagrees with the formula"))
    return bad_corr, bad_spec, panics, len(regs)


def check(run, replay=None):
    tie = S.Tie(run, PROPFILE)
    if tie.impl is None:
        return "proof"
    rng = V.SplitMix(run.seed)
    thorough = run.tier == "thorough"
    legal = S.legal_scenarios(rng, thorough, "L")
    # overflow class: out-of-range CSD fields and block indices whose byte address exceeds u32
    over = []
    n = 0
    for kind, csd in (("V1SC", S.csd_v1(5, 0, 0)), ("V1SC", S.csd_v1(5, 3, 3)), ("V2HC", S.csd_v2(0x3FFFFF))):
        over.append(S.Scn("V%d" % n, 1, 50, ["gt", "ny", "nb", "gt"], kind=kind, csd=csd, memseed=1, tseed=n, tag="overflow")); n += 1
    for kind in ("V1SC", "V2SC"):
        for call in ("r:1:8388608", "w:8388608:1:3", "r:2:16777215", "w:4294967295:2:3"):
            over.append(S.Scn("V%d" % n, 0, 50, ["gt", call, "gt"], kind=kind, csd=S.csd_for(kind), memseed=1, tseed=n, tag="overflow")); n += 1
    # the card is exchanged for one with another CSD while the driver object lives on: after mark_card_uninit the
    # capacity is the NEW card's (nothing read from the old card may be kept)
    swaps = []
    for j, (kind, c1, c2) in enumerate((("V2HC", S.csd_v2(15159), S.csd_v2(3874)), ("V1SC", S.csd_v1(4095, 7, 9), S.csd_v1(2000, 5, 9)),
                                        ("V2HC", S.csd_v2(3874), S.csd_v2(60000)), ("V2SC", S.csd_v1(1000, 6, 10), S.csd_v1(4095, 7, 10)))):
        for crc in (0, 1):
            swaps.append(S.Scn("X%d" % (2 * j + crc), crc, 50, ["nb", "ny", "r:1:3", "sw:" + c2, "mu", "gt", "nb", "ny", "r:1:3", "w:2:1:7", "nb"],
                               kind=kind, csd=c1, memseed=5 + j, tseed=40 + j, tag="swap"))
    # an identification handshake that is cut by ONE transient SPI failure (at every position of the handshake in
    # turn), then the same calls again: the retried calls must re-initialise and address the card by its real kind
    initfail = []
    for j, kind in enumerate(("V2HC", "V2SC", "V1SC")):
        for f in (range(0, 60) if thorough else range(j, 60, 3)):
            initfail.append(S.Scn("IF%d_%d" % (j, f), (f + j) % 2, 50, ["r:1:3", "r:1:3", "gt", "w:2:1:7", "r:1:2", "nb"], kind=kind, csd=S.csd_for(kind),
                                  memseed=11 + j, tseed=60 + f, fails=str(f), tag="initfail"))
    # blocks whose CRC-16 has a zero high byte / a zero low byte (1 block in 128): written, read back singly and in a
    # multi-block read, with CRC checking on - an intact block must never be refused whatever its checksum looks like
    crcsp = []
    for cls, (seed, c) in sorted(S.special_crc_seeds().items()):
        for j, kind in enumerate(("V2HC", "V1SC")):
            crcsp.append(S.Scn("CS%s%d" % (cls, j), 1, 50, ["w:4:1:%d" % seed, "r:1:4", "r:2:3", "r:3:4", "w:9:2:%d" % seed, "r:2:9"], kind=kind, csd=S.csd_for(kind),
                               memseed=17, tseed=80 + j, tag="crc-" + cls))
    allscn = legal + over + swaps + initfail + crcsp
    ires = tie.run_impl(allscn)
    mres = tie.run_model(allscn, ires)
    diffs = tie.compare(allscn, ires, mres)
    cards = tie.card_replay(legal, ires)
    byid = {s.id: s for s in allscn}
    bad, d17, overflow = [], [], []
    nreads = nwrites = ncap = 0
    for s in allscn:
        r = ires.get(s.id)
        if r is None:
            continue
        nb = s.nblocks()
        if s.tag == "initfail":
            # judged only when the bus failure cut the HANDSHAKE of the first call (before its CMD17 frame went out): a
            # failure in the middle of a data transfer leaves the card mid-block, and what later calls then return is
            # C13's recovery clause (mark_card_uninit), not C12's
            t0 = r.calltrace.get(0, [])
            fpos = next((i for i, l in enumerate(t0) if l.startswith("F")), None)
            cpos = next((i for i, l in enumerate(t0) if l.startswith("W 51")), None)
            if fpos is None or (cpos is not None and cpos < fpos):
                continue
        for k, res in sorted(r.results.items()):
            call = s.calls[k]; p = call.split(":")
            if res == "panic":
                bad.append((s, k, "panic in `%s`" % call))
                continue
            if s.tag == "initfail" and any(l.startswith("F") for l in r.calltrace.get(k, [])):
                # the call that hit the bus failure is not judged here (reporting bus errors is C13's subject; the driver
                # deliberately discards the result of the one courtesy byte it clocks after the handshake, so a failure of
                # exactly that transfer leaves a correct Ok): the calls AFTER it are judged as usual
                continue
            if s.tag == "overflow":
                idx = int(p[2]) if p[0] in ("r", "rd") else int(p[1]) if p[0] == "w" else 0
                if p[0] in ("r", "rd", "w") and not res.startswith("err "):
                    bad.append((s, k, "block index %d is beyond any byte-addressed card but `%s` returned %s" % (idx, call, res)))
                if p[0] == "nb":
                    exp = min(r.card[2] // 512, (1 << 32) - 1)
                    if res != "ok num %d" % exp:
                        bad.append((s, k, "capacity %s, the card's CSD encodes %d blocks" % (res, exp)))
                if p[0] == "ny" and res != "ok num %d" % r.card[2]:
                    bad.append((s, k, "capacity %s, the card's CSD encodes %d bytes" % (res, r.card[2])))
                overflow.append((s, k, call))
                continue
            if p[0] in ("r", "rd"):
                nreads += 1
                n_, idx = int(p[1]), int(p[2])
                if not res.startswith("ok blocks"):
                    bad.append((s, k, "in-range read failed: %s" % res))
                elif int(res.split()[3]) != r.exp.get(k):
                    bad.append((s, k, "read returned data different from the card's memory (digest %s, card %s)" % (res.split()[3], r.exp.get(k))))
                if r.chg.get(k):
                    bad.append((s, k, "a read changed the card's memory: %s" % r.chg.get(k)))
            elif p[0] == "w":
                nwrites += 1
                idx, n_, seed = int(p[1]), int(p[2]), int(p[3])
                want = {idx + i: S.digest(S.gen_block(seed, i)) for i in range(n_)}
                if res != "ok unit":
                    bad.append((s, k, "in-range write failed: %s" % res))
                else:
                    got = r.chg.get(k, {})
                    # blocks whose new content equals the old are not listed as changed: compare only listed ones + require no others
                    extra = {b: d for b, d in got.items() if b not in want}
                    wrong = {b: d for b, d in got.items() if b in want and want[b] != d}
                    if extra or wrong:
                        bad.append((s, k, "write changed other blocks / stored other bytes: extra=%s wrong=%s" % (extra, wrong)))
            elif p[0] in ("nb", "ny"):
                ncap += 1
                card = r.card_for(k)
                exp = min(card[1], (1 << 32) - 1) if p[0] == "nb" else card[2]
                if res != "ok num %d" % exp:
                    bad.append((s, k, "capacity %s, the CSD of the card in the slot (structure version %d) encodes %d" % (res, int(s.csd[0], 16) >> 2, exp)))
            elif p[0] == "gt":
                if res != "ok type " + TYPE_OF[s.kind]:
                    bad.append((s, k, "card kind %s identified as %s" % (s.kind, res)))
        # after a written block, reading it back is covered by the read oracle (the simulator's memory is the reference)
    # written data must have been stored: every successful write's blocks appear with the right digest or were already equal
    cardbad = [(byid[sid], l) for sid, l in cards.items() if not l.startswith("CARD ok")]
    bad_corr, bad_spec, panics, ncapreg = cap_checks(tie, rng, thorough)
    for s, k, what in bad[:3]:
        tie.violation(what, "scenario: %s\ncall %d: %s\nresult: %s\nreplay: echo '%s' | %s" % (s.impl_line()[:1500], k, s.calls[k], ires[s.id].results.get(k), s.impl_line(), tie.impl))
    for r, i, what in bad_spec[:2]:
        tie.violation("CSD capacity decoding differs from the specification's formula", "register (hex): %s\nimplementation: %s\n%s\nreplay: echo 'CAP %s' | %s" % (r, i, what, r, tie.impl))
    for s, l in cardbad[:2]:
        tie.violation("the card simulator deviates from the extracted LEGALCARD (check machinery)", "scenario: %s\n%s" % (s.impl_line()[:1500], l[:600]), no_input=True)
    if not bad and not bad_spec:
        tie.report_diffs(diffs, "C12_* (all theorems about the driver model)")
        for r, m, i in bad_corr[:1]:
            tie.violation("model/implementation correspondence broken (CSD accessors of SdModel.v vs proto.rs)", "register %s\nmodel %s\nimplementation %s" % (r, m, i), no_input=True)
    tags = {}
    for s in allscn:
        tags[s.tag] = tags.get(s.tag, 0) + 1
    run.coverage.update(
        evaluations=tie.counts["api_calls"] + ncapreg, distinct_nontrivial=len({s.impl_line().split(" ", 2)[2] for s in allscn}) + ncapreg,
        rule="one evaluation = one public driver call on the real crate (trace + result compared with the model, result compared with the simulated card's memory / CSD) or one CSD register decoded by model, implementation and specification; distinct = distinct scenario lines + distinct registers",
        scenarios=tie.counts["scenarios"], spi_trace_lines_compared=tie.counts["spi_events_compared"],
        traces_validated_against_impl=tie.counts["scenarios"], disagreements=len(diffs) + len(bad_corr), oracle_failures=len(bad) + len(bad_spec),
        reads_checked=nreads, writes_checked=nwrites, capacity_calls_checked=ncap, csd_registers_checked=ncapreg, csd_panics_seen=panics,
        legalcard_replays=tie.counts["card_replays"], legalcard_replay_bytes=tie.counts["card_replay_bytes"], legalcard_disagreements=len(cardbad),
        extreme_register_and_index_calls=len(overflow),
        input_distribution=tags, samples=[s.impl_line()[:200] for s in (legal[:2] + legal[-2:] + over[:2])])
    run.assumptions += ["the tie between SdModel.v and src/sdcard/mod.rs is differential testing (counts above)",
                        "the simulated card is the reference for memory contents; it is checked against the extracted LEGALCARD on every legal run"]
    return "proof"
