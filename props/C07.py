"""C07 - see fsprops.py"""
from fsprops import check_C07 as check
