"""C03 - see fsprops.py"""
from fsprops import check_C03 as check
