"""C16 - see fsprops.py"""
from fsprops import check_C16 as check
