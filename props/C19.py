"""C19 - CRC-7 / CRC-16 equal the SD polynomials for every message.
Proof: coq/crc (C19.v).  Tie: extracted model vs the crate's crc7/crc16 on
exhaustive short messages, single-bit basis messages and random messages;
oracle: the polynomial-division spec evaluated on the implementation's outputs."""
import os, subprocess
import vcommon as V

GROUP, PROPFILE = "crc", "C19.v"

def run_cmds(exe, cmds):
    p = subprocess.run([exe], input="\n".join(cmds) + "\n", stdout=subprocess.PIPE, text=True, timeout=3600)
    return p.stdout.strip().split("\n") if p.stdout.strip() else []

def par_cmds(exe, cmdlists):
    from concurrent.futures import ThreadPoolExecutor
    with ThreadPoolExecutor(max_workers=V.NPROC) as ex:
        return list(ex.map(lambda c: run_cmds(exe, c), cmdlists))

def check(run, replay=None):
    gate = V.proof_gate(GROUP, PROPFILE, force=(run.tier == "thorough"), chk=(run.tier == "thorough"))
    run.coverage.update(obligations=gate["obligations"], discharged=gate["discharged"],
                        checker_cmd="make -C coq/crc (coq_makefile, full .vo) ; coqc C19.v ; Print Assumptions",
                        trusted_base=V.TRUSTED_BASE_COMMON + [
                            "modelled: crc7/crc16 of src/sdcard/proto.rs transcribed on N with explicit u8/u16 masks; inputs are byte lists (every element < 256)"],
                        theorems=gate["theorems"], axioms=gate["axioms"], coqchk=gate.get("coqchk", "quick tier: not run"))
    for pb in gate["problems"]:
        run.violation("proof obligation: " + pb, "theorem/obligation no longer checks:\n" + pb, no_input=True)
    model = V.ocaml_build(GROUP)
    bins, out = V.cargo_build(["crcrun"], profile="release")
    if bins is None:
        run.violation("harness does not build against /repo", out[-3000:], no_input=True)
        return "proof"
    impl = bins["crcrun"]

    rng = V.SplitMix(run.seed)
    thorough = run.tier == "thorough"
    # --- enumerations: (len, start, count, stride)
    enums = [(0, 0, 1, 1), (1, 0, 256, 1), (2, 0, 65536, 1)]
    if thorough:
        per = (1 << 24) // 64
        enums += [(3, k * per, per, 1) for k in range(64)]
    else:
        # strided sample of the 3-byte messages: 2^16 of them, stride odd => all residues of the low bytes
        enums += [(3, rng.below(251), 65536, 251), (3, rng.below(1 << 16), 65536 , 255)]
        enums += [(4, rng.below(1 << 16), 16384, 262139)]
    cmdlists = [["E %d %d %d %d" % e] for e in enums]
    mres = par_cmds(model, cmdlists)
    ires = par_cmds(impl, cmdlists)
    evaluations = 0
    diffs = []
    for e, m, i in zip(enums, mres, ires):
        evaluations += e[2]
        if m != i:
            # locate first differing chunk
            for k, (a, b) in enumerate(zip(m, i)):
                if a != b:
                    diffs.append((e, k)); break
            else:
                diffs.append((e, 0))
    # --- explicit messages: single-bit basis messages of lengths 5, 16, 512 and random up to 2 KiB
    msgs = []
    for ln in (5, 16, 512):
        bits = range(ln * 8) if (thorough or ln < 512) else sorted({rng.below(ln * 8) for _ in range(512)} | {0, ln * 8 - 1})
        for bit in bits:
            b = bytearray(ln); b[bit // 8] = 0x80 >> (bit % 8); msgs.append(bytes(b))
    nrand = 20000 if thorough else 1500
    for _ in range(nrand):
        ln = rng.choice([1, 2, 3, 4, 5, 6, 7, 8, 15, 16, 17, 64, 511, 512, 513, 514]) if rng.chance(1, 2) else rng.below(2049)
        msgs.append(bytes(rng.below(256) for _ in range(ln)))
    # corpus: regression inputs (known vectors)
    msgs += [b"123456789", bytes.fromhex("002600325F5983C8ADDBCFFFD24040"), bytes.fromhex("4000000000"), b""]
    shards = [msgs[k::V.NPROC] for k in range(V.NPROC)]
    mcmd = [[("M " + m.hex()).strip() for m in s] for s in shards]
    mo = par_cmds(model, mcmd); io = par_cmds(impl, mcmd)
    evaluations += len(msgs)
    bad_msgs = []
    spec_bad = []
    # the spec (long division on N, quadratic in the message length) is evaluated on the
    # implementation's outputs for: every message where model and implementation differ,
    # plus a sample of short messages and a few long ones
    spec_todo = []
    nlong = 0
    for s, a, b in zip(shards, mo, io):
        for m, x, y in zip(s, a, b):
            if x != y and len(spec_todo) < 400:
                spec_todo.append((m, x, y))
            elif len(m) <= 64 and rng.chance(1, 4 if not thorough else 1):
                spec_todo.append((m, x, y))
            elif len(m) <= 514 and nlong < (64 if thorough else 8):
                nlong += 1; spec_todo.append((m, x, y))
    sshards = [spec_todo[k::V.NPROC] for k in range(V.NPROC)]
    so = par_cmds(model, [[("S " + m.hex()).strip() for m, _, _ in s] for s in sshards])
    for s, c in zip(sshards, so):
        for (m, x, y), z in zip(s, c):
            if y != z:
                spec_bad.append((m, y, z))
            elif x != y:
                bad_msgs.append((m, x, y, z))
    # residue oracle on the implementation: crc16(m ++ be16(crc16 m)) == 0
    res_msgs = msgs[: (4000 if thorough else 600)]
    first = run_cmds(impl, [("M " + m.hex()).strip() for m in res_msgs])
    ext = []
    for m, l in zip(res_msgs, first):
        c16 = int(l.split()[2]); ext.append(m + bytes([c16 >> 8, c16 & 255]))
    second = run_cmds(impl, ["M " + m.hex() for m in ext])
    residue_bad = [(m, l) for m, l in zip(ext, second) if int(l.split()[2]) != 0]
    evaluations += len(ext)

    # --- verdicts
    nv = 0
    for (m, y, z) in spec_bad[:3]:
        run.violation("implementation differs from the polynomial-division spec", "input message (hex): %s\nimplementation crc7 crc16: %s\nspec           crc7 crc16: %s\nreplay: echo 'M %s' | harness/target/release/crcrun" % (m.hex(), y, z, m.hex())); nv += 1
    for (m, l) in residue_bad[:2]:
        if nv: break
        run.violation("crc16(m ++ be16(crc16 m)) != 0 on the implementation", "message+crc (hex): %s\nimplementation: %s" % (m.hex(), l)); nv += 1
    for (e, k) in diffs[:3]:
        # locate the message inside the chunk, then ask the spec
        start = e[1] + k * 4096 * e[3]; cnt = min(4096, e[2] - k * 4096)
        cmd = ["L %d %d %d %d" % (e[0], start, cnt, e[3])]
        a = run_cmds(model, cmd); b = run_cmds(impl, cmd)
        for x, y in zip(a, b):
            if x != y:
                idx = int(x.split()[1]); m = idx.to_bytes(e[0], "big") if e[0] else b""
                z = run_cmds(model, [("S " + m.hex()).strip()])[0]
                run.violation("implementation differs from model and spec on an enumerated message",
                              "input message (hex): %s\nmodel: %s\nimplementation: %s\nspec (crc7 crc16): %s" % (m.hex(), x, y, z)); nv += 1
                break
    if bad_msgs and not nv:
        m, x, y, z = bad_msgs[0]
        run.violation("model/implementation correspondence broken (CrcModel.v vs proto.rs) although the spec agrees",
                      "correspondence: crc model vs implementation\ninput (hex): %s model %s impl %s spec %s\ntheorems depending on it: C19_crc7 C19_crc16 C19_residue C19_detects_*" % (m.hex(), x, y, z), no_input=True)
    run.coverage.update(
        evaluations=evaluations,
        distinct_nontrivial=len(set(msgs)) + sum(e[2] for e in enums) - 1,
        rule="enumerated messages by index (all of length 0..2; length 3: %s; a stride of length 4) + single-bit basis messages of lengths 5/16/512 + random messages up to 2 KiB + residue check; distinct = distinct byte strings, non-trivial = non-empty" % ("all 2^24 = every (remainder, byte) pair" if thorough else "two strided samples of 2^16"),
        exhaustive=bool(thorough),
        samples=["E len=%d start=%d count=%d stride=%d" % e for e in enums[:6]] + ["M " + m.hex()[:64] for m in msgs[-6:]],
        traces_validated_against_impl=evaluations,
        disagreements=len(diffs) + len(bad_msgs) + len(spec_bad) + len(residue_bad),
        input_distribution={"enumerated": sum(e[2] for e in enums), "single_bit_basis": sum(1 for m in msgs if sum(bin(x).count("1") for x in m) == 1),
                            "random": nrand, "residue_checks": len(ext), "spec_oracle_evaluations": len(spec_todo),
                            "lengths": {"<=3": sum(1 for m in msgs if len(m) <= 3), "4..64": sum(1 for m in msgs if 4 <= len(m) <= 64), "65..512": sum(1 for m in msgs if 65 <= len(m) <= 512), ">512": sum(1 for m in msgs if len(m) > 512)}})
    run.assumptions += ["bytes are modelled as N < 256", "the tie between CrcModel.v and proto.rs is differential testing (counts above)"]
    return "proof"
