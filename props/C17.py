"""C17 - long-file-name decoding is total, valid UTF-8 and the right name; listing reports a
long name only for a complete, ordered, checksum-matching fragment run.
Proof: coq/lfn (C17.v).  Tie: extracted model vs the crate's LfnBuffer (push/clear/as_str),
OnDiskDirEntry::lfn_contents, VolumeManager::iterate_dir_lfn over a crafted FAT16 root
directory, core::char::decode_utf16 / char::encode_utf8.  Oracle: the extracted spec
(lossy / utf8 / valid_utf8 / spec_listing) evaluated on the implementation's outputs."""
import os, subprocess
import vcommon as V

GROUP, PROPFILE = "lfn", "C17.v"
KNOWN_CLASS = "leading_lone"
KNOWN_TEXT = ("LfnBuffer drops an unpaired surrogate that is the first unit of the whole long name "
              "(parked in unpaired_surrogate, never flushed): as_str lacks the leading U+FFFD")

def run_cmds(exe, cmds):
    if not cmds:
        return []
    p = subprocess.run([exe], input="\n".join(cmds) + "\n", stdout=subprocess.PIPE, text=True, timeout=3600)
    return p.stdout.split("\n")[:-1] if p.stdout else []

def par_cmds(exe, cmds):
    """run a flat command list sharded over processes; returns the flat list of output lines
    (only for commands that print exactly one line)"""
    from concurrent.futures import ThreadPoolExecutor
    k = max(1, min(V.NPROC, len(cmds) // 64 + 1))
    shards = [cmds[i::k] for i in range(k)]
    with ThreadPoolExecutor(max_workers=k) as ex:
        res = list(ex.map(lambda c: run_cmds(exe, c), shards))
    out = [None] * len(cmds)
    for i, r in enumerate(res):
        if len(r) != len(shards[i]):
            raise RuntimeError("%s: %d lines for %d commands" % (exe, len(r), len(shards[i])))
        out[i::k] = r
    return out

def par_multi(exe, cmds):
    """same for commands printing several lines ending with an `END ...` line"""
    from concurrent.futures import ThreadPoolExecutor
    k = max(1, min(V.NPROC, len(cmds) // 16 + 1))
    shards = [cmds[i::k] for i in range(k)]
    def one(c):
        lines = run_cmds(exe, c)
        groups, cur = [], []
        for l in lines:
            cur.append(l)
            if l.startswith("END") or l.startswith("ERR"):
                groups.append(cur); cur = []
        if len(groups) != len(c):
            raise RuntimeError("%s: %d groups for %d commands" % (exe, len(groups), len(c)))
        return groups
    with ThreadPoolExecutor(max_workers=k) as ex:
        res = list(ex.map(one, shards))
    out = [None] * len(cmds)
    for i, r in enumerate(res):
        out[i::k] = r
    return out

# ---------------------------------------------------------------------------------------------
# generators
# ---------------------------------------------------------------------------------------------
CLASSES = "ABCHLZF"   # ASCII, 2-byte, 3-byte BMP, high surrogate, low surrogate, NUL, FFFF

def unit(rng, c):
    if c == "A": return 0x01 + rng.below(0x7F)
    if c == "B": return 0x80 + rng.below(0x780)
    if c == "C":
        v = 0x800 + rng.below(0xF7FF)
        return v if not (0xD800 <= v <= 0xDFFF) else 0xE000 + (v & 0xFFF)
    if c == "H": return 0xD800 + rng.below(0x400)
    if c == "L": return 0xDC00 + rng.below(0x400)
    if c == "Z": return 0
    return 0xFFFF

def rnd_unit(rng, weights=(("A", 8), ("B", 3), ("C", 4), ("H", 3), ("L", 3), ("Z", 1), ("F", 1))):
    return unit(rng, rng.weighted(list(weights)))

NOZ = (("A", 8), ("B", 3), ("C", 4), ("H", 3), ("L", 3), ("F", 1))

def fhex(f):
    assert len(f) == 13
    return "".join("%04x" % u for u in f)

def pad(units, rng=None):
    """a fragment holding `units` then NUL then FFFF padding (the usual on-disk form)"""
    f = list(units)
    if len(f) < 13: f.append(0)
    while len(f) < 13: f.append(0xFFFF if rng is None or rng.chance(7, 8) else rnd_unit(rng))
    return f

BUFSIZES = [0, 1, 2, 3, 4, 5, 12, 13, 38, 39, 40, 255, 780]

def gen_push_cases(rng, thorough):
    """list of (bufsize, tokens in push order) ; tokens: 13-unit lists or 'c'"""
    cases, dist = [], {}
    def add(kind, n, toks):
        cases.append((n, toks)); dist[kind] = dist.get(kind, 0) + 1
    # corpus
    add("corpus", 64, [pad([0xDE00, 0x2E, 0x74, 0x78, 0x74]), [0x41, 0x42] + list(range(0x30, 0x3A)) + [0xD83D]])
    add("corpus", 64, [pad([0xDE00, 0x41]), [0x41] * 13])                  # D11 (fixed): 13 units + carried
    add("corpus", 64, [pad([0xDE00, 0x41])])                                # D12
    add("corpus", 64, [pad([0xD800])]); add("corpus", 2, [pad([0xD800])]); add("corpus", 3, [pad([0xD800])])
    add("corpus", 64, [pad([0x30, 0x31, 0x32, 0x33, 0x2202])])
    add("corpus", 4, [pad([0x41, 0x42]), "c", pad([0x43] * 5), "c", pad([0x44])])
    add("corpus", 64, [pad([]), pad([0xDC00]), pad([]), [0x41] * 12 + [0xD800]])
    # exhaustive over classes around one fragment boundary: last two units of F1 x first two of F2
    k = 0
    for a in CLASSES:
        for b in CLASSES:
            for c in CLASSES:
                for d in CLASSES:
                    reps = 3 if thorough else 1
                    for _ in range(reps):
                        f1 = [unit(rng, rng.weighted(list(NOZ))) if rng.chance(1, 3) else 0x41 + rng.below(26) for _ in range(11)] + [unit(rng, a), unit(rng, b)]
                        f2 = [unit(rng, c), unit(rng, d)] + [rnd_unit(rng) if rng.chance(1, 2) else 0x61 + rng.below(26) for _ in range(11)]
                        n = BUFSIZES[k % len(BUFSIZES)] if rng.chance(3, 4) else rng.below(781); k += 1
                        extra = []
                        if rng.chance(1, 4):   # an earlier fragment in front (pushed last)
                            extra = [[rnd_unit(rng, NOZ) for _ in range(13)]]
                        add("boundary_classes", n, [f2, f1] + extra)
    # single short fragments: all class assignments of the first k units
    import itertools
    for klen in range(0, 5 if thorough else 4):
        for combo in itertools.product(CLASSES, repeat=klen):
            us = [unit(rng, c) for c in combo]
            f = pad(us) if rng.chance(3, 4) else (us + [rnd_unit(rng) for _ in range(13 - len(us))])
            n = rng.choice(BUFSIZES) if rng.chance(3, 4) else rng.below(20)
            add("single_short", n, [f])
    # two/three fragments made of one or two surrogates each
    for combo in itertools.product("HLA", repeat=4):
        fr = [pad([unit(rng, c)]) for c in combo]
        add("tiny_fragments", rng.choice([3, 4, 6, 7, 9, 12, 64]), fr)
    # random fragment lists 1..20, with clears
    nrand = 6000 if thorough else 900
    for _ in range(nrand):
        nf = 1 + rng.below(20) if rng.chance(1, 2) else 1 + rng.below(4)
        style = rng.below(4)
        toks = []
        for i in range(nf):
            if style == 0:
                f = [rnd_unit(rng) for _ in range(13)]
            elif style == 1:
                f = [rnd_unit(rng, NOZ) for _ in range(13)]
            elif style == 2:
                f = [unit(rng, rng.choice("HL")) if rng.chance(1, 2) else 0x41 for _ in range(13)]
            else:
                f = pad([rnd_unit(rng, NOZ) for _ in range(rng.below(13))], rng) if i == 0 else [rnd_unit(rng, NOZ) for _ in range(13)]
            toks.append(f)
            if rng.chance(1, 40): toks.append("c")
        n = rng.choice(BUFSIZES) if rng.chance(1, 2) else rng.below(781)
        add("random", n, toks)
    # every buffer size 0..=780 for a few names (one long enough to overflow 780 bytes)
    for j in range(12 if thorough else 2):
        nf = 20 if j % 2 == 0 else 1 + rng.below(20)
        toks = [[unit(rng, rng.weighted([("C", 6), ("A", 2), ("B", 2), ("H", 2), ("L", 2)])) for _ in range(13)] for _ in range(nf)]
        for n in range(781):
            add("all_buffer_sizes", n, toks)
    if thorough:
        # three units before the boundary x two after
        for combo in itertools.product(CLASSES, repeat=5):
            f1 = [0x41 + rng.below(26) for _ in range(10)] + [unit(rng, c) for c in combo[:3]]
            f2 = [unit(rng, c) for c in combo[3:]] + [0x61 + rng.below(26) for _ in range(11)]
            add("boundary_classes_3x2", rng.choice(BUFSIZES), [f2, f1])
    # fits exactly / one byte short
    for _ in range(300 if thorough else 60):
        nf = 1 + rng.below(3)
        toks = [[rnd_unit(rng, NOZ) for _ in range(13)] for _ in range(nf)]
        add("near_fit", ("fit", toks), toks)
    return cases, dist

def ptoks(toks):
    return " ".join(t if t == "c" else fhex(t) for t in toks)

# ---- directory slots
def lfn_slot(seq, start, cs, units, attr=0x0F, extra=0):
    d = bytearray(32)
    d[0] = (seq & 0x1F) | (0x40 if start else 0) | extra
    offs = [1, 3, 5, 7, 9, 14, 16, 18, 20, 22, 24, 28, 30]
    for o, u in zip(offs, units):
        d[o] = u & 255; d[o + 1] = u >> 8
    d[11] = attr; d[13] = cs
    return bytes(d)

def short_slot(name, attr=0x20, rng=None):
    d = bytearray(32)
    d[0:11] = name
    d[11] = attr
    if rng is not None:
        for i in range(12, 32): d[i] = rng.below(256)
    return bytes(d)

def sfn_csum(name):
    r = 0
    for b in name:
        r = (((r & 1) << 7) + (r >> 1) + b) & 255
    return r

def rnd_name(rng):
    base = bytes(rng.choice(b"ABCDEFGHIJKLMNOPQRSTUVWXYZ0123456789_~") for _ in range(1 + rng.below(8)))
    ext = bytes(rng.choice(b"ABCDEFGHIJKLMNOPQRSTUVWXYZ") for _ in range(rng.below(4)))
    return base.ljust(8) + ext.ljust(3)

def name_frags(rng, nfr):
    """fragments in name order for a name of nfr fragments (the last one NUL-padded)"""
    fr = []
    for i in range(nfr):
        if i == nfr - 1 and rng.chance(3, 4):
            fr.append(pad([rnd_unit(rng, NOZ) if rng.chance(1, 3) else 0x61 + rng.below(26) for _ in range(rng.below(13))]))
        else:
            fr.append([rnd_unit(rng, NOZ) if rng.chance(1, 3) else 0x61 + rng.below(26) for _ in range(13)])
    return fr

def good_run(rng, name, nfr, frags=None):
    frags = frags or name_frags(rng, nfr)
    cs = sfn_csum(name)
    return [lfn_slot(i + 1, i == nfr - 1, cs, frags[i]) for i in reversed(range(nfr))]

def gen_dirs(rng, thorough):
    dirs, dist = [], {}
    def add(kind, n, slots):
        dirs.append((n, slots[:512])); dist[kind] = dist.get(kind, 0) + 1
    AB, CA = b"AB         ", b"CA         "
    assert sfn_csum(AB) == sfn_csum(CA) == 0x91
    # corpus: D13 (fixed) - a long name must not be inherited by the next short entry
    add("corpus", 64, [lfn_slot(1, True, 0x91, pad([0x4C])), short_slot(AB), short_slot(CA)])
    add("corpus", 64, [lfn_slot(2, True, 0x91, pad([0x4C])), short_slot(AB), lfn_slot(1, False, 0x91, pad([0x4D])), short_slot(CA)])
    add("corpus", 64, good_run(rng, AB, 1) + [short_slot(AB)])
    add("corpus", 64, [lfn_slot(1, True, 0x91, pad([0xDE00, 0x41])), short_slot(AB)])   # D12 through a listing
    for nfr in (1, 2, 3, 18, 19, 20, 21, 31):
        nm = rnd_name(rng)
        add("limits", 780, good_run(rng, nm, nfr) + [short_slot(nm)])
        add("limits", 780, good_run(rng, nm, nfr)[1:] + [short_slot(nm)])
    for b0 in (0x13, 0x14, 0x3F, 0x1F, 0x40, 0x41, 0x60, 0x61, 0x53, 0x54, 0x7F, 0xC1, 0x81, 0x01, 0x00 | 0x20):
        nm = rnd_name(rng)
        add("limits", 64, [lfn_slot(b0 & 0x1F, bool(b0 & 0x40), sfn_csum(nm), pad([0x58]), extra=b0 & 0xA0), short_slot(nm)])
    nrand = 2500 if thorough else 350
    for _ in range(nrand):
        slots = []
        kinds = []
        for _e in range(1 + rng.below(8)):
            nm = rnd_name(rng) if rng.chance(3, 4) else rng.choice([AB, CA])
            nfr = 1 + rng.below(4) if rng.chance(3, 4) else 1 + rng.below(20)
            run = good_run(rng, nm, nfr)
            m = rng.weighted([("ok", 6), ("drop", 2), ("dup", 2), ("swap", 2), ("badcs_first", 2), ("badcs_later", 2),
                              ("nostart", 1), ("midstart", 1), ("seq", 2), ("attr", 1), ("short_inside", 2),
                              ("deleted_inside", 2), ("label_inside", 1), ("end_inside", 1), ("random_slot", 2),
                              ("two_shorts", 2), ("norun", 2), ("b0bits", 1)])
            kinds.append(m)
            i = rng.below(len(run))
            if m == "drop": del run[i]
            elif m == "dup": run.insert(i, run[i])
            elif m == "swap" and len(run) > 1:
                j = rng.below(len(run)); run[i], run[j] = run[j], run[i]
            elif m == "badcs_first":
                b = bytearray(run[0]); b[13] ^= 1 + rng.below(255); run[0] = bytes(b)
            elif m == "badcs_later" and len(run) > 1:
                i = 1 + rng.below(len(run) - 1); b = bytearray(run[i]); b[13] ^= 1 + rng.below(255); run[i] = bytes(b)
            elif m == "nostart":
                b = bytearray(run[0]); b[0] &= ~0x40 & 255; run[0] = bytes(b)
            elif m == "midstart":
                b = bytearray(run[i]); b[0] |= 0x40; run[i] = bytes(b)
            elif m == "seq":
                b = bytearray(run[i]); b[0] = (b[0] & 0xE0) | ((b[0] + rng.choice([1, 31, 2, 16])) & 0x1F); run[i] = bytes(b)
            elif m == "attr":
                b = bytearray(run[i]); b[11] = rng.choice([0x1F, 0x2F, 0x3F, 0xFF, 0x0E, 0x07, 0x0B, 0x0D, 0x08, 0x10]); run[i] = bytes(b)
            elif m == "short_inside": run.insert(i, short_slot(rnd_name(rng), rng.choice([0x20, 0x10, 0x00, 0x01]), rng))
            elif m == "deleted_inside":
                if rng.chance(1, 2):
                    b = bytearray(run[i]); b[0] = 0xE5; run.insert(i, bytes(b))
                else:
                    b = bytearray(run[i]); b[0] = 0xE5; run[i] = bytes(b)
            elif m == "label_inside": run.insert(i, short_slot(b"VOLLABEL   ", 0x08))
            elif m == "end_inside" and rng.chance(1, 3): run.insert(i, bytes(32))
            elif m == "random_slot":
                b = bytes(rng.below(256) for _ in range(32)); run.insert(i, b)
            elif m == "b0bits":
                b = bytearray(run[i]); b[0] |= rng.choice([0x20, 0x80, 0xA0]); run[i] = bytes(b)
            elif m == "norun": run = []
            slots += run
            slots.append(short_slot(nm, rng.choice([0x20, 0x20, 0x10, 0x01, 0x08]), rng))
            if m == "two_shorts":
                slots.append(short_slot(rng.choice([nm, AB, CA]), 0x20, rng))
        n = rng.choice([0, 1, 3, 12, 13, 38, 39, 40, 255, 780, 780, 780]) if rng.chance(3, 4) else rng.below(781)
        add("crafted:" + "+".join(sorted(set(kinds)))[:40] if False else "crafted", n, slots)
    # arbitrary bytes
    for _ in range(600 if thorough else 120):
        ns = 1 + rng.below(40)
        style = rng.below(3)
        slots = []
        for _s in range(ns):
            b = bytearray(rng.below(256) for _ in range(32))
            if style >= 1 and rng.chance(2, 3): b[11] = 0x0F | (rng.below(16) << 4)
            if style == 2 and rng.chance(2, 3): b[0] = rng.choice([0x41, 0x42, 0x01, 0x02, 0x43, 0x03, 0x53, 0x13, 0x54, 0x14, 0x12])
            slots.append(bytes(b))
        add("random_bytes", rng.below(781), slots)
    # a full root directory (512 slots, no end marker)
    slots = []
    while len(slots) < 512:
        nm = rnd_name(rng)
        slots += good_run(rng, nm, 1 + rng.below(3)) + [short_slot(nm)]
    add("full_root", 780, slots[:512])
    return dirs, dist

# ---------------------------------------------------------------------------------------------
def check(run, replay=None):
    gate = V.proof_gate(GROUP, PROPFILE, force=(run.tier == "thorough"))
    run.coverage.update(obligations=gate["obligations"], discharged=gate["discharged"],
                        checker_cmd="make -C coq/lfn (coq_makefile, full .vo) ; coqc C17.v ; Print Assumptions",
                        trusted_base=V.TRUSTED_BASE_COMMON + [
                            "modelled: LfnBuffer::{new,clear,push,as_str}, ShortFileName::csum (filename.rs), is_end/is_valid/is_lfn/lfn_contents (ondiskdirentry.rs), SeqState::update and the closure of iterate_dir_lfn plus the end/deleted filter of the slot loop (volume.rs); core::char::decode_utf16 and char::encode_utf8 modelled from the Unicode definitions; u16/u8 as N, lengths as nat",
                            "not modelled here: how the directory walk finds the slots (cluster chains, block reads) - C06"],
                        theorems=gate["theorems"], axioms=gate["axioms"])
    for pb in gate["problems"]:
        run.violation("proof obligation: " + pb, "theorem/obligation no longer checks:\n" + pb, no_input=True)
    model = V.ocaml_build(GROUP)
    bins, out = V.cargo_build(["lfnrun"], profile="dev")
    if bins is None:
        run.violation("harness does not build against %s" % V.REPO, out[-3000:], no_input=True)
        return "proof"
    impl = bins["lfnrun"]
    thorough = run.tier == "thorough"
    rng = V.SplitMix(run.seed)
    cand = []     # (priority, what, text, no_input): 0 = concrete failing input, 1 = correspondence only
    def viol(what, text, no_input=False):
        cand.append((1 if no_input else 0, what, text, no_input))
    evaluations = 0
    disagreements = 0

    rp_cases, rp_dirs = None, None
    if replay:
        # a replay file holds the failing command line(s); only those are re-checked
        rp_cases, rp_dirs = [], []
        for l in open(replay):
            p = l.strip().split(" ")
            if p[0] == "P" and len(p) >= 2:
                rp_cases.append((int(p[1]), ["c" if t == "c" else [int(t[4 * i:4 * i + 4], 16) for i in range(13)] for t in p[2:]]))
            elif p[0] in ("D", "F") and len(p) >= 2:
                rp_dirs.append((int(p[1]), [bytes.fromhex(t) for t in p[2:]]))

    # ---- 1. LfnBuffer: push / clear / as_str
    cases, pdist = gen_push_cases(rng.fork(), thorough)
    if replay: cases, pdist = rp_cases, {"replay": len(rp_cases)}
    # near_fit cases: buffer size = exact byte length of the spec name, +-1
    fixed = []
    for n, toks in cases:
        if isinstance(n, tuple):
            l = run_cmds(model, ["L 0 " + ptoks(toks)])[0]
            ln = len(l[2:]) // 2
            for dn in (-1, 0, 1, -3, -4):
                if ln + dn >= 0: fixed.append((ln + dn, toks))
        else:
            fixed.append((n, toks))
    cases = fixed
    pcmds = ["P %d %s" % (n, ptoks(toks)) for n, toks in cases]
    ires = par_cmds(impl, pcmds)
    mres = par_cmds(model, pcmds)
    # the spec after every call (T), and from_utf16_lossy of the pushes after the last clear (L)
    def after_clear(toks):
        k = max([i for i, t in enumerate(toks) if t == "c"], default=-1)
        return toks[k + 1:]
    tres = par_cmds(model, ["T %d %s" % (n, ptoks(toks)) for n, toks in cases])
    lcmds = ["L %d %s" % (n, ptoks(after_clear(toks))) for n, toks in cases]
    lres_i = par_cmds(impl, lcmds)
    lres_m = par_cmds(model, lcmds)
    outs = set()
    for r in ires:
        for x in r[2:].split("/"):
            if x != "panic": outs.add(x)
    outs = sorted(outs)
    vres = par_cmds(model, [("V " + x).strip() for x in outs])
    invalid = {x for x, v in zip(outs, vres) if v != "V=1"}
    known_seen = 0
    nonknown_checked = 0
    lossy_disagree = 0
    calls = 0
    for (n, toks), pc, ri, rm, tr, li, lm in zip(cases, pcmds, ires, mres, tres, lres_i, lres_m):
        evaluations += 1
        if li != lm:
            lossy_disagree += 1
        iv = ri[2:].split("/"); mv = rm[2:].split("/"); tv = [x.split(":") for x in tr[2:].split("/")]
        rep = "%s\nimplementation: %s\nmodel:          %s\nspec (bytes:KnownClass:KnownClassN per call): %s\nreplay: echo '%s' | harness/target/debug/lfnrun" % (pc, ri, rm, tr, pc)
        if "panic" in iv:
            disagreements += 1
            viol("LfnBuffer panicked (C17_total)", rep); continue
        bad = [x for x in iv if x in invalid]
        if bad:
            disagreements += 1
            viol("as_str is not valid UTF-8 (C17_valid_utf8): %s" % bad[0], rep); continue
        flagged = False
        for k, (x, (spec, kc, kn)) in enumerate(zip(iv, tv)):
            calls += 1
            if kc == "0":
                nonknown_checked += 1
                if x != spec:
                    disagreements += 1; flagged = True
                    viol("as_str differs from the lossy decoding of the fragments after call %d (C17_decodes)" % (k + 1), rep); break
            elif x != spec:
                if kn == "1" and k < len(mv) and x == mv[k]:
                    known_seen += 1
                else:
                    disagreements += 1; flagged = True
                    viol("as_str differs from the specification in a way the known class does not cover, after call %d (C17_decodes_all / C17_decodes_exact)" % (k + 1), rep); break
            elif kn == "1":
                disagreements += 1; flagged = True
                viol("model/implementation correspondence broken: the implementation no longer shows the known leading-surrogate divergence (LfnModel.v lfn_push vs filename.rs), call %d" % (k + 1),
                     rep + "\ntheorems depending on it: all of C17", no_input=True); break
        if not flagged and ri != rm:
            disagreements += 1
            viol("model/implementation correspondence broken (LfnModel.v lfn_push/lfn_clear/lfn_as_str vs filename.rs) although the spec oracle finds nothing",
                 rep + "\ntheorems depending on it: all of C17", no_input=True)
    if known_seen:
        run.known(KNOWN_CLASS, KNOWN_TEXT)

    # ---- 2. decode_utf16 / encode_utf8 / lfn_contents
    ucmds = ["U"]
    import itertools
    for klen in (1, 2, 3):
        for combo in itertools.product(CLASSES, repeat=klen):
            ucmds.append("U " + "".join("%04x" % unit(rng, c) for c in combo))
    for _ in range(3000 if thorough else 400):
        ucmds.append("U " + "".join("%04x" % rnd_unit(rng) for _ in range(1 + rng.below(16))))
    for b in (0xD7FF, 0xD800, 0xDBFF, 0xDC00, 0xDFFF, 0xE000, 0x7F, 0x80, 0x7FF, 0x800, 0xFFFF):
        ucmds.append("U %04x" % b); ucmds.append("U %04xdc00" % b); ucmds.append("U d800%04x" % b); ucmds.append("U dbff%04x" % b)
    if thorough:
        xcmds = ["X %d 65536 1" % (k * 65536) for k in range(17)]
    else:
        xcmds = ["X 0 65536 1", "X %d 16384 67" % rng.below(67), "X 65536 4096 1", "X 1112000 4000 1"]
    ccmds = []
    for _ in range(4000 if thorough else 500):
        b = bytearray(rng.below(256) for _ in range(32))
        if rng.chance(2, 3): b[11] = (b[11] & 0xF0) | 0x0F
        ccmds.append("C " + bytes(b).hex())
    if replay: ucmds, ccmds, xcmds = [], [], []
    for cmds, what in ((ucmds, "decode_utf16/encode_utf8"), (ccmds, "lfn_contents")):
        a = par_cmds(impl, cmds); b = par_cmds(model, cmds)
        evaluations += len(cmds)
        for c, x, y in zip(cmds, a, b):
            if x != y:
                disagreements += 1
                viol("model/implementation correspondence broken: %s" % what, "%s\nimplementation: %s\nmodel:          %s\ntheorems depending on it: all of C17" % (c, x, y), no_input=True)
    xa = run_cmds(impl, xcmds); xb = run_cmds(model, xcmds)
    evaluations += sum(int(c.split()[2]) for c in xcmds)
    if xa != xb:
        disagreements += 1
        viol("model/implementation correspondence broken: encode_utf8 sweep", "commands: %s\ndigests differ" % xcmds, no_input=True)

    # ---- 3. listing
    dirs, ddist = gen_dirs(rng.fork(), thorough)
    if replay: dirs, ddist = rp_dirs, {"replay": len(rp_dirs)}
    # every directory is listed on a FAT16 volume (D: fixed root directory) and on a FAT32 volume
    # (F: root directory = cluster chain) - iterate_dir_lfn has one copy of the closure for each
    dirs = [(n, slots, fs) for n, slots in dirs for fs in ("D", "F")]
    dcmds = ["%s %d %s" % (fs, n, " ".join(s.hex() for s in slots)) for n, slots, fs in dirs]
    di = par_multi(impl, dcmds)
    dm = par_multi(model, dcmds)
    dg = par_multi(model, ["G" + c[1:] for c in dcmds])
    entries = 0; with_lfn = 0
    louts = set()
    for gi in di:
        for l in gi:
            if " lfn=" in l: louts.add(l.split("lfn=")[1])
    louts = sorted(louts)
    lv = par_cmds(model, [("V " + x).strip() for x in louts])
    linvalid = {x for x, v in zip(louts, lv) if v != "V=1"}
    for (n, slots, fs), c, gi, gm, gs in zip(dirs, dcmds, di, dm, dg):
        evaluations += 1
        entries += len(gi) - 1
        short = c if len(c) < 6000 else c[:6000] + "..."
        rep = "%s\nimplementation:\n  %s\nmodel:\n  %s\nspec:\n  %s" % (c, "\n  ".join(gi), "\n  ".join(gm), "\n  ".join(gs))
        if gi[-1] != "END ok":
            disagreements += 1
            viol("listing a directory %s (C17_arbitrary_dir)" % ("panicked" if gi[-1] == "END panic" else "failed: " + gi[-1]), rep); continue
        bad = False
        if len(gi) != len(gs):
            disagreements += 1
            viol("listing reports a different number of entries than the specification", rep); continue
        for li_, ls_ in zip(gi, gs):
            if " lfn=" in li_: with_lfn += 1
            if " lfn=" in li_ and li_.split("lfn=")[1] in linvalid:
                disagreements += 1; bad = True
                viol("long name reported by a listing is not valid UTF-8", rep); break
            known = ls_.endswith(" K")
            ls_ = ls_[:-2] if known else ls_
            if li_ != ls_:
                if known and gi == gm:
                    known_seen += 1; run.known(KNOWN_CLASS, KNOWN_TEXT); continue
                disagreements += 1; bad = True
                viol("listing reports a long name that is not the one of a complete, ordered, checksum-matching run directly before the entry (or misses one) (C17_listing)", rep); break
        if not bad and gi != gm:
            disagreements += 1
            viol("model/implementation correspondence broken (LfnModel.v listing vs volume.rs iterate_dir_lfn) although the spec oracle finds nothing",
                 rep + "\ntheorems depending on it: C17_listing C17_arbitrary_dir", no_input=True)

    cand.sort(key=lambda c: c[0])
    for _, what, text, no_input in cand[:3]:
        run.violation(what, text, no_input=no_input)
    run.coverage.update(
        evaluations=evaluations,
        distinct_nontrivial=len(set(pcmds)) + len(set(dcmds)) + len(set(ucmds)) + len(set(ccmds)),
        rule="distinct command lines; LfnBuffer histories (P), directories (D), unit strings (U), slots (C); non-trivial = at least one fragment / slot",
        samples=[c[:160] for c in pcmds[:4] + pcmds[-2:]] + [c[:200] for c in dcmds[:3]],
        traces_validated_against_impl=evaluations,
        disagreements=disagreements,
        input_distribution={"lfnbuffer_histories": pdist, "directories": ddist, "unit_strings": len(ucmds), "slots_lfn_contents": len(ccmds),
                            "encode_utf8_sweep": xcmds, "buffer_sizes": "fixed set %s and uniform 0..780" % BUFSIZES,
                            "known_class_inputs_reobserved": known_seen, "non_known_inputs_checked_against_spec": nonknown_checked,
                            "lfnbuffer_calls_checked_against_spec": calls, "listing_entries_reported": entries, "listing_entries_with_long_name": with_lfn,
                            "distinct_as_str_values_checked_valid_utf8": len(outs) + len(louts),
                            "from_utf16_lossy_vs_spec_disagreements": lossy_disagree})
    if lossy_disagree:
        run.notes.append("String::from_utf16_lossy disagrees with the Coq spec `utf8 (lossy (name_units ..))` on %d inputs (cross-check of the spec, not the oracle)" % lossy_disagree)
    run.assumptions += ["u16 units and bytes are modelled as N with explicit range hypotheses (fragment, is_slot)",
                        "the tie between LfnModel.v and the crate is differential testing (counts above)",
                        "the directory walk itself (which slots are delivered) is modelled only as: stop at a slot starting 0x00, skip slots starting 0xE5"]
    return "proof"
