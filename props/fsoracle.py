"""Spec-side oracles of the file-system properties, evaluated on the IMPLEMENTATION's outputs
(trace lines + device write log), never on the model's.  Each returns a list of problem
strings (empty = the property held on this script)."""
import os, sys, copy
sys.path.insert(0, os.path.join(os.path.dirname(os.path.abspath(__file__)), "..", "gen"))
import fatck, fatimg

PRIME = 2147483647
def hash_bytes(b):
    h = len(b)
    for x in b:
        h = (h * 1000003 + x + 1) % PRIME
    return h
def pattern(n, seed):
    return bytes(((seed * 131 + i * 7 + (i // 256) * 13 + (i // 65536) * 101) & 255) for i in range(n))
def unhexname(t):
    return "" if t == "-" else bytes.fromhex(t).decode("utf-8")

INVALID = set(range(0, 32)) | {ord(c) for c in '"*+,/:;<=>?[\\]| '}
def sfn_parse(name):
    """spec of 8.3 parsing: returns 11 bytes or None"""
    if name == "..":
        return b"..".ljust(11)
    if name in ("", "."):
        return b".".ljust(11)
    for ch in name:
        if ord(ch) in INVALID or ord(ch) > 255:
            return None
    if name.count(".") > 1:
        return None
    base, dot, ext = name.partition(".")
    if not (1 <= len(base) <= 8) or len(ext) > 3:
        return None
    up = lambda s: bytes((ord(c) - 32) if "a" <= c <= "z" else ord(c) for c in s)
    return up(base).ljust(8) + up(ext).ljust(3)

class Trace:
    """parsed implementation trace of one script"""
    def __init__(self, sc):
        self.sc = sc
        self.ops = [o.split(" -> ")[0].split() for o in sc["ops"]]
        self.binds = [(o.split(" -> ")[1].strip() if " -> " in o else None) for o in sc["ops"]]
        n = len(self.ops)
        self.res = [None] * n; self.dev = [[] for _ in range(n)]; self.cb = [[] for _ in range(n)]; self.st = [dict() for _ in range(n)]
        self.intl = [None] * n       # the manager's internal-state line after op k (handle tables, clock counter)
        for l in sc["impl"]:
            t = l.split()
            if t[0] == "IMG":
                continue
            k = int(t[1])
            if k >= n:
                continue
            if t[0] == "RES": self.res[k] = t[2:]
            elif t[0] == "DEV": self.dev[k].append(t[2:])
            elif t[0] == "CB": self.cb[k].append(t[2:])
            elif t[0] == "ST": self.st[k][t[2]] = t[3:]
            elif t[0] == "INT": self.intl[k] = l
        self.writes = collections_default()
        if sc.get("writes") and os.path.exists(sc["writes"]):
            for l in open(sc["writes"]):
                a, b, c = l.split()
                self.writes.setdefault(int(a), []).append((int(b), bytes.fromhex(c)))
        self.slots = {}
    def ok(self, k): return self.res[k] is not None and self.res[k][0] == "ok"
    def err(self, k): return self.res[k][1] if (self.res[k] and self.res[k][0] == "err") else None
    def nwrites(self, k): return sum(1 for d in self.dev[k] if d[0] == "W")
    def faulted(self, k): return any(d[0] in ("RF", "WF") for d in self.dev[k])
    def handle(self, tok):
        if tok.startswith("#"):
            return int(tok[1:])
        return self.slots.get(tok, 3735928559)

def collections_default():
    return {}

def int_fields(line):
    """(clock counter, {file handle: dict(mtime=.., size=.., dirty=..)}) from an INT line, or (None, {})"""
    if not line or " files=[" not in line:
        return None, {}
    clk = None
    if " clk=" in line:
        clk = int(line.rsplit(" clk=", 1)[1].split()[0])
    body = line.split(" files=[", 1)[1].split("]", 1)[0]
    files = {}
    for item in body.split(";"):
        f = item.split(":")
        if len(f) >= 12:
            files[int(f[0])] = dict(size=int(f[6]), dirty=int(f[8]), mtime=f[11])
    return clk, files

def clock_ts(k):
    """the counter clock of both runners (harness/src/bin/fsrun.rs Clock, FsFat.clock_ts)"""
    return "%d-%d-%d-%d-%d-%d" % (10 + k % 100, k % 12, k % 28, k % 24, k % 60, (k * 7) % 60)

def fat_stamp(ts):
    """(date, time) as the FAT specification encodes a timestamp given as year_since_1970-month0-day0-h-m-s"""
    y, mo, d, h, mi, sec = (int(x) for x in ts.split("-"))
    return ((y - 10) << 9) | ((mo + 1) << 5) | (d + 1), (h << 11) | (mi << 5) | (sec // 2)

def images(tr, dev0):
    """generator of (k, image after op k) - one shared dict mutated in place"""
    dev = dict(dev0)
    for k in range(len(tr.ops)):
        for idx, data in tr.writes.get(k, []):
            dev[idx] = data
        yield k, dev

# ---------------------------------------------------------------------------- C01 byte-array spec
class SpecFS:
    """plain in-memory byte-array model of every file; driven by the implementation's results"""
    def __init__(self, tree):
        self.files = {p: bytearray(e.data or b"") for p, e in tree.items() if not e.is_dir}
        self.dirs = {"": 1}
        self.dirs.update({p: 1 for p, e in tree.items() if e.is_dir})
        self.attr = {p: e.attr for p, e in tree.items()}
        self.open = {}    # slot -> dict(path,pos,mode)
        self.dslot = {}   # dir slot -> path
        self.flushed = {}  # path -> (bytes at last successful flush/close, op index)
        self.touched = set()
        self.unknown = set()
        self.deleted = set()
        self.wstamp = {}   # path -> clock timestamp of the last successful write in this history (None: not known)

def f_known(sp, slot):
    f = sp.open.get(slot)
    return f is not None and f["path"] in sp.files

def run_spec(tr, dev0, slot_of_vol, checks=("read", "state")):
    """replays the implementation's results against the byte-array model; returns (problems, spec)"""
    g = fatck.mount(dev0, slot_of_vol)
    problems = []
    if g is None:
        return problems, None
    _, tree, _ = fatck.fsck(dev0, g)
    sp = SpecFS(fatck.flatten(tree))
    vols = {}
    for k, op in enumerate(tr.ops):
        r = tr.res[k]
        if r is None:
            break
        kind = op[0]
        okk = r[0] == "ok"
        bind = tr.binds[k]
        if not okk and tr.faulted(k) and kind in ("close", "dropfile", "open", "delete", "mkdir"):
            # a device call failed inside a call that discards in-memory state or rewrites directory entries: what the
            # medium holds for the file concerned is whatever the half-done call left (a failed close consumes the handle
            # and loses the unflushed entry - the crate's documented behaviour): no further claims about that file
            gone = None
            if kind in ("close", "dropfile") and op[1] in sp.open:
                gone = sp.open.pop(op[1])["path"]
            elif kind in ("open", "delete") and op[1] in sp.dslot:
                s11_ = sfn_parse(unhexname(op[2]))
                if s11_:
                    gone = sp.dslot[op[1]] + "/" + s11_.decode("latin-1").rstrip()
            if gone is not None:
                sp.unknown.add(gone); sp.files.pop(gone, None); sp.flushed.pop(gone, None); sp.touched.add(gone); sp.wstamp.pop(gone, None)
                for sl_ in [x for x, f_ in sp.open.items() if f_["path"] == gone]:
                    sp.open.pop(sl_, None)
            continue
        if okk and r[1] == "handle" and bind:
            tr.slots[bind] = int(r[2])
        if kind == "openvol" and okk and bind:
            vols[bind] = int(op[1])
        elif kind == "openroot" and okk and bind:
            if vols.get(op[1]) == slot_of_vol:
                sp.dslot[bind] = ""
        elif kind in ("opendir", "chdir") and okk and bind and op[1] in sp.dslot:
            nm = unhexname(op[2]); base = sp.dslot[op[1]]
            if nm in (".", ""):
                sp.dslot[bind] = base
            elif nm == "..":
                sp.dslot[bind] = base.rsplit("/", 1)[0] if base else ""
            else:
                s11 = sfn_parse(nm)
                if s11:
                    sp.dslot[bind] = base + "/" + s11.decode("latin-1").rstrip()
        elif kind in ("closedir", "dropdir") and okk:
            sp.dslot.pop(op[1], None)
        elif kind == "remount":
            # files with modifications that were never flushed: what the medium holds is not determined by this
            # model (data blocks are written through, the entry is not) - no further claims about them
            for f in sp.open.values():
                p_ = f["path"]
                # a modification-time stamp that was never flushed is lost with the dropped manager (e.g. a zero-length
                # write after the last flush: contents equal, entry not rewritten)
                if p_ in sp.wstamp and not (p_ in sp.flushed and sp.flushed[p_][1] > sp.wstamp[p_][1]):
                    sp.wstamp.pop(p_, None)
                if p_ in sp.flushed and sp.flushed[p_][0] == bytes(sp.files.get(p_, b"")):
                    continue
                if f["mode"] != "RO":
                    sp.unknown.add(p_); sp.files.pop(p_, None); sp.flushed.pop(p_, None); sp.touched.add(p_); sp.wstamp.pop(p_, None)
            sp.open.clear(); sp.dslot.clear(); vols.clear()
        elif kind == "mkdir" and okk and op[1] in sp.dslot:
            s11 = sfn_parse(unhexname(op[2]))
            if s11:
                sp.dirs[sp.dslot[op[1]] + "/" + s11.decode("latin-1").rstrip()] = 1
        elif kind == "open" and op[1] in sp.dslot:
            s11 = sfn_parse(unhexname(op[2]))
            if okk and s11 and bind:
                path = sp.dslot[op[1]] + "/" + s11.decode("latin-1").rstrip()
                mode = op[3]
                if path in sp.unknown:
                    continue
                existed = path in sp.files
                if not existed:
                    sp.files[path] = bytearray()
                    sp.touched.add(path)
                if mode in ("RWT", "RWCT") and existed:
                    sp.files[path] = bytearray(); sp.touched.add(path)
                    sp.flushed.pop(path, None); sp.wstamp.pop(path, None)
                pos = len(sp.files[path]) if (mode in ("RWA", "RWCA") and existed) else 0
                sp.open[bind] = dict(path=path, pos=pos, mode=mode)
        elif kind == "delete" and okk and op[1] in sp.dslot:
            s11 = sfn_parse(unhexname(op[2]))
            if s11:
                path = sp.dslot[op[1]] + "/" + s11.decode("latin-1").rstrip()
                sp.files.pop(path, None); sp.flushed.pop(path, None); sp.touched.add(path); sp.deleted.add(path); sp.wstamp.pop(path, None)
        elif kind in ("write", "iowrite") and op[1] in sp.open:
            f = sp.open[op[1]]
            data = pattern(int(op[2]), int(op[3]))
            stt = tr.st[k].get(op[1])
            if f["mode"] != "RO" and stt and stt[0] != "err":
                new_off = int(stt[1])
                n = new_off - f["pos"]
                if okk:
                    if n != len(data) and f["pos"] + len(data) > 0xFFFFFFFF:
                        problems.append("KNOWN-maxsize op %d: write of %d bytes at offset %d reported success but stored only %d bytes (silent clip at the 4 GiB - 1 limit)" % (k, len(data), f["pos"], n))
                    elif n != len(data):
                        problems.append("op %d: write reported success but the offset advanced by %d, not %d" % (k, n, len(data)))
                if n < 0 or n > len(data):
                    problems.append("op %d: write moved the offset by %d (buffer %d)" % (k, n, len(data)))
                else:
                    buf = sp.files[f["path"]]
                    if f["pos"] > len(buf):
                        buf.extend(bytes(f["pos"] - len(buf)))
                    buf[f["pos"]:f["pos"] + n] = data[:n]
                    f["pos"] = new_off
                    if n:
                        sp.touched.add(f["path"]); sp.flushed.pop(f["path"], None)
                    # modification time = the clock value at the last write (the tick this call consumed last)
                    if okk and kind == "write":        # a zero-length write is a write too: the crate stamps it
                        clk1, files1 = int_fields(tr.intl[k])
                        clk0, _ = int_fields(tr.intl[k - 1]) if k > 0 else (None, {})
                        hv = tr.handle(op[1])
                        if clk1 is not None and clk0 is not None and hv in files1:
                            if clk1 <= clk0:
                                problems.append("op %d: a successful write of %d bytes did not read the clock (modification time cannot be the time of this write)" % (k, n))
                                sp.wstamp.pop(f["path"], None)
                            else:
                                if files1[hv]["mtime"] != clock_ts(clk1 - 1):
                                    problems.append("op %d: after a successful write the file's modification time is %s, the clock value of this write is %s" % (k, files1[hv]["mtime"], clock_ts(clk1 - 1)))
                                sp.wstamp[f["path"]] = (clock_ts(clk1 - 1), k)
                        else:
                            sp.wstamp.pop(f["path"], None)
                    elif n or not okk:
                        sp.wstamp.pop(f["path"], None)
                if kind == "iowrite" and okk and int(r[2]) != len(data):
                    problems.append("op %d: embedded-io write returned %s for a buffer of %d" % (k, r[2], len(data)))
        elif kind in ("read", "ioread") and op[1] in sp.open:
            f = sp.open[op[1]]
            if okk:
                want = bytes(sp.files[f["path"]][f["pos"]:f["pos"] + int(op[2])])
                got_len, got_hash = int(r[2]), int(r[3])
                if "read" in checks and (got_len != len(want) or got_hash != hash_bytes(want)):
                    problems.append("op %d: read returned %d bytes (hash %d), the byte-array model holds %d bytes (hash %d) at offset %d of %s"
                                    % (k, got_len, got_hash, len(want), hash_bytes(want), f["pos"], f["path"]))
                f["pos"] += got_len
            else:
                stt = tr.st[k].get(op[1])
                if stt and stt[0] != "err":
                    f["pos"] = int(stt[1])
        elif kind == "seekstart" and op[1] in sp.open:
            f = sp.open[op[1]]; x = int(op[2]); ln = len(sp.files[f["path"]])
            if (x <= ln) != okk and r[0] != "panic" and tr.err(k) != "LockError":
                problems.append("op %d: seek_from_start(%d) on length %d returned %s" % (k, x, ln, r))
            if okk: f["pos"] = x
        elif kind == "seekend" and op[1] in sp.open:
            f = sp.open[op[1]]; x = int(op[2]); ln = len(sp.files[f["path"]])
            if (x <= ln) != okk:
                problems.append("op %d: seek_from_end(%d) on length %d returned %s" % (k, x, ln, r))
            if okk: f["pos"] = ln - x
        elif kind == "seekcur" and op[1] in sp.open:
            f = sp.open[op[1]]; x = int(op[2]); ln = len(sp.files[f["path"]])
            if (0 <= f["pos"] + x <= ln) != okk:
                problems.append("op %d: seek_from_current(%d) at %d of %d returned %s" % (k, x, f["pos"], ln, r))
            if okk: f["pos"] += x
        elif kind == "ioseek" and op[1] in sp.open:
            f = sp.open[op[1]]; ln = len(sp.files[f["path"]])
            x = {"i64min": -(1 << 63), "u64max": (1 << 64) - 1}.get(op[3])
            x = int(op[3]) if x is None else x
            tgt = x if op[2] == "start" else (ln - (-x) if op[2] == "end" else f["pos"] + x)
            if op[2] == "end":
                tgt = ln + x if x <= 0 else -1
                if -x > 0xFFFFFFFF: tgt = -1
            if op[2] == "start" and x > 0xFFFFFFFF: tgt = -1
            if op[2] == "cur" and not (-(1 << 31) <= x < (1 << 31)): tgt = -1
            valid = 0 <= tgt <= ln
            if r[0] == "panic":
                problems.append("op %d: embedded-io seek(%s %s) panicked" % (k, op[2], op[3]))
            elif valid != okk:
                problems.append("op %d: embedded-io seek(%s %s) at %d of %d returned %s" % (k, op[2], op[3], f["pos"], ln, r))
            elif okk:
                if int(r[2]) != tgt:
                    problems.append("op %d: embedded-io seek returned position %s, expected %d" % (k, r[2], tgt))
                f["pos"] = tgt
        elif kind in ("flush", "close") and op[1] in sp.open:
            f = sp.open[op[1]]
            if okk:
                sp.flushed[f["path"]] = (bytes(sp.files[f["path"]]), k)
            if kind == "close" and (okk or tr.err(k) not in ("LockError",)):
                del sp.open[op[1]]
        elif kind == "dropfile" and op[1] in sp.open:
            # impl Drop for File: close_file with the result discarded - without a device fault it is a successful close
            f = sp.open[op[1]]
            if not tr.faulted(k):
                sp.flushed[f["path"]] = (bytes(sp.files[f["path"]]), k)
            else:
                # the discarded close failed on a device fault: the unflushed entry is lost (C11x_drop_swallows_fault)
                g_ = f["path"]
                sp.unknown.add(g_); sp.files.pop(g_, None); sp.flushed.pop(g_, None); sp.touched.add(g_); sp.wstamp.pop(g_, None)
            del sp.open[op[1]]
        elif kind in ("wlen", "woff", "weof") and op[1] in sp.open and f_known(sp, op[1]):
            # File::length / offset / is_eof on an open handle: the byte-array model's value, never a panic
            f = sp.open[op[1]]; ln = len(sp.files[f["path"]])
            want = {"wlen": ln, "woff": f["pos"], "weof": 1 if f["pos"] == ln else 0}[kind]
            if r[0] == "panic":
                problems.append("op %d: File::%s panicked on an open file" % (k, {"wlen": "length", "woff": "offset", "weof": "is_eof"}[kind]))
            elif okk and int(r[2]) != want:
                problems.append("op %d: File::%s returned %s, the byte-array model has %d" % (k, {"wlen": "length", "woff": "offset", "weof": "is_eof"}[kind], r[2], want))
        # reported length / offset / eof after every op
        if "state" in checks:
            for sl, f in sp.open.items():
                stt = tr.st[k].get(sl)
                if stt and stt[0] != "err" and f["path"] in sp.files:
                    ln = len(sp.files[f["path"]])
                    if int(stt[0]) != ln or int(stt[1]) != f["pos"] or int(stt[2]) != (1 if f["pos"] == ln else 0):
                        problems.append("op %d: file %s reports len/off/eof %s, byte-array model has %d/%d/%d" %
                                        (k, sl, stt, ln, f["pos"], 1 if f["pos"] == ln else 0))
                        f["pos"] = int(stt[1])
        if len(problems) > 5:
            break
    return problems, sp

# ---------------------------------------------------------------------------- image-based oracles
def lookup(dev, g, path):
    """entry for /A/B (names as stored, rstrip'ed 11-byte form) or None"""
    if g.fat32:
        probs = []
        blocks = [b for c in fatck.chain(dev, g, g.root_cluster, probs, "/", "/", {}) for b in fatck.cluster_blocks(g, c)]
    else:
        blocks = [g.root_start + i for i in range(g.root_blocks)]
    parts = [p for p in path.split("/") if p]
    e = None
    for i, p in enumerate(parts):
        ents = fatck.read_dir(dev, g, blocks, [], "")
        e = next((x for x in ents if not x.is_lfn and not x.is_label and x.name.decode("latin-1").rstrip() == p), None)
        if e is None:
            return None
        if i + 1 < len(parts):
            if not e.is_dir or e.cluster == 0:
                return None
            blocks = [b for c in fatck.chain(dev, g, e.cluster, [], "", "", {}) for b in fatck.cluster_blocks(g, c)]
    if e is not None and not e.is_dir and e.cluster:
        ch = fatck.chain(dev, g, e.cluster, [], "", "", {})
        raw = b"".join(fatck.blk(dev, b) for c in ch for b in fatck.cluster_blocks(g, c))
        e.data = raw[:e.size]
        e.chain = ch
    elif e is not None and not e.is_dir:
        e.data = b""
    return e
