"""C02 - see fsprops.py"""
from fsprops import check_C02 as check
