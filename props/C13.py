"""C13 - SD transfers never return corrupted data as good and never hang.
Proof: coq/sd/C13.v (arbitrary peer: `spi` is any function).  Tie: the real SdCard over
a mock bus against (a) the card simulator with faults injected and (b) raw MISO scripts;
the recorded MISO is replayed into the extracted driver model - MOSI, call segmentation,
delays and results must be identical.  Oracles on the implementation's outputs: corrupted
block+CRC with CRC on must be an error, rejected writes must be errors, no panic, bytes
clocked <= the proved bound, a failed initialisation is followed by a fresh CMD0."""
import vcommon as V
import sdcommon as S

PROPFILE = "C13.v"
INIT_ERRS = ("CardNotFound", "CantEnableCRC", "TimeoutCommand(8)", "TimeoutACommand(41)", "Cmd58Error")


def data_event(res, call_k, length=1028, nbytes=512):
    """(global MISO offset, data hex) of the payload transfer `I ff*nbytes` of call k (512: a data block, 16: the CSD)"""
    lines = res.trace()
    target = res.calltrace[call_k]
    # global offsets: recompute over the full trace, then find the event inside call k
    allpos = list(S.miso_positions(lines))
    start = 0
    for k in sorted(res.calltrace):
        if k == call_k:
            break
        start += len(res.calltrace[k])
    for (i, kind, mosi, miso, off) in allpos:
        if i >= start and i < start + len(target) and kind == "I" and len(mosi) == 2 * nbytes:
            return off, miso
    return None


def fault_scenarios(tie, rng, thorough):
    """base runs first (to learn where the data block sits in the MISO stream), then the faulted runs"""
    bases = []
    for n, kind in enumerate(S.KINDS):
        csd = S.csd_for(kind)
        bases.append(S.Scn("FB%d" % n, 1, 50, ["r:1:3"], kind=kind, csd=csd, memseed=21 + n, tseed=55 + n, tag="base"))
    bres = tie.run_impl(bases)
    scns, expect = [], {}
    n = 0
    for b in bases:
        r = bres[b.id]
        if not r.results.get(0, "").startswith("ok"):
            continue
        off, _ = data_event(r, 0)
        nbits = 514 * 8
        if thorough and b.kind == "V2HC":
            bits = list(range(nbits))                 # every single-bit flip of block + CRC
        elif thorough:
            bits = sorted(set(list(range(4096, 4112)) + [rng.below(nbits) for _ in range(700)]))
        else:
            bits = sorted(set([0, 1, 7, 8, 4095, 4096, 4097, 4103, 4104, 4111] + [rng.below(nbits) for _ in range(40)] + list(range(4096, 4112))))
        for bit in bits:
            sc = S.Scn("FX%d" % n, 1, 50, ["r:1:3"], kind=b.kind, csd=b.csd, memseed=b.memseed, tseed=b.tseed,
                       faults="flip:%d:%02x" % (off + bit // 8, 0x80 >> (bit % 8)), tag="bitflip"); n += 1
            scns.append(sc); expect[sc.id] = ("crcerr", 0)
        for _ in range(300 if thorough else 30):      # bursts <= 16 bits: two adjacent bytes
            p = rng.below(513); m1 = rng.below(256); m2 = rng.below(256)
            # confine to a 16-bit window: any (m1, m2) over two adjacent bytes is one
            if m1 == 0 and m2 == 0:
                m1 = 1
            sc = S.Scn("FX%d" % n, 1, 50, ["r:1:3"], kind=b.kind, csd=b.csd, memseed=b.memseed, tseed=b.tseed,
                       faults="flip:%d:%02x,flip:%d:%02x" % (off + p, m1, off + p + 1, m2), tag="burst"); n += 1
            scns.append(sc); expect[sc.id] = ("crcerr", 0)
        # the same corruption with CRC off is not detectable; multi-block read, block 2 corrupted (D19)
        sc = S.Scn("FX%d" % n, 1, 50, ["r:3:2", "r:1:0", "mu", "r:1:0"], kind=b.kind, csd=b.csd, memseed=b.memseed, tseed=b.tseed,
                   faults="flip:%d:%02x" % (off + 514 + 40, 0x10), tag="multi-corrupt"); n += 1
        scns.append(sc); expect[sc.id] = ("anyerr", 0)
    # the register read behind num_blocks / num_bytes is a data frame too (16 bytes + CRC-16): every single-bit flip and
    # every burst of up to 16 bits - in particular the 8-bit patterns that are multiples of the CRC-7 polynomial, which the
    # register's own checksum byte cannot see - must be refused when CRC is on
    cbases = [S.Scn("FC%d" % k, 1, 50, ["nb"], kind=kind, csd=S.csd_for(kind), memseed=3, tseed=70 + k, tag="base") for k, kind in enumerate(S.KINDS)]
    cres = tie.run_impl(cbases)
    for b in cbases:
        r = cres[b.id]
        if not r.results.get(0, "").startswith("ok"):
            continue
        ev = data_event(r, 0, nbytes=16)
        if ev is None:
            continue
        off = ev[0]
        pats = [(p_, m_) for p_ in range(18) for m_ in (0x89, 0x12 if p_ % 3 else 0x80, 0x01)]
        if not thorough:
            pats = pats[::2]
        for p_, m_ in pats:
            sc = S.Scn("FX%d" % n, 1, 50, ["nb"], kind=b.kind, csd=b.csd, memseed=b.memseed, tseed=b.tseed, faults="flip:%d:%02x" % (off + p_, m_), tag="csd-corrupt"); n += 1
            scns.append(sc); expect[sc.id] = ("crcerr", 0)
        for _ in range(40 if thorough else 8):
            p_ = rng.below(17); m1 = 1 + rng.below(255); m2 = rng.below(256)
            sc = S.Scn("FX%d" % n, 1, 50, ["ny"], kind=b.kind, csd=b.csd, memseed=b.memseed, tseed=b.tseed,
                       faults="flip:%d:%02x,flip:%d:%02x" % (off + p_, m1, off + p_ + 1, m2), tag="csd-corrupt"); n += 1
            scns.append(sc); expect[sc.id] = ("crcerr", 0)
    # rejected writes
    for kind in S.KINDS:
        csd = S.csd_for(kind)
        for crc in (0, 1):
            for code in ("0b", "0d", "eb", "ed", "ff", "00", "04", "e4", "07", "1f", "15", "f5"):
                for calls in (["w:2:1:7"], ["w:2:3:7", "r:1:0"]):
                    sc = S.Scn("FX%d" % n, crc, 50, calls, kind=kind, csd=csd, memseed=5, tseed=n, faults="wres:" + code, tag="wres"); n += 1
                    scns.append(sc); expect[sc.id] = ("writeerr", 0)
            for st in ("04:00", "00:01", "00:80", "01:00", "40:00", "00:ff", "20:20"):
                sc = S.Scn("FX%d" % n, crc, 50, ["w:2:1:7", "r:1:2"], kind=kind, csd=csd, memseed=5, tseed=n, faults="st13:" + st, tag="st13"); n += 1
                scns.append(sc); expect[sc.id] = ("writeerr", 0)
    # extreme registers and block indices (former panics: D27, D28, u32 byte address)
    for kind, csd in (("V1SC", S.csd_v1(5, 0, 0)), ("V1SC", S.csd_v1(5, 3, 3)), ("V2HC", S.csd_v2(0x3FFFFF)), ("V2SC", S.csd_v1(4095, 7, 15))):
        sc = S.Scn("FX%d" % n, 1, 50, ["nb", "ny", "es"], kind=kind, csd=csd, memseed=5, tseed=n, tag="extreme"); n += 1
        scns.append(sc); expect[sc.id] = ("returns", 0)
    for kind in ("V1SC", "V2SC"):
        for call in ("r:1:8388608", "w:8388608:1:3", "r:2:16777215", "w:4294967295:2:3"):
            sc = S.Scn("FX%d" % n, 0, 50, [call, "gt"], kind=kind, csd=S.csd_for(kind), memseed=1, tseed=n, tag="extreme"); n += 1
            scns.append(sc); expect[sc.id] = ("returns", 0)
    # card dies (FF / 00 / garbage from MISO position p on) at every stage of init + single + multi transfers
    for kind in S.KINDS:
        csd = S.csd_for(kind)
        calls = ["w:1:1:3", "r:1:1", "w:2:2:4", "r:2:2", "nb"]
        base = S.Scn("FD%s" % kind, 1, 50, calls, kind=kind, csd=csd, memseed=5, tseed=77, tmax=(2, 2, 2, 2, 1))
        total = len(S.Result([]).miso) if False else None
        r0 = tie.run_impl([base])[base.id]
        total = S.trace_bytes(r0.trace())
        stride = max(1, total // 700) if thorough else max(1, total // 40)
        for p in range(0, total + 1, stride):
            for mode in ((0, 1, 2) if (thorough or p % 3 == 0) else (p % 3,)):
                if thorough and mode == 0 and p % 4:
                    continue   # the all-FF death costs ~0.5M events per run; every 4th position
                sc = S.Scn("FX%d" % n, 1, 2 if mode in (0, 2) else 50, calls + ["mu", "gt"], kind=kind, csd=csd, memseed=5, tseed=77, tmax=(2, 2, 2, 2, 1),
                           faults="dead:%d:%d" % (p, mode), tag="dead"); n += 1
                scns.append(sc); expect[sc.id] = ("returns", 0)
    return scns, expect


def raw_scenarios(rng, thorough, legal_misos):
    scns = []
    n = 0
    calls = ["gt", "r:1:0", "w:0:1:1", "r:2:0", "w:0:2:2", "nb", "ny", "es", "mu", "r:1:5"]
    for pad in ("ff", "00", "01", "05", "fe", "80", "7f"):
        for crc in (0, 1):
            scns.append(S.Scn("RW%d" % n, crc, 3 if pad in ("ff", "80") else 50, calls[:6] if pad in ("ff", "80") else calls, raw="", pad=pad, tag="constant")); n += 1
    for _ in range(400 if thorough else 60):
        ln = rng.choice([0, 1, 8, 40, 200, 600, 1500])
        mode = rng.below(4)
        if mode == 0:
            bs = [rng.below(256) for _ in range(ln)]
        elif mode == 1:      # mostly FF with sparse responses
            bs = [rng.choice([0xFF, 0xFF, 0xFF, 0xFF, 0x00, 0x01, 0x05, 0xFE, 0xAA, 0xC0, rng.below(256)]) for _ in range(ln)]
        elif mode == 2:      # bytes from the protocol alphabet
            bs = [rng.choice([0x00, 0x01, 0x05, 0xFE, 0xFF, 0xAA, 0xE5, 0xC0, 0x80]) for _ in range(ln)]
        else:
            bs = [0xFF] * ln
        pad = rng.choice(["ff", "00", "01", "%02x" % rng.below(256)])
        fails = "-" if rng.chance(1, 2) else ",".join(str(rng.below(60)) for _ in range(1 + rng.below(3))) + ("," + str(rng.below(80)) + "+" if rng.chance(1, 3) else "")
        retries = 2 if pad in ("ff",) or int(pad, 16) & 0x80 else rng.choice([0, 1, 50])
        scns.append(S.Scn("RW%d" % n, rng.below(2), retries, [rng.choice(calls) for _ in range(1 + rng.below(4))],
                          raw=bytes(bs).hex() if bs else "", pad=pad, fails=fails, tag="garbage")); n += 1
    # truncated legal streams + SPI failure at call n
    for (crc, retries, callstr, miso) in legal_misos:
        full = unrle(miso)
        for _ in range(12 if thorough else 3):
            cut = rng.below(len(full) + 1)
            pad = rng.choice(["ff", "00", "%02x" % rng.below(256)])
            fails = "-" if rng.chance(2, 3) else "%d" % rng.below(200)
            scns.append(S.Scn("RW%d" % n, crc, 2, callstr, raw=rle(full[:cut]), pad=pad, fails=fails, tag="truncated")); n += 1
        for _ in range(12 if thorough else 3):
            scns.append(S.Scn("RW%d" % n, crc, 2, callstr, raw=miso, pad="ff", fails="%d" % rng.below(300), tag="failat")); n += 1
    return scns


def unrle(s):
    if s in ("-", ""):
        return b""
    out = bytearray()
    for tok in s.split(","):
        if "*" in tok:
            b, c = tok.split("*"); out += bytes([int(b, 16)]) * int(c)
        else:
            out += bytes.fromhex(tok)
    return bytes(out)


def rle(b):
    if not b:
        return "-"
    toks, lit, i = [], "", 0
    while i < len(b):
        j = i
        while j < len(b) and b[j] == b[i]:
            j += 1
        if j - i >= 4:
            if lit:
                toks.append(lit); lit = ""
            toks.append("%02x*%d" % (b[i], j - i))
        else:
            lit += ("%02x" % b[i]) * (j - i)
        i = j
    if lit:
        toks.append(lit)
    return ",".join(toks)


def check(run, replay=None):
    tie = S.Tie(run, PROPFILE)
    if tie.impl is None:
        return "proof"
    rng = V.SplitMix(run.seed)
    thorough = run.tier == "thorough"
    legal = [s for s in S.legal_scenarios(rng, thorough, "L") if s.tag in ("script", "budget") or rng.chance(1, 3)]
    lres = tie.run_impl(legal)
    faults, expect = fault_scenarios(tie, rng, thorough)
    legal_misos = [(s.crc, s.retries, s.calls, lres[s.id].miso) for s in legal if s.tag == "script" and s.id in lres]
    raws = raw_scenarios(rng, thorough, legal_misos) + S.directed_cuts(legal_misos, unrle, rle, limit=200 if thorough else 24)
    allscn = legal + faults + raws
    byid = {s.id: s for s in allscn}
    bad, diffs = [], []
    results_of = {}
    # batches: traces of faulted runs can be long; nothing but counters and failures is kept
    BATCH = 120
    pending = [(legal, lres)] + [(allscn[i:i + BATCH], None) for i in range(len(legal), len(allscn), BATCH)]
    for batch, ires in pending:
        if ires is None:
            ires = tie.run_impl(batch)
        mres = tie.run_model(batch, ires)
        bdiffs = tie.compare(batch, ires, mres)
        diffs += bdiffs
        for s in batch:
            r = ires.get(s.id)
            if r is None:
                continue
            results_of[s.id] = dict(r.results)
            costs = tie.model_costs(mres, s.id)
            for k, res in sorted(r.results.items()):
                call = s.calls[k]
                if res == "panic":
                    bad.append((s, k, "panic in `%s`" % call))
                if res.startswith("hang"):
                    # (judged against the model's run on the same peer: the modelled driver returns after costs[k][0] bytes)
                    if k not in costs or costs[k][0] < 40000000:
                        bad.append((s, k, "call `%s` does not return: it was still clocking the bus after 40,000,000 bytes (the modelled driver returns after %s bytes on this peer; proved bound %s)" % (call, costs[k][0] if k in costs else "?", costs[k][1] if k in costs else "?")))
                    continue
                nbytes = S.trace_bytes(r.calltrace[k])
                if k in costs and nbytes > costs[k][1]:
                    bad.append((s, k, "call `%s` clocked %d bytes, proved bound %d" % (call, nbytes, costs[k][1])))
                if k in costs and nbytes != costs[k][0] and not [d for d in bdiffs if d[0].id == s.id]:
                    bad.append((s, k, "byte count differs from the model's (%d vs %d)" % (nbytes, costs[k][0])))
                # failed initialisation: the next call that uses the bus starts with CMD0
                if res.startswith("err ") and res[4:] in INIT_ERRS and (k + 1) in r.calltrace and s.calls[k + 1] != "mu":
                    nxt = [l for l in r.calltrace[k + 1] if l[0] in "WTIPF"]
                    if nxt and not (nxt[0].startswith("W 400000000095") or nxt[0].startswith("F W 400000000095")):
                        bad.append((s, k, "after failed initialisation (%s) the next call did not start with CMD0: %s" % (res, nxt[0][:60])))
            kind, k0 = expect.get(s.id, (None, 0))
            res0 = r.results.get(k0, "")
            if kind == "crcerr" and not res0.startswith("err CrcError"):
                bad.append((s, k0, "corrupted block+CRC (CRC on) was not reported as CrcError: %s" % res0))
            if kind == "anyerr" and res0.startswith("ok"):
                bad.append((s, k0, "corrupted block in a multi-block read returned Ok"))
            if kind == "writeerr" and not res0.startswith("err WriteError"):
                bad.append((s, k0, "rejected write was not reported as WriteError: %s" % res0))
        del ires, mres
    for s, k, what in bad[:3]:
        tie.violation(what, "scenario: %s\ncall %d: %s\nresult: %s\nreplay: echo '%s' | harness/target/debug/sdrun" % (
            s.impl_line()[:1500], k, s.calls[k], results_of.get(s.id, {}).get(k), s.impl_line()))
    if not bad:
        tie.report_diffs(diffs, "C13_bounded C13_transport C13_crc_gate C13_detects_* C13_write_rejected C13_bad_token C13_failed_init")
    tags = {}
    for s in allscn:
        tags[s.tag] = tags.get(s.tag, 0) + 1
    run.coverage.update(
        evaluations=tie.counts["api_calls"], distinct_nontrivial=len({s.impl_line().split(" ", 2)[2] for s in allscn}),
        rule="one evaluation = one public driver call on the real crate whose full bus trace, result and byte count are compared with the model's; distinct = distinct scenario lines (device behaviour + options + calls)",
        scenarios=tie.counts["scenarios"], spi_trace_lines_compared=tie.counts["spi_events_compared"],
        traces_validated_against_impl=tie.counts["scenarios"], disagreements=len(diffs), oracle_failures=len(bad),
        input_distribution=dict(tags, bitflips=sum(1 for s in faults if s.tag == "bitflip"), bursts=sum(1 for s in faults if s.tag == "burst"),
                                death_positions=sum(1 for s in faults if s.tag == "dead"), rejected_write_statuses=sum(1 for s in faults if s.tag in ("wres", "st13"))),
        samples=[s.impl_line()[:200] for s in (faults[:2] + raws[:3] + legal[:1])],
        )
    run.assumptions += ["the tie between SdModel.v and src/sdcard/mod.rs is differential testing (counts above)",
                        "bytes are modelled as N < 256; the peer is an arbitrary function in the theorems, a scripted/simulated one in the tie"]
    return "proof"
