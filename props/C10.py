"""C10 - see fsprops.py"""
from fsprops import check_C10 as check
