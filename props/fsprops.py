"""The twelve file-system property checks (C01-C11, C16).  Each: proof gate (coq/fs/Cxx.v),
scenario generation with a property-specific profile, model-vs-implementation trace
correspondence, and the property's own spec oracle run on the implementation's outputs."""
import os, sys, collections, re, subprocess
import vcommon as V
import fscommon as F
import fsoracle as O
sys.path.insert(0, os.path.join(V.VERIF, "gen"))
import fsgen, fatck

NOTE_PARTIAL = ("the theorems in coq/fs/%s.v are about named mechanisms of the layer-B model, for all inputs; the full "
                "statement of DESIGN.md is not yet proved end to end, so this evidence is reported at level 'other': "
                "proved lemmas + trace-exact correspondence + spec oracle on the implementation")

PROOF_LEVEL = {
    "C11": "C11m_history_any (ANY fault schedule - any number of armed device-call indices, several inside one call - as long as every fault that fires does so inside a call of the never-writing class: each call is either exactly the fault-free call from the state it starts in, or returns Err with medium and tables unchanged; fs_inv after every call; C11m_retry_any / C11m_retry_find / C11m_retry_iter: the retried lookup / listing returns the C06 answer), C11x_history_model (the same statement over the extended alphabet FsExt.xop, lockstep_xstep for every extended operation; with the observation C11x_drop_swallows_fault: a File dropped while its flush hits the fault answers nothing - impl Drop discards the DeviceError, the handle is gone, the unflushed bytes are lost - documented behaviour of Drop, stated as a theorem) and C11_history_model is a theorem about the layer-B model: in any history run with ONE device fault armed at any device-call index, the calls before the one that hits it are unaffected, and that call returns Err (never Ok / fabricated / Panic / OutOfFuel), keeps lock and handle tables (CloseFile consumes its handle), leaves a crash-sound medium with unique names and every non-targeted file intact, and - for calls that never write - a state of the invariant so that the retry is a fault-free call; every handle can be closed afterwards. Proved per operation (step_fault, 26 operations) from lockstep_step (the armed run agrees with the fault-free run up to the armed device call). Several faults per history and arbitrary calls after a fault are covered at run time only: this check injects a fault at every device-call index of every script and random multi-fault sequences, and judges the implementation with the python oracle (error reported, not wedged, retry answers, no duplicate names, bystanders intact)",
    "C01": "C01x_history_model (the same over the extended alphabet FsExt.xop: iterate_dir_lfn, wrapper drops, change_dir, File::length/offset/is_eof; xspec_run on top of spec_step) and C01_history_model is a theorem about the layer-B model: for any history of API calls (all 26 operations interleaved, any number of files, every outcome) an executable byte-array spec predicts every read/length/offset/eof/seek/flush/close result and ends with the API's view of every file, position by position (writes splice, truncation empties, append starts at the end, one key per write = isolation); step_content proved per operation; D23 (clip at 4 GiB - 1) is encoded in the spec as the crate behaves and recorded as a finding. The run-time oracle replays the byte-array model on the implementation's results",
    "C02": "C02s_remount_reads_back (after a flush/close/drop, CloseVol and OpenVol again, the new session shows the flushed name, attribute, times, length and bytes at that slot; C02s_open_read: a read-only open + Read returns them), C02x_history_model / C02x_flushed_stays_model / C02x_untouched_history_model (extended alphabet; the flush may be XDropFile), C02_drop_is_close (impl Drop for File = a close whose result is discarded: same state, same medium, the flush relation of CloseFile) and C02_history_model / C02_flushed_stays_model / C02_untouched_history_model are theorems about the layer-B model: what a fresh mount of the raw medium shows (disk_view, a function of the raw disk) at the slot of a flushed/closed file is exactly the API's view at the flush - name, attribute, creation time, modification time = rounded clock of the last write, bytes - until a later call modifies that file; untouched files and untouched raw directory slots are unchanged through any history. Recorded findings: D24 (zero creation-date fields re-encoded) and D29 (0xE5 names). The run-time oracle re-reads the implementation's medium with an independent FAT reader",
    "C10": "C10s_history / C10s_crashed_medium_mounts (sessions: every crashed medium of every call, unmount and mount included, keeps the crash invariant, MBR, boot sector and signatures, and mounts again), C10x_history / C10x_region_history (the same over the extended alphabet FsExt.xop: the crashed media of an extended call are those of its base call, xcrash_disks_base) and C10_history is a theorem about the layer-B model: in any history of API calls, the medium after every prefix of the block-write sequence of every call (read off the device log; writes atomic and ordered) satisfies the crash invariant crash_inv (tree over the raw disk, unique names, clean tails, dot entries, chains sound and pairwise disjoint, sub-directories with initialised clusters; residue = lost chains and one stale size), whatever the free clusters held; step_crash proved for all 26 operations and outcomes. The extracted sound decider crash_inv_fast and the independent python checker both run on the implementation's crashed media. Not covered by a theorem: that the mount call itself succeeds on the crashed medium (region theorem: MBR/boot sector unchanged)",
    "C09": "C09s_history (sessions), C09x_history (the same over the extended alphabet FsExt.xop; a drop of a handle on the file counts as targeting it) and C09_history is a theorem about the layer-B model: a file present on the medium (path, entry, bytes) is present unchanged between calls and on every crashed medium of every later call of any history until a call targets it (op_targets); step_keeps_flushed proved for all 26 operations; with the C02 flush theorem (a successful flush/close puts exactly the API's view on the medium) this is the property for the model. The python oracle replays every prefix of the implementation's write log and re-reads flushed files with an independent reader",
    "C16": "C16s_history / C16s_truthful_across_sessions (sessions: mirroring on the raw medium, hint range, and a truthful count stored by the unmount - C16_close_volume_stores - and read back by the next mount), recorded finding three-fats (C16_three_fats_refuted: a valid volume with BPB_NumFATs >= 3 mounts with no second FAT recorded, update_fat then writes copy 0 only); for the FAT copy the volume record knows (complete for 1 and 2 FATs): C16x_history / C16x_history_flush (the same over the extended alphabet FsExt.xop: a dropped dirty File stores the record like a closed one) and C16_history (mirroring of every FAT copy, truthful-stays-truthful, unknown-stays-unknown, hint unknown or in range - after every call of every history of API calls) and C16_history_flush (the FAT32 information sector after a flush/close of a dirty file holds exactly the in-memory record: the number of free FAT entries when the count was truthful, untouched when unknown) are theorems about the layer-B model; the mount code establishes the hint range (C16_mount_hint_in_range, D40 repaired); no call panics or fails for want of space while a free entry exists whatever record was found at mount (C03_history, PrAlloc/PrCount). Recorded finding: stale-hint-kept",
    "C03": "C15_valid_fs / C15_fs_mount_total (mount_bridge: the file-system model's open_raw_volume equals the mount group's MountModel.mount on every byte medium - C15's theorems transfer to this model), C03s_history (sessions: for a manager with MAX_VOLUMES = 1 - the crate's default - OpenVol / CloseVol / Drop of a Volume are INSIDE the history: any number of mount / use / unmount cycles over the full extended alphabet keeps the session invariant - mounted: fs_inv with a record that is a relabel of the reference geometry, unmounted: a fresh manager over a medium with disk_inv and the information-sector signatures, so that the next mount succeeds -, no call panics, every write lies in a region of the volume; C03s_from_init starts it from init_state on a decider-accepted medium), C03x_history (the same for the extended alphabet FsExt.xop: + iterate_dir_lfn, Drop of the File / Directory wrappers, Directory::change_dir - whose unwrap is proved unreachable -, the expect()ing File::length/offset/is_eof under the guard that the wrapper's handle is open) and C03_history / C03_after_every_call / C03_sound_after_history are theorems about the layer-B model for every history of API calls (all 26 operations, every outcome incl. refusals, DiskFull and NotEnoughSpace half-way failures): the global invariant fs_inv - directory tree over the raw disk, unique names, clean tail after the end marker, dot entries, chains in range / acyclic / end-marked / never through free-reserved-bad entries / pairwise disjoint / long enough for the size, pending chains of open files - holds after every call. Scope stated in the theorems: one mounted volume, no device faults, names outside the recorded class D29, fewer than 2^32 handle generations. The tie to the crate is the trace-exact correspondence; the extracted decider fs_inv_b (sound: fs_inv_b_sound) and the independent python checker both run on the implementation's images",
    "C04": "C04_history is a theorem about the layer-B model for every history of API calls: the complete device-write list lies in the regions of the volume (FAT copies, FAT16 root region, data area, FAT32 information sector; C04_regions_not_outside: never MBR, boot sector, other partition, past the last cluster); C04_mount_layout / C04_open_volume_layout derive the region map from the checks of the mount code; per-call byte frames (slot, FAT entry, high nibble, info-sector fields, data range) are the C04_*_frame theorems. Recorded finding: the partition size is not compared with the BPB total (D38)",
    "C05": "C05_history (after any history of API calls with no file left open, in-use clusters = clusters on the chains of the live tree), C05_used_is_tree_and_pending (with open files: plus their pending chains), C05_delete_frees, C05_capacity (exactly free_entries allocations succeed, then NotEnoughSpace with nothing changed), C05_fill_free_refill for every number of cycles, and mgr_write_spec (Ok / DiskFull with exactly the stored prefix readable / NotEnoughSpace) are theorems about the layer-B model for all inputs",
    "C06": "C06_iterate_lfn_entries / _slots / _delivered / _listing / _total (VolumeManager::iterate_dir_lfn reports exactly the entries of iterate_dir, sees exactly the delivered slots of the directory, its long names are LfnModel.listing of those slots - so the C17 listing theorems apply to the file-system model - and it never panics from a state of the invariant) and C06_iterate / C06_find / C06_find_listed / C06_open_dir are complete theorems about the layer-B model: for every directory contents, every chain (FAT16 root, FAT16/FAT32 chains) and every state with a working device and a coherent cache, the listing is exactly the valid slots before the end marker in on-disk order, lookup is the first match, open_dir succeeds exactly for listed directory entries and designates the entry's cluster (0 -> root, \".\" -> the same directory)",
    "C07": "the decision tables of open_file_in_dir (six modes x missing/file/read-only/directory/already-open/dot names), delete_file_in_dir, make_dir_in_dir, open_dir and write on a read-only handle are theorems about the layer-B model for every state in which the handles resolve; every refusal leaves the state of the lookup (reads only)",
    "C08": "sessions: C08s_cycle / C08s_sessions (after any history an unmounted manager mounts partition idx0 again with the next handle and a relabelled record, a mounted idle volume is closed by CloseVol and by dropping the Volume wrapper with the same final state; xstep_dirs: the directory table only ever gains root handles or records of the mounted volume); wrapper layer: C08x_handles_ok_step (every extended operation draws at most one id), drops = closes, File::length/offset/is_eof return the record's values on an open handle and PANIC on a stale handle or under the lock (C08_wrapper_stale_panics / _locked_panics: an observation, these calls return no Result); handle freshness inside the 2^32 window (with its refutation beyond, known finding), stale-handle rejection without effect for every call (open_root_dir refuted: known finding), limits as an invariant of every op with the matching errors, volume rules, closing frees exactly one slot, truthful open-handle query, LockError without any effect for every result-returning op while the lock is held - all theorems about the layer-B model for all states and ops",
}

def finish(run, env, pid, rule, extra=None, known_filter=None):
    env.fill_coverage(rule, extra)
    run.assumptions += ["block writes are atomic and ordered (device model)", "the tie between coq/fs/Fs*.v and the crate is differential testing (counts in coverage)"]
    if pid in PROOF_LEVEL and run.coverage.get("obligations") == run.coverage.get("discharged"):
        run.coverage["explanation"] = PROOF_LEVEL[pid]
        return "proof"
    run.coverage["explanation"] = NOTE_PARTIAL % pid
    return "other"

def do_replay(run, env, replay):
    sc = env.load_replay(replay)
    env.run_all(writes=True)
    d = env.first_diff(sc["model"], sc["impl"])
    if d:
        print("model/implementation differ at trace line %d:\n  model: %s\n  impl : %s" % d)
        run.violation("replayed script: model and implementation differ at trace line %d" % d[0], env.replay_text(sc, "model: %s\nimpl : %s" % (d[1], d[2])), no_input=True)
    else:
        print("replayed script: model and implementation agree on all %d trace lines" % len(sc["impl"]))
    tr = O.Trace(sc)
    probs, _ = O.run_spec(tr, sc["meta"]["dev0"], sc["meta"]["slot"])
    probs += per_op_image_checks(run, env, sc, {"fsck", "mirror", "c04"})
    for p_ in probs[:5]:
        print("oracle: " + p_)
    if probs:
        run.violation("replayed script: " + probs[0][:200], env.replay_text(sc, "\n".join(probs[:8])))
    env.fill_coverage("replay of one saved script")
    run.coverage["explanation"] = "replay"
    return "other"

def corpus(env, rng, which):
    """directed regression scripts: the recorded known findings (re-observed on every run) and repaired defects"""
    hx = fsgen.hx
    for j, gname in enumerate(["f16_min", "f32_min"]):
        geo = fsgen.geometry(rng, None, [gname])
        img, meta = fsgen.build_image(rng, geo, populate=1)
        v = meta["vol"]
        if "zero-cdate" in which:
            node = v.add_file(v.root, "OLDDATE.TXT", b"created by a tool that leaves the date fields zero", raw_cdate=0, raw_ctime=0)
            meta["files"]["/OLDDATE.TXT"] = node
        path, dev = env.new_image(img, "corpus%d" % j)
        meta = dict(meta); meta["dev0"] = dev
        ops = ["openvol %d -> $v" % meta["slot"], "openroot $v -> $r"]
        if "e5-name" in which:
            ops += ["open $r %s RWC -> $e" % hx("\u00e5B.TXT"), "write $e 2 1", "close $e", "iter $r", "find $r %s" % hx("\u00e5B.TXT"),
                    "open $r %s RWCA -> $e2" % hx("\u00e5B.TXT"), "close $e2"]
        if "zero-cdate" in which:
            ops += ["open $r %s RWA -> $z" % hx("OLDDATE.TXT"), "write $z 3 2", "close $z"]
        if "root-dir-stale-volume" in which:
            ops += ["closedir $r", "closevol $v", "openroot $v -> $stale", "hasopen", "closedir $stale", "openroot #4242 -> $never", "closedir $never"]
        env.add_script("corpus%d" % j, path, (1, 4, 4), ops, 5000, (), meta)
    if "lfn-match" in which:
        # D39: a long-name fragment whose first 11 bytes spell an 8.3 name (sequence byte 0x41 = 'A', UTF-16 U+4242 = "BB")
        for j, gname in enumerate(["f16_min", "f32_min"]):
            geo = fsgen.geometry(rng, None, [gname])
            img, meta = fsgen.build_image(rng, geo, populate=0)
            v = meta["vol"]
            node = v.add_file(v.root, "CJK~1.TXT", b"hello", lfn="\u4242" * 5 + "\u4343" * 6 + "\u4444" * 2)
            meta["files"]["/CJK~1.TXT"] = node
            path, dev = env.new_image(img, "lfnmatch%d" % j)
            meta = dict(meta); meta["dev0"] = dev
            nm = hx("ABBBBBBB.BBB")
            ops = ["openvol %d -> $v" % meta["slot"], "openroot $v -> $r", "iter $r", "find $r %s" % nm, "open $r %s RO -> $f" % nm,
                   "len $f", "close $f", "opendir $r %s -> $q" % nm, "delete $r %s" % nm, "iter $r", "find $r %s" % hx("CJK~1.TXT")]
            env.add_script("corpus-lfnmatch", path, (1, 4, 4), ops, 5000, (), meta)
    if "mount-hardening" in which:
        # D36/D37 (repaired: these boot sectors no longer mount) and D38 (known finding: BPB total larger than the partition entry)
        import struct
        def bs(spc, reserved, nfats, fatsz, rootent, total):
            b = bytearray(512)
            b[0:3] = b"\xeb\x3c\x90"; b[3:11] = b"MSDOS5.0"
            struct.pack_into("<H", b, 11, 512); b[13] = spc; struct.pack_into("<H", b, 14, reserved); b[16] = nfats
            struct.pack_into("<H", b, 17, rootent); b[21] = 0xf8
            struct.pack_into("<H", b, 22, fatsz); struct.pack_into("<I", b, 32, total)
            b[43:54] = b"NO NAME    "; b[510] = 0x55; b[511] = 0xaa
            return bytes(b)
        def mbr(entries):
            b = bytearray(512)
            for i, (ty, start, size) in enumerate(entries):
                o = 446 + 16 * i; b[o + 4] = ty; struct.pack_into("<I", b, o + 8, start); struct.pack_into("<I", b, o + 12, size)
            b[510] = 0x55; b[511] = 0xaa
            return bytes(b)
        fat0 = bytes(bytearray(b"\xf8\xff\xff\xff") + bytes(508))
        class Raw:
            def __init__(self, dev): self.dev = dev
            def write(self, path, dev=None):
                with open(path, "w") as fh:
                    for i in sorted(self.dev): fh.write("%d %s\n" % (i, self.dev[i].hex()))
                return self.dev
        cases = {
            "res0": {0: mbr([(6, 2048, 5096)]), 2048: bs(1, 0, 2, 32, 512, 5096)},
            "nfats0": {0: mbr([(6, 2048, 5033)]), 2048: bs(1, 1, 0, 32, 512, 5033)},
            "cover16": {0: mbr([(6, 2048, 5035)]), 2048: bs(1, 1, 2, 1, 512, 5035), 2049: fat0, 2050: fat0},
            "psize": {0: mbr([(6, 1, 97), (6, 98, 10000)]), 1: bs(1, 1, 2, 32, 512, 5097), 2: fat0, 34: fat0, 98: bs(1, 1, 2, 40, 512, 10000)},
        }
        for tag, dev in cases.items():
            path, dev = env.new_image(Raw(dev), "mh-" + tag)
            meta = dict(geo="raw-" + tag, files={}, dirs={}, fat32=False, spc=1, N=0, slot=0, dev0=dev)
            ops = ["openvol 0 -> $v", "openroot $v -> $r", "mkdir $r %s" % hx("A"), "open $r %s RWC -> $f" % hx("N.TXT"), "write $f 600 1", "close $f", "iter $r"]
            env.add_script("corpus-mh-" + tag, path, (1, 4, 4), ops, 5000, (), meta)
    if "fsinfo-location" in which:
        # D34: a FAT32 boot sector whose BPB_FSInfo names the boot sector itself (which carries the three info-sector
        # signatures) or a FAT sector / data block carrying them: must not mount; before the repair flush/close wrote
        # the free count into that block
        for j, where in enumerate(["boot", "fat", "data"]):
            geo = fsgen.geometry(rng, None, ["f32_min"])
            img, meta = fsgen.build_image(rng, geo, populate=1)
            path, dev = env.new_image(img, "fsinfo%d" % j)
            g = fatck.mount(dev, meta["slot"])
            bs = bytearray(dev[g.lba])
            rel = {"boot": 0, "fat": g.reserved + g.fat_size - 1, "data": g.data_end - g.lba - 1}[where]
            if rel >= 65536:
                continue
            bs[48:50] = rel.to_bytes(2, "little")
            dev[g.lba] = bytes(bs)
            tb = bytearray(dev.get(g.lba + rel, fatck.ZERO))
            tb[0:4] = b"RRaA"; tb[484:488] = b"rrAa"; tb[508:512] = b"\x00\x00\x55\xaa"
            if where != "fat":
                tb[488:496] = b"\xff" * 8
            dev[g.lba + rel] = bytes(tb)
            img.write(path, dev)
            meta = dict(meta); meta["dev0"] = dev
            ops = ["openvol %d -> $v" % meta["slot"], "openroot $v -> $r", "open $r %s RWC -> $f" % hx("N.TXT"), "write $f 700 3", "flush $f", "close $f"]
            env.add_script("corpus-fsinfo-%s" % where, path, (1, 4, 4), ops, 5000, (), meta)
    if "maxsize" in which:
        # a file 256 bytes short of the 4 GiB - 1 limit (sparse: 65536 clusters of 64 KiB, all-zero data)
        import fatimg
        img = fatimg.Image()
        v = fatimg.Vol(True, lba=1, spc=128, nclusters=70000, nfats=1, info="unknown")
        node = v.add_file(v.root, "BIG4G.BIN", b"", nclusters=65536)
        b, o = node.slot
        v.blk(b)[o + 28:o + 32] = (0xFFFFFF00).to_bytes(4, "little")
        img.add(0, v)
        path, dev = env.new_image(img, "maxsize")
        meta = dict(geo="f32_4g", files={}, dirs={}, fat32=True, spc=128, N=v.N, slot=0, dev0=dev)
        ops = ["openvol 0 -> $v", "openroot $v -> $r", "open $r %s RWA -> $b" % hx("BIG4G.BIN"), "write $b 512 9", "len $b", "off $b", "close $b"]
        env.add_script("corpus-maxsize", path, (1, 4, 4), ops, 5000, (), meta)

def rollback_scripts(env, rng, count, geos=("f16_min", "f32_min", "f32_exact", "f16_spc2")):
    """directed: a mkdir / create that fails AFTER it took a cluster - the parent directory is exactly full and the
    volume has exactly one free cluster (mkdir takes it, the parent cannot grow), or the FAT16 root is full - so the
    release path runs; then an in-place write + close so that the FAT32 information sector is stored"""
    hx = fsgen.hx
    for j in range(count):
        geo = fsgen.geometry(rng, None, [geos[j % len(geos)]])
        full_root = (j % 3 == 2)
        # exactly ONE free cluster must remain (the entry of the filler file may itself grow a FAT32 root by a cluster)
        seed0 = rng.below(1 << 30)
        for fl in (1, 2, 3):
            r2 = V.SplitMix(seed0)
            img, meta = fsgen.build_image(r2, geo, populate=1, exact_dir=True, free_left=fl, full_root=full_root and not geo[1]["fat32"])
            d0 = img.build()
            g0 = fatck.mount(d0, meta["slot"])
            if g0 is not None and g0.N - len(fatck.used_clusters(d0, g0)) == 1:
                break
        path, dev = env.new_image(img, "rollback%d" % j)
        meta = dict(meta); meta["dev0"] = dev
        ops = ["openvol %d -> $v" % meta["slot"], "openroot $v -> $r", "opendir $r %s -> $s" % hx("SUB"),
               "mkdir $s %s" % hx("NEWD1"), "mkdir $r %s" % hx("NEWD2"), "open $s %s RWC -> $n" % hx("NEWF.X"), "close $n",
               "mkdir $s %s" % hx("NEWD3")]
        tgt = next((p_ for p_ in sorted(meta["files"]) if meta["files"][p_].size > 8 and p_.count("/") == 1), None)
        if tgt:
            ops += ["open $r %s RWA -> $t" % hx(tgt[1:]), "seekstart $t 2", "write $t 3 9", "close $t"]
        ops += ["iter $s", "closedir $s", "closedir $r", "closevol $v"]
        env.add_script("rollback%03d" % j, path, (1, 4, 4), ops, 5000, (), meta)

def grow_scripts(env, rng, count, dirty=0, big=False):
    """directed: directories whose clusters are exactly full (or multi-cluster), so that a create has to grow them
    or has to find its slot in a later cluster"""
    hx = fsgen.hx
    for j in range(count):
        geo = fsgen.geometry(rng, None, ["f16_min", "f16_spc2", "f32_min", "f32_root5", "f16_exact"])
        img, meta = fsgen.build_image(rng, geo, populate=1, dirty_free=dirty, exact_dir=(j % 2 == 0), big_dir=(big or j % 2 == 1))
        path, dev = env.new_image(img, "grow%d" % j)
        meta = dict(meta); meta["dev0"] = dev
        ops = ["openvol %d -> $v" % meta["slot"], "openroot $v -> $r", "opendir $r %s -> $s" % hx("SUB")]
        for i in range(4):
            tgt = rng.choice(["$s", "$s", "$r"])
            ops.append(rng.choice(["open %s %s RWC -> $n%d" % (tgt, hx("NEW%d.X" % i), i), "mkdir %s %s" % (tgt, hx("ND%d" % i)),
                                   "open %s %s RWCA -> $n%d" % (tgt, hx("NEW%d.X" % i), i)]))
            if ops[-1].startswith("open"):
                ops += ["write $n%d %d %d" % (i, rng.choice([10, 600, 1500]), i), "close $n%d" % i]
        ops += ["iter $s", "find $s %s" % hx("NEW0.X"), "find $s %s" % hx("NEW3.X")]
        env.add_script("grow%03d" % j, path, (1, 4, 4), ops, 5000, (), meta)

_PAR_SCRIPTS = []
_PAR_FN = None
def _par_call(i):
    try:
        return _PAR_FN(_PAR_SCRIPTS[i])
    except Exception as e:      # an oracle crash must not hide as "no problem"
        import traceback
        return ("oracle-crash", traceback.format_exc())

def par_oracle(scripts, fn):
    """fn(sc) for every script, in parallel worker processes (fork; results in order)"""
    global _PAR_SCRIPTS, _PAR_FN
    import multiprocessing
    _PAR_SCRIPTS, _PAR_FN = list(scripts), fn
    if len(_PAR_SCRIPTS) < 8:
        return [_par_call(i) for i in range(len(_PAR_SCRIPTS))]
    with multiprocessing.get_context("fork").Pool(V.NPROC) as pool:
        res = pool.map(_par_call, range(len(_PAR_SCRIPTS)), chunksize=2)
    for r in res:
        if isinstance(r, tuple) and r and r[0] == "oracle-crash":
            raise RuntimeError("oracle crashed: " + r[1])
    return res

def tier_n(run, quick, thorough):
    return thorough if run.tier == "thorough" else quick

def report_oracle(run, env, sc, problems, what, known=None):
    """known: function(problem string) -> class id or None"""
    fresh = []
    for p in problems:
        cls = known(p) if known else None
        if cls:
            run.known(cls, p)
        else:
            fresh.append(p)
    if fresh:
        run.violation("%s: %s" % (what, fresh[0][:300]), env.replay_text(sc, "oracle verdicts:\n  " + "\n  ".join(fresh[:8])))
    return bool(fresh)

def probe_scripts(env, sc, d):
    """directed search around a divergence: cut the script after the diverging op and append read-back /
    re-open / listing ops so that a hidden corruption becomes observable to the oracles"""
    try:
        k = int(d[1].split()[1]) if d[1] != "<end>" else int(d[2].split()[1])
    except Exception:
        k = len(sc["ops"]) - 1
    out = []
    hx = fsgen.hx
    fslots = sorted({o.split(" -> ")[1].strip() for o in sc["ops"][:k + 1] if o.startswith("open ") and " -> " in o})
    dslots = sorted({o.split(" -> ")[1].strip() for o in sc["ops"][:k + 1] if o.startswith(("openroot", "opendir")) and " -> " in o})
    names = sorted({o.split()[2] for o in sc["ops"][:k + 1] if o.startswith("open ")})
    for cut in (k + 1, min(k + 4, len(sc["ops"])), len(sc["ops"])):
        ops = list(sc["ops"][:cut])
        for f in fslots:
            ops += ["seekstart %s 0" % f, "read %s 70000" % f, "flush %s" % f]
        for dd in dslots[:2]:
            ops += ["iter %s" % dd]
        for f in fslots:
            ops += ["close %s" % f]
        for dd in dslots[:1]:
            for nm in names[:4]:
                ops += ["open %s %s RO -> $probe%s" % (dd, nm, nm[:6]), "read $probe%s 70000" % nm[:6], "close $probe%s" % nm[:6]]
        out.append(env.add_script(sc["name"] + "-probe%d" % cut, sc["img"], sc["limits"], ops, sc["id_offset"], sc["faults"], sc.get("meta")))
    return out

def common_tail(run, env, theorems, strict=False, oracle=None, what="property violated on a probe around the divergence", known=None, scripts=None):
    """strict=False: a difference confined to read traffic / cache hits / internal bookkeeping, with identical results,
    callbacks, file states, write sequence and final image, is a harmless rewrite and is only counted"""
    dis = env.disagreements(scripts=scripts, strict=strict)
    if dis and not run.violations and oracle is not None:
        # failing-input search: probes around the first divergences, judged by the property's oracle
        for sc, d, dobs in dis[:3]:
            probes = probe_scripts(env, sc, d)
            env.run_all(writes=True, scripts=probes)
            for p in [sc] + probes:
                try:
                    probs = oracle(p)
                except Exception as e:
                    probs = []
                if probs and report_oracle(run, env, p, probs, what, known):
                    break
            if run.violations:
                break
    if dis and not run.violations:
        env.report_disagreements(dis, theorems)
    elif dis:
        run.notes.append("%d scripts also differ between model and implementation" % len(dis))
    run.coverage["disagreements"] = len(dis)

def special_name_scripts(env, rng, count):
    """directed: entries whose 8.3 names use every legal punctuation mark, placed on the medium by the formatter (as
    another operating system would) and created through the API: listed, looked up, opened and entered by name"""
    hx = fsgen.hx
    names = ["TE@T", "#$%&'()-.@{}", "~^_`!.-", "A@B.C@D", "@", "X.@"]
    for j in range(count):
        geo = fsgen.geometry(rng, None, ["f16_min", "f32_min", "f16_spc2", "f32_root5"])
        img, meta = fsgen.build_image(rng, geo, populate=1)
        v = meta["vol"]
        for i, nm in enumerate(names[: 3 + j % 4]):
            meta["files"]["/" + nm] = v.add_file(v.root, nm, bytes([65 + i]) * (10 + 300 * i))
        d = v.add_dir(v.root, "D@R.{~}")
        meta["dirs"]["/D@R.{~}"] = d
        meta["files"]["/D@R.{~}/IN@.$$$"] = v.add_file(d, "IN@.$$$", b"inner")
        path, dev = env.new_image(img, "special%d" % j)
        meta = dict(meta); meta["dev0"] = dev
        ops = ["openvol %d -> $v" % meta["slot"], "openroot $v -> $r", "iter $r", "iterlfn $r 64"]
        for i, nm in enumerate(names):
            ops += ["find $r %s" % hx(nm), "open $r %s RO -> $s%d" % (hx(nm), i), "read $s%d 40" % i, "close $s%d" % i]
        ops += ["opendir $r %s -> $d" % hx("D@R.{~}"), "iter $d", "find $d %s" % hx("IN@.$$$"), "chdir $d %s -> $d" % hx(".."), "iter $d",
                "open $r %s RWC -> $n" % hx("N@W.~1"), "write $n 20 1", "close $n", "mkdir $r %s" % hx("M@D"), "find $r %s" % hx("N@W.~1"),
                "opendir $r %s -> $m" % hx("M@D"), "iter $m", "delete $r %s" % hx("TE@T"), "find $r %s" % hx("TE@T"), "iter $r"]
        env.add_script("special%03d" % j, path, (1, 4, 4), ops, 5000, (), meta)

def truncate_reuse_scripts(env, rng, count):
    """directed: a truncating open of a file whose first cluster is numbered ABOVE a free cluster (an earlier file was
    deleted), then writes through the truncated handle, a third file written meanwhile, everything read back"""
    hx = fsgen.hx
    for j in range(count):
        geo = fsgen.geometry(rng, None, ["f16_min", "f32_min", "f16_spc2", "f32_root5", "f16_spc8"])
        img, meta = fsgen.build_image(rng, geo, populate=1)
        path, dev = env.new_image(img, "trunc%d" % j)
        meta = dict(meta); meta["dev0"] = dev
        bpc = meta["spc"] * 512
        n1, n2 = rng.choice([1, bpc, bpc + 1, 3 * bpc]), rng.choice([bpc - 1, bpc + 7, 2 * bpc, 2 * bpc + 1])
        mode = rng.choice(["RWT", "RWCT"])
        ops = ["openvol %d -> $v" % meta["slot"], "openroot $v -> $r",
               "open $r %s RWC -> $a" % hx("TA.DAT"), "write $a %d 1" % n1, "close $a",
               "open $r %s RWC -> $b" % hx("TB.DAT"), "write $b %d 2" % n2, "close $b",
               "delete $r %s" % hx("TA.DAT"),
               "open $r %s %s -> $t" % (hx("TB.DAT"), mode), "write $t %d 3" % rng.choice([700, bpc, 2 * bpc + 5]), "len $t",
               "open $r %s RWC -> $c" % hx("TC.DAT"), "write $c %d 4" % (2 * bpc + 9), "close $c",
               "seekstart $t 0", "read $t 70000", "write $t %d 5" % (bpc + 3), "close $t",
               "open $r %s RO -> $q" % hx("TB.DAT"), "read $q 70000", "close $q",
               "open $r %s RO -> $q2" % hx("TC.DAT"), "read $q2 70000", "close $q2", "iter $r"]
        env.add_script("truncreuse%03d" % j, path, (1, 4, 4), ops, 5000, (), meta)

def wrapper_scripts(env, rng, count, weights=None, nops=(20, 45), **kw):
    """scripts over the extended alphabet of FsExt.xop: iterate_dir_lfn at manager level, Drop of the RAII wrappers
    (dropfile / dropdir), Directory::change_dir, File::length / offset / is_eof (the panicking queries), mixed with the
    base operations; half of them run through the wrappers (RAII twins), images carry long-name runs"""
    w = dict(iterlfn=6, dropfile=4, dropdir=3, chdir=5, wquery=4, open=8, write=6, read=4, seek=2, close=2, closedir=1, opendir=3,
             mkdir=2, delete=2, iter=3, find=2, flush=2, bad=2, remount=0, io=1, query=1)
    w.update(weights or {})
    prof = fsgen.profile(weights=w, **kw)
    F.std_scenarios(env, rng, count, prof, nops=nops, per_image=2)
    hx = fsgen.hx
    for j, gname in enumerate(["f16_min", "f32_min"][: max(1, min(2, count // 4))]):
        geo = fsgen.geometry(rng, None, [gname])
        img, meta = fsgen.build_image(rng, geo, populate=1)
        v = meta["vol"]
        meta["files"]["/LONG~1.TXT"] = v.add_file(v.root, "LONG~1.TXT", b"long", lfn="A rather long file name \u00e9\u4e2d\U0001F600.txt")
        meta["files"]["/TWO~1.TXT"] = v.add_file(v.root, "TWO~1.TXT", b"2", lfn="second long name.txt")
        path, dev = env.new_image(img, "wrap%d" % j)
        meta = dict(meta); meta["dev0"] = dev
        ops = ["openvol %d -> $v" % meta["slot"], "openroot $v -> $r", "iterlfn $r 255", "iterlfn $r 20", "iterlfn $r 0", "iter $r",
               "open $r %s RWA -> $f" % hx("A.TXT"), "wlen $f", "woff $f", "weof $f", "write $f 700 3", "woff $f", "dropfile $f",
               "open $r %s RO -> $g" % hx("A.TXT"), "read $g 50", "wlen $g", "chdir $r %s -> $r" % hx("SUB"), "iterlfn $r 300", "iter $r",
               "chdir $r %s -> $r" % hx("NOPE"), "chdir $r %s -> $r" % hx("A.TXT"), "chdir $r %s -> $r" % hx(".."), "iter $r",
               "opendir $r %s -> $d2" % hx("SUB"), "dropdir $d2", "iterlfn $d2 10", "dropdir $d2", "dropfile $g", "dropfile $g",
               "delete $r %s" % hx("LONG~1.TXT"), "open $r %s RWC -> $n" % hx("NEW.TXT"), "dropfile $n", "iterlfn $r 255",
               "hasopen", "dropdir $r", "hasopen", "dropvol $v", "openvol %d -> $v2" % meta["slot"], "openroot $v2 -> $r2", "dropvol $v2", "iter $r2",
               "dropdir $r2", "dropvol $v2", "openvol %d -> $v3" % meta["slot"], "closevol $v3"]
        env.add_script("wrapdirected", path, (1, 4, 4), ops, 5000, (), meta)
        env.add_script("wrapdirected", path, (1, 4, 4), ops, 5000, (), meta, raii=True)

# ============================================================================ C01
def check_C01(run, replay=None):
    env = F.Env(run, "C01.v")
    if not env.ok:
        return "other"
    if replay:
        return do_replay(run, env, replay)
    rng = V.SplitMix(run.seed)
    n = tier_n(run, 96, 1500)
    prof = fsgen.profile(weights=dict(write=14, read=12, seek=10, open=8, close=4, flush=3, query=4, io=4, delete=2, mkdir=1, bad=2, remount=1))
    F.std_scenarios(env, rng, n, prof, nops=(25, 70))
    F.std_scenarios(env, rng, n // 6, prof, nops=(25, 70), img_kw=dict(second_partition=True), limits=(2, 4, 4))
    corpus(env, rng, {"maxsize"})
    truncate_reuse_scripts(env, rng, 6 if run.tier == "quick" else 30)
    wrapper_scripts(env, rng, max(n // 6, 8), weights=dict(write=10, read=8, seek=5, wquery=6, dropfile=5, iterlfn=1, chdir=2))
    # directed: read block 0 of a file, fail the read of block 1 (the device scribbles the buffer), go back to block 0 and
    # read / partly overwrite it; the fault index sweeps over the calls around the second read
    for j, gname in enumerate(["f16_min", "f32_min"]):
        geo = fsgen.geometry(rng, None, [gname])
        img, meta = fsgen.build_image(rng, geo, populate=1, ensure_big=True)
        path, dev = env.new_image(img, "stale%d" % j)
        meta = dict(meta); meta["dev0"] = dev
        hxn = fsgen.hx
        ops = ["openvol %d -> $v" % meta["slot"], "openroot $v -> $r", "open $r %s RWA -> $f" % hxn("BIGGER.BIN"), "seekstart $f 0", "read $f 512",
               "read $f 512", "seekstart $f 0", "read $f 512", "seekstart $f 512", "read $f 100", "seekstart $f 7", "write $f 4 9", "seekstart $f 0", "read $f 600", "close $f"]
        for fi in range(3, 16 if run.tier == "quick" else 40):
            env.add_script("stale", path, (1, 4, 4), ops, 5000, [fi], meta, raii=False)
    # histories with ONE transient device fault: whatever the calls AFTER the failed one read must still be the model's
    # bytes (a cache that keeps a stale tag after a failed read would hand out another block's contents)
    F.std_scenarios(env, rng, max(n // 5, 12), fsgen.profile(weights=dict(write=12, read=14, seek=10, open=6, close=3, flush=2, query=2, io=2, delete=0, mkdir=0, bad=0, remount=0)),
                    nops=(25, 60), per_image=2, faults_fn=lambda r, ops: [10 + r.below(200)])
    env.run_all()
    bad = 0
    for sc in env.scripts:
        tr = O.Trace(sc)
        if sc["name"].startswith("corpus-maxsize"):
            # the near-4-GiB file is too large for the byte-array replay: judge the one clipped write directly
            probs = []
            for k, op in enumerate(tr.ops):
                if op[0] == "write" and tr.ok(k):
                    stt = tr.st[k].get(op[1])
                    if stt and stt[0] != "err" and int(stt[1]) - 0xFFFFFF00 != int(op[2]):
                        probs.append("KNOWN-maxsize op %d: write of %s bytes at offset %d reported success but stored only %d bytes (silent clip at the 4 GiB - 1 limit)" % (k, op[2], 0xFFFFFF00, int(stt[1]) - 0xFFFFFF00))
        else:
            probs, _ = O.run_spec(tr, sc["meta"]["dev0"], sc["meta"]["slot"])
        def known(p):
            return "maxsize" if p.startswith("KNOWN-maxsize") else None
        if probs and bad < 2:
            bad += report_oracle(run, env, sc, probs, "byte-array file model violated by the implementation", known)
    def orc(sc):
        if sc["name"].startswith("corpus-maxsize"):
            return []
        tr = O.Trace(sc)
        return O.run_spec(tr, sc["meta"]["dev0"], sc["meta"]["slot"])[0]
    common_tail(run, env, run.coverage.get("theorems", []), oracle=orc, what="byte-array file model violated by the implementation")
    return finish(run, env, "C01", "generated open/seek/read/write/flush/close histories over up to MAX_FILES files (and two volumes), lengths and seek targets from {0,1,511,512,513,cluster-1,cluster,cluster+1,3 clusters+7,random}; non-trivial = at least one device write and one successful result; oracle = python byte-array model replayed on the implementation's results")

# ============================================================================ C02
def tree_of(dev, slot):
    g = fatck.mount(dev, slot)
    if g is None:
        return None, None, ["volume does not mount"]
    probs, tree, owned = fatck.fsck(dev, g)
    return g, fatck.flatten(tree), probs

def final_image(sc):
    dev = dict(sc["meta"]["dev0"])
    if sc.get("writes") and os.path.exists(sc["writes"]):
        for l in open(sc["writes"]):
            a, b, c = l.split()
            dev[int(b)] = bytes.fromhex(c)
    return dev

def c02_oracle(sc):
    tr = O.Trace(sc)
    probs, sp = O.run_spec(tr, sc["meta"]["dev0"], sc["meta"]["slot"], checks=())
    if sp is None:
        return []
    dev = final_image(sc)
    g, flat, fprobs = tree_of(dev, sc["meta"]["slot"])
    # "a modification time equal to the clock value at the last write": judged at the write itself (in-memory entry) ...
    out = [p_ for p_ in probs if "modification time" in p_]
    if g is None:
        out.append("final medium does not mount")
    else:
        g0, flat0, _ = tree_of(sc["meta"]["dev0"], sc["meta"]["slot"])
        still_open = {f["path"] for f in sp.open.values()}
        for path, data in sp.files.items():
            if path in still_open:
                continue
            e = flat.get(path)
            if path in sp.flushed:
                want = sp.flushed[path][0]
            elif path in sp.touched:
                continue        # modified but never successfully flushed/closed: no claim
            else:
                want = bytes(data)
            if e is None:
                if "å" in path or path.rsplit("/", 1)[-1][:1] == "\xe5":
                    out.append("KNOWN-e5 %s stored with first byte 0xE5 is invisible to a FAT reader" % path)
                else:
                    out.append("%s: flushed file is missing from the medium" % path)
            elif e.is_dir:
                out.append("%s: is a directory on the medium" % path)
            elif e.size != len(want) or (e.data or b"") != want:
                out.append("%s: medium holds %d bytes, flushed contents have %d bytes%s" % (path, e.size, len(want), "" if e.size != len(want) else " (contents differ)"))
            elif path in sp.flushed and path in sp.wstamp and sp.flushed[path][1] > sp.wstamp[path][1]:
                # written in this history and flushed AFTER the last write: modification time = clock value at the last
                # write (FAT encoding, two-second resolution), and the entry is marked as modified (archive attribute)
                wd, wt = O.fat_stamp(sp.wstamp[path][0])
                if (e.mdate, e.mtime) != (wd, wt):
                    out.append("%s: modification time on the medium is %04x/%04x, the clock value at the last write encodes as %04x/%04x" % (path, e.mdate, e.mtime, wd, wt))
                elif not (e.attr & 0x20):
                    out.append("%s: written and flushed but the entry does not carry the archive attribute (attr %02x)" % (path, e.attr))
        for path in sp.dirs:
            if path and (path not in flat or not flat[path].is_dir):
                if path.rsplit("/", 1)[-1][:1] == "\xe5" or any(seg[:1] == "\xe5" for seg in path.split("/")):
                    out.append("KNOWN-e5 %s stored with first byte 0xE5 is invisible to a FAT reader" % path)
                else:
                    out.append("%s: directory missing from the medium" % path)
        # untouched files and directories: entry bytes and data byte-for-byte unchanged; ctime never changes
        for path, e0 in flat0.items():
            e1 = flat.get(path)
            if e1 is not None and path not in sp.deleted and (e1.ctime, e1.cdate) != (e0.ctime, e0.cdate):
                if (e0.cdate & 0x1F) == 0 or ((e0.cdate >> 5) & 0xF) == 0:
                    out.append("KNOWN-zero-cdate %s creation date re-encoded from %04x to %04x" % (path, e0.cdate, e1.cdate))
                else:
                    out.append("%s: creation time changed from %04x/%04x to %04x/%04x" % (path, e0.cdate, e0.ctime, e1.cdate, e1.ctime))
            if path in sp.touched or e1 is None:
                if e1 is None and path not in sp.touched and not any(path.startswith(t + "/") for t in sp.touched):
                    out.append("%s: untouched entry disappeared" % path)
                continue
            if False:
                if (e0.cdate & 0x1F) == 0 or ((e0.cdate >> 5) & 0xF) == 0:
                    out.append("KNOWN-zero-cdate %s creation date re-encoded" % path)
                else:
                    out.append("%s: creation time changed from %04x/%04x to %04x/%04x" % (path, e0.cdate, e0.ctime, e1.cdate, e1.ctime))
            if not any(f == path for f in sp.flushed) and not e0.is_dir:
                if e1.raw != e0.raw or (e1.data or b"") != (e0.data or b""):
                    out.append("%s: untouched file changed on the medium" % path)
    return out


def c02_known(p):
    if p.startswith("KNOWN-e5"): return "e5-name"
    if p.startswith("KNOWN-zero-cdate"): return "zero-cdate"
    return None

def check_C02(run, replay=None):
    env = F.Env(run, "C02.v")
    if not env.ok:
        return "other"
    if replay:
        return do_replay(run, env, replay)
    rng = V.SplitMix(run.seed)
    n = tier_n(run, 80, 1200)
    prof = fsgen.profile(weights=dict(write=12, open=10, close=6, flush=4, delete=4, mkdir=4, read=2, seek=3, bad=1, remount=2), quiesce=True)
    F.std_scenarios(env, rng, n, prof, nops=(20, 60))
    corpus(env, rng, {"e5-name", "zero-cdate"})
    grow_scripts(env, rng, max(n // 10, 4), big=True)
    # volumes that fill up during a write: what was accepted before DiskFull must be on the medium after close
    full = fsgen.profile(weights=dict(write=16, open=10, close=8, flush=3, delete=2, mkdir=1, read=1, seek=1, bad=0, remount=0, io=1), quiesce=True)
    F.std_scenarios(env, rng, max(n // 6, 6), full, nops=(12, 30), img_kw=dict(free_left=3), per_image=3)
    truncate_reuse_scripts(env, rng, 4 if run.tier == "quick" else 20)
    # Drop = close ignoring the error: dropped files must be on the medium exactly like closed ones
    wrapper_scripts(env, rng, max(n // 6, 8), weights=dict(write=12, open=10, dropfile=8, close=2, flush=2, iterlfn=1, chdir=2, wquery=1, read=1), quiesce=True)
    env.run_all(writes=True)
    bad = 0
    for sc in env.scripts:
        if bad >= 2:
            break
        out = c02_oracle(sc)
        if out:
            bad += report_oracle(run, env, sc, out, "fresh mount by an independent FAT reader disagrees with the flushed state", c02_known)
    common_tail(run, env, run.coverage.get("theorems", []), oracle=c02_oracle, what="fresh mount by an independent FAT reader disagrees with the flushed state", known=c02_known)
    return finish(run, env, "C02", "create/write/truncate/append/delete/mkdir histories ending with every file closed, on pre-populated trees (nested dirs, LFN runs, deleted slots, fragmented chains); oracle = independent python FAT reader (gen/fatck.py) on the implementation's final medium vs the byte-array model, plus byte-identity of untouched entries")

# ============================================================================ C03 / C05 / C16 / C04 share the per-op image walk
def per_op_image_checks(run, env, sc, want):
    """returns list of problems; want subset of {'fsck','mirror','used','c04'}"""
    tr = O.Trace(sc)
    dev0 = sc["meta"]["dev0"]
    slot = sc["meta"]["slot"]
    g = fatck.mount(dev0, slot)
    out = []
    if g is None:
        return out
    open_files = 0
    prev = dict(dev0)
    for k, dev in O.images(tr, dev0):
        if tr.res[k] is None:
            break
        kind = tr.ops[k][0]
        wrote = bool(tr.writes.get(k))
        if "c04" in want and wrote:
            out += c04_writes(tr, k, g, prev, dev, sc)
            out += c04_frames(tr, k, g, prev)
        if wrote or k == 0:
            if "fsck" in want and not sc.get("faults"):
                probs, tree, owned = fatck.fsck(dev, g, read_data=False)
                out += ["after op %d (%s): %s" % (k, " ".join(tr.ops[k][:3]), p) for p in probs]
            elif "fsck" in want:
                # a history with an injected device fault: a call that failed half-way leaves what a power cut leaves
                # (lost clusters, a size not yet updated) - everything else must still be sound
                probs = fatck.crash_ck(dev, g)
                out += ["after op %d (%s), in a history with a device fault at call index %s: %s" % (k, " ".join(tr.ops[k][:3]), sc["faults"], p) for p in probs]
            if "mirror" in want:
                bad = fatck.fat_copies_equal(dev, g)
                if bad:
                    out.append("after op %d (%s): FAT copy %d differs from the first in sector %d" % (k, " ".join(tr.ops[k][:3]), bad[0][0], bad[0][1]))
        if "c04" in want and wrote:
            for idx, data in tr.writes.get(k, []):
                prev[idx] = data
        if len(out) > 6:
            break
    return out

def c04_writes(tr, k, g, prev, dev, sc):
    out = []
    op = " ".join(tr.ops[k][:3])
    cur = dict()
    if g.fat32 and not (g.lba < g.info_block < g.fat_start) and any(idx == g.info_block for idx, _ in tr.writes.get(k, [])):
        out.append("op %d (%s): free-space record written to block %d, which is not in the reserved region behind the boot sector (%d..%d)"
                   % (k, op, g.info_block, g.lba + 1, g.fat_start - 1))
    for idx, data in tr.writes.get(k, []):
        old = cur.get(idx, prev.get(idx, fatck.ZERO))
        cur[idx] = data
        where = None
        if not (g.lba < idx < g.end):
            out.append("op %d (%s): write to block %d outside the partition (%d..%d) or to its boot sector" % (k, op, idx, g.lba, g.end - 1)); continue
        if idx >= g.lba + g.psize:
            out.append("op %d (%s): write to block %d beyond the partition entry (%d blocks from %d): partition-size" % (k, op, idx, g.psize, g.lba)); continue
        if g.fat_start <= idx < g.fat_start + g.nfats * g.fat_size:
            rel = (idx - g.fat_start) % g.fat_size
            esz = 4 if g.fat32 else 2
            for o in range(0, 512, esz):
                if data[o:o + esz] != old[o:o + esz]:
                    c = (rel * 512 + o) // esz
                    if c < 2 or c >= g.N + 2:
                        out.append("op %d (%s): FAT entry %d (outside the %d clusters of the volume) changed" % (k, op, c, g.N))
                    if g.fat32 and (data[o + 3] & 0xF0) != (old[o + 3] & 0xF0):
                        out.append("op %d (%s): reserved high bits of FAT32 entry %d changed" % (k, op, c))
        elif g.fat32 and idx == g.info_block:
            if data[:488] != old[:488] or data[496:] != old[496:]:
                out.append("op %d (%s): information sector changed outside the free-count / next-free fields" % (k, op))
        elif idx < g.root_start:
            out.append("op %d (%s): write to reserved block %d" % (k, op, idx))
        elif idx >= g.data_end:
            out.append("op %d (%s): write to block %d past the last cluster (data area ends at %d)" % (k, op, idx, g.data_end - 1))
    return out

def c04_frames(tr, k, g, prev):
    """the second sentence of C04 on the implementation's write log: within the data area (and the FAT16 root region) a
    call only changes bytes of the file range it was asked to write, of clusters that were free before the call, or of
    ONE directory slot per directory block; all other bytes of every rewritten block are preserved.  Ownership is read
    off the medium as it was BEFORE the call by the independent checker."""
    out = []
    op = tr.ops[k]
    opt = " ".join(op[:3])
    ws = tr.writes.get(k, [])
    if not any(g.root_start <= idx < g.data_end for idx, _ in ws):
        return out
    probs, tree, owned = fatck.fsck(prev, g, read_data=False)
    if probs:
        return out          # an unsound medium is C03's business; ownership would be guesswork
    ent = {}
    def walk(t, path):
        for e in t:
            if e.is_lfn or e.is_label or e.name[:2] in (b". ", b".."):
                continue
            pth = path + "/" + e.name.decode("latin-1").strip()
            ent[pth] = e
            if e.children is not None:
                walk(e.children, pth)
    walk(tree, "")
    # the byte range of the file this call writes (file-relative), from the reported offsets
    wr = None
    if op[0] in ("write", "iowrite") and k > 0:
        before = tr.st[k - 1].get(op[1]); after = tr.st[k].get(op[1])
        if before and after and before[0] != "err" and after[0] != "err":
            wr = (int(before[1]), int(after[1]))
            if op[0] == "write" and tr.binds[k] is None and int(before[1]) > int(after[1]):
                wr = None
    cur = {}
    for idx, data in ws:
        old = cur.get(idx, prev.get(idx, fatck.ZERO))
        cur[idx] = data
        if not (g.root_start <= idx < g.data_end) or data == old:
            continue
        diff = [o for o in range(512) if data[o] != old[o]]
        if idx < g.data_start:
            owner, isdir, e = "/", True, None       # FAT16 root region
        else:
            c = 2 + (idx - g.data_start) // g.spc
            owner = owned.get(c)
            if owner is None:
                continue                             # free (or lost / pending) before the call: the call may fill it
            e = ent.get(owner)
            isdir = owner == "/" or (e is not None and e.is_dir)
            if e is None and owner != "/":
                continue
        if isdir:
            slots = sorted({o // 32 for o in diff})
            if len(slots) > 1:
                out.append("op %d (%s): block %d of directory %s: %d slots changed in one write (slots %s); a call owns one slot" % (k, opt, idx, owner, len(slots), slots[:6]))
        else:
            if wr is None:
                out.append("op %d (%s): block %d belongs to file %s, which this call was not asked to write; %d bytes changed (first at offset %d)" % (k, opt, idx, owner, len(diff), diff[0]))
                continue
            c = 2 + (idx - g.data_start) // g.spc
            pos = (e.chain.index(c) * g.spc + (idx - g.data_start) % g.spc) * 512 if c in e.chain else None
            if pos is None:
                continue
            lo, hi = wr[0] - pos, wr[1] - pos
            outside = [o for o in diff if not (lo <= o < hi)]
            if outside:
                out.append("op %d (%s): block %d of file %s (file offset %d): %d bytes changed outside the written range [%d, %d) - first at file offset %d"
                           % (k, opt, idx, owner, pos, len(outside), wr[0], wr[1], pos + outside[0]))
    return out

def check_C03(run, replay=None):
    env = F.Env(run, "C03.v")
    if not env.ok:
        return "other"
    if replay:
        return do_replay(run, env, replay)
    rng = V.SplitMix(run.seed)
    n = tier_n(run, 60, 900)
    prof = fsgen.profile(weights=dict(write=14, open=12, close=5, delete=6, mkdir=5, flush=3, read=1, seek=2, bad=3, remount=1))
    F.std_scenarios(env, rng, n // 2, prof, nops=(20, 50))
    F.std_scenarios(env, rng, n // 4, prof, nops=(20, 50), img_kw=dict(free_left=rng.below(4)))
    F.std_scenarios(env, rng, n // 8, prof, nops=(20, 50), img_kw=dict(full_root=True), kind="fat16")
    F.std_scenarios(env, rng, n // 8, prof, nops=(20, 50), img_kw=dict(big_dir=True, free_left=2))
    F.std_scenarios(env, rng, max(n // 10, 4), fsgen.profile(weights=dict(mkdir=10, opendir=6, open=10, write=8, close=6)), nops=(15, 35), want=["f32_root5"], img_kw=dict(free_left=12), per_image=2)
    grow_scripts(env, rng, max(n // 10, 4), big=True)
    # directed: delete the entry that sits in the LAST slot of a directory block while live entries follow in the next
    # block (multi-block sub-directory and FAT16 root), then list / create
    for j, gname in enumerate(["f16_min", "f32_min", "f16_spc2"]):
        geo = fsgen.geometry(rng, None, [gname])
        img, meta = fsgen.build_image(rng, geo, populate=1, big_dir=True)
        path, dev = env.new_image(img, "slot15-%d" % j)
        meta = dict(meta); meta["dev0"] = dev
        hxn = fsgen.hx
        g0 = fatck.mount(dev, meta["slot"])
        tree0 = fatck.flatten(fatck.fsck(dev, g0, read_data=False)[1]) if g0 else {}
        def dotted(e_):
            b_, x_ = e_.name[:8].decode("latin-1").rstrip(), e_.name[8:].decode("latin-1").rstrip()
            return b_ + ("." + x_ if x_ else "")
        victims = [dotted(e_) for p_, e_ in tree0.items() if p_.startswith("/SUB/") and e_.offset == 480 and not e_.is_dir][:3]
        ops = ["openvol %d -> $v" % meta["slot"], "openroot $v -> $r", "opendir $r %s -> $s" % hxn("SUB")]
        for v_ in victims:
            ops += ["delete $s %s" % hxn(v_), "iter $s"]
        ops += ["open $s %s RWC -> $n" % hxn("AFTER.X"), "write $n 10 1", "close $n", "iter $s", "find $s %s" % hxn("F%d.X" % (16 * meta["spc"] * 2 + 1))]
        env.add_script("slot15-%03d" % j, path, (1, 4, 4), ops, 5000, (), meta)
    # directed: a read that fails AFTER the device filled the buffer, right behind a FAT update (the FAT sector is the
    # cached block), followed by an allocation for another file: the fault index sweeps over the first write's calls
    for j, gname in enumerate(["f16_min", "f32_min"]):
        geo = fsgen.geometry(rng, None, [gname])
        img, meta = fsgen.build_image(rng, geo, populate=1)
        path, dev = env.new_image(img, "fatstale%d" % j)
        meta = dict(meta); meta["dev0"] = dev
        hxn = fsgen.hx
        ops = ["openvol %d -> $v" % meta["slot"], "openroot $v -> $r", "open $r %s RWC -> $a" % hxn("FA.NEW"), "open $r %s RWC -> $b" % hxn("FB.NEW"),
               "write $a 100 1", "write $b 100 2", "write $a 700 3", "write $b 700 4", "close $a", "close $b", "iter $r"]
        for fi in range(6, 30 if run.tier == "quick" else 60):
            env.add_script("fatstale", path, (1, 4, 4), ops, 5000, [fi], meta, raii=False)
    # histories with ONE transient device fault ("after every API call returns (success or error)"): the failed call may
    # leave what a power cut leaves, nothing worse, and the calls after it must not make it worse
    F.std_scenarios(env, rng, max(n // 5, 10), fsgen.profile(weights=dict(write=14, open=12, close=6, delete=5, mkdir=5, flush=3, read=3, seek=2, find=2, iter=2, bad=0, remount=0, io=0)),
                    nops=(18, 40), per_image=2, faults_fn=lambda r, ops: [8 + r.below(160)])
    env.run_all(writes=True)
    bad = 0
    for sc in env.scripts:
        if bad >= 2:
            break
        probs = per_op_image_checks(run, env, sc, {"fsck"})
        if probs:
            bad += report_oracle(run, env, sc, probs, "the medium is not a well-formed FAT volume after a call returned")
    common_tail(run, env, run.coverage.get("theorems", []), oracle=lambda sc: per_op_image_checks(run, env, sc, {"fsck"}),
                what="the medium is not a well-formed FAT volume after a call returned")
    small = [sc for sc in env.scripts if sc["meta"].get("N", 0) <= 6000 and not sc.get("faults")]
    coq_fsck(run, env, small if run.tier == "thorough" else small[:48], "the medium is not a well-formed FAT volume after a call returned")
    return finish(run, env, "C03", "histories incl. failing calls on all geometries, volumes with 0-3 free clusters, full FAT16 roots, multi-cluster directories; oracle = independent structural checker (gen/fatck.py fsck: chains in range/acyclic/terminated/disjoint/long enough, unique names, dot entries, nothing after the end marker) on the implementation's medium after every call that wrote")

# ---- the extracted Coq decider of the global invariant (PrFsck.fs_inv_fast, sound by fs_inv_fast_sound) as an oracle
def _pend_from_int(sc, dev):
    """pending heads of the files still open at the end of the implementation's run: in-memory first cluster >= 2
    while the slot on the medium still says < 2 (from the last INT line of the implementation and its final image)"""
    last = None
    for l in sc["impl"]:
        if l.startswith("INT "):
            last = l
    if last is None:
        return []
    m = re.search(r"files=\[([^\]]*)\]", last)
    pend = []
    if m and m.group(1):
        for f in m.group(1).split(";"):
            a = f.split(":")
            mem, blk, off = int(a[7]), int(a[9]), int(a[10])
            raw = dev.get(blk, fatck.ZERO)
            lo = raw[off + 26] | (raw[off + 27] << 8)
            hi = raw[off + 20] | (raw[off + 21] << 8)
            disk = lo | (hi << 16) if sc["meta"].get("fat32") else lo
            if mem >= 2 and disk < 2:
                pend.append(mem)
    return pend

def _coq_fsck_one(args):
    model, sc, tmp = args
    out = dict(name=sc["name"], model=None, impl=None)
    try:
        rc, txt = V.sh([model, "runfsck", sc["path"]], timeout=150)
        out["model"] = [l.split()[2] for l in txt.splitlines() if l.startswith("FSCK ")]
        dev = final_image(sc)
        path = os.path.join(tmp, sc["name"] + ".final.img")
        with open(path, "w") as fh:
            for i in sorted(dev):
                fh.write("%d %s\n" % (i, dev[i].hex()))
        pend = _pend_from_int(sc, dev)
        rc, txt = V.sh([model, "fsck", path, str(sc["meta"]["slot"])] + [str(x) for x in pend], timeout=150)
        out["impl"] = txt.strip().split()[-1] if txt.strip() else "error"
        os.remove(path)
    except subprocess.TimeoutExpired:
        out["timeout"] = True
    except Exception as e:
        out["error"] = repr(e)
    return out

def coq_fsck(run, env, scripts, what):
    """runs the extracted decider (1) on the MODEL's state after every call of each script and (2) on the IMPLEMENTATION's
    final medium (rebuilt from its write log) with the pending chains of its still-open files.  Scripts whose image is
    rejected before the first call that writes are outside the scope of C03_history (counted, not judged)."""
    from concurrent.futures import ThreadPoolExecutor
    todo = [sc for sc in scripts if not sc["faults"] and sc.get("impl")]
    with ThreadPoolExecutor(V.NPROC) as ex:
        res = list(ex.map(_coq_fsck_one, [(env.model, sc, env.tmp) for sc in todo]))
    stats = collections.Counter()
    bad = 0
    for sc, r in zip(todo, res):
        if r.get("timeout"):
            stats["decider_timeout"] += 1; continue
        if r.get("error") or not r["model"]:
            stats["decider_error"] += 1
            run.notes.append("coq decider failed on %s: %s" % (sc["name"], r.get("error")))
            continue
        verdicts = r["model"]
        # scope of C03_history: one volume, mounted once - judge the calls up to the first remount / closevol / second openvol
        names = [o.split()[0] for o in sc["ops"]]
        firstvol = next((i for i, nm in enumerate(names) if nm == "openvol"), None)
        cut = next((i for i, nm in enumerate(names) if nm in ("remount", "closevol") or (nm == "openvol" and firstvol is not None and i > firstvol)), len(names))
        whole = cut == len(names)
        verdicts = verdicts[:cut]
        first = next((v for v in verdicts if v in ("ok", "bad")), None)
        if first is None or "multi" in verdicts:
            stats["no_single_volume"] += 1; continue
        if first == "bad":
            stats["image_outside_fs_inv"] += 1; continue
        stats["in_scope"] += 1
        stats["model_states_decided"] += sum(1 for v in verdicts if v in ("ok", "bad"))
        k = next((i for i, v in enumerate(verdicts) if v == "bad"), None)
        if k is not None and bad < 2:
            bad += 1
            run.violation("%s: the extracted decider of fs_inv rejects the model's state after op %d (%s) although it accepted the state before - contradicts C03_history, or the script left its scope" % (what, k, sc["ops"][k] if k < len(sc["ops"]) else "?"),
                          env.replay_text(sc, "coq decider verdicts per op: " + " ".join(verdicts)), no_input=False)
        if not whole:
            stats["impl_final_skipped_remount"] += 1
        elif r["impl"] == "ok":
            stats["impl_final_ok"] += 1
        elif r["impl"] == "bad" and k is None and bad < 2:
            bad += 1
            run.violation("%s: the extracted decider of fs_inv rejects the IMPLEMENTATION's final medium (accepted for the model)" % what,
                          env.replay_text(sc, "coq decider on the implementation's final medium: bad; on the model's states: " + " ".join(verdicts)))
        else:
            stats["impl_final_" + str(r["impl"])] += 1
    run.coverage["coq_decider"] = dict(stats)
    return bad

def c04_known(sc):
    # D38 is recorded for exactly this input: the corpus image whose BPB claims 5097 blocks in a 97-block partition entry
    if sc["name"].startswith("corpus-mh-psize"):
        return lambda p: "partition-size" if p.endswith(": partition-size") else None
    return None

def retry_scripts(env, rng, count):
    """directed: an append / overwrite / flush that hits ONE device fault at each of its first device calls and is then
    retried, on files whose last block is partly filled"""
    hx = fsgen.hx
    for j in range(count):
        geo = fsgen.geometry(rng, None, ["f16_min", "f32_min", "f16_spc2", "f16_spc8"])
        img, meta = fsgen.build_image(rng, geo, populate=1, ensure_big=True)
        path, dev = env.new_image(img, "retry%d" % j)
        meta = dict(meta); meta["dev0"] = dev
        names = [p_[1:] for p_ in sorted(meta["files"]) if p_.count("/") == 1 and meta["files"][p_].size > 0 and not (meta["files"][p_].attr & 1)][:2]
        if not names:
            continue
        ops = ["openvol %d -> $v" % meta["slot"], "openroot $v -> $r"]
        for i, nm in enumerate(names):
            ops += ["open $r %s RWA -> $a%d" % (hx(nm), i), "write $a%d 10 %d" % (i, i), "write $a%d 10 %d" % (i, i), "write $a%d 600 %d" % (i, i + 1),
                    "seekstart $a%d 3" % i, "write $a%d 5 9" % i, "write $a%d 5 9" % i, "flush $a%d" % i, "flush $a%d" % i, "close $a%d" % i]
        ops += ["iter $r"]
        # the device-call index of the fault sweeps over the first calls after the prelude (mount + open: ~6-12 calls)
        env.add_script("retry%03d" % j, path, (1, 4, 4), ops, 5000, (6 + j % 14,), meta)

def check_C04(run, replay=None):
    env = F.Env(run, "C04.v")
    if not env.ok:
        return "other"
    if replay:
        return do_replay(run, env, replay)
    rng = V.SplitMix(run.seed)
    n = tier_n(run, 60, 900)
    prof = fsgen.profile(weights=dict(write=16, open=12, close=5, delete=6, mkdir=5, flush=4, read=1, seek=2, bad=2))
    F.std_scenarios(env, rng, n // 3, prof, nops=(20, 50), img_kw=dict(second_partition=True), limits=(2, 4, 4))
    F.std_scenarios(env, rng, n // 3, prof, nops=(20, 50), img_kw=dict(free_left=1), want=["f16_min", "f16_slack", "f16_spc8", "f32_min", "f16_exact", "f32_exact"])
    F.std_scenarios(env, rng, n // 3, prof, nops=(20, 50))
    corpus(env, rng, {"fsinfo-location", "mount-hardening"})
    # a transient device fault followed by a retry of the same call: what the retried call writes must still be confined
    # to its own bytes (a cache that claims a block it does not hold would rewrite foreign bytes)
    F.std_scenarios(env, rng, max(n // 3, 16), fsgen.profile(weights=dict(write=16, open=10, close=5, flush=4, seek=4, read=3, delete=2, mkdir=2, bad=0, remount=0, io=0)),
                    nops=(16, 36), want=["f16_min", "f16_spc2", "f32_min", "f16_spc8"], per_image=2,
                    faults_fn=lambda r, ops: sorted({5 + r.below(60), 20 + r.below(120)}))
    retry_scripts(env, rng, 8 if run.tier == "quick" else 40)
    # directed: block 0 of a file is read (cached), the read of block 1 fails after the device filled the buffer, then a
    # FEW bytes of block 1 are overwritten (read-modify-write): every other byte of block 1 must survive; fault index swept
    for j, gname in enumerate(["f16_min", "f32_min"]):
        geo = fsgen.geometry(rng, None, [gname])
        img, meta = fsgen.build_image(rng, geo, populate=1, ensure_big=True)
        path, dev = env.new_image(img, "stalew%d" % j)
        meta = dict(meta); meta["dev0"] = dev
        hxn = fsgen.hx
        ops = ["openvol %d -> $v" % meta["slot"], "openroot $v -> $r", "open $r %s RWA -> $f" % hxn("BIGGER.BIN"), "seekstart $f 0", "read $f 512", "read $f 512",
               "seekstart $f 519", "write $f 4 9", "seekstart $f 3", "write $f 5 8", "seekstart $f 0", "read $f 1024", "close $f"]
        for fi in range(3, 16 if run.tier == "quick" else 40):
            env.add_script("stalew", path, (1, 4, 4), ops, 5000, [fi], meta, raii=False)
    env.run_all(writes=True)
    bad = 0
    for sc in env.scripts:
        if bad >= 2:
            break
        probs = per_op_image_checks(run, env, sc, {"c04"})
        # the neighbour partition must be byte-identical at the end
        if "second" in sc["meta"] and not probs:
            dev = final_image(sc)
            g2 = fatck.mount(sc["meta"]["dev0"], sc["meta"]["second"])
            tr = O.Trace(sc)
            touched_second = any(o[0] == "openvol" and int(o[1]) == sc["meta"]["second"] for o in tr.ops)
            if g2 and not touched_second:
                for i in range(g2.lba, g2.end):
                    if dev.get(i, fatck.ZERO) != sc["meta"]["dev0"].get(i, fatck.ZERO):
                        probs.append("block %d of the neighbour partition changed" % i); break
        if probs:
            bad += report_oracle(run, env, sc, probs, "a device write left the region the call may change", known=c04_known(sc))
    common_tail(run, env, run.coverage.get("theorems", []), oracle=lambda sc: per_op_image_checks(run, env, sc, {"c04"}),
                what="a device write left the region the call may change", known=lambda p: "partition-size" if p.endswith(": partition-size") else None)
    return finish(run, env, "C04", "every block write of every history on single- and multi-partition devices (canary neighbour), volumes with one free cluster, FAT sectors with and without slack; oracle = region/bounds classification of each write of the implementation's write log against the pre-write medium (partition bounds, boot/reserved sectors, FAT entries within the cluster range, FAT32 high nibble, info-sector fields, data area end)")

def check_C05(run, replay=None):
    env = F.Env(run, "C05.v")
    if not env.ok:
        return "other"
    if replay:
        return do_replay(run, env, replay)
    rng = V.SplitMix(run.seed)
    n = tier_n(run, 48, 700)
    prof = fsgen.profile(weights=dict(write=14, open=12, close=8, delete=8, mkdir=4, flush=2, read=1, seek=2, bad=1, remount=0), quiesce=True)
    F.std_scenarios(env, rng, n // 2, prof, nops=(20, 50))
    F.std_scenarios(env, rng, n // 4, prof, nops=(20, 50), img_kw=dict(free_left=3))
    # fill / delete / refill cycles on near-full volumes
    for j in range(n // 4):
        geo = fsgen.geometry(rng, None, ["f16_min", "f16_exact", "f16_slack", "f32_min", "f32_exact", "f16_spc8", "f32_root5", "f16_root500", "f16_root500", "f32_stale0", "f32_stalelow"])
        k = rng.below(5)
        img, meta = fsgen.build_image(rng, geo, populate=1, free_left=k)
        path, dev = env.new_image(img, "cyc%d" % j)
        meta = dict(meta); meta["dev0"] = dev; meta["free"] = k
        bpc = meta["spc"] * 512
        ops = ["openvol %d -> $v" % meta["slot"], "openroot $v -> $r"]
        cycles = 3 if run.tier == "quick" else 12
        for c in range(cycles):
            ops.append("open $r %s RWCT -> $f%d" % (fsgen.hx("FILL.DAT"), c))
            if j % 3 == 2:
                ops.append("write $f%d %d %d" % (c, bpc * (k + 2), c * 7))     # one write that overruns the volume
            for w in range(k + 2):
                ops.append("write $f%d %d %d" % (c, bpc, c * 7 + w))
            ops += ["close $f%d" % c, "delete $r %s" % fsgen.hx("FILL.DAT")]
        env.add_script("cyc%03d" % j, path, (1, 4, 4), ops, 5000, (), meta)
    rollback_scripts(env, rng, 6 if run.tier == "quick" else 24)
    # directed: files of length 0 that still own a cluster (truncated by an open, or only ever written with an empty
    # buffer) are deleted; pre-existing files are truncated then deleted; everything closed at the end
    for j, gname in enumerate(["f16_min", "f32_min", "f16_spc2"]):
        geo = fsgen.geometry(rng, None, [gname])
        img, meta = fsgen.build_image(rng, geo, populate=1, ensure_big=True)
        path, dev = env.new_image(img, "zerolen%d" % j)
        meta = dict(meta); meta["dev0"] = dev
        hxn = fsgen.hx
        ops = ["openvol %d -> $v" % meta["slot"], "openroot $v -> $r",
               "open $r %s RWC -> $a" % hxn("Z1.NEW"), "write $a 900 1", "close $a", "open $r %s RWT -> $b" % hxn("Z1.NEW"), "close $b", "delete $r %s" % hxn("Z1.NEW"),
               "open $r %s RWC -> $c" % hxn("Z2.NEW"), "write $c 0 2", "close $c", "delete $r %s" % hxn("Z2.NEW"),
               "open $r %s RWCT -> $d" % hxn("BIGGER.BIN"), "close $d", "delete $r %s" % hxn("BIGGER.BIN"),
               "open $r %s RWC -> $e" % hxn("Z3.NEW"), "write $e 600 3", "close $e", "open $r %s RWT -> $f" % hxn("Z3.NEW"), "write $f 0 4", "close $f", "delete $r %s" % hxn("Z3.NEW"),
               "iter $r", "closedir $r", "closevol $v"]
        env.add_script("zerolen%03d" % j, path, (1, 4, 4), ops, 5000, (), meta)
    env.run_all(writes=True)
    bad = 0
    for sc in env.scripts:
        if bad >= 2:
            break
        out = []
        tr = O.Trace(sc)
        if sc["name"].startswith("cyc"):
            g0 = fatck.mount(sc["meta"]["dev0"], sc["meta"]["slot"])
            k = g0.N - len(fatck.used_clusters(sc["meta"]["dev0"], g0)); bpc = sc["meta"]["spc"] * 512
            accepted = []
            last_len = {}
            for i, op in enumerate(tr.ops):
                if op[0] == "close" and op[1] in last_len:
                    accepted.append(last_len[op[1]])       # bytes the volume accepted for this file (partial writes included)
                for sl, stt in tr.st[i].items():
                    if stt[0] != "err":
                        last_len[sl] = int(stt[0])
            if accepted and any(a != accepted[0] for a in accepted):
                out.append("fill/delete/refill: accepted bytes per cycle %s are not constant" % accepted)
            if accepted and accepted[0] not in (k * bpc, max(k - 1, 0) * bpc):   # k-1: the directory itself had to grow by a cluster
                out.append("a volume with %d free clusters of %d bytes accepted %d bytes" % (k, bpc, accepted[0]))
        # used == reachable at the end (everything closed)
        dev = final_image(sc)
        g = fatck.mount(dev, sc["meta"]["slot"])
        if g and tr.res[len(tr.ops) - 1] is not None:
            probs, tree, owned = fatck.fsck(dev, g, read_data=False)
            used = fatck.used_clusters(dev, g)
            reach = set(owned.keys())
            if used != reach:
                lost = sorted(used - reach)[:5]; ghost = sorted(reach - used)[:5]
                out.append("with no file open, clusters in use %d != reachable %d (lost %s, referenced-but-free %s)" % (len(used), len(reach), lost, ghost))
        if out:
            bad += report_oracle(run, env, sc, out, "space accounting violated")
    common_tail(run, env, run.coverage.get("theorems", []))
    small = [sc for sc in env.scripts if sc["meta"].get("N", 0) <= 6000]
    coq_fsck(run, env, small if run.tier == "thorough" else small[:32], "space leaked or invented (in-use clusters differ from the chains of the tree and of open files)")
    return finish(run, env, "C05", "create/extend/truncate/delete/mkdir histories ending quiescent + fill/delete/refill cycles on volumes with 0-4 free clusters (FAT sectors exactly full and with slack); oracle = used-set == reachable-set on the implementation's final medium (independent checker) and bytes accepted per cycle == free clusters x cluster size, constant over cycles")

# ============================================================================ C06
def check_C06(run, replay=None):
    env = F.Env(run, "C06.v")
    if not env.ok:
        return "other"
    if replay:
        return do_replay(run, env, replay)
    rng = V.SplitMix(run.seed)
    n = tier_n(run, 64, 900)
    prof = fsgen.profile(weights=dict(iter=12, find=10, opendir=10, closedir=6, open=6, close=4, delete=6, mkdir=5, write=3, bad=3, read=0, seek=0, query=0, io=0))
    F.std_scenarios(env, rng, n // 2, prof, nops=(20, 50))
    F.std_scenarios(env, rng, n // 2, prof, nops=(20, 50), img_kw=dict(big_dir=True))
    F.std_scenarios(env, rng, max(n // 10, 4), prof, nops=(15, 35), want=["f32_root5"], img_kw=dict(free_left=12), per_image=2)
    ro = fsgen.profile(weights=dict(iter=14, find=10, opendir=10, closedir=6, open=3, close=2, delete=0, mkdir=0, write=0, bad=1, read=0, seek=0, query=0, io=0, remount=1, flush=0))
    F.std_scenarios(env, rng, max(n // 8, 6), ro, nops=(12, 30), want=["f32_root5", "f32_oor", "f16_spc8", "f16_spc2", "f16_spc128"], img_kw=dict(stale_tail=True), per_image=2)
    corpus(env, rng, {"e5-name", "lfn-match"})
    grow_scripts(env, rng, max(n // 10, 4), big=True)
    wrapper_scripts(env, rng, max(n // 4, 12), weights=dict(iterlfn=12, chdir=8, iter=6, find=5, opendir=5, delete=4, open=6, write=2, read=0, seek=0, wquery=1))
    special_name_scripts(env, rng, 4 if run.tier == "quick" else 16)
    # FAT16 roots whose entry count is not a multiple of 16, filled to the last slot (live entries in the partial block)
    for j, gname in enumerate(["f16_root500", "f16_spc2"] * (1 if run.tier == "quick" else 3)):
        geo = fsgen.geometry(rng, None, [gname])
        img, meta = fsgen.build_image(rng, geo, populate=1, full_root=True)
        path, dev = env.new_image(img, "fullroot%d" % j)
        meta = dict(meta); meta["dev0"] = dev
        last = geo[1]["root_entries"]
        hxn = fsgen.hx
        ops = ["openvol %d -> $v" % meta["slot"], "openroot $v -> $r", "iter $r", "iterlfn $r 40"]
        for nm in ["R%d.F" % i for i in (0, 1, last // 2)] + [os.path.basename(p_) for p_ in sorted(meta["files"]) if p_.count("/") == 1][-3:]:
            ops += ["find $r %s" % hxn(nm)]
        ops += ["delete $r %s" % hxn("R1.F"), "iter $r", "open $r %s RWC -> $n" % hxn("NEWLAST.F"), "close $n", "iter $r"]
        env.add_script("fullroot%03d" % j, path, (1, 4, 4), ops, 5000, (), meta)
    env.run_all(writes=True)
    bad = 0
    for sc in env.scripts:
        if bad >= 2:
            break
        out = c06_oracle(sc)
        def known(p):
            return "e5-name" if "0xE5" in p else None
        if out:
            bad += report_oracle(run, env, sc, out, "listing/lookup disagrees with the live entries on the medium", known)
    common_tail(run, env, run.coverage.get("theorems", []), oracle=c06_oracle, what="listing/lookup disagrees with the live entries on the medium",
                known=lambda p: "e5-name" if "0xE5" in p else None)
    return finish(run, env, "C06", "listing/lookup/open-dir on generated directories (live, deleted, LFN, label slots; 1-6 clusters, fragmented; FAT16 roots of 16/32/511/512 entries; FAT32 roots at cluster 2 and 5) before and after create/delete/mkdir; oracle = independent reader's live-entry list of the same directory on the implementation's medium at that moment")

_LFN_EXE = [None]
def lfn_spec_listing(nbytes, slots_hex):
    """[(name11 hex, long name hex or None, in the known class)] from the extracted LfnSpec.spec_listing (group lfn)"""
    if _LFN_EXE[0] is None:
        _LFN_EXE[0] = V.ocaml_build("lfn")
    p = subprocess.run([_LFN_EXE[0]], input="G %d %s\n" % (nbytes, " ".join(slots_hex)), stdout=subprocess.PIPE, text=True, timeout=120)
    res = []
    for l in p.stdout.split("\n"):
        t = l.split()
        if not t:
            continue
        if t[0] == "E":
            if t[3] == "nolfn":
                res.append((t[1], None, False))
            else:
                res.append((t[1], t[3][4:], len(t) > 4 and t[4] == "K"))
        elif t[0] == "END":
            return res if t[1] == "ok" else None
    return None

def dir_blocks_of(dev, g, cluster):
    if cluster in ("root", 0xFFFFFFFC):
        if g.fat32:
            return [b for c in fatck.chain(dev, g, g.root_cluster, [], "", "", {}) for b in fatck.cluster_blocks(g, c)]
        return [g.root_start + i for i in range(g.root_blocks)]
    return [b for c in fatck.chain(dev, g, cluster, [], "", "", {}) for b in fatck.cluster_blocks(g, c)]

def c06_oracle(sc):
    tr = O.Trace(sc)
    dev0 = sc["meta"]["dev0"]
    g = fatck.mount(dev0, sc["meta"]["slot"])
    out = []
    if g is None:
        return out
    dslot = {}   # slot -> cluster ('root' or number)
    vols = {}
    for k, dev in O.images(tr, dev0):
        r = tr.res[k]
        if r is None:
            break
        op = tr.ops[k]; bind = tr.binds[k]
        okk = r[0] == "ok"
        if op[0] == "openvol" and okk and bind:
            vols[bind] = int(op[1])
        elif op[0] == "openroot" and okk and bind and vols.get(op[1]) == sc["meta"]["slot"]:
            dslot[bind] = "root"
        elif op[0] in ("closedir", "dropdir") and okk:
            dslot.pop(op[1], None)
        elif op[0] == "remount":
            dslot.clear(); vols.clear()
        elif op[0] in ("iter", "find", "opendir", "chdir", "iterlfn") and op[1] in dslot:
            blocks = dir_blocks_of(dev, g, dslot[op[1]])
            live = [e for e in fatck.read_dir(dev, g, blocks, [], "") if not e.is_lfn]
            if op[0] == "iterlfn" and okk:
                # long names: the extracted Coq specification (LfnSpec.spec_listing) on the raw slots of this directory
                raw = b"".join(fatck.blk(dev, b) for b in blocks)
                slots_hex = [raw[i:i + 32].hex() for i in range(0, len(raw), 32)]
                want_names = lfn_spec_listing(int(op[2]), slots_hex)
                got_names = [(c[0], (c[9] if c[8] == "lfn" and len(c) > 9 else "") if c[8] == "lfn" else None) for c in tr.cb[k]]
                if want_names is not None:
                    if len(want_names) != len(got_names):
                        out.append("op %d: iterate_dir_lfn reported %d entries, the specification lists %d" % (k, len(got_names), len(want_names)))
                    else:
                        for i, ((gn, gl), (wn, wl, wk)) in enumerate(zip(got_names, want_names)):
                            if gn != wn or (gl != wl and not wk):
                                out.append("op %d: iterate_dir_lfn entry %d is (%s, %s), the specification gives (%s, %s)" % (k, i, gn, gl, wn, wl))
                                break
            if op[0] in ("iter", "iterlfn") and okk:
                got = [(c[0], int(c[1]), int(c[2]), int(c[3]), int(c[6]), int(c[7])) for c in tr.cb[k]]
                want = []
                for e in live:
                    cl = e.cluster
                    if cl == 0 and (e.attr & 0x10):
                        cl = 0xFFFFFFFC
                    want.append((e.name.hex(), e.attr, cl, e.size, e.block, e.offset))
                if got != want:
                    d = next((i for i, (a, b) in enumerate(zip(got, want)) if a != b), min(len(got), len(want)))
                    out.append("op %d: listing has %d entries, the directory holds %d live entries; first difference at position %d: got %s want %s"
                               % (k, len(got), len(want), d, got[d] if d < len(got) else None, want[d] if d < len(want) else None))
            elif op[0] in ("find", "opendir", "chdir"):
                nm = O.unhexname(op[2])
                s11 = O.sfn_parse(nm)
                if s11 is None:
                    continue
                if op[0] in ("opendir", "chdir") and s11 == b".".ljust(11):
                    if okk and bind:
                        dslot[bind] = dslot[op[1]]
                    continue
                # lookup succeeds exactly for names the listing contains: long-name fragments never match (D39)
                hit = next((e for e in live if e.name == s11), None)
                if tr.err(k) == "FilenameError":
                    out.append("op %d: %s(%r) was refused with FilenameError, but %r is a valid 8.3 name%s" % (k, op[0], nm, nm, " that the directory lists" if hit else ""))
                    continue
                if op[0] == "find":
                    if okk != (hit is not None) and tr.err(k) in (None, "NotFound"):
                        if hit is None and s11[0] == 0xE5:
                            out.append("op %d: name stored with first byte 0xE5 is found by lookup but hidden from the listing" % k)
                        else:
                            out.append("op %d: find(%r) returned %s but the directory %s such an entry" % (k, nm, r[:2], "holds" if hit else "does not hold"))
                else:
                    if okk:
                        if hit is None or not (hit.attr & 0x10):
                            out.append("op %d: open_dir(%r) succeeded but the listing has no such directory" % (k, nm))
                        elif bind:
                            dslot[bind] = "root" if hit.cluster == 0 else hit.cluster
                    elif tr.err(k) == "NotFound" and hit is not None:
                        out.append("op %d: open_dir(%r) says NotFound but the directory lists it" % (k, nm))
                    elif tr.err(k) == "OpenedFileAsDir" and (hit is None or (hit.attr & 0x10)):
                        out.append("op %d: open_dir(%r) says OpenedFileAsDir but the entry is %s" % (k, nm, "missing" if hit is None else "a directory"))
        if len(out) > 5:
            break
    return out

# ============================================================================ C07
def two_volume_scripts(env, rng, count):
    """directed: two volumes mounted at once, files open on both, then the open-twice / delete-while-open /
    read-only rules on a file that sits BEHIND a file of the other volume in the open-file table (and after a close
    has reordered the table)"""
    hx = fsgen.hx
    for j in range(count):
        geo = fsgen.geometry(rng, None, ["f16_min", "f16_spc2", "f32_min"])
        img, meta = fsgen.build_image(rng, geo, populate=1, second_partition=True)
        path, dev = env.new_image(img, "twovol%d" % j)
        meta = dict(meta); meta["dev0"] = dev
        a, b = meta["slot"], meta["second"]
        ops = ["openvol %d -> $va" % a, "openvol %d -> $vb" % b, "openroot $va -> $ra", "openroot $vb -> $rb",
               "open $rb %s RO -> $c1" % hx("CANARY.TXT"),                 # other volume first in the table
               "open $ra %s RWA -> $x" % hx("A.TXT"),                      # then the file under test
               "open $ra %s RO -> $x2" % hx("A.TXT"), "open $ra %s RWT -> $x3" % hx("A.TXT"), "delete $ra %s" % hx("A.TXT"),
               "open $ra %s RWC -> $y" % hx("NEW%d.Y" % j), "open $ra %s RWCA -> $y2" % hx("NEW%d.Y" % j), "delete $ra %s" % hx("NEW%d.Y" % j),
               "close $c1",                                                # swap_remove reorders the table
               "open $rb %s RO -> $c2" % hx("CANARY.TXT"),
               "open $ra %s RO -> $x4" % hx("A.TXT"), "delete $ra %s" % hx("A.TXT"),
               "open $rb %s RWA -> $c3" % hx("CANARY.TXT"), "delete $rb %s" % hx("CANARY.TXT"),
               "write $x 5 1", "close $x", "close $y", "close $c2", "delete $ra %s" % hx("NEW%d.Y" % j), "iter $ra", "iter $rb"]
        env.add_script("twovol%03d" % j, path, (3, 8, 8), ops, 5000, (), meta)

def label_fault_scripts(env, rng, count):
    """directed: get_root_volume_label on a volume whose boot-sector label is blank (so the root directory is scanned
    through an internally opened handle) with ONE device fault at each of the first device calls after the mount:
    afterwards nothing may be left open - the open-handle query, the directory limit and close_volume tell"""
    for j in range(count):
        geo = fsgen.geometry(rng, None, ["f16_min", "f32_min", "f16_spc2"])
        img, meta = fsgen.build_image(rng, geo, populate=1, blank_label=True, big_dir=(j % 2 == 1))
        path, dev = env.new_image(img, "labelf%d" % j)
        meta = dict(meta); meta["dev0"] = dev
        ops = ["openvol %d -> $v" % meta["slot"], "label $v", "hasopen", "label $v", "hasopen",
               "openroot $v -> $r1", "openroot $v -> $r2", "closedir $r1", "closedir $r2", "hasopen", "closevol $v", "hasopen"]
        env.add_script("labelf%03d" % j, path, (2, 2, 2), ops, 5000, (2 + j % 9,), meta)

def id_offset_scripts(env, rng, count):
    """directed: handle counters that start at 0 and just below 2^32 (the wrap is inside the script)"""
    hx = fsgen.hx
    offs = [0, 1, 4294967294, 4294967295, 4294967293]
    for j in range(count):
        geo = fsgen.geometry(rng, None, ["f16_min", "f32_min"])
        img, meta = fsgen.build_image(rng, geo, populate=1, second_partition=True)
        path, dev = env.new_image(img, "idoff%d" % j)
        meta = dict(meta); meta["dev0"] = dev
        a, b = meta["slot"], meta["second"]
        ops = ["openvol %d -> $va" % a, "openvol %d -> $vb" % b, "openroot $va -> $ra", "openroot $vb -> $rb", "opendir $ra %s -> $s" % hx("SUB"),
               "open $ra %s RO -> $f1" % hx("A.TXT"), "open $rb %s RO -> $f2" % hx("CANARY.TXT"), "hasopen",
               "closedir $s", "close $f1", "opendir $ra %s -> $s2" % hx("SUB"), "open $ra %s RO -> $f3" % hx("A.TXT"),
               "closedir $ra", "closedir $rb", "closedir $s2", "close $f2", "close $f3", "closevol $va", "closevol $vb", "hasopen"]
        env.add_script("idoff%03d" % j, path, (2, 4, 4), ops, offs[j % len(offs)], (), meta)

def check_C07(run, replay=None):
    env = F.Env(run, "C07.v")
    if not env.ok:
        return "other"
    if replay:
        return do_replay(run, env, replay)
    rng = V.SplitMix(run.seed)
    n = tier_n(run, 48, 600)
    # the full matrix, enumerated, after generated prefix histories
    for j in range(n):
        geo = fsgen.geometry(rng)
        img, meta = fsgen.build_image(rng, geo, populate=2)
        path, dev = env.new_image(img, "m%d" % j)
        meta = dict(meta); meta["dev0"] = dev
        lim = rng.choice([(1, 4, 4), (3, 8, 8), (1, 2, 8), (2, 5, 2)])
        prefix = fsgen.make_script(rng.fork(), meta, lim, fsgen.profile(weights=dict(bad=0, remount=0, closevol=0, io=0)), rng.below(12) + 2)
        ops = list(prefix)
        ops += ["remount 9000", "openvol %d -> $mv" % meta["slot"], "openroot $mv -> $mr"]
        names = ["A.TXT", "B.BIN", "MISSING.X", "SUB", "NEW%d.F" % j] + [rng.choice(fsgen.BAD_NAMES)]
        k = 0
        for nm in names:
            for md in fsgen.MODES:
                k += 1
                ops.append("open $mr %s %s -> $m%d" % (fsgen.hx(nm), md, k))
                if rng.chance(1, 2):
                    ops.append("write $m%d 10 %d" % (k, k))
                if rng.chance(1, 3):
                    ops.append("open $mr %s %s -> $mm%d" % (fsgen.hx(nm), rng.choice(fsgen.MODES), k))
                    ops.append("delete $mr %s" % fsgen.hx(nm))
                ops.append("close $m%d" % k)
        ops += ["delete $mr %s" % fsgen.hx("SUB"), "mkdir $mr %s" % fsgen.hx("A.TXT"), "mkdir $mr %s" % fsgen.hx("SUB"),
                "opendir $mr %s -> $mx" % fsgen.hx("A.TXT"), "delete $mr %s" % fsgen.hx("MISSING.X"), "delete $mr %s" % fsgen.hx("B.BIN")]
        env.add_script("mx%03d" % j, path, lim, ops, 5000, (), meta)
    corpus(env, rng, {"e5-name"})
    two_volume_scripts(env, rng, 4 if run.tier == "quick" else 24)
    # the same matrix with ONE transient device fault somewhere in it: a call that still answers Ok must obey the table
    # (a lookup that failed is not permission to create over an existing name)
    for sc in [x for x in env.scripts if x["name"].startswith("mx") and not x.get("raii")][: (12 if run.tier == "quick" else 120)]:
        for t in range(3):
            env.add_script(sc["name"].split("-")[0] + "f", sc["img"], sc["limits"], sc["ops"], sc["id_offset"], [20 + rng.below(700)], sc["meta"], raii=False)
    # directed: the mode matrix on names that sit in the LAST cluster of a multi-cluster sub-directory
    for j, gname in enumerate(["f16_min", "f16_spc2", "f32_min"]):
        geo = fsgen.geometry(rng, None, [gname])
        img, meta = fsgen.build_image(rng, geo, populate=2, big_dir=True)
        path, dev = env.new_image(img, "deepmx%d" % j)
        meta = dict(meta); meta["dev0"] = dev
        hxn = fsgen.hx
        lastn = "F%d.X" % (16 * meta["spc"] * 2 + 2)
        ops = ["openvol %d -> $v" % meta["slot"], "openroot $v -> $r", "opendir $r %s -> $s" % hxn("SUB")]
        k = 0
        for nm in (lastn, "F%d.X" % (16 * meta["spc"] * 2 - 1), "ABSENT.Q"):
            for md in fsgen.MODES:
                k += 1
                ops += ["open $s %s %s -> $m%d" % (hxn(nm), md, k), "close $m%d" % k]
        ops += ["mkdir $s %s" % hxn(lastn), "delete $s %s" % hxn(lastn), "delete $s %s" % hxn(lastn), "iter $s"]
        env.add_script("deepmx%03d" % j, path, (1, 4, 4), ops, 5000, (), meta)
    # directed: the creating modes on an EXISTING name (root and a multi-block sub-directory) with the fault at each
    # of the first device calls of the lookup
    for j, gname in enumerate(["f16_min", "f32_min"]):
        geo = fsgen.geometry(rng, None, [gname])
        img, meta = fsgen.build_image(rng, geo, populate=2, big_dir=True, blank_label=False)
        path, dev = env.new_image(img, "cf%d" % j)
        meta = dict(meta); meta["dev0"] = dev
        hx = fsgen.hx
        for md in ("RWC", "RWCT", "RWCA"):
            ops = ["openvol %d -> $v" % meta["slot"], "openroot $v -> $r", "open $r %s %s -> $a" % (hx("A.TXT"), md), "close $a",
                   "open $r %s %s -> $b" % (hx("A.TXT"), md), "close $b", "mkdir $r %s" % hx("A.TXT"), "iter $r"]
            for fi in range(2, 14 if run.tier == "quick" else 30):
                env.add_script("cfault", path, (1, 4, 4), ops, 5000, [fi], meta, raii=False)
    env.run_all(writes=True)
    bad = 0
    for sc in env.scripts:
        if bad >= 2:
            break
        out = c07_oracle(sc)
        if out:
            def known(p):
                return "e5-name" if ("('\u00e5" in p or "('å" in p) else None
            bad += report_oracle(run, env, sc, out, "open-mode / typing table violated", known)
    common_tail(run, env, run.coverage.get("theorems", []))
    return finish(run, env, "C07", "the full matrix six modes x {missing, file, read-only file, directory, already-open} x valid and invalid names enumerated after generated prefix histories; oracle = decision table from the Mode documentation evaluated with the independent reader's view of the directory; a refused call must issue no device write")

def c07_oracle(sc):
    tr = O.Trace(sc)
    dev0 = sc["meta"]["dev0"]
    g = fatck.mount(dev0, sc["meta"]["slot"])
    out = []
    if g is None:
        return out
    dslot, vols, fopen = {}, {}, {}    # fopen: slot -> (dircluster, name11, mode)
    lim = sc["limits"]
    cur = dict(dev0)
    for k in range(len(tr.ops)):
        pre = cur
        if tr.writes.get(k):
            cur = dict(cur)
            for idx, data in tr.writes[k]:
                cur[idx] = data
        r = tr.res[k]
        if r is None:
            break
        op = tr.ops[k]; bind = tr.binds[k]; okk = r[0] == "ok"; e = tr.err(k)
        if op[0] == "openvol" and okk and bind: vols[bind] = int(op[1])
        elif op[0] == "openroot" and okk and bind and vols.get(op[1]) == sc["meta"]["slot"]: dslot[bind] = "root"
        elif op[0] == "closedir" and okk: dslot.pop(op[1], None)
        elif op[0] == "opendir" and okk and bind and op[1] in dslot:
            # follow named sub-directories (the table must hold in multi-cluster directories too)
            s11d = O.sfn_parse(O.unhexname(op[2]))
            if s11d is not None and s11d[:2] not in (b". ", b".."):
                hd = next((x for x in fatck.read_dir(pre, g, dir_blocks_of(pre, g, dslot[op[1]]), [], "") if x.name == s11d and not x.is_lfn), None)
                if hd is not None and (hd.attr & 0x10):
                    dslot[bind] = "root" if hd.cluster == 0 else hd.cluster
        elif op[0] == "close":
            if okk or e not in ("LockError", "BadHandle"):
                fopen.pop(op[1], None)
        elif op[0] in ("open", "delete", "mkdir") and op[1] in dslot and tr.faulted(k) and not okk:
            pass    # a device call failed during the call and it reported an error: C11's business; a faulted call
                    # that answers Ok is judged by the table below like any other
        elif op[0] in ("open", "delete", "mkdir") and op[1] in dslot:
            # the directory as it was BEFORE this op: undo this op's writes
            nm = O.unhexname(op[2]); s11 = O.sfn_parse(nm)
            blocks = dir_blocks_of(pre, g, dslot[op[1]])
            ents = fatck.read_dir(pre, g, blocks, [], "")
            hit = next((x for x in ents if s11 is not None and x.name == s11), None)
            already = any(v[0] == dslot[op[1]] and v[1] == s11 for v in fopen.values())
            wrote = tr.nwrites(k) > 0
            if op[0] == "open":
                md = op[3]
                full = len(fopen) >= lim[2]
                if full:
                    exp = {"TooManyOpenFiles"}
                elif s11 is None:
                    exp = {"FilenameError"}
                elif s11[:2] in (b". ", b".."):
                    exp = {"OpenedDirAsFile"}
                elif hit is None:
                    exp = {"ok-create"} if md in ("RWC", "RWCT", "RWCA") else {"NotFound"}
                elif already:
                    exp = {"FileAlreadyOpen"}
                elif md == "RWC":
                    exp = {"FileAlreadyExists"}
                elif (hit.attr & 0x01) and md != "RO":
                    exp = {"ReadOnly"}
                elif hit.attr & 0x10:
                    exp = {"OpenedDirAsFile"}
                else:
                    exp = {"ok-open"}
                got = ("ok-create" if (hit is None) else "ok-open") if okk else e
                if okk and hit is None and "ok-create" in exp and e is None:
                    pass
                if got not in exp and not (e in ("NotEnoughSpace", "DiskFull", "DeviceError") and "ok-create" in exp):
                    out.append("op %d: open(%r, %s) with the name %s%s returned %s, documented outcome %s"
                               % (k, nm, md, "missing" if hit is None else ("a directory" if hit.attr & 0x10 else ("read-only" if hit.attr & 1 else "present")),
                                  " and already open" if already else "", got, sorted(exp)))
                if not okk and wrote and e not in ("NotEnoughSpace", "DiskFull"):
                    out.append("op %d: refused open(%r, %s) -> %s wrote to the medium" % (k, nm, md, e))
                if okk and bind and s11 is not None:
                    fopen[bind] = (dslot[op[1]], s11, md)
                    st = tr.st[k].get(bind)
                    if st and st[0] != "err":
                        ln, off = int(st[0]), int(st[1])
                        size0 = hit.size if hit is not None else 0
                        want = (0, 0) if (hit is None or md in ("RWT", "RWCT")) else ((size0, size0) if md in ("RWA", "RWCA") else (size0, 0))
                        if (ln, off) != want:
                            out.append("op %d: open(%r, %s) gives length/offset %s, documented %s" % (k, nm, md, (ln, off), want))
            elif op[0] == "delete":
                if s11 is None: exp = {"FilenameError"}
                elif hit is None: exp = {"NotFound"}
                elif hit.attr & 0x10: exp = {"DeleteDirAsFile"}
                elif already: exp = {"FileAlreadyOpen"}
                else: exp = {"ok"}
                got = "ok" if okk else e
                if got not in exp:
                    out.append("op %d: delete(%r) returned %s, documented outcome %s" % (k, nm, got, sorted(exp)))
                if not okk and wrote:
                    out.append("op %d: refused delete(%r) -> %s wrote to the medium" % (k, nm, e))
            elif op[0] == "mkdir":
                if s11 is None: exp = {"FilenameError"}
                elif s11[:2] in (b". ", b".."): exp = {"DirAlreadyExists"}
                elif hit is not None: exp = {"DirAlreadyExists"} if hit.attr & 0x10 else {"FileAlreadyExists"}
                else: exp = {"ok", "NotEnoughSpace", "TooManyOpenDirs"}
                got = "ok" if okk else e
                if got not in exp and e != "TooManyOpenDirs":
                    out.append("op %d: mkdir(%r) returned %s, documented outcome %s" % (k, nm, got, sorted(exp)))
                if not okk and wrote and e not in ("NotEnoughSpace",):
                    out.append("op %d: refused mkdir(%r) -> %s wrote to the medium" % (k, nm, e))
        elif op[0] == "write" and op[1] in fopen:
            if fopen[op[1]][2] == "RO":
                if e != "ReadOnly":
                    out.append("op %d: write on a read-only handle returned %s" % (k, r[:2]))
                if tr.nwrites(k):
                    out.append("op %d: refused write on a read-only handle wrote to the medium" % k)
        elif op[0] == "remount":
            dslot.clear(); vols.clear(); fopen.clear()
        if len(out) > 5:
            break
    return out

# ============================================================================ C08
def check_C08(run, replay=None):
    env = F.Env(run, "C08.v")
    if not env.ok:
        return "other"
    if replay:
        return do_replay(run, env, replay)
    rng = V.SplitMix(run.seed)
    n = tier_n(run, 96, 1500)
    prof = fsgen.profile(weights=dict(openvol=4, closevol=3, openroot=8, opendir=6, closedir=6, open=10, close=7, bad=14, hasopen=5, write=2, read=2,
                                      seek=1, query=2, flush=1, delete=1, mkdir=1, iter=3, label=2, remount=1, io=0))
    F.std_scenarios(env, rng, n, prof, nops=(30, 80), per_image=8, img_kw=dict(second_partition=True))
    corpus(env, rng, {"root-dir-stale-volume"})
    id_offset_scripts(env, rng, 5 if run.tier == "quick" else 20)
    two_volume_scripts(env, rng, 3 if run.tier == "quick" else 12)
    label_fault_scripts(env, rng, 9 if run.tier == "quick" else 27)
    wrapper_scripts(env, rng, max(n // 6, 8), weights=dict(dropfile=6, dropdir=6, dropvol=3, openvol=3, chdir=6, wquery=4, open=8, opendir=6, openroot=3, bad=5, iterlfn=2))
    env.run_all()
    bad = 0
    for sc in env.scripts:
        if bad >= 2:
            break
        out = c08_oracle(sc)
        def known(p):
            return "root-dir-stale-volume" if "open_root_dir accepted" in p else None
        if out:
            bad += report_oracle(run, env, sc, out, "handle / limit / lock discipline violated", known)
    common_tail(run, env, run.coverage.get("theorems", []))
    return finish(run, env, "C08", "open/close histories over 14 limit configurations (1..8 of each kind), stale handles after every close, raw never-issued handles, limit overruns, every result-returning method issued re-entrantly from inside a directory-iteration callback; oracle = handle bookkeeping (distinctness, BadHandle + no device traffic for stale handles, too-many errors, truthful open-handle query, LockError without effect)")

def c08_oracle(sc):
    """handle bookkeeping by handle VALUE (a raw `#n` token may name a live handle)"""
    tr = O.Trace(sc)
    out = []
    live = {"v": set(), "d": set(), "f": set()}    # handle values
    vol_idx = {}                                    # volume handle -> partition index
    lim = sc["limits"]
    dir_vol, file_vol = {}, {}                      # dir/file handle -> volume handle value it refers to
    for k, op in enumerate(tr.ops):
        r = tr.res[k]
        if r is None:
            break
        okk = r[0] == "ok"; e = tr.err(k); bind = tr.binds[k]
        allh = live["v"] | live["d"] | live["f"]
        kind = op[0]
        arg = tr.handle(op[1]) if len(op) > 1 and (op[1].startswith("$") or op[1].startswith("#")) else None
        newh = None
        if okk and len(r) > 2 and r[1] == "handle":
            newh = int(r[2])
            if newh in allh:
                out.append("op %d: returned handle %d is already open" % (k, newh))
            if bind:
                tr.slots[bind] = newh
        if kind == "openvol":
            idx = int(op[1])
            if okk:
                if len(live["v"]) >= lim[0]: out.append("op %d: volume opened beyond the limit %d" % (k, lim[0]))
                if idx in vol_idx.values(): out.append("op %d: partition %d opened twice" % (k, idx))
                live["v"].add(newh); vol_idx[newh] = idx
            elif len(live["v"]) >= lim[0] and e != "TooManyOpenVolumes":
                out.append("op %d: open_volume at the limit returned %s" % (k, e))
            elif len(live["v"]) < lim[0] and idx in vol_idx.values() and e != "VolumeAlreadyOpen":
                out.append("op %d: second open of partition %d returned %s" % (k, idx, e))
            elif e == "VolumeAlreadyOpen" and idx not in vol_idx.values():
                out.append("op %d: open_volume of partition %d, which is not open, returned VolumeAlreadyOpen" % (k, idx))
            elif e == "TooManyOpenVolumes" and len(live["v"]) < lim[0]:
                out.append("op %d: open_volume with %d of %d volumes open returned TooManyOpenVolumes" % (k, len(live["v"]), lim[0]))
        elif kind == "closevol":
            inuse = any(v == arg for v in dir_vol.values()) or any(v == arg for v in file_vol.values())
            if arg in live["v"]:
                if inuse and e != "VolumeStillInUse": out.append("op %d: close_volume while in use returned %s" % (k, r[:2]))
                if not inuse and not okk and not tr.faulted(k): out.append("op %d: close_volume of an idle volume returned %s" % (k, e))
                if okk: live["v"].discard(arg); vol_idx.pop(arg, None)
            elif not (e == "BadHandle" and not tr.dev[k]) and not (e == "VolumeStillInUse" and inuse):
                out.append("op %d: close_volume on a stale handle returned %s (device calls %d)" % (k, r[:2], len(tr.dev[k])))
        elif kind == "openroot":
            if okk:
                if len(live["d"]) >= lim[1]: out.append("op %d: directory opened beyond the limit %d" % (k, lim[1]))
                if arg not in live["v"]:
                    out.append("op %d: open_root_dir accepted a volume handle that is not open" % k)
                live["d"].add(newh); dir_vol[newh] = arg
            elif arg in live["v"] and len(live["d"]) >= lim[1] and e != "TooManyOpenDirs":
                out.append("op %d: open_root_dir at the limit returned %s" % (k, e))
            elif arg in live["v"] and len(live["d"]) < lim[1]:
                out.append("op %d: open_root_dir below the limit returned %s" % (k, e))
        elif kind == "opendir":
            if okk:
                if len(live["d"]) >= lim[1]: out.append("op %d: directory opened beyond the limit %d" % (k, lim[1]))
                live["d"].add(newh); dir_vol[newh] = dir_vol.get(arg)
            elif len(live["d"]) >= lim[1] and e != "TooManyOpenDirs":
                out.append("op %d: open_dir at the limit returned %s" % (k, e))
            elif arg not in live["d"] and len(live["d"]) < lim[1] and (e != "BadHandle" or tr.dev[k]):
                out.append("op %d: open_dir on a stale handle returned %s (device calls %d)" % (k, e, len(tr.dev[k])))
        elif kind == "closedir":
            if arg in live["d"]:
                if not okk: out.append("op %d: close_dir of an open directory returned %s" % (k, e))
                else: live["d"].discard(arg); dir_vol.pop(arg, None)
            elif e != "BadHandle":
                out.append("op %d: close_dir on a stale handle returned %s" % (k, r[:2]))
        elif kind == "dropdir":          # impl Drop for Directory: frees the slot, a stale handle has no effect
            if arg in live["d"]:
                live["d"].discard(arg); dir_vol.pop(arg, None)
            elif tr.dev[k]:
                out.append("op %d: dropping a Directory with a stale handle caused %d device calls" % (k, len(tr.dev[k])))
        elif kind == "dropfile":         # impl Drop for File
            if arg in live["f"]:
                live["f"].discard(arg); file_vol.pop(arg, None)
            elif tr.dev[k]:
                out.append("op %d: dropping a File with a stale handle caused %d device calls" % (k, len(tr.dev[k])))
        elif kind == "dropvol":          # impl Drop for Volume: closes iff nothing on the volume is open
            inuse = any(v == arg for v in dir_vol.values()) or any(v == arg for v in file_vol.values())
            if arg in live["v"] and not inuse and not tr.faulted(k):
                live["v"].discard(arg); vol_idx.pop(arg, None)
            elif arg not in live["v"] and tr.dev[k]:
                out.append("op %d: dropping a Volume with a stale handle caused %d device calls" % (k, len(tr.dev[k])))
        elif kind == "chdir":            # Directory::change_dir = open_dir + close_dir(old): the number of open directories is unchanged
            if okk:
                if len(live["d"]) >= lim[1]: out.append("op %d: change_dir succeeded with the directory table full (open_dir must come first)" % k)
                if arg not in live["d"]: out.append("op %d: change_dir succeeded on a stale handle" % k)
                live["d"].discard(arg); v0 = dir_vol.pop(arg, None)
                live["d"].add(newh); dir_vol[newh] = v0
            elif r[0] == "panic":
                out.append("op %d: change_dir panicked" % k)
            elif len(live["d"]) >= lim[1] and e != "TooManyOpenDirs":
                out.append("op %d: change_dir at the limit returned %s" % (k, e))
            elif arg not in live["d"] and len(live["d"]) < lim[1] and (e != "BadHandle" or tr.dev[k]):
                out.append("op %d: change_dir on a stale handle returned %s (device calls %d)" % (k, e, len(tr.dev[k])))
        elif kind in ("wlen", "woff", "weof"):
            if arg in live["f"] and r[0] == "panic":
                out.append("op %d: File::%s panicked on an open file" % (k, kind[1:]))
            elif arg not in live["f"] and r[0] != "panic":
                out.append("op %d: File::%s on a stale handle returned %s (the wrapper's expect should have fired)" % (k, kind[1:], r[:3]))
        elif kind == "open":
            if okk:
                if len(live["f"]) >= lim[2]: out.append("op %d: file opened beyond the limit %d" % (k, lim[2]))
                live["f"].add(newh); file_vol[newh] = dir_vol.get(arg)
            elif len(live["f"]) >= lim[2] and e != "TooManyOpenFiles":
                out.append("op %d: open_file at the limit returned %s" % (k, e))
            elif arg not in live["d"] and len(live["f"]) < lim[2] and (e != "BadHandle" or tr.dev[k]):
                out.append("op %d: open_file_in_dir on a stale directory handle returned %s (device calls %d)" % (k, e, len(tr.dev[k])))
        elif kind == "close":
            if arg in live["f"]:
                if okk or e not in ("LockError",):
                    live["f"].discard(arg); file_vol.pop(arg, None)
            elif e != "BadHandle" or tr.dev[k]:
                out.append("op %d: close_file on a stale handle returned %s" % (k, r[:2]))
        elif kind in ("flush", "read", "write", "len", "off", "eof", "seekstart", "seekend", "seekcur"):
            if arg not in live["f"] and (e != "BadHandle" or tr.dev[k]):
                out.append("op %d: %s on a stale file handle returned %s (device calls %d)" % (k, kind, r[:2], len(tr.dev[k])))
        elif kind in ("find", "delete", "mkdir", "iterlfn") or (kind == "iter" and len(op) == 2):
            if arg not in live["d"]:
                full = kind == "mkdir" and len(live["d"]) >= lim[1]
                if not full and (e != "BadHandle" or tr.dev[k]):
                    out.append("op %d: %s on a stale directory handle returned %s (device calls %d)" % (k, kind, r[:2], len(tr.dev[k])))
        elif kind == "label":
            if arg not in live["v"] and (e != "BadHandle" or tr.dev[k]):
                out.append("op %d: label on a stale volume handle returned %s" % (k, r[:2]))
        elif kind == "hasopen" and okk:
            want = 1 if (live["d"] or live["f"]) else 0
            if int(r[2]) != want:
                out.append("op %d: has_open_handles() = %s with %d directories and %d files open" % (k, r[2], len(live["d"]), len(live["f"])))
        elif kind == "remount":
            for t in live.values(): t.clear()
            vol_idx.clear(); dir_vol.clear(); file_vol.clear()
        if kind == "iter" and len(op) > 2 and okk and "inner" in r:
            i = r.index("inner")
            inner = r[i + 1:]
            inner_op = op[3:]
            if inner_op and inner_op[0] not in ("ioread", "iowrite", "hasopen", "ioseek"):
                if inner[:2] != ["err", "LockError"]:
                    out.append("op %d: %s issued from inside the iteration callback returned %s, expected LockError" % (k, " ".join(inner_op[:2]), inner[:3]))
        if len(out) > 5:
            break
    return out

# ============================================================================ C09 / C10 (crash points)
def prefix_images(tr, dev0):
    """yields (k, j, image) for every write j of op k (image after that write) - shared dict"""
    dev = dict(dev0)
    for k in range(len(tr.ops)):
        for j, (idx, data) in enumerate(tr.writes.get(k, [])):
            dev[idx] = data
            yield k, j, dev

def check_C09(run, replay=None):
    env = F.Env(run, "C09.v")
    if not env.ok:
        return "other"
    if replay:
        return do_replay(run, env, replay)
    rng = V.SplitMix(run.seed)
    n = tier_n(run, 40, 500)
    prof = fsgen.profile(weights=dict(write=12, open=12, close=8, flush=6, delete=5, mkdir=5, read=1, seek=2, bad=1, closevol=1, remount=0, io=0),
                         max_write=3000)
    F.std_scenarios(env, rng, n, prof, nops=(20, 45), want=["f16_min", "f16_exact", "f16_spc8", "f16_spc2", "f32_min", "f32_root5", "f16_slack"])
    # information sectors whose next-free hint names a cluster in use (what a power cut between an allocation and the next
    # information-sector write leaves), and managers dropped without closing (remount) in the middle of a history
    stale = fsgen.profile(weights=dict(write=12, open=12, close=8, flush=6, delete=4, mkdir=6, read=2, seek=2, bad=0, closevol=0, remount=2, io=0), max_write=3000)
    F.std_scenarios(env, rng, max(n // 4, 8), stale, nops=(20, 45), want=["f32_staleused", "f32_stalehigh", "f32_stalelow"], per_image=2)
    # volumes that fill up in the middle of a write (the call stores a prefix and fails; a later flush must still put
    # that prefix's length on the medium), and chains that cross a FAT-sector boundary
    F.std_scenarios(env, rng, max(n // 4, 8), fsgen.profile(weights=dict(write=16, open=10, close=8, flush=6, delete=2, mkdir=2, read=1, seek=1, bad=0, remount=0, io=0)),
                    nops=(14, 30), img_kw=dict(free_left=3), want=["f16_min", "f32_min", "f16_spc2", "f16_exact"], per_image=2)
    F.std_scenarios(env, rng, max(n // 5, 6), stale, nops=(14, 30), img_kw=dict(boundary=True), want=["f16_min", "f32_min"], per_image=2)
    # FAT32 volumes whose only free clusters are numbered above 65535 (both halves of the start cluster matter)
    hi = fsgen.profile(weights=dict(mkdir=10, opendir=8, open=12, write=10, close=8, flush=4, delete=3, read=1, seek=1, bad=0, remount=0, io=0), max_write=1500)
    F.std_scenarios(env, rng, max(n // 5, 6), hi, nops=(20, 40), want=["f32_root5"], img_kw=dict(free_left=12), per_image=3)
    # directed: a file in the SECOND cluster of a sub-directory is written and closed, then the directory grows again
    # (creates until a further cluster is taken): the flushed file must stay listed and readable through every write
    for j, gname in enumerate(["f16_min", "f16_spc2", "f32_min"]):
        geo = fsgen.geometry(rng, None, [gname])
        img, meta = fsgen.build_image(rng, geo, populate=1, big_dir=True)
        path, dev = env.new_image(img, "regrow%d" % j)
        meta = dict(meta); meta["dev0"] = dev
        hxn = fsgen.hx
        per = 16 * meta["spc"]
        keep = "F%d.X" % (per + 2)                      # its entry lies in the second cluster of SUB
        ops = ["openvol %d -> $v" % meta["slot"], "openroot $v -> $r", "opendir $r %s -> $s" % hxn("SUB"),
               "open $s %s RWA -> $k" % hxn(keep), "write $k 700 3", "close $k"]
        for i in range(per + 4):
            ops += ["open $s %s RWC -> $g%d" % (hxn("G%d.N" % i), i), "close $g%d" % i]
        ops += ["iter $s", "open $s %s RO -> $q" % hxn(keep), "read $q 2000", "close $q"]
        env.add_script("regrow%03d" % j, path, (1, 4, 4), ops, 5000, (), meta)
    env.run_all(writes=True)
    bad = 0
    npoints = 0
    for sc, (out, npts) in zip(env.scripts, par_oracle(env.scripts, c09_one)):
        npoints += npts
        if out and bad < 2:
            bad += report_oracle(run, env, sc, out, "flushed data lost by a later power cut")
    run.coverage["crash_points_checked"] = npoints
    common_tail(run, env, run.coverage.get("theorems", []))
    return finish(run, env, "C09", "every prefix of the implementation's block-write sequence after each successful flush/close, over histories of later creates/extends/truncates/deletes/mkdirs/volume close; oracle = independent reader looks the flushed file up on each prefix medium: size >= flushed length and identical leading bytes until the file itself is next modified")

def c09_one(sc):
    tr = O.Trace(sc)
    g = fatck.mount(sc["meta"]["dev0"], sc["meta"]["slot"])
    out, npoints = [], 0
    if g is None:
        return out, 0
    timeline = durable_timeline(O.Trace(sc), sc)
    for k, j, dev in prefix_images(tr, sc["meta"]["dev0"]):
        for path, (data, since) in timeline.get(k, {}).items():
            if since >= k:
                continue
            npoints += 1
            e = O.lookup(dev, g, path)
            if e is None or e.size < len(data) or (e.data or b"")[:len(data)] != data:
                out.append("power cut after write %d of op %d (%s): %s flushed at op %d with %d bytes now reads %s"
                           % (j, k, " ".join(tr.ops[k][:3]), path, since, len(data), "missing" if e is None else "%d bytes%s" % (e.size, "" if e.size < len(data) else " with different contents")))
                return out, npoints
    # ... and with no later write at all: the medium as the history leaves it (a flush that reported success but put
    # nothing on the medium shows here even when no later call writes, e.g. on a full volume)
    dev = final_image(sc)
    for path, (data, since) in timeline.get("final", {}).items():
        npoints += 1
        e = O.lookup(dev, g, path)
        if e is None or e.size < len(data) or (e.data or b"")[:len(data)] != data:
            out.append("at the end of the history (no power cut needed): %s flushed at op %d with %d bytes reads %s on the medium"
                       % (path, since, len(data), "missing" if e is None else "%d bytes%s" % (e.size, "" if e.size < len(data) else " with different contents")))
            return out, npoints
    return out, npoints

def durable_timeline(tr, sc):
    """{op k: {path: (bytes, since)}} = files whose flushed contents must survive a cut during op k
    (flushed before op k and not modified, truncated or deleted by op k itself)"""
    timeline = {}
    dev0 = sc["meta"]["dev0"]
    tr3 = O.Trace(sc)
    res_backup = list(tr3.res)
    before = {}
    for k in range(len(tr3.ops)):
        tr3.res = res_backup[:k + 1] + [None] * (len(res_backup) - k - 1)
        tr3.slots = {}
        _, spk = O.run_spec(tr3, dev0, sc["meta"]["slot"], checks=())
        if spk is None:
            break
        after = {p: v for p, v in spk.flushed.items() if p in spk.files}
        timeline[k] = {p: v for p, v in before.items() if p in after and after[p][0] == v[0]}
        before = after
    timeline["final"] = before      # flushed and unmodified when the history ends
    return timeline

def c10_one(sc):
    tr = O.Trace(sc)
    g = fatck.mount(sc["meta"]["dev0"], sc["meta"]["slot"])
    out, npoints = [], 0
    if g is None:
        return out, 0
    for k, j, dev in prefix_images(tr, sc["meta"]["dev0"]):
        npoints += 1
        probs = fatck.crash_ck(dev, g)
        if probs:
            out.append("power cut after write %d of op %d (%s): %s" % (j, k, " ".join(tr.ops[k][:3]), probs[0]))
            break
    return out, npoints

def _coq_crash_one(args):
    model, sc, tmp, maxpts = args
    out = dict(name=sc["name"], first=None, bad=None, n=0)
    try:
        tr = O.Trace(sc)
        slot = str(sc["meta"]["slot"])
        def ck(dev, tag):
            path = os.path.join(tmp, "%s.%s.crash.img" % (sc["name"], tag))
            with open(path, "w") as fh:
                for i in sorted(dev):
                    fh.write("%d %s\n" % (i, dev[i].hex()))
            rc, txt = V.sh([model, "crashck", path, slot], timeout=120)
            os.remove(path)
            return txt.strip().split()[-1] if txt.strip() else "error"
        out["first"] = ck(sc["meta"]["dev0"], "init")
        if out["first"] != "ok":
            return out
        pts = list((k, j) for k in range(len(tr.ops)) for j in range(len(tr.writes.get(k, []))))
        step = max(1, len(pts) // maxpts)
        want = set(pts[::step][:maxpts])
        for k, j, dev in prefix_images(tr, sc["meta"]["dev0"]):
            if (k, j) not in want:
                continue
            out["n"] += 1
            if ck(dev, "%d-%d" % (k, j)) == "bad":
                out["bad"] = (k, j)
                break
    except subprocess.TimeoutExpired:
        out["timeout"] = True
    except Exception as e:
        out["error"] = repr(e)
    return out

def coq_crashck(run, env, scripts, maxpts):
    """the extracted decider of the crash invariant (PrFsck2.crash_inv_fast, sound) on the IMPLEMENTATION's crashed media:
    the medium after a sample of the prefixes of its block-write log.  Images the decider rejects before the first
    write are outside the scope of C10_history (counted, not judged)."""
    from concurrent.futures import ThreadPoolExecutor
    todo = [sc for sc in scripts if not sc["faults"] and sc.get("impl")]
    with ThreadPoolExecutor(V.NPROC) as ex:
        res = list(ex.map(_coq_crash_one, [(env.model, sc, env.tmp, maxpts) for sc in todo]))
    stats = collections.Counter()
    bad = 0
    for sc, r in zip(todo, res):
        if r.get("timeout"):
            stats["decider_timeout"] += 1; continue
        if r.get("error"):
            stats["decider_error"] += 1; run.notes.append("coq crash decider failed on %s: %s" % (sc["name"], r["error"])); continue
        if r["first"] != "ok":
            stats["image_outside_scope_" + str(r["first"])] += 1; continue
        stats["in_scope"] += 1
        stats["crashed_media_decided"] += r["n"]
        if r["bad"] and bad < 2:
            bad += 1
            k, j = r["bad"]
            run.violation("a power cut leaves corruption, not just lost clusters: the extracted decider of crash_inv rejects the implementation's medium after write %d of op %d (%s)" % (j, k, sc["ops"][k] if k < len(sc["ops"]) else "?"),
                          env.replay_text(sc, "coq crash decider: bad after write %d of op %d" % (j, k)))
    run.coverage["coq_crash_decider"] = dict(stats)
    return bad

def check_C10(run, replay=None):
    env = F.Env(run, "C10.v")
    if not env.ok:
        return "other"
    if replay:
        return do_replay(run, env, replay)
    rng = V.SplitMix(run.seed)
    n = tier_n(run, 40, 500)
    prof = fsgen.profile(weights=dict(write=10, open=14, close=6, flush=4, delete=5, mkdir=8, read=0, seek=1, bad=1, closevol=1, remount=0, io=0, iter=0, find=0, query=0),
                         max_write=2500)
    F.std_scenarios(env, rng, n // 2, prof, nops=(15, 35), img_kw=dict(dirty_free=48), want=["f16_min", "f16_exact", "f16_spc2", "f32_min", "f32_root5", "f16_slack", "f32_staleused", "f16_root500"])
    F.std_scenarios(env, rng, n // 2, prof, nops=(15, 35), img_kw=dict(dirty_free=48, big_dir=True), want=["f16_min", "f16_spc2", "f32_min", "f32_root5"])
    # chains that cross a FAT-sector boundary while they grow (link and end mark in different FAT sectors)
    F.std_scenarios(env, rng, max(n // 4, 8), fsgen.profile(weights=dict(write=16, open=10, close=6, flush=3, mkdir=4, delete=3, seek=1, read=1, bad=0, remount=0, io=0), max_write=3000),
                    nops=(15, 30), img_kw=dict(boundary=True), want=["f16_min", "f32_min", "f16_spc2", "f32_staleused"], per_image=2)
    grow_scripts(env, rng, max(n // 5, 4), dirty=64)
    env.run_all(writes=True)
    bad = 0
    npoints = 0
    for sc, (out, npts) in zip(env.scripts, par_oracle(env.scripts, c10_one)):
        npoints += npts
        if out and bad < 2:
            bad += report_oracle(run, env, sc, out, "a power cut leaves corruption, not just lost clusters")
    run.coverage["crash_points_checked"] = npoints
    common_tail(run, env, run.coverage.get("theorems", []))
    small = [sc for sc in env.scripts if sc["meta"].get("N", 0) <= 6000]
    coq_crashck(run, env, small if run.tier == "thorough" else small[:24], 60 if run.tier == "thorough" else 16)
    return finish(run, env, "C10", "every prefix of the implementation's block-write sequence of every mutating operation, on volumes whose free clusters hold stale directory-looking contents; oracle = independent checker tolerant of lost clusters and stale sizes only (chains in range/acyclic/terminated/disjoint, sub-directory entries with their own cluster, no stale slot exposed, nothing after the end marker)")

# ============================================================================ C11 (faults)
def check_C11(run, replay=None):
    env = F.Env(run, "C11.v")
    if not env.ok:
        return "other"
    if replay:
        return do_replay(run, env, replay)
    rng = V.SplitMix(run.seed)
    n = tier_n(run, 24, 200)
    prof = fsgen.profile(weights=dict(write=8, open=10, close=5, flush=3, delete=4, mkdir=4, read=6, seek=2, iter=6, find=5, opendir=4, label=4, hasopen=2, bad=0, remount=0, io=0, closevol=1))
    F.std_scenarios(env, rng, n // 2, prof, nops=(12, 24), img_kw=dict(big_dir=True), want=["f16_min", "f16_spc2", "f32_min", "f32_root5", "f16_exact"], per_image=2)
    F.std_scenarios(env, rng, n - n // 2, prof, nops=(12, 24), img_kw=dict(big_dir=True, blank_label=True), want=["f16_min", "f16_spc2", "f32_min", "f32_root5"], per_image=2)
    # directed: the volume-label query has to walk the root directory when the boot-sector label is blank
    for j, gname in enumerate(["f16_min", "f32_min"]):
        geo = fsgen.geometry(rng, None, [gname])
        img, meta = fsgen.build_image(rng, geo, populate=1, blank_label=True, big_dir=False)
        path, dev = env.new_image(img, "label%d" % j)
        meta = dict(meta); meta["dev0"] = dev
        ops = ["openvol %d -> $v" % meta["slot"], "label $v", "hasopen", "label $v", "openroot $v -> $r", "iter $r", "closedir $r", "hasopen", "closevol $v", "hasopen"]
        env.add_script("label%d" % j, path, (1, 4, 4), ops, 5000, (), meta)
    # directed: lookups / creating opens / mkdir / listing in a sub-directory that spans several clusters (a FAT read
    # lies between two directory clusters), names in the LAST cluster and absent names; every fault index is enumerated
    for j, gname in enumerate(["f16_min", "f16_spc2", "f32_min"]):
        geo = fsgen.geometry(rng, None, [gname])
        img, meta = fsgen.build_image(rng, geo, populate=1, big_dir=True, blank_label=False)
        path, dev = env.new_image(img, "walk%d" % j)
        meta = dict(meta); meta["dev0"] = dev
        last = max((p_ for p_ in meta["files"] if p_.startswith("/SUB/F")), key=lambda p_: int(p_[6:].split(".")[0]))[5:]
        hx = fsgen.hx
        ops = ["openvol %d -> $v" % meta["slot"], "openroot $v -> $r", "opendir $r %s -> $s" % hx("SUB"),
               "find $s %s" % hx(last), "find $s %s" % hx("ABSENT.X"), "open $s %s RWCA -> $a" % hx(last), "close $a",
               "open $s %s RWCT -> $b" % hx(last), "close $b", "mkdir $s %s" % hx(last), "opendir $s %s -> $q" % hx("DEEP"), "iter $s"]
        env.add_script("walk%d" % j, path, (1, 4, 4), ops, 5000, (), meta)
    # directed: a chain that grows across a FAT-sector boundary (the scan for the next free cluster then reads a FAT
    # sector that is not in the cache); every fault index is enumerated
    for j, gname in enumerate(["f16_min", "f32_min"]):
        geo = fsgen.geometry(rng, None, [gname])
        img, meta = fsgen.build_image(rng, geo, populate=1, boundary=True, blank_label=False)
        path, dev = env.new_image(img, "walkfar%d" % j)
        meta = dict(meta); meta["dev0"] = dev
        hx = fsgen.hx; bpc = meta["spc"] * 512
        ops = ["openvol %d -> $v" % meta["slot"], "openroot $v -> $r", "open $r %s RWC -> $a" % hx("GROW.A"), "write $a %d 1" % bpc, "write $a %d 2" % bpc,
               "write $a %d 3" % bpc, "write $a %d 4" % (2 * bpc), "close $a", "mkdir $r %s" % hx("NEWD"), "open $r %s RWC -> $b" % hx("GROW.B"), "write $b %d 5" % bpc, "close $b"]
        env.add_script("walkfar%d" % j, path, (1, 4, 4), ops, 5000, (), meta)
    base = list(env.scripts)
    env.run_all(scripts=base)
    # a failure injected at every single device-call index (quick: strided), plus random multi-fault schedules
    extra = []
    for sc in base:
        ncalls = sum(1 for l in sc["impl"] if l.startswith("DEV "))
        idxs = list(range(ncalls)) if (run.tier == "thorough" or sc["name"].startswith(("label", "walk"))) else sorted({rng.below(max(ncalls, 1)) for _ in range(14)})
        for i in idxs:
            extra.append(env.add_script("%s-f%d" % (sc["name"], i), sc["img"], sc["limits"], sc["ops"], sc["id_offset"], [i], sc["meta"]))
        for m in range(2):
            fl = sorted({rng.below(max(ncalls, 1)) for _ in range(2 + rng.below(3))})
            extra.append(env.add_script("%s-m%d" % (sc["name"], m), sc["img"], sc["limits"], sc["ops"], sc["id_offset"], fl, sc["meta"]))
    env.run_all(writes=True, scripts=extra)
    bad = 0
    nf = 0
    for sc in extra:
        if bad >= 2:
            break
        tr = O.Trace(sc)
        out = []
        for k, op in enumerate(tr.ops):
            r = tr.res[k]
            if r is None:
                out.append("script stopped before op %d" % k); break
            if tr.faulted(k):
                nf += 1
                if r[0] == "ok":
                    out.append("op %d (%s): a device call failed during the call but it returned %s" % (k, " ".join(op[:3]), " ".join(r[:3])))
                elif r[0] == "panic":
                    out.append("op %d (%s): a device call failed and the call panicked" % (k, " ".join(op[:3])))
        if not out:
            # never wedged: the bookkeeping of handles must still be truthful after faulted calls
            out += [p for p in c08_oracle(sc) if "open_root_dir accepted" not in p]
        if not out:
            dev = final_image(sc)
            g = fatck.mount(dev, sc["meta"]["slot"])
            if g:
                probs, tree, owned = fatck.fsck(dev, g, read_data=False)
                dups = [p for p in probs if "duplicate name" in p]
                if dups:
                    out.append("after the faulted history: %s" % dups[0])
        if out:
            bad += report_oracle(run, env, sc, out, "device error swallowed / API wedged")
    run.coverage["fault_points_checked"] = nf
    base_strict = env.disagreements(scripts=base, strict=True)
    base_obs = env.disagreements(scripts=base, strict=False)
    if base_obs or not base_strict:
        # fault positions are device-call indices: comparable only if the fault-free traces agree call by call
        common_tail(run, env, run.coverage.get("theorems", []), strict=not base_obs and not base_strict, scripts=(base + extra if not base_strict else base))
    else:
        run.notes.append("read traffic of the fault-free runs differs from the model (results, writes and images agree): faulted runs are judged by the oracle only")
        run.coverage["disagreements"] = 0
    return finish(run, env, "C11", "for every history a failure injected at device-call indices (thorough: every index; quick: 14 random indices) with the read buffer scribbled, plus random multi-fault schedules, on FAT16 and FAT32 with multi-cluster directories; oracle = a call during which a device call failed returns an error (never ok, never panic), the script keeps running, no duplicate names on the final medium")

# ============================================================================ C16
def check_C16(run, replay=None):
    env = F.Env(run, "C16.v")
    if not env.ok:
        return "other"
    if replay:
        return do_replay(run, env, replay)
    rng = V.SplitMix(run.seed)
    n = tier_n(run, 60, 800)
    prof = fsgen.profile(weights=dict(write=14, open=12, close=7, flush=5, delete=7, mkdir=4, read=1, seek=2, bad=1, closevol=3, openvol=2, remount=1, io=0))
    F.std_scenarios(env, rng, n // 2, prof, nops=(20, 50), kind="fat32")
    F.std_scenarios(env, rng, n // 4, prof, nops=(20, 50), kind="fat32", img_kw=dict(free_left=2))
    F.std_scenarios(env, rng, n // 4, prof, nops=(20, 50), kind="fat16")
    # chains growing across a FAT-sector boundary (link in an even FAT sector, new end mark in the following odd one):
    # short writes, so that a chain ENDS right behind the boundary when a call returns
    F.std_scenarios(env, rng, max(n // 4, 10), fsgen.profile(weights=dict(write=16, open=10, close=6, flush=4, delete=2, mkdir=2, read=1, seek=1, bad=0, closevol=1, openvol=1, remount=0, io=0), max_write=1200),
                    nops=(14, 30), img_kw=dict(boundary=True), want=["f32_min", "f32_exact", "f32_staleused", "f16_min"], per_image=2)
    rollback_scripts(env, rng, 4 if run.tier == "quick" else 16, geos=("f32_min", "f32_exact"))
    # directed: every information-sector variant, allocate and free several clusters, flush and close the volume
    for j, gname in enumerate(["f32_min", "f32_stale0", "f32_stalehigh", "f32_oor", "f32_unkcount", "f32_root5", "f32_exact", "f32_stalelast"] * (1 if run.tier == "quick" else 4)):
        if gname == "f32_stalelast":
            # the hint names the last cluster of the volume and that cluster is marked bad: all free clusters lie BELOW the hint
            geo = ("f32_stalelast", dict(fat32=True, lba=1, spc=1, nclusters=65530, nfats=2, info="stalelast"))
        else:
            geo = fsgen.geometry(rng, None, [gname])
        img, meta = fsgen.build_image(rng, geo, populate=1, ensure_big=True)
        if gname == "f32_stalelast":
            meta["vol"].fat[meta["vol"].N + 1] = 0x0FFFFFF7
        path, dev = env.new_image(img, "info%d" % j)
        meta = dict(meta); meta["dev0"] = dev
        hx = fsgen.hx; bpc = meta["spc"] * 512
        ops = ["openvol %d -> $v" % meta["slot"], "openroot $v -> $r"]
        if gname == "f32_stalelast":
            # the FIRST allocation after the mount must already cope with the hint (nothing has lowered it yet)
            ops += ["open $r %s RWC -> $w" % hx("WRAP.NEW"), "write $w %d 4" % (bpc + 1), "close $w", "mkdir $r %s" % hx("WRAPD")]
        if j % 2:
            ops += ["open $r %s RWT -> $t" % hx("BIGGER.BIN"), "close $t"]
        ops += ["delete $r %s" % hx("BIGGER.BIN"),
               "open $r %s RWC -> $a" % hx("GROW.A"), "write $a %d 1" % (3 * bpc + 5), "flush $a", "close $a",
               "open $r %s RWT -> $b" % hx("GROW.A"), "close $b",
               "open $r %s RWCA -> $c" % hx("GROW.A"), "write $c %d 2" % (2 * bpc), "close $c",
               "delete $r %s" % hx("GROW.A"), "delete $r %s" % hx("A.TXT"),
               "open $r %s RWC -> $d" % hx("LAST.B"), "write $d %d 3" % bpc, "close $d",
               "closedir $r", "closevol $v"]
        env.add_script("info%03d" % j, path, (1, 4, 4), ops, 5000, (), meta)
        if gname == "f32_oor":
            # the recorded finding stale-hint-kept: overwrite in place (no allocation), flush
            img2, meta2 = fsgen.build_image(rng, geo, populate=1, ensure_big=True)
            path2, dev2 = env.new_image(img2, "infokeep%d" % j)
            meta2 = dict(meta2); meta2["dev0"] = dev2
            ops2 = ["openvol %d -> $v" % meta2["slot"], "openroot $v -> $r", "open $r %s RWA -> $t" % hx("BIGGER.BIN"),
                    "seekstart $t 3", "write $t 4 7", "flush $t", "close $t", "closedir $r", "closevol $v"]
            env.add_script("infokeep%03d" % j, path2, (1, 4, 4), ops2, 5000, (), meta2)
    # volumes with THREE FAT copies (BPB_NumFATs = 3 is valid for the FAT specification; the crate records a second FAT
    # only when the count is exactly 2): recorded finding `three-fats`
    for j, (fat32, nf) in enumerate(((False, 3), (True, 3), (False, 4))):
        geo = ("f%d_%dfats" % (32 if fat32 else 16, nf), dict(fat32=fat32, lba=1, spc=1, nclusters=65525 if fat32 else 4085, nfats=nf,
                                                             **(dict(info="ok") if fat32 else dict(root_entries=512))))
        img, meta = fsgen.build_image(rng, geo, populate=1)
        path, dev = env.new_image(img, "nfats%d" % j)
        meta = dict(meta); meta["dev0"] = dev
        hx = fsgen.hx
        ops = ["openvol %d -> $v" % meta["slot"], "openroot $v -> $r", "open $r %s RWC -> $n" % hx("NEW.BIN"), "write $n 3000 1", "close $n",
               "iter $r", "delete $r %s" % hx("NEW.BIN"), "closedir $r", "closevol $v"]
        env.add_script("nfats%03d" % j, path, (1, 4, 4), ops, 5000, (), meta, raii=False)
    env.run_all(writes=True)
    bad = 0
    for sc in env.scripts:
        if bad >= 2:
            break
        out = per_op_image_checks(run, env, sc, {"mirror"})
        tr = O.Trace(sc)
        dev0 = sc["meta"]["dev0"]
        g = fatck.mount(dev0, sc["meta"]["slot"])
        if g and g.nfats >= 3:
            out = [p_ + ": three-fats" for p_ in out if "differs from the first" in p_][:1] + [p_ for p_ in out if "differs from the first" not in p_]
        if g and g.fat32 and not out:
            cnt0, nxt0 = fatck.info_record(dev0, g)
            free0 = g.N - len(fatck.used_clusters(dev0, g))
            mounted = None     # free entries at the last mount
            mounted_cnt = None
            for k, dev in O.images(tr, dev0):
                r = tr.res[k]
                if r is None:
                    break
                op = tr.ops[k]
                if r[0] == "panic":
                    out.append("op %d (%s) panicked (information sector count %d hint %d)" % (k, " ".join(op[:3]), cnt0, nxt0)); break
                if r[0] == "err" and r[1] in ("DiskFull", "NotEnoughSpace") and op[0] in ("write", "iowrite", "mkdir"):
                    free_now = g.N - len(fatck.used_clusters(dev, g))
                    if free_now >= 2:
                        out.append("op %d (%s) failed with %s although %d FAT entries are free (information sector count %d hint %d at mount)" % (k, " ".join(op[:3]), r[1], free_now, cnt0, nxt0))
                if op[0] == "openvol" and r[0] == "ok" and int(op[1]) == sc["meta"]["slot"]:
                    c, _ = fatck.info_record(dev, g)
                    mounted = g.N - len(fatck.used_clusters(dev, g)); mounted_cnt = c
                if op[0] in ("flush", "close", "closevol") and r[0] == "ok" and mounted is not None and tr.writes.get(k):
                    c, nx = fatck.info_record(dev, g)
                    free_now = g.N - len(fatck.used_clusters(dev, g))
                    if mounted_cnt == 0xFFFFFFFF:
                        if c != 0xFFFFFFFF:
                            out.append("op %d: free count was unknown at mount but %d was stored" % (k, c))
                    else:
                        want = mounted_cnt + (free_now - mounted)
                        stale = mounted_cnt != mounted
                        # a count that was wrong at mount cannot always follow the delta exactly (it may pass through a
                        # value below 0 or above 2^32-2 on the way and then becomes unknown): exactness is required of a
                        # truthful count; a stale one may also stay as it was
                        if stale:
                            pass    # (once a wrong count has left the representable range it is unknown in memory and the medium keeps the last value written)
                        elif 0 <= want < 0xFFFFFFFF and c != want:
                            out.append("op %d (%s): stored free count %d, expected %d (mounted %d, free entries %d -> %d)" % (k, " ".join(op[:2]), c, want, mounted_cnt, mounted, free_now))
                        elif 0 <= want < 0xFFFFFFFF and c == 0xFFFFFFFF and mounted_cnt != 0xFFFFFFFF:
                            pass
                    if not (nx == 0xFFFFFFFF or 2 <= nx < g.N + 2):
                        if nx == nxt0:
                            # recorded finding: an out-of-range hint found at mount is ignored in memory (D40) but stays
                            # on the medium until the first allocation stores a new one
                            out.append("op %d: the next-free field still holds the out-of-range value %d found at mount: stale-hint-kept" % (k, nx))
                        else:
                            out.append("op %d: stored next-free hint %d is outside the volume (2..%d)" % (k, nx, g.N + 1))
                if len(out) > 4:
                    break
        if out:
            bad += report_oracle(run, env, sc, out, "FAT mirror / FAT32 free-space record violated",
                                 known=lambda p: "stale-hint-kept" if p.endswith(": stale-hint-kept") else ("three-fats" if p.endswith(": three-fats") else None))
    common_tail(run, env, run.coverage.get("theorems", []))
    return finish(run, env, "C16", "allocation/truncation/deletion histories on volumes with 1 and 2 FATs and information sectors starting correct, unknown, stale-zero, stale-high, out-of-range hint; oracle = byte equality of every FAT copy after each call that wrote, stored free count delta == free-entry delta since mount after flush/close/volume close, hint unknown or inside the volume, no panic")
