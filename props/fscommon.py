"""Shared machinery of the file-system property checks (C01-C11, C16): scenario generation,
running the extracted layer-B model and the real crate on the same scripts, trace diffing,
shrinking, coverage accounting."""
import os, sys, subprocess, hashlib, shutil, collections
from concurrent.futures import ThreadPoolExecutor
sys.path.insert(0, os.path.join(os.path.dirname(os.path.abspath(__file__)), "..", "gen"))
import vcommon as V
import fatimg, fsgen

GROUP = "fs"

class Env:
    def __init__(self, run, propfile, need_release=False):
        self.run = run
        self.tmp = os.path.join(V.BUILD, "tmp", "%s-%d" % (run.pid, os.getpid()))
        shutil.rmtree(self.tmp, ignore_errors=True)
        os.makedirs(self.tmp)
        import atexit
        atexit.register(shutil.rmtree, self.tmp, True)     # replays are copied to replays/; nothing else is kept
        self.gate = V.proof_gate(GROUP, propfile, force=False, chk=(run.tier == "thorough" and os.environ.get("VERIF_COQCHK", "1") == "1"))
        run.coverage.update(obligations=self.gate["obligations"], discharged=self.gate["discharged"],
                            checker_cmd="make -C coq/fs (coq_makefile, full .vo) ; coqc %s ; Print Assumptions" % propfile,
                            theorems=self.gate["theorems"], axioms=self.gate["axioms"], coqchk=self.gate.get("coqchk", "quick tier: not run"),
                            trusted_base=V.TRUSTED_BASE_COMMON + [
                                "modelled (hand-written Gallina transcription, coq/fs/Fs*.v): blockdevice.rs cache, fat/volume.rs, fat/bpb.rs, fat/info.rs, fat/ondiskdirentry.rs, filesystem/{files,directory,filename,timestamp,handles}.rs, volume_mgr.rs; coq/fs/FsExt.v: VolumeManager::iterate_dir_lfn (walk with raw slots feeding the closure of the lfn group's LfnModel), the RAII wrappers Volume / Directory / File of lib.rs, filesystem/directory.rs, filesystem/files.rs (forwarders = the raw operation; Drop = close with the result discarded; change_dir; the expect()ing queries); RefCell = boolean lock; heapless::Vec = list; TimeSource/BlockDevice = harness oracles (clock formula, fault schedule by device-call index, failed reads scribble 0xAA)",
                                "spec-side artefacts that are ours: gen/fatimg.py formatter, the deciders in coq/fs/Spec*.v"])
        for pb in self.gate["problems"]:
            run.violation("proof obligation: " + pb, "theorem/obligation no longer checks:\n" + pb, no_input=True)
        self.model = V.ocaml_build(GROUP)
        bins, out = V.cargo_build(["fsrun"], profile="dev")
        self.ok = bins is not None
        if not self.ok:
            run.violation("harness does not build against /repo", out[-3000:], no_input=True)
            return
        self.impl = bins["fsrun"]
        self.scripts = []
        self.stats = collections.Counter()
        self.errkinds = collections.Counter()
        self.opkinds = collections.Counter()
        self.geos = collections.Counter()

    # ---- scenario plumbing
    def new_image(self, img, tag):
        self.icounter = getattr(self, "icounter", 0) + 1
        path = os.path.join(self.tmp, "img-%s-%d.img" % (tag, self.icounter))
        dev = img.write(path)
        return path, dev

    RAII_EVERY = 3     # every third script also runs through the RAII wrappers (same ops, same model trace expected)

    def add_script(self, name, img_path, limits, ops, id_offset=5000, faults=(), meta=None, raii=None):
        """raii=None: the script runs through the raw API and, for every RAII_EVERY-th script, a twin is added that
        issues the same operations through the wrappers Volume / Directory / File (`# RAII` header; the model side
        is the same: a wrapper method IS the raw call it forwards to, FsExt.v); raii=True/False: exactly that."""
        self.counter = getattr(self, "counter", 0) + 1
        base = name
        name = "%s-%d%s" % (name, self.counter, "w" if raii else "")
        path = os.path.join(self.tmp, name + ".script")
        fsgen.write_script(path, img_path, limits, ops, id_offset, faults, raii=bool(raii))
        sc = dict(name=name, path=path, img=img_path, limits=limits, ops=ops, id_offset=id_offset, faults=list(faults), meta=meta, raii=bool(raii))
        self.scripts.append(sc)
        if raii is None and self.RAII_EVERY and self.counter % self.RAII_EVERY == 0:
            self.add_script(base, img_path, limits, ops, id_offset, faults, meta, raii=True)
        return sc

    def run_one(self, sc, writes=False, final=False):
        m = subprocess.run([self.model, "run", sc["path"]], stdout=subprocess.PIPE, text=True, timeout=600).stdout
        cmd = [self.impl, sc["path"]]
        if writes:
            sc["writes"] = sc["path"] + ".writes"
            cmd += ["--writes", sc["writes"]]
        if final:
            sc["final"] = sc["path"] + ".final"
            cmd += ["--final", sc["final"]]
        i = subprocess.run(cmd, stdout=subprocess.PIPE, text=True, timeout=600).stdout
        impl_lines = [l for l in i.split("\n") if l]
        # internal-state lines are compared only where the implementation's Debug text could be parsed
        unparsed = {l.split()[1] for l in impl_lines if l.startswith("INT ") and l.endswith(" unparsed")}
        have_int = any(l.startswith("INT ") for l in impl_lines)
        keep = lambda l: not l.startswith("INT ") or (have_int and l.split()[1] not in unparsed)
        sc["model"] = [l for l in m.split("\n") if l and keep(l)]
        sc["impl"] = [l for l in impl_lines if keep(l)]
        return sc

    def run_all(self, writes=False, final=False, scripts=None):
        scripts = scripts if scripts is not None else self.scripts
        with ThreadPoolExecutor(max_workers=V.NPROC) as ex:
            list(ex.map(lambda s: self.run_one(s, writes, final), scripts))
        for sc in scripts:
            self.account(sc)
        return scripts

    def account(self, sc):
        for l in sc["impl"]:
            if l.startswith("RES "):
                t = l.split()
                self.stats["ops"] += 1
                if t[2] == "err":
                    self.errkinds[t[3]] += 1
                elif t[2] == "panic":
                    self.errkinds["panic"] += 1
                else:
                    self.errkinds["ok"] += 1
            elif l.startswith("DEV "):
                self.stats["devcalls"] += 1
                if " W " in l:
                    self.stats["devwrites"] += 1
            elif l.startswith("CB "):
                self.stats["callbacks"] += 1
        for o in sc["ops"]:
            self.opkinds[o.split()[0]] += 1
        if sc.get("meta"):
            self.geos[sc["meta"].get("geo", "?")] += 1

    # ---- comparison
    @staticmethod
    def first_diff(a, b):
        for k, (x, y) in enumerate(zip(a, b)):
            if x != y:
                return k, x, y
        if len(a) != len(b):
            k = min(len(a), len(b))
            return k, (a[k] if k < len(a) else "<end>"), (b[k] if k < len(b) else "<end>")
        return None

    @staticmethod
    def observational(lines):
        """results + callbacks + file state + writes + final image; reads and cache hits ignored"""
        return [l for l in lines if not (l.startswith("DEV ") and (" R " in l or " RF " in l)) and not l.startswith("INT ")]

    def disagreements(self, scripts=None, strict=True):
        out = []
        for sc in (scripts if scripts is not None else self.scripts):
            d = self.first_diff(sc["model"], sc["impl"])
            if d is None:
                continue
            dobs = self.first_diff(self.observational(sc["model"]), self.observational(sc["impl"]))
            if dobs is None and not strict:
                self.stats["read_traffic_only_differences"] += 1
                continue
            out.append((sc, d, dobs))
        return out

    def shrink(self, sc, pred, budget=40):
        """delete ops from the end/middle while `pred(script)` still holds; returns the smallest found"""
        best = sc
        ops = list(sc["ops"])
        n = 0
        # truncate after the first differing op
        step = max(1, len(ops) // 2)
        while step >= 1 and n < budget:
            i = 0
            changed = False
            while i < len(ops) and n < budget:
                cand = ops[:i] + ops[i + step:]
                if not cand:
                    break
                c = self.add_script("%s-shr%d" % (sc["name"], n), sc["img"], sc["limits"], cand, sc["id_offset"], sc["faults"], sc.get("meta"), raii=bool(sc.get("raii")))
                self.scripts.pop()
                n += 1
                self.run_one(c)
                if pred(c):
                    ops = cand; best = c; changed = True
                else:
                    i += step
            if not changed:
                step //= 2
        return best

    def replay_text(self, sc, extra=""):
        """saves script + image next to the replay file (replays/<pid>/) so that the case can be re-run later"""
        d = os.path.join(V.REPLAYS, self.run.pid)
        os.makedirs(d, exist_ok=True)
        base = os.path.join(d, "%s-%s" % (self.run.tier, sc["name"]))
        shutil.copy(sc["img"], base + ".img")
        fsgen.write_script(base + ".script", base + ".img", sc["limits"], sc["ops"], sc["id_offset"], sc["faults"], raii=bool(sc.get("raii")))
        txt = ["replay: ./check %s --replay %s.script   (or: build/modelrun-fs run %s.script ; harness/target/debug/fsrun %s.script)" % (self.run.pid, base, base, base),
               "script:", open(base + ".script").read()]
        img_lines = sum(1 for _ in open(sc["img"]))
        txt.append("image: %s.img (%d non-zero blocks; generated with VERIF_SEED=%d)" % (base, img_lines, self.run.seed))
        if extra:
            txt.append(extra)
        return "\n".join(txt)

    def load_replay(self, path):
        """a saved .script (or a replay file naming one) -> scenario"""
        if not path.endswith(".script"):
            for l in open(path):
                if "--replay " in l and ".script" in l:
                    path = l.split("--replay ")[1].split()[0]
                    break
        lim, off, faults, img, ops = (1, 4, 4), 5000, [], None, []
        raii = False
        for l in open(path):
            t = l.split()
            if t[:2] == ["#", "RAII"]: raii = True
            if not t or t[0] == "#": continue
            if t[0] == "CFG": lim = (int(t[1]), int(t[2]), int(t[3])); off = int(t[4])
            elif t[0] == "FAULTS": faults = [int(x) for x in t[1:]]
            elif t[0] == "IMG": img = t[1]
            else: ops.append(l.strip().split(" ", 1)[1])
        dev = {int(l.split()[0]): bytes.fromhex(l.split()[1]) for l in open(img)}
        mbr = dev.get(0, bytes(512))
        slot = next((i for i in range(4) if mbr[446 + 16 * i + 4] != 0), 0)
        meta = dict(geo="replay", dev0=dev, slot=slot, spc=1)
        return self.add_script("replay", img, lim, ops, off, faults, meta, raii=raii)

    def report_disagreements(self, dis, theorems, what="layer-B model vs implementation"):
        for sc, d, dobs in dis[:2]:
            def pred(c):
                return self.first_diff(c["model"], c["impl"]) is not None
            small = self.shrink(sc, pred)
            dd = self.first_diff(small["model"], small["impl"])
            self.run.violation("correspondence broken (%s): first differing trace line %d" % (what, dd[0]),
                               self.replay_text(small, "correspondence: %s\nfirst difference at line %d\n  model: %s\n  impl : %s\ntheorems that depend on this correspondence: %s"
                                                % (what, dd[0], dd[1], dd[2], " ".join(theorems))), no_input=True)

    def fill_coverage(self, rule, extra=None):
        cov = self.run.coverage
        seen = set()
        nontrivial = 0
        for sc in self.scripts:
            h = hashlib.sha1(("\n".join(sc["ops"]) + sc["img"]).encode()).hexdigest()
            if h in seen:
                continue
            seen.add(h)
            if any(l.startswith("DEV ") and " W " in l for l in sc.get("impl", [])) and any(" ok " in l for l in sc.get("impl", []) if l.startswith("RES ")):
                nontrivial += 1
        cov.update(evaluations=len(self.scripts), distinct_nontrivial=nontrivial, rule=rule,
                   traces_validated_against_impl=len(self.scripts),
                   scripts_issued_through_raii_wrappers=sum(1 for sc in self.scripts if sc.get("raii")),
                   samples=[dict(script=sc["name"], geometry=(sc.get("meta") or {}).get("geo"), limits=sc["limits"], ops=sc["ops"][:12]) for sc in self.scripts[:3]],
                   input_distribution=dict(ops_total=self.stats["ops"], device_calls=self.stats["devcalls"], device_writes=self.stats["devwrites"],
                                           callbacks=self.stats["callbacks"], results=dict(self.errkinds), op_kinds=dict(self.opkinds), geometries=dict(self.geos),
                                           read_traffic_only_differences=self.stats["read_traffic_only_differences"]))
        if extra:
            cov.update(extra)

def std_scenarios(env, rng, n, prof, kind=None, nops=(20, 60), want=None, limits=None, img_kw=None, per_image=4, faults_fn=None):
    """n scripts over n/per_image images"""
    k = 0
    while k < n:
        geo = fsgen.geometry(rng, kind, want)
        kw = dict(img_kw or {})
        img, meta = fsgen.build_image(rng, geo, **kw)
        path, dev = env.new_image(img, "%d" % k)
        meta = dict(meta); meta["dev0"] = dev
        for j in range(per_image):
            if k >= n:
                break
            lim = limits or rng.choice(fsgen.LIMITS)
            ops = fsgen.make_script(rng.fork(), meta, lim, prof, nops[0] + rng.below(nops[1] - nops[0] + 1))
            env.add_script("s%04d" % k, path, lim, ops, 5000 + 1000 * rng.below(3), faults_fn(rng, ops) if faults_fn else (), meta)
            k += 1
