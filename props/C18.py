"""C18 - directory-entry, timestamp and 8.3-name codecs round-trip and match the FAT layout.
Proof: coq/codec (C18.v).  Tie: extracted model (CodecModel.v) vs the crate
(Timestamp::from_fat / serialize_to_fat / from_calendar, DirEntry::serialize through the
verif-hooks forwarder, OnDiskDirEntry::get_entry and accessors, ShortFileName::create_from_str /
Display / csum) on the same command lines; oracle: the extracted spec side (CodecSpec.v:
div/mod layout, calendar field ranges, 8.3 grammar) evaluated on the same inputs and compared
with the implementation's outputs."""
import os, subprocess, datetime
import vcommon as V

GROUP, PROPFILE = "codec", "C18.v"
THEOREMS_ON_TIE = "C18_entry_roundtrip C18_layout C18_time_dec_enc C18_time_enc_dec C18_sfn_accepts C18_sfn_bytes C18_sfn_print_parse"

ALPHABET = [97, 122, 65, 48, 46, 32, 34, 42, 43, 47, 58, 63, 91, 92, 124, 1, 31, 127, 128, 229, 255, 256, 0x1F600, 126]
MARKS = [34, 42, 43, 44, 47, 58, 59, 60, 61, 62, 63, 91, 92, 93, 124]


def run_cmds(exe, cmds):
    if not cmds:
        return []
    p = subprocess.run([exe], input="\n".join(cmds) + "\n", stdout=subprocess.PIPE, text=True, timeout=7200)
    return p.stdout.strip().split("\n") if p.stdout.strip() else []


def par(exe, cmdlists):
    from concurrent.futures import ThreadPoolExecutor
    with ThreadPoolExecutor(max_workers=V.NPROC) as ex:
        return list(ex.map(lambda c: run_cmds(exe, c), cmdlists))


def shard(xs, n=None):
    n = n or V.NPROC
    return [xs[k::n] for k in range(n)]


def unshard(shards_in, shards_out):
    """flatten outputs back into (cmd, out) pairs (one output line per command)"""
    res = []
    for ci, co in zip(shards_in, shards_out):
        co = list(co) + ["<missing>"] * (len(ci) - len(co))
        res += list(zip(ci, co))
    return res


def spec_cmd(c):
    return "S" + c


class Tie:
    """runs line commands on implementation, model and spec; collects verdicts"""

    def __init__(self, run, model, impl):
        self.run, self.model, self.impl = run, model, impl
        self.spec_bad, self.corr_bad = [], []
        self.n = 0

    def lines(self, cmds, what, with_spec=True):
        sh = shard(cmds)
        io = unshard(sh, par(self.impl, sh))
        mo = unshard(sh, par(self.model, sh))
        so = unshard(sh, par(self.model, [[spec_cmd(c) for c in s] for s in sh])) if with_spec else [(c, None) for c, _ in io]
        self.n += len(cmds)
        for (c, i), (_, m), (_, s) in zip(io, mo, so):
            if s is not None and i != s:
                self.spec_bad.append((what, c, i, s, m))
            elif i != m:
                self.corr_bad.append((what, c, i, m))

    def digests(self, cmds, what, with_spec, locate):
        """cmds: digest commands (one per shard element); locate(cmd, k) -> listing command for the k-th digest line"""
        sh = [[c] for c in cmds]
        io = par(self.impl, sh)
        mo = par(self.model, sh)
        so = par(self.model, [[spec_cmd(c)] for c in cmds]) if with_spec else [None] * len(cmds)
        for c, i, m, s in zip(cmds, io, mo, so):
            ref = s if s is not None else m
            if i == ref and i == m:
                continue
            # locate the first differing digest line, then list that chunk on all three
            k = next((k for k, (a, b) in enumerate(zip(i, ref)) if a != b), None)
            if k is None:
                k = next((k for k, (a, b) in enumerate(zip(i, m)) if a != b), 0)
            lc = locate(c, k, i[k] if k < len(i) else "")
            li = run_cmds(self.impl, [lc]); lm = run_cmds(self.model, [lc]); ls = run_cmds(self.model, [spec_cmd(lc)])
            found = False
            for a, b, d in zip(li, lm, ls):
                if a != d:
                    self.spec_bad.append((what, lc + "  # line: " + a.split(" ")[1], a, d, b)); found = True; break
                if a != b:
                    self.corr_bad.append((what, lc + "  # line: " + a.split(" ")[1], a, b)); found = True; break
            if not found:
                self.corr_bad.append((what, c, "digest line %d differs" % k, "but the listing agrees"))


def ts_csv(t):
    return ",".join(str(x) for x in t)


def gen_names(rng, n):
    """structured mostly-valid 8.3 names + mutations (the malformed stream)"""
    okc = [c for c in range(33, 256) if c not in MARKS and c != 46]
    out = []
    for _ in range(n):
        base = [rng.choice(okc) if rng.chance(1, 3) else rng.choice([65, 97, 122, 48, 57, 95, 126, 45, 229, 255, 127, 128, 160, 223, 224])
                for _ in range(rng.weighted([(1, 3), (2, 2), (5, 2), (7, 2), (8, 4), (9, 1)]))]
        s = list(base)
        if rng.chance(2, 3):
            s += [46] + [rng.choice(okc) if rng.chance(1, 3) else rng.choice([84, 120, 116, 48, 229, 255]) for _ in range(rng.weighted([(0, 2), (1, 2), (3, 5), (4, 1)]))]
        k = rng.below(10)
        if k == 0 and s:
            s[rng.below(len(s))] = rng.choice(MARKS + [32, 0, 9, 31])
        elif k == 1:
            s.insert(rng.below(len(s) + 1), 46)
        elif k == 2:
            s.insert(rng.below(len(s) + 1), rng.choice([256, 0x20AC, 0xD7FF, 0xE000, 0xFFFD, 0x10000, 0x1F600, 0x10FFFF]))
        elif k == 3:
            s = s + [rng.choice(okc) for _ in range(1 + rng.below(3))]
        s = s[:13]
        out.append(s)
    return out


def check(run, replay=None):
    thorough = run.tier == "thorough"
    gate = V.proof_gate(GROUP, PROPFILE, force=thorough)
    run.coverage.update(obligations=gate["obligations"], discharged=gate["discharged"],
                        checker_cmd="make -C coq/codec (coq_makefile, full .vo) ; coqc C18.v ; Print Assumptions",
                        trusted_base=V.TRUSTED_BASE_COMMON + [
                            "modelled: from_fat/serialize_to_fat/from_calendar (timestamp.rs), DirEntry::serialize/new (directory.rs), OnDiskDirEntry accessors/get_entry/is_end/is_valid/is_lfn/matches (ondiskdirentry.rs), create_from_str/Display/csum (filename.rs), Attributes::is_* - on N with explicit u8/u16/u32 truncation and Panic outcomes; strings are lists of code points; a [u8; 11] is a list with a length hypothesis",
                            "hook: DirEntry::verif_serialize (feature verif-hooks) forwards to the crate-private serialize; the runner reads name/attribute bytes of a DirEntry back through that forwarder and the cluster number through Debug"],
                        theorems=gate["theorems"], axioms=gate["axioms"])
    for pb in gate["problems"]:
        run.violation("proof obligation: " + pb, "theorem/obligation no longer checks:\n" + pb, no_input=True)
    model = V.ocaml_build(GROUP)
    bins, out = V.cargo_build(["codecrun"], profile="dev")
    binsr, outr = V.cargo_build(["codecrun"], profile="release")
    if bins is None or binsr is None:
        run.violation("harness does not build against " + V.REPO, (out if bins is None else outr)[-3000:], no_input=True)
        return "proof"
    impl, implr = bins["codecrun"], binsr["codecrun"]
    rng = V.SplitMix(run.seed)

    if replay:
        cmds = [l[5:].split("  #")[0].strip() for l in open(replay) if l.startswith("cmd: ")]
        nbad = 0
        for c in cmds:
            i, m, s = run_cmds(impl, [c]), run_cmds(model, [c]), run_cmds(model, [spec_cmd(c)])
            if i != s and nbad < 3:
                k = next((k for k, (a, b) in enumerate(zip(i, s)) if a != b), 0)
                run.violation("replayed input still violates the C18 spec", "cmd: %s\nimplementation: %s\nspec:           %s" % (c, i[k] if k < len(i) else "<missing>", s[k] if k < len(s) else "<missing>")); nbad += 1
            elif i != m and nbad < 3:
                run.violation("replayed input: model and implementation differ", "cmd: %s\nimplementation: %s\nmodel:          %s" % (c, i[:3], m[:3]), no_input=True); nbad += 1
        run.coverage.update(evaluations=max(len(cmds), 1), distinct_nontrivial=len(set(cmds)), rule="replay of recorded commands")
        return "proof"

    tie_dev = Tie(run, model, impl)      # overflow checks on: panics are outcomes
    tie_rel = Tie(run, model, implr)     # from_fat / the decode-encode sweep cannot panic
    dist = {}

    # ---------------- timestamps: decode-then-encode sweeps (digest per date row)
    def td_locate(cmd, k, digest_line):
        p = cmd.split(" ")
        date = (int(p[1]) + k * int(p[3])) & 0xFFFF
        return "TL %d 1 1 %s %s %s" % (date, p[4], p[5], p[6])
    sweeps = []
    t0, st = rng.below(65536), 2 * rng.below(512) + 1021
    sweeps += ["TD %d 4096 1 %d 64 %d" % (k * 4096, t0, st) for k in range(16)]                 # all dates x 64 times
    d0, sd = rng.below(65536), 2 * rng.below(512) + 1021
    sweeps += ["TD %d 4 %d 0 65536 1" % ((d0 + 4 * k * sd) & 0xFFFF, sd) for k in range(16)]    # 64 dates x all times
    tie_rel.digests(sweeps, "timestamp decode/encode sweep", True, td_locate)
    n_sweep = 2 * 65536 * 64
    dist["timestamp_sweep_quick_pairs"] = n_sweep
    exhaustive_time = False
    if thorough:
        # a larger direct sweep (extracted model evaluated on every pair): 2^16 dates x 1024 times + 1024 dates x 2^16 times
        t1, st1 = rng.below(65536), 2 * rng.below(16) + 33
        big = ["TD %d 1024 1 %d 1024 %d" % (k * 1024, t1, st1) for k in range(64)]
        d1, sd1 = rng.below(65536), 2 * rng.below(16) + 33
        big += ["TD %d 16 %d 0 65536 1" % ((d1 + 16 * k * sd1) & 0xFFFF, sd1) for k in range(64)]
        tie_rel.digests(big, "timestamp decode/encode sweep (2^27 pairs)", False, td_locate)
        n_sweep += 2 << 26
        dist["timestamp_sweep_direct_pairs"] = 2 << 26
        # all 2^32 pairs: implementation on every pair; model side from two 2^16 tables of the extracted
        # model, justified by the proved theorem C18_time_sweep_separable (driver command TX)
        full = ["TD %d 256 1 0 65536 1" % (k * 256) for k in range(256)]
        io = par(implr, [[c] for c in full])
        mo = par(model, [["TX %d 256" % (k * 256)] for k in range(256)])
        for c, i, m in zip(full, io, mo):
            if i != m:
                k = next((k for k, (a, b) in enumerate(zip(i, m)) if a != b), 0)
                lc = td_locate(c, k, "")
                li = run_cmds(implr, [lc]); lm = run_cmds(model, [lc]); ls = run_cmds(model, [spec_cmd(lc)])
                hit = next(((a, b, d) for a, b, d in zip(li, lm, ls) if a != b or a != d), None)
                if hit and hit[0] != hit[2]:
                    tie_rel.spec_bad.append(("timestamp decode/encode sweep (all 2^32)", lc + "  # line: " + hit[0].split(" ")[2], hit[0], hit[2], hit[1]))
                elif hit:
                    tie_rel.corr_bad.append(("timestamp decode/encode sweep (all 2^32)", lc, hit[0], hit[1]))
                else:
                    tie_rel.corr_bad.append(("timestamp sweep: table-driven model digest (TX) differs from the implementation", c, "digest line %d" % k, "listing agrees"))
        n_sweep += 1 << 32
        dist["timestamp_sweep_all_pairs_impl_vs_model_tables"] = 1 << 32
        exhaustive_time = True
    # boundary pairs, listed line by line (with the spec)
    bd = [0, 1, 31, 32, 33, 0x1FF, 0x200, 0x21, 0x3F, 0x1E0, 0x1FF, 0x1E1, 0xFE00, 0xFE21, 0xFF9F, 0xFFFF, 0x0020, 0x0001, 0x5821]
    bt = [0, 1, 31, 32, 0x7FF, 0x800, 0xBF7D, 0xF800, 0xFFFF, 0x07E0, 0x001F, 0xBF9D]
    tl = ["TL %d 1 1 %d 1 1" % (d, t) for d in bd for t in bt]
    tie_rel.lines(tl, "timestamp boundary pairs")
    dist["timestamp_boundary_pairs"] = len(tl)

    # ---------------- timestamps: encode arbitrary u8 fields (dev build: +1 overflow panics)
    prod = [(y, m, d, h, mi, s) for y in (0, 9, 10, 11, 137, 138, 255) for m in (0, 11, 12, 14, 15, 254, 255)
            for d in (0, 30, 31, 254, 255) for h in (0, 23, 24, 31, 32, 255) for mi in (0, 59, 60, 63, 64, 255)
            for s in (0, 1, 58, 59, 60, 62, 63, 64, 255)]
    te = prod if thorough else [rng.choice(prod) for _ in range(6000)]
    te += [tuple(rng.below(256) for _ in range(6)) for _ in range(50000 if thorough else 4000)]
    tie_dev.lines(["TE " + ts_csv(t) for t in te], "timestamp encode")
    dist["timestamp_encode_fields"] = len(te)

    # ---------------- calendar: from_calendar, encode, decode
    cprod = [(y, m, d, h, mi, s) for y in (0, 1969, 1970, 1979, 1980, 1981, 2000, 2107, 2108, 2225, 2226, 65535)
             for m in (0, 1, 2, 12, 13, 255) for d in (0, 1, 28, 29, 30, 31, 32, 255) for h in (0, 23, 24, 255)
             for mi in (0, 59, 60, 255) for s in (0, 1, 58, 59, 60, 255)]
    tc = cprod if thorough else [rng.choice(cprod) for _ in range(5000)]
    first = datetime.date(1980, 1, 1).toordinal(); ndays = datetime.date(2107, 12, 31).toordinal() - first + 1
    days = range(ndays) if thorough else sorted({rng.below(ndays) for _ in range(4000)} | {0, ndays - 1})
    cal = []
    for k in days:
        dte = datetime.date.fromordinal(first + k)
        for _ in range(2 if thorough else 1):
            cal.append((dte.year, dte.month, dte.day, rng.below(24), rng.below(60), rng.below(60)))
        if thorough:
            cal.append((dte.year, dte.month, dte.day, 23, 59, 59))
    tc_all = tc + cal
    tie_dev.lines(["TC " + ts_csv(t) for t in tc_all], "calendar")
    # python-side calendar oracle on the implementation's lines for genuine dates: Ok, and decode = input rounded to 2 s
    cal_lines = run_cmds(impl, ["TC " + ts_csv(t) for t in cal])
    cal_bad = []
    for t, l in zip(cal, cal_lines):
        want_in = "%d,%d,%d,%d,%d,%d" % (t[0] - 1970, t[1] - 1, t[2] - 1, t[3], t[4], t[5])
        want_out = "%d,%d,%d,%d,%d,%d" % (t[0] - 1970, t[1] - 1, t[2] - 1, t[3], t[4], t[5] - t[5] % 2)
        p = l.split(" ")
        if not (len(p) == 5 and p[1] == "Ok" and p[2] == want_in and p[4] == want_out):
            cal_bad.append((t, l))
    dist["calendar_boundary_product"] = len(tc); dist["calendar_genuine_dates_1980_2107"] = len(cal)

    # ---------------- directory entries: serialize, then get_entry of the bytes, flags, matches, csum
    names = ["48454c4c4f202020545854", "00454c4c4f202020545854", "e5454c4c4f202020545854", "05454c4c4f202020545854",
             "2e20202020202020202020", "2e2e202020202020202020", "ffffffffffffffffffffff", "4120202020202020202020",
             "68656c6c6f2020207478e9"]
    clusters = [0, 1, 2, 0xFFFF, 0x10000, 0x10002, 0x0FFFFFFF, 0x10000000, 0xFFFF0000, 0xFFFFFFFC, 0xFFFFFFFF]
    sizes = [0, 1, 0xFFFF, 0x10000, 0x01020304, 0xFFFFFFFF]
    stamps = [(10, 0, 0, 0, 0, 0), (137, 11, 30, 23, 59, 58), (137, 14, 30, 31, 63, 62), (30, 5, 14, 12, 30, 31), (9, 0, 0, 0, 0, 0),
              (138, 15, 31, 32, 64, 64), (40, 255, 0, 0, 0, 0), (40, 0, 255, 0, 0, 0), (255, 254, 254, 255, 255, 255)]
    attrs_q = [0, 1, 2, 4, 8, 0x0F, 0x10, 0x11, 0x1F, 0x20, 0x30, 0x3F, 0x40, 0x80, 0xEF, 0xFF]
    es = []
    def es_cmd(ft, nm, a, cl, sz, c, m):
        return "ES %d %s %d %d %d %s %s %d %d" % (ft, nm, a, cl, sz, ts_csv(c), ts_csv(m), rng.below(1 << 32), 32 * rng.below(16))
    if thorough:
        for ft in (16, 32):
            for a in range(256):
                for cl in clusters:
                    for sz in (0, 0xFFFFFFFF, 0x01020304):
                        es.append(es_cmd(ft, rng.choice(names), a, cl, sz, rng.choice(stamps[:4]), rng.choice(stamps[:4])))
    else:
        for ft in (16, 32):
            for a in range(256):
                es.append(es_cmd(ft, rng.choice(names), a, rng.choice(clusters), rng.choice(sizes), rng.choice(stamps[:4]), rng.choice(stamps[:4])))
    for _ in range(60000 if thorough else 6000):     # boundary-value product, sampled, incl. non-representable / panicking stamps
        es.append(es_cmd(rng.choice((16, 32)), rng.choice(names), rng.choice(attrs_q) if rng.chance(3, 4) else rng.below(256),
                         rng.choice(clusters), rng.choice(sizes), rng.choice(stamps), rng.choice(stamps)))
    for _ in range(40000 if thorough else 4000):     # random field values
        nm = bytes(rng.below(256) for _ in range(11)).hex()
        c = tuple(rng.below(256) if rng.chance(1, 8) else rng.below(v) for v in (138, 15, 31, 32, 64, 64))
        m = tuple(rng.below(256) if rng.chance(1, 8) else rng.below(v) for v in (138, 15, 31, 32, 64, 64))
        es.append(es_cmd(rng.choice((16, 32)), nm, rng.below(256), rng.below(1 << rng.choice((4, 16, 28, 32))), rng.below(1 << rng.choice((8, 16, 32))), c, m))
    tie_dev.lines(es, "directory entry serialize/parse")
    dist["entries_serialize_parse"] = len(es)

    # ---------------- raw slots: get_entry + accessors on byte strings of any length (malformed stream: short slices)
    ep = []
    for _ in range(30000 if thorough else 3000):
        b = bytearray(rng.below(256) for _ in range(32))
        if rng.chance(1, 2):
            b[11] = rng.choice(attrs_q)
        if rng.chance(1, 3):
            b[20:22] = b"\0\0"; b[26:28] = b"\0\0"
        if rng.chance(1, 4):
            b[0] = rng.choice([0, 0xE5, 0x2E, 0x05])
        ep.append("EP %d %s %d %d" % (rng.choice((16, 32)), bytes(b).hex(), rng.below(1 << 32), rng.below(512)))
    for ln in list(range(0, 41)) * (4 if thorough else 1):
        hx = bytes(rng.below(256) for _ in range(ln)).hex() or "-"
        ep.append("EP %d %s %d %d" % (rng.choice((16, 32)), hx, rng.below(1 << 32), rng.below(512)))
    tie_dev.lines(ep, "raw slot parse")
    dist["raw_slots"] = len(ep)

    # ---------------- names: every string of length <= 4 (5 in the thorough tier) over the 24-symbol class alphabet
    alpha = ",".join(str(c) for c in ALPHABET)
    A = len(ALPHABET)
    ne = []
    for ln in range(0, 6 if thorough else 5):
        tot = A ** ln
        per = max(4096, -(-tot // (V.NPROC * 4)) // 4096 * 4096 + 4096)
        for start in range(0, tot, per):
            ne.append("NE %s %d %d %d" % (alpha, ln, start, min(per, tot - start)))
    def ne_locate(cmd, k, digest_line):
        p = cmd.split(" ")
        return "NL %s %s %d %d" % (p[1], p[2], int(p[3]) + k * 4096, min(4096, int(p[4]) - k * 4096))
    tie_dev.digests(ne, "names over the class alphabet", True, ne_locate)
    n_enum = sum(A ** ln for ln in range(0, 6 if thorough else 5))
    dist["names_enumerated"] = n_enum
    rnames = gen_names(rng, 200000 if thorough else 20000)
    rnames += [[], [46], [46, 46], [46, 46, 46], [65, 46, 46, 66], [229, 66, 46, 84, 88, 84], [97] * 8 + [46] + [98] * 3, [97] * 9, [97, 46] + [98] * 4]
    tie_dev.lines(["N " + (",".join(str(c) for c in s) or "-") for s in rnames], "names (structured random)")
    dist["names_random"] = len(rnames)

    # ---------------- verdicts
    nv = 0
    spec_bad = tie_rel.spec_bad + tie_dev.spec_bad
    corr_bad = tie_rel.corr_bad + tie_dev.corr_bad
    for what, c, i, s, m in spec_bad[:3]:
        run.violation("implementation differs from the C18 spec (%s)" % what,
                      "cmd: %s\nimplementation: %s\nspec:           %s\nmodel:          %s\nreplay: echo '%s' | %s" % (c, i, s, m, c.split("  #")[0], impl)); nv += 1
    for t, l in cal_bad[:2]:
        if nv: break
        run.violation("calendar timestamp does not survive from_calendar/encode/decode up to 2 s rounding",
                      "cmd: TC %s\nimplementation: %s" % (ts_csv(t), l)); nv += 1
    if corr_bad and not nv:
        what, c, i, m = corr_bad[0]
        run.violation("model/implementation correspondence broken (CodecModel.v vs the crate, %s) although the spec agrees" % what,
                      "correspondence: codec model vs implementation\ncmd: %s\nimplementation: %s\nmodel:          %s\ntheorems depending on it: %s" % (c, i, m, THEOREMS_ON_TIE), no_input=True)
    evaluations = n_sweep + tie_rel.n + tie_dev.n + n_enum
    run.coverage.update(
        evaluations=evaluations,
        distinct_nontrivial=len(set(tl)) + len(set(te)) + len(set(tc_all)) + len(set(es)) + len(set(ep)) + n_enum + len({tuple(s) for s in rnames}) + (n_sweep if not thorough else 1 << 32),
        rule="timestamp pairs by index (%s) + boundary pairs; encode over the boundary product of the six u8 fields + random; calendar: boundary product + genuine dates 1980-01-01..2107-12-31 from python's datetime (%s); entries: all 256 attribute bytes x boundary clusters/sizes/names/stamps (%s) + random; raw slots of length 0..40; names: every string of length <= %d over a 24-symbol class alphabet + structured random strings up to length 13. distinct = distinct command lines / index values" % (
            "all 2^32 (date,time) pairs on the implementation against the model tabulated per field (theorem C18_time_sweep_separable) + 2^27 pairs evaluated directly on the extracted model" if thorough else "all 2^16 dates x 64 times + 64 dates x all 2^16 times",
            "every day, 3 times of day" if thorough else "a sample of 4000 days",
            "full product with 3 sizes" if thorough else "sampled", 5 if thorough else 4),
        exhaustive=bool(exhaustive_time),
        samples=sweeps[:2] + tl[:1] + ["TE " + ts_csv(te[0]), "TC " + ts_csv(cal[0]), es[0], ep[0], ne[-1][:60] + "...", "N " + ",".join(str(c) for c in rnames[0])],
        traces_validated_against_impl=evaluations,
        disagreements=len(spec_bad) + len(corr_bad) + len(cal_bad),
        input_distribution=dist)
    run.assumptions += ["bytes are modelled as N < 256, u16/u32 fields as N below the width; a [u8; 11] name is a list of length 11",
                        "the tie between CodecModel.v and the crate is differential testing (counts above); DirEntry::serialize is reached through the verif-hooks forwarder",
                        "Display is modelled without a width/fill argument (plain {} formatting)"]
    return "proof"
