"""C09 - see fsprops.py"""
from fsprops import check_C09 as check
