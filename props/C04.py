"""C04 - see fsprops.py"""
from fsprops import check_C04 as check
