"""C15 - mounting locates every valid FAT16/32 layout and rejects bad ones without panic.
Proof: coq/mount (C15.v).  Tie: the extracted model `mount` vs the crate's
`VolumeManager::open_raw_volume` (dev AND release builds) on devices given as sparse
blocks; valid inputs come from the extracted spec-side formatter `format g` for a table of
geometries (the SAME g gives the prescribed layout `layout g` = the oracle), a file is placed
by an independent python formatter and read back through the crate; invalid inputs are
boundary values of every MBR/BPB/FSInfo field, field pairs, byte mutations, structured random
and fully random sectors, out-of-range slots and device read errors.
Oracle: no panic on anything + the spec layout on valid geometries + file contents."""
import os, subprocess, zlib
import vcommon as V

GROUP, PROPFILE = "mount", "C15.v"
U32 = (1 << 32) - 1
GFIELDS = ["slot", "status", "ptype", "lba", "part_blocks", "total", "use16", "spc", "reserved", "nfats",
           "fat_size", "root_entries", "root_cluster", "fs_info", "backup_boot", "media", "hidden",
           "info_free", "info_next", "label"]
NOFIT = 'err FormatError "Volume does not fit the device"'
SHALLOW = ('err FormatError "Invalid MBR signature"', "err NoSuchVolume", 'err FormatError "Invalid partition status"',
           'err FormatError "Partition type not supported"')


def run_text(exe, text, timeout=3600):
    p = subprocess.run([exe], input=text, stdout=subprocess.PIPE, text=True, timeout=timeout)
    return p.stdout.split("\n")[:-1] if p.stdout else []


def par(exe, texts):
    from concurrent.futures import ThreadPoolExecutor
    with ThreadPoolExecutor(max_workers=V.NPROC) as ex:
        return list(ex.map(lambda t: run_text(exe, t), texts))


def gcmd(g):
    return "G " + " ".join(g[f].hex() if f == "label" else str(int(g[f])) for f in GFIELDS)


# ----------------------------------------------------------------------------- geometries
def rdb_of(root_entries):
    return (root_entries * 32 + 511) // 512


def mk_geom(rng, fat32, N, spc, nfats=2, reserved=None, root_entries=512, extra_fat=0, slack=0, use16=False,
            slot=0, lba=63, part_slack=0, ptype=None, status=0, info_free=U32, info_next=U32, root_cluster=2,
            fs_info=1, label=None):
    esz = 4 if fat32 else 2
    if reserved is None:
        reserved = 32 if fat32 else 1
    if fat32:
        root_entries = 0
    fat_size = ((N + 2) * esz + 511) // 512 + extra_fat
    first_data = reserved + nfats * fat_size + rdb_of(root_entries)
    total = first_data + N * spc + slack
    if label is None:
        label = bytes(rng.choice(b"ABCDEFGHIJKLMNOPQRSTUVWXYZ0123456789_- ") for _ in range(11))
    if ptype is None:
        ptype = rng.choice([0x0B, 0x0C] if fat32 else [0x04, 0x06, 0x0E])
    g = dict(slot=slot, status=status, ptype=ptype, lba=lba, part_blocks=total + part_slack, total=total,
             use16=1 if (use16 and not fat32 and total < 65536) else 0, spc=spc, reserved=reserved, nfats=nfats,
             fat_size=fat_size, root_entries=root_entries, root_cluster=root_cluster if fat32 else 0,
             fs_info=fs_info if fat32 else 0, backup_boot=rng.choice([0, 6]) if fat32 else 0, media=0xF8,
             hidden=lba, info_free=info_free if fat32 else 0, info_next=info_next if fat32 else 0, label=label)
    return g


def spec_numbers(g):
    first_data = g["reserved"] + g["nfats"] * g["fat_size"] + rdb_of(g["root_entries"])
    N = (g["total"] - first_data) // g["spc"] if g["spc"] and g["total"] >= first_data else 0
    return first_data, N


def valid_table(rng, thorough):
    gs = []
    SPCS = [1, 2, 4, 8, 16, 32, 64, 128]
    N16 = [4085, 4086, 65524, 65523, 20000]
    N32 = [65525, 65526, 70001]
    # every (kind, N, spc) with the other parameters drawn
    for fat32, Ns in ((False, N16), (True, N32)):
        for N in Ns:
            for spc in SPCS:
                reps = 2 if thorough else 1
                for _ in range(reps):
                    reserved = rng.choice([2, 32, 65535, 7]) if fat32 else rng.choice([1, 2, 8, 65535])
                    g = mk_geom(rng, fat32, N, spc, nfats=rng.choice([1, 2]), reserved=reserved,
                                root_entries=rng.choice([16, 511, 512, 1, 65535, 240]), extra_fat=rng.choice([0, 0, 1, 5]),
                                slack=rng.below(spc), use16=rng.chance(1, 2), slot=rng.below(4),
                                lba=rng.choice([1, 63, 2048, 1 << 20, 8192]), part_slack=rng.choice([0, 0, 1, 1000]),
                                status=rng.choice([0, 0x80]),
                                info_free=rng.choice([U32, 0, N - 3, N, U32 - 1, 12345]),
                                info_next=rng.choice([U32, 0, 1, 2, 3, N + 1, U32 - 1]),
                                root_cluster=rng.choice([2, 2, 3, N + 1, 2 + rng.below(N)]),
                                fs_info=1 + rng.below(reserved - 1) if fat32 else 0)
                    gs.append(("table", g))
    # the remaining axes crossed on small bases: slots x offsets, 1-2 FATs x root entries x 16/32-bit total
    for slot in range(4):
        for lba in (1, 63, 2048, 0x7FFFFFFF):
            for fat32 in (False, True):
                N = 65525 if fat32 else 4085
                g = mk_geom(rng, fat32, N, rng.choice([1, 2, 4]), slot=slot, lba=lba, part_slack=rng.choice([0, 7]),
                            status=rng.choice([0, 0x80]), ptype=rng.choice([4, 6, 14, 11, 12]))
                gs.append(("slots", g))
    # any FAT count is well formed (BPB_NumFATs is one byte, >= 1): three, four and 255 copies
    for nfats in (3, 4, 255, 7):
        for fat32 in (False, True):
            N = (65525 if fat32 else 4085) + rng.below(300)
            g = mk_geom(rng, fat32, N, rng.choice([1, 2, 8]), nfats=nfats, slot=rng.below(4), root_entries=rng.choice([16, 512, 240]))
            gs.append(("table", g))
    for nfats in (1, 2):
        for re_ in (16, 511, 512):
            for use16 in (False, True):
                for N in (4085, 65524):
                    g = mk_geom(rng, False, N, rng.choice([1, 2]) if use16 else rng.choice([1, 8, 64]), nfats=nfats,
                                root_entries=re_, use16=use16, slot=rng.below(4))
                    gs.append(("fat16axes", g))
    # FATs that are EXACTLY full: (N + 2) entries fill the last FAT sector completely (off-by-one territory of the
    # "FAT covers the clusters" check added with D37)
    for fat32, Ns in ((False, [4350, 4606, 65278]), (True, [65534, 65662, 131070])):
        for N in Ns:
            for nfats in (1, 2):
                gs.append(("fat_exact", mk_geom(rng, fat32, N, rng.choice([1, 2, 8]), nfats=nfats, slot=rng.below(4))))
    # partition ending just below / exactly at the end of the 32-bit block address space
    for fat32 in (False, True):
        for end in (U32, U32 + 1):
            N = 65530 if fat32 else 4090
            g = mk_geom(rng, fat32, N, 1, slot=rng.below(4))
            g["lba"] = end - g["part_blocks"]; g["hidden"] = g["lba"]
            gs.append(("edge_end_of_space" if end == U32 + 1 else "near_end_of_space", g))
    # large FAT32 volumes (sparse), up to the largest cluster count
    bigs = [(1 << 20, 8), (268435445, 1), (268435445 // 4, 8), (33554432 - 100, 64), ((U32 - 3000000) // 128 - 70000, 128)]
    for N, spc in bigs:
        g = mk_geom(rng, True, N, spc, lba=rng.choice([1, 63, 2048]), slot=rng.below(4), root_cluster=rng.choice([2, N + 1]),
                    info_free=N - 1, info_next=N + 1)
        if g["lba"] + g["part_blocks"] <= U32:
            gs.append(("big_fat32", g))
    # random geometries
    for _ in range(4000 if thorough else 120):
        fat32 = rng.chance(1, 2)
        spc = rng.choice(SPCS)
        if fat32:
            N = rng.choice([65525 + rng.below(3000), 65525 + rng.below(1 << 21)])
        else:
            N = 4085 + rng.below(65525 - 4085)
        reserved = 2 + rng.below(200) if fat32 else 1 + rng.below(64)
        g = mk_geom(rng, fat32, N, spc, nfats=1 + rng.below(2), reserved=reserved, root_entries=1 + rng.below(1024),
                    extra_fat=rng.below(4), slack=rng.below(spc), use16=rng.chance(1, 2), slot=rng.below(4),
                    lba=1 + rng.below(1 << 22), part_slack=rng.below(100), status=rng.choice([0, 0x80]),
                    ptype=rng.choice([4, 6, 14, 11, 12]), info_free=rng.choice([U32, rng.below(N + 1)]),
                    info_next=rng.choice([U32, rng.below(N + 2), 0, 1]), root_cluster=2 + rng.below(N),
                    fs_info=1 + rng.below(reserved - 1) if fat32 else 0,
                    label=bytes(rng.below(256) for _ in range(11)) if rng.chance(1, 2) else None)
        gs.append(("random_valid", g))
    return gs


def near_valid_table(rng):
    """geometries that are NOT well formed, given to the same formatter"""
    gs = []
    for spc in (1, 4, 128):
        gs.append(("fat12_4084", mk_geom(rng, False, 4084, spc, slot=rng.below(4))))
    base16 = lambda **kw: mk_geom(rng, False, 5000, 4, slot=rng.below(4), **kw)
    base32 = lambda **kw: mk_geom(rng, True, 70000, 2, slot=rng.below(4), **kw)
    for mk in (base16, base32):
        for f, vals in (("spc", [0, 3, 255, 129]), ("nfats", [0]), ("reserved", [0]), ("fat_size", [0, 1]),
                        ("total", [0, 1, 100]), ("ptype", [0, 1, 5, 7, 0x0F, 0x83, 0xEE, 255]), ("status", [1, 0x7F, 0x81, 0xFF]),
                        ("lba", [0]), ("slot", [4, 5, 255]), ("fs_info", [0, 40, 65535]), ("root_cluster", [0, 1, U32]),
                        ("part_blocks", [0, 1])):
            if mk is base16 and f in ("fs_info", "root_cluster"):
                continue   # not stored on FAT16
            for v in vals:
                g = mk(); g[f] = v
                gs.append(("bad_" + f, g))
    return gs


# ----------------------------------------------------------------------------- independent file placement
FILE_NAME = "TEST.BIN"


def file_block(seed, j):
    return bytes(((k * 31 + j * 17 + seed) & 0xFF) for k in range(512))


def place_file(g, blocks, rng):
    """FAT entries + root directory entry + data of one file of three clusters, computed from the
    geometry by the FAT specification's formulas; returns the expected READ line"""
    spc, lba, nf, fs = g["spc"], g["lba"], g["nfats"], g["fat_size"]
    first_data, N = spec_numbers(g)
    fat32 = N >= 65525
    esz = 4 if fat32 else 2

    def blk(i):
        if i not in blocks:
            blocks[i] = bytearray(512)
        return blocks[i]

    def set_fat(c, val):
        for k in range(nf):
            off = c * esz
            b = blk(lba + g["reserved"] + k * fs + off // 512)
            b[off % 512: off % 512 + esz] = val.to_bytes(esz, "little")
    eoc = 0x0FFFFFFF if fat32 else 0xFFFF
    set_fat(0, (0x0FFFFF00 if fat32 else 0xFF00) | g["media"])
    set_fat(1, eoc)
    rc = g["root_cluster"] if fat32 else None
    cands = [c for c in (N + 1, 2, 3, 2 + N // 2, N, 4) if c != rc]
    chain = [cands[0], cands[1 + rng.below(2)], cands[3 + rng.below(2)]]
    assert len(set(chain)) == 3
    for a, b in zip(chain, chain[1:] + [eoc]):
        set_fat(a, b)
    if fat32:
        set_fat(rc, eoc)
        dirblk = lba + first_data + (rc - 2) * spc
    else:
        dirblk = lba + g["reserved"] + nf * fs
    size = 2 * spc * 512 + 1 + rng.below(spc * 512)
    seed = rng.below(256)
    data = bytearray()
    nblocks = (size + 511) // 512
    for j in range(nblocks):
        c = chain[j // spc]
        d = file_block(seed, j)
        blk(lba + first_data + (c - 2) * spc + (j % spc))[:] = d
        data += d
    data = bytes(data[:size])
    d = blk(dirblk)
    d[0:32] = b"VERIFLABEL " + bytes([0x08]) + bytes(20)
    ent = bytearray(32)
    ent[0:11] = b"TEST    BIN"; ent[11] = 0x20
    ent[20:22] = (chain[0] >> 16).to_bytes(2, "little"); ent[26:28] = (chain[0] & 0xFFFF).to_bytes(2, "little")
    ent[28:32] = size.to_bytes(4, "little")
    d[32:64] = ent
    return "file len=%d read=%d crc=%08x" % (size, size, zlib.crc32(data) & 0xFFFFFFFF)


# ----------------------------------------------------------------------------- malformed inputs
BPB_FIELDS = [(11, 2), (13, 1), (14, 2), (16, 1), (17, 2), (19, 2), (21, 1), (22, 2), (24, 2), (26, 2), (28, 4), (32, 4),
              (36, 4), (40, 2), (42, 2), (44, 4), (48, 2), (50, 2), (510, 2)]
INFO_FIELDS = [(0, 4), (484, 4), (488, 4), (492, 4), (508, 4)]


def mbr_fields(slot):
    p = 446 + 16 * (slot & 3)
    return [(p, 1), (p + 4, 1), (p + 8, 4), (p + 12, 4), (510, 2)]


def boundary_values(w, rng):
    mx = (1 << (8 * w)) - 1
    return [0, 1, mx, mx - 1, 2, 1 << (8 * w - 1), rng.below(mx + 1)]


def put(b, off, w, v):
    b[off:off + w] = (v & ((1 << (8 * w)) - 1)).to_bytes(w, "little")


class Case:
    __slots__ = ("cls", "blocks", "slot", "limit", "expect", "read_expect", "descr", "g", "known_limit")

    def __init__(self, cls, blocks, slot, descr, limit=None, expect=None, read_expect=None, g=None):
        self.cls, self.blocks, self.slot, self.descr = cls, blocks, slot, descr
        self.limit, self.expect, self.read_expect, self.g = limit, expect, read_expect, g
        self.known_limit = False

    def cmds(self, with_read):
        out = ["RESET"]
        for i in sorted(self.blocks):
            out.append("B %d %s" % (i, bytes(self.blocks[i]).hex()))
        if self.limit is not None:
            out.append("LIMIT %d" % self.limit)
        out.append("MOUNT %d" % self.slot)
        if with_read and self.read_expect is not None:
            out.append("READ %d %s" % (self.slot, FILE_NAME))
        return out

    def key(self):
        import hashlib
        h = hashlib.sha1()
        for i in sorted(self.blocks):
            h.update(b"%d:" % i); h.update(bytes(self.blocks[i]))
        h.update(b"|%d|%r" % (self.slot, self.limit))
        return h.digest()

    def replay(self):
        return "\n".join(self.cmds(True))


def copy_blocks(bl):
    return {i: bytearray(b) for i, b in bl.items()}


def malformed_cases(rng, bases, thorough):
    """bases: list of (g, blocks{idx: bytearray}) of valid formatted devices (no file)"""
    cases = []
    scale = 20 if thorough else 1

    def sectors(g):
        first_data, N = spec_numbers(g)
        s = [("mbr", 0, mbr_fields(g["slot"])), ("bpb", g["lba"], BPB_FIELDS)]
        if N >= 65525:
            s.append(("info", g["lba"] + g["fs_info"], INFO_FIELDS))
        return s
    # (i) every field at each boundary value, on every base
    for g, bl in bases:
        for nm, idx, fields in sectors(g):
            for off, w in fields:
                for v in boundary_values(w, rng):
                    b = copy_blocks(bl); put(b[idx], off, w, v)
                    cases.append(Case("field_boundary", b, g["slot"], "%s@%d+%d := %d" % (nm, off, w, v)))
    # (ii) pairs of fields at boundary values (this is where products and sums overflow)
    for _ in range(2500 * scale):
        g, bl = rng.choice(bases)
        b = copy_blocks(bl); d = []
        for _k in range(2 + rng.below(2)):
            nm, idx, fields = rng.choice(sectors(g))
            off, w = rng.choice(fields)
            v = rng.choice(boundary_values(w, rng)); put(b[idx], off, w, v); d.append("%s@%d:=%d" % (nm, off, v))
        cases.append(Case("field_pairs", b, g["slot"], " ".join(d)))
    # (iii) arithmetic corner cases aimed at each operation of parse_volume / create_from_bytes
    for _ in range(1500 * scale):
        g, bl = rng.choice(bases)
        b = copy_blocks(bl); boot = b[g["lba"]]; d = []
        for _k in range(1 + rng.below(4)):
            what = rng.below(9)
            if what == 0:
                nf = rng.choice([2, 3, 255, 128, 16]); put(boot, 16, 1, nf)
                fsz = rng.choice([U32 // nf, U32 // nf + 1, U32 // nf - 1, (U32 - 65535) // nf, U32]); put(boot, 22, 2, 0); put(boot, 36, 4, fsz)
                d.append("nfats=%d fat_size32=%d" % (nf, fsz))
            elif what == 1:
                t = rng.choice([U32, U32 - 1, U32 - g["lba"], U32 - g["lba"] + 1, 1 << 31]); put(boot, 19, 2, 0); put(boot, 32, 4, t); d.append("total32=%d" % t)
            elif what == 2:
                v = rng.choice([65535, 65534, 32768]); put(boot, 14, 2, v); d.append("reserved=%d" % v)
            elif what == 3:
                v = rng.choice([65535, 65521, 16, 0]); put(boot, 17, 2, v); d.append("root_entries=%d" % v)
            elif what == 4:
                v = rng.choice([65535, 0, g["total"] & 0xFFFF, (g["total"] - 1) & 0xFFFF]); put(boot, 48, 2, v); d.append("fs_info=%d" % v)
            elif what == 5:
                v = rng.choice([0, 1, 255, 3]); put(boot, 13, 1, v); d.append("spc=%d" % v)
            elif what == 6:
                lba = rng.choice([U32, U32 - 1, U32 - g["total"], U32 - g["total"] + 1, U32 - 65535, 0])
                p = 446 + 16 * g["slot"]; put(b[0], p + 8, 4, lba)
                if lba != g["lba"] and lba not in b:
                    b[lba] = bytearray(boot)
                    if g["lba"] + g["fs_info"] in b and g["fs_info"] and lba + g["fs_info"] <= U32:
                        b[lba + g["fs_info"]] = bytearray(b[g["lba"] + g["fs_info"]])
                    boot = b[lba]
                d.append("lba=%d" % lba)
            elif what == 7:
                v = rng.choice([0, 513, 1024, 4096, 511, 65535]); put(boot, 11, 2, v); d.append("bytes_per_block=%d" % v)
            else:
                v = rng.choice([65535, 1, U32 & 0xFFFF]); put(boot, 22, 2, v); d.append("fat_size16=%d" % v)
        cases.append(Case("arith_corners", b, g["slot"], " ".join(d)))
    # (iii-b) the narrow window where BPB_FSInfo can lie outside a FAT32 volume: total in 65525+..65535 with a
    # tiny non-data area, FS info sector number >= total, partition ending near the end of the address space
    for g, bl in [b_ for b_ in bases if spec_numbers(b_[0])[1] >= 65525][:4]:
        for _ in range(12 * scale):
            b = copy_blocks(bl); boot = bytearray(b[g["lba"]])
            res = rng.choice([1, 2, 3]); nf = rng.choice([1, 2]); fsz = rng.choice([1, 2])
            total = 65525 + res + nf * fsz + rng.below(65535 - 65525 - res - nf * fsz + 1)
            fi = rng.choice([total, total - 1, total + 1, 65535, 65534, res, 1, 0])
            lba = rng.choice([U32 - total, U32 - total - 1, U32 - total + 1, U32 - 65535, U32 - fi, U32 - fi + 1, 2048])
            lba = min(lba, U32)
            put(boot, 13, 1, 1); put(boot, 14, 2, res); put(boot, 16, 1, nf); put(boot, 17, 2, 0)
            put(boot, 19, 2, rng.choice([0, total])); put(boot, 22, 2, 0); put(boot, 32, 4, total); put(boot, 36, 4, fsz)
            put(boot, 48, 2, fi)
            p = 446 + 16 * g["slot"]; put(b[0], p + 8, 4, lba); put(b[0], p + 12, 4, total)
            info = b.get(g["lba"] + g["fs_info"])
            b = {0: b[0], lba: boot}
            if info is not None and lba + fi <= U32 and lba + fi not in b:
                b[lba + fi] = bytearray(info)
            cases.append(Case("info_location_window", b, g["slot"], "tiny fat32 total=%d fs_info=%d lba=%d" % (total, fi, lba)))
    # (iii-c) a SHORT partition-table entry near the end of the address space whose boot sector claims more blocks than
    # the entry (the bound must come from the BPB total, not from the table): lba + table length < 2^32 <= lba + BPB total
    for g, bl in bases:
        for _ in range(3 * scale):
            b = copy_blocks(bl); boot = bytearray(b[g["lba"]])
            total = g["total"]
            lba = rng.choice([U32 - total + 1, U32 - total + 2, U32 - 17, U32 - 255, U32 - g["fs_info"] + 1 if g["fs_info"] else U32 - 40, U32 - total // 2])
            lba = max(1, min(lba, U32 - 1))
            short = rng.choice([1, 16, 17, U32 - lba, max(1, U32 - lba - 1)])
            p = 446 + 16 * g["slot"]; put(b[0], p + 8, 4, lba); put(b[0], p + 12, 4, short)
            info = b.get(g["lba"] + g["fs_info"]) if g["fs_info"] else None
            nb = {0: b[0], lba: boot}
            if info is not None and lba + g["fs_info"] <= U32:
                nb[lba + g["fs_info"]] = bytearray(info)
            cases.append(Case("short_entry_high_lba", nb, g["slot"], "lba=%d table length=%d bpb total=%d" % (lba, short, total)))
    # (iv) random single-byte / few-byte mutations anywhere in the three sectors
    for _ in range(1200 * scale):
        g, bl = rng.choice(bases)
        b = copy_blocks(bl); d = []
        for _k in range(1 + rng.below(3)):
            nm, idx, _f = rng.choice(sectors(g))
            off = rng.choice([rng.below(512), rng.below(64), 446 + rng.below(66)]); v = rng.choice([rng.below(256), 0, 255])
            b[idx][off] = v; d.append("%s[%d]:=%d" % (nm, off, v))
        cases.append(Case("byte_mutation", b, g["slot"], " ".join(d)))
    # (v) structured random: random values in every known field, signatures kept with some probability
    for _ in range(2500 * scale):
        g, bl = rng.choice(bases)
        b = copy_blocks(bl)
        keep = rng.below(8)
        for nm, idx, fields in sectors(g):
            for off, w in fields:
                if (nm, off) in (("mbr", 510), ("bpb", 510), ("info", 0), ("info", 484), ("info", 508)) and keep:
                    continue
                if nm == "mbr" and keep > 1:
                    continue   # keep the partition entry: go deep
                if rng.chance(1, 2):
                    put(b[idx], off, w, rng.choice(boundary_values(w, rng) + [rng.below(1 << (8 * w))] * 3))
        cases.append(Case("structured_random", b, g["slot"], "random fields"))
    # (vi) fully random sectors (MBR, and a random boot sector wherever the MBR points)
    for k in range(800 * scale):
        mbr = bytearray(rng.below(256) for _ in range(512))
        slot = rng.below(4)
        mode = k % 4
        if mode >= 1:
            put(mbr, 510, 2, 0xAA55)
        if mode >= 2:
            p = 446 + 16 * slot; mbr[p] = rng.choice([0, 0x80]); mbr[p + 4] = rng.choice([4, 6, 11, 12, 14])
        lba = int.from_bytes(mbr[446 + 16 * slot + 8: 446 + 16 * slot + 12], "little")
        b = {0: mbr}
        if lba != 0:
            boot = bytearray(rng.below(256) for _ in range(512))
            if mode >= 3:
                put(boot, 510, 2, 0xAA55)
            b[lba] = boot
            fi = int.from_bytes(boot[48:50], "little")
            if lba + fi <= U32 and lba + fi not in b:
                b[lba + fi] = bytearray(rng.below(256) for _ in range(512))
        cases.append(Case("random_sectors", b, slot, "random sectors mode %d" % mode))
    # (vii) volume indexes outside 0..3, and devices whose reads fail
    for g, bl in bases[:4]:
        for slot in (4, 5, 7, 255, 256, 65536, U32, U32 + 1, U32 + 4):
            cases.append(Case("bad_slot", copy_blocks(bl), slot, "slot %d" % slot))
        first_data, N = spec_numbers(g)
        for lim in (0, 1, g["lba"], g["lba"] + 1, g["lba"] + g["fs_info"], g["lba"] + g["fs_info"] + 1):
            cases.append(Case("device_error", copy_blocks(bl), g["slot"], "reads fail from block %d" % lim, limit=lim))
    # all-zero device, all-0xFF sectors
    cases.append(Case("constant_sectors", {}, 0, "all-zero device"))
    for slot in range(4):
        cases.append(Case("constant_sectors", {0: bytearray(b"\xff" * 512), U32: bytearray(b"\xff" * 512)}, slot, "all-ones sectors"))
    return cases


# ----------------------------------------------------------------------------- driver
def parse_g_output(lines):
    """-> list of dict(valid, fat32, blocks, expect, model)"""
    res, cur = [], None
    for l in lines:
        if l.startswith("geom "):
            kv = dict(x.split("=") for x in l.split()[1:])
            cur = dict(valid=kv["valid"] == "1", fat32=kv["fat32"] == "1", blocks={}, expect=None, model=None)
        elif l.startswith("B "):
            _, i, h = l.split(" ")
            cur["blocks"][int(i)] = bytearray(bytes.fromhex(h))
        elif l.startswith("expect "):
            cur["expect"] = l[7:]
        elif l.startswith("model "):
            cur["model"] = l[6:]; res.append(cur); cur = None
    return res


def run_cases(exe, cases, with_read):
    shards = [cases[k::V.NPROC] for k in range(V.NPROC)]
    outs = par(exe, ["\n".join("\n".join(c.cmds(with_read)) for c in s) + "\n" for s in shards])
    res = {}
    for s, o in zip(shards, outs):
        pos = 0
        for c in s:
            n = 2 if (with_read and c.read_expect is not None) else 1
            res[id(c)] = o[pos:pos + n] if pos + n <= len(o) else ["<no output>"] * n
            pos += n
    return res


def check(run, replay=None):
    thorough = run.tier == "thorough"
    gate = V.proof_gate(GROUP, PROPFILE, force=thorough)
    run.coverage.update(obligations=gate["obligations"], discharged=gate["discharged"],
                        checker_cmd="make -C coq/mount (coq_makefile, full .vo) ; coqc C15.v ; Print Assumptions",
                        trusted_base=V.TRUSTED_BASE_COMMON + [
                            "modelled: open_raw_volume (MBR part, fresh manager), parse_volume, Bpb::create_from_bytes + accessors, InfoSector, BlockCount::from_bytes and the Add impls, on N with an explicit Panic outcome for every unchecked + * / ; a block is a function offset -> byte, the device a function index -> block or read error",
                            "the FatVolume fields of the crate are read from the derived Debug text of the VolumeManager (label: trailing ASCII whitespace is not observable there)",
                            "spec side (geometry, valid_geom, formatter, layout) written from the FAT specification; the python file placer (FAT chain, directory entry, data) is a second independent formatter"],
                        theorems=gate["theorems"], axioms=gate["axioms"])
    for pb in gate["problems"]:
        run.violation("proof obligation: " + pb, "theorem/obligation no longer checks:\n" + pb, no_input=True)
    model = V.ocaml_build(GROUP)
    impls = {}
    for prof in ("dev", "release"):
        bins, out = V.cargo_build(["mountrun"], profile=prof)
        if bins is None:
            run.violation("harness does not build against %s (%s)" % (V.REPO, prof), out[-3000:], no_input=True)
            return "proof"
        impls[prof] = bins["mountrun"]

    if replay:
        lines = [l for l in open(replay).read().split("\n") if l.split(" ")[0] in ("RESET", "B", "LIMIT", "MOUNT", "READ")]
        mo = run_text(model, "\n".join(l for l in lines if not l.startswith("READ")) + "\n")
        print("model         :", mo)
        for prof, exe in impls.items():
            io = run_text(exe, "\n".join(lines) + "\n")
            print("impl %-8s :" % prof, io)
            if any(x == "panic" for x in io):
                run.violation("replayed input panics in the %s build" % prof, "\n".join(lines))
            elif [x for x in io if not x.startswith("file ")][:len(mo)] != mo:
                run.violation("replayed input: implementation (%s) differs from the model" % prof, "\n".join(lines))
        run.coverage.update(evaluations=len(lines), distinct_nontrivial=1, rule="replay of one input")
        return "proof"

    rng = V.SplitMix(run.seed)
    # ---- valid geometries: model formatter + spec layout
    vt = valid_table(rng, thorough)
    nv = near_valid_table(rng)
    allg = vt + nv
    gshards = [allg[k::V.NPROC] for k in range(V.NPROC)]
    gouts = par(model, ["\n".join(gcmd(g) for _, g in s) + "\n" for s in gshards])
    ginfo = {}
    for s, o in zip(gshards, gouts):
        parsed = parse_g_output(o)
        if len(parsed) != len(s):
            raise RuntimeError("model driver returned %d geometry answers for %d commands" % (len(parsed), len(s)))
        for (cls, g), r in zip(s, parsed):
            ginfo[id(g)] = r
    cases, machinery = [], []
    bases = []
    frng = rng.fork()
    for cls, g in vt:
        r = ginfo[id(g)]
        if not r["valid"]:
            machinery.append("generator produced a geometry the spec calls invalid: " + gcmd(g)); continue
        if g["lba"] + g["total"] == 1 << 32:
            # known class ends_at_limit (C15_limit_refused): valid for the specification, refused by the crate
            if r["model"] != NOFIT:
                machinery.append("model does not refuse a volume ending at block 2^32 (contradicts C15_limit_refused): " + gcmd(g)); continue
            c = Case(cls + "_known_limit", copy_blocks(r["blocks"]), g["slot"], gcmd(g))
            c.known_limit = True
            cases.append(c); continue
        if r["model"] != r["expect"]:
            machinery.append("model mount(format g) differs from layout g (contradicts C15_valid): " + gcmd(g)); continue
        bl = copy_blocks(r["blocks"])
        if len(bases) < 400 and cls in ("table", "slots", "fat16axes") and (len(bases) < 24 or frng.chance(1, 6)):
            bases.append((g, copy_blocks(bl)))
        big = g["spc"] >= 32
        rexp = place_file(g, bl, frng) if (not big or frng.chance(1, 3) or cls in ("big_fat32",)) else None
        cases.append(Case(cls, bl, g["slot"], gcmd(g), expect=r["expect"], read_expect=rexp, g=g))
    for cls, g in nv:
        r = ginfo[id(g)]
        if r["valid"]:
            machinery.append("a geometry meant to be malformed is valid for the spec: " + gcmd(g)); continue
        cases.append(Case(cls, copy_blocks(r["blocks"]), g["slot"], gcmd(g)))
    for m in machinery[:3]:
        run.violation("check machinery: " + m, m, no_input=True)
    # a balanced set of bases for the malformed stream (FAT16 and FAT32, all slots)
    mal_bases = [b for b in bases if spec_numbers(b[0])[1] < 65525][:10] + [b for b in bases if spec_numbers(b[0])[1] >= 65525][:10]
    if not thorough:
        mal_bases = mal_bases[:4] + mal_bases[10:14]
    cases += malformed_cases(rng.fork(), mal_bases, thorough)

    # ---- run everything on the model and on both builds of the implementation
    mres = run_cases(model, cases, with_read=False)
    ires = {prof: run_cases(exe, cases, with_read=True) for prof, exe in impls.items()}

    viol_panic, viol_spec, viol_file, corr = [], [], [], []
    outcomes, classes, seen, nontrivial = {}, {}, set(), set()
    evaluations = 0
    for c in cases:
        m = mres[id(c)][0]
        k = c.key()
        seen.add(k)
        classes[c.cls] = classes.get(c.cls, 0) + 1
        okey = m.split('"')[1] if m.startswith("err FormatError") else m.split(" ")[0] + (" " + m.split(" ")[1] if m.startswith("err") else "")
        if m.startswith("err BadBlockSize"):
            okey = "err BadBlockSize"
        if m.startswith("ok"):
            okey = "ok fat32" if " fat32 " in m else "ok fat16"
        outcomes[okey] = outcomes.get(okey, 0) + 1
        if m not in SHALLOW:
            nontrivial.add(k)
        for prof in impls:
            r = ires[prof][id(c)]
            evaluations += len(r)
            if "panic" in r:
                viol_panic.append((c, prof, r)); continue
            if getattr(c, "known_limit", False) and r[0] == NOFIT:
                run.known("ends_at_limit", "")
            if c.expect is not None:
                if r[0] != c.expect:
                    viol_spec.append((c, prof, r)); continue
                elif c.read_expect is not None and r[1] != c.read_expect:
                    viol_file.append((c, prof, r)); continue
            if r[0] != m:
                corr.append((c, prof, r, m))
    nviol = 0
    for c, prof, r in viol_panic[:3]:
        run.violation("opening the volume PANICS in the %s build (%s: %s); model says: %s" % (prof, c.cls, c.descr[:100], mres[id(c)][0]),
                      "# implementation output: %r\n%s\n# replay: ./check C15 --replay <this file>" % (r, c.replay())); nviol += 1
    for c, prof, r in viol_spec[:3 - min(nviol, 3)]:
        run.violation("valid geometry (%s): the %s build does not report the layout the FAT specification prescribes" % (c.cls, prof),
                      "# geometry: %s\n# spec layout  : %s\n# implementation: %s\n# model         : %s\n%s" % (c.descr, c.expect, r[0], mres[id(c)][0], c.replay())); nviol += 1
    for c, prof, r in viol_file[:3 - min(nviol, 3)]:
        run.violation("valid geometry (%s): file placed by the independent formatter is not read back correctly (%s build)" % (c.cls, prof),
                      "# geometry: %s\n# expected      : %s\n# implementation: %s\n%s" % (c.descr, c.read_expect, r[1], c.replay())); nviol += 1
    if corr and not nviol:
        c, prof, r, m = corr[0]
        run.violation("model/implementation correspondence broken (MountModel.v vs open_raw_volume/parse_volume/bpb.rs/info.rs), %d inputs; no panic and no wrong layout on a valid geometry found" % len(corr),
                      "correspondence: mount model vs implementation (%s build), class %s: %s\n# model         : %s\n# implementation: %s\n# theorems depending on it: C15_total C15_valid C15_valid_fields C15_info_sentinels C15_rejects\n%s" % (prof, c.cls, c.descr[:200], m, r[0], c.replay()),
                      no_input=True)
    wanted = ["Invalid MBR signature", "Invalid partition status", "Partition type not supported", "Bad BPB footer",
              "Bad BPB block counts", "Bad BPB blocks per cluster", "FAT12 is unsupported", "Invalid FAT format",
              "Volume does not fit the device", "Bad FS info location", "Bad lead signature on InfoSector",
              "Bad struc signature on InfoSector", "Bad trail signature on InfoSector", "err BadBlockSize", "err DeviceError",
              "err NoSuchVolume", "ok fat16", "ok fat32"]
    missing = [w for w in wanted if w not in outcomes]
    if missing:
        run.violation("check machinery: the generated inputs never reach these outcomes of the model: %s" % missing,
                      "outcomes not covered: %r" % missing, no_input=True)
    nvalid = sum(1 for c in cases if c.expect is not None)
    nfiles = sum(1 for c in cases if c.read_expect is not None)
    run.coverage.update(
        evaluations=evaluations,
        distinct_nontrivial=len(nontrivial),
        rule="one evaluation = one MOUNT or READ command executed by the crate (dev and release builds counted separately); distinct = distinct (device contents, volume index, read limit); non-trivial = the model's outcome is past the partition-table checks (boot sector was parsed)",
        distinct_inputs=len(seen),
        samples=[c.descr[:160] for c in cases[:3]] + [c.cls + ": " + c.descr[:120] for c in cases[nvalid + 60:nvalid + 64]] + [c.cls + ": " + c.descr[:120] for c in cases[-3:]],
        traces_validated_against_impl=evaluations,
        disagreements=len(corr) + len(viol_panic) + len(viol_spec) + len(viol_file),
        input_distribution={"classes": classes, "model_outcomes": outcomes, "valid_geometries": nvalid,
                            "valid_geometries_with_file_read_back": nfiles,
                            "builds": list(impls), "malformed_bases": len(mal_bases)})
    run.assumptions += ["bytes are modelled as N < 256 (device_ok)", "the handle table of the VolumeManager is not modelled: every mount is on a fresh manager",
                        "the tie between MountModel.v and the crate is differential testing (counts above)"]
    return "proof"
