"""Shared machinery of C12 / C13 / C14 (group `sd`): scenario generators, runners,
trace parsing, the three spec oracles and the correspondence diff.

Scenario line (both runners):  S <id> <crc> <retries> raw <miso-rle> <pad> <fails> <calls>
Implementation only:           S <id> <crc> <retries> sim <kind> <csd> <memseed> <tseed> <m0..m4> <faults> <fails> <calls>
The model is always fed `raw` (the MISO stream the implementation run recorded)."""
import os, subprocess
from concurrent.futures import ThreadPoolExecutor
import vcommon as V

GROUP = "sd"
KINDS = ["V1SC", "V2SC", "V2HC"]
PRIME = 2147483647


def step(h, r):
    return (h * 1000003 + r + 1) % PRIME


def digest(bs):
    h = 0
    for x in bs:
        h = step(h, x)
    return h


def gen_byte(seed, i, j):
    return (((seed + i * 977 + 1) * 1103515245 + j * 12345 + j * j * 7) >> 8) & 255


def gen_block(seed, i):
    return bytes(gen_byte(seed, i, j) for j in range(512))


def crc16_spec(data):
    """CRC-16/XMODEM by bit-serial polynomial division (x^16 + x^12 + x^5 + 1, zero start) - the specification, not the crate's table"""
    r = 0
    for d in data:
        for k in range(8):
            top = ((r >> 15) & 1) ^ ((d >> (7 - k)) & 1)
            r = (r << 1) & 0xFFFF
            if top:
                r ^= 0x1021
    return r


def special_crc_seeds():
    """write seeds whose block 0 (gen_block(seed, 0)) has a CRC-16 with a zero HIGH byte, a zero LOW byte, and both zero
    bytes absent - found by search; (seed, crc) for each class that exists below the bound"""
    out = {}
    for seed in range(1, 4000):
        c = crc16_spec(gen_block(seed, 0))
        cls = "hi0" if (c >> 8) == 0 and (c & 255) else ("lo0" if (c & 255) == 0 and (c >> 8) else None)
        if cls and cls not in out:
            out[cls] = (seed, c)
        if len(out) == 2:
            break
    return out


def crc7(data):
    crc = 0
    for d in data:
        for _ in range(8):
            crc = (crc << 1) & 255
            if ((d & 0x80) ^ (crc & 0x80)) != 0:
                crc ^= 0x09
            d = (d << 1) & 255
    return ((crc << 1) | 1) & 255


def csd_v1(c_size, mult, rbl, base="002600325F5983C8ADDBCFFFD24040A5"):
    v = int(base, 16)
    def put(v, hi, lo, x):
        w = hi + 1 - lo
        return (v & ~(((1 << w) - 1) << lo)) | ((x & ((1 << w) - 1)) << lo)
    v = put(v, 127, 126, 0); v = put(v, 83, 80, rbl); v = put(v, 73, 62, c_size); v = put(v, 49, 47, mult)
    b = bytearray(v.to_bytes(16, "big")); b[15] = crc7(b[:15])
    return bytes(b).hex()


def csd_v2(c_size, base="400E00325B5900001D697F800A40008B"):
    v = int(base, 16)
    w = 22
    v = (v & ~(((1 << w) - 1) << 48)) | ((c_size & ((1 << w) - 1)) << 48)
    b = bytearray(v.to_bytes(16, "big")); b[15] = crc7(b[:15])
    return bytes(b).hex()


def spec_capacity_bytes(csdhex):
    v = int(csdhex, 16)
    sl = lambda hi, lo: (v >> lo) & ((1 << (hi + 1 - lo)) - 1)
    if sl(127, 126) == 0:
        return (sl(73, 62) + 1) << (sl(49, 47) + 2 + sl(83, 80))
    return (sl(69, 48) + 1) * 524288


class Scn:
    """one scenario: id, crc, retries, device, fails, calls (list of strings), tags"""
    def __init__(self, sid, crc, retries, calls, kind=None, csd=None, memseed=1, tseed=1, tmax=(8, 8, 8, 8, 3),
                 faults="-", fails="-", raw=None, pad="ff", tag=""):
        self.id, self.crc, self.retries, self.calls = sid, crc, retries, calls
        self.kind, self.csd, self.memseed, self.tseed, self.tmax = kind, csd, memseed, tseed, tmax
        self.faults, self.fails, self.raw, self.pad, self.tag = faults, fails, raw, pad, tag
        self.legal = (raw is None and faults == "-" and fails == "-")

    def callstr(self):
        return ";".join(self.calls) if self.calls else "-"

    def impl_line(self):
        if self.raw is not None:
            return "S %s %d %d raw %s %s %s %s" % (self.id, self.crc, self.retries, self.raw or "-", self.pad, self.fails, self.callstr())
        return "S %s %d %d sim %s %s %d %d %d %d %d %d %d %s %s %s" % (
            (self.id, self.crc, self.retries, self.kind, self.csd, self.memseed, self.tseed) + tuple(self.tmax) + (self.faults, self.fails, self.callstr()))

    def model_line(self, miso):
        pad = self.pad if self.raw is not None else "ff"
        return "S %s %d %d raw %s %s %s %s" % (self.id, self.crc, self.retries, miso or "-", pad, self.fails, self.callstr())

    def nblocks(self):
        return spec_capacity_bytes(self.csd) // 512 if self.csd else 0


def run_proc(exe, text):
    p = subprocess.run([exe], input=text, stdout=subprocess.PIPE, text=True, timeout=3000)
    return p.stdout.split("\n")


def par(exe, chunks):
    with ThreadPoolExecutor(max_workers=V.NPROC) as ex:
        return list(ex.map(lambda c: run_proc(exe, c), chunks))


def shard(items, n=None):
    n = n or V.NPROC
    return [items[k::n] for k in range(n) if items[k::n]]


def split_blocks(lines):
    """output lines -> {id: [lines between B id and E id]}"""
    res, cur, cid = {}, None, None
    for l in lines:
        if l.startswith("B "):
            cid, cur = l[2:], []
        elif l.startswith("E ") and cur is not None:
            res[cid] = cur; cur = None
        elif cur is not None:
            cur.append(l)
    return res


class Result:
    """implementation-side result of one scenario"""
    def __init__(self, lines):
        self.cmp = [l for l in lines if not l.startswith("O ")]
        self.o = [l for l in lines if l.startswith("O ")]
        self.miso = "-"
        self.results = {}       # k -> "ok ..." / "err ..." / "panic"
        self.exp, self.chg, self.card = {}, {}, None
        self.card_at = {}       # call index of a card exchange ("sw") -> (kind, nblocks, bytes) from then on
        self.calltrace = {}     # k -> trace lines of call k
        cur = []
        for l in lines:
            if l.startswith("O miso "):
                self.miso = l[7:]
            elif l.startswith("O exp "):
                _, _, k, d = l.split(); self.exp[int(k)] = int(d)
            elif l.startswith("O chg "):
                _, _, k, d = l.split(); self.chg[int(k)] = {} if d == "-" else {int(x.split(":")[0]): int(x.split(":")[1]) for x in d.split(",")}
            elif l.startswith("O card "):
                p = l.split(); self.card = (p[2], int(p[4]), int(p[6])); self.card_at[-1] = self.card
            elif l.startswith("O cardat "):
                p = l.split(); self.card_at[int(p[2])] = (p[3], int(p[5]), int(p[7]))
            elif l.startswith("R "):
                p = l.split(" ", 2); self.results[int(p[1])] = p[2]; self.calltrace[int(p[1])] = cur; cur = []
            elif l and l[0] in "WTIDPF":
                cur.append(l)

    def trace(self):
        return [l for l in self.cmp if l and l[0] in "WTIDPF"]

    def card_for(self, k):
        """the card in the slot when call k runs"""
        ks = [j for j in self.card_at if j < k]
        return self.card_at[max(ks)] if ks else self.card


def trace_bytes(lines):
    """number of bytes clocked in a list of canonical trace lines"""
    n = 0
    for l in lines:
        p = l.split()
        cnt = 1
        if p[-1].startswith("*"):
            cnt = int(p[-1][1:]); p = p[:-1]
        if p[0] in "WTI":
            n += cnt * (len(p[1]) // 2)
        elif p[0] == "P":
            n += cnt * (len(p[1]) // 2)
        elif p[0] == "F" and len(p) > 2:      # a failed call counts with its request length (as in the model's tbytes)
            n += cnt * (len(p[2]) // 2)
    return n


def miso_positions(lines):
    """yield (line_index, kind, mosi_hex, miso_hex, global_miso_offset) for un-collapsed W/T/I/P lines"""
    off = 0
    for i, l in enumerate(lines):
        p = l.split()
        cnt = 1
        if p[-1].startswith("*"):
            cnt = int(p[-1][1:]); p = p[:-1]
        if p[0] in "WTIP":
            yield (i, p[0], p[1], p[2], off)
            off += cnt * (len(p[1]) // 2)


class Tie:
    def __init__(self, run, propfile):
        self.run = run
        self.gate = V.proof_gate(GROUP, propfile, force=(run.tier == "thorough"))
        run.coverage.update(obligations=self.gate["obligations"], discharged=self.gate["discharged"],
                            checker_cmd="make -C coq/sd (coq_makefile, full .vo) ; coqc %s ; Print Assumptions" % propfile,
                            theorems=self.gate["theorems"], axioms=self.gate["axioms"],
                            trusted_base=V.TRUSTED_BASE_COMMON + TRUSTED)
        for pb in self.gate["problems"]:
            run.violation("proof obligation: " + pb, "theorem/obligation no longer checks:\n" + pb, no_input=True)
        self.model = V.ocaml_build(GROUP)
        bins, out = V.cargo_build(["sdrun"], profile="dev")
        self.impl = bins["sdrun"] if bins else None
        if bins is None:
            run.violation("harness does not build against /repo", out[-3000:], no_input=True)
        self.counts = dict(scenarios=0, api_calls=0, spi_events_compared=0, accept_runs=0, card_replays=0,
                           card_replay_bytes=0, cap_checks=0)
        self.nviol = 0

    # ---- running ---------------------------------------------------------
    def run_impl(self, scns):
        chunks = shard(scns)
        outs = par(self.impl, ["\n".join(s.impl_line() for s in c) + "\n" for c in chunks])
        res = {}
        for o in outs:
            for sid, lines in split_blocks(o).items():
                res[sid] = Result(lines)
        return res

    def run_model(self, scns, ires):
        chunks = shard([s for s in scns if s.id in ires])
        outs = par(self.model, ["\n".join(s.model_line(ires[s.id].miso if s.raw is None else s.raw) for s in c) + "\n" for c in chunks])
        res = {}
        for o in outs:
            for sid, lines in split_blocks(o).items():
                res[sid] = lines
        return res

    def accept(self, items):
        """items: list of (key, lenient, trace_lines) -> {key: (code, idx)}"""
        chunks = shard(items)
        texts = []
        for c in chunks:
            t = []
            for key, len_, tr in c:
                t.append("ACCEPT %d %d" % (1 if len_ else 0, len(tr))); t += tr
            texts.append("\n".join(t) + "\n")
        outs = par(self.model, texts)
        res = {}
        for c, o in zip(chunks, outs):
            accs = [l for l in o if l.startswith("ACC ")]
            for (key, _, _), l in zip(c, accs):
                p = l.split(); res[key] = (int(p[1]), int(p[2]))
        self.counts["accept_runs"] += len(items)
        return res

    def card_replay(self, scns, ires):
        items = [s for s in scns if s.legal and s.id in ires]
        chunks = shard(items)
        texts = []
        for c in chunks:
            t = []
            for s in c:
                tr = ires[s.id].trace()
                t.append("CARD %s %s %d %d %d %d %d %d %d %d" % ((s.kind, s.csd, s.memseed, s.tseed) + tuple(s.tmax) + (len(tr),))); t += tr
            texts.append("\n".join(t) + "\n")
        outs = par(self.model, texts)
        res = {}
        for c, o in zip(chunks, outs):
            cl = [l for l in o if l.startswith("CARD ")]
            for s, l in zip(c, cl):
                res[s.id] = l
                if l.startswith("CARD ok"):
                    self.counts["card_replay_bytes"] += int(l.split()[3])
        self.counts["card_replays"] += len(items)
        return res

    # ---- correspondence ------------------------------------------------------
    def compare(self, scns, ires, mres):
        """returns list of (scn, first differing line index, impl line, model line)"""
        diffs = []
        for s in scns:
            if s.id not in ires:
                diffs.append((s, -1, "<no implementation output>", "")); continue
            a = ires[s.id].cmp
            b = [l for l in mres.get(s.id, ["<no model output>"]) if not l.startswith("O ")]
            self.counts["scenarios"] += 1
            self.counts["api_calls"] += len(ires[s.id].results)
            self.counts["spi_events_compared"] += len(a)
            if a != b:
                k = next((i for i, (x, y) in enumerate(zip(a, b)) if x != y), min(len(a), len(b)))
                diffs.append((s, k, a[k] if k < len(a) else "<end>", b[k] if k < len(b) else "<end>"))
        return diffs

    def model_costs(self, mres, sid):
        """{k: (bytes, bound)} from the model's `O cost` lines"""
        res = {}
        for l in mres.get(sid, []):
            if l.startswith("O cost "):
                p = l.split(); res[int(p[2])] = (int(p[3]), int(p[4]))
        return res

    def violation(self, what, text, no_input=False):
        if self.nviol < 3:
            self.run.violation(what, text, no_input=no_input)
        self.nviol += 1

    def report_diffs(self, diffs, theorems):
        for s, k, a, b in diffs[:2]:
            self.violation("model/implementation correspondence broken (SdModel.v vs src/sdcard/mod.rs)",
                           "correspondence: SD driver model vs implementation\nscenario: %s\nfirst differing line %d\nimplementation: %s\nmodel:          %s\ntheorems depending on it: %s\nreplay: echo '%s' | harness/target/debug/sdrun"
                           % (s.impl_line()[:600], k, a[:300], b[:300], theorems, s.impl_line()[:2000]), no_input=True)


TRUSTED = [
    "modelled: src/sdcard/mod.rs (SdCard API, SdCardInner, Delay) and the CSD accessors/capacity formulas of proto.rs, transcribed function by function into a state/bus monad over N (bytes as N < 256); arithmetic that panics under the dev profile = Panic (none left reachable: C13_bounded); the unused `_attempts: i32` counter of acquire's CMD0 loop is not modelled (identical while acquire_retries < 2^31 - 1); buffers of a failed read are not modelled (only results)",
    "the SPI device and the delayer are one function parameter `spi`; MISO bytes are masked to 8 bits at the bus boundary; a reply shorter than the request leaves the rest of the buffer unchanged (embedded-hal contract: equal lengths); a `Fail` reply to a delay has no meaning",
    "LEGALCARD and `accept` (SdSpec.v) are our reading of the SD Physical Layer Simplified Specification, SPI mode (chapter 7: commands, R1/R1b/R2/R3/R7, tokens, CRC) and CSD (5.3); timing minima N_WR >= 1 / N_BR are not modelled (the card accepts a data token right after R1); the Rust card simulator in harness/src/bin/sdrun.rs is checked against the extracted LEGALCARD on every legal run (MISO byte for byte)",
    "C12/C14_legal hypotheses: legal_timing (every card delay within the driver's budget at that point: N_CR <= 8, N_AC <= 10000, busy after a data block <= 50000, busy after CMD12 / stop token <= 10000 polled bytes, ACMD41 idle answers <= 10000), addressable (every block has a 32-bit address), a 16-byte CSD with CSD_STRUCTURE 0 or 1, 512-byte blocks of bytes in card memory",
]

# ---- scenario generators ---------------------------------------------------------
SMALL_V1 = csd_v1(7, 0, 9)       # (7+1) * 4 * 512 B  = 32 blocks
SMALL_V1B = csd_v1(5, 1, 10)     # (5+1) * 8 * 1024 B = 96 blocks
SMALL_V2 = csd_v2(0)             # 1024 blocks
REAL_V1 = "002600325F5983C8ADDBCFFFD24040A5"
REAL_V1B = "007F00325B5A83AF7FFFCF801680006F"
REAL_V2 = "400E00325B5900001D697F800A40008B"
REAL_V2B = "400E00325B5900003A917F800A400005"


def csd_for(kind, rng=None, real=False):
    if kind == "V2HC":
        return (REAL_V2 if (rng is None or rng.chance(1, 2)) else REAL_V2B) if real else SMALL_V2
    if real:
        return REAL_V1 if (rng is None or rng.chance(1, 2)) else REAL_V1B
    return SMALL_V1 if (rng is None or rng.chance(1, 2)) else SMALL_V1B


def legal_history(rng, nblocks, ncalls, maxn=4):
    calls = []
    for _ in range(ncalls):
        w = rng.weighted([("r1", 4), ("w1", 4), ("rn", 3), ("wn", 3), ("nb", 1), ("ny", 1), ("es", 1), ("gt", 1), ("mu", 1)])
        if w in ("r1", "w1"):
            idx = rng.choice([0, 1, nblocks - 1, rng.below(nblocks)])
            calls.append("r:1:%d" % idx if w == "r1" else "w:%d:1:%d" % (idx, rng.below(1 << 20)))
        elif w in ("rn", "wn"):
            n = rng.choice([2, 2, 3, maxn, 0])
            idx = rng.choice([0, 1, min(nblocks - 1, max(0, nblocks - n)), rng.below(max(1, min(nblocks, nblocks - n + 1)))])   # in range: idx < nblocks, idx + n <= nblocks
            calls.append("%s:%d:%d" % (rng.choice(["r", "r", "rd"]), n, idx) if w == "rn" else "w:%d:%d:%d" % (idx, n, rng.below(1 << 20)))
        else:
            calls.append(w)
    return calls


def legal_scenarios(rng, thorough, prefix="L"):
    scns = []
    n = 0
    for kind in KINDS:
        for crc in (0, 1):
            csd = csd_for(kind)
            nb = spec_capacity_bytes(csd) // 512
            # fixed script: init, capacity, single/multi at 0, 1, last, random; uninit + re-init
            r = rng.below(nb - 4)
            calls = ["gt", "nb", "ny", "es", "r:1:0", "r:1:1", "r:1:%d" % (nb - 1), "w:0:1:11", "r:1:0", "w:%d:1:12" % (nb - 1),
                     "r:2:%d" % (nb - 2), "w:1:3:13", "r:4:0", "r:1:%d" % r, "w:%d:2:14" % r, "r:3:%d" % r, "mu", "gt", "r:2:0",
                     "w:%d:4:15" % (nb - 4), "mu", "r:4:%d" % (nb - 4), "r:0:0", "w:0:0:1",
                     "rd:1:2", "rd:3:1", "rd:2:%d" % (nb - 2)]
            scns.append(Scn("%s%d" % (prefix, n), crc, 50, calls, kind=kind, csd=csd, memseed=3 + n, tseed=100 + n, tag="script")); n += 1
    nrand = 2000 if thorough else 14
    for _ in range(nrand):
        kind = rng.choice(KINDS); crc = rng.below(2)
        csd = csd_for(kind, rng)
        nb = spec_capacity_bytes(csd) // 512
        tm = rng.choice([(8, 8, 8, 8, 3), (8, 30, 40, 20, 6), (0, 0, 0, 0, 0), (8, 200, 300, 100, 20), (1, 1, 1, 1, 1)])
        scns.append(Scn("%s%d" % (prefix, n), crc, rng.choice([50, 3, 0]), legal_history(rng, nb, 6 + rng.below(8)), kind=kind, csd=csd,
                        memseed=rng.below(1 << 20), tseed=rng.below(1 << 20), tmax=tm, tag="history")); n += 1
    # timing at the driver's budgets (t=max is drawn with probability 1/8 per step)
    heavy = [(8, 10000, 50000, 10000, 300)] if not thorough else [(8, 10000, 50000, 10000, 10000), (8, 10000, 50000, 10000, 2000)]
    for tm in heavy:
        for kind in (KINDS if thorough else [rng.choice(KINDS)]):
            csd = csd_for(kind); nb = spec_capacity_bytes(csd) // 512
            scns.append(Scn("%s%d" % (prefix, n), rng.below(2), 50, ["gt", "w:3:1:5", "r:1:3", "w:4:3:6", "r:3:4", "r:2:%d" % (nb - 2), "nb"],
                            kind=kind, csd=csd, memseed=9, tseed=rng.below(1 << 20), tmax=tm, tag="budget")); n += 1
    # capacity on real-world and assorted registers
    for kind in KINDS:
        # both register versions on every kind, including the maximum field values of each version
        for csd in [REAL_V1, REAL_V1B, csd_v1(4095, 7, 9), csd_v1(4095, 7, 11), csd_v1(4095, 7, 15), csd_v1(0, 0, 9), csd_v1(1000, 3, 10),
                    REAL_V2, REAL_V2B, csd_v2(0), csd_v2(0x3FFFFE), csd_v2(0x3FFFFF), csd_v2(65535), csd_v2(0x1FFFFF)]:
            scns.append(Scn("%s%d" % (prefix, n), 1, 50, ["gt", "nb", "ny", "es"], kind=kind, csd=csd, memseed=1, tseed=n, tag="capacity")); n += 1
    return scns


def _unrle(s_):
    if s_ in ("-", ""):
        return b""
    out = bytearray()
    for part in s_.split(","):
        if "*" in part:
            h, n = part.split("*")
            out += bytes.fromhex(h) * int(n)
        else:
            out += bytes.fromhex(part)
    return bytes(out)


def directed_cuts(legal_misos, unrle=None, rle=None, prefix="DC", limit=40):
    """silent / stuck peers at the points where the driver polls: the recorded MISO stream of a legal run is cut
    (a) just BEFORE a data start token 0xFE, padded with 0xFF: the card answered the read command and then never
        sends the data token;
    (b) just AFTER a data-response token (xxx00101 = 0xE5), padded with 0x00: the card stays busy for ever after
        accepting a block (single, middle or LAST block of a multi-block write).
    Every driver call must still return within its byte bound and must keep to the SPI-mode rules."""
    scns = []
    n = 0
    for (crc, retries, calls, miso) in legal_misos:
        full = unrle(miso)
        cuts = []
        for i, b in enumerate(full):
            if b == 0xFE and i > 0 and full[i - 1] in (0xFF, 0x00):
                cuts.append((i, "ff", "silent-before-token"))
            if b == 0xE5:
                cuts.append((i + 1, "00", "busy-forever"))
        step = max(1, len(cuts) // limit)
        for (i, pad, tag) in cuts[::step][:limit]:
            scns.append(Scn("%s%d" % (prefix, n), crc, 2, calls, raw=rle(full[:i]), pad=pad, tag=tag)); n += 1
    return scns
