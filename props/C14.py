"""C14 - everything the SD driver puts on the bus is a legal SPI-mode conversation.
Proof: coq/sd/C14.v.  Tie: the real SdCard against the card simulator (all kinds, CRC
modes, seeded legal timings, histories with re-initialisation) - model and implementation
must produce identical bus traces; oracle: the extracted host-side rule checker `accept`
run on every recorded implementation trace; the simulator itself is checked against the
extracted LEGALCARD by replaying the recorded MOSI."""
import vcommon as V
import sdcommon as S

PROPFILE = "C14.v"
RULES = {1: "non-FF MOSI outside frames and data blocks", 2: "malformed command frame", 3: "command started while the card signalled busy",
         4: "application command without CMD55", 5: "command out of identification order", 6: "CMD12 outside a multiple-block read",
         7: "multiple-block read left without CMD12", 8: "written data block with a wrong CRC-16", 9: "data token without an accepted write command",
         10: "multiple-block write left without the stop token", 11: "new command while a response was awaited", 12: "FC/FD token while busy",
         13: "single-block write: no FE token after the accepted command", 14: "single-block read data phase left early"}


def oor_scenarios(rng, thorough):
    scns = []
    n = 0
    for kind in S.KINDS:
        for crc in (0, 1):
            csd = S.csd_for(kind); nb = S.spec_capacity_bytes(csd) // 512
            for calls in (["w:%d:1:3" % nb, "r:1:0"], ["w:%d:2:3" % nb, "r:1:0"], ["r:1:%d" % nb, "r:1:0"], ["r:2:%d" % nb, "r:1:0"],
                          ["w:%d:3:4" % (nb - 1), "r:1:0"], ["r:3:%d" % (nb - 1), "r:1:0"], ["w:%d:1:9" % (nb + 1000), "mu", "r:1:1"]):
                scns.append(S.Scn("O%d" % n, crc, 50, calls, kind=kind, csd=csd, memseed=4, tseed=n, tag="out-of-range")); n += 1
    return scns


def fault_scenarios(rng, thorough):
    scns = []
    n = 0
    for kind in S.KINDS:
        csd = S.csd_for(kind)
        for crc in (0, 1):
            for code in ("0b", "0d"):
                scns.append(S.Scn("G%d" % n, crc, 50, ["w:2:3:7", "r:1:0", "mu", "r:1:0"], kind=kind, csd=csd, memseed=5, tseed=n, faults="wres:" + code, tag="rejected-multi-write")); n += 1
            scns.append(S.Scn("G%d" % n, crc, 50, ["w:2:1:7", "r:1:0"], kind=kind, csd=csd, memseed=5, tseed=n, faults="wres:0d", tag="rejected-write")); n += 1
    return scns


def spi_calls(lines):
    """number of SPI calls (W/T/I/P units, expanded) in canonical trace lines"""
    n = 0
    for l in lines:
        p = l.split()
        cnt = int(p[-1][1:]) if p[-1].startswith("*") else 1
        if p[0] in "WTIPF":
            n += cnt
    return n


def failed_init_scenarios(tie, rng, thorough):
    """identification that fails at every stage after CMD8 has answered, followed by further calls:
    the next call must start identification again (data commands only after a COMPLETED sequence)"""
    scns = []
    n = 0
    follow = ["r:1:0", "w:1:1:5", "nb", "r:2:0", "gt", "r:1:1"]
    for kind in S.KINDS:
        csd = S.csd_for(kind)
        for crc in (0, 1):
            scns.append(S.Scn("I%d" % n, crc, 50, follow[:2], kind=kind, csd=csd, memseed=2, tseed=n, tmax=(2, 2, 2, 2, 1), faults="stuck41", tag="init-never-ready")); n += 1
            if kind != "V1SC":
                for r1 in ("04", "01", "08", "7f"):
                    scns.append(S.Scn("I%d" % n, crc, 50, follow, kind=kind, csd=csd, memseed=2, tseed=n, tmax=(2, 2, 2, 2, 1), faults="r58:" + r1, tag="init-cmd58-error")); n += 1
            # SPI fault at every call index of the identification sequence (after CMD0 .. end of acquire)
            base = S.Scn("IB%s%d" % (kind, crc), crc, 50, ["gt"], kind=kind, csd=csd, memseed=2, tseed=1000 + n, tmax=(2, 2, 2, 2, 2))
            r0 = tie.run_impl([base])[base.id]
            total = spi_calls(r0.trace())
            idxs = range(total + 1) if thorough else sorted(set(list(range(0, total + 1, max(1, total // 12))) + [total - 1, total]))
            for i in idxs:
                scns.append(S.Scn("I%d" % n, crc, 50, follow, kind=kind, csd=csd, memseed=2, tseed=base.tseed, tmax=base.tmax, fails=str(i), tag="init-spi-fault")); n += 1
    return scns


def check(run, replay=None):
    tie = S.Tie(run, PROPFILE)
    if tie.impl is None:
        return "proof"
    rng = V.SplitMix(run.seed)
    thorough = run.tier == "thorough"
    legal = S.legal_scenarios(rng, thorough, "L")
    oor = oor_scenarios(rng, thorough)
    flt = fault_scenarios(rng, thorough) + failed_init_scenarios(tie, rng, thorough)
    # silent / stuck peers cut out of the recorded streams of the legal scripts (see S.directed_cuts)
    pre = tie.run_impl([s for s in legal if s.tag == "script"])
    from C13 import unrle, rle
    cuts = S.directed_cuts([(s.crc, s.retries, s.calls, pre[s.id].miso) for s in legal if s.tag == "script" and s.id in pre],
                           unrle, rle, prefix="DK", limit=120 if thorough else 16)
    allscn = legal + oor + flt + cuts
    ires = tie.run_impl(allscn)
    mres = tie.run_model(allscn, ires)
    diffs = tie.compare(allscn, ires, mres)
    byid = {s.id: s for s in allscn}
    # strict accept on legal-card runs (in range and out of range), lenient on the faulted ones
    acc = tie.accept([(s.id, not s.legal, ires[s.id].trace()) for s in allscn if s.id in ires])
    cards = tie.card_replay(legal + oor, ires)
    bad = []
    for s in allscn:
        if s.id not in acc:
            continue
        code, idx = acc[s.id]
        if code == 0:
            continue
        bad.append((s, code, idx))
    cardbad = [(byid[sid], l) for sid, l in cards.items() if not l.startswith("CARD ok")]
    for s, code, idx in bad[:3]:
        tr = ires[s.id].trace()
        tie.violation("bus trace rejected by the SPI-mode rule checker: rule %d (%s)" % (code, RULES.get(code, "?")),
                      "scenario: %s\nrule %d: %s\noffending event index %d\nreplay: echo '%s' | %s" % (s.impl_line()[:1500], code, RULES.get(code, "?"), idx, s.impl_line(), tie.impl))
    for s, l in cardbad[:2]:
        tie.violation("the card simulator deviates from the extracted LEGALCARD (check machinery)", "scenario: %s\n%s" % (s.impl_line()[:1500], l[:600]), no_input=True)
    if not bad:
        tie.report_diffs(diffs, "C14_frame C14_frame_sent C14_data_block C14_legal*")
    tags = {}
    for s in allscn:
        tags[s.tag] = tags.get(s.tag, 0) + 1
    run.coverage.update(
        evaluations=tie.counts["api_calls"], distinct_nontrivial=len({s.impl_line().split(" ", 2)[2] for s in allscn}),
        rule="one evaluation = one public driver call on the real crate whose full bus trace is compared with the model's and checked by `accept`; distinct = distinct scenario lines",
        scenarios=tie.counts["scenarios"], spi_trace_lines_compared=tie.counts["spi_events_compared"],
        traces_validated_against_impl=tie.counts["scenarios"], disagreements=len(diffs), accept_runs=tie.counts["accept_runs"],
        accept_rejections=len(bad), legalcard_replays=tie.counts["card_replays"], legalcard_replay_bytes=tie.counts["card_replay_bytes"],
        legalcard_disagreements=len(cardbad),
        input_distribution=tags, samples=[s.impl_line()[:200] for s in (legal[:2] + legal[-2:] + oor[:1] + flt[:1])])
    run.assumptions += ["the tie between SdModel.v and src/sdcard/mod.rs is differential testing (counts above)",
                        "`accept` and LEGALCARD are our reading of the SD specification's SPI mode"]
    return "proof"
