"""C06 - see fsprops.py"""
from fsprops import check_C06 as check
