"""C11 - see fsprops.py"""
from fsprops import check_C11 as check
