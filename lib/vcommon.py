"""Shared machinery for every ./check Cxx run (python3 stdlib only).

  * proof gate: (re)build the Coq project of a group, re-compile the property
    file, collect its `Print Assumptions` output, refuse forbidden vernacular;
  * rebuild the harness crate against /repo's current working tree;
  * evidence writer, VIOLATION / KNOWN-FINDING printing, replay files.
"""
import hashlib, json, os, re, subprocess, sys, time, glob, shutil

VERIF = os.path.dirname(os.path.dirname(os.path.abspath(__file__)))
REPO = os.environ.get("VERIF_REPO", "/repo")
BUILD = os.path.join(VERIF, "build")
EVID = os.path.join(VERIF, "evidence")
REPLAYS = os.path.join(VERIF, "replays")
HARNESS = os.path.join(VERIF, "harness")
NPROC = os.cpu_count() or 4

FORBIDDEN = re.compile(
    r"\b(Admitted|admit|Axiom|Axioms|Parameter|Parameters|Conjecture|Conjectures|"
    r"Admit Obligations|bypass_check)\b|Unset\s+Guard|Unset\s+Positivity|"
    r"Unset\s+Universe\s+Checking|type-in-type|impredicative-set|"
    r"Local\s+Unset\s+Guard")

# axioms of the standard library that a theorem may depend on (none is
# expected; every one that shows up is named in the evidence)
AXIOM_ALLOW = {
    "functional_extensionality_dep", "FunctionalExtensionality.functional_extensionality_dep",
    "Eqdep.Eq_rect_eq.eq_rect_eq", "eq_rect_eq", "JMeq_eq", "JMeq.JMeq_eq",
    "proof_irrelevance", "ProofIrrelevance.proof_irrelevance",
    "classic", "Classical_Prop.classic", "ClassicalDedekindReals.sig_forall_dec",
    "ClassicalDedekindReals.sig_not_dec",
}


def env_offline():
    e = dict(os.environ)
    e.update(CARGO_NET_OFFLINE="true", GOPROXY="off", PIP_NO_INDEX="1")
    return e


def sh(cmd, cwd=None, timeout=None, env=None, check=False, inp=None):
    p = subprocess.run(cmd, cwd=cwd, shell=isinstance(cmd, str), timeout=timeout,
                       env=env or env_offline(), stdout=subprocess.PIPE,
                       stderr=subprocess.STDOUT, input=inp, text=True, errors="replace")
    if check and p.returncode != 0:
        raise RuntimeError("command failed (%d): %s\n%s" % (p.returncode, cmd, p.stdout[-4000:]))
    return p.returncode, p.stdout


class SplitMix:
    """splitmix64 - the one PRNG every generator derives its choices from."""
    M = (1 << 64) - 1

    def __init__(self, seed):
        self.s = seed & self.M

    def next(self):
        self.s = (self.s + 0x9E3779B97F4A7C15) & self.M
        z = self.s
        z = ((z ^ (z >> 30)) * 0xBF58476D1CE4E5B9) & self.M
        z = ((z ^ (z >> 27)) * 0x94D049BB133111EB) & self.M
        return z ^ (z >> 31)

    def below(self, n):
        return self.next() % n if n > 0 else 0

    def choice(self, xs):
        return xs[self.below(len(xs))]

    def chance(self, num, den):
        return self.below(den) < num

    def weighted(self, pairs):
        tot = sum(w for _, w in pairs)
        r = self.below(tot)
        for x, w in pairs:
            if r < w:
                return x
            r -= w
        return pairs[-1][0]

    def fork(self):
        return SplitMix(self.next())


# ----------------------------------------------------------------------------
# Coq side
# ----------------------------------------------------------------------------

def coq_dir(group):
    return os.path.join(VERIF, "coq", group)


def coq_sources(group):
    return sorted(glob.glob(os.path.join(coq_dir(group), "*.v")))


def coq_deps(group):
    """groups this group's _CoqProject refers to with `-Q ../<g> <Name>` (their .vo files must exist first)"""
    deps = []
    for l in open(os.path.join(coq_dir(group), "_CoqProject")):
        m = re.match(r"\s*-Q\s+\.\./(\w+)\s+\w+", l)
        if m:
            deps.append(m.group(1))
    return deps


def coq_qargs(group, absolute=False):
    d = coq_dir(group)
    qargs = []
    for l in open(os.path.join(d, "_CoqProject")):
        l = l.strip()
        if l.startswith("-Q") or l.startswith("-R"):
            parts = l.split()
            if absolute:
                parts[1] = os.path.normpath(os.path.join(d, parts[1]))
            qargs += parts
    return qargs


def coq_hash(group):
    h = hashlib.sha256()
    for f in coq_sources(group) + [os.path.join(coq_dir(group), "_CoqProject")]:
        h.update(os.path.basename(f).encode())
        with open(f, "rb") as fh:
            h.update(fh.read())
    for g in coq_deps(group):
        h.update(coq_hash(g).encode())
    return h.hexdigest()


def strip_comments(src):
    out, depth, i = [], 0, 0
    while i < len(src):
        if src.startswith("(*", i):
            depth += 1; i += 2
        elif src.startswith("*)", i) and depth > 0:
            depth -= 1; i += 2
        else:
            if depth == 0:
                out.append(src[i])
            i += 1
    return "".join(out)


def forbidden_scan(group):
    bad = []
    for f in coq_sources(group):
        src = strip_comments(open(f).read())
        # strings may legitimately contain words; none of our files uses strings with them
        for n, line in enumerate(src.split("\n"), 1):
            if FORBIDDEN.search(line):
                bad.append("%s:%d: %s" % (os.path.basename(f), n, line.strip()[:120]))
        # Variable/Hypothesis outside a section
        depth = 0
        for n, line in enumerate(src.split("\n"), 1):
            if re.match(r"\s*Section\s+\w+", line):
                depth += 1
            elif re.match(r"\s*End\s+\w+", line) and depth > 0:
                depth -= 1
            elif depth == 0 and re.match(r"\s*(Variable|Variables|Hypothesis|Hypotheses|Context)\b", line):
                bad.append("%s:%d: %s outside a section" % (os.path.basename(f), n, line.strip()[:80]))
    return bad


def coq_build(group, force=False, timeout=3000):
    """Full .vo build of the group's project (cached by source hash)."""
    d = coq_dir(group)
    os.makedirs(BUILD, exist_ok=True)
    for g in coq_deps(group):
        ok, out = coq_build(g, timeout=timeout)
        if not ok:
            return False, "dependency group '%s' failed: %s" % (g, out[-1500:])
    import fcntl
    with open(os.path.join(BUILD, "coq-%s.lock" % group), "w") as lockfh:
        fcntl.flock(lockfh, fcntl.LOCK_EX)
        return _coq_build_locked(group, force, timeout)


def _coq_build_locked(group, force, timeout):
    d = coq_dir(group)
    stamp = os.path.join(BUILD, "coq-%s.stamp" % group)
    h = coq_hash(group)
    if not force and os.path.exists(stamp) and open(stamp).read().strip() == h:
        vos = [f[:-2] + ".vo" for f in coq_sources(group)]
        if all(os.path.exists(v) for v in vos):
            return True, "cached"
    if force:
        sh("make -f Makefile.coq clean >/dev/null 2>&1; rm -f *.vo *.glob *.vok *.vos .*.aux", cwd=d)
    rc, out = sh("coq_makefile -f _CoqProject -o Makefile.coq && timeout %d make -f Makefile.coq -j%d" % (timeout, NPROC),
                 cwd=d, timeout=timeout + 60)
    with open(os.path.join(BUILD, "coq-%s.log" % group), "w") as fh:
        fh.write(out)
    if rc == 0:
        open(stamp, "w").write(h)
    elif os.path.exists(stamp):
        os.remove(stamp)
    return rc == 0, out


def coq_props(group, propfile):
    """Re-compile the property file alone (its dependencies are built) and
    return (ok, {theorem: [axioms]}, raw_output, n_theorems, pins)."""
    d = coq_dir(group)
    qargs = coq_qargs(group)
    rc, out = sh(["timeout", "900", "coqc"] + qargs + [propfile], cwd=d, timeout=960)
    src = strip_comments(open(os.path.join(d, propfile)).read())
    theorems = re.findall(r"^\s*(?:Theorem|Corollary)\s+(\w+)", src, re.M)
    pins = re.findall(r"^\s*Check\s+\(?\s*(\w+)\s*:", src, re.M)
    # parse Print Assumptions output: sequence of blocks in the order of the commands
    cmds = re.findall(r"Print\s+Assumptions\s+(\w+)", src)
    blocks, cur = [], None
    for line in out.split("\n"):
        if line.startswith("Closed under the global context"):
            blocks.append([])
            cur = None
        elif line.startswith("Axioms:"):
            cur = []
            blocks.append(cur)
        elif cur is not None:
            m = re.match(r"^(\S+)\s*:", line)
            if m:
                cur.append(m.group(1))
            elif line.strip() == "" or not line.startswith(" "):
                if line.strip() != "":
                    pass
    assum = {}
    for name, b in zip(cmds, blocks):
        assum[name] = b
    ok = (rc == 0 and len(blocks) == len(cmds) and set(theorems) <= set(cmds))
    return ok, assum, out, theorems, pins


def coqchk(group, propfile, timeout=2400):
    """independent re-check of the compiled property file and everything it depends on; returns (status, axioms text)"""
    d = coq_dir(group)
    lp = None
    for l in open(os.path.join(d, "_CoqProject")):
        l = l.strip()
        if (l.startswith("-Q") or l.startswith("-R")) and l.split()[1] == ".":
            lp = l.split()[2]
    mod = "%s.%s" % (lp, propfile[:-2])
    try:
        rc, out = sh(["timeout", str(timeout), "coqchk", "-silent", "-o"] + coq_qargs(group) + [mod], cwd=d, timeout=timeout + 60)
    except subprocess.TimeoutExpired:
        return "timeout", ""
    if rc == 124:
        return "timeout", ""
    m = re.search(r"\* Axioms:(.*?)\n\s*\n\* Constants", out, re.S)
    ax = m.group(1).strip() if m else "?"
    return ("ok" if rc == 0 else "failed"), ax


def proof_gate(group, propfile, force=False, chk=False):
    """Returns dict(ok, obligations, discharged, theorems, axioms, problems)."""
    problems = []
    bad = forbidden_scan(group)
    if bad:
        problems += ["forbidden vernacular: " + b for b in bad]
    ok, out = coq_build(group, force=force)
    if not ok:
        problems.append("coq build of group '%s' failed: %s" % (group, out[-1500:]))
        return dict(ok=False, obligations=1, discharged=0, theorems=[], axioms={}, problems=problems, pins=[])
    pok, assum, pout, theorems, pins = coq_props(group, propfile)
    if not pok:
        problems.append("property file %s does not check: %s" % (propfile, pout[-1500:]))
    axioms = {}
    for t, ax in assum.items():
        axioms[t] = ax
        for a in ax:
            if a not in AXIOM_ALLOW and a.split(".")[-1] not in AXIOM_ALLOW:
                problems.append("theorem %s depends on non-allowlisted axiom %s" % (t, a))
    nthm = len(theorems)
    res = dict(ok=not problems, obligations=max(nthm, 1), discharged=(nthm if pok else 0),
               theorems=theorems, axioms=axioms, problems=problems, pins=pins)
    if chk and pok:
        st, ax = coqchk(group, propfile)
        res["coqchk"] = dict(status=st, axioms=ax)
        if st == "failed":
            problems.append("coqchk rejects the compiled %s" % propfile)
        elif st == "ok" and ax not in ("<none>", ""):
            for a in re.findall(r"[\w.]+", ax):
                if a not in AXIOM_ALLOW and a.split(".")[-1] not in AXIOM_ALLOW:
                    problems.append("coqchk reports non-allowlisted axiom %s" % a)
        res["ok"] = not problems
    return res


def coq_eval(group, text, name="cases", timeout=600):
    """Compile a scratch .v file against the group's project; returns stdout."""
    d = coq_dir(group)
    qargs = coq_qargs(group, absolute=True)
    sd = os.path.join(BUILD, "scratch-%s-%d" % (group, os.getpid()))
    os.makedirs(sd, exist_ok=True)
    f = os.path.join(sd, name + ".v")
    open(f, "w").write(text)
    rc, out = sh(["timeout", str(timeout), "coqc", "-noglob"] + qargs + [f], cwd=sd, timeout=timeout + 30)
    shutil.rmtree(sd, ignore_errors=True)
    return rc, out


# ----------------------------------------------------------------------------
# OCaml side (extracted model runners)
# ----------------------------------------------------------------------------

def ocaml_build(group):
    """Extraction happens in the Coq build (Extract.v writes build/extract/<group>/*.ml);
    this compiles it with the hand-written driver ocaml/<group>/*.ml."""
    ed = os.path.join(BUILD, "extract", group)
    drv = os.path.join(VERIF, "ocaml", group)
    exe = os.path.join(BUILD, "modelrun-%s" % group)
    srcs = sorted(glob.glob(os.path.join(ed, "*.ml")) + glob.glob(os.path.join(ed, "*.mli")) + glob.glob(os.path.join(drv, "*.ml")))
    h = hashlib.sha256()
    for f in srcs:
        h.update(open(f, "rb").read())
    stamp = exe + ".stamp"
    if os.path.exists(exe) and os.path.exists(stamp) and open(stamp).read() == h.hexdigest():
        return exe
    bd = os.path.join(BUILD, "ocaml-%s" % group)
    shutil.rmtree(bd, ignore_errors=True)
    os.makedirs(bd)
    for f in srcs:
        shutil.copy(f, bd)
    order_file = os.path.join(drv, "ORDER")
    order = open(order_file).read().split()
    rc, out = sh(["ocamlfind", "ocamlopt", "-O3", "-unboxed-types"] if False else
                 ["ocamlfind", "ocamlopt", "-w", "-a", "-o", exe] + order, cwd=bd, timeout=900)
    if rc != 0:
        raise RuntimeError("ocaml build failed for %s:\n%s" % (group, out[-3000:]))
    open(stamp, "w").write(h.hexdigest())
    return exe


# ----------------------------------------------------------------------------
# Rust side
# ----------------------------------------------------------------------------

def cargo_build(bins, profile="dev", features=("verif-hooks",)):
    """Rebuild the harness (path dependency on /repo) from the current tree.
    With VERIF_REPO=<dir> (a scratch copy/worktree of the repository, used for mutation
    experiments) a private copy of the harness crate is built against that directory."""
    hdir = HARNESS
    if os.path.realpath(REPO) != "/repo":
        tag = hashlib.sha1(os.path.realpath(REPO).encode()).hexdigest()[:10]
        hdir = os.path.join(BUILD, "harness-" + tag)
        os.makedirs(os.path.join(hdir, "src"), exist_ok=True)
        sh(["rsync", "-a", "--delete", os.path.join(HARNESS, "src") + "/", os.path.join(hdir, "src") + "/"])
        toml = open(os.path.join(HARNESS, "Cargo.toml")).read().replace('path = "/repo"', 'path = "%s"' % os.path.realpath(REPO))
        open(os.path.join(hdir, "Cargo.toml"), "w").write(toml)
        shutil.copy(os.path.join(HARNESS, "Cargo.lock"), os.path.join(hdir, "Cargo.lock"))
    args = ["cargo", "build", "--offline"]
    if profile == "release":
        args.append("--release")
    for b in bins:
        args += ["--bin", b]
    e = env_offline()
    e["CARGO_TARGET_DIR"] = os.path.join(hdir, "target")
    rc, out = sh(args, cwd=hdir, timeout=1800, env=e)
    if rc != 0:
        return None, out
    sub = "release" if profile == "release" else "debug"
    return {b: os.path.join(hdir, "target", sub, b) for b in bins}, out


# ----------------------------------------------------------------------------
# findings, evidence, verdict
# ----------------------------------------------------------------------------

def known_findings(pid):
    """lines `known: property=Cxx class=<id> <text>` of known_findings.txt"""
    res = []
    p = os.path.join(VERIF, "known_findings.txt")
    if os.path.exists(p):
        for line in open(p):
            m = re.match(r"known:\s+property=(\w+)\s+class=(\S+)\s+(.*)", line.strip())
            if m and m.group(1) == pid:
                res.append((m.group(2), m.group(3)))
    return res


class Run:
    def __init__(self, pid, tier, seed):
        self.pid, self.tier, self.seed = pid, tier, seed
        self.t0 = time.time()
        self.violations = []      # (text, replay_path, no_input)
        self.known_hits = {}      # class -> text
        self.coverage = {}
        self.assumptions = []
        self.notes = []

    def violation(self, what, replay_text, no_input=False):
        os.makedirs(os.path.join(REPLAYS, self.pid), exist_ok=True)
        n = len(self.violations)
        path = os.path.join(REPLAYS, self.pid, "%s-%d.replay" % (self.tier, n))
        with open(path, "w") as fh:
            fh.write("# property %s, seed %d, tier %s\n# %s\n" % (self.pid, self.seed, self.tier, what))
            fh.write(replay_text if replay_text.endswith("\n") else replay_text + "\n")
        self.violations.append((what, path, no_input))

    def known(self, cls, text):
        self.known_hits[cls] = text

    def finish(self, level="proof"):
        wall = time.time() - self.t0
        ev = dict(property_id=self.pid, tier=self.tier, seed=self.seed, level=level,
                  coverage=self.coverage, assumptions=self.assumptions,
                  wall_s=round(wall, 2), violations=len(self.violations))
        if self.notes:
            ev["coverage"]["notes"] = self.notes
        # evidence describes runs against /repo itself; experiments against a scratch repository (VERIF_REPO) go elsewhere
        evdir = EVID if os.path.realpath(REPO) == "/repo" else os.path.join(BUILD, "evidence-scratch")
        if os.environ.get("VERIF_EVIDENCE_DIR"):     # seed-variation experiments must not overwrite the committed evidence
            evdir = os.environ["VERIF_EVIDENCE_DIR"]
        os.makedirs(evdir, exist_ok=True)
        with open(os.path.join(evdir, self.pid + ".json"), "w") as fh:
            json.dump(ev, fh, indent=1, sort_keys=True)
            fh.write("\n")
        listed = dict(known_findings(self.pid))
        for cls, text in listed.items():
            if cls in self.known_hits:
                print("KNOWN-FINDING: property=%s %s" % (self.pid, text))
            else:
                print("note: listed finding class=%s was not re-observed in this run" % cls)
        for what, path, no_input in self.violations:
            print("# %s" % what)
            print("VIOLATION property=%s replay=%s%s" % (self.pid, path, " no-failing-input-found" if no_input else ""))
        sys.stdout.flush()
        return 1 if self.violations else 0


TRUSTED_BASE_COMMON = [
    "Coq 8.16.1 kernel (coqc) incl. its vm_compute machine for the finite sweeps; native_compute is not used",
    "no axiom declared by the development; Print Assumptions of every property theorem is recorded under 'axioms'",
    "extraction to OCaml with ExtrOcamlBasic only (bool/option/list/prod/unit/sumbool mapped to OCaml's; N/Z/positive/nat stay extracted inductives; no Extract Constant), ocamlopt 4.13.1, and the hand-written model-side driver under ocaml/",
    "correspondence check (differential testing, not proof): harness crate built against /repo's working tree, python generators and differ; its measured coverage is in this file",
]
