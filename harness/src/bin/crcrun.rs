//! implementation-side runner for C19: same commands, same canonical lines as ocaml/crc/driver.ml
use embedded_sdmmc::sdcard::proto::{crc16, crc7};
use std::io::{self, BufRead, Write};

const PRIME: u64 = 2147483647;
fn step(h: u64, r: u64) -> u64 {
    (h * 1000003 + r + 1) % PRIME
}
fn msg_of_idx(len: usize, mut k: u64) -> Vec<u8> {
    let mut v = vec![0u8; len];
    for i in (0..len).rev() {
        v[i] = (k & 255) as u8;
        k >>= 8;
    }
    v
}
fn unhex(s: &str) -> Vec<u8> {
    (0..s.len() / 2).map(|i| u8::from_str_radix(&s[2 * i..2 * i + 2], 16).unwrap()).collect()
}

fn main() {
    let stdin = io::stdin();
    let out = io::stdout();
    let mut out = io::BufWriter::new(out.lock());
    for line in stdin.lock().lines() {
        let line = line.unwrap();
        let p: Vec<&str> = line.trim().split(' ').collect();
        match p.as_slice() {
            ["E", len, start, count, stride] => {
                let (len, start, count, stride): (usize, u64, u64, u64) =
                    (len.parse().unwrap(), start.parse().unwrap(), count.parse().unwrap(), stride.parse().unwrap());
                let (mut h7, mut h16) = (0u64, 0u64);
                for t in 0..count {
                    let m = msg_of_idx(len, start + t * stride);
                    h7 = step(h7, crc7(&m) as u64);
                    h16 = step(h16, crc16(&m) as u64);
                    if (t + 1) % 4096 == 0 || t == count - 1 {
                        writeln!(out, "D {} {} {}", t + 1, h7, h16).unwrap();
                        h7 = 0;
                        h16 = 0;
                    }
                }
            }
            ["L", len, start, count, stride] => {
                let (len, start, count, stride): (usize, u64, u64, u64) =
                    (len.parse().unwrap(), start.parse().unwrap(), count.parse().unwrap(), stride.parse().unwrap());
                for t in 0..count {
                    let m = msg_of_idx(len, start + t * stride);
                    writeln!(out, "R {} {} {}", start + t * stride, crc7(&m), crc16(&m)).unwrap();
                }
            }
            ["M", hex] => {
                let m = unhex(hex);
                writeln!(out, "R {} {}", crc7(&m), crc16(&m)).unwrap();
            }
            ["M"] => writeln!(out, "R {} {}", crc7(&[]), crc16(&[])).unwrap(),
            [""] => {}
            _ => writeln!(out, "ERR bad command {}", line).unwrap(),
        }
    }
}
